import GeoVerif.Spec.GeoJson
import Mathlib.Tactic.Linarith
import Mathlib.Tactic.Ring
import Mathlib.Tactic.NormNum
import Mathlib.Algebra.Order.Field.Rat
/-!
# Helper lemmas for C14: dict operations, `mapE`, `sanitize_json`, coordinate and ring round trips
-/
namespace GV.GeoJson

/-! ### `Except` plumbing -/

@[scoped simp] theorem ok_bind {ε α β : Type} (a : α) (f : α → Except ε β) : (Except.ok a >>= f) = f a := rfl
@[scoped simp] theorem error_bind {ε α β : Type} (e : ε) (f : α → Except ε β) :
    ((Except.error e : Except ε α) >>= f) = Except.error e := rfl
@[scoped simp] theorem pure_eq_ok {ε α : Type} (a : α) : (pure a : Except ε α) = Except.ok a := rfl
@[scoped simp] theorem map_ok {ε α β : Type} (f : α → β) (a : α) : f <$> (Except.ok a : Except ε α) = Except.ok (f a) := rfl
@[scoped simp] theorem map_error {ε α β : Type} (f : α → β) (e : ε) :
    f <$> (Except.error e : Except ε α) = Except.error e := rfl
@[scoped simp] theorem exc_map_ok {ε α β : Type} (f : α → β) (a : α) :
    Except.map f (Except.ok a : Except ε α) = Except.ok (f a) := rfl

theorem bind_eq_ok {ε α β : Type} {x : Except ε α} {f : α → Except ε β} {b : β}
    (h : (x >>= f) = .ok b) : ∃ a, x = .ok a ∧ f a = .ok b := by
  cases x with
  | error e => simp at h
  | ok a => exact ⟨a, rfl, by simpa using h⟩

/-! ### dicts -/

@[scoped simp] theorem oget_nil (k : String) : oget [] k = none := rfl

theorem oget_cons (k' : String) (v : J) (r : Obj) (k : String) :
    oget ((k', v) :: r) k = if k' = k then some v else oget r k := rfl

theorem oget_oset_self (o : Obj) (k : String) (v : J) : oget (oset o k v) k = some v := by
  induction o with
  | nil => simp [oset, oget]
  | cons kv r ih =>
    obtain ⟨k', v'⟩ := kv
    by_cases h : k' = k
    · simp [oset, oget, h]
    · simp [oset, oget, h, ih]

theorem oget_oset_ne (o : Obj) (k k' : String) (v : J) (h : k ≠ k') :
    oget (oset o k v) k' = oget o k' := by
  induction o with
  | nil => simp [oset, oget, h]
  | cons kv r ih =>
    obtain ⟨k0, v0⟩ := kv
    by_cases h0 : k0 = k
    · subst h0; simp [oset, oget, h]
    · by_cases h1 : k0 = k'
      · subst h1; simp [oset, oget, h0]
      · simp [oset, oget, h0, h1, ih]

theorem oset_absent (o : Obj) (k : String) (v : J) (h : oget o k = none) : oset o k v = o ++ [(k, v)] := by
  induction o with
  | nil => rfl
  | cons kv r ih =>
    obtain ⟨k0, v0⟩ := kv
    by_cases h0 : k0 = k
    · simp [oget, h0] at h
    · simp [oget, h0] at h
      simp [oset, h0, ih h]

theorem oget_append_absent (o r : Obj) (k : String) (h : oget o k = none) : oget (o ++ r) k = oget r k := by
  induction o with
  | nil => rfl
  | cons kv t ih =>
    obtain ⟨k0, v0⟩ := kv
    by_cases h0 : k0 = k
    · simp [oget, h0] at h
    · simp [oget, h0] at h
      simp [oget, h0, ih h]

theorem oget_append_present (o r : Obj) (k : String) (v : J) (h : oget o k = some v) :
    oget (o ++ r) k = some v := by
  induction o with
  | nil => simp at h
  | cons kv t ih =>
    obtain ⟨k0, v0⟩ := kv
    by_cases h0 : k0 = k
    · simp [oget, h0] at h ⊢; exact h
    · simp [oget, h0] at h
      simp [oget, h0, ih h]

theorem oerase_append_absent (o r : Obj) (k : String) (h : oget o k = none) :
    oerase (o ++ r) k = o ++ oerase r k := by
  induction o with
  | nil => rfl
  | cons kv t ih =>
    obtain ⟨k0, v0⟩ := kv
    by_cases h0 : k0 = k
    · simp [oget, h0] at h
    · simp [oget, h0] at h
      simp [oerase, h0, ih h]

theorem oerase_absent (o : Obj) (k : String) (h : oget o k = none) : oerase o k = o := by
  have := oerase_append_absent o [] k h
  simpa [oerase] using this

theorem oget_none_of_not_mem (o : Obj) (k : String) (h : k ∉ okeys o) : oget o k = none := by
  induction o with
  | nil => rfl
  | cons kv t ih =>
    obtain ⟨k0, v0⟩ := kv
    simp [okeys] at h
    have h0 : ¬ k0 = k := fun e => h.1 e.symm
    simp [oget, h0]
    exact ih (by simpa [okeys] using h.2)

theorem oset_oget_self (o : Obj) (k : String) (v : J) (h : oget o k = some v) : oset o k v = o := by
  induction o with
  | nil => simp at h
  | cons kv t ih =>
    obtain ⟨k0, v0⟩ := kv
    by_cases h0 : k0 = k
    · simp [oget, h0] at h
      simp [oset, h0, h]
    · simp [oget, h0] at h
      simp [oset, h0, ih h]

@[scoped simp] theorem oupdate_nil (a : Obj) : oupdate a [] = a := rfl

theorem oupdate_cons (a : Obj) (k : String) (v : J) (b : Obj) :
    oupdate a ((k, v) :: b) = oupdate (oset a k v) b := rfl

/-- a key the second dict does not have keeps the first dict's value -/
theorem oget_oupdate_absent (a b : Obj) (k : String) (h : oget b k = none) :
    oget (oupdate a b) k = oget a k := by
  induction b generalizing a with
  | nil => rfl
  | cons kv t ih =>
    obtain ⟨k0, v0⟩ := kv
    by_cases h0 : k0 = k
    · simp [oget, h0] at h
    · simp [oget, h0] at h
      rw [oupdate_cons, ih _ h, oget_oset_ne _ _ _ _ h0]

/-- a key of the second dict (distinct keys) carries the second dict's value -/
theorem oget_oupdate_present (a b : Obj) (k : String) (v : J) (hb : KeysNodup b) (h : oget b k = some v) :
    oget (oupdate a b) k = some v := by
  induction b generalizing a with
  | nil => simp at h
  | cons kv t ih =>
    obtain ⟨k0, v0⟩ := kv
    have hnd : k0 ∉ okeys t ∧ KeysNodup t := by
      simpa [KeysNodup, okeys] using hb
    by_cases h0 : k0 = k
    · subst h0
      simp [oget] at h
      subst h
      rw [oupdate_cons, oget_oupdate_absent _ _ _ (oget_none_of_not_mem _ _ hnd.1), oget_oset_self]
    · simp [oget, h0] at h
      rw [oupdate_cons]
      exact ih _ hnd.2 h

theorem ohas_eq_false {o : Obj} {k : String} (h : oget o k = none) : ohas o k = false := by
  simp [ohas, h]

/-! ### `mapE` -/

theorem mapE_map_ok {α β γ : Type} (f : β → Except String γ) (g : α → β) (h : α → γ) (l : List α)
    (hx : ∀ x ∈ l, f (g x) = .ok (h x)) : mapE f (l.map g) = .ok (l.map h) := by
  induction l with
  | nil => rfl
  | cons x xs ih =>
    have h1 := hx x (by simp)
    have h2 := ih (fun y hy => hx y (by simp [hy]))
    simp [mapE, h1, h2]

theorem mapE_map_id {α β : Type} (f : β → Except String α) (g : α → β) (l : List α)
    (hx : ∀ x ∈ l, f (g x) = .ok x) : mapE f (l.map g) = .ok l := by
  have := mapE_map_ok f g id l (by simpa using hx)
  simpa using this

theorem mapE_ok_id {α : Type} (f : α → Except String α) (l : List α)
    (hx : ∀ x ∈ l, f x = .ok x) : mapE f l = .ok l := by
  have := mapE_map_id f id l (by simpa using hx)
  simpa using this

theorem mapE_cons_ok {α β : Type} {f : α → Except String β} {x : α} {xs : List α} {r : List β}
    (h : mapE f (x :: xs) = .ok r) : ∃ y ys, f x = .ok y ∧ mapE f xs = .ok ys ∧ r = y :: ys := by
  simp only [mapE] at h
  obtain ⟨y, hy, h⟩ := bind_eq_ok h
  obtain ⟨ys, hys, h⟩ := bind_eq_ok h
  simp at h
  exact ⟨y, ys, hy, hys, h.symm⟩

/-! ### `sanitize_json` -/

mutual
theorem sanitize_of_native (rt : Rt) : ∀ j : J, j.native = true → sanitize rt j = j
  | .null, _ => rfl
  | .bool _, _ => rfl
  | .num _, _ => rfl
  | .str _, _ => rfl
  | .dt _, h => by simp [J.native] at h
  | .arr xs, h => by
      simp only [J.native] at h
      simp [sanitize, sanList_of_native rt xs h]
  | .obj kvs, h => by
      simp only [J.native] at h
      simp [sanitize, sanKvs_of_native rt kvs h]
theorem sanList_of_native (rt : Rt) : ∀ xs : List J, nativeList xs = true → sanList rt xs = xs
  | [], _ => rfl
  | x :: xs, h => by
      simp only [nativeList, Bool.and_eq_true] at h
      simp [sanList, sanitize_of_native rt x h.1, sanList_of_native rt xs h.2]
theorem sanKvs_of_native (rt : Rt) : ∀ kvs : List (String × J), nativeKvs kvs = true → sanKvs rt kvs = kvs
  | [], _ => rfl
  | (k, v) :: r, h => by
      simp only [nativeKvs, Bool.and_eq_true] at h
      simp [sanKvs, sanitize_of_native rt v h.1, sanKvs_of_native rt r h.2]
end

mutual
/-- whatever goes in, what `sanitize_json` returns contains no `datetime` -/
theorem native_sanitize (rt : Rt) : ∀ j : J, (sanitize rt j).native = true
  | .null => rfl
  | .bool _ => rfl
  | .num _ => rfl
  | .str _ => rfl
  | .dt _ => rfl
  | .arr xs => by simp [sanitize, J.native, native_sanList rt xs]
  | .obj kvs => by simp [sanitize, J.native, native_sanKvs rt kvs]
theorem native_sanList (rt : Rt) : ∀ xs : List J, nativeList (sanList rt xs) = true
  | [] => rfl
  | x :: xs => by simp [sanList, nativeList, native_sanitize rt x, native_sanList rt xs]
theorem native_sanKvs (rt : Rt) : ∀ kvs : List (String × J), nativeKvs (sanKvs rt kvs) = true
  | [] => rfl
  | (k, v) :: r => by simp [sanKvs, nativeKvs, native_sanitize rt v, native_sanKvs rt r]
end

theorem sanKvs_append (rt : Rt) (a b : Obj) : sanKvs rt (a ++ b) = sanKvs rt a ++ sanKvs rt b := by
  induction a with
  | nil => rfl
  | cons kv t ih => obtain ⟨k, v⟩ := kv; simp [sanKvs, ih]

theorem oget_sanKvs (rt : Rt) (o : Obj) (k : String) :
    oget (sanKvs rt o) k = (oget o k).map (sanitize rt) := by
  induction o with
  | nil => rfl
  | cons kv t ih =>
    obtain ⟨k0, v0⟩ := kv
    by_cases h0 : k0 = k
    · simp [sanKvs, oget, h0]
    · simp [sanKvs, oget, h0, ih]

theorem nativeKvs_append (a b : Obj) : nativeKvs (a ++ b) = (nativeKvs a && nativeKvs b) := by
  induction a with
  | nil => simp [nativeKvs]
  | cons kv t ih => obtain ⟨k, v⟩ := kv; simp [nativeKvs, ih, Bool.and_assoc]

theorem native_of_oget {o : Obj} {k : String} {v : J} (h : nativeKvs o = true) (hk : oget o k = some v) :
    v.native = true := by
  induction o with
  | nil => simp at hk
  | cons kv t ih =>
    obtain ⟨k0, v0⟩ := kv
    simp only [nativeKvs, Bool.and_eq_true] at h
    by_cases h0 : k0 = k
    · simp [oget, h0] at hk; subst hk; exact h.1
    · simp [oget, h0] at hk; exact ih h.2 hk

theorem nativeKvs_oset {o : Obj} {k : String} {v : J} (h : nativeKvs o = true) (hv : v.native = true) :
    nativeKvs (oset o k v) = true := by
  induction o with
  | nil => simp [oset, nativeKvs, hv]
  | cons kv t ih =>
    obtain ⟨k0, v0⟩ := kv
    simp only [nativeKvs, Bool.and_eq_true] at h
    by_cases h0 : k0 = k
    · simp [oset, h0, nativeKvs, hv, h.2]
    · simp [oset, h0, nativeKvs, h.1, ih h.2]

theorem nativeKvs_oupdate {a b : Obj} (ha : nativeKvs a = true) (hb : nativeKvs b = true) :
    nativeKvs (oupdate a b) = true := by
  induction b generalizing a with
  | nil => simpa using ha
  | cons kv t ih =>
    obtain ⟨k0, v0⟩ := kv
    simp only [nativeKvs, Bool.and_eq_true] at hb
    rw [oupdate_cons]
    exact ih (nativeKvs_oset ha hb.1) hb.2

/-! ### coordinates -/

theorem normalize_id {lon lat : Rat} (h1 : -180 ≤ lon) (h2 : lon < 180) (h3 : -90 ≤ lat) (h4 : lat ≤ 90) :
    normalize true lon lat = (lon, lat) := by
  have hl : latLoop (fuelLat lat) lon lat = (lon, lat) := by
    unfold fuelLat
    simp [latLoop, h3, h4]
  have hlo : lonLoop (fuelLon lon) lon = lon := by
    unfold fuelLon
    simp [lonLoop, h1, le_of_lt h2]
  have hne : lon ≠ 180 := ne_of_lt h2
  simp [normalize, hl, hlo, hne]

theorem posOfJ_posToJ (p : Pos) (h : PosOK p) : posOfJ (posToJ p) = .ok p := by
  obtain ⟨lon, lat, z⟩ := p
  obtain ⟨h1, h2, h3, h4⟩ := h
  have hn := normalize_id h1 h2 h3 h4
  cases z with
  | none => simp [posToJ, posOfJ, toFloat, hn]
  | some z => simp [posToJ, posOfJ, toFloat, hn]

theorem ringOfJ_ringToJ (r : List Pos) (h : ∀ p ∈ r, PosOK p) : ringOfJ (ringToJ r) = .ok r := by
  simp only [ringToJ, ringOfJ]
  exact mapE_map_id _ _ _ (fun p hp => posOfJ_posToJ p (h p hp))

theorem ringsOfJ_ringsToJ (rs : List (List Pos)) (h : ∀ r ∈ rs, ∀ p ∈ r, PosOK p) :
    mapE ringOfJ (rs.map ringToJ) = .ok rs :=
  mapE_map_id _ _ _ (fun r hr => ringOfJ_ringToJ r (h r hr))

/-! ### rings -/

theorem closed_reverse {α : Type} {r : List α} (h : Closed r) : Closed r.reverse := by
  unfold Closed at *
  rw [List.head?_reverse, List.getLast?_reverse, h]

theorem closeRingP_of_closed {r : List Pos} (h : Closed r) : closeRingP r = r := by
  unfold Closed at h
  unfold closeRingP
  cases hh : r.head? with
  | none => simp
  | some a =>
    rw [hh] at h
    rw [← h]
    simp

theorem closeRingP_closed (r : List Pos) : Closed (closeRingP r) := by
  unfold closeRingP
  cases hh : r.head? with
  | none =>
    have : r = [] := by simpa using hh
    subst this; simp [Closed]
  | some a =>
    cases hl : r.getLast? with
    | none =>
      have : r = [] := by simpa using hl
      subst this; simp at hh
    | some b =>
      by_cases hab : a = b
      · simp [hab, Closed, hh, hl]
      · have hne : r ≠ [] := by intro e; subst e; simp at hh
        simp only [hab, if_false]
        unfold Closed
        simp [List.head?_append, hh]

theorem mkOutlineP_closed {raw o : List Pos} (h : mkOutlineP raw = .ok o) : Closed o := by
  unfold mkOutlineP at h
  by_cases he : raw.isEmpty
  · simp [he] at h
  · simp only [he, Bool.false_eq_true, if_false] at h
    have hc := closeRingP_closed raw
    injection h with h
    subst h
    split
    · exact closed_reverse hc
    · exact hc

theorem mkOutlineP_ne_nil {raw o : List Pos} (h : mkOutlineP raw = .ok o) : o ≠ [] := by
  unfold mkOutlineP at h
  by_cases he : raw.isEmpty
  · simp [he] at h
  · simp only [he, Bool.false_eq_true, if_false] at h
    have hne : raw ≠ [] := by simpa using he
    have hc : closeRingP raw ≠ [] := by
      unfold closeRingP
      split
      · split
        · exact hne
        · simp
      · exact hne
    injection h with h
    subst h
    split
    · simpa using hc
    · exact hc

/-- the constructor leaves an outline that is counter-clockwise for the library's own test, provided
    reversing a clockwise ring makes it counter-clockwise (`hrev`, true off the antimeridian:
    `isCCW_of_reverse_not`) -/
theorem mkOutlineP_shell {r : List Pos} (h : ShellOK r) : mkOutlineP r = .ok r := by
  obtain ⟨hne, hc, hccw⟩ := h
  have he : r.isEmpty = false := by simpa using hne
  simp [mkOutlineP, he, closeRingP_of_closed hc, hccw]

theorem mkOutlineP_hole_reverse {h : List Pos} (hh : HoleOK h) : mkOutlineP h.reverse = .ok h := by
  obtain ⟨⟨hne, hc, _⟩, hrev⟩ := hh
  have he : h.reverse.isEmpty = false := by simpa using hne
  rw [List.map_reverse] at hrev
  simp [mkOutlineP, he, closeRingP_of_closed (closed_reverse hc), hrev]

end GV.GeoJson
