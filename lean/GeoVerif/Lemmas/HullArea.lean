import GeoVerif.Lemmas.HullAssemble
import Mathlib.Tactic.LinearCombination

/-!
# The hull ring passes `is_counter_clockwise` (shoelace sum ≤ 0), so `GeoPolygon(...)` keeps it

For a closed ring, shoelace sum = − Σ cross(o, vᵢ, vᵢ₊₁) for any origin `o` (telescoping); with `o` an
input point every term is ≥ 0 because the hull contains `o`.
-/
namespace GV.Hull

/-- no two points further apart than 180° of longitude (then `ensure_edge_bounds` is the identity) -/
def LonSpan (pts : List Pt) : Prop := ∀ p ∈ pts, ∀ q ∈ pts, p.1 - q.1 ≤ 180

theorem ensureEdge_id {a b : Pt} (h1 : a.1 - b.1 ≤ 180) (h2 : b.1 - a.1 ≤ 180) :
    ensureEdge a b = (a, b) := by
  unfold ensureEdge absR
  have : ¬ ((if a.1 - b.1 < 0 then -(a.1 - b.1) else a.1 - b.1) > 180) := by
    split <;> linarith
  rw [if_neg this]

theorem foldl_add_acc (l : List Rat) (acc : Rat) :
    l.foldl (· + ·) acc = acc + l.foldl (· + ·) 0 := by
  induction l generalizing acc with
  | nil => simp
  | cons x xs ih => simp only [List.foldl_cons]; rw [ih, ih (0 + x)]; ring

/-- sum of `g` over a list of edges, written as the model writes it -/
def esum (g : Edge → Rat) (es : List Edge) : Rat := (es.map g).foldl (· + ·) 0

theorem esum_nil (g : Edge → Rat) : esum g [] = 0 := rfl

theorem esum_cons (g : Edge → Rat) (e : Edge) (es : List Edge) : esum g (e :: es) = g e + esum g es := by
  unfold esum; simp only [List.map_cons, List.foldl_cons]; rw [foldl_add_acc]; ring

theorem esum_congr {g h : Edge → Rat} : ∀ {es : List Edge}, (∀ e ∈ es, g e = h e) → esum g es = esum h es
  | [], _ => rfl
  | e :: es, H => by
    rw [esum_cons, esum_cons, H e (by simp), esum_congr (fun e' he' => H e' (List.mem_cons_of_mem _ he'))]

theorem esum_nonneg {g : Edge → Rat} : ∀ {es : List Edge}, (∀ e ∈ es, 0 ≤ g e) → 0 ≤ esum g es
  | [], _ => le_refl _
  | e :: es, H => by
    rw [esum_cons]
    exact add_nonneg (H e (by simp)) (esum_nonneg (fun e' he' => H e' (List.mem_cons_of_mem _ he')))

def edgeTerm (e : Edge) : Rat := (e.2.1 - e.1.1) * (e.2.2 + e.1.2)

/-- telescoping: along a path `a, vs…, z` the shoelace terms plus the fan areas around `o` sum to
    `G z − G a` -/
theorem tele (o : Pt) : ∀ (a : Pt) (vs : List Pt) (z : Pt),
    esum edgeTerm ((a :: vs).zip (vs ++ [z])) + esum (fun e => cross o e.1 e.2) ((a :: vs).zip (vs ++ [z]))
      = (z.1 * z.2 - o.1 * z.2 + o.2 * z.1) - (a.1 * a.2 - o.1 * a.2 + o.2 * a.1)
  | a, [], z => by
    simp only [List.nil_append, List.zip_cons_cons, List.zip_nil_right, esum_cons, esum_nil]
    unfold edgeTerm cross; ring
  | a, b :: vs, z => by
    have ih := tele o b vs z
    simp only [List.cons_append, List.zip_cons_cons, esum_cons] at ih ⊢
    have e : edgeTerm (a, b) + cross o (a, b).1 (a, b).2 =
        (b.1 * b.2 - o.1 * b.2 + o.2 * b.1) - (a.1 * a.2 - o.1 * a.2 + o.2 * a.1) := by
      unfold edgeTerm cross; ring
    linarith

theorem zip_rel {R : Pt → Pt → Prop} : ∀ (a : Pt) (vs : List Pt) (z : Pt),
    List.IsChain R (a :: vs) → (∀ l ∈ (a :: vs).getLast?, R l z) →
    ∀ e ∈ (a :: vs).zip (vs ++ [z]), R e.1 e.2
  | a, [], z, _, hl, e, he => by
    simp at he; subst he; exact hl a (by simp)
  | a, b :: vs, z, hc, hl, e, he => by
    simp only [List.cons_append, List.zip_cons_cons, List.mem_cons] at he
    rcases he with rfl | he
    · exact (List.isChain_cons_cons.mp hc).1
    · exact zip_rel b vs z (List.isChain_cons_cons.mp hc).2
        (fun l hl' => hl l (by simpa [List.getLast?_cons_cons] using hl')) e he

theorem cross_rot (o a b : Pt) : cross o a b = cross a b o := by unfold cross; ring

/-- a closed ring over points within 180° of longitude whose edges all have `o` on their left
    passes `is_counter_clockwise` -/
theorem isCCW_of_contains {ring : List Pt} {o : Pt} (hclosed : ring.head? = ring.getLast?)
    (hspan : LonSpan ring) (hcont : Contains ring o) : isCCW ring = true := by
  unfold isCCW shoelace
  rw [decide_eq_true_eq]
  match ring, hclosed, hspan, hcont with
  | [], _, _, _ => simp [cyclicPairs]
  | a :: vs, hclosed, hspan, hcont =>
    have hmem : ∀ e ∈ cyclicPairs (a :: vs), e.1 ∈ a :: vs ∧ e.2 ∈ a :: vs := by
      intro e he
      unfold cyclicPairs at he
      have := List.of_mem_zip he
      refine ⟨this.1, ?_⟩
      rcases List.mem_append.mp this.2 with h | h
      · exact List.mem_cons_of_mem _ h
      · simp at h; rw [h]; simp
    have h1 : (List.map (fun e => let e' := ensureEdge e.1 e.2; (e'.2.1 - e'.1.1) * (e'.2.2 + e'.1.2))
        (cyclicPairs (a :: vs))).foldl (· + ·) 0 = esum edgeTerm (cyclicPairs (a :: vs)) := by
      apply esum_congr
      intro e he
      obtain ⟨m1, m2⟩ := hmem e he
      simp only [ensureEdge_id (hspan _ m1 _ m2) (hspan _ m2 _ m1)]
      rfl
    rw [h1]
    have ht := tele o a vs a
    have hnn : 0 ≤ esum (fun e => cross o e.1 e.2) ((a :: vs).zip (vs ++ [a])) := by
      apply esum_nonneg
      intro e he
      rw [cross_rot]
      refine zip_rel (R := fun u v => 0 ≤ cross u v o) a vs a hcont ?_ e he
      intro l hl
      have : l = a := by
        have h' : (a :: vs).getLast? = some l := hl
        rw [← hclosed] at h'; simpa using h'.symm
      rw [this]; unfold cross; ring_nf; exact le_refl _
    unfold cyclicPairs
    linarith

end GV.Hull
