import GeoVerif.Model.Sphere
import Mathlib.Analysis.SpecialFunctions.Trigonometric.Inverse
import Mathlib.Analysis.SpecialFunctions.Complex.Arg
import Mathlib.Analysis.SpecialFunctions.Sqrt
import Mathlib.Algebra.Order.Floor.Ring
import Mathlib.Tactic.Ring
import Mathlib.Tactic.Linarith
import Mathlib.Tactic.NormNum
import Mathlib.Tactic.FieldSimp
/-!
# The real-number instance of the geodesy signature

`Num ℝ` interprets every operation of `Model/Num.lean` by its Mathlib counterpart
(`atan2 y x = Complex.arg (x + i y)`, which is the two-argument arctangent with range `(-π, π]`;
`floor`/`ceil` are `Int.floor`/`Int.ceil`; comparisons are decided classically).

The bridging lemmas `*_real` are all `rfl`: the generic definition at `ℝ` *is* the textbook
expression, so a theorem about the textbook expression is a theorem about the model.
-/
namespace GV.NumReal

open Real

noncomputable instance instReal : Num ℝ where
  add := (· + ·)
  sub := (· - ·)
  mul := (· * ·)
  div := (· / ·)
  neg := (- ·)
  ofRat r := (r : ℝ)
  sqrt := Real.sqrt
  sin := Real.sin
  cos := Real.cos
  asin := Real.arcsin
  acos := Real.arccos
  atan2 y x := Complex.arg ⟨x, y⟩
  pow2 x := x ^ 2
  pi := Real.pi
  floor x := (⌊x⌋ : ℝ)
  ceilI x := ⌈x⌉
  lt a b := decide (a < b)
  le a b := decide (a ≤ b)

/-- two-argument arctangent over ℝ -/
noncomputable def atan2 (y x : ℝ) : ℝ := Complex.arg ⟨x, y⟩

theorem add_real (a b : ℝ) : @HAdd.hAdd ℝ ℝ ℝ (@instHAdd ℝ (Num.toAdd)) a b = a + b := rfl
theorem sub_real (a b : ℝ) : @HSub.hSub ℝ ℝ ℝ (@instHSub ℝ (Num.toSub)) a b = a - b := rfl
theorem mul_real (a b : ℝ) : @HMul.hMul ℝ ℝ ℝ (@instHMul ℝ (Num.toMul)) a b = a * b := rfl
theorem div_real (a b : ℝ) : @HDiv.hDiv ℝ ℝ ℝ (@instHDiv ℝ (Num.toDiv)) a b = a / b := rfl
theorem neg_real (a : ℝ) : @Neg.neg ℝ (Num.toNeg) a = -a := rfl
theorem ofRat_real (r : ℚ) : (Num.ofRat r : ℝ) = (r : ℝ) := rfl
theorem ofI_real (i : ℤ) : (Num.ofI i : ℝ) = (i : ℝ) := by
  show ((i : ℚ) : ℝ) = (i : ℝ); exact Rat.cast_intCast i
theorem ofN_real (n : ℕ) : (Num.ofN n : ℝ) = (n : ℝ) := by
  show ((n : ℚ) : ℝ) = (n : ℝ); exact Rat.cast_natCast n
theorem sqrt_real (a : ℝ) : Num.sqrt a = √a := rfl
theorem sin_real (a : ℝ) : Num.sin a = Real.sin a := rfl
theorem cos_real (a : ℝ) : Num.cos a = Real.cos a := rfl
theorem asin_real (a : ℝ) : Num.asin a = Real.arcsin a := rfl
theorem acos_real (a : ℝ) : Num.acos a = Real.arccos a := rfl
theorem atan2_real (y x : ℝ) : Num.atan2 y x = atan2 y x := rfl
theorem pow2_real (a : ℝ) : Num.pow2 a = a ^ 2 := rfl
theorem pi_real : (Num.pi : ℝ) = π := rfl
theorem floor_real (a : ℝ) : Num.floor a = (⌊a⌋ : ℝ) := rfl
theorem ceilI_real (a : ℝ) : Num.ceilI a = ⌈a⌉ := rfl
theorem lt_real (a b : ℝ) : Num.lt a b = decide (a < b) := rfl
theorem le_real (a b : ℝ) : Num.le a b = decide (a ≤ b) := rfl

/-- simp set turning a generic model term at `ℝ` into a plain Mathlib expression -/
macro "num_simp" : tactic =>
  `(tactic| simp only [NumReal.add_real, NumReal.sub_real, NumReal.mul_real, NumReal.div_real,
      NumReal.neg_real, NumReal.ofI_real, NumReal.ofN_real, NumReal.ofRat_real, NumReal.sqrt_real,
      NumReal.sin_real, NumReal.cos_real, NumReal.asin_real, NumReal.acos_real, NumReal.atan2_real,
      NumReal.pi_real, NumReal.pow2_real, NumReal.floor_real, NumReal.ceilI_real, NumReal.lt_real, NumReal.le_real,
      Int.cast_ofNat, Int.cast_neg, Int.cast_zero, Int.cast_one, decide_eq_true_eq,
      Bool.and_eq_true, Bool.not_eq_true', decide_eq_false_iff_not])

open Sphere in
example (a b c d : ℝ) : havA a b c d =
    Real.sin ((c - a) / 2) ^ 2 + Real.cos a * Real.cos c * Real.sin ((d - b) / 2) ^ 2 := by
  unfold havA sqr
  num_simp

end GV.NumReal
