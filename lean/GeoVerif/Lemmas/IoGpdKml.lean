import GeoVerif.Lemmas.IoColl

/-!
# Collections through the GeoPandas and the KML channel — helper proofs for C20
-/
namespace GV.Io

/-! ## more dictionary facts -/

theorem dictGet_map_keys {α} (g : String → α) (k : String) : ∀ (ks : List String),
    dictGet (ks.map fun k' => (k', g k')) k = if k ∈ ks then some (g k) else none
  | [] => by simp [dictGet_nil]
  | k' :: ks => by
    rw [List.map_cons, dictGet_cons, dictGet_map_keys g k ks]
    by_cases h : k' = k
    · subst h; simp
    · have : ¬ k = k' := fun e => h e.symm
      simp [h, this]

theorem dictGet_filter_key {α} (q : String → Bool) (k : String) : ∀ (d : Dict α),
    dictGet (d.filter fun kv => q kv.1) k = if q k then dictGet d k else none
  | [] => by simp [dictGet_nil]
  | (k', v') :: rest => by
    have ih := dictGet_filter_key q k rest
    by_cases hq : q k' = true
    · simp only [List.filter_cons, hq, if_true, dictGet_cons, ih]
      by_cases hk : k' = k
      · subst hk; simp [hq]
      · simp [hk]
    · have hq' : q k' = false := by simpa using hq
      simp only [List.filter_cons, hq', Bool.false_eq_true, if_false, dictGet_cons, ih]
      by_cases hk : k' = k
      · subst hk; simp [hq']
      · simp [hk]

theorem dictSet_not_mem {α} (d : Dict α) (k : String) (v : α) (h : k ∉ keys d) : dictSet d k v = d ++ [(k, v)] := by
  induction d with
  | nil => rfl
  | cons kv rest ih =>
    obtain ⟨k', v'⟩ := kv
    simp only [keys, List.map_cons, List.mem_cons, not_or] at h
    have hk : (k' == k) = false := by
      have : ¬ k' = k := fun e => h.1 e.symm
      simpa using this
    simp only [dictSet, hk, Bool.false_eq_true, if_false, List.cons_append]
    rw [ih h.2]

theorem foldl_dictSet_nodup {α} : ∀ (d acc : Dict α), (keys (acc ++ d)).Nodup →
    d.foldl (fun x kv => dictSet x kv.1 kv.2) acc = acc ++ d
  | [], acc, _ => by simp
  | (k, v) :: rest, acc, h => by
    have hk : k ∉ keys acc := by
      simp only [keys, List.map_append, List.map_cons] at h
      have := (List.nodup_append.mp h).2.2
      intro hm
      exact this k hm k (by simp) rfl
    simp only [List.foldl_cons]
    rw [dictSet_not_mem acc k v hk]
    have := foldl_dictSet_nodup rest (acc ++ [(k, v)]) (by simpa using h)
    rw [this]
    simp

/-- a dict comprehension over the items of a dict is the dict -/
theorem dictOf_nodup {α} (d : Dict α) (h : (keys d).Nodup) : dictOf d = d := by
  unfold dictOf
  rw [foldl_dictSet_nodup d [] (by simpa using h)]
  rfl

/-! ## GeoPandas -/

theorem promoteCell_dt (p : Bool) (t : Int) : promoteCell p (.dt t) = .dt t := by cases p <;> rfl
theorem promoteCell_null (p : Bool) : promoteCell p .null = .null := by cases p <;> rfl

structure GpdShapeWF (s : Shape) : Prop where
  nom : NoM s.geom
  rings : RingsOK s.geom
  dt : DtWF s.dt
  props : ∀ kv ∈ s.props, kv.1 ≠ "datetime_start" ∧ kv.1 ≠ "datetime_end"

/-- what comes back from a frame: geometry and time bounds as they were; a property present on the
    shape comes back as the value it had — as a float if it was an integer in a column holding a null
    (known finding `to_geopandas/absent-property-null`) -/
def GpdBackRel (rows : List (Dict PVal)) (s s' : Shape) : Prop :=
  s'.geom = s.geom ∧ s'.dt = s.dt ∧
    ∀ k v, dictGet s.props k = some v → dictGet s'.props k = some (promoteCell (promoted rows k) v)

theorem mem_keyUnion {coll : List Shape} {s : Shape} (hs : s ∈ coll) {k : String} {v : PVal}
    (h : (k, v) ∈ s.properties) : k ∈ keyUnion coll := by
  unfold keyUnion
  have : k ∈ keys (dictOf ((coll.map fun s => s.properties.map fun kv => (kv.1, ()))).flatten) := by
    rw [keys_dictOf]
    simp only [List.map_flatten, List.map_map, List.mem_flatten, List.mem_map]
    refine ⟨(s.properties.map fun kv => (kv.1, ())).map (·.1), ⟨s, hs, rfl⟩, ?_⟩
    simp only [List.map_map, List.mem_map]
    exact ⟨(k, v), h, rfl⟩
  exact this

def gpdCells (coll : List Shape) (s : Shape) : Dict PVal :=
  (keyUnion coll).map fun k => (k, (dictGet s.properties k).getD .null)

def giOf (g : Geom) : GI := (toGI g).getD ⟨"", []⟩

theorem toGeopandas_ok (coll : List Shape) (h : ∀ s ∈ coll, (toGI s.geom).isSome = true) :
    toGeopandas none coll = .ok { rows := coll.map (gpdCells coll), geoms := coll.map fun s => giOf s.geom } := by
  unfold toGeopandas
  have := mapExcept_ok giOrErr (fun s => giOf s.geom) coll (by
      intro s hs
      have := h s hs
      unfold giOrErr
      cases hg : toGI s.geom with
      | none => simp [hg] at this
      | some g => simp [giOf, hg])
  simp only [this, Except.map]
  rfl

theorem gpd_row_back {coll : List Shape} (hwf : ∀ s ∈ coll, GpdShapeWF s) {s : Shape} (hs : s ∈ coll)
    (rows : List (Dict PVal)) :
    (toGI s.geom).isSome = true ∧
    ∃ s', fromGpdRow (keyUnion coll) "datetime_start" "datetime_end"
        { cells := (gpdCells coll s).map fun kv => (kv.1, promoteCell (promoted rows kv.1) kv.2),
          geomType := (giOf s.geom).gtype, wkt := giOf s.geom } = .ok s' ∧ GpdBackRel rows s s' := by
  obtain ⟨gi, k, h1, _, h3, h4⟩ := gi_geom_roundtrip' s.geom (hwf s hs).nom (hwf s hs).rings
  have hgi : giOf s.geom = gi := by simp [giOf, h1]
  refine ⟨by simp [h1], ?_⟩
  rw [hgi]
  -- the cells as a function of the key
  have hcells : ((gpdCells coll s).map fun kv => (kv.1, promoteCell (promoted rows kv.1) kv.2))
      = (keyUnion coll).map fun k' => (k', promoteCell (promoted rows k') ((dictGet s.properties k').getD .null)) := by
    simp [gpdCells, List.map_map, Function.comp_def]
  rw [hcells]
  have hget : ∀ key, dictGet ((keyUnion coll).map fun k' =>
      (k', promoteCell (promoted rows k') ((dictGet s.properties k').getD .null))) key
      = if key ∈ keyUnion coll then some (promoteCell (promoted rows key) ((dictGet s.properties key).getD .null)) else none :=
    fun key => dictGet_map_keys _ key _
  -- time bounds
  have hdt : getDtGpd ((keyUnion coll).map fun k' =>
      (k', promoteCell (promoted rows k') ((dictGet s.properties k').getD .null))) "datetime_start" "datetime_end" = .ok s.dt := by
    unfold getDtGpd
    simp only [hget]
    cases hd : s.dt with
    | some ab =>
      obtain ⟨a, b⟩ := ab
      have ps := dictGet_properties_start s a b hd
      have pe := dictGet_properties_end s a b hd
      have ks := mem_keyUnion hs (dictGet_mem ps)
      have ke := mem_keyUnion hs (dictGet_mem pe)
      have hw := (hwf s hs).dt
      rw [hd] at hw
      simp only [ks, ke, if_true, ps, pe, Option.getD_some, promoteCell_dt, isDtVal]
      exact mkDt_wf hw
    | none =>
      have ps : dictGet s.properties "datetime_start" = none := by
        rw [dictGet_properties_none s hd]
        apply dictGet_none_of_not_mem_keys
        intro hm
        simp only [keys, List.mem_map] at hm
        obtain ⟨kv, hkv, he⟩ := hm
        exact ((hwf s hs).props kv hkv).1 he
      have pe : dictGet s.properties "datetime_end" = none := by
        rw [dictGet_properties_none s hd]
        apply dictGet_none_of_not_mem_keys
        intro hm
        simp only [keys, List.mem_map] at hm
        obtain ⟨kv, hkv, he⟩ := hm
        exact ((hwf s hs).props kv hkv).2 he
      simp only [ps, pe, Option.getD_none]
      by_cases h1 : "datetime_start" ∈ keyUnion coll <;> by_cases h2 : "datetime_end" ∈ keyUnion coll <;>
        simp [h1, h2, promoteCell_null, isDtVal]
  refine ⟨{ geom := s.geom, dt := s.dt,
            props := ((keyUnion coll).map fun k' =>
              (k', promoteCell (promoted rows k') ((dictGet s.properties k').getD .null))).filter fun kv =>
                (keyUnion coll).contains kv.1 && kv.1 != "datetime_start" && kv.1 != "datetime_end" }, ?_, rfl, rfl, ?_⟩
  · unfold fromGpdRow
    simp only [h3, convMap_gtype, hdt, h4, bind, Except.bind, pure, Except.pure]
  · intro key v hv
    have hne := (hwf s hs).props _ (dictGet_mem hv)
    have hprop : dictGet s.properties key = some v := by
      rw [dictGet_properties_user s hne.1 hne.2]; exact hv
    have hk := mem_keyUnion hs (dictGet_mem hprop)
    simp only
    rw [dictGet_filter_key (fun k' => (keyUnion coll).contains k' && k' != "datetime_start" && k' != "datetime_end")]
    have hq : ((keyUnion coll).contains key && key != "datetime_start" && key != "datetime_end") = true := by
      simp [hk, hne.1, hne.2]
    rw [hq, if_pos rfl, hget, if_pos hk, hprop]
    rfl

/-! ## KML -/

structure KmlShapeWF (s : Shape) : Prop where
  nom : NoM s.geom
  rings : RingsOK s.geom
  dt : DtWF s.dt
  nodup : (keys s.props).Nodup

/-- what `parse_fastkml` returns for a placemark of the folder `name`: geometry and time bounds as
    they were; the properties as they were **plus `sub_folder_0`** unless the shape had none
    (known finding `parse_fastkml/sub_folder-property-added`) -/
def KmlBackRel (name : String) (s s' : Shape) : Prop :=
  s'.geom = s.geom ∧ s'.dt = s.dt ∧
    s'.props = if s.props.isEmpty then s.props else dictSet s.props "sub_folder_0" (.str name)

theorem parserMap_gtype (k : Kind) : parserMap k.gtype = some k := by cases k <;> decide +kernel

theorem fromKTime_toKTime {dt : Dt} (h : DtWF dt) : fromKTime (toKTime dt) = .ok dt := by
  cases dt with
  | none => rfl
  | some ab =>
    obtain ⟨a, b⟩ := ab
    unfold toKTime
    by_cases e : a = b
    · subst e; simp [fromKTime]
    · have : ¬ b < a := not_lt.mpr h
      simp [e, fromKTime, this]

def pmOf (s : Shape) : Placemark := { geom := some (giOf s.geom), data := some s.props, times := toKTime s.dt }

theorem toPlacemark_ok {s : Shape} (h : (toGI s.geom).isSome = true) : toPlacemark s = .ok (pmOf s) := by
  unfold toPlacemark pmOf giOf
  cases hg : toGI s.geom with
  | none => simp [hg] at h
  | some g => simp

theorem fromPlacemark_back (name : String) {s : Shape} (hwf : KmlShapeWF s) :
    (toGI s.geom).isSome = true ∧
    ∃ s', fromPlacemark [("sub_folder_0", .str name)] (pmOf s) = .ok (some s') ∧ KmlBackRel name s s' := by
  obtain ⟨gi, k, h1, _, h3, h4⟩ := gi_geom_roundtrip' s.geom hwf.nom hwf.rings
  have hgi : giOf s.geom = gi := by simp [giOf, h1]
  refine ⟨by simp [h1], ?_⟩
  refine ⟨{ geom := s.geom, dt := s.dt,
            props := if s.props.isEmpty then s.props else dictSet s.props "sub_folder_0" (.str name) }, ?_, rfl, rfl, rfl⟩
  unfold fromPlacemark pmOf
  simp only [hgi, h3, parserMap_gtype, fromKTime_toKTime hwf.dt, dictOf_nodup s.props hwf.nodup, h4, bind,
    Except.bind, pure, Except.pure, setOpt, List.foldl_cons, List.foldl_nil]

theorem parseKids_pms (name : String) : ∀ (l : List Shape) (acc : List Shape), (∀ s ∈ l, KmlShapeWF s) →
    ∃ bs, parseKids 1 (l.map fun s => KNode.pm (pmOf s)) ([("sub_folder_0", .str name)], acc)
        = .ok ([("sub_folder_0", .str name)], acc ++ bs) ∧ List.Forall₂ (KmlBackRel name) l bs
  | [], acc, _ => ⟨[], by simp [parseKids], List.Forall₂.nil⟩
  | s :: rest, acc, h => by
    obtain ⟨s', hs', hrel⟩ := (fromPlacemark_back name (h s List.mem_cons_self)).2
    obtain ⟨bs, hbs, hrels⟩ := parseKids_pms name rest (acc ++ [s']) (fun x hx => h x (List.mem_cons_of_mem _ hx))
    refine ⟨s' :: bs, ?_, List.Forall₂.cons hrel hrels⟩
    simp only [List.map_cons, parseKids, parseNode, hs', bind, Except.bind, pure, Except.pure, hbs]
    simp

end GV.Io
