import GeoVerif.Model.Pip
import Mathlib.Data.List.Perm.Basic
import Mathlib.Data.List.Count
import Mathlib.Algebra.Order.Field.Rat
import Mathlib.Tactic.Ring
import Mathlib.Tactic.Linarith
import Mathlib.Tactic.NormNum
import Mathlib.Tactic.Push
import Mathlib.Tactic.ByContra

namespace GV

/-- spec: not on the boundary, and an odd number of edges cross the ray -/
def insideEO (p : Pt) (es : List Edge) : Bool :=
  !(es.any (onEdge p)) && (es.countP (crossesRay p) % 2 == 1)

theorem pipGo_spec (p : Pt) (b : Bool) : ∀ (es : List Edge) (ins : Bool),
    pipGo p b es ins =
      if es.any (onEdge p) then b else (ins != (es.countP (crossesRay p) % 2 == 1))
  | [], ins => by simp [pipGo]
  | e :: es, ins => by
    unfold pipGo
    by_cases h : onEdge p e = true
    · simp [h]
    · have h' : onEdge p e = false := by simpa using h
      rw [if_neg h, pipGo_spec p b es]
      simp only [List.any_cons, h', Bool.false_or, List.countP_cons]
      by_cases hany : es.any (onEdge p) = true
      · simp [hany]
      · simp only [hany, if_false]
        by_cases hc : crossesRay p e = true
        · simp only [hc, if_true]
          generalize List.countP (crossesRay p) es = n
          rcases Nat.mod_two_eq_zero_or_one n with hn | hn
          · have : (n + 1) % 2 = 1 := by omega
            cases ins <;> simp [hn, this]
          · have : (n + 1) % 2 = 0 := by omega
            cases ins <;> simp [hn, this]
        · have hc' : crossesRay p e = false := by simpa using hc
          simp [hc']

/-- **C01 core**: the ring test is exactly "not on the boundary and odd crossing count" -/
theorem pointInRing_eq_spec (p : Pt) (ring : List Pt) :
    pointInRing p ring = insideEO p (ringEdges ring) := by
  unfold pointInRing insideEO
  rw [pipGo_spec]
  by_cases h : (ringEdges ring).any (onEdge p) = true
  · simp [h]
  · simp [h]

theorem pointInRing_boundary_false (p : Pt) (ring : List Pt) (e : Edge) (he : e ∈ ringEdges ring)
    (hon : onEdge p e = true) : pointInRing p ring = false := by
  rw [pointInRing_eq_spec]; unfold insideEO
  have : (ringEdges ring).any (onEdge p) = true := List.any_eq_true.mpr ⟨e, he, hon⟩
  simp [this]

/-- the answer only depends on the multiset of edges -/
theorem insideEO_perm (p : Pt) {es es' : List Edge} (h : es.Perm es') :
    insideEO p es = insideEO p es' := by
  unfold insideEO
  have h1 : es.any (onEdge p) = es'.any (onEdge p) := by
    rw [Bool.eq_iff_iff, List.any_eq_true, List.any_eq_true]
    constructor <;> rintro ⟨e, he, hp⟩
    · exact ⟨e, h.mem_iff.mp he, hp⟩
    · exact ⟨e, h.mem_iff.mpr he, hp⟩
  rw [h1, h.countP_eq]

/-! orientation independence: flipping an edge changes neither predicate off the boundary -/
def flipE (e : Edge) : Edge := (e.2, e.1)

theorem pcross_flip (e : Edge) (p : Pt) : pcross (flipE e) p = - pcross e p := by
  unfold pcross flipE; ring

theorem minR_comm (a b : Rat) : minR a b = minR b a := by
  unfold minR; split <;> split <;> linarith
theorem maxR_comm (a b : Rat) : maxR a b = maxR b a := by
  unfold maxR; split <;> split <;> linarith

theorem onEdge_flip (p : Pt) (e : Edge) : onEdge p (flipE e) = onEdge p e := by
  unfold onEdge
  rw [pcross_flip]
  simp only [flipE, minR_comm e.2.1 e.1.1, maxR_comm e.2.1 e.1.1, minR_comm e.2.2 e.1.2,
    maxR_comm e.2.2 e.1.2, neg_eq_zero]

/-- a point on the edge's line whose y lies between the endpoint y's (which differ) is on the edge -/
theorem onEdge_of_line {p : Pt} {e : Edge} (h0 : pcross e p = 0)
    (hy : (e.2.2 ≤ p.2 ∧ p.2 < e.1.2) ∨ (e.1.2 ≤ p.2 ∧ p.2 < e.2.2)) : onEdge p e = true := by
  unfold pcross at h0
  unfold onEdge pcross
  simp only [h0, decide_true, Bool.true_and, Bool.and_eq_true, decide_eq_true_eq]
  have hx : minR e.1.1 e.2.1 ≤ p.1 ∧ p.1 ≤ maxR e.1.1 e.2.1 := by
    unfold minR maxR
    rcases hy with ⟨h1, h2⟩ | ⟨h1, h2⟩
    · by_cases hle : e.1.1 ≤ e.2.1
      · simp only [hle, if_true]
        constructor <;> by_contra hc <;> rw [not_le] at hc <;> nlinarith
      · simp only [hle, if_false]; rw [not_le] at hle
        constructor <;> by_contra hc <;> rw [not_le] at hc <;> nlinarith
    · by_cases hle : e.1.1 ≤ e.2.1
      · simp only [hle, if_true]
        constructor <;> by_contra hc <;> rw [not_le] at hc <;> nlinarith
      · simp only [hle, if_false]; rw [not_le] at hle
        constructor <;> by_contra hc <;> rw [not_le] at hc <;> nlinarith
  have hyb : minR e.1.2 e.2.2 ≤ p.2 ∧ p.2 ≤ maxR e.1.2 e.2.2 := by
    unfold minR maxR
    rcases hy with ⟨h1, h2⟩ | ⟨h1, h2⟩
    · have : ¬ e.1.2 ≤ e.2.2 := by rw [not_le]; linarith
      simp only [this, if_false]; exact ⟨h1, le_of_lt h2⟩
    · have : e.1.2 ≤ e.2.2 := by linarith
      simp only [this, if_true]; exact ⟨h1, le_of_lt h2⟩
  exact ⟨⟨⟨hx.1, hx.2⟩, hyb.1⟩, hyb.2⟩

theorem crossesRay_flip (p : Pt) (e : Edge) (hoff : onEdge p e = false) :
    crossesRay p (flipE e) = crossesRay p e := by
  unfold crossesRay
  rw [pcross_flip]
  simp only [flipE]
  by_cases h1 : e.1.2 > p.2 <;> by_cases h2 : e.2.2 > p.2
  · simp [h1, h2]
  · have hlt : e.2.2 < e.1.2 := by linarith [not_lt.mp h2]
    have hne : pcross e p ≠ 0 := by
      intro h0
      have := onEdge_of_line h0 (Or.inl ⟨not_lt.mp h2, h1⟩)
      rw [hoff] at this; exact absurd this (by simp)
    have hnot : ¬ e.2.2 > e.1.2 := not_lt.mpr (le_of_lt hlt)
    simp only [h1, h2, hlt, hnot, decide_true, decide_false, gt_iff_lt]
    rcases lt_or_gt_of_ne hne with hneg | hpos
    · have : ¬ (0 < pcross e p) := not_lt.mpr (le_of_lt hneg)
      simp [hneg, this]
    · have : ¬ (pcross e p < 0) := not_lt.mpr (le_of_lt hpos)
      simp [hpos, this]
  · have hlt : e.1.2 < e.2.2 := by linarith [not_lt.mp h1]
    have hne : pcross e p ≠ 0 := by
      intro h0
      have := onEdge_of_line h0 (Or.inr ⟨not_lt.mp h1, h2⟩)
      rw [hoff] at this; exact absurd this (by simp)
    have hnot : ¬ e.1.2 > e.2.2 := not_lt.mpr (le_of_lt hlt)
    simp only [h1, h2, hlt, hnot, decide_true, decide_false, gt_iff_lt]
    rcases lt_or_gt_of_ne hne with hneg | hpos
    · have : ¬ (0 < pcross e p) := not_lt.mpr (le_of_lt hneg)
      simp [hneg, this]
    · have : ¬ (pcross e p < 0) := not_lt.mpr (le_of_lt hpos)
      simp [hpos, this]
  · simp [h1, h2]

/-- winding-direction independence at the level of edge lists -/
theorem insideEO_flip (p : Pt) (es : List Edge) : insideEO p (es.map flipE) = insideEO p es := by
  unfold insideEO
  have h1 : (es.map flipE).any (onEdge p) = es.any (onEdge p) := by
    rw [List.any_map]; congr 1; funext e; exact onEdge_flip p e
  rw [h1]
  by_cases hany : es.any (onEdge p) = true
  · simp [hany]
  · have hoff : ∀ e ∈ es, onEdge p e = false := by
      intro e he
      by_contra hc
      exact hany (List.any_eq_true.mpr ⟨e, he, by simpa using hc⟩)
    have h2 : (es.map flipE).countP (crossesRay p) = es.countP (crossesRay p) := by
      rw [List.countP_map]
      apply List.countP_congr
      intro e he
      simp only [Function.comp, crossesRay_flip p e (hoff e he)]
    rw [h2]

end GV
