import GeoVerif.Model.SegInt
import Mathlib.Algebra.Order.Ring.Rat
import Mathlib.Algebra.Order.Field.Rat
import Mathlib.Tactic.Ring
import Mathlib.Tactic.Linarith
import Mathlib.Tactic.LinearCombination
import Mathlib.Tactic.FieldSimp
import Mathlib.Tactic.NormNum
import Mathlib.Tactic.Push
import Mathlib.Tactic.ByContra

namespace GV

def crossP (a b p : P2) : Rat := (b.1 - a.1) * (p.2 - a.2) - (b.2 - a.2) * (p.1 - a.1)

def onSeg (p : P2) (l : Seg) : Prop := crossP l.1 l.2 p = 0 ∧ inBox p l = true

def properCross (l1 l2 : Seg) : Prop := segDiv l1 l2 ≠ 0 ∧ ∃ p, onSeg p l1 ∧ onSeg p l2

theorem lo_le_hi (a b : Rat) : lo a b ≤ hi a b := by unfold lo hi; split <;> linarith
theorem lo_comm (a b : Rat) : lo a b = lo b a := by
  unfold lo; split <;> split <;> linarith
theorem hi_comm (a b : Rat) : hi a b = hi b a := by
  unfold hi; split <;> split <;> linarith

theorem inBox_swap (p : P2) (l : Seg) : inBox p (l.2, l.1) = inBox p l := by
  unfold inBox; simp only [lo_comm l.2.1 l.1.1, hi_comm l.2.1 l.1.1, lo_comm l.2.2 l.1.2, hi_comm l.2.2 l.1.2]

theorem onSeg_swap (p : P2) (l : Seg) : onSeg p (l.2, l.1) ↔ onSeg p l := by
  unfold onSeg; rw [inBox_swap]
  have : crossP l.2 l.1 p = 0 ↔ crossP l.1 l.2 p = 0 := by
    unfold crossP; constructor <;> intro h <;> linear_combination (-1 : Rat) * h
  simp [this]

theorem onSeg_orderX (p : P2) (l : Seg) : onSeg p (orderX l) ↔ onSeg p l := by
  unfold orderX; split
  · exact onSeg_swap p l
  · rfl

theorem segDiv_swap_left (l1 l2 : Seg) : segDiv (l1.2, l1.1) l2 = - segDiv l1 l2 := by
  unfold segDiv det2; ring
theorem segDiv_swap_right (l1 l2 : Seg) : segDiv l1 (l2.2, l2.1) = - segDiv l1 l2 := by
  unfold segDiv det2; ring

theorem segDiv_orderX_ne (l1 l2 : Seg) : segDiv (orderX l1) (orderX l2) ≠ 0 ↔ segDiv l1 l2 ≠ 0 := by
  unfold orderX; split <;> split <;>
    simp only [segDiv_swap_left, segDiv_swap_right, neg_neg, ne_eq, neg_eq_zero]

theorem properCross_orderX (l1 l2 : Seg) : properCross (orderX l1) (orderX l2) ↔ properCross l1 l2 := by
  unfold properCross
  rw [segDiv_orderX_ne]
  simp only [onSeg_orderX]

/-- the computed point lies on both lines -/
theorem cross_seg_left (l1 l2 : Seg) (h : segDiv l1 l2 ≠ 0) :
    crossP l1.1 l1.2 (segX l1 l2, segY l1 l2) = 0 := by
  unfold crossP segX segY
  have h' := h
  unfold segDiv det2 at h'
  simp only [det2] at *
  field_simp
  unfold segDiv det2
  ring

theorem cross_seg_right (l1 l2 : Seg) (h : segDiv l1 l2 ≠ 0) :
    crossP l2.1 l2.2 (segX l1 l2, segY l1 l2) = 0 := by
  unfold crossP segX segY
  simp only [det2] at *
  field_simp
  unfold segDiv det2
  ring

/-- uniqueness: a point on both lines is the computed one -/
theorem eq_of_cross (l1 l2 : Seg) (p : P2) (h : segDiv l1 l2 ≠ 0)
    (h1 : crossP l1.1 l1.2 p = 0) (h2 : crossP l2.1 l2.2 p = 0) :
    p = (segX l1 l2, segY l1 l2) := by
  have hx : p.1 * segDiv l1 l2 =
      det2 (det2 l1.1 l1.2, det2 l2.1 l2.2) (l1.1.1 - l1.2.1, l2.1.1 - l2.2.1) := by
    unfold crossP at h1 h2; unfold segDiv det2
    linear_combination (l1.1.1 - l1.2.1) * h2 - (l2.1.1 - l2.2.1) * h1
  have hy : p.2 * segDiv l1 l2 =
      det2 (det2 l1.1 l1.2, det2 l2.1 l2.2) (l1.1.2 - l1.2.2, l2.1.2 - l2.2.2) := by
    unfold crossP at h1 h2; unfold segDiv det2
    linear_combination (l1.1.2 - l1.2.2) * h2 - (l2.1.2 - l2.2.2) * h1
  apply Prod.ext
  · unfold segX; rw [← hx]; field_simp
  · unfold segY; rw [← hy]; field_simp

theorem overlap_of_inBox {p : P2} {l1 l2 : Seg} (h1 : inBox p l1 = true) (h2 : inBox p l2 = true) :
    overlap (lo l1.1.1 l1.2.1) (hi l1.1.1 l1.2.1) (lo l2.1.1 l2.2.1) (hi l2.1.1 l2.2.1) = true ∧
    overlap (lo l1.1.2 l1.2.2) (hi l1.1.2 l1.2.2) (lo l2.1.2 l2.2.2) (hi l2.1.2 l2.2.2) = true := by
  unfold inBox at h1 h2
  simp only [Bool.and_eq_true, decide_eq_true_eq] at h1 h2
  obtain ⟨⟨⟨a1, a2⟩, a3⟩, a4⟩ := h1
  obtain ⟨⟨⟨b1, b2⟩, b3⟩, b4⟩ := h2
  unfold overlap
  simp only [decide_eq_true_eq]
  constructor
  · generalize lo l1.1.1 l1.2.1 = u1 at *; generalize hi l1.1.1 l1.2.1 = u2 at *
    generalize lo l2.1.1 l2.2.1 = v1 at *; generalize hi l2.1.1 l2.2.1 = v2 at *
    unfold lo hi; split <;> split <;> linarith
  · generalize lo l1.1.2 l1.2.2 = u1 at *; generalize hi l1.1.2 l1.2.2 = u2 at *
    generalize lo l2.1.2 l2.2.2 = v1 at *; generalize hi l2.1.2 l2.2.2 = v2 at *
    unfold lo hi; split <;> split <;> linarith

theorem findCore_isSome_iff (l1 l2 : Seg) : (findCore l1 l2).isSome = true ↔ properCross l1 l2 := by
  unfold properCross
  constructor
  · intro h
    unfold findCore at h
    by_cases hov : (overlap (lo l1.1.1 l1.2.1) (hi l1.1.1 l1.2.1) (lo l2.1.1 l2.2.1) (hi l2.1.1 l2.2.1) &&
        overlap (lo l1.1.2 l1.2.2) (hi l1.1.2 l1.2.2) (lo l2.1.2 l2.2.2) (hi l2.1.2 l2.2.2)) = true
    · by_cases hdiv : segDiv l1 l2 = 0
      · simp [hov, hdiv] at h
      · by_cases hbox : (inBox (segX l1 l2, segY l1 l2) l1 && inBox (segX l1 l2, segY l1 l2) l2) = true
        · simp only [Bool.and_eq_true] at hbox
          exact ⟨hdiv, (segX l1 l2, segY l1 l2),
            ⟨cross_seg_left l1 l2 hdiv, hbox.1⟩, ⟨cross_seg_right l1 l2 hdiv, hbox.2⟩⟩
        · simp [hov, hdiv, hbox] at h
    · simp [hov] at h
  · rintro ⟨hdiv, p, ⟨hc1, hb1⟩, ⟨hc2, hb2⟩⟩
    have hp := eq_of_cross l1 l2 p hdiv hc1 hc2
    subst hp
    obtain ⟨ho1, ho2⟩ := overlap_of_inBox hb1 hb2
    unfold findCore
    simp [ho1, ho2, hdiv, hb1, hb2]

theorem findIntersection_isSome_iff (l1 l2 : Seg) :
    (findIntersection l1 l2).isSome = true ↔ properCross l1 l2 := by
  unfold findIntersection
  rw [findCore_isSome_iff, properCross_orderX]

theorem properCross_symm (l1 l2 : Seg) : properCross l1 l2 ↔ properCross l2 l1 := by
  unfold properCross
  have : segDiv l2 l1 = - segDiv l1 l2 := by unfold segDiv det2; ring
  rw [this, neg_ne_zero]
  constructor <;> rintro ⟨h, p, h1, h2⟩ <;> exact ⟨h, p, h2, h1⟩

theorem findIntersection_isSome_comm (l1 l2 : Seg) :
    (findIntersection l1 l2).isSome = (findIntersection l2 l1).isSome := by
  rw [Bool.eq_iff_iff, findIntersection_isSome_iff, findIntersection_isSome_iff, properCross_symm]

/-- the hypothesis the sweep theorem needs: latitude ranges of crossing segments overlap -/
theorem lat_overlap_of_properCross {l1 l2 : Seg} (h : properCross l1 l2) :
    lo l2.1.2 l2.2.2 ≤ hi l1.1.2 l1.2.2 ∧ lo l1.1.2 l1.2.2 ≤ hi l2.1.2 l2.2.2 := by
  obtain ⟨_, p, ⟨_, hb1⟩, ⟨_, hb2⟩⟩ := h
  unfold inBox at hb1 hb2
  simp only [Bool.and_eq_true, decide_eq_true_eq] at hb1 hb2
  obtain ⟨⟨⟨a1, a2⟩, a3⟩, a4⟩ := hb1
  obtain ⟨⟨⟨b1, b2⟩, b3⟩, b4⟩ := hb2
  exact ⟨by linarith, by linarith⟩

end GV
