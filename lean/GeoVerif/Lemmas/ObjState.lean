import GeoVerif.Model.ObjState
import Mathlib.Tactic.Common

/-!
# Frame / separation lemmas for the object heap (helper lemmas for C15 part 2 and C16)
-/
set_option linter.unusedSectionVars false
namespace GV.OS
variable {G H W : Type}

@[simp] theorem upd_same {α : Type} (f : Nat → α) (l : Nat) (v : α) : upd f l v l = v := by simp [upd]
theorem upd_other {α : Type} (f : Nat → α) {l x : Nat} (v : α) (h : x ≠ l) : upd f l v x = f x := by
  simp [upd, h]

theorem TI.copy_eq (t : TI) : t.copy = t := by cases t; rfl

/-- the nested list cells reachable from the object's property dict -/
def nested (h : Heap H W) (o : Obj G H W) (l : Nat) : Prop := ∃ k, (k, PVal.ref l) ∈ h.dicts o.props

/-- all cells of the object are allocated; the kind has the containers it uses -/
structure WF (h : Heap H W) (o : Obj G H W) : Prop where
  props : o.props < h.next
  holes : ∀ l, o.holes = some l → l < h.next
  seq : ∀ l, o.seq = some l → l < h.next
  lists : ∀ l, nested h o l → l < h.next
  seqKind : o.seq ≠ none → o.kind.seqMode ≠ .none

/-- the two objects share no *mutable* cell (property dict, nested lists, hole list);
    the sequence cell may be shared (`GeoLineString.copy`) -/
structure Sep (h : Heap H W) (a b : Obj G H W) : Prop where
  props : a.props ≠ b.props
  holes : ∀ l, a.holes = some l → b.holes ≠ some l
  lists : ∀ l, nested h a l → ¬ nested h b l

theorem Sep.symm {h : Heap H W} {a b : Obj G H W} (s : Sep h a b) : Sep h b a :=
  ⟨s.props.symm, fun l hb ha => s.holes l ha hb, fun l hb ha => s.lists l ha hb⟩

/-- `h'` shows object `a` the same cell contents as `h` -/
structure Frame (h h' : Heap H W) (a : Obj G H W) : Prop where
  dict : h'.dicts a.props = h.dicts a.props
  lists : ∀ l, nested h a l → h'.lists l = h.lists l
  holes : ∀ l, a.holes = some l → h'.holes l = h.holes l
  seqs : ∀ l, a.seq = some l → h'.seqs l = h.seqs l

theorem Frame.refl (h : Heap H W) (a : Obj G H W) : Frame h h a := ⟨rfl, fun _ _ => rfl, fun _ _ => rfl, fun _ _ => rfl⟩

theorem Frame.nested_iff {h h' : Heap H W} {a : Obj G H W} (f : Frame h h' a) (l : Nat) :
    nested h' a l ↔ nested h a l := by simp [nested, f.dict]

theorem Frame.trans {h h' h'' : Heap H W} {a : Obj G H W} (f : Frame h h' a) (g : Frame h' h'' a) :
    Frame h h'' a where
  dict := g.dict.trans f.dict
  lists l hl := (g.lists l ((f.nested_iff l).mpr hl)).trans (f.lists l hl)
  holes l hl := (g.holes l hl).trans (f.holes l hl)
  seqs l hl := (g.seqs l hl).trans (f.seqs l hl)

theorem resolveAll_congr {h h' : Heap H W} (d : List (String × PVal))
    (hl : ∀ k l, (k, PVal.ref l) ∈ d → h'.lists l = h.lists l) : resolveAll h' d = resolveAll h d := by
  unfold resolveAll
  apply List.map_congr_left
  rintro ⟨k, v⟩ he
  cases v with
  | atom n => rfl
  | ref l => simp [resolve, hl k l he]

theorem Frame.propsOf {h h' : Heap H W} {a : Obj G H W} (f : Frame h h' a) : propsOf h' a = propsOf h a := by
  unfold OS.propsOf
  rw [f.dict]
  exact resolveAll_congr _ (fun k l he => f.lists l ⟨k, he⟩)

theorem Frame.holesOf {h h' : Heap H W} {a : Obj G H W} (f : Frame h h' a) : holesOf h' a = holesOf h a := by
  unfold OS.holesOf
  cases hh : a.holes with
  | none => rfl
  | some l => simp [f.holes l hh]

theorem Frame.seqOf {h h' : Heap H W} {a : Obj G H W} (f : Frame h h' a) : seqOf h' a = seqOf h a := by
  unfold OS.seqOf
  cases hh : a.seq with
  | none => rfl
  | some l => simp [f.seqs l hh]

theorem Frame.curStamp {h h' : Heap H W} {a : Obj G H W} (f : Frame h h' a) : curStamp h' a = curStamp h a := by
  simp [OS.curStamp, f.holesOf, f.seqOf]

theorem Frame.fields {h h' : Heap H W} {a : Obj G H W} (f : Frame h h' a) : fields h' a = fields h a := by
  simp [OS.fields, f.propsOf, f.holesOf, f.seqOf]

/-- **frame**: an object observes the same in two heaps that agree on its cells -/
theorem Frame.observe {h h' : Heap H W} {a : Obj G H W} (f : Frame h h' a) : observe h' a = observe h a := by
  have hd : derived h' a = derived h a := by funext s; simp [derived, f.curStamp]
  simp [OS.observe, f.fields, hd]

theorem Frame.wf {h h' : Heap H W} {a : Obj G H W} (f : Frame h h' a) (hn : h.next ≤ h'.next) (w : WF h a) :
    WF h' a where
  props := Nat.lt_of_lt_of_le w.props hn
  holes l hl := Nat.lt_of_lt_of_le (w.holes l hl) hn
  seq l hl := Nat.lt_of_lt_of_le (w.seq l hl) hn
  lists l hl := Nat.lt_of_lt_of_le (w.lists l ((f.nested_iff l).mp hl)) hn
  seqKind := w.seqKind

/-! ### heap extension: allocation only -/

/-- `h'` extends `h`: every cell allocated in `h` is unchanged -/
structure Ext (h h' : Heap H W) : Prop where
  next : h.next ≤ h'.next
  dicts : ∀ l, l < h.next → h'.dicts l = h.dicts l
  lists : ∀ l, l < h.next → h'.lists l = h.lists l
  holes : ∀ l, l < h.next → h'.holes l = h.holes l
  seqs : ∀ l, l < h.next → h'.seqs l = h.seqs l

theorem Ext.refl (h : Heap H W) : Ext h h := ⟨Nat.le_refl _, fun _ _ => rfl, fun _ _ => rfl, fun _ _ => rfl, fun _ _ => rfl⟩

theorem Ext.trans {h h' h'' : Heap H W} (a : Ext h h') (b : Ext h' h'') : Ext h h'' where
  next := Nat.le_trans a.next b.next
  dicts l hl := (b.dicts l (Nat.lt_of_lt_of_le hl a.next)).trans (a.dicts l hl)
  lists l hl := (b.lists l (Nat.lt_of_lt_of_le hl a.next)).trans (a.lists l hl)
  holes l hl := (b.holes l (Nat.lt_of_lt_of_le hl a.next)).trans (a.holes l hl)
  seqs l hl := (b.seqs l (Nat.lt_of_lt_of_le hl a.next)).trans (a.seqs l hl)

theorem Ext.frame {h h' : Heap H W} (e : Ext h h') {a : Obj G H W} (w : WF h a) : Frame h h' a where
  dict := e.dicts _ w.props
  lists l hl := e.lists l (w.lists l hl)
  holes l hl := e.holes l (w.holes l hl)
  seqs l hl := e.seqs l (w.seq l hl)

theorem ext_allocDict (h : Heap H W) (d : List (String × PVal)) : Ext h (h.allocDict d).1 := by
  refine ⟨by simp [Heap.allocDict], ?_, ?_, ?_, ?_⟩ <;> intro l hl <;> simp [Heap.allocDict]
  exact upd_other _ _ (Nat.ne_of_lt hl)

theorem ext_allocList (h : Heap H W) (d : List Int) : Ext h (h.allocList d).1 := by
  refine ⟨by simp [Heap.allocList], ?_, ?_, ?_, ?_⟩ <;> intro l hl <;> simp [Heap.allocList]
  exact upd_other _ _ (Nat.ne_of_lt hl)

theorem ext_allocHoles (h : Heap H W) (d : List H) : Ext h (h.allocHoles d).1 := by
  refine ⟨by simp [Heap.allocHoles], ?_, ?_, ?_, ?_⟩ <;> intro l hl <;> simp [Heap.allocHoles]
  exact upd_other _ _ (Nat.ne_of_lt hl)

theorem ext_allocSeq (h : Heap H W) (d : List (Nat × W)) : Ext h (h.allocSeq d).1 := by
  refine ⟨by simp [Heap.allocSeq], ?_, ?_, ?_, ?_⟩ <;> intro l hl <;> simp [Heap.allocSeq]
  exact upd_other _ _ (Nat.ne_of_lt hl)

theorem ext_bump (h : Heap H W) (n : Nat) : Ext h (h.bump n) :=
  ⟨by simp [Heap.bump], fun _ _ => rfl, fun _ _ => rfl, fun _ _ => rfl, fun _ _ => rfl⟩

/-! ### deep copy of the property entries -/

theorem deepcopy_spec : ∀ (ents : List (String × PVal)) (h : Heap H W),
    (∀ k l, (k, PVal.ref l) ∈ ents → l < h.next) →
    Ext h (deepcopyEntries h ents).1 ∧
    (deepcopyEntries h ents).1.dicts = h.dicts ∧
    resolveAll (deepcopyEntries h ents).1 (deepcopyEntries h ents).2 = resolveAll h ents ∧
    (∀ k l, (k, PVal.ref l) ∈ (deepcopyEntries h ents).2 → h.next ≤ l ∧ l < (deepcopyEntries h ents).1.next)
  | [], h, _ => by simp [deepcopyEntries, Ext.refl, resolveAll]
  | (k, .atom n) :: rest, h, hr => by
    obtain ⟨e, hd, hres, hnew⟩ := deepcopy_spec rest h (fun k l hm => hr k l (List.mem_cons_of_mem _ hm))
    refine ⟨e, hd, ?_, ?_⟩
    · simp only [deepcopyEntries, resolveAll, List.map_cons] at hres ⊢
      rw [hres]; rfl
    · intro k' l hm
      simp only [deepcopyEntries, List.mem_cons, Prod.mk.injEq, reduceCtorEq, and_false, false_or] at hm
      exact hnew k' l hm
  | (k, .ref l0) :: rest, h, hr => by
    have hl0 : l0 < h.next := hr k l0 List.mem_cons_self
    have ea := ext_allocList h (h.lists l0)
    have hr' : ∀ k l, (k, PVal.ref l) ∈ rest → l < (h.allocList (h.lists l0)).1.next := fun k l hm =>
      Nat.lt_of_lt_of_le (hr k l (List.mem_cons_of_mem _ hm)) ea.next
    obtain ⟨e, hd, hres, hnew⟩ := deepcopy_spec rest (h.allocList (h.lists l0)).1 hr'
    have hn1 : (h.allocList (h.lists l0)).1.next = h.next + 1 := rfl
    have hl2 : (h.allocList (h.lists l0)).2 = h.next := rfl
    have hlt : h.next < (h.allocList (h.lists l0)).1.next := by rw [hn1]; exact Nat.lt_succ_self _
    refine ⟨ea.trans e, ?_, ?_, ?_⟩
    · simp only [deepcopyEntries]; rw [hd]; rfl
    · simp only [deepcopyEntries, resolveAll, List.map_cons] at hres ⊢
      rw [hres]
      congr 1
      · -- the new cell holds the old content
        simp only [resolve, hl2]
        rw [e.lists h.next hlt]
        simp [Heap.allocList]
      · exact resolveAll_congr rest (fun k' l hm => ea.lists l (hr k' l (List.mem_cons_of_mem _ hm)))
    · intro k' l hm
      simp only [deepcopyEntries, List.mem_cons, Prod.mk.injEq, PVal.ref.injEq] at hm
      rcases hm with ⟨_, rfl⟩ | hm
      · rw [hl2]; exact ⟨Nat.le_refl _, Nat.lt_of_lt_of_le hlt e.next⟩
      · have := hnew k' l hm
        exact ⟨Nat.le_trans (Nat.le_of_lt hlt) this.1, this.2⟩

theorem deepcopy_keys : ∀ (ents : List (String × PVal)) (h : Heap H W),
    (deepcopyEntries h ents).2.map (·.1) = ents.map (·.1)
  | [], _ => rfl
  | (k, .atom n) :: rest, h => by simp [deepcopyEntries, deepcopy_keys rest h]
  | (k, .ref l) :: rest, h => by simp [deepcopyEntries, deepcopy_keys rest _]

theorem reId_map_snd : ∀ (b : Nat) (l : List (Nat × W)), (reId b l).map (·.2) = l.map (·.2)
  | _, [] => rfl
  | b, (_, w) :: r => by simp [reId, reId_map_snd (b + 1) r]

/-! ### the parts of `clone` -/

theorem copyHoles_spec (h : Heap H W) (s : Option Nat) (hs : ∀ l, s = some l → l < h.next) :
    Ext h (copyHoles h s).1 ∧
    (copyHoles h s).2.map (copyHoles h s).1.holes = s.map h.holes ∧
    (∀ l, (copyHoles h s).2 = some l → h.next ≤ l ∧ l < (copyHoles h s).1.next) := by
  cases s with
  | none => simp [copyHoles, Ext.refl]
  | some l =>
    refine ⟨ext_allocHoles _ _, ?_, ?_⟩
    · simp [copyHoles, Heap.allocHoles]
    · intro l' hl'
      simp only [copyHoles, Heap.allocHoles, Option.some.injEq] at hl' ⊢
      omega

theorem copySeq_spec (h : Heap H W) (mode : SeqMode) (s : Option Nat) (hs : ∀ l, s = some l → l < h.next)
    (hm : s ≠ none → mode ≠ .none) :
    Ext h (copySeq h mode s).1 ∧
    (copySeq h mode s).2.map (fun l => ((copySeq h mode s).1.seqs l).map (·.2)) = s.map (fun l => (h.seqs l).map (·.2)) ∧
    (∀ l, (copySeq h mode s).2 = some l → l < (copySeq h mode s).1.next) ∧
    ((copySeq h mode s).2 ≠ none → s ≠ none) := by
  cases s with
  | none => cases mode <;> simp [copySeq, Ext.refl]
  | some l =>
    have hl := hs l rfl
    cases mode with
    | none => exact absurd rfl (hm (by simp))
    | share => exact ⟨Ext.refl _, rfl, fun l' hl' => by simp only [copySeq, Option.some.injEq] at hl'; subst hl'; exact hl, by simp⟩
    | copyList =>
      refine ⟨ext_allocSeq _ _, ?_, ?_, by simp⟩
      · simp [copySeq, Heap.allocSeq]
      · intro l' hl'
        simp only [copySeq, Heap.allocSeq, Option.some.injEq] at hl' ⊢
        omega
    | copyItems =>
      refine ⟨(ext_bump h _).trans (ext_allocSeq _ _), ?_, ?_, by simp⟩
      · simp [copySeq, Heap.allocSeq, Heap.bump, reId_map_snd]
      · intro l' hl'
        simp only [copySeq, Heap.allocSeq, Heap.bump, Option.some.injEq] at hl' ⊢
        omega

theorem copyDt_spec (h : Heap H W) (shared : Bool) (dt : Option (Nat × TI)) :
    Ext h (copyDt h shared dt).1 ∧ (copyDt h shared dt).2.map (·.2) = dt.map (·.2) := by
  cases dt with
  | none => simp [copyDt, Ext.refl]
  | some p =>
    obtain ⟨l, t⟩ := p
    cases shared
    · exact ⟨ext_bump h 1, by simp [copyDt, TI.copy_eq]⟩
    · simp [copyDt, Ext.refl]

/-- what `copy()` / pickle guarantee -/
structure CloneSpec (h : Heap H W) (o : Obj G H W) (r : Heap H W × Obj G H W) : Prop where
  ext : Ext h r.1
  propsNew : h.next ≤ r.2.props
  holesNew : ∀ l, r.2.holes = some l → h.next ≤ l
  listsNew : ∀ l, nested r.1 r.2 l → h.next ≤ l
  wf : WF r.1 r.2
  props : propsOf r.1 r.2 = propsOf h o
  holesV : holesOf r.1 r.2 = holesOf h o
  seqV : seqOf r.1 r.2 = seqOf h o
  dtV : dtOf r.2 = dtOf o
  kind : r.2.kind = o.kind
  geom : r.2.geom = o.geom

theorem clone_spec (h : Heap H W) (o : Obj G H W) (mode : SeqMode) (dtS : Bool)
    (cache : Slot → Option (Stamp H W)) (w : WF h o) (hm : o.seq ≠ none → mode ≠ .none) :
    CloneSpec h o (clone h o mode dtS cache) := by
  obtain ⟨e1, hd1, hres1, hnew1⟩ := deepcopy_spec (h.dicts o.props) h (fun k l hm => w.lists l ⟨k, hm⟩)
  generalize hD : deepcopyEntries h (h.dicts o.props) = D at e1 hd1 hres1 hnew1
  have e2 := ext_allocDict D.1 D.2
  generalize hP : D.1.allocDict D.2 = P at e2
  have hPn : P.1.next = D.1.next + 1 := by rw [← hP]; rfl
  have hPl : P.2 = D.1.next := by rw [← hP]; rfl
  have hPd : P.1.dicts D.1.next = D.2 := by rw [← hP]; simp [Heap.allocDict]
  have hPlists : P.1.lists = D.1.lists := by rw [← hP]; rfl
  have e02 : Ext h P.1 := e1.trans e2
  obtain ⟨e3, hv3, hn3⟩ := copyHoles_spec P.1 o.holes (fun l hl => Nat.lt_of_lt_of_le (w.holes l hl) e02.next)
  generalize hHL : copyHoles P.1 o.holes = HL at e3 hv3 hn3
  have e03 : Ext h HL.1 := e02.trans e3
  obtain ⟨e4, hv4, hn4, hne4⟩ := copySeq_spec HL.1 mode o.seq
    (fun l hl => Nat.lt_of_lt_of_le (w.seq l hl) e03.next) hm
  generalize hSQ : copySeq HL.1 mode o.seq = SQ at e4 hv4 hn4 hne4
  obtain ⟨e5, hv5⟩ := copyDt_spec SQ.1 dtS o.dt
  generalize hDT : copyDt SQ.1 dtS o.dt = DT at e5 hv5
  have hr : clone h o mode dtS cache =
      (DT.1, { o with props := P.2, holes := HL.2, seq := SQ.2, dt := DT.2, cache := cache }) := by
    simp only [clone, hD, hP, hHL, hSQ, hDT]
  rw [hr]
  have e25 : Ext P.1 DT.1 := (e3.trans e4).trans e5
  have e15 : Ext D.1 DT.1 := e2.trans e25
  have hdict : DT.1.dicts P.2 = D.2 := by
    rw [hPl, e25.dicts _ (by omega), hPd]
  have hnest : ∀ l, (∃ k, (k, PVal.ref l) ∈ DT.1.dicts P.2) → h.next ≤ l ∧ l < D.1.next := by
    rintro l ⟨k, hk⟩
    rw [hdict] at hk
    exact hnew1 k l hk
  refine ⟨e1.trans e15, ?_, ?_, ?_, ?_, ?_, ?_, ?_, ?_, rfl, rfl⟩
  · simp only [hPl]; exact e1.next
  · intro l hl
    exact Nat.le_trans e02.next (hn3 l hl).1
  · intro l hl; exact (hnest l hl).1
  · refine ⟨?_, ?_, ?_, ?_, ?_⟩
    · simp only [hPl]; exact Nat.lt_of_lt_of_le (by omega) e25.next
    · intro l hl; exact Nat.lt_of_lt_of_le (hn3 l hl).2 (e4.trans e5).next
    · intro l hl; exact Nat.lt_of_lt_of_le (hn4 l hl) e5.next
    · intro l hl; exact Nat.lt_of_lt_of_le (hnest l hl).2 e15.next
    · intro hne; exact w.seqKind (hne4 hne)
  · -- properties resolve to the same values
    simp only [propsOf]
    rw [hdict, ← hres1]
    exact resolveAll_congr _ (fun k l hk => e15.lists l (hnew1 k l hk).2)
  · simp only [holesOf]
    have s1 : Option.map DT.1.holes HL.2 = Option.map HL.1.holes HL.2 := by
      cases hh : HL.2 with
      | none => rfl
      | some l => simp only [Option.map_some]; rw [(e4.trans e5).holes l (hn3 l hh).2]
    have s2 : Option.map P.1.holes o.holes = Option.map h.holes o.holes := by
      cases hh : o.holes with
      | none => rfl
      | some l => simp only [Option.map_some]; rw [e02.holes l (w.holes l hh)]
    rw [s1, hv3, s2]
  · simp only [seqOf]
    have s1 : Option.map (fun l => List.map (fun x => x.snd) (DT.1.seqs l)) SQ.2 =
        Option.map (fun l => List.map (fun x => x.snd) (SQ.1.seqs l)) SQ.2 := by
      cases hh : SQ.2 with
      | none => rfl
      | some l => simp only [Option.map_some]; rw [e5.seqs l (hn4 l hh)]
    have s2 : Option.map (fun l => List.map (fun x => x.snd) (HL.1.seqs l)) o.seq =
        Option.map (fun l => List.map (fun x => x.snd) (h.seqs l)) o.seq := by
      cases hh : o.seq with
      | none => rfl
      | some l => simp only [Option.map_some]; rw [e03.seqs l (w.seq l hh)]
    rw [s1, hv4, s2]
  · simp only [dtOf]; exact hv5

theorem copy_spec (h : Heap H W) (o : Obj G H W) (w : WF h o) : CloneSpec h o (copy h o) :=
  clone_spec h o _ _ _ w w.seqKind

theorem pickle_spec (h : Heap H W) (o : Obj G H W) (w : WF h o) : CloneSpec h o (pickle h o) := by
  apply clone_spec h o _ _ _ w
  intro hne
  cases hs : o.seq with
  | none => exact absurd hs hne
  | some l => simp

/-- a clone is separated from its original (and from every object allocated before) -/
theorem CloneSpec.sep {h : Heap H W} {o : Obj G H W} {r : Heap H W × Obj G H W} (c : CloneSpec h o r)
    {a : Obj G H W} (wa : WF h a) : Sep r.1 a r.2 where
  props := Nat.ne_of_lt (Nat.lt_of_lt_of_le wa.props c.propsNew)
  holes l ha hb := by
    have h1 := wa.holes l ha
    have h2 := c.holesNew l (by simpa using hb)
    exact absurd h1 (Nat.not_lt.mpr h2)
  lists l ha hb := by
    have h1 := wa.lists l (((c.ext.frame wa).nested_iff l).mp ha)
    have h2 := c.listsNew l hb
    exact absurd h1 (Nat.not_lt.mpr h2)

/-! ### one mutation, seen from a separated object -/

theorem frame_dict_upd (h : Heap H W) (a : Obj G H W) {l : Nat} (v : List (String × PVal)) (hne : a.props ≠ l) :
    Frame h { h with dicts := upd h.dicts l v } a :=
  ⟨upd_other _ _ hne, fun _ _ => rfl, fun _ _ => rfl, fun _ _ => rfl⟩

theorem frame_lists_upd (h : Heap H W) (a : Obj G H W) {l : Nat} (v : List Int) (hn : ¬ nested h a l) :
    Frame h { h with lists := upd h.lists l v } a :=
  ⟨rfl, fun l' hl' => upd_other _ _ (fun e => hn (e ▸ hl')), fun _ _ => rfl, fun _ _ => rfl⟩

theorem frame_holes_upd (h : Heap H W) (a : Obj G H W) {l : Nat} (v : List H) (hn : a.holes ≠ some l) :
    Frame h { h with holes := upd h.holes l v } a :=
  ⟨rfl, fun _ _ => rfl, fun l' hl' => upd_other _ _ (fun e => hn (e ▸ hl')), fun _ _ => rfl⟩

theorem mem_dictSet {d : List (String × PVal)} {k : String} {v : PVal} {e : String × PVal}
    (h : e ∈ dictSet d k v) : e ∈ d ∨ e = (k, v) := by
  unfold dictSet at h
  split at h
  · obtain ⟨e', he', rfl⟩ := List.mem_map.mp h
    split
    · right; rfl
    · left; exact he'
  · rcases List.mem_append.mp h with h | h
    · left; exact h
    · right; simpa using h

theorem dictGet_mem {d : List (String × PVal)} {k : String} {v : PVal} (h : dictGet d k = some v) :
    ∃ k', (k', v) ∈ d := by
  unfold dictGet at h
  obtain ⟨e, he, rfl⟩ := Option.map_eq_some_iff.mp h
  exact ⟨e.1, List.mem_of_find?_eq_some he⟩

/-- same cells, same heap: well-formedness carries over (the record differs in `dt`/`cache` only) -/
theorem WF.of_same {h : Heap H W} {b b' : Obj G H W} (w : WF h b) (hp : b'.props = b.props)
    (hh : b'.holes = b.holes) (hs : b'.seq = b.seq) (hk : b'.kind = b.kind) : WF h b' where
  props := hp ▸ w.props
  holes l hl := w.holes l (hh ▸ hl)
  seq l hl := w.seq l (hs ▸ hl)
  lists l hl := w.lists l (by simpa [nested, hp] using hl)
  seqKind hne := by rw [hk]; exact w.seqKind (hs ▸ hne)

theorem Sep.of_same {h : Heap H W} {a b b' : Obj G H W} (s : Sep h a b) (hp : b'.props = b.props)
    (hh : b'.holes = b.holes) : Sep h a b' where
  props := hp ▸ s.props
  holes l ha := hh ▸ s.holes l ha
  lists l ha hb := s.lists l ha (by simpa [nested, hp] using hb)

theorem Sep.of_frames {h h' : Heap H W} {a b : Obj G H W} (s : Sep h a b) (fa : Frame h h' a) (fb : Frame h h' b) :
    Sep h' a b where
  props := s.props
  holes := s.holes
  lists l ha hb := s.lists l ((fa.nested_iff l).mp ha) ((fb.nested_iff l).mp hb)

/-- what a mutation of `b` preserves on `b` itself -/
structure SelfSpec (h h' : Heap H W) (b b' : Obj G H W) : Prop where
  props : b'.props = b.props
  holes : b'.holes = b.holes
  seq : b'.seq = b.seq
  kind : b'.kind = b.kind
  geom : b'.geom = b.geom
  cache : b'.cache = b.cache
  seqs : h'.seqs = h.seqs
  next : h.next ≤ h'.next

/-- a mutation that rebinds `dt` to a new `TimeInterval` object -/
theorem rebind_dt_frame {h : Heap H W} {a b : Obj G H W} (wa : WF h a) (wb : WF h b) (sep : Sep h a b)
    (b' : Obj G H W) (hp : b'.props = b.props) (hh : b'.holes = b.holes) (hs : b'.seq = b.seq)
    (hk : b'.kind = b.kind) (hg : b'.geom = b.geom) (hc : b'.cache = b.cache) :
    Frame h (h.bump 1) a ∧ WF (h.bump 1) b' ∧ Sep (h.bump 1) a b' ∧ SelfSpec h (h.bump 1) b b' := by
  have e := ext_bump h 1
  have wb' : WF h b' := wb.of_same hp hh hs hk
  have fb : Frame h (h.bump 1) b' := e.frame wb'
  exact ⟨e.frame wa, fb.wf e.next wb', (sep.of_same hp hh).of_frames (e.frame wa) fb,
    ⟨hp, hh, hs, hk, hg, hc, rfl, e.next⟩⟩

/-- **one in-place mutation of `b`**: a separated object `a` sees the same heap; well-formedness
    and separation are kept -/
theorem applyMut_frame {h h' : Heap H W} {a b b' : Obj G H W} {m : Mut H} (wa : WF h a) (wb : WF h b)
    (sep : Sep h a b) (hm : applyMut h b m = .ok (h', b')) :
    Frame h h' a ∧ WF h' b' ∧ Sep h' a b' ∧ SelfSpec h h' b b' := by
  cases m with
  | setDt v =>
    cases v with
    | none =>
      simp only [applyMut, Except.ok.injEq, Prod.mk.injEq] at hm
      obtain ⟨rfl, rfl⟩ := hm
      exact ⟨Frame.refl _ _, wb.of_same rfl rfl rfl rfl, sep.of_same rfl rfl,
        ⟨rfl, rfl, rfl, rfl, rfl, rfl, rfl, Nat.le_refl _⟩⟩
    | some t =>
      simp only [applyMut, Except.ok.injEq, Prod.mk.injEq] at hm
      obtain ⟨rfl, rfl⟩ := hm
      exact rebind_dt_frame wa wb sep _ rfl rfl rfl rfl rfl rfl
  | bufferDt d =>
    simp only [applyMut] at hm
    cases hdt : b.dt with
    | none => simp [hdt] at hm
    | some p =>
      obtain ⟨l, t⟩ := p
      simp only [hdt] at hm
      cases hmk : TI.mk? (t.start - d) (t.stop + d) with
      | error e => simp [hmk] at hm
      | ok t' =>
        simp only [hmk, Except.ok.injEq, Prod.mk.injEq] at hm
        obtain ⟨rfl, rfl⟩ := hm
        exact rebind_dt_frame wa wb sep _ rfl rfl rfl rfl rfl rfl
  | stripDt =>
    simp only [applyMut, Except.ok.injEq, Prod.mk.injEq] at hm
    obtain ⟨rfl, rfl⟩ := hm
    exact ⟨Frame.refl _ _, wb.of_same rfl rfl rfl rfl, sep.of_same rfl rfl,
      ⟨rfl, rfl, rfl, rfl, rfl, rfl, rfl, Nat.le_refl _⟩⟩
  | setProp k v =>
    cases v with
    | atom n =>
      simp only [applyMut, Except.ok.injEq, Prod.mk.injEq] at hm
      obtain ⟨rfl, rfl⟩ := hm
      have fa := frame_dict_upd h a (dictSet (h.dicts b.props) k (.atom n)) sep.props
      have hnest : ∀ l, nested { h with dicts := upd h.dicts b.props (dictSet (h.dicts b.props) k (.atom n)) } b l →
          nested h b l := by
        rintro l ⟨k', hk'⟩
        simp only [upd_same] at hk'
        rcases mem_dictSet hk' with hk' | hk'
        · exact ⟨k', hk'⟩
        · simp at hk'
      refine ⟨fa, ⟨wb.props, wb.holes, wb.seq, fun l hl => wb.lists l (hnest l hl), wb.seqKind⟩, ?_,
        ⟨rfl, rfl, rfl, rfl, rfl, rfl, rfl, Nat.le_refl _⟩⟩
      exact ⟨sep.props, sep.holes, fun l ha hb => sep.lists l ((fa.nested_iff l).mp ha) (hnest l hb)⟩
    | list xs =>
      simp only [applyMut, Except.ok.injEq, Prod.mk.injEq] at hm
      obtain ⟨rfl, rfl⟩ := hm
      have e := ext_allocList h xs
      have fa1 : Frame h (h.allocList xs).1 a := e.frame wa
      have fa2 := frame_dict_upd (h.allocList xs).1 a
        (dictSet ((h.allocList xs).1.dicts b.props) k (.ref (h.allocList xs).2)) sep.props
      have fa := fa1.trans fa2
      have hnest : ∀ l, nested { (h.allocList xs).1 with dicts := (upd (h.allocList xs).1.dicts b.props
            (dictSet ((h.allocList xs).1.dicts b.props) k (.ref (h.allocList xs).2))) } b l →
          nested h b l ∨ l = h.next := by
        rintro l ⟨k', hk'⟩
        simp only [upd_same] at hk'
        rcases mem_dictSet hk' with hk' | hk'
        · left; exact ⟨k', hk'⟩
        · right
          simp only [Prod.mk.injEq, PVal.ref.injEq] at hk'
          exact hk'.2
      refine ⟨fa, ⟨Nat.lt_succ_of_lt wb.props, fun l hl => Nat.lt_succ_of_lt (wb.holes l hl),
        fun l hl => Nat.lt_succ_of_lt (wb.seq l hl), ?_, wb.seqKind⟩, ?_,
        ⟨rfl, rfl, rfl, rfl, rfl, rfl, rfl, Nat.le_succ _⟩⟩
      · intro l hl
        rcases hnest l hl with hl | rfl
        · exact Nat.lt_succ_of_lt (wb.lists l hl)
        · exact Nat.lt_succ_self _
      · refine ⟨sep.props, sep.holes, fun l ha hb => ?_⟩
        have ha' := (fa.nested_iff l).mp ha
        rcases hnest l hb with hb | rfl
        · exact sep.lists l ha' hb
        · exact absurd (wa.lists _ ha') (Nat.lt_irrefl _)
  | holesPop =>
    simp only [applyMut] at hm
    cases hh : b.holes with
    | none => simp [hh] at hm
    | some l =>
      simp only [hh] at hm
      split at hm
      · simp at hm
      · simp only [Except.ok.injEq, Prod.mk.injEq] at hm
        obtain ⟨rfl, rfl⟩ := hm
        have fa := frame_holes_upd h a (h.holes l).dropLast (fun e => sep.holes l e hh)
        exact ⟨fa, ⟨wb.props, wb.holes, wb.seq, wb.lists, wb.seqKind⟩,
          ⟨sep.props, sep.holes, sep.lists⟩, ⟨rfl, rfl, rfl, rfl, rfl, rfl, rfl, Nat.le_refl _⟩⟩
  | holesPush x =>
    simp only [applyMut] at hm
    cases hh : b.holes with
    | none => simp [hh] at hm
    | some l =>
      simp only [hh, Except.ok.injEq, Prod.mk.injEq] at hm
      obtain ⟨rfl, rfl⟩ := hm
      have fa := frame_holes_upd h a (h.holes l ++ [x]) (fun e => sep.holes l e hh)
      exact ⟨fa, ⟨wb.props, wb.holes, wb.seq, wb.lists, wb.seqKind⟩,
        ⟨sep.props, sep.holes, sep.lists⟩, ⟨rfl, rfl, rfl, rfl, rfl, rfl, rfl, Nat.le_refl _⟩⟩
  | dictDel k =>
    simp only [applyMut] at hm
    split at hm
    · simp only [Except.ok.injEq, Prod.mk.injEq] at hm
      obtain ⟨rfl, rfl⟩ := hm
      have fa := frame_dict_upd h a ((h.dicts b.props).filter (fun e => !(e.1 == k))) sep.props
      have hnest : ∀ l, nested { h with dicts := (upd h.dicts b.props
          ((h.dicts b.props).filter (fun e => !(e.1 == k)))) } b l → nested h b l := by
        rintro l ⟨k', hk'⟩
        simp only [upd_same] at hk'
        exact ⟨k', (List.mem_filter.mp hk').1⟩
      refine ⟨fa, ⟨wb.props, wb.holes, wb.seq, fun l hl => wb.lists l (hnest l hl), wb.seqKind⟩, ?_,
        ⟨rfl, rfl, rfl, rfl, rfl, rfl, rfl, Nat.le_refl _⟩⟩
      exact ⟨sep.props, sep.holes, fun l ha hb => sep.lists l ((fa.nested_iff l).mp ha) (hnest l hb)⟩
    · simp at hm
  | nestedPush k n =>
    simp only [applyMut] at hm
    cases hg : dictGet (h.dicts b.props) k with
    | none => simp [hg] at hm
    | some v =>
      cases v with
      | atom _ => simp [hg] at hm
      | ref l =>
        simp only [hg, Except.ok.injEq, Prod.mk.injEq] at hm
        obtain ⟨rfl, rfl⟩ := hm
        obtain ⟨k', hk'⟩ := dictGet_mem hg
        have hb : nested h b l := ⟨k', hk'⟩
        have fa := frame_lists_upd h a (h.lists l ++ [n]) (fun ha => sep.lists l ha hb)
        exact ⟨fa, ⟨wb.props, wb.holes, wb.seq, wb.lists, wb.seqKind⟩,
          ⟨sep.props, sep.holes, sep.lists⟩, ⟨rfl, rfl, rfl, rfl, rfl, rfl, rfl, Nat.le_refl _⟩⟩

/-! ### construction -/

theorem freshEntries_spec : ∀ (rv : List (String × RVal)) (h : Heap H W),
    Ext h (freshEntries h rv).1 ∧
    resolveAll (freshEntries h rv).1 (freshEntries h rv).2 = rv ∧
    (∀ k l, (k, PVal.ref l) ∈ (freshEntries h rv).2 → h.next ≤ l ∧ l < (freshEntries h rv).1.next)
  | [], h => by simp [freshEntries, Ext.refl, resolveAll]
  | (k, .atom n) :: rest, h => by
    obtain ⟨e, hres, hnew⟩ := freshEntries_spec rest h
    refine ⟨e, ?_, ?_⟩
    · simp only [freshEntries, resolveAll, List.map_cons] at hres ⊢
      rw [hres]; rfl
    · intro k' l hm
      simp only [freshEntries, List.mem_cons, Prod.mk.injEq, reduceCtorEq, and_false, false_or] at hm
      exact hnew k' l hm
  | (k, .list xs) :: rest, h => by
    have ea := ext_allocList h xs
    obtain ⟨e, hres, hnew⟩ := freshEntries_spec rest (h.allocList xs).1
    have hn1 : (h.allocList xs).1.next = h.next + 1 := rfl
    have hl2 : (h.allocList xs).2 = h.next := rfl
    have hlt : h.next < (h.allocList xs).1.next := by rw [hn1]; exact Nat.lt_succ_self _
    refine ⟨ea.trans e, ?_, ?_⟩
    · simp only [freshEntries, resolveAll, List.map_cons] at hres ⊢
      rw [hres]
      congr 1
      simp only [resolve, hl2]
      rw [e.lists h.next hlt]
      simp [Heap.allocList]
    · intro k' l hm
      simp only [freshEntries, List.mem_cons, Prod.mk.injEq, PVal.ref.injEq] at hm
      rcases hm with ⟨_, rfl⟩ | hm
      · rw [hl2]; exact ⟨Nat.le_refl _, Nat.lt_of_lt_of_le hlt e.next⟩
      · have := hnew k' l hm
        exact ⟨Nat.le_trans (Nat.le_of_lt hlt) this.1, this.2⟩

theorem constructHoles_spec (h : Heap H W) (x : Option (List H)) :
    Ext h (constructHoles h x).1 ∧ (constructHoles h x).2.map (constructHoles h x).1.holes = x ∧
    (∀ l, (constructHoles h x).2 = some l → h.next ≤ l ∧ l < (constructHoles h x).1.next) := by
  cases x with
  | none => simp [constructHoles, Ext.refl]
  | some xs =>
    refine ⟨ext_allocHoles _ _, by simp [constructHoles, Heap.allocHoles], ?_⟩
    intro l hl
    simp only [constructHoles, Heap.allocHoles, Option.some.injEq] at hl ⊢
    omega

theorem constructSeq_spec (h : Heap H W) (x : Option (List W)) :
    Ext h (constructSeq h x).1 ∧
    (constructSeq h x).2.map (fun l => ((constructSeq h x).1.seqs l).map (·.2)) = x ∧
    (∀ l, (constructSeq h x).2 = some l → l < (constructSeq h x).1.next) ∧
    ((constructSeq h x).2 ≠ none → x ≠ none) := by
  cases x with
  | none => simp [constructSeq, Ext.refl]
  | some ws =>
    refine ⟨(ext_bump h _).trans (ext_allocSeq _ _), ?_, ?_, by simp⟩
    · simp [constructSeq, Heap.allocSeq, Heap.bump, reId_map_snd, Function.comp_def]
    · intro l hl
      simp only [constructSeq, Heap.allocSeq, Heap.bump, Option.some.injEq] at hl ⊢
      omega

theorem constructDt_spec (h : Heap H W) (x : Option TI) :
    Ext h (constructDt h x).1 ∧ (constructDt h x).2.map (·.2) = x := by
  cases x with
  | none => simp [constructDt, Ext.refl]
  | some t => exact ⟨ext_bump h 1, by simp [constructDt]⟩

/-- a newly built object: all its mutable cells are new -/
structure NewSpec (h : Heap H W) (r : Heap H W × Obj G H W) : Prop where
  ext : Ext h r.1
  propsNew : h.next ≤ r.2.props
  holesNew : ∀ l, r.2.holes = some l → h.next ≤ l
  listsNew : ∀ l, nested r.1 r.2 l → h.next ≤ l
  wf : WF r.1 r.2

theorem CloneSpec.new {h : Heap H W} {o : Obj G H W} {r : Heap H W × Obj G H W} (c : CloneSpec h o r) :
    NewSpec h r := ⟨c.ext, c.propsNew, c.holesNew, c.listsNew, c.wf⟩

/-- a new object is separated from every object allocated before -/
theorem NewSpec.sep {h : Heap H W} {r : Heap H W × Obj G H W} (c : NewSpec h r)
    {a : Obj G H W} (wa : WF h a) : Sep r.1 a r.2 where
  props := Nat.ne_of_lt (Nat.lt_of_lt_of_le wa.props c.propsNew)
  holes l ha hb := by
    have h1 := wa.holes l ha
    have h2 := c.holesNew l (by simpa using hb)
    exact absurd h1 (Nat.not_lt.mpr h2)
  lists l ha hb := by
    have h1 := wa.lists l (((c.ext.frame wa).nested_iff l).mp ha)
    have h2 := c.listsNew l hb
    exact absurd h1 (Nat.not_lt.mpr h2)

/-- kinds and containers fit together -/
def Fields.OK (f : Fields G H W) : Prop := f.seq ≠ none → f.kind.seqMode ≠ .none

theorem construct_spec (h : Heap H W) (f : Fields G H W) (hk : f.OK) :
    NewSpec h (construct h f) ∧ fields (construct h f).1 (construct h f).2 = f ∧
    (construct h f).2.cache = noCache := by
  obtain ⟨e1, hres1, hnew1⟩ := freshEntries_spec f.props h
  generalize hD : freshEntries h f.props = D at e1 hres1 hnew1
  have e2 := ext_allocDict D.1 D.2
  generalize hP : D.1.allocDict D.2 = P at e2
  have hPn : P.1.next = D.1.next + 1 := by rw [← hP]; rfl
  have hPl : P.2 = D.1.next := by rw [← hP]; rfl
  have hPd : P.1.dicts D.1.next = D.2 := by rw [← hP]; simp [Heap.allocDict]
  have e02 : Ext h P.1 := e1.trans e2
  obtain ⟨e3, hv3, hn3⟩ := constructHoles_spec P.1 f.holes
  generalize hHL : constructHoles P.1 f.holes = HL at e3 hv3 hn3
  obtain ⟨e4, hv4, hn4, hne4⟩ := constructSeq_spec HL.1 f.seq
  generalize hSQ : constructSeq HL.1 f.seq = SQ at e4 hv4 hn4 hne4
  obtain ⟨e5, hv5⟩ := constructDt_spec SQ.1 f.dt
  generalize hDT : constructDt SQ.1 f.dt = DT at e5 hv5
  have hr : construct h f = (DT.1, ⟨f.kind, f.geom, DT.2, P.2, HL.2, SQ.2, noCache⟩) := by
    simp only [construct, hD, hP, hHL, hSQ, hDT]
  rw [hr]
  have e25 : Ext P.1 DT.1 := (e3.trans e4).trans e5
  have e15 : Ext D.1 DT.1 := e2.trans e25
  have hdict : DT.1.dicts P.2 = D.2 := by
    rw [hPl, e25.dicts _ (by omega), hPd]
  have hnest : ∀ l, (∃ k, (k, PVal.ref l) ∈ DT.1.dicts P.2) → h.next ≤ l ∧ l < D.1.next := by
    rintro l ⟨k, hk⟩
    rw [hdict] at hk
    exact hnew1 k l hk
  refine ⟨⟨e1.trans e15, ?_, ?_, ?_, ?_⟩, ?_, rfl⟩
  · simp only [hPl]; exact e1.next
  · intro l hl; exact Nat.le_trans e02.next (hn3 l hl).1
  · intro l hl; exact (hnest l hl).1
  · refine ⟨?_, ?_, ?_, ?_, ?_⟩
    · simp only [hPl]; exact Nat.lt_of_lt_of_le (by omega) e25.next
    · intro l hl; exact Nat.lt_of_lt_of_le (hn3 l hl).2 (e4.trans e5).next
    · intro l hl; exact Nat.lt_of_lt_of_le (hn4 l hl) e5.next
    · intro l hl; exact Nat.lt_of_lt_of_le (hnest l hl).2 e15.next
    · intro hne; exact hk (hne4 hne)
  · -- the constructor stores what it is given
    have hp : propsOf DT.1 (⟨f.kind, f.geom, DT.2, P.2, HL.2, SQ.2, noCache⟩ : Obj G H W) = f.props := by
      simp only [propsOf]
      rw [hdict, ← hres1]
      exact resolveAll_congr _ (fun k l hk => e15.lists l (hnew1 k l hk).2)
    have hh : holesOf DT.1 (⟨f.kind, f.geom, DT.2, P.2, HL.2, SQ.2, noCache⟩ : Obj G H W) = f.holes := by
      simp only [holesOf]
      rw [← hv3]
      cases hh : HL.2 with
      | none => rfl
      | some l => simp only [Option.map_some]; rw [(e4.trans e5).holes l (hn3 l hh).2]
    have hs : seqOf DT.1 (⟨f.kind, f.geom, DT.2, P.2, HL.2, SQ.2, noCache⟩ : Obj G H W) = f.seq := by
      simp only [seqOf]
      rw [← hv4]
      cases hh : SQ.2 with
      | none => rfl
      | some l => simp only [Option.map_some]; rw [e5.seqs l (hn4 l hh)]
    have hd : dtOf (⟨f.kind, f.geom, DT.2, P.2, HL.2, SQ.2, noCache⟩ : Obj G H W) = f.dt := by
      simp only [dtOf]; exact hv5
    simp only [fields, hp, hh, hs, hd]

/-! ### one call, a sequence of calls -/

/-- one call `b.m(…, inplace=ip)` seen from a separated object `a` -/
theorem step_frame {h : Heap H W} {a b : Obj G H W} (m : Mut H) (ip : Bool) (wa : WF h a) (wb : WF h b)
    (sep : Sep h a b) :
    Frame h (step h b m ip).heap a ∧ h.next ≤ (step h b m ip).heap.next ∧
    WF (step h b m ip).heap (step h b m ip).self ∧ Sep (step h b m ip).heap a (step h b m ip).self := by
  unfold step
  split
  · -- in place
    cases hm : applyMut h b m with
    | error e => exact ⟨Frame.refl _ _, Nat.le_refl _, wb, sep⟩
    | ok r =>
      obtain ⟨h', b'⟩ := r
      obtain ⟨fa, wb', sep', ss⟩ := applyMut_frame wa wb sep hm
      exact ⟨fa, ss.next, wb', sep'⟩
  · -- on a copy: the receiver is not touched at all
    have cs := copy_spec h b wb
    have wa1 : WF (copy h b).1 a := (cs.ext.frame wa).wf cs.ext.next wa
    have wb1 : WF (copy h b).1 b := (cs.ext.frame wb).wf cs.ext.next wb
    dsimp only
    cases hm : applyMut (copy h b).1 (copy h b).2 m with
    | error e => exact ⟨Frame.refl _ _, Nat.le_refl _, wb, sep⟩
    | ok r =>
      obtain ⟨h', c'⟩ := r
      obtain ⟨fa, _, _, ss⟩ := applyMut_frame wa1 cs.wf (cs.new.sep wa) hm
      obtain ⟨fb, _, _, _⟩ := applyMut_frame wb1 cs.wf (cs.new.sep wb) hm
      have fa' : Frame h h' a := (cs.ext.frame wa).trans fa
      have fb' : Frame h h' b := (cs.ext.frame wb).trans fb
      have hn : h.next ≤ h'.next := Nat.le_trans cs.ext.next ss.next
      exact ⟨fa', hn, fb'.wf hn wb, sep.of_frames fa' fb'⟩

/-- a whole sequence of in-place mutations of `b`: a separated `a` sees the same heap -/
theorem runMuts_frame : ∀ (ms : List (Mut H)) {h : Heap H W} {a b : Obj G H W}, WF h a → WF h b → Sep h a b →
    Frame h (runMuts h b ms).1 a
  | [], _, _, _, _, _, _ => Frame.refl _ _
  | m :: ms, h, a, b, wa, wb, sep => by
    obtain ⟨fa, hn, wb', sep'⟩ := step_frame m true wa wb sep
    simp only [runMuts]
    exact fa.trans (runMuts_frame ms (fa.wf hn wa) wb' sep')

/-! ### the receiver of an API mutator -/

theorem applyMut_api_holes {h h' : Heap H W} {b b' : Obj G H W} {m : Mut H} (hapi : m.isApi = true)
    (hm : applyMut h b m = .ok (h', b')) : h'.holes = h.holes := by
  cases m with
  | setDt v =>
    cases v <;> simp only [applyMut, Except.ok.injEq, Prod.mk.injEq] at hm <;> obtain ⟨rfl, rfl⟩ := hm <;> rfl
  | bufferDt d =>
    simp only [applyMut] at hm
    cases hdt : b.dt with
    | none => simp [hdt] at hm
    | some p =>
      obtain ⟨l, t⟩ := p
      simp only [hdt] at hm
      cases hmk : TI.mk? (t.start - d) (t.stop + d) with
      | error e => simp [hmk] at hm
      | ok t' =>
        simp only [hmk, Except.ok.injEq, Prod.mk.injEq] at hm
        obtain ⟨rfl, rfl⟩ := hm; rfl
  | stripDt =>
    simp only [applyMut, Except.ok.injEq, Prod.mk.injEq] at hm
    obtain ⟨rfl, rfl⟩ := hm; rfl
  | setProp k v =>
    cases v <;> simp only [applyMut, Except.ok.injEq, Prod.mk.injEq] at hm <;> obtain ⟨rfl, rfl⟩ := hm <;> rfl
  | holesPop => simp [Mut.isApi] at hapi
  | holesPush x => simp [Mut.isApi] at hapi
  | dictDel k => simp [Mut.isApi] at hapi
  | nestedPush k n => simp [Mut.isApi] at hapi

/-- memo slots hold what a computation started now would return -/
def Coherent (h : Heap H W) (o : Obj G H W) : Prop := ∀ s st, o.cache s = some st → st = curStamp h o

theorem Coherent.derived {h : Heap H W} {o : Obj G H W} (c : Coherent h o) (s : Slot) :
    derived h o s = curStamp h o := by
  unfold OS.derived
  cases hc : o.cache s with
  | none => rfl
  | some st => simp [c s st hc]

theorem applyMut_self {h h' : Heap H W} {b b' : Obj G H W} {m : Mut H}
    (hm : applyMut h b m = .ok (h', b')) : SelfSpec h h' b b' := by
  cases m with
  | setDt v =>
    cases v <;> simp only [applyMut, Except.ok.injEq, Prod.mk.injEq] at hm <;> obtain ⟨rfl, rfl⟩ := hm
    · exact ⟨rfl, rfl, rfl, rfl, rfl, rfl, rfl, Nat.le_refl _⟩
    · exact ⟨rfl, rfl, rfl, rfl, rfl, rfl, rfl, Nat.le_succ _⟩
  | bufferDt d =>
    simp only [applyMut] at hm
    cases hdt : b.dt with
    | none => simp [hdt] at hm
    | some p =>
      obtain ⟨l, t⟩ := p
      simp only [hdt] at hm
      cases hmk : TI.mk? (t.start - d) (t.stop + d) with
      | error e => simp [hmk] at hm
      | ok t' =>
        simp only [hmk, Except.ok.injEq, Prod.mk.injEq] at hm
        obtain ⟨rfl, rfl⟩ := hm
        exact ⟨rfl, rfl, rfl, rfl, rfl, rfl, rfl, Nat.le_succ _⟩
  | stripDt =>
    simp only [applyMut, Except.ok.injEq, Prod.mk.injEq] at hm
    obtain ⟨rfl, rfl⟩ := hm
    exact ⟨rfl, rfl, rfl, rfl, rfl, rfl, rfl, Nat.le_refl _⟩
  | setProp k v =>
    cases v <;> simp only [applyMut, Except.ok.injEq, Prod.mk.injEq] at hm <;> obtain ⟨rfl, rfl⟩ := hm
    · exact ⟨rfl, rfl, rfl, rfl, rfl, rfl, rfl, Nat.le_refl _⟩
    · exact ⟨rfl, rfl, rfl, rfl, rfl, rfl, rfl, Nat.le_succ _⟩
  | holesPop =>
    simp only [applyMut] at hm
    cases hh : b.holes with
    | none => simp [hh] at hm
    | some l =>
      simp only [hh] at hm
      split at hm
      · simp at hm
      · simp only [Except.ok.injEq, Prod.mk.injEq] at hm
        obtain ⟨rfl, rfl⟩ := hm
        exact ⟨rfl, rfl, rfl, rfl, rfl, rfl, rfl, Nat.le_refl _⟩
  | holesPush x =>
    simp only [applyMut] at hm
    cases hh : b.holes with
    | none => simp [hh] at hm
    | some l =>
      simp only [hh, Except.ok.injEq, Prod.mk.injEq] at hm
      obtain ⟨rfl, rfl⟩ := hm
      exact ⟨rfl, rfl, rfl, rfl, rfl, rfl, rfl, Nat.le_refl _⟩
  | dictDel k =>
    simp only [applyMut] at hm
    split at hm
    · simp only [Except.ok.injEq, Prod.mk.injEq] at hm
      obtain ⟨rfl, rfl⟩ := hm
      exact ⟨rfl, rfl, rfl, rfl, rfl, rfl, rfl, Nat.le_refl _⟩
    · simp at hm
  | nestedPush k n =>
    simp only [applyMut] at hm
    cases hg : dictGet (h.dicts b.props) k with
    | none => simp [hg] at hm
    | some v =>
      cases v with
      | atom _ => simp [hg] at hm
      | ref l =>
        simp only [hg, Except.ok.injEq, Prod.mk.injEq] at hm
        obtain ⟨rfl, rfl⟩ := hm
        exact ⟨rfl, rfl, rfl, rfl, rfl, rfl, rfl, Nat.le_refl _⟩

theorem curStamp_congr {h h' : Heap H W} {b b' : Obj G H W} (hh : b'.holes = b.holes) (hs : b'.seq = b.seq)
    (hH : h'.holes = h.holes) (hS : h'.seqs = h.seqs) : curStamp h' b' = curStamp h b := by
  simp [curStamp, holesOf, seqOf, hh, hs, hH, hS]

/-- the receiver after one API call: same memo slots, same inputs of the memoised observations -/
theorem step_api_self {h : Heap H W} {b : Obj G H W} (m : Mut H) (ip : Bool) (hapi : m.isApi = true)
    (wb : WF h b) :
    (step h b m ip).self.cache = b.cache ∧ curStamp (step h b m ip).heap (step h b m ip).self = curStamp h b ∧
    (step h b m ip).self.kind = b.kind ∧ (step h b m ip).self.geom = b.geom := by
  unfold step
  split
  · cases hm : applyMut h b m with
    | error e => exact ⟨rfl, rfl, rfl, rfl⟩
    | ok r =>
      obtain ⟨h', b'⟩ := r
      have ss := applyMut_self hm
      exact ⟨ss.cache, curStamp_congr ss.holes ss.seq (applyMut_api_holes hapi hm) ss.seqs, ss.kind, ss.geom⟩
  · have cs := copy_spec h b wb
    have wb1 : WF (copy h b).1 b := (cs.ext.frame wb).wf cs.ext.next wb
    dsimp only
    cases hm : applyMut (copy h b).1 (copy h b).2 m with
    | error e => exact ⟨rfl, rfl, rfl, rfl⟩
    | ok r =>
      obtain ⟨h', c'⟩ := r
      obtain ⟨fb, _, _, _⟩ := applyMut_frame wb1 cs.wf (cs.new.sep wb) hm
      exact ⟨rfl, ((cs.ext.frame wb).trans fb).curStamp, rfl, rfl⟩

/-! ### value-level meaning of `dict[k] = v` -/

/-- `d[k] = v` on resolved dicts -/
def rdictSet (d : List (String × RVal)) (k : String) (v : RVal) : List (String × RVal) :=
  if d.any (fun e => e.1 == k) then d.map (fun e => if e.1 == k then (k, v) else e) else d ++ [(k, v)]

theorem resolveAll_dictSet (h : Heap H W) (d : List (String × PVal)) (k : String) (v : PVal) :
    resolveAll h (dictSet d k v) = rdictSet (resolveAll h d) k (resolve h v) := by
  have hany : (resolveAll h d).any (fun e => e.1 == k) = d.any (fun e => e.1 == k) := by
    simp [resolveAll, List.any_map, Function.comp_def]
  unfold dictSet rdictSet
  rw [hany]
  split
  · simp only [resolveAll, List.map_map]
    apply List.map_congr_left
    intro e _
    simp only [Function.comp]
    split <;> rfl
  · simp [resolveAll]

end GV.OS
