import GeoVerif.Lemmas.IoRows
import Mathlib.Data.List.Forall2

/-!
# Whole collections through the shapefile channel — helper proofs for C20
-/
namespace GV.Io

/-- what the theorems assume of one shape (see `Props/C20.lean` for the reading of every field) -/
structure ShapeWF (s : Shape) : Prop where
  uniform : Uniform s.geom
  rings : RingsOK s.geom
  multi : MultiOK s.geom
  dt : DtWF s.dt
  props : PropsOK s

/-- `s'` is what the statement wants back for `s`: the same geometry (stored form, so also the same
    ring orientation, holes and parts), the same time bounds, and every type-compatible property -/
def BackRel (s s' : Shape) : Prop :=
  s'.geom = s.geom ∧ s'.dt = s.dt ∧
    ∀ k v, dictGet s.props k = some v → Storable v → dictGet s'.props k = some v

def callOf (g : Geom) : ShpCall := (toPyshp g).getD ⟨.point, .plain, []⟩

theorem readRow_back {group : List Shape} (hwf : ∀ s ∈ group, ShapeWF s) (hu : UniformTypes group)
    {s : Shape} (hs : s ∈ group) (idx : Nat) :
    (toPyshp s.geom).isSome = true ∧
    ∃ s', readRow "datetime_s" "datetime_e" (chanGeo (callOf s.geom), backRec group s idx) = .ok s' ∧
      BackRel s s' := by
  have hp : ∀ s ∈ group, PropsOK s := fun x hx => (hwf x hx).props
  obtain ⟨call, k, h1, _, h3, h4⟩ := shp_geom_roundtrip' s.geom (hwf s hs).uniform (hwf s hs).rings (hwf s hs).multi
  have hcall : callOf s.geom = call := by simp [callOf, h1]
  refine ⟨by simp [h1], ?_⟩
  rw [hcall]
  refine ⟨{ geom := s.geom, dt := s.dt,
            props := dictDel (dictDel (backRec group s idx) "datetime_s") "datetime_e" }, ?_, rfl, rfl, ?_⟩
  · unfold readRow
    simp only [h3, backRec_dt hp hs idx (hwf s hs).dt, h4, bind, Except.bind, pure, Except.pure]
  · intro key v hv hst
    have hk : KeyOK key := hp s hs _ (dictGet_mem hv)
    simp only
    rw [dictGet_dictDel_ne _ _ _ hk.ne_e, dictGet_dictDel_ne _ _ _ hk.ne_s]
    exact backRec_user hp hu hs idx hv hst

theorem mem_enumFrom {α} : ∀ (l : List α) (n : Nat) (p : Nat × α), p ∈ enumFrom n l → p.2 ∈ l
  | [], _, _, h => by simp [enumFrom] at h
  | a :: as, n, p, h => by
    simp only [enumFrom, List.mem_cons] at h
    rcases h with rfl | h
    · exact List.mem_cons_self
    · exact List.mem_cons_of_mem _ (mem_enumFrom as (n + 1) p h)

theorem writeRows_ok (tm : Dict PTag) : ∀ (l : List (Nat × Shape)),
    (∀ p ∈ l, (toPyshp p.2.geom).isSome = true) →
    writeRows tm l = .ok (l.map fun p => (recordOf tm p.2 p.1, callOf p.2.geom))
  | [], _ => rfl
  | (i, s) :: rest, h => by
    have h1 := h (i, s) List.mem_cons_self
    have ih := writeRows_ok tm rest (fun p hp => h p (List.mem_cons_of_mem _ hp))
    cases hc : toPyshp s.geom with
    | none => simp [hc] at h1
    | some call =>
      simp only [writeRows, hc, ih, List.map_cons, callOf, Option.getD_some]
      rfl

theorem mapExcept_forall2 {α β} {f : α → Except String β} {R : α → β → Prop} : ∀ (l : List α),
    (∀ a ∈ l, ∃ b, f a = .ok b ∧ R a b) → ∃ bs, mapExcept f l = .ok bs ∧ List.Forall₂ R l bs
  | [], _ => ⟨[], rfl, List.Forall₂.nil⟩
  | a :: as, h => by
    obtain ⟨b, hb, hr⟩ := h a List.mem_cons_self
    obtain ⟨bs, hbs, hrs⟩ := mapExcept_forall2 as (fun x hx => h x (List.mem_cons_of_mem _ hx))
    exact ⟨b :: bs, by simp only [mapExcept, hb, hbs]; rfl, List.Forall₂.cons hr hrs⟩

theorem forall2_enumFrom {α β} {R : α → β → Prop} : ∀ (l : List α) (n : Nat) (bs : List β),
    List.Forall₂ (fun (p : Nat × α) b => R p.2 b) (enumFrom n l) bs → List.Forall₂ R l bs
  | [], _, bs, h => by
    simp only [enumFrom] at h
    cases h
    exact List.Forall₂.nil
  | a :: as, n, bs, h => by
    simp only [enumFrom] at h
    cases h with
    | cons h1 h2 => exact List.Forall₂.cons h1 (forall2_enumFrom as (n + 1) _ h2)

/-- one layer: written, passed through the ideal channel, read back -/
theorem group_roundtrip (name : String) {group : List Shape} (hwf : ∀ s ∈ group, ShapeWF s)
    (hu : UniformTypes group) :
    ∃ f back, writeGroup none name group = .ok f ∧
      mapExcept (readRow "datetime_s" "datetime_e") (idealShp f).rows = .ok back ∧
      List.Forall₂ BackRel group back := by
  have hall : ∀ p ∈ enumFrom 0 group, (toPyshp p.2.geom).isSome = true :=
    fun p hp => (readRow_back hwf hu (mem_enumFrom _ _ _ hp) p.1).1
  have hf : writeGroup none name group = .ok (ShpFileW.mk name
      (((typemapOf none group).map fun kt => (kt.1, fieldType kt.2)) ++ [("ID", FType.N 0)])
      ((enumFrom 0 group).map fun p => (recordOf (typemapOf none group) p.2 p.1, callOf p.2.geom))) := by
    unfold writeGroup
    simp only [writeRows_ok _ _ hall, Except.map]
  have hrows : (idealShp (ShpFileW.mk name
      (((typemapOf none group).map fun kt => (kt.1, fieldType kt.2)) ++ [("ID", FType.N 0)])
      ((enumFrom 0 group).map fun p => (recordOf (typemapOf none group) p.2 p.1, callOf p.2.geom)))).rows
      = (enumFrom 0 group).map fun p => (chanGeo (callOf p.2.geom), backRec group p.2 p.1) := by
    simp only [idealShp, List.map_map]
    apply List.map_congr_left
    intro p _
    simp only [Function.comp, chanRec_recordOf, backRec]
  obtain ⟨bs2, hbs2, hrel2⟩ := mapExcept_forall2
    (f := fun (p : Nat × Shape) => readRow "datetime_s" "datetime_e" (chanGeo (callOf p.2.geom), backRec group p.2 p.1))
    (R := fun (p : Nat × Shape) (b : Shape) => BackRel p.2 b) (enumFrom 0 group) (by
      intro p hp
      exact (readRow_back hwf hu (mem_enumFrom _ _ _ hp) p.1).2)
  have hcomp : ∀ (l : List (Nat × Shape)),
      mapExcept (readRow "datetime_s" "datetime_e") (l.map fun p => (chanGeo (callOf p.2.geom), backRec group p.2 p.1))
        = mapExcept (fun (p : Nat × Shape) =>
            readRow "datetime_s" "datetime_e" (chanGeo (callOf p.2.geom), backRec group p.2 p.1)) l := by
    intro l
    induction l with
    | nil => rfl
    | cons a as ih => simp only [List.map_cons, mapExcept, ih]
  refine ⟨_, bs2, hf, ?_, forall2_enumFrom _ _ _ hrel2⟩
  rw [hrows, hcomp, hbs2]

theorem forall2_append {α β} {R : α → β → Prop} {l1 l2 : List α} {b1 b2 : List β}
    (h1 : List.Forall₂ R l1 b1) (h2 : List.Forall₂ R l2 b2) : List.Forall₂ R (l1 ++ l2) (b1 ++ b2) := by
  induction h1 with
  | nil => exact h2
  | cons h _ ih => exact List.Forall₂.cons h ih

/-- all layers -/
theorem groups_roundtrip : ∀ (gs : List (String × List Shape)),
    (∀ ng ∈ gs, (∀ s ∈ ng.2, ShapeWF s) ∧ UniformTypes ng.2) →
    ∃ files bss, writeGroups none gs = .ok files ∧
      mapExcept (fun f => mapExcept (readRow "datetime_s" "datetime_e") f.rows) (files.map idealShp) = .ok bss ∧
      List.Forall₂ BackRel (gs.map (·.2)).flatten bss.flatten
  | [], _ => ⟨[], [], rfl, rfl, by simp⟩
  | (name, group) :: rest, h => by
    obtain ⟨files, bss, hw, hr, hrel⟩ := groups_roundtrip rest (fun ng hng => h ng (List.mem_cons_of_mem _ hng))
    obtain ⟨hwf, hu⟩ := h (name, group) List.mem_cons_self
    by_cases he : group.isEmpty = true
    · have : group = [] := List.isEmpty_iff.mp he
      subst this
      refine ⟨files, bss, ?_, hr, ?_⟩
      · simp only [writeGroups, List.isEmpty_nil, if_true]; exact hw
      · simpa using hrel
    · obtain ⟨f, back, hf, hb, hrel1⟩ := group_roundtrip name hwf hu
      refine ⟨f :: files, back :: bss, ?_, ?_, ?_⟩
      · simp only [writeGroups, he, Bool.false_eq_true, if_false, hf, hw, bind, Except.bind, pure, Except.pure]
      · simp only [List.map_cons, mapExcept, hb, hr, bind, Except.bind, pure, Except.pure]
      · simp only [List.map_cons, List.flatten_cons]
        exact forall2_append hrel1 hrel

end GV.Io
