import GeoVerif.Lemmas.SegInt
import GeoVerif.Model.Relate
import Mathlib.Order.MinMax
/-!
# Helpers for `Props/C02Box.lean`: edge crossings of two axis-parallel rectangles

* a horizontal and a vertical segment properly cross iff each one's fixed coordinate lies in the other's
  range (`properCross_hv`, `properCross_vh`); two horizontal or two vertical segments never do
  (`properCross_hh`, `properCross_vv`: collinear overlap is not a proper crossing);
* hence the 16 edge pairs of two rectangles reduce to `perpCross` (`crossEdges_iff`);
* interval arithmetic: `perpCross` holds exactly when the closed rectangles meet and neither lies strictly
  inside the other (`perpCross_iff`).
-/
namespace GV.RelBox
open GV

/-- parallel horizontal edges never properly cross -/
theorem properCross_hh (p q h r s k : Rat) : ¬ properCross ((p, h), (q, h)) ((r, k), (s, k)) := by
  rintro ⟨hd, _⟩; apply hd; simp [segDiv, det2]

theorem properCross_vv (v r s w t u : Rat) : ¬ properCross ((v, r), (v, s)) ((w, t), (w, u)) := by
  rintro ⟨hd, _⟩; apply hd; simp [segDiv, det2]

theorem properCross_hv (p q h v r s : Rat) :
    properCross ((p, h), (q, h)) ((v, r), (v, s)) ↔
      p ≠ q ∧ r ≠ s ∧ lo p q ≤ v ∧ v ≤ hi p q ∧ lo r s ≤ h ∧ h ≤ hi r s := by
  constructor
  · rintro ⟨hd, ⟨x, y⟩, ⟨c1, b1⟩, ⟨c2, b2⟩⟩
    have hd' : (p - q) * (r - s) ≠ 0 := by simpa [segDiv, det2] using hd
    have hpq : p ≠ q := fun e => hd' (by rw [e]; ring)
    have hrs : r ≠ s := fun e => hd' (by rw [e]; ring)
    have hy : y = h := by
      have : (q - p) * (y - h) = 0 := by simpa [crossP] using c1
      rcases mul_eq_zero.mp this with e | e
      · exact absurd (by linarith) hpq
      · linarith
    have hx : x = v := by
      have : (s - r) * (x - v) = 0 := by
        have := c2; simp only [crossP] at this; linarith
      rcases mul_eq_zero.mp this with e | e
      · exact absurd (by linarith) hrs
      · linarith
    subst hy hx
    simp only [inBox, Bool.and_eq_true, decide_eq_true_eq] at b1 b2
    exact ⟨hpq, hrs, b1.1.1.1, b1.1.1.2, b2.1.2, b2.2⟩
  · rintro ⟨hpq, hrs, h1, h2, h3, h4⟩
    refine ⟨?_, (v, h), ⟨?_, ?_⟩, ⟨?_, ?_⟩⟩
    · simp only [segDiv, det2, sub_self, mul_zero, sub_zero]
      exact mul_ne_zero (sub_ne_zero.mpr hpq) (sub_ne_zero.mpr hrs)
    · simp [crossP]
    · simp only [inBox, Bool.and_eq_true, decide_eq_true_eq]
      exact ⟨⟨⟨h1, h2⟩, by unfold lo; simp⟩, by unfold hi; simp⟩
    · simp [crossP]
    · simp only [inBox, Bool.and_eq_true, decide_eq_true_eq]
      exact ⟨⟨⟨by unfold lo; simp, by unfold hi; simp⟩, h3⟩, h4⟩

theorem properCross_vh (p q h v r s : Rat) :
    properCross ((v, r), (v, s)) ((p, h), (q, h)) ↔
      p ≠ q ∧ r ≠ s ∧ lo p q ≤ v ∧ v ≤ hi p q ∧ lo r s ≤ h ∧ h ≤ hi r s := by
  rw [properCross_symm, properCross_hv]



/-- the four edges of `[a0,a1]×[b0,b1]` in the order of `GeoBox.bounding_coords`
    (left ↓, bottom →, right ↑, top ←) -/
def rectEdges (a0 a1 b0 b1 : Rat) : List Edge :=
  [((a0, b1), (a0, b0)), ((a0, b0), (a1, b0)), ((a1, b0), (a1, b1)), ((a1, b1), (a0, b1))]

theorem lo_of_lt {a b : Rat} (h : a < b) : lo a b = a ∧ lo b a = a ∧ hi a b = b ∧ hi b a = b := by
  unfold lo hi
  refine ⟨?_, ?_, ?_, ?_⟩ <;> split <;> first | rfl | (exfalso; linarith)

/-- some horizontal edge of one rectangle meets some vertical edge of the other:
    (a vertical side of `B` has its `x` in `[a0,a1]` and a horizontal side of `A` has its `y` in `[d0,d1]`)
    or the same with the roles exchanged -/
def perpCross (a0 a1 b0 b1 c0 c1 d0 d1 : Rat) : Prop :=
  ((a0 ≤ c0 ∧ c0 ≤ a1 ∨ a0 ≤ c1 ∧ c1 ≤ a1) ∧ (d0 ≤ b0 ∧ b0 ≤ d1 ∨ d0 ≤ b1 ∧ b1 ≤ d1)) ∨
  ((c0 ≤ a0 ∧ a0 ≤ c1 ∨ c0 ≤ a1 ∧ a1 ≤ c1) ∧ (b0 ≤ d0 ∧ d0 ≤ b1 ∨ b0 ≤ d1 ∧ d1 ≤ b1))

/-- the closed rectangles share a point -/
def meet (a0 a1 b0 b1 c0 c1 d0 d1 : Rat) : Prop := a0 ≤ c1 ∧ c0 ≤ a1 ∧ b0 ≤ d1 ∧ d0 ≤ b1

/-- `[c0,c1]×[d0,d1]` lies in the open rectangle `(a0,a1)×(b0,b1)` -/
def nested (a0 a1 b0 b1 c0 c1 d0 d1 : Rat) : Prop := a0 < c0 ∧ c1 < a1 ∧ b0 < d0 ∧ d1 < b1

/-- **all 16 edge pairs**: the 8 parallel pairs never cross, the 8 perpendicular pairs give `perpCross` -/
theorem crossEdges_iff (a0 a1 b0 b1 c0 c1 d0 d1 : Rat) (ha : a0 < a1) (hb : b0 < b1) (hc : c0 < c1)
    (hd : d0 < d1) :
    (∃ a ∈ rectEdges a0 a1 b0 b1, ∃ b ∈ rectEdges c0 c1 d0 d1, properCross a b) ↔
      perpCross a0 a1 b0 b1 c0 c1 d0 d1 := by
  obtain ⟨la1, la2, la3, la4⟩ := lo_of_lt ha
  obtain ⟨lb1, lb2, lb3, lb4⟩ := lo_of_lt hb
  obtain ⟨lc1, lc2, lc3, lc4⟩ := lo_of_lt hc
  obtain ⟨ld1, ld2, ld3, ld4⟩ := lo_of_lt hd
  have na := ha.ne; have nb := hb.ne; have nc := hc.ne; have nd := hd.ne
  have na' := ha.ne'; have nb' := hb.ne'; have nc' := hc.ne'; have nd' := hd.ne'
  simp only [rectEdges, List.mem_cons, List.not_mem_nil, or_false, exists_eq_or_imp, exists_eq_left,
    properCross_hh, properCross_vv, properCross_hv, properCross_vh, false_or, or_false, perpCross,
    la1, la2, la3, la4, lb1, lb2, lb3, lb4, lc1, lc2, lc3, lc4, ld1, ld2, ld3, ld4,
    ne_eq, na, nb, nc, nd, na', nb', nc', nd', not_false_eq_true, true_and]
  clear la1 la2 la3 la4 lb1 lb2 lb3 lb4 lc1 lc2 lc3 lc4 ld1 ld2 ld3 ld4 na nb nc nd na' nb' nc' nd' ha hb hc hd
  generalize (c0 ≤ a0) = p1, (a0 ≤ c1) = p2, (b0 ≤ d0) = p3, (d0 ≤ b1) = p4, (b0 ≤ d1) = p5,
    (d1 ≤ b1) = p6, (a0 ≤ c0) = p7, (c0 ≤ a1) = p8, (d0 ≤ b0) = p9, (c1 ≤ a1) = p10, (a1 ≤ c1) = p11,
    (b1 ≤ d1) = p12
  grind

/-- 1-D: two closed intervals meet iff an end point of one lies in the other; the only way *no* end point of
    `[c0,c1]` lies in `[a0,a1]` while they meet is `[a0,a1] ⊂ (c0,c1)` -/
theorem interval_endpoint (a0 a1 c0 c1 : Rat) (ha : a0 < a1) (hc : c0 < c1) :
    (a0 ≤ c0 ∧ c0 ≤ a1 ∨ a0 ≤ c1 ∧ c1 ≤ a1) ↔ (a0 ≤ c1 ∧ c0 ≤ a1) ∧ ¬ (c0 < a0 ∧ a1 < c1) := by
  grind

/-- **edge crossing ⇔ the closed rectangles meet and neither is strictly inside the other** -/
theorem perpCross_iff (a0 a1 b0 b1 c0 c1 d0 d1 : Rat) (ha : a0 < a1) (hb : b0 < b1) (hc : c0 < c1)
    (hd : d0 < d1) :
    perpCross a0 a1 b0 b1 c0 c1 d0 d1 ↔
      meet a0 a1 b0 b1 c0 c1 d0 d1 ∧ ¬ nested a0 a1 b0 b1 c0 c1 d0 d1 ∧ ¬ nested c0 c1 d0 d1 a0 a1 b0 b1 := by
  unfold perpCross meet nested
  rw [interval_endpoint a0 a1 c0 c1 ha hc, interval_endpoint d0 d1 b0 b1 hd hb,
    interval_endpoint c0 c1 a0 a1 hc ha, interval_endpoint b0 b1 d0 d1 hb hd]
  grind

theorem meet_iff_max_min (a0 a1 b0 b1 c0 c1 d0 d1 : Rat) (ha : a0 < a1) (hb : b0 < b1) (hc : c0 < c1)
    (hd : d0 < d1) :
    meet a0 a1 b0 b1 c0 c1 d0 d1 ↔ max a0 c0 ≤ min a1 c1 ∧ max b0 d0 ≤ min b1 d1 := by
  unfold meet
  simp only [max_le_iff, le_min_iff]
  constructor
  · rintro ⟨h1, h2, h3, h4⟩; exact ⟨⟨⟨ha.le, h2⟩, h1, hc.le⟩, ⟨hb.le, h4⟩, h3, hd.le⟩
  · rintro ⟨⟨⟨_, h2⟩, h1, _⟩, ⟨_, h4⟩, h3, _⟩; exact ⟨h1, h2, h3, h4⟩

end GV.RelBox
