import GeoVerif.Model.Obj
import GeoVerif.Lemmas.Rot
import GeoVerif.Lemmas.PySet
import Mathlib.Data.List.Perm.Lattice
import Mathlib.Data.List.Nodup

/-!
# Helper lemmas for C15: the component relations of `__eq__` are equivalences; keys of equal outlines
-/
set_option linter.unusedSectionVars false
namespace GV.Obj

/-! ### coordinates, time bounds -/

theorem Coord.eq_iff_key (a b : Coord) : a.eq b = true ↔ a.key = b.key := by
  simp only [Coord.eq, Coord.key, Bool.and_eq_true, beq_iff_eq, Prod.mk.injEq]
  tauto

theorem coord_bequiv : BEquiv Coord.eq where
  refl x := (Coord.eq_iff_key x x).mpr rfl
  symm h := (Coord.eq_iff_key _ _).mpr ((Coord.eq_iff_key _ _).mp h).symm
  trans h1 h2 := (Coord.eq_iff_key _ _).mpr (((Coord.eq_iff_key _ _).mp h1).trans ((Coord.eq_iff_key _ _).mp h2))

theorem TI.eq_iff' (a b : TI) : a.eq b = true ↔ a = b := by
  cases a; cases b; simp [TI.eq]

theorem dtEq_iff (a b : Dt) : dtEq a b = true ↔ a = b := by
  cases a <;> cases b <;> simp [dtEq, TI.eq_iff']

theorem dtEq_bequiv : BEquiv dtEq where
  refl x := (dtEq_iff x x).mpr rfl
  symm h := (dtEq_iff _ _).mpr ((dtEq_iff _ _).mp h).symm
  trans h1 h2 := (dtEq_iff _ _).mpr (((dtEq_iff _ _).mp h1).trans ((dtEq_iff _ _).mp h2))

/-! ### outlines -/

theorem outlineEq_bequiv : BEquiv outlineEq where
  refl x := (outlineEq_iff x x).mpr ⟨rfl, RotRev.refl _⟩
  symm h := by
    have := (outlineEq_iff _ _).mp h
    exact (outlineEq_iff _ _).mpr ⟨this.1.symm, this.2.symm⟩
  trans h1 h2 := by
    have h1 := (outlineEq_iff _ _).mp h1
    have h2 := (outlineEq_iff _ _).mp h2
    exact (outlineEq_iff _ _).mpr ⟨h1.1.trans h2.1, h1.2.trans h2.2⟩

/-- what `GeoPolygon.__init__` guarantees of a stored outline: non-empty and self-closing -/
def Closed (o : List Coord) : Prop :=
  o ≠ [] ∧ o.head?.map Coord.key = o.getLast?.map Coord.key

/-- a closed outline and its open outline have the same vertex set -/
theorem mem_keys_openOutline {o : List Coord} (hc : Closed o) (k : CKey) :
    k ∈ keys (openOutline o) ↔ k ∈ keys o := by
  obtain ⟨hne, hcl⟩ := hc
  unfold openOutline
  by_cases hd : o.dropLast.isEmpty = true
  · simp [hd]
  · simp only [hd, Bool.false_eq_true, if_false]
    have hd' : o.dropLast ≠ [] := by simpa using hd
    have hsplit : o = o.dropLast ++ [o.getLast hne] := (List.dropLast_append_getLast hne).symm
    constructor
    · intro h
      simp only [keys, List.mem_map] at h ⊢
      obtain ⟨c, hc, rfl⟩ := h
      exact ⟨c, List.dropLast_subset _ hc, rfl⟩
    · intro h
      simp only [keys, List.mem_map] at h ⊢
      obtain ⟨c, hc, rfl⟩ := h
      rw [hsplit, List.mem_append, List.mem_singleton] at hc
      rcases hc with hc | rfl
      · exact ⟨c, hc, rfl⟩
      · -- the last vertex: its key is the key of the head, which is in the open outline
        obtain ⟨a, l, hal⟩ := List.exists_cons_of_ne_nil hd'
        refine ⟨a, by rw [hal]; exact List.mem_cons_self, ?_⟩
        have hhead : o.head? = some a := by
          rw [hsplit, hal]; simp
        rw [hhead, List.getLast?_eq_some_getLast hne] at hcl
        simpa using hcl

theorem mem_dedup_beq {α : Type} [BEq α] [LawfulBEq α] (l : List α) (x : α) :
    x ∈ dedupBy (fun a b => a == b) l ↔ x ∈ l := by
  constructor
  · exact mem_of_mem_dedupBy _ l x
  · intro h
    obtain ⟨y, hy, hyx⟩ := dedupBy_cover beq_bequiv l x h
    have : y = x := by simpa using hyx
    exact this ▸ hy

theorem nodup_dedup_beq {α : Type} [BEq α] [LawfulBEq α] (l : List α) :
    (dedupBy (fun a b => a == b) l).Nodup := by
  have := dedupBy_pairwise (r := fun (a b : α) => a == b) beq_bequiv l
  exact this.imp (by intro a b h; simpa using h)

/-- equal outlines (closed) have the same `frozenset` key -/
theorem fsKeys_of_outlineEq {s o : List Coord} (hs : Closed s) (ho : Closed o)
    (h : outlineEq s o = true) : msEqBy (fun x y => x == y) (fsKeys s) (fsKeys o) = true := by
  apply msEqBy_of_perm
  unfold fsKeys
  rw [List.perm_ext_iff_of_nodup (nodup_dedup_beq _) (nodup_dedup_beq _)]
  intro k
  rw [mem_dedup_beq, mem_dedup_beq, ← mem_keys_openOutline hs, ← mem_keys_openOutline ho]
  have := ((outlineEq_iff s o).mp h).2.perm
  exact this.mem_iff

/-! ### geometry, holes -/

def Geom.isPoly : Geom → Bool
  | .poly _ => true
  | _ => false

theorem Geom.eq_isPoly {g g' : Geom} (h : g.eq g' = true) : g.isPoly = g'.isPoly := by
  cases g <;> cases g' <;> simp_all [Geom.eq, Geom.isPoly]

theorem geom_bequiv : BEquiv Geom.eq where
  refl g := by
    cases g <;> simp [Geom.eq, coord_bequiv.refl, outlineEq_bequiv.refl]
  symm {g g'} h := by
    cases g <;> cases g' <;> simp only [Geom.eq, Bool.and_eq_true, beq_iff_eq, Coord.eq_iff_key] at h ⊢ <;>
      first
        | exact outlineEq_bequiv.symm h
        | (simp_all)
  trans {g g' g''} h1 h2 := by
    cases g <;> cases g' <;> simp only [Geom.eq, Bool.and_eq_true, beq_iff_eq, Coord.eq_iff_key] at h1 <;>
      cases g'' <;> simp only [Geom.eq, Bool.and_eq_true, beq_iff_eq, Coord.eq_iff_key] at h2 ⊢ <;>
      first
        | exact outlineEq_bequiv.trans h1 h2
        | (simp_all)

theorem hole_bequiv : BEquiv Hole.eq where
  refl h := by simp [Hole.eq, geom_bequiv.refl, dtEq_bequiv.refl]
  symm h := by
    simp only [Hole.eq, Bool.and_eq_true] at h ⊢
    exact ⟨geom_bequiv.symm h.1, dtEq_bequiv.symm h.2⟩
  trans h1 h2 := by
    simp only [Hole.eq, Bool.and_eq_true] at h1 h2 ⊢
    exact ⟨geom_bequiv.trans h1.1 h2.1, dtEq_bequiv.trans h1.2 h2.2⟩

theorem edgeSet_bequiv : BEquiv edgeSetEq := pySetEq_bequiv beq_bequiv

/-! ### normal forms of `Shape.eq` -/

theorem Shape.eq_poly (env : Env) (s o : List Coord) (hs hs' : List Hole) (dt dt' : Dt) :
    Shape.eq env (.pl (.poly s) hs dt) (.pl (.poly o) hs' dt') =
      (dtEq dt dt' && outlineEq s o && decide (hs.length = hs'.length) &&
        pySetEq edgeSetEq (hs.map (Hole.edges env)) (hs'.map (Hole.edges env))) := by
  simp only [Shape.eq]
  cases dtEq dt dt' <;> cases outlineEq s o <;> by_cases h : hs.length = hs'.length <;> simp [h]

theorem Shape.eq_pl_other (env : Env) {g g' : Geom} (h : g.isPoly = false ∨ g'.isPoly = false)
    (hs hs' : List Hole) (dt dt' : Dt) :
    Shape.eq env (.pl g hs dt) (.pl g' hs' dt') = (g.eq g' && dtEq dt dt' && listEqBy Hole.eq hs hs') := by
  cases g <;> cases g' <;> simp_all [Shape.eq, Geom.eq, Geom.isPoly]

theorem Geom.isPoly_iff (g : Geom) : g.isPoly = true ↔ ∃ o, g = .poly o := by
  cases g <;> simp [Geom.isPoly]

end GV.Obj
