import GeoVerif.Model.Io
import Mathlib.Algebra.Order.Field.Rat
import Mathlib.Tactic.Linarith
import Mathlib.Tactic.Ring
import Mathlib.Tactic.SplitIfs

/-!
# Helper lemmas for C20 (`Props/C20.lean` holds the property statements)

* grouping: the classification loop is four filters
* orientation: the sum inside `is_counter_clockwise` changes sign under reversal (longitudes in range)
* the constructor normalisation `mkOutlineC` on stored and on reversed stored rings
* the Z/M reader loops
* sequential ring organisation of what `to_pyshp` writes
-/
namespace GV.Io

/-! ## grouping -/

def isFam (f : Family) (s : Shape) : Bool := family s.geom == some f

theorem groupLoop_eq (coll : List Shape) : ∀ g : Groups,
    groupLoop coll g =
      if coll.all (fun s => (family s.geom).isSome) then
        .ok { points := g.points ++ coll.filter (isFam .points),
              multipoints := g.multipoints ++ coll.filter (isFam .multipoints),
              lines := g.lines ++ coll.filter (isFam .lines),
              shapes := g.shapes ++ coll.filter (isFam .shapes) }
      else .error "ERR:Value" := by
  induction coll with
  | nil => intro g; simp [groupLoop]
  | cons s rest ih =>
    intro g
    cases hf : family s.geom with
    | none => simp [groupLoop, hf]
    | some f =>
      cases f <;> simp [groupLoop, hf, ih, isFam]

/-! ## orientation sum -/

/-- one summand of `is_counter_clockwise` -/
def term (a b : Pt) : Rat := ((ensureEdge a b).2.1 - (ensureEdge a b).1.1) * ((ensureEdge a b).2.2 + (ensureEdge a b).1.2)

def InRange (l : List Pt) : Prop := ∀ p ∈ l, -180 ≤ p.1 ∧ p.1 ≤ 180

theorem term_antisymm (a b : Pt) (ha : -180 ≤ a.1 ∧ a.1 ≤ 180) (hb : -180 ≤ b.1 ∧ b.1 ≤ 180) :
    term b a = - term a b := by
  obtain ⟨ha1, ha2⟩ := ha
  obtain ⟨hb1, hb2⟩ := hb
  unfold term ensureEdge absR
  split_ifs <;> simp only [] <;> first | (exfalso; linarith) | ring

/-- sum of `f` over consecutive pairs -/
def chainSum (f : Pt → Pt → Rat) : List Pt → Rat
  | a :: b :: t => f a b + chainSum f (b :: t)
  | _ => 0

theorem chainSum_cons (f : Pt → Pt → Rat) (x : Pt) (l : List Pt) :
    chainSum f (x :: l) = (match l.head? with | some h => f x h | none => 0) + chainSum f l := by
  cases l with
  | nil => simp [chainSum]
  | cons b t => simp [chainSum]

theorem chainSum_append_singleton (f : Pt → Pt → Rat) (a : Pt) : ∀ l : List Pt,
    chainSum f (l ++ [a]) = chainSum f l + (match l.getLast? with | some b => f b a | none => 0)
  | [] => by simp [chainSum]
  | [x] => by simp [chainSum]
  | x :: y :: t => by
    have ih := chainSum_append_singleton f a (y :: t)
    have h1 : (x :: y :: t) ++ [a] = x :: y :: (t ++ [a]) := rfl
    have h2 : (y :: t) ++ [a] = y :: (t ++ [a]) := rfl
    rw [h1, chainSum, ← h2, ih]
    simp only [chainSum, List.getLast?_cons_cons]
    ring

theorem chainSum_reverse (f : Pt → Pt → Rat) : ∀ l : List Pt,
    chainSum f l.reverse = chainSum (fun a b => f b a) l
  | [] => by simp [chainSum]
  | a :: t => by
    rw [List.reverse_cons, chainSum_append_singleton, chainSum_reverse f t, chainSum_cons]
    rw [List.getLast?_reverse]
    cases t.head? <;> simp <;> ring

theorem chainSum_flip_neg (l : List Pt) (h : InRange l) :
    chainSum (fun a b => term b a) l = - chainSum term l := by
  induction l with
  | nil => simp [chainSum]
  | cons a t ih =>
    cases t with
    | nil => simp [chainSum]
    | cons b t' =>
      have hr : InRange (b :: t') := fun p hp => h p (List.mem_cons_of_mem _ hp)
      simp only [chainSum]
      rw [ih hr, term_antisymm a b (h a (by simp)) (h b (by simp))]
      ring

theorem foldl_add_zip (g : Pt → Pt → Rat) (w : Pt) : ∀ (vs : List Pt) (u : Pt) (acc : Rat),
    (((u :: vs).zip (vs ++ [w])).map fun e => g e.1 e.2).foldl (· + ·) acc = acc + chainSum g (u :: vs ++ [w])
  | [], u, acc => by simp [chainSum]
  | v :: vs, u, acc => by
    have ih := foldl_add_zip g w vs v (acc + g u v)
    simp only [List.cons_append, List.zip_cons_cons, List.map_cons, List.foldl_cons] at ih ⊢
    rw [ih]
    simp only [chainSum]
    ring

/-- the orientation sum is the chain sum over the ring followed by its first vertex -/
theorem shoelace_eq_chainSum (l : List Pt) : shoelace l = chainSum term (l ++ l.head?.toList) := by
  cases l with
  | nil => simp [shoelace, cyclicPairs, chainSum]
  | cons v vs =>
    have h := foldl_add_zip term v vs v 0
    simp only [shoelace, cyclicPairs, List.head?_cons, Option.toList_some]
    have : (fun e : Edge => ((ensureEdge e.1 e.2).2.1 - (ensureEdge e.1 e.2).1.1) * ((ensureEdge e.1 e.2).2.2 + (ensureEdge e.1 e.2).1.2))
        = fun e : Pt × Pt => term e.1 e.2 := by funext e; rfl
    rw [this, h]
    simp

theorem shoelace_reverse' (l : List Pt) (h : InRange l) : shoelace l.reverse = - shoelace l := by
  cases hl : l.getLast? with
  | none =>
    have : l = [] := by simpa using hl
    subst this
    have h0 : shoelace [] = 0 := rfl
    rw [List.reverse_nil, h0, neg_zero]
  | some x =>
    have hne : l ≠ [] := by intro h0; simp [h0] at hl
    obtain ⟨v, vs, rfl⟩ := List.exists_cons_of_ne_nil hne
    have hx : x ∈ v :: vs := List.mem_of_getLast? hl
    rw [shoelace_eq_chainSum, shoelace_eq_chainSum, List.head?_reverse, hl]
    have e1 : (v :: vs).reverse ++ (some x).toList = (x :: v :: vs).reverse := by simp
    rw [e1, chainSum_reverse, chainSum_flip_neg]
    · simp only [List.head?_cons, Option.toList_some]
      rw [chainSum_cons, chainSum_append_singleton, hl]
      simp only [List.head?_cons]
      ring
    · intro p hp
      rcases List.mem_cons.mp hp with rfl | hp
      · exact h _ hx
      · exact h p hp

/-! ## the polygon constructor on stored rings -/

theorem eqv_symm (a b : Coord) : a.eqv b = b.eqv a := by
  unfold Coord.eqv
  exact decide_eq_decide.mpr ⟨fun h => ⟨h.1.symm, h.2.1.symm, h.2.2.symm⟩,
    fun h => ⟨h.1.symm, h.2.1.symm, h.2.2.symm⟩⟩

/-- a ring is *closed* when the constructor's closing step leaves it alone -/
def Closed (o : List Coord) : Prop := closeRingC o = o

theorem closed_iff (o : List Coord) :
    Closed o ↔ ∀ a b, o.head? = some a → o.getLast? = some b → a.eqv b = true := by
  unfold Closed closeRingC
  cases ha : o.head? with
  | none => simp
  | some a =>
    cases hb : o.getLast? with
    | none => simp
    | some b =>
      by_cases h : a.eqv b = true
      · simp [h]
      · simp [h]

theorem closed_reverse {o : List Coord} (h : Closed o) : Closed o.reverse := by
  rw [closed_iff] at h ⊢
  intro a b ha hb
  rw [List.head?_reverse] at ha
  rw [List.getLast?_reverse] at hb
  rw [eqv_symm]
  exact h b a hb ha

theorem mkOutlineC_closed {o : List Coord} (h : Closed o) :
    mkOutlineC o = if isCCW (o.map Coord.pt) then o else o.reverse := by
  unfold mkOutlineC
  rw [show closeRingC o = o from h]

/-! ## reading Z and M front to back -/

def zOf (l : List Coord) : List (Option Rat) := l.map (·.z)
def mOf (l : List Coord) : List (Option Rat) := l.map (·.m)

theorem readRing_aligned : ∀ (cs : List Coord) (zr mr : List (Option Rat)),
    readRing (cs.map Coord.pt) (some (zOf cs ++ zr)) (some (mOf cs ++ mr)) = (cs, some zr, some mr)
  | [], zr, mr => by simp [readRing, zOf, mOf]
  | c :: cs, zr, mr => by
    have ih := readRing_aligned cs zr mr
    simp only [zOf, mOf, List.map_cons, List.cons_append, readRing, popOpt] at ih ⊢
    rw [ih]
    cases c
    rfl

theorem readRings_aligned : ∀ (rs : List (List Coord)) (zr mr : List (Option Rat)),
    readRings (rs.map (·.map Coord.pt)) (some (zOf rs.flatten ++ zr)) (some (mOf rs.flatten ++ mr))
      = (rs, some zr, some mr)
  | [], zr, mr => by simp [readRings, zOf, mOf]
  | r :: rs, zr, mr => by
    have ih := readRings_aligned rs zr mr
    have h1 := readRing_aligned r (zOf rs.flatten ++ zr) (mOf rs.flatten ++ mr)
    simp only [zOf, mOf, List.map_cons, List.flatten_cons, List.map_append, List.append_assoc, readRings] at ih h1 ⊢
    rw [h1]
    simp only []
    rw [ih]

theorem readPolys_aligned : ∀ (ps : List (List (List Coord))) (zr mr : List (Option Rat)),
    readPolys (ps.map (·.map (·.map Coord.pt))) (some (zOf ps.flatten.flatten ++ zr)) (some (mOf ps.flatten.flatten ++ mr))
      = (ps, some zr, some mr)
  | [], zr, mr => by simp [readPolys, zOf, mOf]
  | p :: ps, zr, mr => by
    have ih := readPolys_aligned ps zr mr
    have h1 := readRings_aligned p (zOf ps.flatten.flatten ++ zr) (mOf ps.flatten.flatten ++ mr)
    simp only [zOf, mOf, List.map_cons, List.flatten_cons, List.map_append, List.flatten_append, List.append_assoc,
      readPolys] at ih h1 ⊢
    rw [h1]
    simp only []
    rw [ih]

/-- a coordinate without Z and M -/
def Coord.flat (p : Pt) : Coord := ⟨p.1, p.2, none, none⟩

theorem readRing_absent : ∀ (ps : List Pt), readRing ps none none = (ps.map Coord.flat, none, none)
  | [] => by simp [readRing]
  | p :: ps => by simp [readRing, popOpt, readRing_absent ps, Coord.flat]

theorem readRings_absent : ∀ (rs : List (List Pt)),
    readRings rs none none = (rs.map (·.map Coord.flat), none, none)
  | [] => by simp [readRings]
  | r :: rs => by simp [readRings, readRing_absent, readRings_absent rs]

theorem readPolys_absent : ∀ (ps : List (List (List Pt))),
    readPolys ps none none = (ps.map (·.map (·.map Coord.flat)), none, none)
  | [] => by simp [readPolys]
  | p :: ps => by simp [readPolys, readRings_absent, readPolys_absent ps]

/-! ## ring organisation -/

theorem organize_holes (more : List (List Pt)) : ∀ (holes : List (List Pt)) (acc : List (List (List Pt)))
    (cur : List (List Pt)), (∀ h ∈ holes, isCCW h = true) →
    organize (holes ++ more) (acc ++ [cur]) = organize more (acc ++ [cur ++ holes])
  | [], acc, cur, _ => by simp
  | h :: hs, acc, cur, hc => by
    have hh : isCCW h = true := hc h (by simp)
    have ih := organize_holes more hs acc (cur ++ [h]) (fun x hx => hc x (List.mem_cons_of_mem _ hx))
    simp only [List.cons_append, organize, hh, Bool.not_true, Bool.false_eq_true, if_false,
      List.getLast?_append, List.getLast?_singleton, Option.some_or, List.dropLast_concat]
    rw [ih]
    simp

/-- what `to_pyshp` writes for a list of polygons — a clockwise shell followed by its
    counter-clockwise holes, polygon after polygon — is organised back into exactly those polygons -/
theorem organize_polys : ∀ (polys : List (List Pt × List (List Pt))) (acc : List (List (List Pt))),
    (∀ p ∈ polys, isCCW p.1 = false ∧ ∀ h ∈ p.2, isCCW h = true) →
    organize (polys.map fun p => p.1 :: p.2).flatten acc = acc ++ polys.map fun p => p.1 :: p.2
  | [], acc, _ => by simp [organize]
  | p :: ps, acc, hp => by
    have h1 := hp p (by simp)
    have ih := organize_polys ps (acc ++ [p.1 :: p.2]) (fun x hx => hp x (List.mem_cons_of_mem _ hx))
    simp only [List.map_cons, List.flatten_cons, List.cons_append, organize, h1.1, Bool.not_false, if_true]
    rw [organize_holes _ p.2 acc [p.1] h1.2]
    simp only [List.singleton_append]
    rw [ih]
    simp

end GV.Io
