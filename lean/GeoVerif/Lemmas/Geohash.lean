import GeoVerif.Model.Geohash
import Mathlib.Algebra.Order.Field.Rat
import Mathlib.Tactic.Linarith
import Mathlib.Tactic.NormNum
import Mathlib.Tactic.Ring
import Mathlib.Tactic.FieldSimp
import Mathlib.Tactic.Push
/-!
# Helper lemmas for C11: the bisection at bit level

Encoder and decoder walk through the same sequence of cells.  `stepSt` is the cell refinement by one
bit, `refineSt` by a bit string, `encBitsSt` the bit string the encoder produces; `valAcc` assembles a
character value from bits the way `_coord_to_niemeyer` does (`character |= bits[bit]`).
(Adapted from the proved probe `notes/lean_probes/GeohashProof.lean`.)
-/
namespace GV.Geohash
open GV.Geohash.Gen

/-! ## cells and their refinement -/

/-- refinement of a cell by one bit (what both loops do to the intervals) -/
def stepSt (s : EncSt) (b : Bool) : EncSt :=
  if s.lonComp then ⟨if b then (mid s.lonIv, s.lonIv.2) else (s.lonIv.1, mid s.lonIv), s.latIv, false⟩
  else ⟨s.lonIv, if b then (mid s.latIv, s.latIv.2) else (s.latIv.1, mid s.latIv), true⟩

def refineSt (s : EncSt) (bs : List Bool) : EncSt := bs.foldl stepSt s

/-- the bits the encoder produces in `n` steps from state `s` -/
def encBitsSt (lon lat : Rat) : Nat → EncSt → List Bool
  | 0, _ => []
  | n+1, s => (encBit lon lat s).1 :: encBitsSt lon lat n (encBit lon lat s).2

/-- `character |= bits[bit]` folded over the masks -/
def valAcc : List Nat → List Bool → Nat → Nat
  | mask :: ms, b :: bs, ch => valAcc ms bs (if b then ch ||| mask else ch)
  | _, _, ch => ch

def DecSt.toEnc (s : DecSt) : EncSt := ⟨s.lonIv, s.latIv, s.lonComp⟩

/-- closed cell contains the point -/
def InCell (lon lat : Rat) (s : EncSt) : Prop :=
  s.lonIv.1 ≤ lon ∧ lon ≤ s.lonIv.2 ∧ s.latIv.1 ≤ lat ∧ lat ≤ s.latIv.2

/-- open cell contains the point -/
def Interior (lon lat : Rat) (s : EncSt) : Prop :=
  s.lonIv.1 < lon ∧ lon < s.lonIv.2 ∧ s.latIv.1 < lat ∧ lat < s.latIv.2

/-- both intervals are proper -/
def Pos (s : EncSt) : Prop := s.lonIv.1 < s.lonIv.2 ∧ s.latIv.1 < s.latIv.2

/-- cell `a` lies inside cell `b` -/
def Sub (a b : EncSt) : Prop :=
  b.lonIv.1 ≤ a.lonIv.1 ∧ a.lonIv.2 ≤ b.lonIv.2 ∧ b.latIv.1 ≤ a.latIv.1 ∧ a.latIv.2 ≤ b.latIv.2

theorem Sub.refl (a : EncSt) : Sub a a := ⟨le_refl _, le_refl _, le_refl _, le_refl _⟩

theorem Sub.trans {a b c : EncSt} (h1 : Sub a b) (h2 : Sub b c) : Sub a c :=
  ⟨le_trans h2.1 h1.1, le_trans h1.2.1 h2.2.1, le_trans h2.2.2.1 h1.2.2.1, le_trans h1.2.2.2 h2.2.2.2⟩

theorem mid_between {iv : Iv} (h : iv.1 < iv.2) : iv.1 < mid iv ∧ mid iv < iv.2 := by
  unfold mid; constructor <;> linarith

theorem encBit_snd (lon lat : Rat) (s : EncSt) :
    (encBit lon lat s).2 = stepSt s (encBit lon lat s).1 := by
  unfold encBit stepSt
  by_cases hc : s.lonComp
  · by_cases h : lon > mid s.lonIv <;> simp [hc, h]
  · by_cases h : lat > mid s.latIv <;> simp [hc, h]

theorem encBit_inCell {lon lat : Rat} {s : EncSt} (h : InCell lon lat s) :
    InCell lon lat (encBit lon lat s).2 := by
  obtain ⟨h1, h2, h3, h4⟩ := h
  unfold encBit
  by_cases hc : s.lonComp
  · by_cases hm : lon > mid s.lonIv
    · simp only [hc, hm, if_true]; exact ⟨le_of_lt hm, h2, h3, h4⟩
    · simp only [hc, hm, if_true, if_false]; exact ⟨h1, not_lt.mp hm, h3, h4⟩
  · by_cases hm : lat > mid s.latIv
    · simp only [hc, hm, if_true]; exact ⟨h1, h2, le_of_lt hm, h4⟩
    · simp only [hc, hm, if_false]; exact ⟨h1, h2, h3, not_lt.mp hm⟩

theorem stepSt_pos {s : EncSt} (h : Pos s) (b : Bool) : Pos (stepSt s b) := by
  obtain ⟨h1, h2⟩ := h
  have m1 := mid_between h1
  have m2 := mid_between h2
  unfold stepSt Pos
  by_cases hc : s.lonComp <;> cases b <;> simp [hc, m1.1, m1.2, m2.1, m2.2, h1, h2]

theorem stepSt_sub {s : EncSt} (h : Pos s) (b : Bool) : Sub (stepSt s b) s := by
  obtain ⟨h1, h2⟩ := h
  have m1 := mid_between h1
  have m2 := mid_between h2
  unfold stepSt Sub
  by_cases hc : s.lonComp <;> cases b <;> simp [hc, le_of_lt m1.1, le_of_lt m1.2, le_of_lt m2.1, le_of_lt m2.2]

theorem refineSt_nil (s : EncSt) : refineSt s [] = s := rfl

theorem refineSt_cons (s : EncSt) (b : Bool) (bs : List Bool) :
    refineSt s (b :: bs) = refineSt (stepSt s b) bs := rfl

theorem refineSt_append (s : EncSt) (as bs : List Bool) :
    refineSt s (as ++ bs) = refineSt (refineSt s as) bs := by
  simp [refineSt, List.foldl_append]

theorem refineSt_pos : ∀ (bs : List Bool) {s : EncSt}, Pos s → Pos (refineSt s bs)
  | [], _, h => h
  | b :: bs, _, h => by rw [refineSt_cons]; exact refineSt_pos bs (stepSt_pos h b)

theorem refineSt_sub : ∀ (bs : List Bool) {s : EncSt}, Pos s → Sub (refineSt s bs) s
  | [], s, _ => Sub.refl s
  | b :: bs, _, h => by
    rw [refineSt_cons]
    exact (refineSt_sub bs (stepSt_pos h b)).trans (stepSt_sub h b)

theorem interior_of_sub {lon lat : Rat} {t s : EncSt} (hs : Sub t s) (hi : Interior lon lat t) :
    Interior lon lat s :=
  ⟨lt_of_le_of_lt hs.1 hi.1, lt_of_lt_of_le hi.2.1 hs.2.1,
   lt_of_le_of_lt hs.2.2.1 hi.2.2.1, lt_of_lt_of_le hi.2.2.2 hs.2.2.2⟩

theorem inCell_of_sub {lon lat : Rat} {t s : EncSt} (hs : Sub t s) (hi : InCell lon lat t) :
    InCell lon lat s :=
  ⟨le_trans hs.1 hi.1, le_trans hi.2.1 hs.2.1, le_trans hs.2.2.1 hi.2.2.1, le_trans hi.2.2.2 hs.2.2.2⟩

theorem inCell_of_interior {lon lat : Rat} {s : EncSt} (h : Interior lon lat s) : InCell lon lat s :=
  ⟨le_of_lt h.1, le_of_lt h.2.1, le_of_lt h.2.2.1, le_of_lt h.2.2.2⟩

/-- a point strictly inside the cell refined by `b` is sent to `b` by the encoder's comparison -/
theorem encBit_of_interior {lon lat : Rat} {s : EncSt} (hp : Pos s) (b : Bool)
    (hi : Interior lon lat (stepSt s b)) : (encBit lon lat s).1 = b := by
  obtain ⟨h1, h2⟩ := hp
  have m1 := mid_between h1
  have m2 := mid_between h2
  unfold stepSt Interior at hi
  unfold encBit
  by_cases hc : s.lonComp
  · cases b
    · simp only [hc, if_true, Bool.false_eq_true, if_false] at hi
      have : ¬ lon > mid s.lonIv := not_lt.mpr (le_of_lt hi.2.1)
      simp [hc, this]
    · simp only [hc, if_true] at hi
      have : lon > mid s.lonIv := hi.1
      simp [hc, this]
  · cases b
    · simp only [hc, Bool.false_eq_true, if_false] at hi
      have : ¬ lat > mid s.latIv := not_lt.mpr (le_of_lt hi.2.2.2)
      simp [hc, this]
    · simp only [hc, Bool.false_eq_true, if_false, if_true] at hi
      have : lat > mid s.latIv := hi.2.2.1
      simp [hc, this]

/-- re-encoding any point strictly inside the refined cell reproduces the refining bits -/
theorem encBitsSt_of_interior {lon lat : Rat} : ∀ (bs : List Bool) {s : EncSt}, Pos s →
    Interior lon lat (refineSt s bs) → encBitsSt lon lat bs.length s = bs
  | [], _, _, _ => rfl
  | b :: bs, s, hp, hi => by
    rw [refineSt_cons] at hi
    have hb : (encBit lon lat s).1 = b :=
      encBit_of_interior hp b (interior_of_sub (refineSt_sub bs (stepSt_pos hp b)) hi)
    simp only [List.length_cons, encBitsSt]
    rw [encBit_snd, hb, encBitsSt_of_interior bs (stepSt_pos hp b) hi]

theorem length_encBitsSt (lon lat : Rat) : ∀ (n : Nat) (s : EncSt), (encBitsSt lon lat n s).length = n
  | 0, _ => rfl
  | n+1, s => by simp [encBitsSt, length_encBitsSt lon lat n]

theorem refine_encBits_inCell {lon lat : Rat} : ∀ (n : Nat) {s : EncSt}, InCell lon lat s →
    InCell lon lat (refineSt s (encBitsSt lon lat n s))
  | 0, _, h => h
  | n+1, s, h => by
    simp only [encBitsSt, refineSt_cons]
    rw [← encBit_snd]
    exact refine_encBits_inCell n (encBit_inCell h)

/-! ## one character -/

/-- the encoder's character loop in terms of the bit string it produces -/
theorem encChar_eq (lon lat : Rat) : ∀ (masks : List Nat) (ch : Nat) (s : EncSt),
    encChar lon lat masks ch s =
      (valAcc masks (encBitsSt lon lat masks.length s) ch, refineSt s (encBitsSt lon lat masks.length s))
  | [], _, _ => rfl
  | m :: ms, ch, s => by
    simp only [encChar, List.length_cons, encBitsSt, valAcc, refineSt_cons]
    rw [encChar_eq lon lat ms, ← encBit_snd]

theorem decBit_toEnc (s : DecSt) (b : Bool) : (decBit s b).toEnc = stepSt s.toEnc b := by
  unfold decBit stepSt DecSt.toEnc
  by_cases hc : s.lonComp <;> simp [hc]

theorem foldl_decBit_toEnc : ∀ (bs : List Bool) (s : DecSt),
    (bs.foldl decBit s).toEnc = refineSt s.toEnc bs
  | [], _ => rfl
  | b :: bs, s => by
    simp only [List.foldl_cons, refineSt_cons]
    rw [foldl_decBit_toEnc bs, decBit_toEnc]

theorem decVal_eq (cfg : NiemeyerCfg) (s : DecSt) (v : Nat) :
    decVal cfg s v = (cfg.bits.map (testMask v)).foldl decBit s := by
  unfold decVal; rw [List.foldl_map]

theorem decVal_toEnc (cfg : NiemeyerCfg) (s : DecSt) (v : Nat) :
    (decVal cfg s v).toEnc = refineSt s.toEnc (cfg.bits.map (testMask v)) := by
  rw [decVal_eq, foldl_decBit_toEnc]

/-! ## error margins: half the interval widths -/

/-- `lon_error`/`lat_error` are half the widths of the current intervals -/
def ErrInv (s : DecSt) : Prop :=
  s.lonErr = (s.lonIv.2 - s.lonIv.1) / 2 ∧ s.latErr = (s.latIv.2 - s.latIv.1) / 2

theorem decBit_errInv {s : DecSt} (h : ErrInv s) (b : Bool) : ErrInv (decBit s b) := by
  obtain ⟨h1, h2⟩ := h
  unfold decBit ErrInv
  by_cases hc : s.lonComp <;> cases b <;> simp [hc, h1, h2, mid] <;> ring

theorem foldl_decBit_errInv : ∀ (bs : List Bool) {s : DecSt}, ErrInv s → ErrInv (bs.foldl decBit s)
  | [], _, h => h
  | b :: bs, _, h => foldl_decBit_errInv bs (decBit_errInv h b)

theorem decVal_errInv (cfg : NiemeyerCfg) {s : DecSt} (h : ErrInv s) (v : Nat) : ErrInv (decVal cfg s v) := by
  rw [decVal_eq]; exact foldl_decBit_errInv _ h

/-! ## all bit strings of a given length (for the finite table facts) -/

def allBools : Nat → List (List Bool)
  | 0 => [[]]
  | n+1 => (allBools n).flatMap fun bs => [false :: bs, true :: bs]

theorem mem_allBools : ∀ (bs : List Bool), bs ∈ allBools bs.length
  | [] => by simp [allBools]
  | b :: bs => by
    simp only [List.length_cons, allBools, List.mem_flatMap]
    exact ⟨bs, mem_allBools bs, by cases b <;> simp⟩

/-! ## table facts and the character level -/

/-- the finite facts about one config table that the codec theorems rest on (all decidable) -/
def WF (cfg : NiemeyerCfg) : Prop :=
  cfg.charset.length = cfg.base ∧ cfg.charset.Nodup ∧
  (∀ i < cfg.base, (cfg.charset[i]?).bind (fun c => cfg.inverse.lookup c.toNat) = some i) ∧
  (∀ bs ∈ allBools cfg.bits.length,
      valAcc cfg.bits bs 0 < cfg.base ∧ cfg.bits.map (testMask (valAcc cfg.bits bs 0)) = bs) ∧
  (∀ v < cfg.base, valAcc cfg.bits (cfg.bits.map (testMask v)) 0 = v) ∧
  0 < cfg.bits.length ∧
  cfg.minX = -cfg.maxX ∧ cfg.minY = -cfg.maxY ∧ 0 < cfg.maxX ∧ 0 < cfg.maxY

instance (cfg : NiemeyerCfg) : Decidable (WF cfg) := by unfold WF; infer_instance

variable {cfg : NiemeyerCfg}

theorem WF.length (h : WF cfg) : cfg.charset.length = cfg.base := h.1
theorem WF.nodup (h : WF cfg) : cfg.charset.Nodup := h.2.1
theorem WF.val_lt (h : WF cfg) {bs : List Bool} (hl : bs.length = cfg.bits.length) :
    valAcc cfg.bits bs 0 < cfg.base := (h.2.2.2.1 bs (hl ▸ mem_allBools bs)).1
theorem WF.bits_val (h : WF cfg) {bs : List Bool} (hl : bs.length = cfg.bits.length) :
    cfg.bits.map (testMask (valAcc cfg.bits bs 0)) = bs := (h.2.2.2.1 bs (hl ▸ mem_allBools bs)).2
theorem WF.val_bits (h : WF cfg) {v : Nat} (hv : v < cfg.base) :
    valAcc cfg.bits (cfg.bits.map (testMask v)) 0 = v := h.2.2.2.2.1 v hv
theorem WF.init_pos (h : WF cfg) : Pos (EncSt.init cfg) := by
  obtain ⟨_, _, _, _, _, _, hx, hy, px, py⟩ := h
  unfold Pos EncSt.init; simp only; constructor <;> linarith

theorem WF.lookup (h : WF cfg) {i : Nat} (hi : i < cfg.base) :
    ∃ c, cfg.charset[i]? = some c ∧ c ∈ cfg.charset ∧ cfg.inverse.lookup c.toNat = some i := by
  have h3 := h.2.2.1 i hi
  have hlt : i < cfg.charset.length := by rw [h.length]; exact hi
  refine ⟨cfg.charset[i], List.getElem?_eq_getElem hlt, List.getElem_mem hlt, ?_⟩
  rw [List.getElem?_eq_getElem hlt] at h3
  simpa using h3

theorem WF.index_of_mem (h : WF cfg) {c : Char} (hc : c ∈ cfg.charset) :
    ∃ i, i < cfg.base ∧ cfg.charset[i]? = some c ∧ cfg.inverse.lookup c.toNat = some i := by
  obtain ⟨i, hi, rfl⟩ := List.getElem_of_mem hc
  have hib : i < cfg.base := by rw [← h.length]; exact hi
  obtain ⟨c', h1, _, h3⟩ := h.lookup hib
  rw [List.getElem?_eq_getElem hi] at h1
  have : cfg.charset[i] = c' := by simpa using h1
  exact ⟨i, hib, List.getElem?_eq_getElem hi, this ▸ h3⟩

/-- decoding the character the encoder emits reproduces the encoder's next cell -/
theorem decChar_of_encChar (h : WF cfg) (lon lat : Rat) (sd : DecSt) :
    ∃ c sd', cfg.charset[(encChar lon lat cfg.bits 0 sd.toEnc).1]? = some c ∧ c ∈ cfg.charset ∧
      decChar cfg sd c = .ok sd' ∧ sd'.toEnc = (encChar lon lat cfg.bits 0 sd.toEnc).2 ∧
      (ErrInv sd → ErrInv sd') := by
  rw [encChar_eq]
  set bs := encBitsSt lon lat cfg.bits.length sd.toEnc with hbs
  have hl : bs.length = cfg.bits.length := length_encBitsSt _ _ _ _
  obtain ⟨c, h1, h2, h3⟩ := h.lookup (h.val_lt hl)
  refine ⟨c, decVal cfg sd (valAcc cfg.bits bs 0), h1, h2, ?_, ?_, fun he => decVal_errInv cfg he _⟩
  · unfold decChar; simp [h2, h3]
  · rw [decVal_toEnc, h.bits_val hl]

/-- re-encoding a point strictly inside (a sub-cell of) the decoded cell gives the decoded character -/
theorem encChar_of_decChar (h : WF cfg) {sd sd' : DecSt} {c : Char} (hd : decChar cfg sd c = .ok sd')
    (hp : Pos sd.toEnc) {lon lat : Rat} {t : EncSt} (hs : Sub t sd'.toEnc) (hi : Interior lon lat t) :
    ∃ v, encChar lon lat cfg.bits 0 sd.toEnc = (v, sd'.toEnc) ∧ cfg.charset[v]? = some c := by
  unfold decChar at hd
  by_cases hc : c ∈ cfg.charset
  · obtain ⟨i, hib, hci, hli⟩ := h.index_of_mem hc
    simp only [hc, if_true, hli] at hd
    have hsd : sd' = decVal cfg sd i := by injection hd with hd; exact hd.symm
    subst hsd
    set bs := cfg.bits.map (testMask i) with hbs
    have hl : bs.length = cfg.bits.length := by simp [hbs]
    have hto : (decVal cfg sd i).toEnc = refineSt sd.toEnc bs := decVal_toEnc cfg sd i
    rw [hto] at hs
    have hint := interior_of_sub hs hi
    have henc := encBitsSt_of_interior bs hp hint
    rw [hl] at henc
    refine ⟨i, ?_, hci⟩
    rw [encChar_eq, henc, hto, h.val_bits hib]
  · simp [hc] at hd

theorem decChar_sub (h : WF cfg) {sd sd' : DecSt} {c : Char} (hd : decChar cfg sd c = .ok sd')
    (hp : Pos sd.toEnc) : Sub sd'.toEnc sd.toEnc ∧ Pos sd'.toEnc ∧ c ∈ cfg.charset ∧ (ErrInv sd → ErrInv sd') := by
  unfold decChar at hd
  by_cases hc : c ∈ cfg.charset
  · obtain ⟨i, hib, hci, hli⟩ := h.index_of_mem hc
    simp only [hc, if_true, hli] at hd
    have hsd : sd' = decVal cfg sd i := by injection hd with hd; exact hd.symm
    subst hsd
    rw [decVal_toEnc]
    exact ⟨refineSt_sub _ hp, refineSt_pos _ hp, hc, fun he => decVal_errInv cfg he _⟩
  · simp [hc] at hd

/-! ## whole strings -/

def EncSt.toDec (s : EncSt) : DecSt := ⟨s.lonIv, s.latIv, 0, 0, s.lonComp⟩

theorem EncSt.toDec_toEnc (s : EncSt) : s.toDec.toEnc = s := rfl

theorem encChar_inCell {lon lat : Rat} (masks : List Nat) (ch : Nat) {s : EncSt} (h : InCell lon lat s) :
    InCell lon lat (encChar lon lat masks ch s).2 := by
  rw [encChar_eq]; exact refine_encBits_inCell _ h

theorem encGo_total (h : WF cfg) (lon lat : Rat) : ∀ (n : Nat) (s : EncSt),
    ∃ hs, encGo cfg lon lat n s = .ok hs ∧ hs.length = n ∧ ∀ c ∈ hs, c ∈ cfg.charset
  | 0, _ => ⟨[], rfl, rfl, by simp⟩
  | n+1, s => by
    obtain ⟨c, sd', h1, h2, _, h4, _⟩ := decChar_of_encChar h lon lat s.toDec
    rw [EncSt.toDec_toEnc] at h1 h4
    obtain ⟨cs, e1, e2, e3⟩ := encGo_total h lon lat n (encChar lon lat cfg.bits 0 s).2
    refine ⟨c :: cs, ?_, by simp [e2], ?_⟩
    · simp only [encGo, h1, e1]
    · intro x hx
      rcases List.mem_cons.mp hx with rfl | hx
      · exact h2
      · exact e3 x hx

theorem decGo_of_encGo (h : WF cfg) (lon lat : Rat) : ∀ (n : Nat) (sd : DecSt) (hs : List Char),
    encGo cfg lon lat n sd.toEnc = .ok hs →
    ∃ sd', decGo cfg hs sd = .ok sd' ∧ (InCell lon lat sd.toEnc → InCell lon lat sd'.toEnc) ∧
      (ErrInv sd → ErrInv sd')
  | 0, sd, hs, he => by
    simp only [encGo] at he
    injection he with he; subst he
    exact ⟨sd, rfl, id, id⟩
  | n+1, sd, hs, he => by
    obtain ⟨c, sd1, h1, _, h3, h4, h5⟩ := decChar_of_encChar h lon lat sd
    simp only [encGo, h1] at he
    rw [← h4] at he
    obtain ⟨cs, e1, _, _⟩ := encGo_total h lon lat n sd1.toEnc
    rw [e1] at he
    injection he with he; subst he
    obtain ⟨sd', d1, d2, d3⟩ := decGo_of_encGo h lon lat n sd1 cs e1
    refine ⟨sd', by simp only [decGo, h3, d1], ?_, fun x => d3 (h5 x)⟩
    intro hin
    apply d2
    rw [h4]
    exact encChar_inCell _ _ hin

theorem encGo_prefix (cfg : NiemeyerCfg) (lon lat : Rat) : ∀ (n m : Nat) (s : EncSt) (h1 h2 : List Char),
    encGo cfg lon lat n s = .ok h1 → encGo cfg lon lat (n + m) s = .ok h2 → h1 <+: h2
  | 0, _, _, h1, h2, e1, _ => by
    simp only [encGo] at e1
    injection e1 with e1; subst e1
    exact List.nil_prefix
  | n+1, m, s, h1, h2, e1, e2 => by
    rw [show n + 1 + m = (n + m) + 1 by omega] at e2
    simp only [encGo] at e1 e2
    cases hc : cfg.charset[(encChar lon lat cfg.bits 0 s).1]? with
    | none => simp [hc] at e1
    | some c =>
      simp only [hc] at e1 e2
      cases hr1 : encGo cfg lon lat n (encChar lon lat cfg.bits 0 s).2 with
      | error e => simp [hr1] at e1
      | ok cs1 =>
        cases hr2 : encGo cfg lon lat (n + m) (encChar lon lat cfg.bits 0 s).2 with
        | error e => simp [hr2] at e2
        | ok cs2 =>
          simp only [hr1] at e1
          simp only [hr2] at e2
          injection e1 with e1; injection e2 with e2
          subst e1; subst e2
          exact (List.prefix_cons_inj c).mpr (encGo_prefix cfg lon lat n m _ cs1 cs2 hr1 hr2)

theorem decGo_sub (h : WF cfg) : ∀ (hs : List Char) (sd sdf : DecSt), decGo cfg hs sd = .ok sdf →
    Pos sd.toEnc → Sub sdf.toEnc sd.toEnc ∧ Pos sdf.toEnc ∧ (∀ c ∈ hs, c ∈ cfg.charset) ∧
      (ErrInv sd → ErrInv sdf)
  | [], sd, sdf, hd, hp => by
    simp only [decGo] at hd
    injection hd with hd; subst hd
    exact ⟨Sub.refl _, hp, by simp, id⟩
  | c :: cs, sd, sdf, hd, hp => by
    simp only [decGo] at hd
    cases h1 : decChar cfg sd c with
    | error e => simp [h1] at hd
    | ok sd1 =>
      simp only [h1] at hd
      obtain ⟨a1, a2, a3, a4⟩ := decChar_sub h h1 hp
      obtain ⟨b1, b2, b3, b4⟩ := decGo_sub h cs sd1 sdf hd a2
      refine ⟨b1.trans a1, b2, ?_, fun x => b4 (a4 x)⟩
      intro x hx
      rcases List.mem_cons.mp hx with rfl | hx
      · exact a3
      · exact b3 x hx

theorem encGo_of_decGo (h : WF cfg) {lon lat : Rat} : ∀ (hs : List Char) (sd sdf : DecSt),
    decGo cfg hs sd = .ok sdf → Pos sd.toEnc → Interior lon lat sdf.toEnc →
    encGo cfg lon lat hs.length sd.toEnc = .ok hs
  | [], _, _, _, _, _ => rfl
  | c :: cs, sd, sdf, hd, hp, hi => by
    simp only [decGo] at hd
    cases h1 : decChar cfg sd c with
    | error e => simp [h1] at hd
    | ok sd1 =>
      simp only [h1] at hd
      obtain ⟨_, a2, _, _⟩ := decChar_sub h h1 hp
      obtain ⟨b1, _, _, _⟩ := decGo_sub h cs sd1 sdf hd a2
      obtain ⟨v, e1, e2⟩ := encChar_of_decChar h h1 hp b1 hi
      have ih := encGo_of_decGo h cs sd1 sdf hd a2 hi
      simp only [List.length_cons, encGo, e1, e2, ih]

theorem decGo_total (h : WF cfg) : ∀ (hs : List Char) (sd : DecSt), (∀ c ∈ hs, c ∈ cfg.charset) →
    ∃ sdf, decGo cfg hs sd = .ok sdf
  | [], sd, _ => ⟨sd, rfl⟩
  | c :: cs, sd, hall => by
    have hc : c ∈ cfg.charset := hall c (by simp)
    obtain ⟨i, _, _, hli⟩ := h.index_of_mem hc
    obtain ⟨sdf, hs⟩ := decGo_total h cs (decVal cfg sd i) (fun x hx => hall x (by simp [hx]))
    exact ⟨sdf, by simp only [decGo, decChar, hc, if_true, hli, hs]⟩

theorem decGo_rejects (h : WF cfg) : ∀ (hs : List Char) (sd : DecSt), (∃ c ∈ hs, c ∉ cfg.charset) →
    decGo cfg hs sd = .error "ERR:Value"
  | [], _, hex => by obtain ⟨c, hc, _⟩ := hex; simp at hc
  | c :: cs, sd, hex => by
    by_cases hc : c ∈ cfg.charset
    · obtain ⟨i, _, _, hli⟩ := h.index_of_mem hc
      have hex' : ∃ x ∈ cs, x ∉ cfg.charset := by
        obtain ⟨x, hx, hn⟩ := hex
        rcases List.mem_cons.mp hx with rfl | hx
        · exact absurd hc hn
        · exact ⟨x, hx, hn⟩
      simp only [decGo, decChar, hc, if_true, hli, decGo_rejects h cs _ hex']
    · simp only [decGo, decChar, hc, if_false]

theorem decGo_append (cfg : NiemeyerCfg) : ∀ (a b : List Char) (s : DecSt),
    decGo cfg (a ++ b) s = match decGo cfg a s with
      | .ok s' => decGo cfg b s'
      | .error e => .error e
  | [], _, _ => rfl
  | c :: cs, b, s => by
    simp only [List.cons_append, decGo]
    cases decChar cfg s c with
    | error e => rfl
    | ok s1 => exact decGo_append cfg cs b s1

/-! ## the regular grid: every reachable cell is a grid cell (used for exactness in binary64 and for
    the neighbour theorem) -/

/-- the cell is cell `(i, j)` of the regular grid with `2^p × 2^q` cells over the base's range -/
def Grid (cfg : NiemeyerCfg) (p q : Nat) (s : EncSt) : Prop :=
  ∃ i j : Int,
    s.lonIv = (cfg.minX + i * ((cfg.maxX - cfg.minX) / 2 ^ p),
               cfg.minX + (i + 1) * ((cfg.maxX - cfg.minX) / 2 ^ p)) ∧
    s.latIv = (cfg.minY + j * ((cfg.maxY - cfg.minY) / 2 ^ q),
               cfg.minY + (j + 1) * ((cfg.maxY - cfg.minY) / 2 ^ q))

/-- number of longitude / latitude bisections among the next `n` steps when the next one is a
    longitude step (`t = true`) or a latitude step -/
def lonSteps (t : Bool) (n : Nat) : Nat := if t then (n + 1) / 2 else n / 2
def latSteps (t : Bool) (n : Nat) : Nat := if t then n / 2 else (n + 1) / 2

theorem grid_init (cfg : NiemeyerCfg) : Grid cfg 0 0 (EncSt.init cfg) := by
  refine ⟨0, 0, ?_, ?_⟩ <;> simp [EncSt.init]

theorem grid_even (A W : Rat) (i : Int) (p : Nat) :
    A + ((2 * i : Int) : Rat) * (W / 2 ^ (p + 1)) = A + i * (W / 2 ^ p) := by
  have : (2 : Rat) ^ p ≠ 0 := pow_ne_zero _ (by norm_num)
  rw [pow_succ]; push_cast; field_simp

theorem grid_odd (A W : Rat) (i : Int) (p : Nat) :
    A + (((2 * i + 1 : Int) : Rat) + 1) * (W / 2 ^ (p + 1)) = A + (i + 1) * (W / 2 ^ p) := by
  have : (2 : Rat) ^ p ≠ 0 := pow_ne_zero _ (by norm_num)
  rw [pow_succ]; push_cast; field_simp; ring

theorem mid_grid (A W : Rat) (i : Int) (p : Nat) :
    mid (A + i * (W / 2 ^ p), A + (i + 1) * (W / 2 ^ p)) = A + (2 * i + 1) * (W / 2 ^ (p + 1)) := by
  unfold mid
  have : (2 : Rat) ^ p ≠ 0 := pow_ne_zero _ (by norm_num)
  simp only [pow_succ]
  field_simp
  ring

theorem halve_lo (A W : Rat) (i : Int) (p : Nat) :
    ((A + i * (W / 2 ^ p), mid (A + i * (W / 2 ^ p), A + (i + 1) * (W / 2 ^ p))) : Iv) =
      (A + ((2 * i : Int) : Rat) * (W / 2 ^ (p + 1)), A + (((2 * i : Int) : Rat) + 1) * (W / 2 ^ (p + 1))) := by
  rw [mid_grid, grid_even]; push_cast; rfl

theorem halve_hi (A W : Rat) (i : Int) (p : Nat) :
    ((mid (A + i * (W / 2 ^ p), A + (i + 1) * (W / 2 ^ p)), A + (i + 1) * (W / 2 ^ p)) : Iv) =
      (A + ((2 * i + 1 : Int) : Rat) * (W / 2 ^ (p + 1)),
       A + (((2 * i + 1 : Int) : Rat) + 1) * (W / 2 ^ (p + 1))) := by
  rw [mid_grid, grid_odd]; push_cast; rfl

theorem stepSt_grid {cfg : NiemeyerCfg} {p q : Nat} {s : EncSt} (h : Grid cfg p q s) (b : Bool) :
    Grid cfg (if s.lonComp then p + 1 else p) (if s.lonComp then q else q + 1) (stepSt s b) := by
  obtain ⟨i, j, h1, h2⟩ := h
  unfold stepSt
  by_cases hc : s.lonComp
  · simp only [hc, if_true]
    cases b
    · exact ⟨2 * i, j, by simp only [Bool.false_eq_true, if_false, h1, halve_lo], h2⟩
    · exact ⟨2 * i + 1, j, by simp only [if_true, h1, halve_hi], h2⟩
  · simp only [hc, Bool.false_eq_true, if_false]
    cases b
    · exact ⟨i, 2 * j, h1, by simp only [Bool.false_eq_true, if_false, h2, halve_lo]⟩
    · exact ⟨i, 2 * j + 1, h1, by simp only [if_true, h2, halve_hi]⟩

theorem stepSt_lonComp (s : EncSt) (b : Bool) : (stepSt s b).lonComp = !s.lonComp := by
  unfold stepSt; by_cases hc : s.lonComp <;> simp [hc]

theorem refineSt_grid {cfg : NiemeyerCfg} : ∀ (bs : List Bool) {s : EncSt} {p q : Nat}, Grid cfg p q s →
    Grid cfg (p + lonSteps s.lonComp bs.length) (q + latSteps s.lonComp bs.length) (refineSt s bs)
  | [], _, _, _, h => by simpa [lonSteps, latSteps, refineSt_nil] using h
  | b :: bs, s, p, q, h => by
    rw [refineSt_cons]
    have ih := refineSt_grid bs (stepSt_grid h b)
    rw [stepSt_lonComp] at ih
    by_cases hc : s.lonComp
    · simp only [hc, if_true, Bool.not_true, lonSteps, latSteps, Bool.false_eq_true, if_false,
        List.length_cons] at ih ⊢
      have e1 : p + 1 + bs.length / 2 = p + (bs.length + 1 + 1) / 2 := by omega
      rw [e1] at ih; exact ih
    · simp only [hc, Bool.false_eq_true, if_false, Bool.not_false, lonSteps, latSteps, if_true,
        List.length_cons] at ih ⊢
      have e1 : q + 1 + bs.length / 2 = q + (bs.length + 1 + 1) / 2 := by omega
      rw [e1] at ih; exact ih

theorem refineSt_lonComp : ∀ (bs : List Bool) (s : EncSt),
    (refineSt s bs).lonComp = (if bs.length % 2 = 0 then s.lonComp else !s.lonComp)
  | [], s => by simp [refineSt_nil]
  | b :: bs, s => by
    rw [refineSt_cons, refineSt_lonComp bs, stepSt_lonComp]
    by_cases h : bs.length % 2 = 0
    · have : (bs.length + 1) % 2 ≠ 0 := by omega
      simp [h, this]
    · have : (bs.length + 1) % 2 = 0 := by omega
      simp [h, this]

/-- decoding a string refines the start cell by `len · |bits|` bits -/
theorem decGo_refine (h : WF cfg) : ∀ (hs : List Char) (sd sdf : DecSt), decGo cfg hs sd = .ok sdf →
    ∃ bs : List Bool, bs.length = hs.length * cfg.bits.length ∧ sdf.toEnc = refineSt sd.toEnc bs
  | [], sd, sdf, hd => by
    simp only [decGo] at hd
    injection hd with hd; subst hd
    exact ⟨[], by simp, rfl⟩
  | c :: cs, sd, sdf, hd => by
    simp only [decGo] at hd
    cases h1 : decChar cfg sd c with
    | error e => simp [h1] at hd
    | ok sd1 =>
      simp only [h1] at hd
      unfold decChar at h1
      by_cases hc : c ∈ cfg.charset
      · obtain ⟨i, _, _, hli⟩ := h.index_of_mem hc
        simp only [hc, if_true, hli] at h1
        have hsd : sd1 = decVal cfg sd i := by injection h1 with h1; exact h1.symm
        subst hsd
        obtain ⟨bs, hl, hb⟩ := decGo_refine h cs _ sdf hd
        refine ⟨cfg.bits.map (testMask i) ++ bs, ?_, ?_⟩
        · simp only [List.length_append, List.length_map, hl, List.length_cons]; ring
        · rw [refineSt_append, ← decVal_toEnc, hb]
      · simp [hc] at h1

end GV.Geohash
