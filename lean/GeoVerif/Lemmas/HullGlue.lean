import GeoVerif.Lemmas.HullAssemble

/-!
# Glue between `hull pts` (arbitrary input list) and the chain lemmas (strictly sorted list)
-/
namespace GV.Hull

/-! ## the two branches of `convex_hull` -/

theorem hull_small_eq {pts : List Pt} (h : (sortedSet pts).length ≤ 1) :
    hull pts = sortedSet pts := by
  simp [hull, h]

theorem hull_ring_eq {pts : List Pt} (h : 2 ≤ (sortedSet pts).length) :
    hull pts = ((chain (sortedSet pts)).reverse).dropLast ++ (chain (sortedSet pts).reverse).reverse := by
  have : ¬ (sortedSet pts).length ≤ 1 := by omega
  simp [hull, this]

/-- at least two distinct input points ⇔ `sorted(set(..))` has length ≥ 2 -/
theorem two_distinct_iff (pts : List Pt) :
    2 ≤ (sortedSet pts).length ↔ ∃ a ∈ pts, ∃ b ∈ pts, a ≠ b := by
  constructor
  · intro h
    obtain ⟨mn, mx, hmn, hmx, hlt⟩ := two_le_ends (sortedSet_strict pts) h
    exact ⟨mn, mem_sortedSet.mp (List.mem_of_head? hmn), mx, mem_sortedSet.mp (List.mem_of_getLast? hmx),
      fun e => lexLt_irrefl _ (e ▸ hlt)⟩
  · rintro ⟨a, ha, b, hb, hab⟩
    have ha' := mem_sortedSet.mpr ha
    have hb' := mem_sortedSet.mpr hb
    match h : sortedSet pts, ha', hb' with
    | [], ha', _ => simp at ha'
    | [x], ha', hb' => simp at ha' hb'; exact absurd (ha'.trans hb'.symm) hab
    | _ :: _ :: _, _, _ => simp

theorem collinear_congr {xs ys : List Pt} (h : ∀ x, x ∈ xs ↔ x ∈ ys) : Collinear xs ↔ Collinear ys :=
  ⟨fun hc a ha b hb c hc' => hc a ((h a).mpr ha) b ((h b).mpr hb) c ((h c).mpr hc'),
   fun hc a ha b hb c hc' => hc a ((h a).mp ha) b ((h b).mp hb) c ((h c).mp hc')⟩

/-- the chain facts for the input `pts` (≥ 2 distinct points) -/
theorem chains_of_pts {pts : List Pt} (h : 2 ≤ (sortedSet pts).length) :
    ∃ mn mx L U, hull pts = L.dropLast ++ U ∧ Chains (sortedSet pts) L U mn mx ∧
      (sortedSet pts).head? = some mn ∧ (sortedSet pts).getLast? = some mx := by
  obtain ⟨mn, mx, h1, h2, hc⟩ := chains_of_sorted (sortedSet_strict pts) h
  exact ⟨mn, mx, _, _, hull_ring_eq h, hc, h1, h2⟩

theorem two_of_not_collinear {pts : List Pt} (hnc : ¬ Collinear pts) : 2 ≤ (sortedSet pts).length := by
  by_contra hlt
  apply hnc
  intro a ha b hb c hc
  have ha' := mem_sortedSet.mpr ha
  have hb' := mem_sortedSet.mpr hb
  have hc' := mem_sortedSet.mpr hc
  match sortedSet pts, hlt, ha', hb', hc' with
  | [], _, ha', _, _ => simp at ha'
  | [x], _, ha', hb', hc' =>
    simp at ha' hb' hc'; subst ha'; subst hb'; subst hc'; unfold cross; ring
  | _ :: _ :: _, hlt, _, _, _ => simp at hlt

end GV.Hull
