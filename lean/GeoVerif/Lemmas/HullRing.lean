import GeoVerif.Lemmas.Hull
import Mathlib.Data.List.Chain
import Mathlib.Data.List.Infix

/-!
# Monotone chain: the upper chain by point reflection, and the assembled ring `lower[:-1] + upper`
-/
namespace GV.Hull

/-! Upper chain by the point reflection p ↦ −p, and the assembled ring. -/

def hneg (p : Pt) : Pt := (-p.1, -p.2)

theorem cross_hneg (o a b : Pt) : cross (hneg o) (hneg a) (hneg b) = cross o a b := by
  unfold cross hneg; simp only; ring

theorem push_hneg (p : Pt) : ∀ (st : List Pt), push (st.map hneg) (hneg p) = (push st p).map hneg
  | [] => by simp [push]
  | [a] => by simp [push]
  | a :: b :: rest => by
    have ih := push_hneg p (b :: rest)
    simp only [List.map_cons] at ih ⊢
    rw [push, push, cross_hneg]
    by_cases h : cross b a p ≤ 0
    · simp only [h, if_true]; exact ih
    · simp only [h, if_false, List.map_cons]
termination_by st => st.length

theorem chain_hneg (pts : List Pt) : chain (pts.map hneg) = (chain pts).map hneg := by
  unfold chain
  have : ∀ (st : List Pt) (l : List Pt),
      (l.map hneg).foldl push (st.map hneg) = (l.foldl push st).map hneg := by
    intro st l
    induction l generalizing st with
    | nil => rfl
    | cons p l ih => simp only [List.map_cons, List.foldl_cons]; rw [push_hneg, ih]
  simpa using this [] pts

theorem lexLt_neg {a b : Pt} : lexLt (hneg b) (hneg a) ↔ lexLt a b := by
  unfold lexLt hneg; simp only
  constructor
  · rintro (h | ⟨h1, h2⟩)
    · left; linarith
    · right; exact ⟨by linarith, by linarith⟩
  · rintro (h | ⟨h1, h2⟩)
    · left; linarith
    · right; exact ⟨by linarith, by linarith⟩

theorem hneg_hneg (p : Pt) : hneg (hneg p) = p := by unfold hneg; simp

theorem edgesGe_neg (q : Pt) : ∀ (st : List Pt), EdgesGe (hneg q) (st.map hneg) ↔ EdgesGe q st
  | [] => Iff.rfl
  | [_] => Iff.rfl
  | a :: b :: rest => by
    have ih := edgesGe_neg q (b :: rest)
    simp only [List.map_cons] at ih ⊢
    unfold EdgesGe
    rw [cross_hneg, ih]

theorem leftTurns_neg : ∀ (st : List Pt), LeftTurns (st.map hneg) ↔ LeftTurns st
  | [] => Iff.rfl
  | [_] => Iff.rfl
  | [_, _] => Iff.rfl
  | a :: b :: c :: rest => by
    have ih := leftTurns_neg (b :: c :: rest)
    simp only [List.map_cons] at ih ⊢
    unfold LeftTurns
    rw [cross_hneg, ih]

/-- **upper chain**: processing the points in reverse lexicographic order -/
theorem upper_chain_correct (S : List Pt) (hS : S.Pairwise lexLt) :
    (∀ q ∈ S, EdgesGe q (chain S.reverse)) ∧ LeftTurns (chain S.reverse) ∧
      (∀ x ∈ chain S.reverse, x ∈ S) := by
  -- reflect: (S.reverse).map hneg is strictly increasing
  have hS' : (S.reverse.map hneg).Pairwise lexLt := by
    rw [List.pairwise_map, List.pairwise_reverse]
    exact hS.imp (fun h => lexLt_neg.mpr h)
  obtain ⟨h1, h2, h3⟩ := lower_chain_correct _ hS'
  rw [chain_hneg] at h1 h2 h3
  refine ⟨?_, (leftTurns_neg _).mp h2, ?_⟩
  · intro q hq
    have := h1 (hneg q) (by simp only [List.mem_map, List.mem_reverse]; exact ⟨q, hq, rfl⟩)
    exact (edgesGe_neg q _).mp this
  · intro x hx
    have := h3 (hneg x) (List.mem_map.mpr ⟨x, hx, rfl⟩)
    simp only [List.mem_map, List.mem_reverse] at this
    obtain ⟨y, hy, hxy⟩ := this
    have : y = x := by
      have := congrArg hneg hxy; rwa [hneg_hneg, hneg_hneg] at this
    exact this ▸ hy

/-! Assembling the ring `lower[:-1] + upper` (both bottom→top). -/


theorem edgesGe_iff_chain (q : Pt) : ∀ (st : List Pt),
    EdgesGe q st ↔ List.IsChain (fun a b => LeftOf q b a) st
  | [] => by simp [EdgesGe]
  | [_] => by simp [EdgesGe]
  | a :: b :: rest => by
    have ih := edgesGe_iff_chain q (b :: rest)
    unfold EdgesGe
    rw [List.isChain_cons_cons, ih]; rfl

theorem chain_bottom (S : List Pt) (hS : S.Pairwise lexLt) : (chain S).getLast? = S.head? := by
  cases S with
  | nil => simp [chain]
  | cons s0 rest =>
    obtain ⟨hI, _, hsub⟩ := chain_inv (s0 :: rest) hS
    obtain ⟨b, hb, hbq⟩ := hI.bottom s0 (by simp)
    rw [hb]; simp only [List.head?_cons]; congr 1
    rcases hbq with h | h
    · exact h.symm
    · exfalso
      have hbS := hsub b (List.mem_of_getLast? hb)
      rcases List.mem_cons.mp hbS with rfl | hbr
      · exact lexLt_irrefl _ h
      · exact lexLt_asymm ((List.pairwise_cons.mp hS).1 b hbr) h

theorem chain_top (S : List Pt) (hS : S.Pairwise lexLt) : (chain S).head? = S.getLast? :=
  (chain_inv S hS).2.1

theorem upper_bottom (S : List Pt) (hS : S.Pairwise lexLt) :
    (chain S.reverse).getLast? = S.getLast? := by
  have hS' : (S.reverse.map hneg).Pairwise lexLt := by
    rw [List.pairwise_map, List.pairwise_reverse]
    exact hS.imp (fun h => lexLt_neg.mpr h)
  have h := chain_bottom _ hS'
  rw [chain_hneg] at h
  have h2 : ((chain S.reverse).map hneg).getLast? = ((chain S.reverse).getLast?).map hneg := by
    simp [List.getLast?_map]
  rw [h2] at h
  simp only [List.head?_map, List.head?_reverse] at h
  -- hneg is injective on options
  cases h1 : (chain S.reverse).getLast? <;> cases h3 : S.getLast? <;> simp [h1, h3] at h ⊢
  have := congrArg hneg h; rwa [hneg_hneg, hneg_hneg] at this

/-- the last two elements of a chain are related -/
theorem chain_last_two {R : Pt → Pt → Prop} : ∀ (l : List Pt), List.IsChain R l →
    ∀ x ∈ l.dropLast.getLast?, ∀ y ∈ l.getLast?, R x y
  | [], _, x, hx, _, _ => by simp at hx
  | [_], _, x, hx, _, _ => by simp at hx
  | [a, b], h, x, hx, y, hy => by
    simp at hx hy; subst hx; subst hy
    exact (List.isChain_cons_cons.mp h).1
  | a :: b :: c :: rest, h, x, hx, y, hy => by
    have ih := chain_last_two (b :: c :: rest) (List.isChain_cons_cons.mp h).2
    apply ih x _ y _
    · simpa [List.dropLast] using hx
    · simpa using hy

def hullRing (S : List Pt) : List Pt :=
  ((chain S).reverse).dropLast ++ (chain S.reverse).reverse

/-- **C10 containment**: for a strictly sorted input, every input point is on or to the left of
    every directed edge of the ring `lower[:-1] + upper`, and the ring's vertices are inputs. -/
theorem hullRing_correct (S : List Pt) (hS : S.Pairwise lexLt) :
    (∀ q ∈ S, List.IsChain (fun u v => LeftOf q u v) (hullRing S)) ∧ (∀ x ∈ hullRing S, x ∈ S) := by
  obtain ⟨hl1, _, hl3⟩ := lower_chain_correct S hS
  obtain ⟨hu1, _, hu3⟩ := upper_chain_correct S hS
  refine ⟨?_, ?_⟩
  · intro q hq
    have hL : List.IsChain (fun u v => LeftOf q u v) (chain S).reverse := by
      rw [List.isChain_reverse]; exact (edgesGe_iff_chain q _).mp (hl1 q hq)
    have hU : List.IsChain (fun u v => LeftOf q u v) (chain S.reverse).reverse := by
      rw [List.isChain_reverse]; exact (edgesGe_iff_chain q _).mp (hu1 q hq)
    unfold hullRing
    rw [List.isChain_append]
    refine ⟨hL.prefix (List.dropLast_prefix _), hU, ?_⟩
    intro x hx y hy
    -- y is the head of the upper list = bottom of the upper stack = max S = last of the lower list
    have hy' : y ∈ ((chain S).reverse).getLast? := by
      rw [List.head?_reverse, upper_bottom S hS] at hy
      rw [List.getLast?_reverse, chain_top S hS]; exact hy
    exact chain_last_two _ hL x hx y hy'
  · intro x hx
    unfold hullRing at hx
    rcases List.mem_append.mp hx with h | h
    · exact hl3 x (List.mem_reverse.mp (List.mem_of_mem_dropLast h))
    · exact hu3 x (List.mem_reverse.mp h)


end GV.Hull
