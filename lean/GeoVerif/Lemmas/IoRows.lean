import GeoVerif.Lemmas.IoDict
import GeoVerif.Lemmas.IoRound

/-!
# Records and rows through the shapefile channel — helper proofs for C20
-/
namespace GV.Io

/-- property values a dbf record carries with their own type -/
def Storable : PVal → Prop
  | .str _ => True
  | .int _ => True
  | .float _ => True
  | .bool _ => True
  | _ => False

/-- a key the dbf keeps as it is and that does not collide with the writer's own columns -/
structure KeyOK (k : String) : Prop where
  keep : chanName k = k
  ne_s : k ≠ "datetime_s"
  ne_e : k ≠ "datetime_e"
  ne_id : k ≠ "ID"

theorem KeyOK.ne_start {k : String} (h : KeyOK k) : k ≠ "datetime_start" := by
  intro e
  have h1 := h.keep
  rw [e] at h1
  exact absurd h1 (by decide)

theorem KeyOK.ne_end {k : String} (h : KeyOK k) : k ≠ "datetime_end" := by
  intro e
  have h1 := h.keep
  rw [e] at h1
  exact absurd h1 (by decide)

theorem chanVal_storable {v : PVal} (h : Storable v) : chanVal (fieldType v.tag) (convertDt v) = v := by
  cases v <;> first | rfl | exact absurd h (by simp [Storable])

/-- the `dt` argument is well formed: start ≤ end (what `TimeInterval.__init__` enforces) -/
def DtWF : Dt → Prop
  | none => True
  | some (a, b) => a ≤ b

theorem mkDt_wf {a b : Int} (h : a ≤ b) : mkDt (some a) (some b) = .ok (some (a, b)) := by
  unfold mkDt
  by_cases e : a = b
  · subst e; simp
  · have : ¬ b < a := not_lt.mpr h
    simp [e, this]

/-! ## `properties` -/

theorem mem_properties {s : Shape} {k : String} {v : PVal} (h : (k, v) ∈ s.properties) :
    (k, v) ∈ s.props ∨ ∃ a b, s.dt = some (a, b) ∧
      ((k = "datetime_start" ∧ v = .dt a) ∨ (k = "datetime_end" ∧ v = .dt b)) := by
  unfold Shape.properties at h
  cases hd : s.dt with
  | none => rw [hd] at h; exact Or.inl h
  | some ab =>
    obtain ⟨a, b⟩ := ab
    rw [hd] at h
    simp only at h
    rcases mem_dictSet h with ⟨h1, h2⟩ | h
    · exact Or.inr ⟨a, b, rfl, Or.inr ⟨h1, h2⟩⟩
    · rcases mem_dictSet h with ⟨h1, h2⟩ | h
      · exact Or.inr ⟨a, b, rfl, Or.inl ⟨h1, h2⟩⟩
      · exact Or.inl h

theorem dictGet_properties_user (s : Shape) {k : String} (h1 : k ≠ "datetime_start") (h2 : k ≠ "datetime_end") :
    dictGet s.properties k = dictGet s.props k := by
  unfold Shape.properties
  cases s.dt with
  | none => rfl
  | some ab =>
    obtain ⟨a, b⟩ := ab
    simp only
    rw [dictGet_dictSet_other _ _ _ _ (Ne.symm h2), dictGet_dictSet_other _ _ _ _ (Ne.symm h1)]

theorem dictGet_properties_start (s : Shape) (a b : Int) (h : s.dt = some (a, b)) :
    dictGet s.properties "datetime_start" = some (.dt a) := by
  unfold Shape.properties
  rw [h]
  simp only
  rw [dictGet_dictSet_other _ _ _ _ (by decide), dictGet_dictSet_same]

theorem dictGet_properties_end (s : Shape) (a b : Int) (h : s.dt = some (a, b)) :
    dictGet s.properties "datetime_end" = some (.dt b) := by
  unfold Shape.properties
  rw [h]
  simp only
  rw [dictGet_dictSet_same]

/-- every key of `_properties` is a plain user key -/
def PropsOK (s : Shape) : Prop := ∀ kv ∈ s.props, KeyOK kv.1

theorem dictGet_props_time_none {s : Shape} (hp : PropsOK s) {k : String} (hk : ¬ KeyOK k) :
    dictGet s.props k = none := by
  apply dictGet_none_of_not_mem_keys
  intro hm
  simp only [keys, List.mem_map] at hm
  obtain ⟨kv, hkv, rfl⟩ := hm
  exact hk (hp kv hkv)

theorem not_keyOK_start : ¬ KeyOK "datetime_start" := fun h => h.ne_start rfl
theorem not_keyOK_end : ¬ KeyOK "datetime_end" := fun h => h.ne_end rfl

/-! ## the type map of a layer -/

/-- one type per key across the layer (the statement's "uniform type per key") -/
def UniformTypes (group : List Shape) : Prop :=
  ∀ s ∈ group, ∀ s' ∈ group, ∀ k v v', (k, v) ∈ s.props → (k, v') ∈ s'.props → v.tag = v'.tag

theorem typemap_pairs (group : List Shape) :
    typemapOf none group = dictOf ((group.map fun s => s.properties.map fun kv => (kv.1, kv.2.tag)).flatten) := by
  unfold typemapOf
  congr 2
  apply List.map_congr_left
  intro s _
  congr 1
  simp [included]

theorem typemap_key {group : List Shape} {s : Shape} (hs : s ∈ group) {k : String} {v : PVal}
    (h : (k, v) ∈ s.properties) : k ∈ keys (typemapOf none group) := by
  rw [typemap_pairs, keys_dictOf]
  simp only [List.map_flatten, List.map_map, List.mem_flatten, List.mem_map]
  refine ⟨(s.properties.map fun kv => (kv.1, kv.2.tag)).map (·.1), ⟨s, hs, rfl⟩, ?_⟩
  simp only [List.map_map, List.mem_map]
  exact ⟨(k, v), h, rfl⟩

theorem typemap_tag {group : List Shape} {k : String} {t : PTag} (h : (k, t) ∈ typemapOf none group) :
    ∃ s ∈ group, ∃ v, (k, v) ∈ s.properties ∧ v.tag = t := by
  rw [typemap_pairs] at h
  have := mem_dictOf h
  simp only [List.mem_flatten, List.mem_map] at this
  obtain ⟨l, ⟨s, hs, rfl⟩, hm⟩ := this
  simp only [List.mem_map, Prod.mk.injEq] at hm
  obtain ⟨kv, hkv, h1, h2⟩ := hm
  exact ⟨s, hs, kv.2, by rw [← h1]; exact hkv, h2⟩

/-- the keys of the type map are user keys or the two time keys, the latter typed as datetimes -/
theorem typemap_key_cases {group : List Shape} (hp : ∀ s ∈ group, PropsOK s) {kt : String × PTag}
    (h : kt ∈ typemapOf none group) :
    KeyOK kt.1 ∨ ((kt.1 = "datetime_start" ∨ kt.1 = "datetime_end") ∧ kt.2 = .dt) := by
  obtain ⟨k, t⟩ := kt
  obtain ⟨s, hs, v, hv, ht⟩ := typemap_tag h
  rcases mem_properties hv with hv | ⟨a, b, _, ⟨h1, h2⟩ | ⟨h1, h2⟩⟩
  · exact Or.inl (hp s hs _ hv)
  · right
    refine ⟨Or.inl h1, ?_⟩
    subst h2
    exact ht.symm
  · right
    refine ⟨Or.inr h1, ?_⟩
    subst h2
    exact ht.symm

/-! ## the record as the reader sees it -/

/-- the value the channel returns for column `kt` of shape `s` -/
def cellOf (s : Shape) (kt : String × PTag) : PVal :=
  chanVal (fieldType kt.2) (convertDt ((dictGet s.properties kt.1).getD .null))

theorem chanRec_recordOf (tm : Dict PTag) (s : Shape) (idx : Nat) :
    chanRec ((tm.map fun kt => (kt.1, fieldType kt.2)) ++ [("ID", .N 0)]) (recordOf tm s idx)
      = (tm.map fun kt => (chanName kt.1, cellOf s kt)) ++ [("ID", .int idx)] := by
  unfold chanRec recordOf
  rw [List.zip_append (by simp)]
  simp only [List.map_append, List.zip_cons_cons, List.zip_nil_right, List.map_cons, List.map_nil]
  congr 1
  · rw [List.zip_map', List.map_map]
    apply List.map_congr_left
    intro kt _
    rfl

theorem rename_inj_user {group : List Shape} (hp : ∀ s ∈ group, PropsOK s) {k : String} (hk : KeyOK k) :
    ∀ kt ∈ typemapOf none group, chanName kt.1 = chanName k → kt.1 = k := by
  intro kt hkt he
  rw [hk.keep] at he
  rcases typemap_key_cases hp hkt with h | ⟨h | h, _⟩
  · rw [h.keep] at he; exact he
  · rw [h, show chanName "datetime_start" = "datetime_s" by decide] at he; exact absurd he.symm hk.ne_s
  · rw [h, show chanName "datetime_end" = "datetime_e" by decide] at he; exact absurd he.symm hk.ne_e

theorem rename_inj_start {group : List Shape} (hp : ∀ s ∈ group, PropsOK s) :
    ∀ kt ∈ typemapOf none group, chanName kt.1 = chanName "datetime_start" → kt.1 = "datetime_start" := by
  intro kt hkt he
  rcases typemap_key_cases hp hkt with h | ⟨h | h, _⟩
  · rw [h.keep] at he; exact absurd he h.ne_s
  · exact h
  · rw [h] at he; exact absurd he (by decide)

theorem rename_inj_end {group : List Shape} (hp : ∀ s ∈ group, PropsOK s) :
    ∀ kt ∈ typemapOf none group, chanName kt.1 = chanName "datetime_end" → kt.1 = "datetime_end" := by
  intro kt hkt he
  rcases typemap_key_cases hp hkt with h | ⟨h | h, _⟩
  · rw [h.keep] at he; exact absurd he h.ne_e
  · rw [h] at he; exact absurd he (by decide)
  · exact h

/-- the record of shape `s` in its layer, as `record.as_dict()` returns it under the contract -/
def backRec (group : List Shape) (s : Shape) (idx : Nat) : Dict PVal :=
  ((typemapOf none group).map fun kt => (chanName kt.1, cellOf s kt)) ++ [("ID", .int idx)]

/-- **user properties** survive with value and type -/
theorem backRec_user {group : List Shape} (hp : ∀ s ∈ group, PropsOK s) (hu : UniformTypes group)
    {s : Shape} (hs : s ∈ group) (idx : Nat) {k : String} {v : PVal}
    (hv : dictGet s.props k = some v) (hst : Storable v) : dictGet (backRec group s idx) k = some v := by
  have hmem : (k, v) ∈ s.props := dictGet_mem hv
  have hk : KeyOK k := hp s hs _ hmem
  have hprop : dictGet s.properties k = some v := by rw [dictGet_properties_user s hk.ne_start hk.ne_end]; exact hv
  have hkey : k ∈ keys (typemapOf none group) := typemap_key hs (dictGet_mem hprop)
  obtain ⟨kt, hf⟩ := find?_isSome_of_mem_keys hkey
  obtain ⟨hk1, hk2⟩ := find?_key hf
  -- the tag stored for `k` is the tag of `v`
  have htag : kt.2 = v.tag := by
    obtain ⟨s', hs', v', hv', ht⟩ := typemap_tag (k := kt.1) (t := kt.2) hk2
    rw [hk1] at hv'
    rcases mem_properties hv' with hv' | ⟨a, b, _, ⟨h1, _⟩ | ⟨h1, _⟩⟩
    · rw [← ht]; exact hu s' hs' s hs k v' v hv' hmem
    · exact absurd h1 hk.ne_start
    · exact absurd h1 hk.ne_end
  unfold backRec
  rw [dictGet_append]
  have := dictGet_map_rename (typemapOf none group) chanName (cellOf s) k (rename_inj_user hp hk)
  rw [hk.keep] at this
  rw [this, hf]
  simp only [Option.map_some, Option.some_or]
  unfold cellOf
  rw [hk1, hprop, htag]
  simp only [Option.getD_some, chanVal_storable hst]

theorem dictGet_properties_none (s : Shape) (h : s.dt = none) (k : String) :
    dictGet s.properties k = dictGet s.props k := by
  unfold Shape.properties
  rw [h]

/-- one of the two time columns as the reader's `_get_dt` sees it -/
theorem backRec_iso {group : List Shape} (hp : ∀ s ∈ group, PropsOK s) {s : Shape} (hs : s ∈ group) (idx : Nat)
    (key short : String) (sel : Int × Int → Int) (hshort : chanName key = short) (hid : short ≠ "ID")
    (hinj : ∀ kt ∈ typemapOf none group, chanName kt.1 = chanName key → kt.1 = key)
    (hnk : ¬ KeyOK key)
    (hsome : ∀ a b, s.dt = some (a, b) → dictGet s.properties key = some (.dt (sel (a, b)))) :
    isoField (dictGet (backRec group s idx) short) = .ok (s.dt.map sel) := by
  unfold backRec
  rw [dictGet_append]
  have := dictGet_map_rename (typemapOf none group) chanName (cellOf s) key hinj
  rw [hshort] at this
  rw [this]
  have hidg : dictGet [("ID", PVal.int idx)] short = none := by
    rw [dictGet_cons]
    simp [Ne.symm hid, dictGet_nil]
  rw [hidg, Option.or_none]
  cases hf : (typemapOf none group).find? (·.1 == key) with
  | none =>
    cases hd : s.dt with
    | none => rfl
    | some ab =>
      obtain ⟨a, b⟩ := ab
      obtain ⟨kt, hkt⟩ := find?_isSome_of_mem_keys (typemap_key hs (dictGet_mem (hsome a b hd)))
      rw [hf] at hkt
      exact absurd hkt (by simp)
  | some kt =>
    obtain ⟨hk1, hk2⟩ := find?_key hf
    have htag : kt.2 = .dt := by
      rcases typemap_key_cases hp hk2 with h | ⟨_, h⟩
      · rw [hk1] at h; exact absurd h hnk
      · exact h
    simp only [Option.map_some]
    unfold cellOf
    rw [hk1, htag]
    cases hd : s.dt with
    | none =>
      rw [dictGet_properties_none s hd, dictGet_props_time_none (hp s hs) hnk]
      rfl
    | some ab =>
      obtain ⟨a, b⟩ := ab
      rw [hsome a b hd]
      rfl

/-- **time bounds** survive through the two text columns -/
theorem backRec_dt {group : List Shape} (hp : ∀ s ∈ group, PropsOK s) {s : Shape} (hs : s ∈ group) (idx : Nat)
    (hw : DtWF s.dt) : getDtShp (backRec group s idx) "datetime_s" "datetime_e" = .ok s.dt := by
  have h1 := backRec_iso hp hs idx "datetime_start" "datetime_s" (·.1) (by decide) (by decide)
    (rename_inj_start hp) not_keyOK_start (fun a b h => dictGet_properties_start s a b h)
  have h2 := backRec_iso hp hs idx "datetime_end" "datetime_e" (·.2) (by decide) (by decide)
    (rename_inj_end hp) not_keyOK_end (fun a b h => dictGet_properties_end s a b h)
  unfold getDtShp
  rw [h1, h2]
  cases hd : s.dt with
  | none => rfl
  | some ab =>
    obtain ⟨a, b⟩ := ab
    rw [hd] at hw
    simp only [Option.map_some, bind, Except.bind]
    exact mkDt_wf hw

end GV.Io
