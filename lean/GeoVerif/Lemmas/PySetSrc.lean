import GeoVerif.Model.ObjRec
import GeoVerif.Lemmas.PySet
/-!
# Lemmas for the source tie of C15: sets built from mapped lists, sets of frozensets

`dedupBy` / `pySetEq` along a key function; the membership relation the translator generates for a set of frozensets
(hash of the frozenset — a multiset of member hashes — then `==`) collapses to set equality of the key lists.
-/
set_option linter.unusedSectionVars false
namespace GV.Obj
variable {α κ : Type}

/-- `A == B` on two sets built from the lists `a`, `b` -/
theorem setEq_dedup (r : α → α → Bool) (a b : List α) :
    Py.setEq r (dedupBy r a) (dedupBy r b) = pySetEq r a b := rfl

/-- de-duplication commutes with a key function -/
theorem dedupBy_map (r : κ → κ → Bool) (f : α → κ) :
    ∀ l : List α, dedupBy r (l.map f) = (dedupBy (fun x y => r (f x) (f y)) l).map f
  | [] => rfl
  | x :: xs => by
    simp only [List.map_cons, dedupBy, dedupBy_map r f xs, List.filter_map]
    rfl

theorem subsetBy_map (r : κ → κ → Bool) (f : α → κ) (a b : List α) :
    subsetBy r (a.map f) (b.map f) = subsetBy (fun x y => r (f x) (f y)) a b := by
  simp only [subsetBy, memBy, List.all_map, List.any_map]
  rfl

theorem pySetEq_map (r : κ → κ → Bool) (f : α → κ) (a b : List α) :
    pySetEq r (a.map f) (b.map f) = pySetEq (fun x y => r (f x) (f y)) a b := by
  simp only [pySetEq, dedupBy_map, subsetBy_map, List.length_map]

/-- the pull-back of `==` along a key function is an equivalence -/
theorem key_bequiv [BEq κ] [LawfulBEq κ] (f : α → κ) : BEquiv (fun (x y : α) => f x == f y) :=
  ⟨by simp, by simp_all, by simp_all⟩

theorem dedupBy_congr {r r' : α → α → Bool} (h : ∀ x y, r x y = r' x y) (l : List α) : dedupBy r l = dedupBy r' l := by
  have : r = r' := by funext x y; exact h x y
  rw [this]

/-- **a set of frozensets.**  `rH` / `rM` are the hash-equality and membership relations of the members (both "the keys
    are equal"); the membership relation of the frozensets themselves is `msEqBy rH` (the hash of a frozenset) and then
    `==` of the built sets.  Comparing two sets of frozensets built that way is the model's `pySetEq (pySetEq (· == ·))`
    on the key lists. -/
theorem setOfFrozensets_eq [DecidableEq α] [BEq κ] [LawfulBEq κ] {ι : Type} (k : α → κ) (rH rM : α → α → Bool)
    (hH : ∀ x y, rH x y = (k x == k y)) (hM : ∀ x y, rM x y = (k x == k y))
    (F F' : ι → List α) (G : ι → List κ) (hFG : ∀ h, (F h).map k = G h) (hFG' : ∀ h, (F' h).map k = G h)
    (hs hs' : List ι) :
    Py.setEq (fun a b => msEqBy rH a b && Py.setEq rM a b)
        (dedupBy (fun a b => msEqBy rH a b && Py.setEq rM a b) (hs.map (fun h => dedupBy rM (F h))))
        (dedupBy (fun a b => msEqBy rH a b && Py.setEq rM a b) (hs'.map (fun h => dedupBy rM (F' h)))) =
      pySetEq (pySetEq (fun (x y : κ) => x == y)) (hs.map G) (hs'.map G) := by
  have eH : rH = fun x y => k x == k y := by funext x y; exact hH x y
  have eM : rM = fun x y => k x == k y := by funext x y; exact hM x y
  subst eH eM
  have hR := key_bequiv (α := α) k
  have e1 : hs.map (fun h => dedupBy (fun x y => k x == k y) (F h)) =
      (hs.map F).map (dedupBy (fun x y => k x == k y)) := by simp [List.map_map]
  have e2 : hs'.map (fun h => dedupBy (fun x y => k x == k y) (F' h)) =
      (hs'.map F').map (dedupBy (fun x y => k x == k y)) := by simp [List.map_map]
  have e3 : hs.map G = (hs.map F).map (List.map k) := by
    simp only [List.map_map]; exact List.map_congr_left (fun h _ => (hFG h).symm)
  have e4 : hs'.map G = (hs'.map F').map (List.map k) := by
    simp only [List.map_map]; exact List.map_congr_left (fun h _ => (hFG' h).symm)
  rw [setEq_dedup, e1, e2, e3, e4, pySetEq_map, pySetEq_map]
  congr 1
  funext x y
  rw [setEq_dedup, pySetEq_map]
  cases hp : pySetEq (fun x y => k x == k y) x y
  · simp
  · obtain ⟨c, hc, hf⟩ := dedup_matching hR hp
    simp [msEqBy_of_matching hR hc hf]

end GV.Obj
