import GeoVerif.Lemmas.Hull
import Mathlib.Tactic.FieldSimp
import Mathlib.Tactic.Positivity
import Mathlib.Tactic.LinearCombination

/-!
# Plane geometry used at the two junctions of `lower[:-1] + upper`

All facts are about the cross product of rational vectors; "lex-positive" vectors are the
differences `b - a` with `a` before `b` in the `(lon, lat)` tuple order.
-/
namespace GV.Hull

/-- two parallel lex-positive vectors are positive multiples of each other -/
theorem par_scale {u v : Pt} (hu : LexPos u) (hv : LexPos v) (h : vx u v = 0) :
    ∃ s t : Rat, 0 < s ∧ 0 < t ∧ ∀ w : Pt, s * vx u w = t * vx v w := by
  unfold vx at *
  rcases hu with hu | ⟨hu1, hu2⟩
  · have hv1 : 0 < v.1 := by
      rcases hv with hv | ⟨hv1, hv2⟩
      · exact hv
      · exfalso; rw [hv1] at h; have := mul_pos hu hv2; linarith
    refine ⟨v.1, u.1, hv1, hu, fun w => ?_⟩
    have : v.1 * u.2 = u.1 * v.2 := by linarith
    calc v.1 * (u.1 * w.2 - u.2 * w.1) = u.1 * v.1 * w.2 - (v.1 * u.2) * w.1 := by ring
      _ = u.1 * v.1 * w.2 - (u.1 * v.2) * w.1 := by rw [this]
      _ = u.1 * (v.1 * w.2 - v.2 * w.1) := by ring
  · have hv1 : v.1 = 0 := by
      rw [hu1] at h
      have : u.2 * v.1 = 0 := by linarith
      rcases mul_eq_zero.mp this with h' | h'
      · linarith
      · exact h'
    have hv2 : 0 < v.2 := by
      rcases hv with hv | ⟨_, hv⟩
      · linarith
      · exact hv
    refine ⟨v.2, u.2, hv2, hu2, fun w => ?_⟩
    rw [hu1, hv1]; ring

theorem sign_transfer {s t X Y : Rat} (hs : 0 < s) (ht : 0 < t) (h : s * X = t * Y) :
    (0 ≤ X → 0 ≤ Y) ∧ (X ≤ 0 → Y ≤ 0) ∧ (0 < X → 0 < Y) := by
  refine ⟨fun hX => ?_, fun hX => ?_, fun hX => ?_⟩
  · have : 0 ≤ t * Y := by rw [← h]; exact mul_nonneg hs.le hX
    exact nonneg_of_mul_nonneg_right this ht
  · have : t * Y ≤ 0 := by rw [← h]; exact mul_nonpos_of_nonneg_of_nonpos hs.le hX
    by_contra hc; rw [not_le] at hc
    have := mul_pos ht hc; linarith
  · have : 0 < t * Y := by rw [← h]; exact mul_pos hs hX
    by_contra hc; rw [not_lt] at hc
    have := mul_nonpos_of_nonneg_of_nonpos ht.le hc; linarith

/-- the vector from `a` to `b` -/
def vsub (b a : Pt) : Pt := (b.1 - a.1, b.2 - a.2)

theorem lexPos_vsub {a b : Pt} (h : lexLt a b) : LexPos (vsub b a) := lexPos_sub h

/-- **junction lemma** (both ends of the chains).  `p → m` and `m → r` are consecutive ring edges
    with `p` and `r` on the same lexicographic side of `m`, every point of `S` is on or left of both
    edges.  If the turn at `m` is not strict then every point of `S` is on the line `p m`. -/
theorem junction_flat {S : List Pt} {p m r : Pt}
    (hside : (lexLt p m ∧ lexLt r m) ∨ (lexLt m p ∧ lexLt m r))
    (h1 : ∀ q ∈ S, 0 ≤ cross p m q) (h2 : ∀ q ∈ S, 0 ≤ cross m r q)
    (hflat : cross p m r = 0) : ∀ q ∈ S, cross p m q = 0 := by
  intro q hq
  have a1 := h1 q hq
  have a2 := h2 q hq
  -- u = p - m, v = r - m (or their negatives) are parallel lex-positive vectors
  rcases hside with ⟨hp, hr⟩ | ⟨hp, hr⟩
  · have hu := lexPos_vsub hp   -- m - p
    have hv := lexPos_vsub hr   -- m - r
    have hpar : vx (vsub m p) (vsub m r) = 0 := by
      have : vx (vsub m p) (vsub m r) = - cross p m r := by unfold vx vsub cross; ring
      rw [this, hflat]; simp
    obtain ⟨s, t, hs, ht, hst⟩ := par_scale hu hv hpar
    have e1 : cross p m q = vx (vsub m p) (vsub q m) := by unfold vx vsub cross; ring
    have e2 : cross m r q = - vx (vsub m r) (vsub q m) := by unfold vx vsub cross; ring
    have := (sign_transfer hs ht (hst (vsub q m))).1 (by rw [← e1]; exact a1)
    have h0 : vx (vsub m r) (vsub q m) = 0 := by linarith
    have : s * vx (vsub m p) (vsub q m) = 0 := by rw [hst, h0]; simp
    rcases mul_eq_zero.mp this with h' | h'
    · linarith
    · rw [e1]; exact h'
  · have hu := lexPos_vsub hp   -- p - m
    have hv := lexPos_vsub hr   -- r - m
    have hpar : vx (vsub p m) (vsub r m) = 0 := by
      have : vx (vsub p m) (vsub r m) = - cross p m r := by unfold vx vsub cross; ring
      rw [this, hflat]; simp
    obtain ⟨s, t, hs, ht, hst⟩ := par_scale hu hv hpar
    have e1 : cross p m q = - vx (vsub p m) (vsub q m) := by unfold vx vsub cross; ring
    have e2 : cross m r q = vx (vsub r m) (vsub q m) := by unfold vx vsub cross; ring
    have := (sign_transfer hs ht (hst (vsub q m))).2.1 (by linarith)
    have h0 : vx (vsub r m) (vsub q m) = 0 := by linarith
    have : s * vx (vsub p m) (vsub q m) = 0 := by rw [hst, h0]; simp
    rcases mul_eq_zero.mp this with h' | h'
    · linarith
    · rw [e1, h']; simp

/-- all points on the line through two distinct points ⇒ every triple is collinear -/
theorem collinear_of_line {S : List Pt} {p m : Pt} (hpm : p ≠ m)
    (h : ∀ q ∈ S, cross p m q = 0) : Collinear S := by
  intro a ha b hb c hc
  have ea := h a ha
  have eb := h b hb
  have ec := h c hc
  unfold cross at *
  have hd : m.1 - p.1 ≠ 0 ∨ m.2 - p.2 ≠ 0 := by
    by_contra hcon
    rw [not_or, not_not, not_not] at hcon
    exact hpm (Prod.ext (by linarith [hcon.1]) (by linarith [hcon.2]))
  rcases hd with hd | hd
  · have : (m.1 - p.1) * ((b.1 - a.1) * (c.2 - a.2) - (b.2 - a.2) * (c.1 - a.1)) = 0 := by
      linear_combination (b.1 - a.1) * (ec - ea) - (c.1 - a.1) * (eb - ea)
    rcases mul_eq_zero.mp this with h' | h'
    · exact absurd h' hd
    · exact h'
  · have : (m.2 - p.2) * ((b.1 - a.1) * (c.2 - a.2) - (b.2 - a.2) * (c.1 - a.1)) = 0 := by
      linear_combination (b.2 - a.2) * (ec - ea) - (c.2 - a.2) * (eb - ea)
    rcases mul_eq_zero.mp this with h' | h'
    · exact absurd h' hd
    · exact h'

/-- a vertex cannot be an interior vertex of both chains: `a → x → b` in the lower chain
    (ascending, strict left turn), `c → x` an edge of the upper chain (descending). -/
theorem no_double {a x b c : Pt} (hax : lexLt a x) (hxc : lexLt x c)
    (hturn : 0 < cross a x b) (hc_low : 0 ≤ cross a x c) (ha_up : 0 ≤ cross c x a)
    (hb_up : 0 ≤ cross c x b) : False := by
  have hu := lexPos_vsub hxc   -- c - x
  have hv := lexPos_vsub hax   -- x - a
  have hpar : vx (vsub c x) (vsub x a) = 0 := by
    have e1 : cross a x c = vx (vsub x a) (vsub c x) := by unfold vx vsub cross; ring
    have e2 : cross c x a = vx (vsub c x) (vsub x a) := by unfold vx vsub cross; ring
    have e3 : vx (vsub x a) (vsub c x) = - vx (vsub c x) (vsub x a) := by unfold vx; ring
    linarith
  obtain ⟨s, t, hs, ht, hst⟩ := par_scale hu hv hpar
  have e4 : cross c x b = - vx (vsub c x) (vsub b x) := by unfold vx vsub cross; ring
  have e5 : cross a x b = vx (vsub x a) (vsub b x) := by unfold vx vsub cross; ring
  have := (sign_transfer hs ht (hst (vsub b x))).2.1 (by linarith)
  linarith

end GV.Hull
