import GeoVerif.Model.Wkt
import Mathlib.Tactic.Ring
import Mathlib.Tactic.Linarith
import Mathlib.Algebra.Order.Field.Rat
/-!
# Helper lemmas for C13 (WKT)

* the shoelace sum of `is_counter_clockwise` changes sign when a ring is reversed (for longitudes in
  [-180, 180], where un-wrapping an antimeridian-crossing edge is symmetric) — `shoelace_reverse`,
  `isCCW_reverse`;
* appending the first vertex to a closed ring does not change the sum — `shoelace_append_head`;
* reading back the tokens of a stored coordinate / ring gives the coordinate / ring.
-/
namespace GV.Wkt
open GV

/-! ## the shoelace sum -/

/-- one summand of `is_counter_clockwise` -/
def term (a b : Pt) : Rat :=
  let e' := ensureEdge a b
  (e'.2.1 - e'.1.1) * (e'.2.2 + e'.1.2)

def LonOk (p : Pt) : Prop := -180 ≤ p.1 ∧ p.1 ≤ 180

theorem term_self (a : Pt) : term a a = 0 := by
  unfold term ensureEdge absR
  split_ifs <;> simp_all <;> linarith

theorem term_swap (a b : Pt) (ha : LonOk a) (hb : LonOk b) : term b a = - term a b := by
  obtain ⟨ha1, ha2⟩ := ha
  obtain ⟨hb1, hb2⟩ := hb
  unfold term ensureEdge absR
  split_ifs <;> simp only [] <;> first | ring1 | (exfalso; linarith)

/-- sum of the terms along consecutive vertices -/
def pathSum : List Pt → Rat
  | a :: b :: t => term a b + pathSum (b :: t)
  | _ => 0

/-- last element of `a :: t` -/
def lastOf (a : Pt) : List Pt → Pt
  | [] => a
  | b :: t => lastOf b t

def sumL (l : List Rat) : Rat := l.foldl (· + ·) 0

theorem foldl_add (l : List Rat) (a : Rat) : l.foldl (· + ·) a = a + l.foldl (· + ·) 0 := by
  induction l generalizing a with
  | nil => simp
  | cons x xs ih => simp only [List.foldl_cons]; rw [ih, ih (0 + x)]; ring

theorem sumL_cons (x : Rat) (l : List Rat) : sumL (x :: l) = x + sumL l := by
  unfold sumL; simp only [List.foldl_cons]; rw [foldl_add]; ring

theorem sumL_nil : sumL [] = 0 := rfl

theorem lastOf_append (a : Pt) (t : List Pt) (x : Pt) : lastOf a (t ++ [x]) = x := by
  induction t generalizing a with
  | nil => rfl
  | cons b t ih => exact ih b

theorem lastOf_mem (a : Pt) (t : List Pt) : lastOf a t ∈ a :: t := by
  induction t generalizing a with
  | nil => simp [lastOf]
  | cons b t ih => exact List.mem_cons_of_mem _ (ih b)

theorem lastOf_eq_getLast (a : Pt) (t : List Pt) : lastOf a t = (a :: t).getLast (by simp) := by
  induction t generalizing a with
  | nil => rfl
  | cons b t ih => rw [lastOf, ih b, List.getLast_cons (List.cons_ne_nil b t)]

/-- `zip l (l.tail ++ [x])` sums to the path sum plus the closing term -/
theorem sum_zip_close (a : Pt) (t : List Pt) (x : Pt) :
    sumL (((a :: t).zip (t ++ [x])).map fun e => term e.1 e.2) =
      pathSum (a :: t) + term (lastOf a t) x := by
  induction t generalizing a with
  | nil => simp [sumL_cons, sumL_nil, pathSum, lastOf]
  | cons b t ih =>
    have := ih b
    simp only [List.cons_append, List.zip_cons_cons, List.map_cons, sumL_cons, pathSum, lastOf]
    rw [this]
    ring

theorem shoelace_eq (a : Pt) (t : List Pt) :
    shoelace (a :: t) = pathSum (a :: t) + term (lastOf a t) a := by
  have := sum_zip_close a t a
  unfold shoelace cyclicPairs
  exact this

theorem pathSum_append (a : Pt) (t : List Pt) (x : Pt) :
    pathSum (a :: (t ++ [x])) = pathSum (a :: t) + term (lastOf a t) x := by
  induction t generalizing a with
  | nil => simp [pathSum, lastOf]
  | cons b t ih =>
    have := ih b
    simp only [List.cons_append, pathSum, lastOf] at this ⊢
    rw [this]
    ring

/-- the reverse of `a :: t` starts with its last element and ends with `a` -/
theorem reverse_cons_shape (a : Pt) (t : List Pt) :
    ∃ u, (a :: t).reverse = lastOf a t :: u ∧ lastOf (lastOf a t) u = a := by
  induction t generalizing a with
  | nil => exact ⟨[], rfl, rfl⟩
  | cons b t ih =>
    obtain ⟨u, hu, hl⟩ := ih b
    refine ⟨u ++ [a], ?_, ?_⟩
    · rw [List.reverse_cons, hu]; rfl
    · exact lastOf_append _ _ _

theorem pathSum_reverse (l : List Pt) (h : ∀ p ∈ l, LonOk p) :
    pathSum l.reverse = - pathSum l := by
  induction l with
  | nil => simp [pathSum]
  | cons a t ih =>
    cases t with
    | nil => simp [pathSum]
    | cons b t =>
      have iht := ih (fun p hp => h p (List.mem_cons_of_mem _ hp))
      obtain ⟨u, hu, hl⟩ := reverse_cons_shape b t
      have e : (a :: b :: t).reverse = lastOf b t :: (u ++ [a]) := by
        rw [List.reverse_cons, hu]; rfl
      rw [hu] at iht
      rw [e, pathSum_append, iht, hl, term_swap a b (h a (by simp)) (h b (by simp))]
      simp only [pathSum]
      ring

/-- reversing a ring negates the sum of `is_counter_clockwise` -/
theorem shoelace_reverse (l : List Pt) (h : ∀ p ∈ l, LonOk p) :
    shoelace l.reverse = - shoelace l := by
  cases l with
  | nil => simp [shoelace, cyclicPairs]
  | cons a t =>
    obtain ⟨u, hu, hl⟩ := reverse_cons_shape a t
    have hp := pathSum_reverse (a :: t) h
    rw [hu] at hp ⊢
    rw [shoelace_eq, shoelace_eq, hp, hl]
    have hLa : LonOk a := h a (by simp)
    have hLl : LonOk (lastOf a t) := h _ (lastOf_mem a t)
    rw [term_swap _ _ hLl hLa]
    ring

theorem isCCW_reverse_pts (l : List Pt) (h : ∀ p ∈ l, LonOk p) (hz : shoelace l ≠ 0) :
    isCCW l.reverse = !isCCW l := by
  unfold isCCW
  rw [shoelace_reverse l h]
  by_cases hle : shoelace l ≤ 0
  · have hlt : shoelace l < 0 := lt_of_le_of_ne hle hz
    have : ¬ (-shoelace l ≤ 0) := by linarith
    simp [hle, this]
  · have : -shoelace l ≤ 0 := by linarith
    simp [hle, this]

/-- a ring whose last vertex is (as a point) its first: appending the first vertex once more adds two
    zero-length edges -/
theorem shoelace_append_head (a : Pt) (t : List Pt) (hclosed : lastOf a t = a) :
    shoelace (a :: (t ++ [a])) = shoelace (a :: t) := by
  rw [shoelace_eq, shoelace_eq, pathSum_append, lastOf_append, hclosed, term_self]
  ring


/-! ## reading back what was written: coordinates and rings -/

theorem normalize_id {lon lat : Rat} (h1 : -90 ≤ lat) (h2 : lat ≤ 90) (h3 : -180 ≤ lon) (h4 : lon < 180) :
    GV.normalize true lon lat = (lon, lat) := by
  have h5 : lon ≠ 180 := ne_of_lt h4
  have h6 : lon ≤ 180 := le_of_lt h4
  simp [GV.normalize, GV.fuelLat, GV.fuelLon, GV.latLoop, GV.lonLoop, h1, h2, h3, h5, h6]

section Read
variable {F : Type} (io : NumIO F)

theorem Coord.wf_iff (c : Coord F) : c.wf io = true ↔
    (-90 ≤ io.val c.lat ∧ io.val c.lat ≤ 90 ∧ -180 ≤ io.val c.lon ∧ io.val c.lon < 180) ∧
      (c.m.isNone = true ∨ c.z.isSome = true) := by
  simp [Coord.wf, and_assoc]

theorem Coord.lonOk {c : Coord F} (h : c.wf io = true) : LonOk (c.pt io) := by
  obtain ⟨⟨_, _, h3, h4⟩, _⟩ := (Coord.wf_iff io c).1 h
  exact ⟨h3, le_of_lt h4⟩

theorem mkCoord_wf {c : Coord F} (h : c.wf io = true) : mkCoord io c.lon c.lat c.z c.m = c := by
  obtain ⟨⟨h1, h2, h3, h4⟩, _⟩ := (Coord.wf_iff io c).1 h
  simp [mkCoord, normalize_id h1 h2 h3 h4, h1, h2]

theorem toks_length (c : Coord F) : (c.toks io).length = c.dim := by
  cases c with
  | mk lon lat z m => cases z <;> cases m <;> simp [Coord.toks, Coord.dim]

theorem optEqv_refl (o : Option F) : optEqv io o o = true := by
  cases o <;> simp [optEqv]

theorem eqv_refl (c : Coord F) : Coord.eqv io c c = true := by
  simp [Coord.eqv, optEqv_refl]

theorem optEqv_symm (a b : Option F) : optEqv io a b = optEqv io b a := by
  cases a <;> cases b <;> simp [optEqv, eq_comm]

theorem eqv_symm (a b : Coord F) : Coord.eqv io a b = Coord.eqv io b a := by
  simp only [Coord.eqv, optEqv_symm io a.z b.z]
  congr 1
  · congr 1 <;> simp [eq_comm]

variable (hio : ∀ x, io.rd (io.shw x) = some x)
include hio

/-- `Coordinate.from_wkt` (no tag: order "zm") of the numbers `to_str()` printed -/
theorem coordFromToks_toks {c : Coord F} (h : c.wf io = true) :
    coordFromToks io ['z', 'm'] (c.toks io) = .ok c := by
  have hm := mkCoord_wf io h
  obtain ⟨_, hzm⟩ := (Coord.wf_iff io c).1 h
  cases c with
  | mk lon lat z m =>
    cases z <;> cases m <;>
      simp_all [Coord.toks, coordFromToks, rdAll, zmAssign]

end Read

theorem mapE_ok {α β : Type} (f : α → Except String β) (g : α → β) (xs : List α)
    (h : ∀ x ∈ xs, f x = .ok (g x)) : mapE f xs = .ok (xs.map g) := by
  induction xs with
  | nil => rfl
  | cons x xs ih =>
    have hx := h x (by simp)
    have := ih (fun y hy => h y (List.mem_cons_of_mem _ hy))
    simp [mapE, hx, this]

/-- reading back an embedded list element by element -/
theorem mapE_map {α β : Type} (f : α → Except String β) (emb : β → α) (ys : List β)
    (h : ∀ y ∈ ys, f (emb y) = .ok y) : mapE f (ys.map emb) = .ok ys := by
  induction ys with
  | nil => rfl
  | cons y ys ih =>
    have hy := h y (by simp)
    have := ih (fun z hz => h z (List.mem_cons_of_mem _ hz))
    simp [mapE, hy, this]

section Rings
variable {F : Type} (io : NumIO F)

theorem closedRing_ne_nil {r : List (Coord F)} (h : closedRing io r = true) : r ≠ [] := by
  intro hr; subst hr; simp [closedRing] at h

theorem closedRing_reverse {r : List (Coord F)} (h : closedRing io r = true) :
    closedRing io r.reverse = true := by
  unfold closedRing at h ⊢
  rw [List.head?_reverse, List.getLast?_reverse]
  cases hh : r.head? with
  | none => simp [hh] at h
  | some a =>
    cases hl : r.getLast? with
    | none => simp [hh, hl] at h
    | some b =>
      simp only [hh, hl] at h ⊢
      rw [eqv_symm]; exact h

theorem closeRing_closed {r : List (Coord F)} (h : closedRing io r = true) : closeRing io r = r := by
  unfold closedRing at h
  unfold closeRing
  cases hh : r.head? with
  | none => simp [hh] at h
  | some a =>
    cases hl : r.getLast? with
    | none => simp [hh, hl] at h
    | some b => simp only [hh, hl] at h ⊢; simp [h]

theorem shellWf_iff (r : List (Coord F)) : shellWf io r = true ↔
    (∀ c ∈ r, c.wf io = true) ∧ closedRing io r = true ∧ GV.isCCW (r.map (Coord.pt io)) = true := by
  simp [shellWf, and_assoc]

theorem holeWf_iff (r : List (Coord F)) : holeWf io r = true ↔
    shellWf io r = true ∧ GV.shoelace (r.map (Coord.pt io)) ≠ 0 := by
  simp [holeWf]

/-- the constructor leaves a well-formed shell as it is -/
theorem mkOutline_shell {r : List (Coord F)} (h : shellWf io r = true) : mkOutline io r = r := by
  obtain ⟨_, hc, hccw⟩ := (shellWf_iff io r).1 h
  simp [mkOutline, closeRing_closed io hc, hccw]

/-- a hole is written reversed; the constructor turns it back -/
theorem mkOutline_reverse_hole {h : List (Coord F)} (hw : holeWf io h = true) :
    mkOutline io h.reverse = h := by
  obtain ⟨hs, hz⟩ := (holeWf_iff io h).1 hw
  obtain ⟨hwf, hc, hccw⟩ := (shellWf_iff io h).1 hs
  have hlon : ∀ p ∈ h.map (Coord.pt io), LonOk p := by
    intro p hp
    obtain ⟨c, hcm, rfl⟩ := List.mem_map.1 hp
    exact Coord.lonOk io (hwf c hcm)
  have hrev : GV.isCCW (h.map (Coord.pt io)).reverse = false := by
    rw [isCCW_reverse_pts _ hlon hz, hccw]; rfl
  simp [mkOutline, closeRing_closed io (closedRing_reverse io hc), List.map_reverse, hrev]

/-- a ring of zero shoelace sum is "counter-clockwise" in both directions: the constructor keeps the
    reversed ring -/
theorem mkOutline_reverse_zero {h : List (Coord F)} (hs : shellWf io h = true)
    (hz : GV.shoelace (h.map (Coord.pt io)) = 0) : mkOutline io h.reverse = h.reverse := by
  obtain ⟨hwf, hc, _⟩ := (shellWf_iff io h).1 hs
  have hlon : ∀ p ∈ h.map (Coord.pt io), LonOk p := by
    intro p hp
    obtain ⟨c, hcm, rfl⟩ := List.mem_map.1 hp
    exact Coord.lonOk io (hwf c hcm)
  have hrev : GV.isCCW (h.map (Coord.pt io)).reverse = true := by
    unfold GV.isCCW; rw [shoelace_reverse _ hlon, hz]; simp
  simp [mkOutline, closeRing_closed io (closedRing_reverse io hc), List.map_reverse, hrev]

variable (hio : ∀ x, io.rd (io.shw x) = some x)
include hio

/-- `_parse_wkt_linear_ring` gives back the ring whose numbers were written -/
theorem parseRing_toks (w : Wkt) (r : List (Coord F)) (minPts : Nat) (closed : Bool) (d : Nat)
    (htag : w.tag = [])
    (hfirst : w.body.dims = d)
    (hwf : ∀ c ∈ r, c.wf io = true) (hdim : ∀ c ∈ r, c.dim = d)
    (hmin : minPts ≤ r.length) (hclosed : closed = true → closedRing io r = true) :
    parseRing io w (ringToks io r) minPts closed = .ok r := by
  have hmap : mapE (coordFromToks io (zmOrder [])) (ringToks io r) = .ok r :=
    mapE_map _ _ r (fun c hc => coordFromToks_toks io hio (hwf c hc))
  have hany : (ringToks io r).any (fun c => c.length != d) = false := by
    rw [List.any_eq_false]
    intro c hc
    obtain ⟨x, hx, rfl⟩ := List.mem_map.1 hc
    simp [toks_length, hdim x hx]
  unfold parseRing
  simp only [hfirst, htag, hany, hmap]
  have hlen : ¬ r.length < minPts := Nat.not_lt.2 hmin
  cases closed with
  | false => simp [hlen]
  | true =>
    have hc := hclosed rfl
    unfold closedRing at hc
    cases hh : r.head? with
    | none => simp [hh] at hc
    | some a =>
      cases hl : r.getLast? with
      | none => simp [hh, hl] at hc
      | some b => simp only [hh, hl] at hc; simp [hlen, hh, hl, hc]

end Rings


section Polys
variable {F : Type} (io : NumIO F)

theorem Poly.wf_iff (p : Poly F) : p.wf io = true ↔
    shellWf io p.outline = true ∧ ∀ h ∈ p.holes, holeWf io h = true := by
  simp [Poly.wf]

variable (hio : ∀ x, io.rd (io.shw x) = some x)
include hio

/-- a ring as it may stand in a text that our reader accepts: in-range coordinates of dimension `d`,
    closed -/
def Readable (d : Nat) (r : List (Coord F)) : Prop :=
  (∀ c ∈ r, c.wf io = true) ∧ (∀ c ∈ r, c.dim = d) ∧ closedRing io r = true

omit hio in
theorem readable_of_hole {d : Nat} {h : List (Coord F)} (hw : holeWf io h = true)
    (hd : ∀ c ∈ h, c.dim = d) : Readable io d h.reverse ∧ Readable io d h := by
  obtain ⟨hhs, _⟩ := (holeWf_iff io h).1 hw
  obtain ⟨hhwf, hhc, _⟩ := (shellWf_iff io h).1 hhs
  exact ⟨⟨fun c hc => hhwf c (List.mem_reverse.1 hc), fun c hc => hd c (List.mem_reverse.1 hc),
    closedRing_reverse io hhc⟩, ⟨hhwf, hd, hhc⟩⟩

/-- one polygon of the text: the first ring is the shell, every further ring goes through the
    `GeoPolygon` constructor -/
theorem polyFromRings_written (w : Wkt) (o : List (Coord F)) (hs : List (List (Coord F))) (d : Nat)
    (htag : w.tag = []) (hfirst : w.body.dims = d) (ho : shellWf io o = true)
    (hod : ∀ c ∈ o, c.dim = d) (hh : ∀ h ∈ hs, Readable io d h) :
    polyFromRings io w ((o :: hs).map (ringToks io)) = .ok ⟨o, hs.map (fun x => mkOutline io x)⟩ := by
  obtain ⟨hswf, hsc, _⟩ := (shellWf_iff io o).1 ho
  have hne : o ≠ [] := closedRing_ne_nil io hsc
  have h1 : parseRing io w (ringToks io o) 1 true = .ok o :=
    parseRing_toks io hio w o 1 true d htag hfirst hswf hod
      (by cases hp' : o with
          | nil => exact absurd hp' hne
          | cons a t => simp)
      (fun _ => hsc)
  have h2 : mapE (fun h => parseRing io w h 1 true) (hs.map (ringToks io)) = .ok hs := by
    apply mapE_map (fun h => parseRing io w h 1 true) (ringToks io)
    intro h hm
    obtain ⟨hwf, hd, hc⟩ := hh h hm
    have hhne : h ≠ [] := closedRing_ne_nil io hc
    refine parseRing_toks io hio w h 1 true d htag hfirst hwf hd ?_ (fun _ => hc)
    cases hp' : h with
    | nil => exact absurd hp' hhne
    | cons a t => simp
  have h3 : hs.any List.isEmpty = false := by
    rw [List.any_eq_false]
    intro h hm
    have hhne : h ≠ [] := closedRing_ne_nil io (hh h hm).2.2
    simp [hhne]
  have h5 : o.isEmpty = false := by
    cases hp' : o with
    | nil => exact absurd hp' hne
    | cons a t => rfl
  simp only [List.map_cons, polyFromRings, h1, h2, h3, mkPoly, h5, mkOutline_shell io ho]
  rfl

/-- one polygon: the rings `linear_rings()` lists, read by `from_wkt`, give the polygon back -/
theorem polyFromRings_linearRings (w : Wkt) (p : Poly F) (d : Nat) (htag : w.tag = [])
    (hfirst : w.body.dims = d) (hp : p.wf io = true) (hdim : ∀ c ∈ p.coords, c.dim = d) :
    polyFromRings io w (p.linearRings.map (ringToks io)) = .ok p := by
  obtain ⟨hshell, hholes⟩ := (Poly.wf_iff io p).1 hp
  have hmem : ∀ h ∈ p.holes, ∀ c ∈ h, c.dim = d := by
    intro h hh c hc
    refine hdim c ?_
    simp only [Poly.coords, List.mem_append, List.mem_flatten]
    exact Or.inr ⟨h, hh, hc⟩
  have h4 : (p.holes.map List.reverse).map (fun x => mkOutline io x) = p.holes := by
    rw [List.map_map]
    conv_rhs => rw [← List.map_id p.holes]
    apply List.map_congr_left
    intro h hh
    exact mkOutline_reverse_hole io (hholes h hh)
  have := polyFromRings_written io hio w p.outline (p.holes.map List.reverse) d htag hfirst hshell
    (fun c hc => hdim c (by simp [Poly.coords, hc]))
    (by
      intro y hy
      obtain ⟨h, hh, rfl⟩ := List.mem_map.1 hy
      exact (readable_of_hole io (hholes h hh) (hmem h hh)).1)
  unfold Poly.linearRings
  rw [this, h4]

end Polys

end GV.Wkt
