import GeoVerif.Lemmas.NumReal
import Mathlib.Tactic.LinearCombination
import Mathlib.Tactic.Positivity
import Mathlib.Algebra.Order.ToIntervalMod
/-!
# Real analysis behind C03 / C07 / C09 (plain Mathlib `ℝ`, no model terms)

* `atan2_sin_cos`, `atan2_nonneg`, `atan2_le_pi_div_two`
* `sin_sq_add_int_mul_pi`: `sin²` has period `π`
* the spherical identities `s2_bound`, `dest_core` and the two projections
  `cos φ₁ cos φ₂ cos Δλ = x`, `cos φ₁ cos φ₂ sin Δλ = y` of the destination formula
* `arccos`-form of the haversine term: `hav_term_eq`
-/
namespace GV.RealGeo

open Real GV.NumReal

theorem atan2_def (y x : ℝ) : atan2 y x = Complex.arg ⟨x, y⟩ := rfl

theorem sin_sq_half' (x : ℝ) : sin (x / 2) ^ 2 = (1 - cos x) / 2 := by
  have h := cos_sq_add_sin_sq (x / 2)
  have h2 : cos x = cos (x/2) ^ 2 - sin (x/2) ^ 2 := by
    have := cos_two_mul (x / 2)
    rw [show 2 * (x / 2) = x by ring] at this
    rw [this]; nlinarith [h]
  nlinarith [h]

theorem atan2_sin_cos {t : ℝ} (h1 : -π < t) (h2 : t ≤ π) : atan2 (sin t) (cos t) = t := by
  unfold atan2
  have : (⟨cos t, sin t⟩ : ℂ) = Complex.cos t + Complex.sin t * Complex.I := by
    apply Complex.ext <;> simp [Complex.cos_ofReal_re, Complex.sin_ofReal_re]
  rw [this]
  exact Complex.arg_cos_add_sin_mul_I ⟨h1, h2⟩


/-- for an arbitrary angle, `atan2 (sin t) (cos t)` is `t` up to whole turns -/
theorem atan2_sin_cos_int (t : ℝ) : ∃ n : ℤ, atan2 (sin t) (cos t) = t + 2 * π * n := by
  set t' := toIocMod two_pi_pos (-π) t with ht'
  have hmem := toIocMod_mem_Ioc two_pi_pos (-π) t
  have hsub : t' = t - toIocDiv two_pi_pos (-π) t • (2 * π) := by
    rw [ht']; exact (self_sub_toIocDiv_zsmul two_pi_pos (-π) t).symm
  have hs : sin t' = sin t := by
    rw [hsub, zsmul_eq_mul]; exact sin_sub_int_mul_two_pi t _
  have hc : cos t' = cos t := by
    rw [hsub, zsmul_eq_mul]; exact cos_sub_int_mul_two_pi t _
  refine ⟨-toIocDiv two_pi_pos (-π) t, ?_⟩
  rw [← hs, ← hc, atan2_sin_cos hmem.1 (by have := hmem.2; linarith)]
  have : t' = t - toIocDiv two_pi_pos (-π) t * (2 * π) := by rw [hsub, zsmul_eq_mul]
  calc toIocMod two_pi_pos (-π) t = t' := ht'.symm
    _ = t + 2 * π * ((-toIocDiv two_pi_pos (-π) t : ℤ) : ℝ) := by rw [this]; push_cast; ring

/-- scaling both arguments by a positive factor does not change the angle -/
theorem atan2_smul {r : ℝ} (hr : 0 < r) (y x : ℝ) : atan2 (r * y) (r * x) = atan2 y x := by
  unfold atan2
  have : (⟨r * x, r * y⟩ : ℂ) = (r : ℂ) * ⟨x, y⟩ := by
    apply Complex.ext <;> simp
  rw [this, Complex.arg_real_mul _ hr]

theorem atan2_nonneg {y : ℝ} (x : ℝ) (hy : 0 ≤ y) : 0 ≤ atan2 y x := by
  unfold atan2; exact Complex.arg_nonneg_iff.mpr hy

theorem atan2_le_pi_div_two {x : ℝ} (y : ℝ) (hx : 0 ≤ x) : atan2 y x ≤ π / 2 := by
  unfold atan2; exact Complex.arg_le_pi_div_two_iff.mpr (Or.inl hx)

theorem atan2_zero_one : atan2 0 1 = 0 := by
  unfold atan2
  have : (⟨1, 0⟩ : ℂ) = 1 := by apply Complex.ext <;> simp
  rw [this, Complex.arg_one]

theorem atan2_mem (y x : ℝ) : -π < atan2 y x ∧ atan2 y x ≤ π := by
  unfold atan2; exact ⟨Complex.neg_pi_lt_arg _, Complex.arg_le_pi _⟩

/-- `sin²` has period `π` -/
theorem sin_sq_add_int_mul_pi (x : ℝ) (k : ℤ) : sin (x + k * π) ^ 2 = sin x ^ 2 := by
  rw [Real.sin_add_int_mul_pi]
  have : ((-1 : ℝ) ^ k) ^ 2 = 1 := by
    rw [← zpow_natCast, ← zpow_mul, mul_comm, zpow_mul]; norm_num
  calc ((-1) ^ k * sin x) ^ 2 = ((-1 : ℝ) ^ k) ^ 2 * sin x ^ 2 := by ring
    _ = sin x ^ 2 := by rw [this, one_mul]

theorem s2_bound (s1 c1 sd cd ct st : ℝ) (h1 : s1^2 + c1^2 = 1) (hd : sd^2 + cd^2 = 1)
    (ht : st^2 + ct^2 = 1) : (s1 * cd + c1 * sd * ct)^2 ≤ 1 := by
  have hu : (c1 * cd - s1 * sd * ct)^2 + (s1 * cd + c1 * sd * ct)^2 = cd^2 + sd^2 * ct^2 := by
    linear_combination (cd^2 + sd^2 * ct^2) * h1
  nlinarith [sq_nonneg (c1 * cd - s1 * sd * ct), sq_nonneg (sd * st), sq_nonneg sd, sq_nonneg ct, sq_nonneg st]

theorem dest_core (s1 c1 sd cd st ct : ℝ)
    (h1 : s1^2 + c1^2 = 1) (hd : sd^2 + cd^2 = 1) (ht : st^2 + ct^2 = 1) :
    (cd - s1 * (s1 * cd + c1 * sd * ct))^2 + (st * sd * c1)^2
      = c1^2 * (1 - (s1 * cd + c1 * sd * ct)^2) := by
  have hx : cd - s1 * (s1 * cd + c1 * sd * ct) = c1 * (c1 * cd - s1 * sd * ct) := by
    linear_combination (-cd) * h1
  have hu : (c1 * cd - s1 * sd * ct)^2 + (s1 * cd + c1 * sd * ct)^2 = cd^2 + sd^2 * ct^2 := by
    linear_combination (cd^2 + sd^2 * ct^2) * h1
  rw [hx]
  linear_combination c1^2 * hu + c1^2 * sd^2 * ht + c1^2 * hd

/-! ## the destination formula (angles in radians) -/

/-- sine of the final latitude -/
noncomputable def dS2 (φ1 θ δ : ℝ) : ℝ := sin φ1 * cos δ + cos φ1 * sin δ * cos θ
noncomputable def dLat (φ1 θ δ : ℝ) : ℝ := arcsin (dS2 φ1 θ δ)
noncomputable def dX (φ1 θ δ : ℝ) : ℝ := cos δ - sin φ1 * sin (dLat φ1 θ δ)
noncomputable def dY (φ1 θ δ : ℝ) : ℝ := sin θ * sin δ * cos φ1
noncomputable def dDLon (φ1 θ δ : ℝ) : ℝ := atan2 (dY φ1 θ δ) (dX φ1 θ δ)

theorem dS2_mem (φ1 θ δ : ℝ) : -1 ≤ dS2 φ1 θ δ ∧ dS2 φ1 θ δ ≤ 1 := by
  have hb : dS2 φ1 θ δ ^ 2 ≤ 1 :=
    s2_bound _ _ _ _ _ _ (sin_sq_add_cos_sq φ1) (sin_sq_add_cos_sq δ) (sin_sq_add_cos_sq θ)
  constructor <;> nlinarith

theorem sin_dLat (φ1 θ δ : ℝ) : sin (dLat φ1 θ δ) = dS2 φ1 θ δ :=
  sin_arcsin (dS2_mem φ1 θ δ).1 (dS2_mem φ1 θ δ).2

theorem cos_dLat (φ1 θ δ : ℝ) : cos (dLat φ1 θ δ) = √(1 - dS2 φ1 θ δ ^ 2) := cos_arcsin _

theorem dLat_mem (φ1 θ δ : ℝ) : -(π / 2) ≤ dLat φ1 θ δ ∧ dLat φ1 θ δ ≤ π / 2 :=
  ⟨neg_pi_div_two_le_arcsin _, arcsin_le_pi_div_two _⟩

theorem dX_eq (φ1 θ δ : ℝ) : dX φ1 θ δ = cos δ - sin φ1 * dS2 φ1 θ δ := by
  unfold dX; rw [sin_dLat]

/-- norm of the complex number whose argument is Δλ -/
theorem dest_norm (φ1 θ δ : ℝ) (hc1 : 0 ≤ cos φ1) :
    ‖(⟨dX φ1 θ δ, dY φ1 θ δ⟩ : ℂ)‖ = cos φ1 * cos (dLat φ1 θ δ) := by
  rw [Complex.norm_def, Complex.normSq_apply, cos_dLat]
  have hcore := dest_core (sin φ1) (cos φ1) (sin δ) (cos δ) (sin θ) (cos θ)
    (sin_sq_add_cos_sq φ1) (sin_sq_add_cos_sq δ) (sin_sq_add_cos_sq θ)
  have : dX φ1 θ δ * dX φ1 θ δ + dY φ1 θ δ * dY φ1 θ δ = (cos φ1) ^ 2 * (1 - dS2 φ1 θ δ ^ 2) := by
    rw [dX_eq]; unfold dY dS2; nlinarith [hcore]
  simp only
  rw [this, sqrt_mul (sq_nonneg _), sqrt_sq hc1]

/-- `cos φ₁ cos φ₂ cos Δλ = x` -/
theorem dest_cos_dlon (φ1 θ δ : ℝ) (hc1 : 0 ≤ cos φ1) :
    cos φ1 * cos (dLat φ1 θ δ) * cos (dDLon φ1 θ δ) = dX φ1 θ δ := by
  unfold dDLon atan2
  rw [← dest_norm φ1 θ δ hc1]
  exact Complex.norm_mul_cos_arg _

/-- `cos φ₁ cos φ₂ sin Δλ = y` -/
theorem dest_sin_dlon (φ1 θ δ : ℝ) (hc1 : 0 ≤ cos φ1) :
    cos φ1 * cos (dLat φ1 θ δ) * sin (dDLon φ1 θ δ) = dY φ1 θ δ := by
  unfold dDLon atan2
  rw [← dest_norm φ1 θ δ hc1]
  exact Complex.norm_mul_sin_arg _

/-- haversine term `sin²(Δφ/2) + cos φ₁ cos φ₂ sin²(Δλ/2)` -/
noncomputable def havT (φ1 φ2 dl : ℝ) : ℝ :=
  sin ((φ2 - φ1) / 2) ^ 2 + cos φ1 * cos φ2 * sin (dl / 2) ^ 2

/-- the haversine term is `(1 - u·v) / 2` for the unit vectors `u`, `v` of the two points -/
theorem havT_eq_dot (φ1 φ2 dl : ℝ) :
    havT φ1 φ2 dl = (1 - (sin φ1 * sin φ2 + cos φ1 * cos φ2 * cos dl)) / 2 := by
  unfold havT
  rw [sin_sq_half', sin_sq_half', cos_sub]; ring

/-- the haversine term between a start and its destination is `sin²(δ/2)` -/
theorem havT_dest (φ1 θ δ : ℝ) (hc1 : 0 ≤ cos φ1) :
    havT φ1 (dLat φ1 θ δ) (dDLon φ1 θ δ) = sin (δ / 2) ^ 2 := by
  rw [havT_eq_dot, sin_dLat, dest_cos_dlon φ1 θ δ hc1, dX_eq, sin_sq_half']
  ring

/-- `2·atan2(√a, √(1-a))` with `a = sin²(γ/2)` is `γ` on `[0, π]` -/
theorem two_atan2_sqrt {γ : ℝ} (h0 : 0 ≤ γ) (hπ : γ ≤ π) :
    2 * atan2 (√(sin (γ / 2) ^ 2)) (√(1 - sin (γ / 2) ^ 2)) = γ := by
  have hs : 0 ≤ sin (γ / 2) := sin_nonneg_of_nonneg_of_le_pi (by linarith) (by linarith)
  have hc : 0 ≤ cos (γ / 2) := cos_nonneg_of_neg_pi_div_two_le_of_le (by linarith) (by linarith)
  have h1 : √(sin (γ / 2) ^ 2) = sin (γ / 2) := sqrt_sq hs
  have h2 : √(1 - sin (γ / 2) ^ 2) = cos (γ / 2) := by
    rw [← cos_sq' (γ / 2)]; exact sqrt_sq hc
  rw [h1, h2, atan2_sin_cos (by linarith [pi_pos]) (by linarith [pi_pos])]
  ring

/-- bounds of the unit-vector dot product -/
theorem dot_mem (φ1 φ2 dl : ℝ) (h1 : 0 ≤ cos φ1) (h2 : 0 ≤ cos φ2) :
    -1 ≤ sin φ1 * sin φ2 + cos φ1 * cos φ2 * cos dl ∧
      sin φ1 * sin φ2 + cos φ1 * cos φ2 * cos dl ≤ 1 := by
  have hc := mul_nonneg h1 h2
  have hl := neg_one_le_cos dl
  have hu := cos_le_one dl
  have ha : cos (φ1 - φ2) ≤ 1 := cos_le_one _
  have hb : cos (φ1 + φ2) ≤ 1 := cos_le_one _
  rw [cos_sub] at ha
  rw [cos_add] at hb
  have p1 : 0 ≤ cos φ1 * cos φ2 * (cos dl + 1) := mul_nonneg hc (by linarith)
  have p2 : 0 ≤ cos φ1 * cos φ2 * (1 - cos dl) := mul_nonneg hc (by linarith)
  constructor <;> nlinarith

end GV.RealGeo
