import GeoVerif.Model.Obj
import GeoVerif.Lemmas.Rot
import GeoVerif.Lemmas.PySet
import GeoVerif.Lemmas.ObjEq

/-!
# Rings written from another start vertex / in the other direction (helper lemmas for C15)
-/
set_option linter.unusedSectionVars false
namespace GV.Obj

theorem getLast?_cons_concat {α : Type} (a : α) (t : List α) : (a :: (t ++ [a])).getLast? = some a := by
  rw [← List.cons_append]; exact List.getLast?_concat ..

theorem zip_append_left_le {α β : Type} : ∀ (l x : List α) (r : List β), r.length ≤ l.length →
    (l ++ x).zip r = l.zip r
  | [], x, r, h => by
    have : r = [] := List.length_eq_zero_iff.mp (by simpa using h)
    subst this; simp
  | _ :: _, _, [], _ => by simp
  | a :: l, x, b :: r, h => by
    simp [zip_append_left_le l x r (by simpa using h)]

/-- an open outline closed explicitly (what a user passes who repeats the first vertex) -/
def closeOpen : List Coord → List Coord
  | [] => []
  | a :: t => (a :: t) ++ [a]

theorem closeOpen_length (o : List Coord) (h : o ≠ []) : (closeOpen o).length = o.length + 1 := by
  cases o with
  | nil => exact absurd rfl h
  | cons a t => simp [closeOpen]

theorem closeRingC_closeOpen (o : List Coord) : closeRingC (closeOpen o) = closeOpen o := by
  cases o with
  | nil => rfl
  | cons a t => simp [closeOpen, closeRingC, getLast?_cons_concat]

theorem closed_closeOpen (o : List Coord) (h : o ≠ []) : Closed (closeOpen o) := by
  cases o with
  | nil => exact absurd rfl h
  | cons a t => simp [closeOpen, Closed, getLast?_cons_concat]

theorem closed_reverse {o : List Coord} (h : Closed o) : Closed o.reverse := by
  obtain ⟨hne, hc⟩ := h
  refine ⟨by simpa using hne, ?_⟩
  simp only [List.head?_reverse, List.getLast?_reverse]
  exact hc.symm

theorem closed_closeRingC (o : List Coord) (h : o ≠ []) : Closed (closeRingC o) := by
  unfold closeRingC
  obtain ⟨a, t, rfl⟩ := List.exists_cons_of_ne_nil h
  have hl : (a :: t).getLast? = some ((a :: t).getLast (by simp)) := List.getLast?_eq_some_getLast _
  simp only [List.head?_cons, hl]
  split
  · next heq => exact ⟨by simp, by simp [hl, heq]⟩
  · exact ⟨by simp, by simp [getLast?_cons_concat]⟩

/-- the constructor always stores a closed outline -/
theorem closed_mkOutlineC (o : List Coord) (isHole : Bool) (h : o ≠ []) : Closed (mkOutlineC o isHole) := by
  unfold mkOutlineC
  simp only
  split
  · exact closed_reverse (closed_closeRingC o h)
  · exact closed_closeRingC o h

theorem openOutline_closeOpen (o : List Coord) (h : o ≠ []) : openOutline (closeOpen o) = o := by
  cases o with
  | nil => exact absurd rfl h
  | cons a t =>
    have : (a :: (t ++ [a])).dropLast = a :: t := by
      rw [← List.cons_append]; exact List.dropLast_concat
    simp [closeOpen, openOutline, this]

theorem openOutline_closeOpen_reverse (o : List Coord) (h : o ≠ []) :
    openOutline (closeOpen o).reverse ~r o.reverse := by
  cases o with
  | nil => exact absurd rfl h
  | cons a t =>
    have e1 : (closeOpen (a :: t)).reverse = (a :: t.reverse) ++ [a] := by simp [closeOpen]
    have e2 : ((a :: t.reverse) ++ [a]).dropLast = a :: t.reverse := List.dropLast_concat
    rw [e1]
    simp only [openOutline, e2, List.isEmpty_cons, Bool.false_eq_true, if_false, List.reverse_cons]
    -- a :: t.reverse  is  (t.reverse ++ [a]) rotated by |t|
    refine List.IsRotated.symm ⟨t.reverse.length, ?_⟩
    rw [List.rotate_append_length_eq]; rfl

/-- whichever orientation the constructor keeps, the stored open outline is the input up to
    rotation / reversal -/
theorem mkOutlineC_closeOpen_rotRev (o : List Coord) (isHole : Bool) (h : o ≠ []) :
    RotRev (keys (openOutline (mkOutlineC (closeOpen o) isHole))) (keys o) := by
  unfold mkOutlineC
  simp only [closeRingC_closeOpen]
  split
  · right
    have := (openOutline_closeOpen_reverse o h).map Coord.key
    simpa [keys] using this
  · left
    rw [openOutline_closeOpen o h]

theorem mkOutlineC_closeOpen_length (o : List Coord) (isHole : Bool) (h : o ≠ []) :
    (mkOutlineC (closeOpen o) isHole).length = o.length + 1 := by
  unfold mkOutlineC
  simp only [closeRingC_closeOpen]
  split <;> simp [closeOpen_length o h]

theorem keys_rotate_rotRev (o : List Coord) (k : Nat) : RotRev (keys (o.rotate k)) (keys o) := by
  left
  simp only [keys, List.map_rotate]
  exact List.IsRotated.symm ⟨k, rfl⟩

theorem keys_reverse_rotRev (o : List Coord) : RotRev (keys o.reverse) (keys o) := by
  right
  simp only [keys, List.map_reverse]
  exact List.IsRotated.refl _

/-! ### directed edge sets of closed rings -/

/-- the edges of an explicitly closed ring are the cyclic successor pairs of the open ring -/
theorem edges_closeOpen (ks : List CKey) (a : CKey) (t : List CKey) (h : ks = a :: t) :
    (ks ++ [a]).zip (ks ++ [a]).tail = ks.zip (ks.rotate 1) := by
  subst h
  simp only [List.cons_append, List.tail_cons, List.rotate_cons_succ, List.rotate_zero]
  rw [show (a :: (t ++ [a])) = (a :: t) ++ [a] by simp]
  exact zip_append_left_le _ _ _ (by simp)

end GV.Obj
