import GeoVerif.Model.Obj
import Mathlib.Data.List.Perm.Basic
import Mathlib.Data.List.Forall2
import Mathlib.Tactic.Common

/-!
# Python `set` semantics on lists: `pySetEq` is mutual inclusion, frozenset keys agree as multisets

All lemmas are for a Boolean relation that is an equivalence (`BEquiv`).
-/
set_option linter.unusedSectionVars false
namespace GV.Obj
variable {α : Type}

structure BEquiv (r : α → α → Bool) : Prop where
  refl : ∀ x, r x x = true
  symm : ∀ {x y}, r x y = true → r y x = true
  trans : ∀ {x y z}, r x y = true → r y z = true → r x z = true

theorem BEquiv.congr_right {r : α → α → Bool} (h : BEquiv r) {a b : α} (hab : r a b = true) (x : α) :
    r x a = r x b := by
  cases hxa : r x a <;> cases hxb : r x b <;> simp_all
  · have := h.trans hxb (h.symm hab); simp_all
  · have := h.trans hxa hab; simp_all

theorem BEquiv.congr_left {r : α → α → Bool} (h : BEquiv r) {a b : α} (hab : r a b = true) (x : α) :
    r a x = r b x := by
  cases hxa : r a x <;> cases hxb : r b x <;> simp_all
  · have := h.trans hab hxb; simp_all
  · have := h.trans (h.symm hab) hxa; simp_all

theorem beq_bequiv [BEq α] [LawfulBEq α] : BEquiv (fun (x y : α) => x == y) :=
  ⟨by simp, by simp_all, by simp_all⟩

/-- `a ⊆ b` modulo `r` -/
def SubR (r : α → α → Bool) (a b : List α) : Prop := ∀ x ∈ a, ∃ y ∈ b, r x y = true

theorem SubR.refl {r : α → α → Bool} (h : BEquiv r) (a : List α) : SubR r a a :=
  fun x hx => ⟨x, hx, h.refl x⟩

theorem SubR.trans {r : α → α → Bool} (h : BEquiv r) {a b c : List α}
    (h1 : SubR r a b) (h2 : SubR r b c) : SubR r a c := by
  intro x hx
  obtain ⟨y, hy, hxy⟩ := h1 x hx
  obtain ⟨z, hz, hyz⟩ := h2 y hy
  exact ⟨z, hz, h.trans hxy hyz⟩

/-! ### de-duplication -/

theorem mem_of_mem_dedupBy (r : α → α → Bool) : ∀ (l : List α) (x : α), x ∈ dedupBy r l → x ∈ l
  | [], x, h => by simp [dedupBy] at h
  | a :: l, x, h => by
    simp only [dedupBy, List.mem_cons, List.mem_filter] at h
    rcases h with h | ⟨h, _⟩
    · exact h ▸ List.mem_cons_self
    · exact List.mem_cons_of_mem _ (mem_of_mem_dedupBy r l x h)

theorem dedupBy_cover {r : α → α → Bool} (h : BEquiv r) :
    ∀ (l : List α) (x : α), x ∈ l → ∃ y ∈ dedupBy r l, r y x = true
  | a :: l, x, hx => by
    rcases List.mem_cons.mp hx with rfl | hx
    · exact ⟨x, by simp [dedupBy], h.refl x⟩
    · obtain ⟨y, hy, hyx⟩ := dedupBy_cover h l x hx
      by_cases hay : r a y = true
      · exact ⟨a, by simp [dedupBy], h.trans hay hyx⟩
      · refine ⟨y, ?_, hyx⟩
        simp only [dedupBy, List.mem_cons, List.mem_filter]
        right; exact ⟨hy, by simpa using hay⟩

theorem dedupBy_pairwise {r : α → α → Bool} (h : BEquiv r) :
    ∀ (l : List α), (dedupBy r l).Pairwise (fun a b => r a b = false)
  | [] => by simp [dedupBy]
  | a :: l => by
    simp only [dedupBy, List.pairwise_cons, List.mem_filter]
    refine ⟨fun b hb => by simpa using hb.2, ?_⟩
    exact (dedupBy_pairwise h l).sublist List.filter_sublist

theorem subR_dedup_left {r : α → α → Bool} (a b : List α) (h : SubR r a b) : SubR r (dedupBy r a) b :=
  fun x hx => h x (mem_of_mem_dedupBy r a x hx)

theorem subR_dedup_right {r : α → α → Bool} (hr : BEquiv r) (a b : List α) (h : SubR r a b) :
    SubR r a (dedupBy r b) := by
  intro x hx
  obtain ⟨y, hy, hxy⟩ := h x hx
  obtain ⟨z, hz, hzy⟩ := dedupBy_cover hr b y hy
  exact ⟨z, hz, hr.trans hxy (hr.symm hzy)⟩

theorem subR_of_dedup {r : α → α → Bool} (hr : BEquiv r) (a b : List α)
    (h : SubR r (dedupBy r a) (dedupBy r b)) : SubR r a b := by
  intro x hx
  obtain ⟨y, hy, hyx⟩ := dedupBy_cover hr a x hx
  obtain ⟨z, hz, hyz⟩ := h y hy
  exact ⟨z, mem_of_mem_dedupBy r b z hz, hr.trans (hr.symm hyx) hyz⟩

theorem subsetBy_iff {r : α → α → Bool} (hr : BEquiv r) (a b : List α) :
    subsetBy r a b = true ↔ SubR r a b := by
  simp only [subsetBy, memBy, List.all_eq_true, List.any_eq_true, SubR]
  constructor
  · intro h x hx; obtain ⟨y, hy, hyx⟩ := h x hx; exact ⟨y, hy, hr.symm hyx⟩
  · intro h x hx; obtain ⟨y, hy, hxy⟩ := h x hx; exact ⟨y, hy, hr.symm hxy⟩

/-! ### the matching lemma (pigeonhole) -/

/-- Two lists of pairwise inequivalent elements, the first included in the second modulo `r`,
    the second not longer: then the second is, up to order, element-wise equivalent to the first. -/
theorem exists_matching [DecidableEq α] {r : α → α → Bool} (hr : BEquiv r) :
    ∀ (a b : List α), a.Pairwise (fun x y => r x y = false) → b.length ≤ a.length → SubR r a b →
      ∃ b', b'.Perm b ∧ List.Forall₂ (fun x y => r x y = true) a b'
  | [], b, _, hlen, _ => by
    have : b = [] := List.length_eq_zero_iff.mp (by simpa using hlen)
    subst this; exact ⟨[], List.Perm.refl _, List.Forall₂.nil⟩
  | x :: a, b, hpa, hlen, hsub => by
    obtain ⟨y, hy, hxy⟩ := hsub x List.mem_cons_self
    have hpa' := List.pairwise_cons.mp hpa
    have hsub' : SubR r a (b.erase y) := by
      intro x' hx'
      obtain ⟨y', hy', hxy'⟩ := hsub x' (List.mem_cons_of_mem _ hx')
      have hne : y' ≠ y := by
        rintro rfl
        have h1 : r x x' = true := hr.trans hxy (hr.symm hxy')
        have h2 := hpa'.1 x' hx'
        simp_all
      exact ⟨y', (List.mem_erase_of_ne hne).mpr hy', hxy'⟩
    have hlen' : (b.erase y).length ≤ a.length := by
      rw [List.length_erase_of_mem hy]; simp at hlen; omega
    obtain ⟨c, hc, hf⟩ := exists_matching hr a (b.erase y) hpa'.2 hlen' hsub'
    exact ⟨y :: c, (List.Perm.cons y hc).trans (List.perm_cons_erase hy).symm, List.Forall₂.cons hxy hf⟩

theorem forall2_subR_symm {r : α → α → Bool} (hr : BEquiv r) {a b : List α}
    (h : List.Forall₂ (fun x y => r x y = true) a b) : SubR r b a := by
  induction h with
  | nil => intro x hx; simp at hx
  | cons hxy _ ih =>
    intro y hy
    rcases List.mem_cons.mp hy with rfl | hy
    · exact ⟨_, List.mem_cons_self, hr.symm hxy⟩
    · obtain ⟨z, hz, hyz⟩ := ih y hy
      exact ⟨z, List.mem_cons_of_mem _ hz, hyz⟩

/-- inclusion between de-duplicated lists can only grow the size -/
theorem length_le_of_subR [DecidableEq α] {r : α → α → Bool} (hr : BEquiv r) :
    ∀ (a b : List α), a.Pairwise (fun x y => r x y = false) → SubR r a b → a.length ≤ b.length
  | [], _, _, _ => by simp
  | x :: a, b, hpa, hsub => by
    obtain ⟨y, hy, hxy⟩ := hsub x List.mem_cons_self
    have hpa' := List.pairwise_cons.mp hpa
    have hsub' : SubR r a (b.erase y) := by
      intro x' hx'
      obtain ⟨y', hy', hxy'⟩ := hsub x' (List.mem_cons_of_mem _ hx')
      have hne : y' ≠ y := by
        rintro rfl
        have h1 : r x x' = true := hr.trans hxy (hr.symm hxy')
        have h2 := hpa'.1 x' hx'
        simp_all
      exact ⟨y', (List.mem_erase_of_ne hne).mpr hy', hxy'⟩
    have := length_le_of_subR hr a (b.erase y) hpa'.2 hsub'
    rw [List.length_erase_of_mem hy] at this
    have hpos : 0 < b.length := List.length_pos_of_mem hy
    simp; omega

/-- **`set(a) == set(b)` is mutual inclusion** (for an equivalence `r`) -/
theorem pySetEq_iff [DecidableEq α] {r : α → α → Bool} (hr : BEquiv r) (a b : List α) :
    pySetEq r a b = true ↔ SubR r a b ∧ SubR r b a := by
  simp only [pySetEq, Bool.and_eq_true, beq_iff_eq]
  rw [subsetBy_iff hr]
  constructor
  · rintro ⟨hlen, hsub⟩
    refine ⟨subR_of_dedup hr a b hsub, ?_⟩
    obtain ⟨c, hc, hf⟩ := exists_matching hr _ _ (dedupBy_pairwise hr a) (by omega) hsub
    have h1 : SubR r c (dedupBy r a) := forall2_subR_symm hr hf
    have h2 : SubR r (dedupBy r b) (dedupBy r a) := fun x hx => h1 x (hc.symm.subset hx)
    exact subR_of_dedup hr b a h2
  · rintro ⟨hab, hba⟩
    have h1 : SubR r (dedupBy r a) (dedupBy r b) := subR_dedup_right hr _ _ (subR_dedup_left _ _ hab)
    have h2 : SubR r (dedupBy r b) (dedupBy r a) := subR_dedup_right hr _ _ (subR_dedup_left _ _ hba)
    exact ⟨Nat.le_antisymm (length_le_of_subR hr _ _ (dedupBy_pairwise hr a) h1)
      (length_le_of_subR hr _ _ (dedupBy_pairwise hr b) h2), h1⟩

theorem pySetEq_bequiv [DecidableEq α] {r : α → α → Bool} (hr : BEquiv r) : BEquiv (pySetEq r) where
  refl x := (pySetEq_iff hr x x).mpr ⟨SubR.refl hr x, SubR.refl hr x⟩
  symm h := (pySetEq_iff hr _ _).mpr ((pySetEq_iff hr _ _).mp h).symm
  trans h1 h2 := by
    have h1 := (pySetEq_iff hr _ _).mp h1
    have h2 := (pySetEq_iff hr _ _).mp h2
    exact (pySetEq_iff hr _ _).mpr ⟨SubR.trans hr h1.1 h2.1, SubR.trans hr h2.2 h1.2⟩

theorem pySetEq_of_perm [DecidableEq α] {r : α → α → Bool} (hr : BEquiv r) {a b : List α} (h : a.Perm b) :
    pySetEq r a b = true :=
  (pySetEq_iff hr a b).mpr ⟨fun x hx => ⟨x, h.subset hx, hr.refl x⟩, fun x hx => ⟨x, h.symm.subset hx, hr.refl x⟩⟩

/-- set-equal lists have de-duplications that match one-to-one -/
theorem dedup_matching [DecidableEq α] {r : α → α → Bool} (hr : BEquiv r) {a b : List α}
    (h : pySetEq r a b = true) :
    ∃ c, c.Perm (dedupBy r b) ∧ List.Forall₂ (fun x y => r x y = true) (dedupBy r a) c := by
  simp only [pySetEq, Bool.and_eq_true, beq_iff_eq] at h
  rw [subsetBy_iff hr] at h
  exact exists_matching hr _ _ (dedupBy_pairwise hr a) (by omega) h.2

/-! ### multiset equality modulo a relation -/

theorem cntBy_perm (r : α → α → Bool) (x : α) {a b : List α} (h : a.Perm b) : cntBy r x a = cntBy r x b :=
  (h.filter _).length_eq

theorem cntBy_forall2 {β : Type} {r : β → β → Bool} (hr : BEquiv r) (x : β) {a b : List β}
    (h : List.Forall₂ (fun u v => r u v = true) a b) : cntBy r x a = cntBy r x b := by
  induction h with
  | nil => rfl
  | @cons u v a b huv _ ih =>
    have : r x u = r x v := hr.congr_right huv x
    simp only [cntBy, List.filter_cons, this] at ih ⊢
    split <;> simp [ih]

/-- lists that are element-wise `r`-related up to order are equal as multisets modulo `r` -/
theorem msEqBy_of_matching {β : Type} {r : β → β → Bool} (hr : BEquiv r) {a b c : List β}
    (hc : c.Perm b) (hf : List.Forall₂ (fun u v => r u v = true) a c) : msEqBy r a b = true := by
  simp only [msEqBy, List.all_eq_true, beq_iff_eq]
  intro x _
  rw [cntBy_forall2 hr x hf, cntBy_perm r x hc]

theorem msEqBy_of_perm {β : Type} (r : β → β → Bool) {a b : List β} (h : a.Perm b) : msEqBy r a b = true := by
  simp only [msEqBy, List.all_eq_true, beq_iff_eq]
  intro x _
  exact cntBy_perm r x h

/-- for a genuine equivalence, `msEqBy` means equal class counts for *every* probe -/
theorem msEqBy_iff {β : Type} {r : β → β → Bool} (hr : BEquiv r) (a b : List β) :
    msEqBy r a b = true ↔ ∀ x, cntBy r x a = cntBy r x b := by
  simp only [msEqBy, List.all_eq_true, beq_iff_eq]
  constructor
  · intro h x
    by_cases hex : ∃ y ∈ a ++ b, r x y = true
    · obtain ⟨y, hy, hxy⟩ := hex
      have hcong : ∀ l : List β, cntBy r x l = cntBy r y l := by
        intro l
        simp only [cntBy]
        congr 1
        apply List.filter_congr
        intro z _
        exact hr.congr_left hxy z
      rw [hcong a, hcong b]; exact h y hy
    · have hz : ∀ l : List β, (∀ y ∈ l, y ∈ a ++ b) → cntBy r x l = 0 := by
        intro l hl
        simp only [cntBy, List.length_eq_zero_iff, List.filter_eq_nil_iff]
        intro y hy hxy
        exact hex ⟨y, hl y hy, hxy⟩
      rw [hz a (fun y hy => List.mem_append_left _ hy), hz b (fun y hy => List.mem_append_right _ hy)]
  · intro h x _; exact h x

theorem msEqBy_bequiv {β : Type} {r : β → β → Bool} (hr : BEquiv r) : BEquiv (msEqBy r) where
  refl x := (msEqBy_iff hr x x).mpr (fun _ => rfl)
  symm h := (msEqBy_iff hr _ _).mpr (fun x => ((msEqBy_iff hr _ _).mp h x).symm)
  trans h1 h2 := (msEqBy_iff hr _ _).mpr
    (fun x => ((msEqBy_iff hr _ _).mp h1 x).trans ((msEqBy_iff hr _ _).mp h2 x))

/-! ### list equality -/

theorem listEqBy_bequiv {r : α → α → Bool} (hr : BEquiv r) : BEquiv (listEqBy r) where
  refl x := by induction x with
    | nil => rfl
    | cons a l ih => simp [listEqBy, hr.refl, ih]
  symm {x y} h := by
    induction x generalizing y with
    | nil => cases y <;> simp_all [listEqBy]
    | cons a l ih =>
      cases y with
      | nil => simp [listEqBy] at h
      | cons b m =>
        simp only [listEqBy, Bool.and_eq_true] at h ⊢
        exact ⟨hr.symm h.1, ih h.2⟩
  trans {x y z} h1 h2 := by
    induction x generalizing y z with
    | nil => cases y <;> cases z <;> simp_all [listEqBy]
    | cons a l ih =>
      cases y with
      | nil => simp [listEqBy] at h1
      | cons b m =>
        cases z with
        | nil => simp [listEqBy] at h2
        | cons c n =>
          simp only [listEqBy, Bool.and_eq_true] at h1 h2 ⊢
          exact ⟨hr.trans h1.1 h2.1, ih h1.2 h2.2⟩

theorem listEqBy_length {r : α → α → Bool} : ∀ {x y : List α}, listEqBy r x y = true → x.length = y.length
  | [], [], _ => rfl
  | a :: l, b :: m, h => by
    simp only [listEqBy, Bool.and_eq_true] at h
    simp [listEqBy_length h.2]
  | [], _ :: _, h => by simp [listEqBy] at h
  | _ :: _, [], h => by simp [listEqBy] at h

end GV.Obj
