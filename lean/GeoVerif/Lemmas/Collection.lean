import GeoVerif.Model.Collection
import Mathlib.Algebra.Order.Field.Rat
import Mathlib.Data.List.Basic
/-!
# Helper lemmas for C17 / C18: the stable sort by start, `min`/`max` folds, the property loop
-/
namespace GV.Coll

/-- chronological: starts are non-decreasing along the list -/
def Sorted (l : List Shape) : Prop := l.Pairwise (fun a b => a.startD ≤ b.startD)

theorem leStart_trans (a b c : Shape) : leStart a b = true → leStart b c = true → leStart a c = true := by
  unfold leStart; simp only [decide_eq_true_eq]; omega

theorem leStart_total (a b : Shape) : (leStart a b || leStart b a) = true := by
  unfold leStart; simp only [Bool.or_eq_true, decide_eq_true_eq]; omega

theorem sorted_iff_pairwise_leStart (l : List Shape) :
    Sorted l ↔ l.Pairwise (fun a b => leStart a b = true) := by
  unfold Sorted leStart; simp only [decide_eq_true_eq]

theorem sortByStart_sorted (l : List Shape) : Sorted (sortByStart l) := by
  rw [sorted_iff_pairwise_leStart]
  exact List.pairwise_mergeSort leStart_trans leStart_total l

theorem sortByStart_perm (l : List Shape) : (sortByStart l).Perm l := List.mergeSort_perm l leStart

theorem sortByStart_of_sorted {l : List Shape} (h : Sorted l) : sortByStart l = l :=
  List.mergeSort_of_pairwise ((sorted_iff_pairwise_leStart l).mp h)

theorem mem_sortByStart {l : List Shape} {x : Shape} : x ∈ sortByStart l ↔ x ∈ l := List.mem_mergeSort

theorem Sorted.sublist {l l' : List Shape} (h : Sorted l) (hs : l'.Sublist l) : Sorted l' :=
  List.Pairwise.sublist hs h

theorem Sorted.filter {l : List Shape} (h : Sorted l) (p : Shape → Bool) : Sorted (l.filter p) :=
  h.sublist List.filter_sublist

/-- stability, general form: a chronological sub-sequence of the input survives as a sub-sequence -/
theorem sortByStart_stable {l ys : List Shape} (hy : Sorted ys) (hs : ys.Sublist l) :
    ys.Sublist (sortByStart l) :=
  List.sublist_mergeSort leStart_trans leStart_total ((sorted_iff_pairwise_leStart ys).mp hy) hs

theorem all_timed_iff (l : List Shape) : l.all Shape.timed = true ↔ ∀ x ∈ l, x.dt ≠ none := by
  simp [Shape.timed, Option.isSome_iff_ne_none]

theorem mkTrack_ok {l : List Shape} (h : ∀ x ∈ l, x.dt ≠ none) :
    mkTrack l = .ok ⟨.track, sortByStart l⟩ := by
  unfold mkTrack; rw [if_pos ((all_timed_iff l).mpr h)]

theorem mkTrack_sorted_id {l : List Shape} (h : ∀ x ∈ l, x.dt ≠ none) (hs : Sorted l) :
    mkTrack l = .ok ⟨.track, l⟩ := by
  rw [mkTrack_ok h, sortByStart_of_sorted hs]

theorem mkTrack_error {l : List Shape} (h : ¬ ∀ x ∈ l, x.dt ≠ none) : mkTrack l = .error "ERR:Value" := by
  unfold mkTrack; rw [if_neg]; rwa [all_timed_iff]

theorem mkTrack_inv {l : List Shape} {t : Coll} (h : mkTrack l = .ok t) :
    (∀ x ∈ l, x.dt ≠ none) ∧ t = ⟨.track, sortByStart l⟩ := by
  by_cases ht : ∀ x ∈ l, x.dt ≠ none
  · rw [mkTrack_ok ht] at h; exact ⟨ht, (Except.ok.inj h).symm⟩
  · rw [mkTrack_error ht] at h; cases h

/-! ### `min` / `max` -/

theorem foldl_min_spec (xs : List Rat) (x : Rat) :
    let m := xs.foldl (fun m y => if y < m then y else m) x
    (m = x ∨ m ∈ xs) ∧ m ≤ x ∧ ∀ y ∈ xs, m ≤ y := by
  induction xs generalizing x with
  | nil => simp
  | cons a as ih =>
    simp only [List.foldl_cons, List.mem_cons, forall_eq_or_imp]
    have := ih (if a < x then a else x)
    simp only at this
    obtain ⟨h1, h2, h3⟩ := this
    by_cases hax : a < x
    · simp only [hax, if_true] at h1 h2 h3 ⊢
      refine ⟨?_, le_trans h2 (le_of_lt hax), h2, h3⟩
      rcases h1 with h | h
      · right; left; exact h
      · right; right; exact h
    · simp only [hax, if_false] at h1 h2 h3 ⊢
      refine ⟨?_, h2, le_trans h2 (not_lt.mp hax), h3⟩
      rcases h1 with h | h
      · left; exact h
      · right; right; exact h

theorem foldl_max_spec (xs : List Rat) (x : Rat) :
    let m := xs.foldl (fun m y => if y > m then y else m) x
    (m = x ∨ m ∈ xs) ∧ x ≤ m ∧ ∀ y ∈ xs, y ≤ m := by
  induction xs generalizing x with
  | nil => simp
  | cons a as ih =>
    simp only [List.foldl_cons, List.mem_cons, forall_eq_or_imp]
    have := ih (if a > x then a else x)
    simp only at this
    obtain ⟨h1, h2, h3⟩ := this
    by_cases hax : a > x
    · simp only [hax, if_true] at h1 h2 h3 ⊢
      refine ⟨?_, le_trans (le_of_lt hax) h2, h2, h3⟩
      rcases h1 with h | h
      · right; left; exact h
      · right; right; exact h
    · simp only [hax, if_false] at h1 h2 h3 ⊢
      refine ⟨?_, h2, le_trans (not_lt.mp hax) h2, h3⟩
      rcases h1 with h | h
      · left; exact h
      · right; right; exact h

theorem pyMin_spec {l : List Rat} {m : Rat} (h : pyMin l = .ok m) : m ∈ l ∧ ∀ y ∈ l, m ≤ y := by
  cases l with
  | nil => cases h
  | cons x xs =>
    simp only [pyMin, Except.ok.injEq] at h
    have := foldl_min_spec xs x
    simp only [h] at this
    obtain ⟨h1, h2, h3⟩ := this
    refine ⟨?_, ?_⟩
    · rcases h1 with h | h
      · simp [h]
      · simp [h]
    · intro y hy
      rcases List.mem_cons.mp hy with rfl | hy
      · exact h2
      · exact h3 y hy

theorem pyMax_spec {l : List Rat} {m : Rat} (h : pyMax l = .ok m) : m ∈ l ∧ ∀ y ∈ l, y ≤ m := by
  cases l with
  | nil => cases h
  | cons x xs =>
    simp only [pyMax, Except.ok.injEq] at h
    have := foldl_max_spec xs x
    simp only [h] at this
    obtain ⟨h1, h2, h3⟩ := this
    refine ⟨?_, ?_⟩
    · rcases h1 with h | h
      · simp [h]
      · simp [h]
    · intro y hy
      rcases List.mem_cons.mp hy with rfl | hy
      · exact h2
      · exact h3 y hy

theorem pyMin_ok_of_ne_nil {l : List Rat} (h : l ≠ []) : ∃ m, pyMin l = .ok m := by
  cases l with
  | nil => exact absurd rfl h
  | cons x xs => exact ⟨_, rfl⟩

theorem pyMax_ok_of_ne_nil {l : List Rat} (h : l ≠ []) : ∃ m, pyMax l = .ok m := by
  cases l with
  | nil => exact absurd rfl h
  | cons x xs => exact ⟨_, rfl⟩

/-! ### the loop of `filter_by_property` -/

/-- the per-shape predicate of `filter_by_property`: the key is present and `func(value)` holds -/
def propHolds (key : String) (f : PVal → Bool) (x : Shape) : Bool :=
  match assocGet x.properties key with
  | none => false
  | some v => f v

theorem filterPropLoop_ok (key : String) (f : PVal → Bool) (l acc : List Shape)
    (h : ∀ x ∈ l, assocGet x.properties key ≠ none) :
    filterPropLoop key f l acc = .ok (acc ++ l.filter (propHolds key f)) := by
  induction l generalizing acc with
  | nil => simp [filterPropLoop]
  | cons x xs ih =>
    have hx := h x (List.mem_cons_self)
    have hxs : ∀ y ∈ xs, assocGet y.properties key ≠ none := fun y hy => h y (List.mem_cons_of_mem _ hy)
    cases hv : assocGet x.properties key with
    | none => exact absurd hv hx
    | some v =>
      simp only [filterPropLoop, hv]
      rw [ih _ hxs]
      by_cases hf : f v = true
      · simp [propHolds, hv, hf]
      · simp [propHolds, hv, hf]

theorem filterPropLoop_error (key : String) (f : PVal → Bool) (l acc : List Shape)
    (h : ∃ x ∈ l, assocGet x.properties key = none) :
    filterPropLoop key f l acc = .error "ERR:Key" := by
  induction l generalizing acc with
  | nil => obtain ⟨x, hx, _⟩ := h; cases hx
  | cons x xs ih =>
    cases hv : assocGet x.properties key with
    | none => simp [filterPropLoop, hv]
    | some v =>
      simp only [filterPropLoop, hv]
      apply ih
      obtain ⟨y, hy, hy'⟩ := h
      rcases List.mem_cons.mp hy with rfl | hy
      · rw [hv] at hy'; cases hy'
      · exact ⟨y, hy, hy'⟩

end GV.Coll
