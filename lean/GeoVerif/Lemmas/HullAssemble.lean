import GeoVerif.Lemmas.HullJunction

/-!
# Properties of the assembled ring `lower[:-1] + upper`, from the shape of the two chains
-/
namespace GV.Hull

variable {S L U : List Pt} {mn mx : Pt}

theorem Chains.ne (hc : Chains S L U mn mx) : mn ≠ mx :=
  fun e => lexLt_irrefl _ (e ▸ hc.lt)

theorem Chains.decompL (hc : Chains S L U mn mx) :
    ∃ l1 L2 L0 lp, L = mn :: l1 :: L2 ∧ L = L0 ++ [lp, mx] :=
  ends_decomp hc.Lhead hc.Llast hc.ne

theorem Chains.decompU (hc : Chains S L U mn mx) :
    ∃ u1 U2 U0 up, U = mx :: u1 :: U2 ∧ U = U0 ++ [up, mn] :=
  ends_decomp hc.Uhead hc.Ulast (Ne.symm hc.ne)

theorem dropLast_two (L0 : List Pt) (a b : Pt) : (L0 ++ [a, b]).dropLast = L0 ++ [a] := by
  have : L0 ++ [a, b] = (L0 ++ [a]) ++ [b] := by simp
  rw [this, List.dropLast_concat]

/-- the second vertex of the ring is the second vertex of the lower chain -/
theorem ring_second {L2 L0 : List Pt} {l1 lp u1 : Pt} {U2 : List Pt}
    (e1 : mn :: l1 :: L2 = L0 ++ [lp, mx]) :
    ((L0 ++ [lp] ++ mx :: u1 :: U2).drop 1).take 1 = [l1] ∧
      (L0 ++ [lp] ++ mx :: u1 :: U2).head? = some mn := by
  match L0, e1 with
  | [], e1 =>
    simp only [List.nil_append, List.cons.injEq] at e1
    obtain ⟨rfl, rfl, _⟩ := e1
    simp
  | [x], e1 =>
    simp only [List.cons_append, List.nil_append, List.cons.injEq] at e1
    obtain ⟨rfl, rfl, _⟩ := e1
    simp
  | x :: y :: r, e1 =>
    simp only [List.cons_append, List.cons.injEq] at e1
    obtain ⟨rfl, rfl, _⟩ := e1
    simp

/-- **closed**: the ring starts and ends at the lexicographic minimum; it has ≥ 3 entries -/
theorem ring_closed (hc : Chains S L U mn mx) :
    (L.dropLast ++ U).head? = some mn ∧ (L.dropLast ++ U).getLast? = some mn ∧
      3 ≤ (L.dropLast ++ U).length := by
  obtain ⟨l1, L2, L0, lp, eL1, eL2⟩ := hc.decompL
  obtain ⟨u1, U2, U0, up, eU1, eU2⟩ := hc.decompU
  refine ⟨?_, ?_, ?_⟩
  · rw [eL2, dropLast_two, eU1]
    exact (ring_second (eL1 ▸ eL2)).2
  · rw [List.getLast?_append, hc.Ulast]; rfl
  · rw [eL2, dropLast_two, eU1]; simp; omega

/-- **strict left turn at every vertex, cyclically**, unless all points are collinear -/
theorem ring_cyc_turns (hc : Chains S L U mn mx) (hnc : ¬ Collinear S) :
    Turns (cyc (L.dropLast ++ U)) := by
  obtain ⟨l1, L2, L0, lp, eL1, eL2⟩ := hc.decompL
  obtain ⟨u1, U2, U0, up, eU1, eU2⟩ := hc.decompU
  have j1 := junction_max hc hnc eL2 eU1
  have j2 := junction_min hc hnc eU2 eL1
  have hL := hc.Lturns; rw [eL2] at hL
  have hU := hc.Uturns; rw [eU1] at hU
  have := ring_turns (eU1 ▸ eU2) hL hU j1 j2
  unfold cyc
  rw [eL2, dropLast_two, eU1, (ring_second (eL1 ▸ eL2)).1]
  exact this

theorem mem_pred {l : List Pt} {x : Pt} (hx : x ∈ l) (hh : l.head? ≠ some x) :
    ∃ X c Y, l = X ++ c :: x :: Y := by
  obtain ⟨s, t, rfl⟩ := List.append_of_mem hx
  rcases List.eq_nil_or_concat s with rfl | ⟨s', c, rfl⟩
  · simp at hh
  · exact ⟨s', c, t, by simp⟩

theorem mem_interior {l : List Pt} {x : Pt} (hx : x ∈ l) (hh : l.head? ≠ some x)
    (hl : l.getLast? ≠ some x) : ∃ X a b Y, l = X ++ a :: x :: b :: Y := by
  obtain ⟨X, a, Y, rfl⟩ := mem_pred hx hh
  match Y with
  | [] => simp at hl
  | b :: Y' => exact ⟨X, a, b, Y', rfl⟩

/-- **no repeated vertex**: the open ring `ring[:-1]` has no duplicates -/
theorem ring_nodup (hc : Chains S L U mn mx) : (L.dropLast ++ U).dropLast.Nodup := by
  obtain ⟨l1, L2, L0, lp, eL1, eL2⟩ := hc.decompL
  obtain ⟨u1, U2, U0, up, eU1, eU2⟩ := hc.decompU
  have hUne : U ≠ [] := by rw [eU1]; simp
  rw [List.dropLast_append_of_ne_nil hUne]
  have nL : L.Nodup := hc.Lasc.imp (fun {a b} h => by rintro rfl; exact lexLt_irrefl _ h)
  have nU : U.Nodup := hc.Udesc.imp (fun {a b} h => by rintro rfl; exact lexLt_irrefl _ h)
  rw [List.nodup_append]
  refine ⟨nL.sublist (List.dropLast_sublist _), nU.sublist (List.dropLast_sublist _), ?_⟩
  intro x hxL y hyU hxy
  subst hxy
  -- x is strictly between mn and mx, so it is interior to both chains
  have hxmx : lexLt x mx := by
    rw [eL2, dropLast_two] at hxL
    have := hc.Lasc; rw [eL2] at this
    have e : L0 ++ [lp, mx] = (L0 ++ [lp]) ++ [mx] := by simp
    rw [e, List.pairwise_append] at this
    exact this.2.2 x hxL mx (by simp)
  have hmnx : lexLt mn x := by
    rw [eU2, dropLast_two] at hyU
    have := hc.Udesc; rw [eU2] at this
    have e : U0 ++ [up, mn] = (U0 ++ [up]) ++ [mn] := by simp
    rw [e, List.pairwise_append] at this
    exact this.2.2 x hyU mn (by simp)
  have hxL' : x ∈ L := List.mem_of_mem_dropLast hxL
  have hxU' : x ∈ U := List.mem_of_mem_dropLast hyU
  obtain ⟨X, a, b, Y, eL⟩ := mem_interior hxL'
    (by rw [hc.Lhead]; intro e; injection e with e; exact lexLt_irrefl _ (e ▸ hmnx))
    (by rw [hc.Llast]; intro e; injection e with e; exact lexLt_irrefl _ (e ▸ hxmx))
  obtain ⟨X', c, Y', eU⟩ := mem_pred hxU'
    (by rw [hc.Uhead]; intro e; injection e with e; exact lexLt_irrefl _ (e ▸ hxmx))
  have hax : lexLt a x := by
    have := hc.Lasc; rw [eL, List.pairwise_append] at this
    exact (List.pairwise_cons.mp this.2.1).1 x (by simp)
  have hxc : lexLt x c := by
    have := hc.Udesc; rw [eU, List.pairwise_append] at this
    exact (List.pairwise_cons.mp this.2.1).1 x (by simp)
  have haS : a ∈ S := hc.Lsub a (by rw [eL]; simp)
  have hbS : b ∈ S := hc.Lsub b (by rw [eL]; simp)
  have hcS : c ∈ S := hc.Usub c (by rw [eU]; simp)
  exact no_double hax hxc (turns_infix hc.Lturns eL)
    (contains_infix (hc.Lcont c hcS) (X := X) (Y := b :: Y) eL)
    (contains_infix (hc.Ucont a haS) eU)
    (contains_infix (hc.Ucont b hbS) eU)

/-- **all collinear**: the ring degenerates to `[min, max, min]` -/
theorem ring_collinear (hc : Chains S L U mn mx) (hcol : Collinear S) :
    L.dropLast ++ U = [mn, mx, mn] := by
  obtain ⟨l1, L2, L0, lp, eL1, eL2⟩ := hc.decompL
  obtain ⟨u1, U2, U0, up, eU1, eU2⟩ := hc.decompU
  have hL2 : L2 = [] := by
    match L2, eL1 with
    | [], _ => rfl
    | c :: r, eL1 =>
      exfalso
      have h := hc.Lturns; rw [eL1] at h
      have := hcol mn (hc.Lsub _ (by rw [eL1]; simp)) l1 (hc.Lsub _ (by rw [eL1]; simp))
        c (hc.Lsub _ (by rw [eL1]; simp))
      exact absurd h.1 (by rw [this]; exact lt_irrefl _)
  have hU2 : U2 = [] := by
    match U2, eU1 with
    | [], _ => rfl
    | c :: r, eU1 =>
      exfalso
      have h := hc.Uturns; rw [eU1] at h
      have := hcol mx (hc.Usub _ (by rw [eU1]; simp)) u1 (hc.Usub _ (by rw [eU1]; simp))
        c (hc.Usub _ (by rw [eU1]; simp))
      exact absurd h.1 (by rw [this]; exact lt_irrefl _)
  subst hL2; subst hU2
  have h1 : l1 = mx := by
    have := hc.Llast; rw [eL1] at this; simpa using this
  have h2 : u1 = mn := by
    have := hc.Ulast; rw [eU1] at this; simpa using this
  rw [eL1, eU1, h1, h2]; rfl

end GV.Hull
