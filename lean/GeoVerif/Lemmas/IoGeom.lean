import GeoVerif.Lemmas.Io

/-!
# Geometry round trips through the ideal channels (helper lemmas for C20)
-/
namespace GV.Io

/-! ## stored rings -/

/-- what `GeoPolygon.__init__` leaves in `outline` for a polygon of positive area whose longitudes are
    in range: closed, strictly counter-clockwise -/
structure StoredRing (o : List Coord) : Prop where
  closed : Closed o
  range : InRange (o.map Coord.pt)
  strict : shoelace (o.map Coord.pt) < 0

theorem StoredRing.ccw {o : List Coord} (h : StoredRing o) : isCCW (o.map Coord.pt) = true := by
  unfold isCCW
  exact decide_eq_true (le_of_lt h.strict)

theorem StoredRing.rev_cw {o : List Coord} (h : StoredRing o) : isCCW (o.reverse.map Coord.pt) = false := by
  unfold isCCW
  rw [List.map_reverse, shoelace_reverse' _ h.range]
  apply decide_eq_false
  have := h.strict
  intro hle
  linarith

theorem StoredRing.ne_nil {o : List Coord} (h : StoredRing o) : o ≠ [] := by
  intro h0
  have := h.strict
  rw [h0] at this
  have h1 : shoelace (([] : List Coord).map Coord.pt) = 0 := rfl
  rw [h1] at this
  exact lt_irrefl _ this

theorem mkOutlineC_stored {o : List Coord} (h : StoredRing o) : mkOutlineC o = o := by
  rw [mkOutlineC_closed h.closed, h.ccw]; rfl

theorem mkOutlineC_stored_reverse {o : List Coord} (h : StoredRing o) : mkOutlineC o.reverse = o := by
  rw [mkOutlineC_closed (closed_reverse h.closed), h.rev_cw]
  simp

theorem mkPoly_linearRings {o : List Coord} {hs : List (List Coord)} (ho : StoredRing o)
    (hh : ∀ h ∈ hs, StoredRing h) : mkPoly (linearRings o hs) = .ok (o, hs) := by
  unfold mkPoly linearRings
  have h1 : o.isEmpty = false := by
    cases o with
    | nil => exact absurd rfl ho.ne_nil
    | cons _ _ => rfl
  have h2 : (hs.map List.reverse).any (·.isEmpty) = false := by
    rw [List.any_eq_false]
    intro x hx
    obtain ⟨h, hm, rfl⟩ := List.mem_map.mp hx
    have := (hh h hm).ne_nil
    cases h with
    | nil => exact absurd rfl this
    | cons a t => simp
  simp only [h1, h2, Bool.or_self, Bool.false_eq_true, if_false]
  rw [mkOutlineC_stored ho]
  congr 2
  rw [List.map_map]
  conv_rhs => rw [← List.map_id hs]
  apply List.map_congr_left
  intro h hm
  exact mkOutlineC_stored_reverse (hh h hm)

/-- the rings `to_pyshp` writes, read back in written order and passed to the constructors -/
theorem mkPoly_written {o : List Coord} {hs : List (List Coord)} (ho : StoredRing o)
    (hh : ∀ h ∈ hs, StoredRing h) : mkPoly (o.reverse :: hs) = .ok (o, hs) := by
  unfold mkPoly
  have h1 : o.reverse.isEmpty = false := by
    cases o with
    | nil => exact absurd rfl ho.ne_nil
    | cons a t => simp
  have h2 : hs.any (·.isEmpty) = false := by
    rw [List.any_eq_false]
    intro h hm
    have := (hh h hm).ne_nil
    cases h with
    | nil => exact absurd rfl this
    | cons a t => simp
  simp only [h1, h2, Bool.or_self, Bool.false_eq_true, if_false]
  rw [mkOutlineC_stored_reverse ho]
  congr 2
  conv_rhs => rw [← List.map_id hs]
  apply List.map_congr_left
  intro h hm
  exact mkOutlineC_stored (hh h hm)

/-! ## tuples -/

/-- a coordinate fits the writer method chosen for its shape -/
def Consistent (sfx : Sfx) (c : Coord) : Prop :=
  match sfx with
  | .z => c.z.isSome = true
  | .m => c.z = none ∧ c.m.isSome = true
  | .plain => c.z = none ∧ c.m = none

def splitC (sfx : Sfx) (c : Coord) : Pt × Option Rat × Option Rat :=
  (c.pt, (match sfx with | .z => c.z | _ => none), (match sfx with | .plain => none | _ => c.m))

theorem splitTuple_toFloat {sfx : Sfx} {c : Coord} (h : Consistent sfx c) :
    splitTuple sfx c.toFloat = splitC sfx c := by
  unfold splitC
  obtain ⟨lon, lat, z, m⟩ := c
  cases sfx
  · -- plain
    obtain ⟨hz, hm⟩ := h
    simp only at hz hm
    subst hz; subst hm
    simp [splitTuple, Coord.toFloat, Coord.pt]
  · -- z
    cases z with
    | none => simp [Consistent] at h
    | some zv =>
      cases m <;> simp [splitTuple, Coord.toFloat, Coord.pt]
  · -- m
    obtain ⟨hz, hm⟩ := h
    simp only at hz hm
    subst hz
    cases m with
    | none => simp at hm
    | some mv => simp [splitTuple, Coord.toFloat, Coord.pt]

theorem coordOfTuple_toFloat {c : Coord} (h : c.m = none) : coordOfTuple c.toFloat = .ok c := by
  obtain ⟨lon, lat, z, m⟩ := c
  simp only at h
  subst h
  cases z <;> simp [coordOfTuple, Coord.toFloat]

theorem mapExcept_ok {α β} (f : α → Except String β) (g : α → β) :
    ∀ (l : List α), (∀ a ∈ l, f a = .ok (g a)) → mapExcept f l = .ok (l.map g)
  | [], _ => rfl
  | a :: as, h => by
    have h1 := h a (by simp)
    have ih := mapExcept_ok f g as (fun x hx => h x (List.mem_cons_of_mem _ hx))
    simp only [mapExcept, h1, ih, List.map_cons]
    rfl

theorem ringOfTuples_toFloat {r : List Coord} (h : ∀ c ∈ r, c.m = none) :
    ringOfTuples (r.map Coord.toFloat) = .ok r := by
  unfold ringOfTuples
  have := mapExcept_ok coordOfTuple (fun t => (coordOfTuple t).toOption.getD ⟨0, 0, none, none⟩)
    (r.map Coord.toFloat) (by
      intro t ht
      obtain ⟨c, hc, rfl⟩ := List.mem_map.mp ht
      rw [coordOfTuple_toFloat (h c hc)]
      rfl)
  rw [this, List.map_map]
  congr 1
  conv_rhs => rw [← List.map_id r]
  apply List.map_congr_left
  intro c hc
  simp [coordOfTuple_toFloat (h c hc), Except.toOption]

theorem ringsOfTuples_toFloat {rs : List (List Coord)} (h : ∀ r ∈ rs, ∀ c ∈ r, c.m = none) :
    mapExcept ringOfTuples (rs.map (·.map Coord.toFloat)) = .ok rs := by
  have := mapExcept_ok ringOfTuples (fun r => (ringOfTuples r).toOption.getD [])
    (rs.map (·.map Coord.toFloat)) (by
      intro t ht
      obtain ⟨r, hr, rfl⟩ := List.mem_map.mp ht
      rw [ringOfTuples_toFloat (h r hr)]
      rfl)
  rw [this, List.map_map]
  congr 1
  conv_rhs => rw [← List.map_id rs]
  apply List.map_congr_left
  intro r hr
  simp [ringOfTuples_toFloat (h r hr), Except.toOption]

/-! ## Z / M lists for any writer method -/

def zChan (b : Bool) (l : List (Option Rat)) : ZList := if b then some l else none

theorem readRing_gen (bz bm : Bool) : ∀ (cs : List Coord) (zr mr : List (Option Rat)),
    (bz = false → ∀ c ∈ cs, c.z = none) → (bm = false → ∀ c ∈ cs, c.m = none) →
    readRing (cs.map Coord.pt) (zChan bz (zOf cs ++ zr)) (zChan bm (mOf cs ++ mr))
      = (cs, zChan bz zr, zChan bm mr)
  | [], zr, mr, _, _ => by simp [readRing, zOf, mOf]
  | c :: cs, zr, mr, hz, hm => by
    have ih := readRing_gen bz bm cs zr mr (fun h x hx => hz h x (List.mem_cons_of_mem _ hx))
      (fun h x hx => hm h x (List.mem_cons_of_mem _ hx))
    obtain ⟨lon, lat, z, m⟩ := c
    cases bz <;> cases bm
    · have h1 := hz rfl ⟨lon, lat, z, m⟩ (by simp)
      have h2 := hm rfl ⟨lon, lat, z, m⟩ (by simp)
      simp only at h1 h2
      subst h1; subst h2
      simp only [zChan, Bool.false_eq_true, if_false, List.map_cons, readRing, popOpt] at ih ⊢
      rw [ih]; rfl
    · have h1 := hz rfl ⟨lon, lat, z, m⟩ (by simp)
      simp only at h1
      subst h1
      simp only [zChan, Bool.false_eq_true, if_false, if_true, List.map_cons, readRing, popOpt, mOf,
        List.cons_append] at ih ⊢
      rw [ih]; rfl
    · have h2 := hm rfl ⟨lon, lat, z, m⟩ (by simp)
      simp only at h2
      subst h2
      simp only [zChan, Bool.false_eq_true, if_false, if_true, List.map_cons, readRing, popOpt, zOf,
        List.cons_append] at ih ⊢
      rw [ih]; rfl
    · simp only [zChan, if_true, List.map_cons, readRing, popOpt, zOf, mOf, List.cons_append] at ih ⊢
      rw [ih]; rfl

theorem readRings_gen (bz bm : Bool) : ∀ (rs : List (List Coord)) (zr mr : List (Option Rat)),
    (bz = false → ∀ c ∈ rs.flatten, c.z = none) → (bm = false → ∀ c ∈ rs.flatten, c.m = none) →
    readRings (rs.map (·.map Coord.pt)) (zChan bz (zOf rs.flatten ++ zr)) (zChan bm (mOf rs.flatten ++ mr))
      = (rs, zChan bz zr, zChan bm mr)
  | [], zr, mr, _, _ => by simp [readRings, zOf, mOf]
  | r :: rs, zr, mr, hz, hm => by
    have ih := readRings_gen bz bm rs zr mr
      (fun h x hx => hz h x (by simp only [List.flatten_cons, List.mem_append]; exact Or.inr hx))
      (fun h x hx => hm h x (by simp only [List.flatten_cons, List.mem_append]; exact Or.inr hx))
    have h1 := readRing_gen bz bm r (zOf rs.flatten ++ zr) (mOf rs.flatten ++ mr)
      (fun h x hx => hz h x (by simp only [List.flatten_cons, List.mem_append]; exact Or.inl hx))
      (fun h x hx => hm h x (by simp only [List.flatten_cons, List.mem_append]; exact Or.inl hx))
    simp only [zOf, mOf, List.map_cons, List.flatten_cons, List.map_append, List.append_assoc, readRings] at ih h1 ⊢
    rw [h1]
    simp only []
    rw [ih]

theorem readPolys_gen (bz bm : Bool) : ∀ (ps : List (List (List Coord))) (zr mr : List (Option Rat)),
    (bz = false → ∀ c ∈ ps.flatten.flatten, c.z = none) → (bm = false → ∀ c ∈ ps.flatten.flatten, c.m = none) →
    readPolys (ps.map (·.map (·.map Coord.pt))) (zChan bz (zOf ps.flatten.flatten ++ zr))
        (zChan bm (mOf ps.flatten.flatten ++ mr))
      = (ps, zChan bz zr, zChan bm mr)
  | [], zr, mr, _, _ => by simp [readPolys, zOf, mOf]
  | p :: ps, zr, mr, hz, hm => by
    have ih := readPolys_gen bz bm ps zr mr
      (fun h x hx => hz h x (by simp only [List.flatten_cons, List.flatten_append, List.mem_append]; exact Or.inr hx))
      (fun h x hx => hm h x (by simp only [List.flatten_cons, List.flatten_append, List.mem_append]; exact Or.inr hx))
    have h1 := readRings_gen bz bm p (zOf ps.flatten.flatten ++ zr) (mOf ps.flatten.flatten ++ mr)
      (fun h x hx => hz h x (by simp only [List.flatten_cons, List.flatten_append, List.mem_append]; exact Or.inl hx))
      (fun h x hx => hm h x (by simp only [List.flatten_cons, List.flatten_append, List.mem_append]; exact Or.inl hx))
    simp only [zOf, mOf, List.map_cons, List.flatten_cons, List.map_append, List.flatten_append, List.append_assoc,
      readPolys] at ih h1 ⊢
    rw [h1]
    simp only []
    rw [ih]

end GV.Io
