import GeoVerif.Model.Io
import Mathlib.Tactic.Tauto

/-!
# Dictionary lemmas (association lists with Python `dict` insertion semantics) — helpers for C20
-/
namespace GV.Io

variable {α β : Type}

def keys (d : Dict α) : List String := d.map (·.1)

theorem dictGet_nil (k : String) : dictGet ([] : Dict α) k = none := rfl

theorem dictGet_cons (k' : String) (v' : α) (rest : Dict α) (k : String) :
    dictGet ((k', v') :: rest) k = if k' = k then some v' else dictGet rest k := by
  unfold dictGet
  by_cases h : k' = k
  · simp [List.find?_cons, h]
  · simp [List.find?_cons, h]

theorem dictGet_mem {d : Dict α} {k : String} {v : α} (h : dictGet d k = some v) : (k, v) ∈ d := by
  induction d with
  | nil => simp [dictGet_nil] at h
  | cons kv rest ih =>
    obtain ⟨k', v'⟩ := kv
    rw [dictGet_cons] at h
    by_cases hk : k' = k
    · simp only [hk, if_true, Option.some.injEq] at h
      subst hk; subst h
      exact List.mem_cons_self
    · simp only [hk, if_false] at h
      exact List.mem_cons_of_mem _ (ih h)

theorem dictGet_isSome_of_mem_keys {d : Dict α} {k : String} (h : k ∈ keys d) : (dictGet d k).isSome = true := by
  induction d with
  | nil => simp [keys] at h
  | cons kv rest ih =>
    obtain ⟨k', v'⟩ := kv
    rw [dictGet_cons]
    by_cases hk : k' = k
    · simp [hk]
    · simp only [hk, if_false]
      apply ih
      simp only [keys, List.map_cons, List.mem_cons] at h
      rcases h with h | h
      · exact absurd h.symm hk
      · exact h

theorem dictGet_none_of_not_mem_keys {d : Dict α} {k : String} (h : k ∉ keys d) : dictGet d k = none := by
  induction d with
  | nil => rfl
  | cons kv rest ih =>
    obtain ⟨k', v'⟩ := kv
    rw [dictGet_cons]
    simp only [keys, List.map_cons, List.mem_cons, not_or] at h
    have hk : ¬ k' = k := fun e => h.1 e.symm
    simp only [hk, if_false]
    exact ih h.2

theorem dictGet_dictSet_same (d : Dict α) (k : String) (v : α) : dictGet (dictSet d k v) k = some v := by
  induction d with
  | nil => simp [dictSet, dictGet_cons]
  | cons kv rest ih =>
    obtain ⟨k', v'⟩ := kv
    by_cases hk : k' = k
    · simp [dictSet, hk, dictGet_cons]
    · have : (k' == k) = false := by simpa using hk
      simp [dictSet, this, dictGet_cons, hk, ih]

theorem dictGet_dictSet_other (d : Dict α) (k : String) (v : α) (k2 : String) (h : k ≠ k2) :
    dictGet (dictSet d k v) k2 = dictGet d k2 := by
  induction d with
  | nil => simp [dictSet, dictGet_cons, h, dictGet_nil]
  | cons kv rest ih =>
    obtain ⟨k', v'⟩ := kv
    by_cases hk : k' = k
    · subst hk
      simp [dictSet, dictGet_cons, h]
    · have : (k' == k) = false := by simpa using hk
      simp only [dictSet, this, Bool.false_eq_true, if_false, dictGet_cons, ih]

theorem keys_dictSet (d : Dict α) (k : String) (v : α) (k2 : String) :
    k2 ∈ keys (dictSet d k v) ↔ k2 = k ∨ k2 ∈ keys d := by
  induction d with
  | nil => simp [dictSet, keys]
  | cons kv rest ih =>
    obtain ⟨k', v'⟩ := kv
    by_cases hk : k' = k
    · subst hk
      simp [dictSet, keys]
    · have : (k' == k) = false := by simpa using hk
      simp only [dictSet, this, Bool.false_eq_true, if_false, keys, List.map_cons, List.mem_cons] at ih ⊢
      rw [ih]
      tauto

theorem mem_dictSet {d : Dict α} {k : String} {v : α} {k2 : String} {v2 : α}
    (h : (k2, v2) ∈ dictSet d k v) : (k2 = k ∧ v2 = v) ∨ (k2, v2) ∈ d := by
  induction d with
  | nil => simp [dictSet] at h; exact Or.inl h
  | cons kv rest ih =>
    obtain ⟨k', v'⟩ := kv
    by_cases hk : k' = k
    · subst hk
      simp only [dictSet, beq_self_eq_true, if_true, List.mem_cons, Prod.mk.injEq] at h
      rcases h with h | h
      · exact Or.inl h
      · exact Or.inr (List.mem_cons_of_mem _ h)
    · have : (k' == k) = false := by simpa using hk
      simp only [dictSet, this, Bool.false_eq_true, if_false, List.mem_cons] at h
      rcases h with h | h
      · exact Or.inr (by rw [h]; exact List.mem_cons_self)
      · rcases ih h with h | h
        · exact Or.inl h
        · exact Or.inr (List.mem_cons_of_mem _ h)

theorem keys_foldl (pairs : List (String × α)) : ∀ (d : Dict α) (k : String),
    k ∈ keys (pairs.foldl (fun d kv => dictSet d kv.1 kv.2) d) ↔ k ∈ pairs.map (·.1) ∨ k ∈ keys d := by
  induction pairs with
  | nil => intro d k; simp
  | cons p ps ih =>
    intro d k
    simp only [List.foldl_cons, List.map_cons, List.mem_cons]
    rw [ih, keys_dictSet]
    tauto

theorem mem_foldl (pairs : List (String × α)) : ∀ (d : Dict α) (k : String) (v : α),
    (k, v) ∈ pairs.foldl (fun d kv => dictSet d kv.1 kv.2) d → (k, v) ∈ pairs ∨ (k, v) ∈ d := by
  induction pairs with
  | nil => intro d k v h; exact Or.inr h
  | cons p ps ih =>
    intro d k v h
    simp only [List.foldl_cons] at h
    rcases ih _ k v h with h | h
    · exact Or.inl (List.mem_cons_of_mem _ h)
    · rcases mem_dictSet h with ⟨h1, h2⟩ | h
      · left
        have : (k, v) = p := by rw [h1, h2]
        rw [this]; exact List.mem_cons_self
      · exact Or.inr h

theorem keys_dictOf (pairs : List (String × α)) (k : String) :
    k ∈ keys (dictOf pairs) ↔ k ∈ pairs.map (·.1) := by
  unfold dictOf
  rw [keys_foldl]
  simp [keys]

theorem mem_dictOf {pairs : List (String × α)} {k : String} {v : α} (h : (k, v) ∈ dictOf pairs) :
    (k, v) ∈ pairs := by
  unfold dictOf at h
  rcases mem_foldl pairs [] k v h with h | h
  · exact h
  · simp at h

/-- `dictDel` -/
theorem dictGet_dictDel_ne (d : Dict α) (x k : String) (h : k ≠ x) : dictGet (dictDel d x) k = dictGet d k := by
  induction d with
  | nil => rfl
  | cons kv rest ih =>
    obtain ⟨k', v'⟩ := kv
    unfold dictDel at ih ⊢
    by_cases hx : k' = x
    · subst hx
      have hk : ¬ k' = k := fun e => h e.symm
      simp [List.filter_cons, dictGet_cons, hk, ih]
    · have : (k' != x) = true := by simpa using hx
      simp only [List.filter_cons, this, if_true, dictGet_cons, ih]

/-- look-up in a list whose keys were renamed by a function that does not identify `k` with another key -/
theorem dictGet_map_rename (tm : Dict β) (f : String → String) (g : String × β → α) (k : String)
    (hinj : ∀ kt ∈ tm, f kt.1 = f k → kt.1 = k) :
    dictGet (tm.map fun kt => (f kt.1, g kt)) (f k) = (tm.find? (·.1 == k)).map g := by
  induction tm with
  | nil => rfl
  | cons kt rest ih =>
    have ih' := ih (fun x hx => hinj x (List.mem_cons_of_mem _ hx))
    simp only [List.map_cons, dictGet_cons, List.find?_cons]
    by_cases hk : kt.1 = k
    · simp [hk]
    · have h1 : ¬ f kt.1 = f k := fun e => hk (hinj kt List.mem_cons_self e)
      have h2 : (kt.1 == k) = false := by simpa using hk
      simp only [h1, if_false, h2, ih']

theorem dictGet_append (d1 d2 : Dict α) (k : String) :
    dictGet (d1 ++ d2) k = (dictGet d1 k).or (dictGet d2 k) := by
  induction d1 with
  | nil => simp [dictGet_nil]
  | cons kv rest ih =>
    obtain ⟨k', v'⟩ := kv
    simp only [List.cons_append, dictGet_cons, ih]
    by_cases hk : k' = k <;> simp [hk]

theorem find?_eq_dictGet (tm : Dict β) (k : String) (g : String × β → α) :
    (tm.find? (·.1 == k)).map g = (tm.find? (·.1 == k)).map g := rfl

theorem find?_key {tm : Dict β} {k : String} {kt : String × β} (h : tm.find? (·.1 == k) = some kt) :
    kt.1 = k ∧ kt ∈ tm := by
  have h1 := List.find?_some h
  have h2 := List.mem_of_find?_eq_some h
  exact ⟨by simpa using h1, h2⟩

theorem find?_isSome_of_mem_keys {tm : Dict β} {k : String} (h : k ∈ keys tm) :
    ∃ kt, tm.find? (·.1 == k) = some kt := by
  have := dictGet_isSome_of_mem_keys h
  unfold dictGet at this
  cases hf : tm.find? (·.1 == k) with
  | none => simp [hf] at this
  | some kt => exact ⟨kt, rfl⟩

end GV.Io
