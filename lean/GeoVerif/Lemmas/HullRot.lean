import GeoVerif.Lemmas.HullUnique

/-!
# Uniqueness up to the start vertex

Any ring satisfying the laws (wherever it starts) passes through the lexicographic minimum of the
inputs; re-started there it is a successor chain, hence equal to every other such chain.
-/
namespace GV.Hull

theorem exists_lexMin : ∀ (l : List Pt), l ≠ [] → ∃ v, IsLexMin l v
  | [x], _ => ⟨x, by simp, fun q hq => by simp at hq; exact Or.inl hq⟩
  | x :: y :: t, _ => by
    obtain ⟨v, hv, hmin⟩ := exists_lexMin (y :: t) (by simp)
    rcases lexLt_trichotomy x v with h | h | h
    · refine ⟨x, by simp, fun q hq => ?_⟩
      rcases List.mem_cons.mp hq with e | hq'
      · exact Or.inl e
      · rcases hmin q hq' with e | l
        · exact Or.inr (e ▸ h)
        · exact Or.inr (lexLt_trans h l)
    · subst h
      exact ⟨x, by simp, fun q hq => by
        rcases List.mem_cons.mp hq with e | hq'
        · exact Or.inl e
        · exact hmin q hq'⟩
    · refine ⟨v, List.mem_cons_of_mem _ hv, fun q hq => ?_⟩
      rcases List.mem_cons.mp hq with e | hq'
      · exact Or.inr (e ▸ h)
      · exact hmin q hq'

/-- the lexicographically smallest ring vertex has both neighbours lex-above it; an input point
    lex-below it cannot be on or left of both incident edges -/
theorem min_vertex_contra {a v b m : Pt} (hva : lexLt v a) (hvb : lexLt v b) (hmv : lexLt m v)
    (ht : 0 < cross a v b) (h1 : 0 ≤ cross a v m) (h2 : 0 ≤ cross v b m) : False := by
  have hu := lexPos_vsub hva
  have hw := lexPos_vsub hvb
  have he := lexPos_vsub hmv
  have e1 : cross a v b = - vx (vsub a v) (vsub b v) := by unfold cross vx vsub; ring
  have e2 : cross a v m = vx (vsub a v) (vsub v m) := by unfold cross vx vsub; ring
  have e3 : cross v b m = vx (vsub v m) (vsub b v) := by unfold cross vx vsub; ring
  have := vx_trans hu he hw (by rw [← e2]; exact h1) (by rw [← e3]; exact h2)
  linarith

/-- every ring vertex is the centre of a consecutive triple of `cyc ring` -/
theorem center_triple {ring : List Pt} (hclosed : ring.head? = ring.getLast?) (hlong : 3 ≤ ring.length)
    {v : Pt} (hv : v ∈ ring) :
    ∃ X a b Y, cyc ring = X ++ a :: v :: b :: Y ∧ a ∈ ring ∧ b ∈ ring := by
  match ring, hclosed, hlong, hv with
  | r0 :: r1 :: rest, hclosed, _, hv =>
    have hc : cyc (r0 :: r1 :: rest) = r0 :: ((r1 :: rest) ++ [r1]) := by simp [cyc]
    have hvt : v ∈ r1 :: rest := by
      rcases List.mem_cons.mp hv with e | h
      · rw [List.head?_cons, List.getLast?_cons_cons] at hclosed
        rw [e]; exact List.mem_of_getLast? hclosed.symm
      · exact h
    obtain ⟨P, Q, hPQ⟩ := List.append_of_mem hvt
    rcases List.eq_nil_or_concat (r0 :: P) with h | ⟨P', a, hP'⟩
    · simp at h
    · have hQ : ∃ b Q', Q ++ [r1] = b :: Q' := by
        match Q with
        | [] => exact ⟨r1, [], rfl⟩
        | b :: Q'' => exact ⟨b, Q'' ++ [r1], rfl⟩
      obtain ⟨b, Q', hQ'⟩ := hQ
      refine ⟨P', a, b, Q', ?_, ?_, ?_⟩
      · rw [hc, hPQ]
        have : r0 :: (P ++ v :: Q ++ [r1]) = (r0 :: P) ++ v :: (Q ++ [r1]) := by simp
        rw [this, hP', hQ']; simp
      · have : a ∈ r0 :: P := by rw [hP']; simp
        rcases List.mem_cons.mp this with e | h
        · rw [e]; simp
        · exact List.mem_cons_of_mem _ (by rw [hPQ]; exact List.mem_append_left _ h)
      · have : b ∈ Q ++ [r1] := by rw [hQ']; simp
        rcases List.mem_append.mp this with h | h
        · exact List.mem_cons_of_mem _ (by rw [hPQ]; simp [h])
        · simp at h; rw [h]; simp

/-- a ring satisfying the laws passes through the lexicographic minimum of the inputs -/
theorem IsConvexRing.mem_lexMin {pts ring : List Pt} (h : IsConvexRing pts ring) {m : Pt}
    (hm : IsLexMin pts m) : m ∈ ring := by
  have hne : ring ≠ [] := by
    intro e; have := h.long; rw [e] at this; simp at this
  obtain ⟨v, hv, hvmin⟩ := exists_lexMin ring hne
  obtain ⟨X, a, b, Y, e, ha, hb⟩ := center_triple h.closed h.long hv
  have ht : 0 < cross a v b := turns_infix h.turns e
  have hav : a ≠ v := by
    rintro rfl
    have : cross a a b = 0 := by unfold cross; ring
    rw [this] at ht; exact lt_irrefl _ ht
  have hbv : b ≠ v := by
    rintro rfl
    have : cross a b b = 0 := by unfold cross; ring
    rw [this] at ht; exact lt_irrefl _ ht
  have hva : lexLt v a := by
    rcases hvmin a ha with e' | l
    · exact absurd e' hav
    · exact l
  have hvb : lexLt v b := by
    rcases hvmin b hb with e' | l
    · exact absurd e' hbv
    · exact l
  rcases hm.2 v (h.sub v hv) with e' | l
  · rw [← e']; exact hv
  · exfalso
    have hc := h.contains_cyc m hm.1
    exact min_vertex_contra hva hvb l ht
      (contains_infix hc (X := X) (Y := b :: Y) e)
      (contains_infix hc (X := X ++ [a]) (Y := Y) (by rw [e]; simp))

/-- **uniqueness up to the start vertex**: the open ring of any ring satisfying the laws is a
    rotation `X ++ Y` ↦ `Y ++ X` of the open ring of any hull ring (one that starts at the minimum) -/
theorem ring_unique_rot {pts R H : List Pt} (hnc : ¬ Collinear pts)
    (h : IsConvexRing pts R) (hH : IsHullRing pts H) :
    ∃ X Y, R.dropLast = X ++ Y ∧ H.dropLast = Y ++ X := by
  obtain ⟨m, hm, hHm⟩ := hH.start
  have hmR := h.mem_lexMin hm
  -- R = D ++ [r0] with D = R.dropLast starting at r0
  have hRne : R ≠ [] := by intro e; have := h.long; rw [e] at this; simp at this
  obtain ⟨r0, hr0⟩ : ∃ r0, R.getLast? = some r0 := by
    cases hl : R.getLast? with
    | none => simp [List.getLast?_eq_none_iff] at hl; exact absurd hl hRne
    | some x => exact ⟨x, rfl⟩
  have hRD : R = R.dropLast ++ [r0] := by
    obtain ⟨ys, hys⟩ := List.getLast?_eq_some_iff.mp hr0
    rw [hys]; simp
  have hDhead : R.dropLast.head? = some r0 := by
    have hl := h.long
    match R, h.closed, hr0, hl with
    | x :: y :: t, hc, hr0, _ =>
      rw [List.head?_cons] at hc
      rw [hr0] at hc
      simp only [List.dropLast_cons_cons, List.head?_cons]
      exact hc
  have hmD : m ∈ R.dropLast := by
    rw [hRD] at hmR
    rcases List.mem_append.mp hmR with h' | h'
    · exact h'
    · simp at h'; rw [h']; exact List.mem_of_head? hDhead
  obtain ⟨X, Y', hD⟩ := List.append_of_mem hmD
  refine ⟨X, m :: Y', hD, ?_⟩
  -- the re-started ring
  have cR := h.succ_chain
  rw [hRD, hD] at cR
  have cR' : List.IsChain (Succ pts) (X ++ ((m :: Y') ++ [r0])) := by simpa using cR
  have c1 : List.IsChain (Succ pts) ((m :: Y') ++ [r0]) := cR'.suffix (List.suffix_append _ _)
  have c2 : List.IsChain (Succ pts) (X ++ [m]) :=
    cR'.prefix ⟨Y' ++ [r0], by simp⟩
  have hX : (X ++ [m]).head? = some r0 := by
    rw [hD] at hDhead
    match X, hDhead with
    | [], hd => simpa using hd
    | x :: X', hd => simpa using hd
  have cNew : List.IsChain (Succ pts) ((m :: Y') ++ (X ++ [m])) := by
    rw [List.isChain_append] at c1 ⊢
    refine ⟨c1.1, c2, ?_⟩
    intro x hx y hy
    rw [hX] at hy
    have hy' : y = r0 := by simpa using hy.symm
    rw [hy']
    exact c1.2.2 x hx r0 (by simp)
  -- compare with H
  have cH := hH.toIsConvexRing.succ_chain
  have hNewNodup : ((m :: Y') ++ (X ++ [m])).dropLast.Nodup := by
    have e : ((m :: Y') ++ (X ++ [m])).dropLast = (m :: Y') ++ X := by
      rw [← List.append_assoc, List.dropLast_concat]
    rw [e]
    have := h.nodup; rw [hD] at this
    exact (List.perm_append_comm.nodup_iff).mp this
  have hNewLen : 3 ≤ ((m :: Y') ++ (X ++ [m])).length := by
    have := h.long
    rw [hRD, hD] at this
    simp only [List.length_append, List.length_cons, List.length_nil] at this ⊢
    omega
  have hNewClosed : ((m :: Y') ++ (X ++ [m])).head? = ((m :: Y') ++ (X ++ [m])).getLast? := by
    rw [← List.append_assoc, List.getLast?_concat]; simp
  have hEq : (m :: Y') ++ (X ++ [m]) = H := by
    match H, hHm, cH, hH with
    | a :: t, hHm, cH, hH =>
      simp only [List.head?_cons, Option.some.injEq] at hHm
      rw [hHm] at cH hH ⊢
      have cNew' : List.IsChain (Succ pts) (m :: (Y' ++ (X ++ [m]))) := by simpa using cNew
      rcases chain_prefix (R := Succ pts) (fun _ _ _ r r' => succ_unique hnc r r')
          (Y' ++ (X ++ [m])) t m cNew' cH with p | p
      · have := closed_prefix_eq (X := m :: (Y' ++ (X ++ [m]))) (Y := m :: t)
          (by simpa using hNewClosed) (by simpa using hNewLen)
          ((List.prefix_cons_inj m).mpr p) hH.nodup
        simpa using this
      · have := closed_prefix_eq (X := m :: t) (Y := m :: (Y' ++ (X ++ [m])))
          hH.closed hH.long ((List.prefix_cons_inj m).mpr p) (by simpa using hNewNodup)
        simpa using this.symm
  rw [← hEq, ← List.append_assoc, List.dropLast_concat]

end GV.Hull
