import GeoVerif.Lemmas.PipRing
import Mathlib.Tactic.Positivity
import Mathlib.Tactic.FieldSimp
import Mathlib.Tactic.LinearCombination

/-!
Helper lemmas for `Props/C01Convex.lean`: the even-odd ray-crossing rule agrees with geometric insideness
for strictly convex rings.

* algebra of the edge cross product `pcross` along a line (`lineAt`), and the affine identity that transports
  a half-plane inequality from the end points of an edge to the point where the edge meets the ray's level;
* **separating line**: a ring that lies weakly left of a line is not entered by a query strictly right of it
  (any ring, no convexity) — `insideEO_of_halfplane`;
* cyclic structure of `ringEdges` (every vertex starts one edge and ends one edge, closed walks);
* a pseudo-angle showing that a closed walk cannot turn left around a query it keeps on one side of a
  horizontal line.
-/
namespace GV.PipConvex
open GV

/-! ### A. algebra -/

/-- the point `u + t (w - u)` of the line through `u` and `w` -/
def lineAt (u w : Pt) (t : Rat) : Pt := (u.1 + t * (w.1 - u.1), u.2 + t * (w.2 - u.2))

/-- `pcross l ·` is affine: transport along an edge `(a, b)` to the level of the query -/
theorem pcross_affine_comb (l : Edge) (a b p : Pt) :
    (b.2 - p.2) * pcross l a + (p.2 - a.2) * pcross l b =
      (b.2 - a.2) * pcross l p - (l.2.2 - l.1.2) * pcross (a, b) p := by
  unfold pcross; ring

theorem pcross_lineAt (l : Edge) (u w : Pt) (t : Rat) :
    pcross l (lineAt u w t) = (1 - t) * pcross l u + t * pcross l w := by
  unfold pcross lineAt; ring

theorem pcross_self_lineAt (u w : Pt) (t : Rat) : pcross (u, w) (lineAt u w t) = 0 := by
  unfold pcross lineAt; ring

/-- the edge that follows `(u, w)` sees the points of the line of `(u, w)` beyond `w` on its right -/
theorem pcross_next_lineAt (u w w' : Pt) (t : Rat) :
    pcross (w, w') (lineAt u w t) = (1 - t) * pcross (u, w) w' := by
  unfold pcross lineAt; ring

/-- the edge that precedes `(u, w)` sees the points of the line of `(u, w)` before `u` on its right -/
theorem pcross_prev_lineAt (u' u w : Pt) (t : Rat) :
    pcross (u', u) (lineAt u w t) = t * pcross (u', u) w := by
  unfold pcross lineAt; ring

/-- a point on the line of a non-degenerate edge is `lineAt u w t` for some `t` -/
theorem exists_lineAt {u w p : Pt} (hne : u ≠ w) (h0 : pcross (u, w) p = 0) :
    ∃ t, p = lineAt u w t := by
  obtain ⟨ux, uy⟩ := u; obtain ⟨wx, wy⟩ := w; obtain ⟨px, py⟩ := p
  unfold pcross at h0; simp only at h0
  by_cases hx : wx - ux = 0
  · have hy : wy - uy ≠ 0 := by
      intro hy; apply hne
      have h1 : wx = ux := by linarith
      have h2 : wy = uy := by linarith
      rw [h1, h2]
    refine ⟨(py - uy) / (wy - uy), ?_⟩
    unfold lineAt; simp only
    have e2 : uy + (py - uy) / (wy - uy) * (wy - uy) = py := by field_simp; ring
    have e1 : px = ux := by
      have : (wy - uy) * (px - ux) = 0 := by rw [hx] at h0; linarith
      rcases mul_eq_zero.mp this with h | h
      · exact absurd h hy
      · linarith
    rw [hx, e2, e1]; simp
  · refine ⟨(px - ux) / (wx - ux), ?_⟩
    unfold lineAt; simp only
    have e1 : ux + (px - ux) / (wx - ux) * (wx - ux) = px := by field_simp; ring
    have e2 : uy + (px - ux) / (wx - ux) * (wy - uy) = py := by
      field_simp
      linarith
    rw [e1, e2]

/-- on the line, the on-edge test is `0 ≤ t ≤ 1` -/
theorem onEdge_lineAt {u w : Pt} (hne : u ≠ w) (t : Rat) :
    onEdge (lineAt u w t) (u, w) = true ↔ 0 ≤ t ∧ t ≤ 1 := by
  obtain ⟨ux, uy⟩ := u; obtain ⟨wx, wy⟩ := w
  have h0 := pcross_self_lineAt (ux, uy) (wx, wy) t
  unfold onEdge
  rw [h0]
  unfold lineAt minR maxR
  simp only [decide_true, Bool.true_and, Bool.and_eq_true, decide_eq_true_eq]
  have hd : wx - ux ≠ 0 ∨ wy - uy ≠ 0 := by
    by_contra hc
    push Not at hc
    apply hne
    have h1 : wx = ux := by linarith [hc.1]
    have h2 : wy = uy := by linarith [hc.2]
    rw [h1, h2]
  constructor
  · rintro ⟨⟨⟨h1, h2⟩, h3⟩, h4⟩
    rcases hd with hd | hd
    · rcases lt_or_gt_of_ne hd with hlt | hgt
      · have hn : ¬ ux ≤ wx := by rw [not_le]; linarith
        simp only [hn, if_false] at h1 h2
        constructor <;> by_contra hc <;> rw [not_le] at hc <;> nlinarith
      · have hn : ux ≤ wx := by linarith
        simp only [hn, if_true] at h1 h2
        constructor <;> by_contra hc <;> rw [not_le] at hc <;> nlinarith
    · rcases lt_or_gt_of_ne hd with hlt | hgt
      · have hn : ¬ uy ≤ wy := by rw [not_le]; linarith
        simp only [hn, if_false] at h3 h4
        constructor <;> by_contra hc <;> rw [not_le] at hc <;> nlinarith
      · have hn : uy ≤ wy := by linarith
        simp only [hn, if_true] at h3 h4
        constructor <;> by_contra hc <;> rw [not_le] at hc <;> nlinarith
  · rintro ⟨h0, h1⟩
    have h1' : 0 ≤ 1 - t := by linarith
    refine ⟨⟨⟨?_, ?_⟩, ?_⟩, ?_⟩ <;> split <;> nlinarith

/-! ### B. separating line -/

/-- an edge whose end points are weakly left of an upward (or horizontal) line `l` is not crossed by the
    east-going ray of a query strictly right of `l` -/
theorem crossesRay_false_of_halfplane (l : Edge) (p a b : Pt) (ha : 0 ≤ pcross l a) (hb : 0 ≤ pcross l b)
    (hp : pcross l p < 0) (hdy : 0 ≤ l.2.2 - l.1.2) : crossesRay p (a, b) = false := by
  have hid := pcross_affine_comb l a b p
  unfold crossesRay
  simp only
  by_cases h1 : a.2 > p.2 <;> by_cases h2 : b.2 > p.2
  · simp [h1, h2]
  · -- downward edge
    have h2' : b.2 - p.2 ≤ 0 := by linarith [not_lt.mp h2]
    have h1' : p.2 - a.2 ≤ 0 := by linarith
    have t1 : (b.2 - p.2) * pcross l a ≤ 0 := mul_nonpos_of_nonpos_of_nonneg h2' ha
    have t2 : (p.2 - a.2) * pcross l b ≤ 0 := mul_nonpos_of_nonpos_of_nonneg h1' hb
    have hs : b.2 - a.2 < 0 := by linarith
    have t3 : 0 < (b.2 - a.2) * pcross l p := mul_pos_of_neg_of_neg hs hp
    have t4 : 0 < (l.2.2 - l.1.2) * pcross (a, b) p := by linarith
    have hC : 0 < pcross (a, b) p := by
      by_contra hc; rw [not_lt] at hc
      have := mul_nonpos_of_nonneg_of_nonpos hdy hc
      linarith
    have hn : ¬ b.2 > a.2 := by rw [not_lt]; linarith
    simp [h1, h2, hC, hn]
  · have h1' : 0 ≤ p.2 - a.2 := by linarith [not_lt.mp h1]
    have h2' : 0 ≤ b.2 - p.2 := by linarith
    have t1 : 0 ≤ (b.2 - p.2) * pcross l a := mul_nonneg h2' ha
    have t2 : 0 ≤ (p.2 - a.2) * pcross l b := mul_nonneg h1' hb
    have hs : 0 < b.2 - a.2 := by linarith [not_lt.mp h1]
    have t3 : (b.2 - a.2) * pcross l p < 0 := mul_neg_of_pos_of_neg hs hp
    have t4 : (l.2.2 - l.1.2) * pcross (a, b) p < 0 := by linarith
    have hC : ¬ pcross (a, b) p > 0 := by
      intro hc
      have := mul_nonneg hdy (le_of_lt hc)
      linarith
    have hy : b.2 > a.2 := by linarith
    simp [h1, h2, hC, hy]
  · simp [h1, h2]

/-- mirror image: a downward (or horizontal) line and the west-going ray -/
theorem crossesRayW_false_of_halfplane (l : Edge) (p a b : Pt) (ha : 0 ≤ pcross l a) (hb : 0 ≤ pcross l b)
    (hp : pcross l p < 0) (hdy : l.2.2 - l.1.2 ≤ 0) : crossesRayW p (a, b) = false := by
  have hid := pcross_affine_comb l a b p
  unfold crossesRayW
  simp only
  by_cases h1 : a.2 > p.2 <;> by_cases h2 : b.2 > p.2
  · simp [h1, h2]
  · have h2' : b.2 - p.2 ≤ 0 := by linarith [not_lt.mp h2]
    have h1' : p.2 - a.2 ≤ 0 := by linarith
    have t1 : (b.2 - p.2) * pcross l a ≤ 0 := mul_nonpos_of_nonpos_of_nonneg h2' ha
    have t2 : (p.2 - a.2) * pcross l b ≤ 0 := mul_nonpos_of_nonpos_of_nonneg h1' hb
    have hs : b.2 - a.2 < 0 := by linarith
    have t3 : 0 < (b.2 - a.2) * pcross l p := mul_pos_of_neg_of_neg hs hp
    have t4 : 0 < (l.2.2 - l.1.2) * pcross (a, b) p := by linarith
    have hC : pcross (a, b) p < 0 := by
      by_contra hc; rw [not_lt] at hc
      have := mul_nonpos_of_nonpos_of_nonneg hdy hc
      linarith
    have hn : ¬ b.2 > a.2 := by rw [not_lt]; linarith
    simp [h1, h2, hC, hn]
  · have h1' : 0 ≤ p.2 - a.2 := by linarith [not_lt.mp h1]
    have h2' : 0 ≤ b.2 - p.2 := by linarith
    have t1 : 0 ≤ (b.2 - p.2) * pcross l a := mul_nonneg h2' ha
    have t2 : 0 ≤ (p.2 - a.2) * pcross l b := mul_nonneg h1' hb
    have hs : 0 < b.2 - a.2 := by linarith [not_lt.mp h1]
    have t3 : (b.2 - a.2) * pcross l p < 0 := mul_neg_of_pos_of_neg hs hp
    have t4 : (l.2.2 - l.1.2) * pcross (a, b) p < 0 := by linarith
    have hC : ¬ pcross (a, b) p < 0 := by
      intro hc
      have := mul_nonneg_of_nonpos_of_nonpos hdy (le_of_lt hc)
      linarith
    have hy : b.2 > a.2 := by linarith
    simp [h1, h2, hC, hy]
  · simp [h1, h2]

theorem mem_ringEdges {v : Pt} {r : List Pt} {e : Edge} (he : e ∈ ringEdges (v :: r)) :
    e.1 ∈ v :: r ∧ e.2 ∈ v :: r := by
  unfold ringEdges at he
  have := List.of_mem_zip he
  refine ⟨this.1, ?_⟩
  have h2 := this.2
  simp only [List.mem_append, List.mem_cons] at h2 ⊢
  tauto

/-- **separating line**: if every vertex of a ring (any ring) is weakly left of a line and the query is
    strictly right of it, the even-odd rule says "outside" -/
theorem insideEO_of_halfplane (p v : Pt) (r : List Pt) (l : Edge)
    (hall : ∀ q ∈ v :: r, 0 ≤ pcross l q) (hp : pcross l p < 0) :
    insideEO p (ringEdges (v :: r)) = false := by
  by_cases hany : (ringEdges (v :: r)).any (onEdge p) = true
  · unfold insideEO; simp [hany]
  · have hoff : (ringEdges (v :: r)).any (onEdge p) = false := by simpa using hany
    suffices hc : (ringEdges (v :: r)).countP (crossesRay p) % 2 = 0 by
      unfold insideEO; simp [hc]
    by_cases hdy : 0 ≤ l.2.2 - l.1.2
    · have : (ringEdges (v :: r)).countP (crossesRay p) = 0 := by
        rw [List.countP_eq_zero]
        intro e he
        have hm := mem_ringEdges he
        have := crossesRay_false_of_halfplane l p e.1 e.2 (hall _ hm.1) (hall _ hm.2) hp hdy
        simp [this]
      simp [this]
    · rw [parity_ray_independent p v r hoff]
      have : (ringEdges (v :: r)).countP (crossesRayW p) = 0 := by
        rw [List.countP_eq_zero]
        intro e he
        have hm := mem_ringEdges he
        have := crossesRayW_false_of_halfplane l p e.1 e.2 (hall _ hm.1) (hall _ hm.2) hp
          (by linarith [not_le.mp hdy])
        simp [this]
      simp [this]

/-! ### C. cyclic structure of `ringEdges` -/

theorem ringEdges_map_fst (v : Pt) (r : List Pt) : (ringEdges (v :: r)).map Prod.fst = v :: r := by
  unfold ringEdges
  rw [List.map_fst_zip]; simp

theorem ringEdges_map_snd (v : Pt) (r : List Pt) : (ringEdges (v :: r)).map Prod.snd = r ++ [v] := by
  unfold ringEdges
  rw [List.map_snd_zip]; simp

/-- every vertex starts an edge -/
theorem exists_edge_from {v : Pt} {r : List Pt} {q : Pt} (hq : q ∈ v :: r) :
    ∃ e ∈ ringEdges (v :: r), e.1 = q := by
  rw [← ringEdges_map_fst v r, List.mem_map] at hq
  exact hq

/-- every vertex ends an edge -/
theorem exists_edge_to {v : Pt} {r : List Pt} {q : Pt} (hq : q ∈ v :: r) :
    ∃ e ∈ ringEdges (v :: r), e.2 = q := by
  have : q ∈ r ++ [v] := by
    simp only [List.mem_append, List.mem_cons] at hq ⊢; tauto
  rw [← ringEdges_map_snd v r, List.mem_map] at this
  exact this

/-- distinct vertices: edges at different positions start at different vertices -/
theorem ringEdges_pairwise_fst {v : Pt} {r : List Pt} (hnd : (v :: r).Nodup) :
    (ringEdges (v :: r)).Pairwise (fun e f => e.1 ≠ f.1) := by
  have : ((ringEdges (v :: r)).map Prod.fst).Pairwise (· ≠ ·) := by
    rw [ringEdges_map_fst]; exact hnd
  exact (List.pairwise_map.mp this)

theorem countP_le_one_of_pairwise {α : Type} (P : α → Bool) :
    ∀ (l : List α), l.Pairwise (fun e f => ¬ (P e = true ∧ P f = true)) → l.countP P ≤ 1
  | [], _ => by simp
  | a :: l, h => by
    rw [List.pairwise_cons] at h
    have ih := countP_le_one_of_pairwise P l h.2
    by_cases ha : P a = true
    · have : l.countP P = 0 := by
        rw [List.countP_eq_zero]
        intro x hx hpx
        exact h.1 x hx ⟨ha, hpx⟩
      rw [List.countP_cons_of_pos ha, this]
    · rw [List.countP_cons_of_neg ha]; exact ih

/-- along a path without a `false → true` edge, `false` propagates to the end -/
theorem path_false_propagates (f : Pt → Bool) : ∀ (l : List Pt),
    (∀ e ∈ pathEdges l, f e.1 = false → f e.2 = false) →
    ∀ (pre : List Pt) (q : Pt) (suf : List Pt), l = pre ++ q :: suf → f q = false → ∀ x ∈ suf, f x = false
  | [], _, pre, q, suf, h, _ => by simp at h
  | [a], _, pre, q, suf, h, _ => by
    have : suf = [] := by
      cases pre with
      | nil => simp at h; exact h.2
      | cons b t => cases t <;> simp at h
    subst this; simp
  | a :: b :: t, hE, pre, q, suf, h, hq => by
    have hstep : pathEdges (a :: b :: t) = (a, b) :: pathEdges (b :: t) := by simp [pathEdges]
    have ih := path_false_propagates f (b :: t)
      (fun e he => hE e (by rw [hstep]; exact List.mem_cons_of_mem _ he))
    cases pre with
    | nil =>
      simp only [List.nil_append, List.cons.injEq] at h
      obtain ⟨rfl, rfl⟩ := h
      have hb : f b = false := hE (a, b) (by rw [hstep]; simp) hq
      intro x hx
      rcases List.mem_cons.mp hx with rfl | hx
      · exact hb
      · exact ih [] b t rfl hb x hx
    | cons c pre' =>
      simp only [List.cons_append, List.cons.injEq] at h
      exact ih pre' q suf h.2 hq

/-- **a closed walk that visits both sides goes from the `false` side to the `true` side along some edge** -/
theorem exists_rising_edge (f : Pt → Bool) (v : Pt) (r : List Pt)
    (hF : ∃ q ∈ v :: r, f q = false) (hT : ∃ q ∈ v :: r, f q = true) :
    ∃ e ∈ ringEdges (v :: r), f e.1 = false ∧ f e.2 = true := by
  by_contra hno
  have hE : ∀ e ∈ pathEdges (closeUp (v :: r)), f e.1 = false → f e.2 = false := by
    intro e he h1
    rw [← ringEdges_eq_pathEdges_closeUp] at he
    by_contra h2
    exact hno ⟨e, he, h1, by simpa using h2⟩
  have hprop := path_false_propagates f (closeUp (v :: r)) hE
  have hcl : closeUp (v :: r) = v :: (r ++ [v]) := by simp [closeUp]
  -- the first vertex is on the `false` side
  have hv : f v = false := by
    obtain ⟨q, hq, hfq⟩ := hF
    rcases List.mem_cons.mp hq with rfl | hq
    · exact hfq
    · obtain ⟨s, t, rfl⟩ := List.append_of_mem hq
      exact hprop (v :: s) q (t ++ [v]) (by rw [hcl]; simp) hfq v (by simp)
  obtain ⟨q, hq, hfq⟩ := hT
  rcases List.mem_cons.mp hq with rfl | hq
  · rw [hv] at hfq; exact absurd hfq (by simp)
  · have := hprop [] v (r ++ [v]) (by rw [hcl]; simp) hv q (by simp [hq])
    rw [this] at hfq; exact absurd hfq (by simp)

/-- along a path whose every edge increases `g`, the end is above the start -/
theorem path_increasing (g : Pt → Rat) : ∀ (l : List Pt) (a : Pt),
    (∀ e ∈ pathEdges (a :: l), g e.1 < g e.2) → ∀ x ∈ l, g a < g x
  | [], _, _, x, hx => by simp at hx
  | b :: t, a, hE, x, hx => by
    have hstep : pathEdges (a :: b :: t) = (a, b) :: pathEdges (b :: t) := by simp [pathEdges]
    have hab : g a < g b := hE (a, b) (by rw [hstep]; simp)
    rcases List.mem_cons.mp hx with rfl | hx
    · exact hab
    · have := path_increasing g t b (fun e he => hE e (by rw [hstep]; exact List.mem_cons_of_mem _ he)) x hx
      linarith

/-- **no function increases along every edge of a closed walk** -/
theorem not_all_increasing (g : Pt → Rat) (v : Pt) (r : List Pt) :
    ¬ ∀ e ∈ ringEdges (v :: r), g e.1 < g e.2 := by
  intro h
  rw [ringEdges_eq_pathEdges_closeUp] at h
  have hcl : closeUp (v :: r) = v :: (r ++ [v]) := by simp [closeUp]
  rw [hcl] at h
  have := path_increasing g (r ++ [v]) v h v (by simp)
  linarith

/-! ### D. a pseudo-angle for the closed lower half-plane -/

/-- `x / (|x| - y)`: strictly increasing in the polar angle over the closed lower half-plane -/
def psi (x y : Rat) : Rat := x / ((if x < 0 then -x else x) - y)

theorem psi_lt {x1 y1 x2 y2 : Rat} (h1 : y1 ≤ 0) (h2 : y2 ≤ 0) (hc : 0 < x1 * y2 - y1 * x2) :
    psi x1 y1 < psi x2 y2 := by
  unfold psi
  have hd1 : 0 < (if x1 < 0 then -x1 else x1) - y1 := by
    split
    · linarith
    · rename_i h
      rw [not_lt] at h
      rcases lt_or_eq_of_le h with h | h
      · linarith
      · rcases lt_or_eq_of_le h1 with h1 | h1
        · linarith
        · exfalso; rw [← h, h1] at hc; simp at hc
  have hd2 : 0 < (if x2 < 0 then -x2 else x2) - y2 := by
    split
    · linarith
    · rename_i h
      rw [not_lt] at h
      rcases lt_or_eq_of_le h with h | h
      · linarith
      · rcases lt_or_eq_of_le h2 with h2 | h2
        · linarith
        · exfalso; rw [← h, h2] at hc; simp at hc
  rw [div_lt_div_iff₀ hd1 hd2]
  by_cases s1 : x1 < 0 <;> by_cases s2 : x2 < 0 <;> simp only [s1, s2, if_true, if_false] at hd1 hd2 ⊢
  · nlinarith
  · rw [not_lt] at s2
    have : x1 * (x2 - y2) < 0 := mul_neg_of_neg_of_pos s1 hd2
    have : 0 ≤ x2 * (-x1 - y1) := mul_nonneg s2 (le_of_lt hd1)
    linarith
  · rw [not_lt] at s1
    exfalso
    have : x1 * y2 ≤ 0 := mul_nonpos_of_nonneg_of_nonpos s1 h2
    have : 0 ≤ y1 * x2 := mul_nonneg_of_nonpos_of_nonpos h1 (le_of_lt s2)
    linarith
  · nlinarith

theorem pcross_eq_cross_rel (e : Edge) (p : Pt) :
    pcross e p = (e.1.1 - p.1) * (e.2.2 - p.2) - (e.1.2 - p.2) * (e.2.1 - p.1) := by
  unfold pcross; ring

/-- a closed walk that keeps the query strictly on its left cannot stay weakly below the query … -/
theorem not_all_below (p v : Pt) (r : List Pt) (hL : ∀ e ∈ ringEdges (v :: r), 0 < pcross e p) :
    ¬ ∀ q ∈ v :: r, q.2 ≤ p.2 := by
  intro hall
  apply not_all_increasing (fun q => psi (q.1 - p.1) (q.2 - p.2)) v r
  intro e he
  have hm := mem_ringEdges he
  have h1 := hall _ hm.1
  have h2 := hall _ hm.2
  have hc := hL e he
  rw [pcross_eq_cross_rel] at hc
  exact psi_lt (by linarith) (by linarith) hc

/-- … nor weakly above it -/
theorem not_all_above (p v : Pt) (r : List Pt) (hL : ∀ e ∈ ringEdges (v :: r), 0 < pcross e p) :
    ¬ ∀ q ∈ v :: r, p.2 ≤ q.2 := by
  intro hall
  apply not_all_increasing (fun q => psi (p.1 - q.1) (p.2 - q.2)) v r
  intro e he
  have hm := mem_ringEdges he
  have h1 := hall _ hm.1
  have h2 := hall _ hm.2
  have hc := hL e he
  rw [pcross_eq_cross_rel] at hc
  exact psi_lt (by linarith) (by linarith) (by linarith)

/-! ### E. strictly convex counter-clockwise rings -/

/-- **strictly convex, counter-clockwise ring** (open vertex list, no repeated closing vertex): at least three
    pairwise distinct vertices, and every vertex that is not an end point of an edge lies strictly left of it.
    This implies "every vertex weakly left of every edge, consecutive edges turn strictly left"
    (`weakly_left`, `turn_left`); that weaker pair alone would admit a ring walked twice (`[a,b,c,a,b,c]`),
    for which the even-odd rule answers `false` inside — hence `Nodup`.  Decidable. -/
def StrictConvexCCW (ring : List Pt) : Prop :=
  3 ≤ ring.length ∧ ring.Nodup ∧
    ∀ e ∈ ringEdges ring, ∀ q ∈ ring, q ≠ e.1 → q ≠ e.2 → 0 < pcross e q

instance (ring : List Pt) : Decidable (StrictConvexCCW ring) := by
  unfold StrictConvexCCW; infer_instance

theorem pcross_left_end (e : Edge) : pcross e e.1 = 0 := by unfold pcross; ring
theorem pcross_right_end (e : Edge) : pcross e e.2 = 0 := by unfold pcross; ring
theorem pcross_swap (u w q : Pt) : pcross (w, u) q = - pcross (u, w) q := by unfold pcross; ring

theorem StrictConvexCCW.third_vertex {ring : List Pt} (h : StrictConvexCCW ring) (u w : Pt) :
    ∃ q ∈ ring, q ≠ u ∧ q ≠ w := by
  obtain ⟨hlen, hnd, _⟩ := h
  match ring, hlen, hnd with
  | a :: b :: c :: t, _, hnd =>
    simp only [List.nodup_cons, List.mem_cons, not_or] at hnd
    obtain ⟨⟨hab, hac, _⟩, ⟨hbc, _⟩, _⟩ := hnd
    by_cases h1 : a ≠ u ∧ a ≠ w
    · exact ⟨a, by simp, h1⟩
    · by_cases h2 : b ≠ u ∧ b ≠ w
      · exact ⟨b, by simp, h2⟩
      · refine ⟨c, by simp, ?_, ?_⟩ <;> intro hc <;> subst hc <;> grind

/-- every vertex is weakly left of every edge -/
theorem StrictConvexCCW.weakly_left {ring : List Pt} (h : StrictConvexCCW ring) :
    ∀ e ∈ ringEdges ring, ∀ q ∈ ring, 0 ≤ pcross e q := by
  intro e he q hq
  by_cases h1 : q = e.1
  · rw [h1, pcross_left_end]
  · by_cases h2 : q = e.2
    · rw [h2, pcross_right_end]
    · exact le_of_lt (h.2.2 e he q hq h1 h2)

theorem StrictConvexCCW.edge_ne {ring : List Pt} (h : StrictConvexCCW ring) {u w : Pt}
    (he : (u, w) ∈ ringEdges ring) : u ≠ w := by
  rintro rfl
  obtain ⟨q, hq, h1, _⟩ := h.third_vertex u u
  have := h.2.2 (u, u) he q hq h1 h1
  unfold pcross at this; simp at this

/-- consecutive edges turn strictly left -/
theorem StrictConvexCCW.turn_left {ring : List Pt} (h : StrictConvexCCW ring) {u w w' : Pt}
    (he : (u, w) ∈ ringEdges ring) (he' : (w, w') ∈ ringEdges ring) : 0 < pcross (u, w) w' := by
  obtain ⟨v, r, rfl⟩ : ∃ v r, ring = v :: r := by
    obtain ⟨hlen, _⟩ := h
    cases ring with
    | nil => simp at hlen
    | cons v r => exact ⟨v, r, rfl⟩
  have hw' : w' ∈ v :: r := (mem_ringEdges he').2
  apply h.2.2 (u, w) he w' hw'
  · rintro rfl
    obtain ⟨q, hq, h1, h2⟩ := h.third_vertex w' w
    have a1 := h.2.2 (w', w) he q hq h1 h2
    have a2 := h.2.2 (w, w') he' q hq h2 h1
    rw [pcross_swap] at a2
    linarith
  · exact (h.edge_ne he').symm

/-! ### F. outside ⇒ even -/

/-- a query on the line of an edge of a strictly convex ring but not on the edge is strictly right of a
    neighbouring edge; a query strictly right of some edge is outside -/
theorem insideEO_false_of_not_left {v : Pt} {r : List Pt} (h : StrictConvexCCW (v :: r)) (p : Pt)
    {e0 : Edge} (he0 : e0 ∈ ringEdges (v :: r)) (hle : pcross e0 p ≤ 0) :
    insideEO p (ringEdges (v :: r)) = false := by
  have hsep : ∀ l ∈ ringEdges (v :: r), pcross l p < 0 → insideEO p (ringEdges (v :: r)) = false :=
    fun l hl hneg => insideEO_of_halfplane p v r l (h.weakly_left l hl) hneg
  rcases lt_or_eq_of_le hle with hlt | h0
  · exact hsep e0 he0 hlt
  · obtain ⟨u, w⟩ := e0
    have hne := h.edge_ne he0
    obtain ⟨t, rfl⟩ := exists_lineAt hne h0
    by_cases hon : onEdge (lineAt u w t) (u, w) = true
    · unfold insideEO
      have : (ringEdges (v :: r)).any (onEdge (lineAt u w t)) = true :=
        List.any_eq_true.mpr ⟨(u, w), he0, hon⟩
      simp [this]
    · rw [onEdge_lineAt hne] at hon
      have hm := mem_ringEdges he0
      by_cases ht : 0 ≤ t
      · have ht1 : 1 < t := by
          by_contra hc; exact hon ⟨ht, not_lt.mp hc⟩
        obtain ⟨⟨w1, w'⟩, he1, hw1⟩ := exists_edge_from hm.2
        simp only at hw1; subst hw1
        apply hsep _ he1
        rw [pcross_next_lineAt]
        exact mul_neg_of_neg_of_pos (by linarith) (h.turn_left he0 he1)
      · rw [not_le] at ht
        obtain ⟨⟨u', u1⟩, he1, hu1⟩ := exists_edge_to hm.1
        simp only at hu1; subst hu1
        apply hsep _ he1
        rw [pcross_prev_lineAt]
        exact mul_neg_of_neg_of_pos ht (h.turn_left he1 he0)

/-! ### G. strictly inside ⇒ exactly one crossing -/

/-- the edge goes from weakly below the query's level to strictly above it -/
def rising (p : Pt) (e : Edge) : Bool := decide (e.1.2 ≤ p.2) && decide (p.2 < e.2.2)

theorem crossesRay_eq_rising (p : Pt) (e : Edge) (hL : 0 < pcross e p) : crossesRay p e = rising p e := by
  unfold crossesRay rising
  by_cases h1 : e.1.2 > p.2 <;> by_cases h2 : e.2.2 > p.2
  · have : ¬ e.1.2 ≤ p.2 := not_le.mpr h1
    simp [h1, h2, this]
  · have : ¬ e.1.2 ≤ p.2 := not_le.mpr h1
    have hn : ¬ e.1.2 < e.2.2 := by rw [not_lt]; linarith [not_lt.mp h2]
    simp [h1, h2, this, hL, hn]
  · have : e.1.2 ≤ p.2 := not_lt.mp h1
    have hy : e.1.2 < e.2.2 := by linarith
    simp [h1, h2, this, hL, hy]
  · simp [h1, h2]

/-- two different edges of a strictly convex ring cannot both rise through the level of a query that is
    strictly left of both (a horizontal line meets the boundary once on each side) -/
theorem rising_unique {ring : List Pt} (h : StrictConvexCCW ring) (p : Pt) {e f : Edge}
    (he : e ∈ ringEdges ring) (hf : f ∈ ringEdges ring) (hne : e.1 ≠ f.1)
    (hre : rising p e = true) (hrf : rising p f = true) : False := by
  obtain ⟨v, r, rfl⟩ : ∃ v r, ring = v :: r := by
    obtain ⟨hlen, _⟩ := h
    cases ring with
    | nil => simp at hlen
    | cons v r => exact ⟨v, r, rfl⟩
  obtain ⟨a, b⟩ := e; obtain ⟨c, d⟩ := f
  simp only [rising, Bool.and_eq_true, decide_eq_true_eq] at hre hrf hne
  have hme := mem_ringEdges he
  have hmf := mem_ringEdges hf
  have id1 := pcross_affine_comb (a, b) c d p
  have id2 := pcross_affine_comb (c, d) a b p
  simp only at id1 id2
  have wc := h.weakly_left _ he c hmf.1
  have wd := h.weakly_left _ he d hmf.2
  have wa := h.weakly_left _ hf a hme.1
  have wb := h.weakly_left _ hf b hme.2
  have t1 : 0 ≤ (d.2 - p.2) * pcross (a, b) c := mul_nonneg (by linarith) wc
  have t2 : 0 ≤ (p.2 - c.2) * pcross (a, b) d := mul_nonneg (by linarith) wd
  have t3 : 0 ≤ (b.2 - p.2) * pcross (c, d) a := mul_nonneg (by linarith) wa
  have t4 : 0 ≤ (p.2 - a.2) * pcross (c, d) b := mul_nonneg (by linarith) wb
  have z1 : (d.2 - p.2) * pcross (a, b) c = 0 := by linarith
  have z3 : (b.2 - p.2) * pcross (c, d) a = 0 := by linarith
  have c0 : pcross (a, b) c = 0 := by
    rcases mul_eq_zero.mp z1 with hh | hh
    · linarith
    · exact hh
  have a0 : pcross (c, d) a = 0 := by
    rcases mul_eq_zero.mp z3 with hh | hh
    · linarith
    · exact hh
  have hcb : c = b := by
    by_contra hcb
    have := h.2.2 (a, b) he c hmf.1 (fun hh => hne hh.symm) hcb
    linarith
  have had : a = d := by
    by_contra had
    have := h.2.2 (c, d) hf a hme.1 hne had
    linarith
  subst hcb had
  linarith

end GV.PipConvex
