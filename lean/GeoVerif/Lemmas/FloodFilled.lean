import GeoVerif.Props.C12Lattice
import GeoVerif.Props.C01Convex
/-!
# Helper lemmas for `Props/C12Filled`: the flood fill of a *filled* ring

* the closed polyline of a ring (`closeUp ring`) has exactly the ring's edges as its segments;
* points of an edge are the points `lineAt e.1 e.2 t`, `0 ≤ t ≤ 1` (degenerate edges included);
* closed cell boxes are convex;
* `first_exit`: a finite family of affine functions, all positive at `0`, stays non-negative up to a
  parameter at which one of them vanishes — or all of them are positive at `1`;
* the bounding block of a ring contains every cell that holds a point of the closed polygon.
-/
namespace GV.FloodLat
open GV.Flood GV.PipConvex

/-! ## the closed polyline of a ring -/

theorem segsOf_eq_pathEdges : ∀ l : List Pt, segsOf l = pathEdges l
  | [] => rfl
  | [_] => by simp [segsOf, pathEdges]
  | a :: b :: rest => by
    have ih := segsOf_eq_pathEdges (b :: rest)
    have e : pathEdges (a :: b :: rest) = (a, b) :: pathEdges (b :: rest) := by simp [pathEdges]
    rw [e, ← ih]
    simp [segsOf]

/-- the segments of the closed polyline are the edges the membership test loops over -/
theorem segsOf_closeUp (ring : List Pt) : segsOf (closeUp ring) = ringEdges ring := by
  rw [segsOf_eq_pathEdges, ringEdges_eq_pathEdges_closeUp]

theorem seg_eq_lineAt (P Q : Pt) (t : Rat) : (segX P Q t, segY P Q t) = lineAt P Q t := rfl

/-! ## points of an edge -/

theorem onEdge_param {p : Pt} {e : Edge} (h : onEdge p e = true) :
    ∃ t : Rat, 0 ≤ t ∧ t ≤ 1 ∧ p = lineAt e.1 e.2 t := by
  obtain ⟨u, w⟩ := e
  by_cases hne : u = w
  · subst hne
    have := (onEdge_degenerate p u).mp h
    refine ⟨0, le_refl _, by norm_num, ?_⟩
    rw [this]; simp [lineAt]
  · have h0 : pcross (u, w) p = 0 := by
      unfold onEdge at h
      simp only [Bool.and_eq_true, decide_eq_true_eq] at h
      exact h.1.1.1.1
    obtain ⟨t, rfl⟩ := exists_lineAt hne h0
    have := (onEdge_lineAt hne t).mp h
    exact ⟨t, this.1, this.2, rfl⟩

theorem onEdge_of_param (e : Edge) {t : Rat} (t0 : 0 ≤ t) (t1 : t ≤ 1) :
    onEdge (lineAt e.1 e.2 t) e = true := by
  obtain ⟨u, w⟩ := e
  by_cases hne : u = w
  · subst hne
    rw [onEdge_degenerate]
    simp [lineAt]
  · exact (onEdge_lineAt hne t).mpr ⟨t0, t1⟩

theorem lineAt_rev (p q : Pt) (s : Rat) : lineAt q p s = lineAt p q (1 - s) := by
  unfold lineAt
  refine Prod.ext ?_ ?_ <;> simp only <;> ring

/-! ## closed boxes are convex -/

theorem inBox_lineAt (g : Grid) (c : Cell) (p q : Pt) (hp : InBox g c p.1 p.2) (hq : InBox g c q.1 q.2)
    {s : Rat} (s0 : 0 ≤ s) (s1 : s ≤ 1) : InBox g c (lineAt p q s).1 (lineAt p q s).2 := by
  obtain ⟨a1, a2, a3, a4⟩ := hp
  obtain ⟨b1, b2, b3, b4⟩ := hq
  have hx := lambda_between (a := p.1) (b := q.1) s0 s1
  have hy := lambda_between (a := p.2) (b := q.2) s0 s1
  refine ⟨?_, ?_, ?_, ?_⟩ <;> simp only [lineAt]
  · rcases hx with ⟨h, _⟩ | ⟨h, _⟩ <;> linarith
  · rcases hx with ⟨_, h⟩ | ⟨_, h⟩ <;> linarith
  · rcases hy with ⟨h, _⟩ | ⟨h, _⟩ <;> linarith
  · rcases hy with ⟨_, h⟩ | ⟨_, h⟩ <;> linarith

/-! ## first exit of a finite family of affine functions -/

/-- `a e` is the value of the `e`-th affine function at parameter `0`, `b e` its value at `1`; its
    value at `s` is `a e + s (b e − a e)`.  If all are positive at `0` there is a parameter `s ∈ [0, 1]`
    up to which all stay `≥ 0` and at which one vanishes, unless all are positive at `1`. -/
theorem first_exit {α : Type} (a b : α → Rat) : ∀ (L : List α), (∀ e ∈ L, 0 < a e) →
    ∃ s : Rat, 0 ≤ s ∧ s ≤ 1 ∧ (∀ e ∈ L, 0 ≤ a e + s * (b e - a e)) ∧
      ((∃ e ∈ L, a e + s * (b e - a e) = 0) ∨ (s = 1 ∧ ∀ e ∈ L, 0 < b e))
  | [], _ => ⟨1, by norm_num, le_refl _, by simp, Or.inr ⟨rfl, by simp⟩⟩
  | x :: L, hpos => by
    obtain ⟨s0, h0, h1, hall, hcase⟩ :=
      first_exit a b L (fun e he => hpos e (List.mem_cons_of_mem _ he))
    have hax := hpos x (by simp)
    by_cases hx : 0 < a x + s0 * (b x - a x)
    · refine ⟨s0, h0, h1, ?_, ?_⟩
      · intro e he
        rcases List.mem_cons.mp he with rfl | he
        · exact hx.le
        · exact hall e he
      · rcases hcase with ⟨e, he, hz⟩ | ⟨rfl, hb⟩
        · exact Or.inl ⟨e, List.mem_cons_of_mem _ he, hz⟩
        · right
          refine ⟨rfl, ?_⟩
          intro e he
          rcases List.mem_cons.mp he with rfl | he
          · linarith
          · exact hb e he
    · rw [not_lt] at hx
      obtain ⟨l, l0, l1, hl⟩ := exists_lambda (a := a x + s0 * (b x - a x)) (b := a x) (X := 0) hx hax.le
      have l1' : 0 ≤ 1 - l := by linarith
      refine ⟨(1 - l) * s0, mul_nonneg l1' h0, ?_, ?_, Or.inl ⟨x, by simp, ?_⟩⟩
      · have := mul_nonneg l0 h0
        nlinarith
      · intro e he
        have id1 : a e + (1 - l) * s0 * (b e - a e) = l * a e + (1 - l) * (a e + s0 * (b e - a e)) := by
          ring
        rw [id1]
        rcases List.mem_cons.mp he with rfl | he
        · have := mul_nonneg l0 hax.le
          linarith
        · have e1 := mul_nonneg l0 (hpos e (List.mem_cons_of_mem _ he)).le
          have e2 := mul_nonneg l1' (hall e he)
          linarith
      · linear_combination hl

/-! ## the bounding block -/

/-- the block of cells of the ring's bounding box (`bboxOf`: min/max over the vertices) -/
def ringBlock (g : Grid) (ring : List Pt) : List Cell :=
  match bboxOf ring with
  | none => []
  | some (x0, y0, x1, y1) => rectBlock g x0 x1 y0 y1

theorem mem_ringBlock_of_inBBox (g : Grid) (ring : List Pt) (cell : Cell) (p : Pt)
    (hb : inBBox p ring = true) (hp : InBox g cell p.1 p.2) : cell ∈ ringBlock g ring := by
  unfold inBBox at hb
  unfold ringBlock
  cases hbb : bboxOf ring with
  | none => rw [hbb] at hb; simp at hb
  | some b =>
    obtain ⟨x0, y0, x1, y1⟩ := b
    rw [hbb] at hb
    simp only [Bool.and_eq_true, decide_eq_true_eq] at hb
    obtain ⟨⟨⟨h1, h2⟩, h3⟩, h4⟩ := hb
    obtain ⟨b1, b2, b3, b4⟩ := hp
    simp only
    rw [mem_rectBlock]
    simp only [rectTouches, decide_eq_true_eq]
    exact ⟨by linarith, by linarith, by linarith, by linarith⟩

/-- a point of the closed polygon (`include_boundary=True`) passes the bounding-box prefilter -/
theorem inBBox_of_pip_inclB (p v : Pt) (r : List Pt) (h : pointInRing p (v :: r) true = true) :
    inBBox p (v :: r) = true := by
  rw [C01.pointInRing_inclB, Bool.or_eq_true] at h
  rcases h with hb | hin
  · obtain ⟨e, he, hon⟩ := List.any_eq_true.mp hb
    have hm := mem_ringEdges he
    unfold onEdge at hon
    simp only [Bool.and_eq_true, decide_eq_true_eq] at hon
    obtain ⟨⟨⟨⟨_, h1⟩, h2⟩, h3⟩, h4⟩ := hon
    rw [minR_le_iff] at h1 h3
    rw [le_maxR_iff] at h2 h4
    rw [inBBox_iff]
    refine ⟨?_, ?_, ?_, ?_⟩
    · rcases h1 with h | h
      · exact ⟨_, hm.1, h⟩
      · exact ⟨_, hm.2, h⟩
    · rcases h2 with h | h
      · exact ⟨_, hm.1, h⟩
      · exact ⟨_, hm.2, h⟩
    · rcases h3 with h | h
      · exact ⟨_, hm.1, h⟩
      · exact ⟨_, hm.2, h⟩
    · rcases h4 with h | h
      · exact ⟨_, hm.1, h⟩
      · exact ⟨_, hm.2, h⟩
  · by_contra hc
    have hc' : inBBox p (closeUp (v :: r)) = false := by
      rw [inBBox_congr p (r := closeUp (v :: r)) (s := v :: r) (fun q => C01.mem_closeUp q v r)]
      simpa using hc
    have := insideEO_of_not_inBBox p v r hc'
    rw [hin] at this
    exact absurd this (by simp)

/-! ## crossing parity along axis-parallel segments that avoid the edges (any ring) -/

/-- an affine function without a zero on `[0, 1]` has the same sign at both ends -/
theorem affine_same_sign {f0 f1 : Rat} (h : ∀ s : Rat, 0 ≤ s → s ≤ 1 → f0 + s * (f1 - f0) ≠ 0) :
    (0 < f0 ↔ 0 < f1) := by
  constructor
  · intro hp
    by_contra hn
    rw [not_lt] at hn
    obtain ⟨l, l0, l1, hl⟩ := exists_lambda (a := f1) (b := f0) (X := 0) hn hp.le
    apply h (1 - l) (by linarith) (by linarith)
    linear_combination hl
  · intro hp
    by_contra hn
    rw [not_lt] at hn
    obtain ⟨l, l0, l1, hl⟩ := exists_lambda (a := f0) (b := f1) (X := 0) hn hp.le
    exact h l l0 l1 hl

theorem onEdge_right_end (e : Edge) : onEdge e.2 e = true := by
  have := onEdge_endpoint_left (flipE e)
  rwa [onEdge_flip] at this

/-- the vertical segment `{x} × [y, y']` has no point on the edge -/
def VAvoid (x y y' : Rat) (e : Edge) : Prop :=
  ∀ Y : Rat, y ≤ Y → Y ≤ y' → onEdge ((x, Y) : Pt) e = false

theorem pcross_vert_affine (e : Edge) (x Y1 Y2 s : Rat) :
    pcross e ((x, Y1 + s * (Y2 - Y1)) : Pt) =
      pcross e ((x, Y1) : Pt) + s * (pcross e ((x, Y2) : Pt) - pcross e ((x, Y1) : Pt)) := by
  unfold pcross; ring

theorem vert_ne_zero {x y y' : Rat} {e : Edge} (hup : e.1.2 < e.2.2) (hav : VAvoid x y y' e) {Y : Rat}
    (h1 : e.1.2 ≤ Y) (h2 : Y ≤ e.2.2) (h3 : y ≤ Y) (h4 : Y ≤ y') : pcross e ((x, Y) : Pt) ≠ 0 := by
  intro h0
  have hoff := hav Y h3 h4
  rcases lt_or_eq_of_le h2 with hlt | heq
  · rw [onEdge_of_line h0 (Or.inr ⟨h1, hlt⟩)] at hoff
    exact absurd hoff (by simp)
  · have hx : x = e.2.1 := by
      unfold pcross at h0
      simp only at h0
      rw [heq] at h0
      have : (e.2.2 - e.1.2) * (e.2.1 - x) = 0 := by linear_combination h0
      rcases mul_eq_zero.mp this with h | h <;> linarith
    have : ((x, Y) : Pt) = e.2 := Prod.ext hx heq
    rw [this, onEdge_right_end] at hoff
    exact absurd hoff (by simp)

theorem vert_same_sign {x y y' : Rat} {e : Edge} (hup : e.1.2 < e.2.2) (hav : VAvoid x y y' e) {Y1 Y2 : Rat}
    (a1 : e.1.2 ≤ Y1) (a2 : Y1 ≤ e.2.2) (a3 : y ≤ Y1) (a4 : Y1 ≤ y')
    (b1 : e.1.2 ≤ Y2) (b2 : Y2 ≤ e.2.2) (b3 : y ≤ Y2) (b4 : Y2 ≤ y') :
    (0 < pcross e ((x, Y1) : Pt) ↔ 0 < pcross e ((x, Y2) : Pt)) := by
  apply affine_same_sign
  intro s s0 s1
  rw [← pcross_vert_affine]
  have hb := lambda_between (a := Y1) (b := Y2) s0 s1
  apply vert_ne_zero hup hav <;> rcases hb with ⟨h, h'⟩ | ⟨h, h'⟩ <;> linarith

/-- the vertex lies in the band `y < · ≤ y'` and strictly east of the vertical segment -/
def bandE (x y y' : Rat) (v : Pt) : Bool := decide (y < v.2) && decide (v.2 ≤ y') && decide (x < v.1)

/-- **one upward edge, vertical move**: the edge's contribution to the crossing count changes exactly
    when one of its end points is in the band east of the segment -/
theorem vert_up {x y y' : Rat} (hyy : y ≤ y') {e : Edge} (hup : e.1.2 < e.2.2) (hav : VAvoid x y y' e) :
    (crossesRay ((x, y') : Pt) e != crossesRay ((x, y) : Pt) e) = (bandE x y y' e.1 != bandE x y y' e.2) := by
  have hA : x < e.1.1 ↔ 0 < pcross e ((x, e.1.2) : Pt) := by
    have : pcross e ((x, e.1.2) : Pt) = (e.2.2 - e.1.2) * (e.1.1 - x) := by unfold pcross; ring
    rw [this, mul_pos_iff_of_pos_left (by linarith), sub_pos]
  have hB : x < e.2.1 ↔ 0 < pcross e ((x, e.2.2) : Pt) := by
    have : pcross e ((x, e.2.2) : Pt) = (e.2.2 - e.1.2) * (e.2.1 - x) := by unfold pcross; ring
    rw [this, mul_pos_iff_of_pos_left (by linarith), sub_pos]
  have hS := @vert_same_sign x y y' e hup hav
  unfold crossesRay bandE
  simp only [gt_iff_lt, hup, decide_true, beq_true, hA, hB]
  rcases le_or_gt e.1.2 y with ha | ha
  · -- first end point at or below the segment's foot
    have na : ¬ y < e.1.2 := not_lt.mpr ha
    have na' : ¬ y' < e.1.2 := not_lt.mpr (le_trans ha hyy)
    rcases le_or_gt e.2.2 y with hb | hb
    · have nb : ¬ y < e.2.2 := not_lt.mpr hb
      have nb' : ¬ y' < e.2.2 := not_lt.mpr (le_trans hb hyy)
      simp [na, na', nb, nb']
    · rcases le_or_gt e.2.2 y' with hb' | hb'
      · have nb' : ¬ y' < e.2.2 := not_lt.mpr hb'
        have := hS (Y1 := y) (Y2 := e.2.2) ha hb.le (le_refl _) hyy hup.le (le_refl _) hb.le hb'
        simp [na, na', hb, nb', hb', this]
      · have := hS (Y1 := y) (Y2 := y') ha hb.le (le_refl _) hyy (le_trans ha hyy) hb'.le hyy (le_refl _)
        have nb'' : ¬ e.2.2 ≤ y' := not_le.mpr hb'
        simp [na, na', hb, hb', nb'', this]
  · rcases le_or_gt e.1.2 y' with ha' | ha'
    · have na' : ¬ y' < e.1.2 := not_lt.mpr ha'
      have hb : y < e.2.2 := lt_trans ha hup
      rcases le_or_gt e.2.2 y' with hb' | hb'
      · have nb' : ¬ y' < e.2.2 := not_lt.mpr hb'
        have := hS (Y1 := e.1.2) (Y2 := e.2.2) (le_refl _) hup.le ha.le ha' hup.le (le_refl _) hb.le hb'
        simp [ha, ha', na', hb, hb', nb', this]
      · have nb'' : ¬ e.2.2 ≤ y' := not_le.mpr hb'
        have := hS (Y1 := e.1.2) (Y2 := y') (le_refl _) hup.le ha.le ha' ha' hb'.le hyy (le_refl _)
        simp [ha, ha', na', hb, hb', nb'', this]
    · have hb' : y' < e.2.2 := lt_trans ha' hup
      have hb : y < e.2.2 := lt_of_le_of_lt hyy hb'
      have na'' : ¬ e.1.2 ≤ y' := not_le.mpr ha'
      have nb'' : ¬ e.2.2 ≤ y' := not_le.mpr hb'
      simp [ha, ha', hb, hb', na'', nb'']

theorem bandE_horizontal {x y y' : Rat} {e : Edge} (hh : e.1.2 = e.2.2) (hav : VAvoid x y y' e) :
    bandE x y y' e.1 = bandE x y y' e.2 := by
  unfold bandE
  rw [hh]
  by_cases h1 : y < e.2.2
  · by_cases h2 : e.2.2 ≤ y'
    · have hoff := hav e.2.2 h1.le h2
      have hside : (x < e.1.1 ↔ x < e.2.1) := by
        by_contra hc
        have hon : onEdge ((x, e.2.2) : Pt) e = true := by
          unfold onEdge pcross minR maxR
          simp only [hh, sub_self, mul_zero, zero_mul, decide_true, Bool.true_and, Bool.and_eq_true,
            decide_eq_true_eq, le_refl, if_true, and_true]
          by_cases hle : e.1.1 ≤ e.2.1
          · simp only [hle, if_true]
            constructor <;> by_contra hn <;> rw [not_le] at hn <;> apply hc <;> constructor <;> intro _ <;> linarith
          · simp only [hle, if_false]
            rw [not_le] at hle
            constructor <;> by_contra hn <;> rw [not_le] at hn <;> apply hc <;> constructor <;> intro _ <;> linarith
        rw [hoff] at hon
        exact absurd hon (by simp)
      simp [h1, h2, hside]
    · simp [h1, h2]
  · simp [h1]

theorem vAvoid_flip {x y y' : Rat} {e : Edge} (hav : VAvoid x y y' e) : VAvoid x y y' (flipE e) := by
  intro Y h1 h2
  rw [onEdge_flip]
  exact hav Y h1 h2

/-- **one edge, vertical move** (any edge) -/
theorem vert_edge {x y y' : Rat} (hyy : y ≤ y') (e : Edge) (hav : VAvoid x y y' e) :
    (crossesRay ((x, y') : Pt) e != crossesRay ((x, y) : Pt) e) = (bandE x y y' e.1 != bandE x y y' e.2) := by
  rcases lt_trichotomy e.1.2 e.2.2 with h | h | h
  · exact vert_up hyy h hav
  · rw [bandE_horizontal h hav]
    unfold crossesRay
    simp [h]
  · have := vert_up hyy (e := flipE e) h (vAvoid_flip hav)
    rw [crossesRay_flip _ e (hav y' hyy (le_refl _)), crossesRay_flip _ e (hav y (le_refl _) hyy)] at this
    rw [this]
    simp only [flipE]
    exact Bool.xor_comm _ _

theorem any_onEdge_false {p : Pt} {es : List Edge} (h : ∀ e ∈ es, onEdge p e = false) :
    es.any (onEdge p) = false := by
  rw [List.any_eq_false]
  intro e he
  rw [h e he]; simp

/-- **vertical move, whole ring**: the even–odd answer is the same at both ends of a vertical segment
    that meets no edge (the per-edge changes pair up along the closed walk: `parity_path`) -/
theorem insideEO_vert (v : Pt) (r : List Pt) {x y y' : Rat} (hyy : y ≤ y')
    (hav : ∀ e ∈ ringEdges (v :: r), VAvoid x y y' e) :
    insideEO ((x, y) : Pt) (ringEdges (v :: r)) = insideEO ((x, y') : Pt) (ringEdges (v :: r)) := by
  have hsum := countP_xor_parity (crossesRay ((x, y') : Pt)) (crossesRay ((x, y) : Pt))
    (fun e => bandE x y y' e.1 != bandE x y y' e.2) (ringEdges (v :: r))
    (fun e he => vert_edge hyy e (hav e he))
  have heven : (ringEdges (v :: r)).countP (fun e => bandE x y y' e.1 != bandE x y y' e.2) % 2 = 0 := by
    rw [ringEdges_eq_pathEdges_closeUp]
    have hcl : closeUp (v :: r) = v :: (r ++ [v]) := by simp [closeUp]
    rw [hcl, parity_path (bandE x y y') (r ++ [v]) v]
    have : (v :: (r ++ [v])).getLast (by simp) = v := by simp
    rw [this]; simp
  have h1 := any_onEdge_false (p := (x, y)) (fun e he => hav e he y (le_refl _) hyy)
  have h2 := any_onEdge_false (p := (x, y')) (fun e he => hav e he y' hyy (le_refl _))
  unfold insideEO
  rw [h1, h2]
  have : (ringEdges (v :: r)).countP (crossesRay ((x, y) : Pt)) % 2 =
      (ringEdges (v :: r)).countP (crossesRay ((x, y') : Pt)) % 2 := by omega
  rw [this]

/-- **one edge, horizontal move**: the contribution of an edge does not change along a horizontal
    segment that has no point on it -/
theorem horiz_edge {x x' y : Rat} (e : Edge)
    (hav : ∀ s : Rat, 0 ≤ s → s ≤ 1 → onEdge ((x + s * (x' - x), y) : Pt) e = false) :
    crossesRay ((x, y) : Pt) e = crossesRay ((x', y) : Pt) e := by
  unfold crossesRay
  by_cases hst : (decide (e.1.2 > y) != decide (e.2.2 > y)) = true
  · have hrange : (e.2.2 ≤ y ∧ y < e.1.2) ∨ (e.1.2 ≤ y ∧ y < e.2.2) := by
      by_cases h1 : e.1.2 > y <;> by_cases h2 : e.2.2 > y <;> simp [h1, h2] at hst
      · exact Or.inl ⟨not_lt.mp h2, h1⟩
      · exact Or.inr ⟨not_lt.mp h1, h2⟩
    have hsign : (0 < pcross e ((x, y) : Pt) ↔ 0 < pcross e ((x', y) : Pt)) := by
      apply affine_same_sign
      intro s s0 s1 h0
      have haff : pcross e ((x + s * (x' - x), y) : Pt) =
          pcross e ((x, y) : Pt) + s * (pcross e ((x', y) : Pt) - pcross e ((x, y) : Pt)) := by
        unfold pcross; ring
      rw [← haff] at h0
      have := onEdge_of_line h0 hrange
      rw [hav s s0 s1] at this
      exact absurd this (by simp)
    simp only [gt_iff_lt] at hst ⊢
    simp only [hst, Bool.true_and]
    by_cases hg : 0 < pcross e ((x, y) : Pt)
    · have := hsign.mp hg; simp [hg, this]
    · have : ¬ 0 < pcross e ((x', y) : Pt) := fun h => hg (hsign.mpr h)
      simp [hg, this]
  · have : (decide (e.1.2 > y) != decide (e.2.2 > y)) = false := by simpa using hst
    simp only [this, Bool.false_and]

theorem insideEO_horiz (es : List Edge) {x x' y : Rat}
    (hav : ∀ e ∈ es, ∀ s : Rat, 0 ≤ s → s ≤ 1 → onEdge ((x + s * (x' - x), y) : Pt) e = false) :
    insideEO ((x, y) : Pt) es = insideEO ((x', y) : Pt) es := by
  have h1 : es.any (onEdge ((x, y) : Pt)) = false := any_onEdge_false (fun e he => by
    have := hav e he 0 (le_refl _) (by norm_num); simpa using this)
  have h2 : es.any (onEdge ((x', y) : Pt)) = false := any_onEdge_false (fun e he => by
    have := hav e he 1 (by norm_num) (le_refl _); simpa using this)
  unfold insideEO
  rw [h1, h2, List.countP_congr (fun e he => by rw [horiz_edge e (hav e he)])]

end GV.FloodLat
