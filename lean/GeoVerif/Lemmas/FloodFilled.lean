import GeoVerif.Props.C12Lattice
import GeoVerif.Props.C01Convex
/-!
# Helper lemmas for `Props/C12Filled`: the flood fill of a *filled* ring

* the closed polyline of a ring (`closeUp ring`) has exactly the ring's edges as its segments;
* points of an edge are the points `lineAt e.1 e.2 t`, `0 ≤ t ≤ 1` (degenerate edges included);
* closed cell boxes are convex;
* `first_exit`: a finite family of affine functions, all positive at `0`, stays non-negative up to a
  parameter at which one of them vanishes — or all of them are positive at `1`;
* the bounding block of a ring contains every cell that holds a point of the closed polygon.
-/
namespace GV.FloodLat
open GV.Flood GV.PipConvex

/-! ## the closed polyline of a ring -/

theorem segsOf_eq_pathEdges : ∀ l : List Pt, segsOf l = pathEdges l
  | [] => rfl
  | [_] => by simp [segsOf, pathEdges]
  | a :: b :: rest => by
    have ih := segsOf_eq_pathEdges (b :: rest)
    have e : pathEdges (a :: b :: rest) = (a, b) :: pathEdges (b :: rest) := by simp [pathEdges]
    rw [e, ← ih]
    simp [segsOf]

/-- the segments of the closed polyline are the edges the membership test loops over -/
theorem segsOf_closeUp (ring : List Pt) : segsOf (closeUp ring) = ringEdges ring := by
  rw [segsOf_eq_pathEdges, ringEdges_eq_pathEdges_closeUp]

theorem seg_eq_lineAt (P Q : Pt) (t : Rat) : (segX P Q t, segY P Q t) = lineAt P Q t := rfl

/-! ## points of an edge -/

theorem onEdge_param {p : Pt} {e : Edge} (h : onEdge p e = true) :
    ∃ t : Rat, 0 ≤ t ∧ t ≤ 1 ∧ p = lineAt e.1 e.2 t := by
  obtain ⟨u, w⟩ := e
  by_cases hne : u = w
  · subst hne
    have := (onEdge_degenerate p u).mp h
    refine ⟨0, le_refl _, by norm_num, ?_⟩
    rw [this]; simp [lineAt]
  · have h0 : pcross (u, w) p = 0 := by
      unfold onEdge at h
      simp only [Bool.and_eq_true, decide_eq_true_eq] at h
      exact h.1.1.1.1
    obtain ⟨t, rfl⟩ := exists_lineAt hne h0
    have := (onEdge_lineAt hne t).mp h
    exact ⟨t, this.1, this.2, rfl⟩

theorem onEdge_of_param (e : Edge) {t : Rat} (t0 : 0 ≤ t) (t1 : t ≤ 1) :
    onEdge (lineAt e.1 e.2 t) e = true := by
  obtain ⟨u, w⟩ := e
  by_cases hne : u = w
  · subst hne
    rw [onEdge_degenerate]
    simp [lineAt]
  · exact (onEdge_lineAt hne t).mpr ⟨t0, t1⟩

theorem lineAt_rev (p q : Pt) (s : Rat) : lineAt q p s = lineAt p q (1 - s) := by
  unfold lineAt
  refine Prod.ext ?_ ?_ <;> simp only <;> ring

/-! ## closed boxes are convex -/

theorem inBox_lineAt (g : Grid) (c : Cell) (p q : Pt) (hp : InBox g c p.1 p.2) (hq : InBox g c q.1 q.2)
    {s : Rat} (s0 : 0 ≤ s) (s1 : s ≤ 1) : InBox g c (lineAt p q s).1 (lineAt p q s).2 := by
  obtain ⟨a1, a2, a3, a4⟩ := hp
  obtain ⟨b1, b2, b3, b4⟩ := hq
  have hx := lambda_between (a := p.1) (b := q.1) s0 s1
  have hy := lambda_between (a := p.2) (b := q.2) s0 s1
  refine ⟨?_, ?_, ?_, ?_⟩ <;> simp only [lineAt]
  · rcases hx with ⟨h, _⟩ | ⟨h, _⟩ <;> linarith
  · rcases hx with ⟨_, h⟩ | ⟨_, h⟩ <;> linarith
  · rcases hy with ⟨h, _⟩ | ⟨h, _⟩ <;> linarith
  · rcases hy with ⟨_, h⟩ | ⟨_, h⟩ <;> linarith

/-! ## first exit of a finite family of affine functions -/

/-- `a e` is the value of the `e`-th affine function at parameter `0`, `b e` its value at `1`; its
    value at `s` is `a e + s (b e − a e)`.  If all are positive at `0` there is a parameter `s ∈ [0, 1]`
    up to which all stay `≥ 0` and at which one vanishes, unless all are positive at `1`. -/
theorem first_exit {α : Type} (a b : α → Rat) : ∀ (L : List α), (∀ e ∈ L, 0 < a e) →
    ∃ s : Rat, 0 ≤ s ∧ s ≤ 1 ∧ (∀ e ∈ L, 0 ≤ a e + s * (b e - a e)) ∧
      ((∃ e ∈ L, a e + s * (b e - a e) = 0) ∨ (s = 1 ∧ ∀ e ∈ L, 0 < b e))
  | [], _ => ⟨1, by norm_num, le_refl _, by simp, Or.inr ⟨rfl, by simp⟩⟩
  | x :: L, hpos => by
    obtain ⟨s0, h0, h1, hall, hcase⟩ :=
      first_exit a b L (fun e he => hpos e (List.mem_cons_of_mem _ he))
    have hax := hpos x (by simp)
    by_cases hx : 0 < a x + s0 * (b x - a x)
    · refine ⟨s0, h0, h1, ?_, ?_⟩
      · intro e he
        rcases List.mem_cons.mp he with rfl | he
        · exact hx.le
        · exact hall e he
      · rcases hcase with ⟨e, he, hz⟩ | ⟨rfl, hb⟩
        · exact Or.inl ⟨e, List.mem_cons_of_mem _ he, hz⟩
        · right
          refine ⟨rfl, ?_⟩
          intro e he
          rcases List.mem_cons.mp he with rfl | he
          · linarith
          · exact hb e he
    · rw [not_lt] at hx
      obtain ⟨l, l0, l1, hl⟩ := exists_lambda (a := a x + s0 * (b x - a x)) (b := a x) (X := 0) hx hax.le
      have l1' : 0 ≤ 1 - l := by linarith
      refine ⟨(1 - l) * s0, mul_nonneg l1' h0, ?_, ?_, Or.inl ⟨x, by simp, ?_⟩⟩
      · have := mul_nonneg l0 h0
        nlinarith
      · intro e he
        have id1 : a e + (1 - l) * s0 * (b e - a e) = l * a e + (1 - l) * (a e + s0 * (b e - a e)) := by
          ring
        rw [id1]
        rcases List.mem_cons.mp he with rfl | he
        · have := mul_nonneg l0 hax.le
          linarith
        · have e1 := mul_nonneg l0 (hpos e (List.mem_cons_of_mem _ he)).le
          have e2 := mul_nonneg l1' (hall e he)
          linarith
      · linear_combination hl

/-! ## the bounding block -/

/-- the block of cells of the ring's bounding box (`bboxOf`: min/max over the vertices) -/
def ringBlock (g : Grid) (ring : List Pt) : List Cell :=
  match bboxOf ring with
  | none => []
  | some (x0, y0, x1, y1) => rectBlock g x0 x1 y0 y1

theorem mem_ringBlock_of_inBBox (g : Grid) (ring : List Pt) (cell : Cell) (p : Pt)
    (hb : inBBox p ring = true) (hp : InBox g cell p.1 p.2) : cell ∈ ringBlock g ring := by
  unfold inBBox at hb
  unfold ringBlock
  cases hbb : bboxOf ring with
  | none => rw [hbb] at hb; simp at hb
  | some b =>
    obtain ⟨x0, y0, x1, y1⟩ := b
    rw [hbb] at hb
    simp only [Bool.and_eq_true, decide_eq_true_eq] at hb
    obtain ⟨⟨⟨h1, h2⟩, h3⟩, h4⟩ := hb
    obtain ⟨b1, b2, b3, b4⟩ := hp
    simp only
    rw [mem_rectBlock]
    simp only [rectTouches, decide_eq_true_eq]
    exact ⟨by linarith, by linarith, by linarith, by linarith⟩

/-- a point of the closed polygon (`include_boundary=True`) passes the bounding-box prefilter -/
theorem inBBox_of_pip_inclB (p v : Pt) (r : List Pt) (h : pointInRing p (v :: r) true = true) :
    inBBox p (v :: r) = true := by
  rw [C01.pointInRing_inclB, Bool.or_eq_true] at h
  rcases h with hb | hin
  · obtain ⟨e, he, hon⟩ := List.any_eq_true.mp hb
    have hm := mem_ringEdges he
    unfold onEdge at hon
    simp only [Bool.and_eq_true, decide_eq_true_eq] at hon
    obtain ⟨⟨⟨⟨_, h1⟩, h2⟩, h3⟩, h4⟩ := hon
    rw [minR_le_iff] at h1 h3
    rw [le_maxR_iff] at h2 h4
    rw [inBBox_iff]
    refine ⟨?_, ?_, ?_, ?_⟩
    · rcases h1 with h | h
      · exact ⟨_, hm.1, h⟩
      · exact ⟨_, hm.2, h⟩
    · rcases h2 with h | h
      · exact ⟨_, hm.1, h⟩
      · exact ⟨_, hm.2, h⟩
    · rcases h3 with h | h
      · exact ⟨_, hm.1, h⟩
      · exact ⟨_, hm.2, h⟩
    · rcases h4 with h | h
      · exact ⟨_, hm.1, h⟩
      · exact ⟨_, hm.2, h⟩
  · by_contra hc
    have hc' : inBBox p (closeUp (v :: r)) = false := by
      rw [inBBox_congr p (r := closeUp (v :: r)) (s := v :: r) (fun q => C01.mem_closeUp q v r)]
      simpa using hc
    have := insideEO_of_not_inBBox p v r hc'
    rw [hin] at this
    exact absurd this (by simp)

end GV.FloodLat
