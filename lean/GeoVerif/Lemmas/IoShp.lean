import GeoVerif.Lemmas.IoGeom

/-!
# Geometry through the shapefile and the geo-interface channels (helper lemmas for C20)
-/
namespace GV.Io

def coordsOf : Geom → List Coord
  | .point c => [c]
  | .line vs => vs
  | .poly o hs => o ++ hs.flatten
  | .mpoint ps => ps
  | .mline ls => ls.flatten
  | .mpoly ps => (ps.map fun p => p.1 ++ p.2.flatten).flatten
  | .other => []

def kindOf : Geom → Option Kind
  | .point _ => some .point
  | .line _ => some .line
  | .poly _ _ => some .poly
  | .mpoint _ => some .mpoint
  | .mline _ => some .mline
  | .mpoly _ => some .mpoly
  | .other => none

/-- the rings of every polygon are stored rings -/
def RingsOK : Geom → Prop
  | .poly o hs => StoredRing o ∧ ∀ h ∈ hs, StoredRing h
  | .mpoly ps => ∀ p ∈ ps, StoredRing p.1 ∧ ∀ h ∈ p.2, StoredRing h
  | .other => False
  | _ => True

/-- a multi-line / multi-polygon does not have exactly one member (one part is the simple type in a
    shapefile: known finding `from_shapefile/single-member-multi-becomes-simple`) -/
def MultiOK : Geom → Prop
  | .mline ls => ls.length ≠ 1
  | .mpoly ps => ps.length ≠ 1
  | _ => True

/-- every coordinate of the shape agrees with the shape's `has_z` / `has_m` -/
def Uniform (g : Geom) : Prop := ∀ c ∈ coordsOf g, c.z.isSome = hasZ g ∧ c.m.isSome = hasM g

theorem consistent_of_uniform {g : Geom} (hu : Uniform g) : ∀ c ∈ coordsOf g, Consistent (suffix g) c := by
  intro c hc
  obtain ⟨h1, h2⟩ := hu c hc
  unfold suffix
  cases hz : hasZ g <;> cases hm : hasM g <;> rw [hz] at h1 <;> rw [hm] at h2 <;>
    simp only [Consistent, Bool.not_false, Bool.not_true, Bool.and_true, Bool.and_false, Bool.false_eq_true,
      if_false, if_true] <;>
    simp_all

theorem split_parts (sfx : Sfx) (rs : List (List Coord)) (hc : ∀ c ∈ rs.flatten, Consistent sfx c) :
    (rs.map (·.map Coord.toFloat)).map (·.map (splitTuple sfx)) = rs.map (·.map (splitC sfx)) := by
  rw [List.map_map]
  apply List.map_congr_left
  intro r hr
  simp only [Function.comp]
  rw [List.map_map]
  apply List.map_congr_left
  intro c hcm
  show splitTuple sfx c.toFloat = splitC sfx c
  exact splitTuple_toFloat (hc c (List.mem_flatten.mpr ⟨r, hr, hcm⟩))

def bzOf (sfx : Sfx) : Bool := match sfx with | .z => true | _ => false
def bmOf (sfx : Sfx) : Bool := match sfx with | .plain => false | _ => true

theorem pts_eq (sfx : Sfx) (rs : List (List Coord)) :
    (rs.map (·.map (splitC sfx))).map (·.map (·.1)) = rs.map (·.map Coord.pt) := by
  simp [List.map_map, splitC, Function.comp_def]

theorem zl_eq (sfx : Sfx) (rs : List (List Coord)) :
    (match sfx with
      | .z => some ((rs.map (·.map (splitC sfx))).flatten.map (·.2.1))
      | _ => (none : ZList)) = zChan (bzOf sfx) (zOf rs.flatten ++ []) := by
  cases sfx <;> simp [zChan, bzOf, zOf, splitC, List.map_flatten, List.map_map, Function.comp_def]

theorem ml_eq (sfx : Sfx) (rs : List (List Coord)) :
    (match sfx with
      | .plain => (none : ZList)
      | _ => some ((rs.map (·.map (splitC sfx))).flatten.map (·.2.2))) = zChan (bmOf sfx) (mOf rs.flatten ++ []) := by
  cases sfx <;> simp [zChan, bmOf, mOf, splitC, List.map_flatten, List.map_map, Function.comp_def]

theorem z_none_of_consistent {sfx : Sfx} {l : List Coord} (hc : ∀ c ∈ l, Consistent sfx c) :
    bzOf sfx = false → ∀ c ∈ l, c.z = none := by
  intro hb c hm
  have := hc c hm
  cases sfx <;> simp [bzOf] at hb <;> simp only [Consistent] at this <;> exact this.1

theorem m_none_of_consistent {sfx : Sfx} {l : List Coord} (hc : ∀ c ∈ l, Consistent sfx c) :
    bmOf sfx = false → ∀ c ∈ l, c.m = none := by
  intro hb c hm
  have := hc c hm
  cases sfx <;> simp [bmOf] at hb
  simp only [Consistent] at this
  exact this.2

/-- reading what the channel returns for written line / point parts restores the coordinates -/
theorem read_parts (sfx : Sfx) (rs : List (List Coord)) (hc : ∀ c ∈ rs.flatten, Consistent sfx c) :
    (readRings (rs.map (·.map Coord.pt)) (zChan (bzOf sfx) (zOf rs.flatten ++ []))
      (zChan (bmOf sfx) (mOf rs.flatten ++ []))).1 = rs := by
  rw [readRings_gen (bzOf sfx) (bmOf sfx) rs [] [] (z_none_of_consistent hc) (m_none_of_consistent hc)]

theorem read_polys (sfx : Sfx) (ps : List (List (List Coord))) (hc : ∀ c ∈ ps.flatten.flatten, Consistent sfx c) :
    (readPolys (ps.map (·.map (·.map Coord.pt))) (zChan (bzOf sfx) (zOf ps.flatten.flatten ++ []))
      (zChan (bmOf sfx) (mOf ps.flatten.flatten ++ []))).1 = ps := by
  rw [readPolys_gen (bzOf sfx) (bmOf sfx) ps [] [] (z_none_of_consistent hc) (m_none_of_consistent hc)]

/-- `chanGeo` on parts that are coordinate lists -/
theorem chanGeo_parts (base : ShpBase) (sfx : Sfx) (rs : List (List Coord))
    (hc : ∀ c ∈ rs.flatten, Consistent sfx c) :
    chanGeo ⟨base, sfx, rs.map (·.map Coord.toFloat)⟩ =
      (let pts := rs.map (·.map Coord.pt)
       let zl := zChan (bzOf sfx) (zOf rs.flatten ++ [])
       let ml := zChan (bmOf sfx) (mOf rs.flatten ++ [])
       match base with
       | .point => ⟨"Point", [pts], zl, ml⟩
       | .multipoint => ⟨"MultiPoint", [pts], zl, ml⟩
       | .line => ⟨if pts.length = 1 then "LineString" else "MultiLineString", [pts], zl, ml⟩
       | .poly => ⟨if (organize pts []).length = 1 then "Polygon" else "MultiPolygon", organize pts [], zl, ml⟩) := by
  unfold chanGeo
  simp only [split_parts sfx rs hc]
  cases sfx <;> cases base <;>
    simp [zChan, bzOf, bmOf, zOf, mOf, splitC, List.map_flatten, List.map_map, Function.comp_def]

/-! ## the written rings of polygons -/

/-- one polygon as `to_pyshp` writes it, still as coordinates: reversed outline, then the holes -/
def writtenRings (p : List Coord × List (List Coord)) : List (List Coord) := p.1.reverse :: p.2

theorem polyParts_eq (o : List Coord) (hs : List (List Coord)) :
    polyParts o hs = (writtenRings (o, hs)).map (·.map Coord.toFloat) := by
  simp [polyParts, linearRings, writtenRings, List.map_map, Function.comp_def]

theorem organize_written_aux (ps : List (List Coord × List (List Coord)))
    (h : ∀ p ∈ ps, StoredRing p.1 ∧ ∀ x ∈ p.2, StoredRing x) :
    organize ((ps.map writtenRings).flatten.map (·.map Coord.pt)) []
      = (ps.map writtenRings).map (·.map (·.map Coord.pt)) := by
  have key := organize_polys (ps.map fun p => (p.1.reverse.map Coord.pt, p.2.map (·.map Coord.pt))) []
    (by
      intro q hq
      obtain ⟨p, hp, rfl⟩ := List.mem_map.mp hq
      refine ⟨(h p hp).1.rev_cw, ?_⟩
      intro x hx
      obtain ⟨y, hy, rfl⟩ := List.mem_map.mp hx
      exact ((h p hp).2 y hy).ccw)
  simp only [List.map_map, List.nil_append] at key
  have e1 : (ps.map writtenRings).flatten.map (·.map Coord.pt)
      = (ps.map ((fun p : List Pt × List (List Pt) => p.1 :: p.2) ∘
          fun p : List Coord × List (List Coord) => (p.1.reverse.map Coord.pt, p.2.map (·.map Coord.pt)))).flatten := by
    rw [List.map_flatten, List.map_map]
    congr 1
  have e2 : (ps.map writtenRings).map (·.map (·.map Coord.pt))
      = ps.map ((fun p : List Pt × List (List Pt) => p.1 :: p.2) ∘
          fun p : List Coord × List (List Coord) => (p.1.reverse.map Coord.pt, p.2.map (·.map Coord.pt))) := by
    rw [List.map_map]
    congr 1
  rw [e1, e2]
  exact key

theorem mapExcept_mkPoly_written (ps : List (List Coord × List (List Coord)))
    (h : ∀ p ∈ ps, StoredRing p.1 ∧ ∀ x ∈ p.2, StoredRing x) :
    mapExcept mkPoly (ps.map writtenRings) = .ok ps := by
  have := mapExcept_ok mkPoly (fun r => (mkPoly r).toOption.getD ([], [])) (ps.map writtenRings) (by
    intro r hr
    obtain ⟨p, hp, rfl⟩ := List.mem_map.mp hr
    rw [show writtenRings p = p.1.reverse :: p.2 from rfl, mkPoly_written (h p hp).1 (h p hp).2]
    rfl)
  rw [this, List.map_map]
  congr 1
  conv_rhs => rw [← List.map_id ps]
  apply List.map_congr_left
  intro p hp
  simp [writtenRings, mkPoly_written (h p hp).1 (h p hp).2, Except.toOption]

theorem mapExcept_mkPoly_linear (ps : List (List Coord × List (List Coord)))
    (h : ∀ p ∈ ps, StoredRing p.1 ∧ ∀ x ∈ p.2, StoredRing x) :
    mapExcept mkPoly (ps.map fun p => linearRings p.1 p.2) = .ok ps := by
  have := mapExcept_ok mkPoly (fun r => (mkPoly r).toOption.getD ([], [])) (ps.map fun p => linearRings p.1 p.2) (by
    intro r hr
    obtain ⟨p, hp, rfl⟩ := List.mem_map.mp hr
    rw [mkPoly_linearRings (h p hp).1 (h p hp).2]
    rfl)
  rw [this, List.map_map]
  congr 1
  conv_rhs => rw [← List.map_id ps]
  apply List.map_congr_left
  intro p hp
  simp [mkPoly_linearRings (h p hp).1 (h p hp).2, Except.toOption]

end GV.Io
