import GeoVerif.Model.Wkt
/-!
# Text level of C13: the lenient reader reads what the renderer writes

`lenientParseL (renderL b) = some ⟨[], b⟩` for every body whose tokens satisfy the emitted-number grammar
(`numTok`), whose coordinates have 2–4 numbers and whose lists are non-empty (`Body.emitted`).
Core Lean only.
-/
namespace GV.Wkt

/-! ## characters -/

theorem numChar_not_blank {c : Char} (h : isNumChar c = true) : isBlank c = false := by
  cases hb : isBlank c with
  | false => rfl
  | true =>
    simp only [isBlank, Bool.or_eq_true, beq_iff_eq] at hb
    rcases hb with ((rfl | rfl) | rfl) | rfl <;> revert h <;> decide

theorem numChar_ne {c : Char} (h : isNumChar c = true) :
    (c == '(') = false ∧ (c == ')') = false ∧ (c == ',') = false := by
  refine ⟨?_, ?_, ?_⟩ <;>
  · cases hb : (c == _) with
    | false => rfl
    | true => rw [beq_iff_eq] at hb; subst hb; revert h; decide

theorem numStart_numChar {c : Char} (h : isNumStart c = true) : isNumChar c = true := by
  simp [isNumChar, h]

/-! ## the lexer on a number-like run -/

theorem lexGo_num_step (acc : List Char) (c : Char) (cs : List Char) (h : isNumChar c = true) :
    lexGo (.num acc) (c :: cs) = lexGo (.num (acc ++ [c])) cs := by
  obtain ⟨h1, h2, h3⟩ := numChar_ne h
  simp [lexGo, numChar_not_blank h, h1, h2, h3, h]

theorem lexGo_num_run (acc t rest : List Char) (ht : t.all isNumChar = true) :
    lexGo (.num acc) (t ++ rest) = lexGo (.num (acc ++ t)) rest := by
  induction t generalizing acc with
  | nil => simp
  | cons c cs ih =>
    simp only [List.all_cons, Bool.and_eq_true] at ht
    rw [List.cons_append, lexGo_num_step acc c _ ht.1, ih _ ht.2]
    simp

theorem lexGo_tok (t rest : List Char) (ht : cleanTok t = true) :
    lexGo .none (t ++ rest) = lexGo (.num t) rest := by
  cases t with
  | nil => simp [cleanTok] at ht
  | cons c cs =>
    simp only [cleanTok, Bool.and_eq_true] at ht
    have hc := numStart_numChar ht.1
    obtain ⟨h1, h2, h3⟩ := numChar_ne hc
    rw [List.cons_append]
    have : lexGo .none (c :: (cs ++ rest)) = lexGo (.num [c]) (cs ++ rest) := by
      simp [lexGo, numChar_not_blank hc, h1, h2, h3, ht.1]
    rw [this, lexGo_num_run _ _ _ ht.2]
    rfl

theorem lexGo_num_space (t rest : List Char) :
    lexGo (.num t) (' ' :: rest) = (lexGo .none rest).map (.num t :: ·) := by
  simp [lexGo, isBlank, Cur.flush]

theorem lexGo_num_comma (t rest : List Char) :
    lexGo (.num t) (',' :: rest) = (lexGo .none rest).map (fun r => .num t :: .comma :: r) := by
  simp [lexGo, isBlank, Cur.flush]

theorem lexGo_num_rp (t rest : List Char) :
    lexGo (.num t) (')' :: rest) = (lexGo .none rest).map (fun r => .num t :: .rp :: r) := by
  simp [lexGo, isBlank, Cur.flush]

theorem lexGo_none_space (rest : List Char) : lexGo .none (' ' :: rest) = lexGo .none rest := by
  simp [lexGo, isBlank, Cur.flush]

theorem lexGo_none_lp (rest : List Char) :
    lexGo .none ('(' :: rest) = (lexGo .none rest).map (.lp :: ·) := by
  simp [lexGo, isBlank, Cur.flush]

theorem lexGo_none_rp (rest : List Char) :
    lexGo .none (')' :: rest) = (lexGo .none rest).map (.rp :: ·) := by
  simp [lexGo, isBlank, Cur.flush]

theorem lexGo_none_comma (rest : List Char) :
    lexGo .none (',' :: rest) = (lexGo .none rest).map (.comma :: ·) := by
  simp [lexGo, isBlank, Cur.flush]


/-! ## the lexer on coordinates, coordinate lists and parenthesised lists -/

/-- `sep.join(parts)` on tokens -/
def interT (sep : List Tok) : List (List Tok) → List Tok
  | [] => []
  | [x] => x
  | x :: y :: rest => x ++ sep ++ interT sep (y :: rest)

def coordT (c : List (List Char)) : List Tok := c.map .num

def seqT (r : List (List (List Char))) : List Tok := interT [.comma] (r.map coordT)

theorem lexGo_nil : lexGo .none [] = some [] := rfl

/-- a coordinate followed by a delimiter `d` -/
theorem lex_coord (c : List (List Char)) (hc : ∀ t ∈ c, cleanTok t = true) (hne : c ≠ [])
    (d : Char) (dt : Tok)
    (hd : ∀ t rest, lexGo (.num t) (d :: rest) = (lexGo .none rest).map (fun r => .num t :: dt :: r))
    (rest : List Char) :
    lexGo .none (intercalateL [' '] c ++ d :: rest) =
      (lexGo .none rest).map (fun r => coordT c ++ dt :: r) := by
  induction c with
  | nil => exact absurd rfl hne
  | cons t more ih =>
    cases more with
    | nil =>
      simp only [intercalateL, coordT, List.map_cons, List.map_nil]
      rw [lexGo_tok t _ (hc t (by simp)), hd]
      rfl
    | cons u more =>
      have ih' := ih (fun x hx => hc x (List.mem_cons_of_mem _ hx)) (by simp)
      simp only [intercalateL]
      rw [List.append_assoc, List.append_assoc, lexGo_tok t _ (hc t (by simp))]
      show lexGo (.num t) (' ' :: (intercalateL [' '] (u :: more) ++ d :: rest)) = _
      rw [lexGo_num_space, ih', Option.map_map]
      rfl

/-- coordinates joined by `,` or `, `, followed by `)` -/
theorem lex_coords (sep : List Char) (hsep : sep = [','] ∨ sep = [',', ' '])
    (r : List (List (List Char))) (hr : ∀ c ∈ r, c ≠ [] ∧ ∀ t ∈ c, cleanTok t = true) (hne : r ≠ [])
    (rest : List Char) :
    lexGo .none (intercalateL sep (r.map (intercalateL [' '])) ++ ')' :: rest) =
      (lexGo .none rest).map (fun x => seqT r ++ .rp :: x) := by
  induction r with
  | nil => exact absurd rfl hne
  | cons c more ih =>
    obtain ⟨hcne, hct⟩ := hr c (by simp)
    cases more with
    | nil =>
      simp only [List.map_cons, List.map_nil, intercalateL, seqT, interT]
      exact lex_coord c hct hcne ')' .rp lexGo_num_rp rest
    | cons c2 more =>
      have ih' := ih (fun x hx => hr x (List.mem_cons_of_mem _ hx)) (by simp)
      simp only [List.map_cons, intercalateL, seqT, interT] at ih' ⊢
      rcases hsep with rfl | rfl
      · simp only [List.append_assoc, List.cons_append, List.nil_append] at ih' ⊢
        rw [lex_coord c hct hcne ',' .comma lexGo_num_comma, ih', Option.map_map]
        congr 1
      · simp only [List.append_assoc, List.cons_append, List.nil_append] at ih' ⊢
        rw [lex_coord c hct hcne ',' .comma lexGo_num_comma, lexGo_none_space, ih', Option.map_map]
        congr 1

/-- "this text lexes to these tokens, whatever follows" -/
def Lx (s : List Char) (ts : List Tok) : Prop :=
  ∀ rest, lexGo .none (s ++ rest) = (lexGo .none rest).map (ts ++ ·)

def ringT (r : List (List (List Char))) : List Tok := .lp :: seqT r ++ [.rp]

theorem lex_ring (r : List (List (List Char))) (hr : ∀ c ∈ r, c ≠ [] ∧ ∀ t ∈ c, cleanTok t = true)
    (hne : r ≠ []) :
    Lx ('(' :: intercalateL [','] (r.map (intercalateL [' '])) ++ [')']) (ringT r) := by
  intro rest
  simp only [List.append_assoc, List.cons_append, List.nil_append]
  rw [lexGo_none_lp, lex_coords [','] (Or.inl rfl) r hr hne, Option.map_map]
  congr 1
  funext x
  simp [ringT, List.append_assoc]

/-- items joined by `, ` inside parentheses -/
theorem lex_list_inner {α : Type} (f : α → List Char) (g : α → List Tok) (xs : List α)
    (h : ∀ x ∈ xs, Lx (f x) (g x)) (rest : List Char) :
    lexGo .none (intercalateL [',', ' '] (xs.map f) ++ ')' :: rest) =
      (lexGo .none rest).map (fun r => interT [.comma] (xs.map g) ++ .rp :: r) := by
  induction xs with
  | nil => simp [intercalateL, interT, lexGo_none_rp]
  | cons x more ih =>
    cases more with
    | nil =>
      simp only [List.map_cons, List.map_nil, intercalateL, interT]
      rw [h x (by simp), lexGo_none_rp, Option.map_map]
      congr 1
    | cons y more =>
      have ih' := ih (fun z hz => h z (List.mem_cons_of_mem _ hz))
      simp only [List.map_cons, intercalateL, interT] at ih' ⊢
      simp only [List.append_assoc, List.cons_append, List.nil_append] at ih' ⊢
      rw [h x (by simp), lexGo_none_comma, lexGo_none_space, ih', Option.map_map, Option.map_map]
      congr 1

def listT {α : Type} (g : α → List Tok) (xs : List α) : List Tok :=
  .lp :: interT [.comma] (xs.map g) ++ [.rp]

theorem lex_list {α : Type} (f : α → List Char) (g : α → List Tok) (xs : List α)
    (h : ∀ x ∈ xs, Lx (f x) (g x)) :
    Lx ('(' :: intercalateL [',', ' '] (xs.map f) ++ [')']) (listT g xs) := by
  intro rest
  simp only [List.append_assoc, List.cons_append, List.nil_append]
  rw [lexGo_none_lp, lex_list_inner f g xs h, Option.map_map]
  congr 1
  funext x
  simp [listT, List.append_assoc]


/-! ## the parser on those tokens -/

theorem seqGo_nums (done : List CoordT) (cur : CoordT) (c : List (List Char))
    (hc : ∀ t ∈ c, isNumberL t = true) (ts : List Tok) :
    seqGo done cur (coordT c ++ ts) = seqGo done (cur ++ c.map String.ofList) ts := by
  induction c generalizing cur with
  | nil => simp [coordT]
  | cons t more ih =>
    have ht := hc t (by simp)
    have := ih (cur ++ [String.ofList t]) (fun x hx => hc x (List.mem_cons_of_mem _ hx))
    simp only [coordT, List.map_cons, List.cons_append] at this ⊢
    rw [seqGo]
    simp only [ht, if_true]
    rw [this]
    simp [List.append_assoc]

/-- a coordinate of the emitted grammar: 2–4 numbers -/
def CoordOk (c : List (List Char)) : Prop :=
  (∀ t ∈ c, cleanTok t = true ∧ isNumberL t = true) ∧ 2 ≤ c.length ∧ c.length ≤ 4

theorem seqGo_seq (done : List CoordT) (r : List (List (List Char))) (hr : ∀ c ∈ r, CoordOk c)
    (hne : r ≠ []) (rest : List Tok) :
    seqGo done [] (seqT r ++ .rp :: rest) = some (done ++ r.map (·.map String.ofList), rest) := by
  induction r generalizing done with
  | nil => exact absurd rfl hne
  | cons c more ih =>
    obtain ⟨hct, h2, h4⟩ := hr c (by simp)
    have hnum : ∀ t ∈ c, isNumberL t = true := fun t ht => (hct t ht).2
    have hlen : (c.map String.ofList).length = c.length := by simp
    cases more with
    | nil =>
      simp only [seqT, List.map_cons, List.map_nil, interT]
      rw [seqGo_nums done [] c hnum, List.nil_append, seqGo]
      simp [hlen, h2, h4]
    | cons c2 more =>
      have ih' := ih (done ++ [c.map String.ofList]) (fun x hx => hr x (List.mem_cons_of_mem _ hx))
        (by simp)
      simp only [seqT, List.map_cons, interT, List.append_assoc, List.cons_append, List.nil_append]
        at ih' ⊢
      rw [seqGo_nums done [] c hnum, List.nil_append, seqGo]
      simp only [hlen, h2, h4, decide_true, Bool.and_self, if_true]
      rw [ih']

theorem seqP_ring (r : List (List (List Char))) (hr : ∀ c ∈ r, CoordOk c) (hne : r ≠ [])
    (rest : List Tok) :
    seqP (ringT r ++ rest) = some (r.map (·.map String.ofList), rest) := by
  simp only [ringT, List.cons_append, List.append_assoc, List.nil_append, seqP]
  rw [seqGo_seq [] r hr hne]
  simp

theorem interT_length {β : Type} (enc : β → List Tok) (xs : List β) :
    xs.length ≤ (interT [.comma] (xs.map enc)).length + 1 := by
  induction xs with
  | nil => simp
  | cons x more ih =>
    cases more with
    | nil => simp [interT]
    | cons y more =>
      simp only [List.map_cons, interT, List.length_append, List.length_cons, List.length_nil] at ih ⊢
      omega

/-- a parenthesised, comma separated list of items -/
theorem listGo_items {α β : Type} (item : List Tok → Option (α × List Tok)) (enc : β → List Tok)
    (dec : β → α) (xs : List β) (hx : ∀ x ∈ xs, ∀ rest, item (enc x ++ rest) = some (dec x, rest))
    (hne : xs ≠ []) (n : Nat) (hn : xs.length ≤ n) (done : List α) (rest : List Tok) :
    listGo item n done (interT [.comma] (xs.map enc) ++ .rp :: rest) =
      some (done ++ xs.map dec, rest) := by
  induction xs generalizing n done with
  | nil => exact absurd rfl hne
  | cons x more ih =>
    obtain ⟨k, rfl⟩ : ∃ k, n = k + 1 := ⟨n - 1, by simp at hn; omega⟩
    cases more with
    | nil =>
      simp only [List.map_cons, List.map_nil, interT]
      rw [listGo, hx x (by simp)]
    | cons y more =>
      have ih' := ih (fun z hz => hx z (List.mem_cons_of_mem _ hz)) (by simp) k
        (by simp at hn ⊢; omega) (done ++ [dec x])
      simp only [List.map_cons, interT, List.append_assoc, List.cons_append, List.nil_append] at ih' ⊢
      rw [listGo, hx x (by simp)]
      simp only []
      rw [ih']

theorem listP_items {α β : Type} (item : List Tok → Option (α × List Tok)) (enc : β → List Tok)
    (dec : β → α) (xs : List β) (hx : ∀ x ∈ xs, ∀ rest, item (enc x ++ rest) = some (dec x, rest))
    (hne : xs ≠ []) (rest : List Tok) :
    listP item (listT enc xs ++ rest) = some (xs.map dec, rest) := by
  simp only [listT, List.cons_append, List.append_assoc, List.nil_append, listP]
  have hn : xs.length ≤ (interT [.comma] (xs.map enc) ++ .rp :: rest).length + 1 := by
    have := interT_length enc xs
    simp only [List.length_append, List.length_cons]
    omega
  rw [listGo_items item enc dec xs hx hne _ hn [] rest]
  simp


/-! ## keywords -/

theorem lex_kw (w : List Char) (hw : w ∈ keywords.map (·.1)) (rest : List Char) :
    lexGo .none (w ++ '(' :: rest) = (lexGo .none ('(' :: rest)).map (.word w :: ·) := by
  rw [lexGo_none_lp, Option.map_map]
  simp only [keywords, List.map_cons, List.map_nil, List.mem_cons, List.not_mem_nil, or_false] at hw
  rcases hw with rfl | rfl | rfl | rfl | rfl | rfl <;>
    · simp (config := {decide := true}) [lexGo, Cur.flush]
      rfl

/-! ## emitted bodies -/

/-- char-list view of a coordinate / sequence -/
def cL (c : CoordT) : List (List Char) := c.map String.toList
def sL (r : List CoordT) : List (List (List Char)) := r.map cL

theorem cL_back (c : CoordT) : (cL c).map String.ofList = c := by simp [cL]
theorem sL_back (r : List CoordT) : (sL r).map (·.map String.ofList) = r := by
  induction r with
  | nil => rfl
  | cons c more ih =>
    simp only [sL, List.map_cons] at ih ⊢
    rw [ih, cL_back]

theorem coordOk_of (c : CoordT) (h : coordOkB c = true) : CoordOk (cL c) := by
  simp only [coordOkB, Bool.and_eq_true, decide_eq_true_eq, List.all_eq_true] at h
  obtain ⟨⟨h2, h4⟩, ht⟩ := h
  refine ⟨?_, by simpa [cL] using h2, by simpa [cL] using h4⟩
  intro t hm
  obtain ⟨s, hs, rfl⟩ := List.mem_map.1 hm
  have := ht s hs
  simpa [tokOk] using this

theorem seqOk_of (r : List CoordT) (h : seqOkB r = true) :
    (∀ c ∈ sL r, CoordOk c) ∧ sL r ≠ [] := by
  simp only [seqOkB, Bool.and_eq_true, List.all_eq_true, Bool.not_eq_true', List.isEmpty_eq_false_iff]
    at h
  refine ⟨?_, by simpa [sL] using h.1⟩
  intro c hm
  obtain ⟨x, hx, rfl⟩ := List.mem_map.1 hm
  exact coordOk_of x (h.2 x hx)

theorem clean_of_ok {r : List (List (List Char))} (h : ∀ c ∈ r, CoordOk c) :
    ∀ c ∈ r, c ≠ [] ∧ ∀ t ∈ c, cleanTok t = true := by
  intro c hc
  obtain ⟨ht, h2, _⟩ := h c hc
  refine ⟨?_, fun t hm => (ht t hm).1⟩
  intro hn; subst hn; simp at h2

theorem renderRing_eq (r : List CoordT) :
    renderRing r = '(' :: intercalateL [','] ((sL r).map (intercalateL [' '])) ++ [')'] := by
  have e : r.map renderCoord = (sL r).map (intercalateL [' ']) := by
    induction r with
    | nil => rfl
    | cons c more ih => simp only [sL, List.map_cons] at ih ⊢; rw [ih]; rfl
  rw [renderRing, e]

/-- a ring of the text lexes to `ringT` -/
theorem lex_renderRing (r : List CoordT) (h : seqOkB r = true) : Lx (renderRing r) (ringT (sL r)) := by
  obtain ⟨hok, hne⟩ := seqOk_of r h
  rw [renderRing_eq]
  exact lex_ring (sL r) (clean_of_ok hok) hne

theorem seqP_renderRing (r : List CoordT) (h : seqOkB r = true) (rest : List Tok) :
    seqP (ringT (sL r) ++ rest) = some (r, rest) := by
  obtain ⟨hok, hne⟩ := seqOk_of r h
  rw [seqP_ring (sL r) hok hne, sL_back]

/-- a flat coordinate list with `, ` separators (MULTIPOINT) lexes to the same tokens -/
theorem lex_flat (r : List CoordT) (h : seqOkB r = true) :
    Lx ('(' :: intercalateL [',', ' '] (r.map renderCoord) ++ [')']) (ringT (sL r)) := by
  obtain ⟨hok, hne⟩ := seqOk_of r h
  intro rest
  have e : r.map renderCoord = (sL r).map (intercalateL [' ']) := by
    clear h hok hne
    induction r with
    | nil => rfl
    | cons c more ih => simp only [sL, List.map_cons] at ih ⊢; rw [ih]; rfl
  rw [e]
  simp only [List.append_assoc, List.cons_append, List.nil_append]
  rw [lexGo_none_lp, lex_coords [',', ' '] (Or.inr rfl) (sL r) (clean_of_ok hok) hne, Option.map_map]
  congr 1
  funext x
  simp [ringT, List.append_assoc]

theorem lex_renderRings (rs : List (List CoordT)) (h : ringsOkB rs = true) :
    Lx (renderRings rs) (listT (fun r => ringT (sL r)) rs) := by
  simp only [ringsOkB, Bool.and_eq_true, List.all_eq_true] at h
  exact lex_list renderRing (fun r => ringT (sL r)) rs (fun r hr => lex_renderRing r (h.2 r hr))

theorem listP_renderRings (rs : List (List CoordT)) (h : ringsOkB rs = true) (rest : List Tok) :
    listP seqP (listT (fun r => ringT (sL r)) rs ++ rest) = some (rs, rest) := by
  simp only [ringsOkB, Bool.and_eq_true, List.all_eq_true, Bool.not_eq_true',
    List.isEmpty_eq_false_iff] at h
  have := listP_items seqP (fun r => ringT (sL r)) (fun r : List CoordT => r) rs
    (fun r hr rest => seqP_renderRing r (h.2 r hr) rest) h.1 rest
  simpa using this


/-! ## whole texts -/

theorem lex_kw_body (w : List Char) (hw : w ∈ keywords.map (·.1)) (T' : List Char) (ts : List Tok)
    (hL : Lx ('(' :: T') ts) : lex (w ++ '(' :: T') = some (.word w :: ts) := by
  have h := hL []
  simp only [List.append_nil, lexGo_nil, Option.map_some] at h
  rw [lex, lex_kw w hw, h]
  rfl

/-- keyword, then a parenthesised text that lexes to `ts`, which the kind's body parser accepts -/
theorem parse_text (w : List Char) (hw : w ∈ keywords.map (·.1)) (k : Kind)
    (hk : splitKeyword w = some (k, [])) (T' : List Char) (ts' : List Tok) (b : Body)
    (hL : Lx ('(' :: T') (.lp :: ts')) (hb : bodyP k (.lp :: ts') = some b) :
    lenientParseL (w ++ '(' :: T') = some ⟨[], b⟩ := by
  have hlex := lex_kw_body w hw T' _ hL
  simp [lenientParseL, hlex, hk, hb]

theorem ringT_head (r : List CoordT) (h : seqOkB r = true) :
    ∃ t rest, ringT (sL r) = .lp :: .num t :: rest := by
  obtain ⟨hok, hne⟩ := seqOk_of r h
  cases hr : sL r with
  | nil => exact absurd hr hne
  | cons c more =>
    obtain ⟨_, h2, _⟩ := hok c (by simp [hr])
    cases c with
    | nil => simp at h2
    | cons t c' =>
      cases more with
      | nil => exact ⟨t, _, by simp [ringT, seqT, interT, coordT]; rfl⟩
      | cons c2 more => exact ⟨t, _, by simp [ringT, seqT, interT, coordT]; rfl⟩

theorem bodyP_point (ts : List Tok) (c : CoordT) (h : seqP ts = some ([c], [])) :
    bodyP .point ts = some (.point c) := by simp [bodyP, h, single]

theorem bodyP_linestring (ts : List Tok) (cs : List CoordT) (h : seqP ts = some (cs, [])) :
    bodyP .linestring ts = some (.linestring cs) := by simp [bodyP, h]

theorem bodyP_multipoint_flat (t : List Char) (rest : List Tok) (cs : List CoordT)
    (h : seqP (.lp :: .num t :: rest) = some (cs, [])) :
    bodyP .multipoint (.lp :: .num t :: rest) = some (.multipoint cs) := by simp [bodyP, h]

theorem bodyP_polygon (ts : List Tok) (rs : List (List CoordT)) (h : listP seqP ts = some (rs, [])) :
    bodyP .polygon ts = some (.polygon rs) := by simp [bodyP, h]

theorem bodyP_multilinestring (ts : List Tok) (rs : List (List CoordT))
    (h : listP seqP ts = some (rs, [])) :
    bodyP .multilinestring ts = some (.multilinestring rs) := by simp [bodyP, h]

theorem bodyP_multipolygon (ts : List Tok) (ps : List (List (List CoordT)))
    (h : listP (listP seqP) ts = some (ps, [])) :
    bodyP .multipolygon ts = some (.multipolygon ps) := by simp [bodyP, h]

/-- keyword + one coordinate sequence in parentheses (`,` separators) -/
theorem text_ring (w : List Char) (hw : w ∈ keywords.map (·.1)) (k : Kind)
    (hk : splitKeyword w = some (k, [])) (cs : List CoordT) (hs : seqOkB cs = true) (b : Body)
    (hb : ∀ ts, seqP ts = some (cs, []) → bodyP k ts = some b) :
    lenientParseL (w ++ renderRing cs) = some ⟨[], b⟩ := by
  obtain ⟨t, rest, hhead⟩ := ringT_head cs hs
  have hL := lex_renderRing cs hs
  have hp := seqP_renderRing cs hs []
  rw [List.append_nil] at hp
  rw [renderRing_eq] at hL ⊢
  rw [hhead] at hL hp
  exact parse_text w hw k hk _ _ b hL (hb _ hp)

/-- keyword + a list of rings -/
theorem text_rings (w : List Char) (hw : w ∈ keywords.map (·.1)) (k : Kind)
    (hk : splitKeyword w = some (k, [])) (rs : List (List CoordT)) (hs : ringsOkB rs = true) (b : Body)
    (hb : ∀ ts, listP seqP ts = some (rs, []) → bodyP k ts = some b) :
    lenientParseL (w ++ renderRings rs) = some ⟨[], b⟩ := by
  have hL := lex_renderRings rs hs
  have hp := listP_renderRings rs hs []
  rw [List.append_nil] at hp
  exact parse_text w hw k hk _ _ b hL (hb _ hp)

theorem kw_mem : ∀ w ∈ ["POINT".toList, "LINESTRING".toList, "POLYGON".toList, "MULTIPOINT".toList,
    "MULTILINESTRING".toList, "MULTIPOLYGON".toList], w ∈ keywords.map (·.1) := by decide

/-- **text level**: the lenient reader reads back exactly the value whose text the writers produce -/
theorem lenientParseL_renderL (b : Body) (h : b.emitted = true) :
    lenientParseL (renderL b) = some ⟨[], b⟩ := by
  cases b with
  | point c =>
    have hs : seqOkB [c] = true := by simpa [seqOkB, Body.emitted] using h
    have htext : renderL (.point c) = "POINT".toList ++ renderRing [c] := by
      have e1 : "POINT(".toList = "POINT".toList ++ ['('] := by decide
      show "POINT(".toList ++ renderCoord c ++ [')'] = _
      rw [e1, renderRing]
      simp only [List.map_cons, List.map_nil, intercalateL, List.append_assoc, List.cons_append,
        List.nil_append]
    rw [htext]
    exact text_ring _ (kw_mem _ (by simp)) .point (by decide) [c] hs _ (fun ts hp => bodyP_point ts c hp)
  | linestring cs =>
    exact text_ring _ (kw_mem _ (by simp)) .linestring (by decide) cs h _
      (fun ts hp => bodyP_linestring ts cs hp)
  | polygon rs =>
    exact text_rings _ (kw_mem _ (by simp)) .polygon (by decide) rs h _
      (fun ts hp => bodyP_polygon ts rs hp)
  | multilinestring ls =>
    exact text_rings _ (kw_mem _ (by simp)) .multilinestring (by decide) ls h _
      (fun ts hp => bodyP_multilinestring ts ls hp)
  | multipoint cs =>
    have hs : seqOkB cs = true := h
    obtain ⟨t, rest, hhead⟩ := ringT_head cs hs
    have htext : renderL (.multipoint cs) =
        "MULTIPOINT".toList ++ ('(' :: (intercalateL [',', ' '] (cs.map renderCoord) ++ [')'])) := by
      have e1 : "MULTIPOINT(".toList = "MULTIPOINT".toList ++ ['('] := by decide
      show "MULTIPOINT(".toList ++ intercalateL [',', ' '] (cs.map renderCoord) ++ [')'] = _
      rw [e1]
      simp only [List.append_assoc, List.cons_append, List.nil_append]
    have hL := lex_flat cs hs
    have hp := seqP_renderRing cs hs []
    rw [List.append_nil] at hp
    rw [hhead] at hL hp
    rw [htext]
    exact parse_text _ (kw_mem _ (by simp)) .multipoint (by decide) _ _ _ hL
      (bodyP_multipoint_flat t rest cs hp)
  | multipolygon ps =>
    simp only [Body.emitted, Bool.and_eq_true, List.all_eq_true, Bool.not_eq_true',
      List.isEmpty_eq_false_iff] at h
    have htext : renderL (.multipolygon ps) =
        "MULTIPOLYGON".toList ++ ('(' :: (intercalateL [',', ' '] (ps.map renderRings) ++ [')'])) := by
      have e1 : "MULTIPOLYGON(".toList = "MULTIPOLYGON".toList ++ ['('] := by decide
      show "MULTIPOLYGON(".toList ++ intercalateL [',', ' '] (ps.map renderRings) ++ [')'] = _
      rw [e1]
      simp only [List.append_assoc, List.cons_append, List.nil_append]
    have hL := lex_list renderRings (fun rs => listT (fun r => ringT (sL r)) rs) ps
      (fun rs hrs => lex_renderRings rs (h.2 rs hrs))
    have hp := listP_items (listP seqP) (fun rs => listT (fun r => ringT (sL r)) rs)
      (fun rs : List (List CoordT) => rs) ps
      (fun rs hrs rest => listP_renderRings rs (h.2 rs hrs) rest) h.1 []
    rw [List.append_nil, List.map_id'] at hp
    rw [htext]
    exact parse_text _ (kw_mem _ (by simp)) .multipolygon (by decide) _ _ _ hL
      (bodyP_multipolygon _ ps hp)


/-! ## the leading word of a written text -/

def Body.keyword : Body → List Char
  | .point _ => "POINT".toList
  | .linestring _ => "LINESTRING".toList
  | .polygon _ => "POLYGON".toList
  | .multipoint _ => "MULTIPOINT".toList
  | .multilinestring _ => "MULTILINESTRING".toList
  | .multipolygon _ => "MULTIPOLYGON".toList

/-- what follows the opening parenthesis -/
def Body.afterParen : Body → List Char
  | .point c => renderCoord c ++ [')']
  | .linestring cs => intercalateL [','] (cs.map renderCoord) ++ [')']
  | .polygon rs => intercalateL [',', ' '] (rs.map renderRing) ++ [')']
  | .multipoint cs => intercalateL [',', ' '] (cs.map renderCoord) ++ [')']
  | .multilinestring ls => intercalateL [',', ' '] (ls.map renderRing) ++ [')']
  | .multipolygon ps => intercalateL [',', ' '] (ps.map renderRings) ++ [')']

/-- every written text is its keyword followed by `(` -/
theorem renderL_shape (b : Body) : renderL b = b.keyword ++ '(' :: b.afterParen := by
  cases b with
  | point c =>
    have e1 : "POINT(".toList = "POINT".toList ++ ['('] := by decide
    show "POINT(".toList ++ renderCoord c ++ [')'] = "POINT".toList ++ '(' :: (renderCoord c ++ [')'])
    rw [e1]; simp only [List.append_assoc, List.cons_append, List.nil_append]
  | linestring cs => rfl
  | polygon rs => rfl
  | multipoint cs =>
    have e1 : "MULTIPOINT(".toList = "MULTIPOINT".toList ++ ['('] := by decide
    show "MULTIPOINT(".toList ++ intercalateL [',', ' '] (cs.map renderCoord) ++ [')'] =
      "MULTIPOINT".toList ++ '(' :: (intercalateL [',', ' '] (cs.map renderCoord) ++ [')'])
    rw [e1]; simp only [List.append_assoc, List.cons_append, List.nil_append]
  | multilinestring ls => rfl
  | multipolygon ps =>
    have e1 : "MULTIPOLYGON(".toList = "MULTIPOLYGON".toList ++ ['('] := by decide
    show "MULTIPOLYGON(".toList ++ intercalateL [',', ' '] (ps.map renderRings) ++ [')'] =
      "MULTIPOLYGON".toList ++ '(' :: (intercalateL [',', ' '] (ps.map renderRings) ++ [')'])
    rw [e1]; simp only [List.append_assoc, List.cons_append, List.nil_append]

theorem takeWhile_all (p : Char → Bool) (w : List Char) (hw : w.all p = true) (c : Char)
    (T : List Char) (hc : p c = false) : (w ++ c :: T).takeWhile p = w := by
  induction w with
  | nil => simp [List.takeWhile, hc]
  | cons a t ih =>
    simp only [List.all_cons, Bool.and_eq_true] at hw
    simp [List.takeWhile, hw.1, ih hw.2]

theorem keyword_alpha (b : Body) : b.keyword.all Char.isAlpha = true := by
  cases b with
  | point _ => show "POINT".toList.all Char.isAlpha = true; decide +kernel
  | linestring _ => show "LINESTRING".toList.all Char.isAlpha = true; decide +kernel
  | polygon _ => show "POLYGON".toList.all Char.isAlpha = true; decide +kernel
  | multipoint _ => show "MULTIPOINT".toList.all Char.isAlpha = true; decide +kernel
  | multilinestring _ => show "MULTILINESTRING".toList.all Char.isAlpha = true; decide +kernel
  | multipolygon _ => show "MULTIPOLYGON".toList.all Char.isAlpha = true; decide +kernel

theorem takeWhile_keyword (b : Body) (T : List Char) :
    (b.keyword ++ '(' :: T).takeWhile Char.isAlpha = b.keyword :=
  takeWhile_all _ _ (keyword_alpha b) _ _ (by decide)

end GV.Wkt
