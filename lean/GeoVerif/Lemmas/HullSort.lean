import GeoVerif.Lemmas.Hull
import Mathlib.Data.List.Sort
import Mathlib.Data.List.Nodup
import Mathlib.Data.List.Perm.Basic

/-!
# `sorted(set(..))`: dedup + stable merge sort gives the canonical strictly sorted list of the set
-/
namespace GV.Hull

theorem lexLe_iff (a b : Pt) : lexLe a b = true ↔ lexLt a b ∨ a = b := by
  unfold lexLe lexLt
  simp only [Bool.or_eq_true, Bool.and_eq_true, decide_eq_true_eq]
  constructor
  · rintro (h | ⟨h1, h2⟩)
    · exact Or.inl (Or.inl h)
    · rcases lt_or_eq_of_le h2 with h2 | h2
      · exact Or.inl (Or.inr ⟨h1, h2⟩)
      · exact Or.inr (Prod.ext h1 h2)
  · rintro ((h | ⟨h1, h2⟩) | rfl)
    · exact Or.inl h
    · exact Or.inr ⟨h1, le_of_lt h2⟩
    · exact Or.inr ⟨rfl, le_refl _⟩

theorem lexLe_trans (a b c : Pt) (h1 : lexLe a b = true) (h2 : lexLe b c = true) :
    lexLe a c = true := by
  rw [lexLe_iff] at *
  rcases h1 with h1 | rfl
  · rcases h2 with h2 | rfl
    · exact Or.inl (lexLt_trans h1 h2)
    · exact Or.inl h1
  · exact h2

theorem lexLe_total (a b : Pt) : (lexLe a b || lexLe b a) = true := by
  rw [Bool.or_eq_true, lexLe_iff, lexLe_iff]
  rcases lexLt_trichotomy a b with h | h | h
  · exact Or.inl (Or.inl h)
  · exact Or.inl (Or.inr h)
  · exact Or.inr (Or.inl h)

theorem nodup_eraseDups : ∀ (l : List Pt), l.eraseDups.Nodup
  | [] => by simp
  | a :: as => by
    rw [List.eraseDups_cons, List.nodup_cons]
    have : (as.filter fun b => !b == a).length < (a :: as).length :=
      Nat.lt_succ_of_le (List.length_filter_le _ _)
    refine ⟨?_, nodup_eraseDups _⟩
    rw [List.mem_eraseDups, List.mem_filter]
    simp
termination_by l => l.length

theorem mem_sortedSet {x : Pt} {pts : List Pt} : x ∈ sortedSet pts ↔ x ∈ pts := by
  unfold sortedSet
  rw [(List.mergeSort_perm _ _).mem_iff, List.mem_eraseDups]

theorem sortedSet_nodup (pts : List Pt) : (sortedSet pts).Nodup :=
  (List.mergeSort_perm _ _).nodup_iff.mpr (nodup_eraseDups pts)

/-- sorting a duplicate-free list with the tuple order gives a *strictly* increasing list -/
theorem mergeSort_strict {d : List Pt} (hd : d.Nodup) : (d.mergeSort lexLe).Pairwise lexLt := by
  have h1 := List.pairwise_mergeSort lexLe_trans lexLe_total d
  have h2 : (d.mergeSort lexLe).Nodup := (List.mergeSort_perm _ _).nodup_iff.mpr hd
  rw [List.Nodup] at h2
  refine (h1.and h2).imp ?_
  rintro a b ⟨hle, hne⟩
  rcases (lexLe_iff a b).mp hle with h | h
  · exact h
  · exact absurd h hne

/-- `sorted(set(..))` is strictly increasing in `(lon, lat)` (left open in the design probes) -/
theorem sortedSet_strict (pts : List Pt) : (sortedSet pts).Pairwise lexLt :=
  mergeSort_strict (nodup_eraseDups pts)

/-- a strictly increasing list is determined by its set of members -/
theorem strict_sorted_unique {l₁ l₂ : List Pt} (h₁ : l₁.Pairwise lexLt) (h₂ : l₂.Pairwise lexLt)
    (hm : ∀ x, x ∈ l₁ ↔ x ∈ l₂) : l₁ = l₂ := by
  have n₁ : l₁.Nodup := h₁.imp (fun {a b} h => by rintro rfl; exact lexLt_irrefl _ h)
  have n₂ : l₂.Nodup := h₂.imp (fun {a b} h => by rintro rfl; exact lexLt_irrefl _ h)
  have hp : l₁.Perm l₂ := (List.perm_ext_iff_of_nodup n₁ n₂).mpr hm
  exact List.Perm.eq_of_pairwise (fun a b _ _ hab hba => absurd hba (fun h => lexLt_asymm hab h))
    h₁ h₂ hp

/-- whatever order the Python `set` is iterated in, `sorted` returns the same list -/
theorem sortedSet_canonical (pts d : List Pt) (hd : d.Nodup) (hm : ∀ x, x ∈ d ↔ x ∈ pts) :
    d.mergeSort lexLe = sortedSet pts :=
  strict_sorted_unique (mergeSort_strict hd) (sortedSet_strict pts) (fun x => by
    rw [(List.mergeSort_perm _ _).mem_iff, hm, mem_sortedSet])

theorem sortedSet_congr {xs ys : List Pt} (h : ∀ x, x ∈ xs ↔ x ∈ ys) : sortedSet xs = sortedSet ys :=
  strict_sorted_unique (sortedSet_strict xs) (sortedSet_strict ys) (fun x => by
    rw [mem_sortedSet, mem_sortedSet, h])

end GV.Hull
