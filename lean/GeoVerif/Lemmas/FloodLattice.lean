import GeoVerif.Lemmas.Flood
import Mathlib.Algebra.Order.Floor.Ring
import Mathlib.Data.Rat.Floor
import Mathlib.Tactic.Linarith
import Mathlib.Tactic.Ring
import Mathlib.Tactic.Push
/-!
# Helper lemmas for `Props/C12Lattice`: the flood fill on the integer lattice

* generic (any cell type): `Reach` is transitive; the loop terminates as soon as the *touched* cells
  (not the whole grid) lie in a finite list `U` — the measure of `Lemmas/Flood` still drops, because
  an untouched neighbour outside `U` only grows `checked`;
* the lattice `Int × Int` with the 8-neighbourhood in the order of `_get_surrounding`
  (N, NE, E, SE, S, SW, W, NW), Manhattan distance, and the *split* principle
  `conn_of_split` from which both connectivity proofs (rectangle, segment) are derived;
* the grid geometry over `Rat`: cell boxes, monotonicity, the row containing a given ordinate,
  the finite block of cells between two floor indices;
* affine motion along a segment: crossing a grid line (`cross_axis`), one Liang–Barsky clipping
  axis (`clip_iff`).
-/
namespace GV.Flood
variable {C : Type} [DecidableEq C]

/-! ## generic: `Reach` composes -/

omit [DecidableEq C] in
theorem reach_trans {nbrs : C → List C} {touches : C → Bool} {a b c : C}
    (h1 : Reach nbrs touches a b) (h2 : Reach nbrs touches b c) : Reach nbrs touches a c := by
  induction h2 with
  | base => exact h1
  | step _ hn ht ih => exact Reach.step ih hn ht

/-! ## generic: termination when only the touched cells are known to be finitely many -/

/-- `visit_measure` without "the neighbours stay inside `U`": it is enough that every *touched* cell
    lies in `U` -/
theorem visit_measure_touched (touches : C → Bool) (U : List C) (hT : ∀ n, touches n = true → n ∈ U) :
    ∀ (ns : List C) (s : FState C), (∀ c ∈ s.queue, c ∈ U) →
    measure U (visit touches ns s) ≤ measure U s ∧ ∀ c ∈ (visit touches ns s).queue, c ∈ U
  | [], s, hq => ⟨le_refl _, hq⟩
  | n :: ns, s, hq => by
    unfold visit
    by_cases hc : n ∈ s.checked
    · simp only [hc, if_true]
      exact visit_measure_touched touches U hT ns s hq
    · simp only [hc, if_false]
      by_cases ht : touches n = true
      · simp only [ht, if_true]
        have hn : n ∈ U := hT n ht
        have hlt := unchecked_lt hn hc
        have hq' : ∀ c ∈ addSet n s.queue, c ∈ U := by
          intro c hc'
          rcases mem_addSet.mp hc' with rfl | h
          · exact hn
          · exact hq c h
        obtain ⟨m1, m2⟩ := visit_measure_touched touches U hT ns
          { valid := addSet n s.valid, checked := n :: s.checked, queue := addSet n s.queue } hq'
        refine ⟨le_trans m1 ?_, m2⟩
        have := length_addSet_le n s.queue
        simp only [measure]
        omega
      · simp only [ht, Bool.false_eq_true, if_false]
        have hmono := unchecked_mono U s.checked n
        obtain ⟨m1, m2⟩ := visit_measure_touched touches U hT ns { s with checked := n :: s.checked } hq
        refine ⟨le_trans m1 ?_, m2⟩
        simp only [measure]
        omega

theorem floodGo_terminates_touched {nbrs : C → List C} {touches : C → Bool} (U : List C)
    (hT : ∀ n, touches n = true → n ∈ U)
    (pick : List C → Option C) (hpick : ∀ q, q ≠ [] → ∃ gh, pick q = some gh ∧ gh ∈ q) :
    ∀ (fuel : Nat) (s : FState C), (∀ c ∈ s.queue, c ∈ U) → measure U s ≤ fuel →
      ∃ v, floodGo nbrs touches pick fuel s = some v := by
  intro fuel
  induction fuel with
  | zero =>
    intro s _ hm
    have : s.queue = [] := by
      have : s.queue.length = 0 := by simp only [measure] at hm; omega
      exact List.eq_nil_of_length_eq_zero this
    exact ⟨s.valid, by simp [floodGo, this]⟩
  | succ fuel ih =>
    intro s hq hm
    unfold floodGo
    cases hqq : s.queue with
    | nil => exact ⟨s.valid, rfl⟩
    | cons a as =>
      simp only
      obtain ⟨gh, hp, hmem⟩ := hpick (a :: as) (by simp)
      rw [hp]
      simp only
      rw [← hqq] at hmem ⊢
      have hq0 : ∀ c ∈ ({ s with queue := s.queue.erase gh } : FState C).queue, c ∈ U :=
        fun c hc => hq c (List.mem_of_mem_erase hc)
      obtain ⟨m1, m2⟩ := visit_measure_touched touches U hT (nbrs gh)
        { s with queue := s.queue.erase gh } hq0
      apply ih _ m2
      have hlen : (s.queue.erase gh).length = s.queue.length - 1 := List.length_erase_of_mem hmem
      have hpos : 0 < s.queue.length := List.length_pos_of_mem hmem
      simp only [measure] at m1 hm ⊢
      omega

/-- the loop started at a cell of `U` finishes within `|U| + 1` pops when all touched cells are in `U`
    (no closure of `U` under `nbrs` needed: the grid may be infinite) -/
theorem flood_terminates_touched {nbrs : C → List C} {touches : C → Bool} (U : List C)
    (hT : ∀ n, touches n = true → n ∈ U) (start : C) (hs : start ∈ U)
    (pick : List C → Option C) (hpick : ∀ q, q ≠ [] → ∃ gh, pick q = some gh ∧ gh ∈ q)
    (fuel : Nat) (hf : U.length + 1 ≤ fuel) :
    ∃ v, flood nbrs touches pick fuel start = some v := by
  unfold flood
  refine floodGo_terminates_touched U hT pick hpick fuel _ ?_ ?_
  · intro c hc; simp at hc; subst hc; exact hs
  · simp only [measure, unchecked, List.length_cons, List.length_nil]
    have : (U.filter fun c => decide (c ∉ ([] : List C))).length ≤ U.length := List.length_filter_le _ _
    omega

end GV.Flood

namespace GV.FloodLat
open GV.Flood

/-! ## the lattice -/

/-- a grid cell: (column, row) -/
abbrev Cell := Int × Int

/-- the 8 surrounding cells in the order of `NiemeyerHasher._get_surrounding`
    ("from directly above, then clockwise"): N, NE, E, SE, S, SW, W, NW -/
def nbrs8 (c : Cell) : List Cell :=
  [(c.1, c.2 + 1), (c.1 + 1, c.2 + 1), (c.1 + 1, c.2), (c.1 + 1, c.2 - 1),
   (c.1, c.2 - 1), (c.1 - 1, c.2 - 1), (c.1 - 1, c.2), (c.1 - 1, c.2 + 1)]

theorem mem_nbrs8 {a b : Cell} :
    a ∈ nbrs8 b ↔ a ≠ b ∧ (a.1 - b.1).natAbs ≤ 1 ∧ (a.2 - b.2).natAbs ≤ 1 := by
  obtain ⟨a1, a2⟩ := a
  obtain ⟨b1, b2⟩ := b
  simp only [nbrs8, List.mem_cons, Prod.mk.injEq, List.not_mem_nil, or_false, ne_eq]
  omega

theorem nbrs8_symm {a b : Cell} (h : a ∈ nbrs8 b) : b ∈ nbrs8 a := by
  rw [mem_nbrs8] at h ⊢
  obtain ⟨h1, h2, h3⟩ := h
  exact ⟨fun e => h1 e.symm, by omega, by omega⟩

/-- Manhattan distance `|Δi| + |Δj|` -/
def manh (a b : Cell) : Nat := (a.1 - b.1).natAbs + (a.2 - b.2).natAbs

theorem manh_comm (a b : Cell) : manh a b = manh b a := by
  unfold manh; omega

theorem manh_eq_zero {a b : Cell} (h : manh a b = 0) : a = b := by
  obtain ⟨a1, a2⟩ := a
  obtain ⟨b1, b2⟩ := b
  simp only [manh] at h
  simp only [Prod.mk.injEq]
  omega

/-- `Split T A B`: two adjacent touched cells `A₁, A₂` lying "between" `A` and `B` in the Manhattan
    sense (the special case `A₁ = A` is: a touched neighbour of `A` strictly closer to `B`) -/
def Split (T : Cell → Bool) (A B : Cell) : Prop :=
  ∃ A1 A2 : Cell, T A1 = true ∧ T A2 = true ∧ A2 ∈ nbrs8 A1 ∧ manh A A1 + 1 + manh A2 B ≤ manh A B

/-- **connectivity from the split principle**: if any two distinct touched cells can be split (in one
    of the two directions), every touched cell is reachable from every touched cell through touched
    neighbours — strong induction on the Manhattan distance -/
theorem conn_of_split (T : Cell → Bool)
    (H : ∀ A B, T A = true → T B = true → A ≠ B → Split T A B ∨ Split T B A) :
    ∀ (n : Nat) (A B : Cell), manh A B ≤ n → T A = true → T B = true → Reach nbrs8 T A B := by
  intro n
  induction n with
  | zero =>
    intro A B hm _ _
    have : A = B := manh_eq_zero (by omega)
    subst this; exact Reach.base
  | succ n ih =>
    intro A B hm hA hB
    by_cases hAB : A = B
    · subst hAB; exact Reach.base
    · rcases H A B hA hB hAB with ⟨A1, A2, h1, h2, hn, hle⟩ | ⟨B1, B2, h1, h2, hn, hle⟩
      · have r1 : Reach nbrs8 T A A1 := ih A A1 (by omega) hA h1
        have r2 : Reach nbrs8 T A A2 := Reach.step r1 hn h2
        exact reach_trans r2 (ih A2 B (by omega) h2 hB)
      · -- B —> B1 ~ B2 —> A, walked backwards
        have e1 := manh_comm B B1
        have e2 := manh_comm B2 A
        have e3 := manh_comm A B
        have r1 : Reach nbrs8 T A B2 := ih A B2 (by omega) hA h2
        have r2 : Reach nbrs8 T A B1 := Reach.step r1 (nbrs8_symm hn) h1
        exact reach_trans r2 (ih B1 B (by omega) h1 hB)

/-! ## the grid over `Rat` -/

/-- origin `(x0, y0)`, cell width `w > 0`, cell height `h > 0` -/
structure Grid where
  x0 : Rat
  y0 : Rat
  w : Rat
  h : Rat
  hw : 0 < w
  hh : 0 < h

/-- left / right / bottom / top edge of column `i` / row `j` -/
def xlo (g : Grid) (i : Int) : Rat := g.x0 + (i : Rat) * g.w
def xhi (g : Grid) (i : Int) : Rat := g.x0 + ((i : Rat) + 1) * g.w
def ylo (g : Grid) (j : Int) : Rat := g.y0 + (j : Rat) * g.h
def yhi (g : Grid) (j : Int) : Rat := g.y0 + ((j : Rat) + 1) * g.h

/-- the point `(x, y)` lies in the closed box of cell `c` -/
def InBox (g : Grid) (c : Cell) (x y : Rat) : Prop :=
  xlo g c.1 ≤ x ∧ x ≤ xhi g c.1 ∧ ylo g c.2 ≤ y ∧ y ≤ yhi g c.2

/-- one axis: origin `o`, step `s`; `lo1 o s i = o + i·s`.  All monotonicity facts are proved once
    for an axis and used for both coordinates. -/
def lo1 (o s : Rat) (i : Int) : Rat := o + (i : Rat) * s
def hi1 (o s : Rat) (i : Int) : Rat := o + ((i : Rat) + 1) * s

theorem xlo_eq (g : Grid) (i : Int) : xlo g i = lo1 g.x0 g.w i := rfl
theorem xhi_eq (g : Grid) (i : Int) : xhi g i = hi1 g.x0 g.w i := rfl
theorem ylo_eq (g : Grid) (j : Int) : ylo g j = lo1 g.y0 g.h j := rfl
theorem yhi_eq (g : Grid) (j : Int) : yhi g j = hi1 g.y0 g.h j := rfl

theorem hi1_eq_lo1_succ (o s : Rat) (i : Int) : hi1 o s i = lo1 o s (i + 1) := by
  unfold hi1 lo1; push_cast; ring

theorem lo1_mono {o s : Rat} (hs : 0 < s) {i i' : Int} (h : i ≤ i') : lo1 o s i ≤ lo1 o s i' := by
  unfold lo1
  have : (i : Rat) ≤ (i' : Rat) := by exact_mod_cast h
  have := mul_le_mul_of_nonneg_right this hs.le
  linarith

theorem hi1_mono {o s : Rat} (hs : 0 < s) {i i' : Int} (h : i ≤ i') : hi1 o s i ≤ hi1 o s i' := by
  rw [hi1_eq_lo1_succ, hi1_eq_lo1_succ]; exact lo1_mono hs (by omega)

theorem lo1_le_hi1 {o s : Rat} (hs : 0 < s) (i : Int) : lo1 o s i ≤ hi1 o s i := by
  rw [hi1_eq_lo1_succ]; exact lo1_mono hs (by omega)

/-- `i < i'` puts the right edge of `i` at or left of the left edge of `i'` -/
theorem hi1_le_lo1 {o s : Rat} (hs : 0 < s) {i i' : Int} (h : i < i') : hi1 o s i ≤ lo1 o s i' := by
  rw [hi1_eq_lo1_succ]; exact lo1_mono hs (by omega)

/-- if the closed slabs `i` and `i'` share a point they are equal or adjacent -/
theorem slab_adjacent {o s : Rat} (hs : 0 < s) {i i' : Int} {x : Rat}
    (h1 : lo1 o s i ≤ x) (h2 : x ≤ hi1 o s i) (h3 : lo1 o s i' ≤ x) (h4 : x ≤ hi1 o s i') :
    (i - i').natAbs ≤ 1 := by
  by_contra hc
  have hlt : ∀ {a b : Int}, a + 1 < b → hi1 o s a < lo1 o s b := by
    intro a b hab
    have e : lo1 o s (a + 1) < lo1 o s b := by
      unfold lo1
      have : ((a + 1 : Int) : Rat) < (b : Rat) := by exact_mod_cast hab
      have := mul_lt_mul_of_pos_right this hs
      linarith
    rw [hi1_eq_lo1_succ]; exact e
  rcases lt_or_ge (i + 1) i' with h | h
  · have := hlt h; linarith
  · rcases lt_or_ge (i' + 1) i with h' | h'
    · have := hlt h'; linarith
    · omega

/-- **the slab containing an ordinate**: an ordinate between the bottom of slab `jl` and the top of
    slab `jh` (`jl ≤ jh`) lies in some closed slab `j` with `jl ≤ j ≤ jh` -/
theorem exists_slab_between {o s : Rat} (y : Rat) :
    ∀ (n : Nat) (jl jh : Int), jh - jl = n → lo1 o s jl ≤ y → y ≤ hi1 o s jh →
      ∃ j, jl ≤ j ∧ j ≤ jh ∧ lo1 o s j ≤ y ∧ y ≤ hi1 o s j := by
  intro n
  induction n with
  | zero =>
    intro jl jh hn h1 h2
    have : jh = jl := by omega
    subst this
    exact ⟨jh, le_refl _, le_refl _, h1, h2⟩
  | succ n ih =>
    intro jl jh hn h1 h2
    by_cases hy : y ≤ hi1 o s jl
    · exact ⟨jl, le_refl _, by omega, h1, hy⟩
    · have h1' : lo1 o s (jl + 1) ≤ y := by
        rw [← hi1_eq_lo1_succ]; exact le_of_lt (lt_of_not_ge hy)
      obtain ⟨j, a, b, c, d⟩ := ih (jl + 1) jh (by omega) h1' h2
      exact ⟨j, by omega, b, c, d⟩

/-- the same for an ordinate between two ordinates `ya` (in slab `j1`) and `yb` (in slab `j2`), in
    whichever order: the slab found lies between `j1` and `j2` -/
theorem exists_slab_mid {o s : Rat} (hs : 0 < s) {ya yb y : Rat} {j1 j2 : Int}
    (a1 : lo1 o s j1 ≤ ya) (a2 : ya ≤ hi1 o s j1) (b1 : lo1 o s j2 ≤ yb) (b2 : yb ≤ hi1 o s j2)
    (hy : (ya ≤ y ∧ y ≤ yb) ∨ (yb ≤ y ∧ y ≤ ya)) :
    ∃ j, lo1 o s j ≤ y ∧ y ≤ hi1 o s j ∧ (j1 - j).natAbs + (j - j2).natAbs = (j1 - j2).natAbs := by
  rcases le_total j1 j2 with h | h
  · have l : lo1 o s j1 ≤ y := by
      have := lo1_mono (o := o) hs h
      rcases hy with ⟨p, _⟩ | ⟨p, _⟩ <;> linarith
    have u : y ≤ hi1 o s j2 := by
      have := hi1_mono (o := o) hs h
      rcases hy with ⟨_, p⟩ | ⟨_, p⟩ <;> linarith
    obtain ⟨j, c1, c2, c3, c4⟩ := exists_slab_between y (j2 - j1).toNat j1 j2 (by omega) l u
    exact ⟨j, c3, c4, by omega⟩
  · have l : lo1 o s j2 ≤ y := by
      have := lo1_mono (o := o) hs h
      rcases hy with ⟨p, _⟩ | ⟨p, _⟩ <;> linarith
    have u : y ≤ hi1 o s j1 := by
      have := hi1_mono (o := o) hs h
      rcases hy with ⟨_, p⟩ | ⟨_, p⟩ <;> linarith
    obtain ⟨j, c1, c2, c3, c4⟩ := exists_slab_between y (j1 - j2).toNat j2 j1 (by omega) l u
    exact ⟨j, c3, c4, by omega⟩

/-! ## floor indices and the finite block of cells -/

/-- `lo1 i ≤ b ↔ i ≤ ⌊(b − o)/s⌋` -/
theorem lo1_le_iff {o s : Rat} (hs : 0 < s) (i : Int) (b : Rat) :
    lo1 o s i ≤ b ↔ i ≤ ⌊(b - o) / s⌋ := by
  rw [Int.le_floor, le_div_iff₀ hs]
  unfold lo1
  constructor <;> intro h <;> linarith

/-- `a ≤ hi1 i ↔ ⌈(a − o)/s⌉ − 1 ≤ i` -/
theorem le_hi1_iff {o s : Rat} (hs : 0 < s) (i : Int) (a : Rat) :
    a ≤ hi1 o s i ↔ ⌈(a - o) / s⌉ - 1 ≤ i := by
  have : ⌈(a - o) / s⌉ - 1 ≤ i ↔ ⌈(a - o) / s⌉ ≤ i + 1 := by omega
  rw [this, Int.ceil_le, div_le_iff₀ hs]
  unfold hi1
  push_cast
  constructor <;> intro h <;> linarith

/-- the slab of an ordinate: `⌊(x − o)/s⌋` -/
def idx1 (o s x : Rat) : Int := ⌊(x - o) / s⌋

theorem idx1_spec {o s : Rat} (hs : 0 < s) (x : Rat) :
    lo1 o s (idx1 o s x) ≤ x ∧ x ≤ hi1 o s (idx1 o s x) := by
  constructor
  · rw [lo1_le_iff hs]; exact le_refl _
  · have h := Int.lt_floor_add_one ((x - o) / s)
    rw [div_lt_iff₀ hs] at h
    unfold hi1 idx1
    linarith

/-- `lo, lo+1, …, lo+n−1` -/
def intRange (lo : Int) (n : Nat) : List Int := (List.range n).map fun (k : Nat) => lo + (k : Int)

theorem mem_intRange {lo : Int} {n : Nat} {i : Int} : i ∈ intRange lo n ↔ lo ≤ i ∧ i < lo + n := by
  unfold intRange
  rw [List.mem_map]
  constructor
  · rintro ⟨k, hk, rfl⟩
    rw [List.mem_range] at hk
    omega
  · rintro ⟨h1, h2⟩
    exact ⟨(i - lo).toNat, List.mem_range.mpr (by omega), by omega⟩

theorem length_intRange (lo : Int) (n : Nat) : (intRange lo n).length = n := by simp [intRange]

/-- the cells `[il, ih] × [jl, jh]`, column by column -/
def block (il ih jl jh : Int) : List Cell :=
  (intRange il (ih + 1 - il).toNat).flatMap fun i => (intRange jl (jh + 1 - jl).toNat).map fun j => (i, j)

theorem mem_block {il ih jl jh : Int} {c : Cell} :
    c ∈ block il ih jl jh ↔ il ≤ c.1 ∧ c.1 ≤ ih ∧ jl ≤ c.2 ∧ c.2 ≤ jh := by
  obtain ⟨i, j⟩ := c
  simp only [block, List.mem_flatMap, List.mem_map, mem_intRange, Prod.mk.injEq]
  constructor
  · rintro ⟨i', hi, j', hj, rfl, rfl⟩; omega
  · rintro ⟨h1, h2, h3, h4⟩
    exact ⟨i, by omega, j, by omega, rfl, rfl⟩

theorem length_block (il ih jl jh : Int) :
    (block il ih jl jh).length = (ih + 1 - il).toNat * (jh + 1 - jl).toNat := by
  simp only [block, List.length_flatMap, List.length_map, length_intRange]
  simp [length_intRange]

/-! ## affine motion along a segment -/

/-- linear intermediate value: a level between two values is a convex combination of them -/
theorem exists_lambda {a b X : Rat} (h1 : a ≤ X) (h2 : X ≤ b) :
    ∃ l : Rat, 0 ≤ l ∧ l ≤ 1 ∧ a + l * (b - a) = X := by
  by_cases hab : a = b
  · subst hab
    exact ⟨0, le_refl _, by norm_num, by linarith⟩
  · have hpos : 0 < b - a := by
      rcases lt_or_eq_of_le (le_trans h1 h2) with h | h
      · linarith
      · exact absurd h hab
    refine ⟨(X - a) / (b - a), div_nonneg (by linarith) hpos.le, ?_, ?_⟩
    · rw [div_le_one hpos]; linarith
    · rw [div_mul_cancel₀ _ hpos.ne']; ring

/-- a convex combination lies between its ends -/
theorem lambda_between {a b l : Rat} (h0 : 0 ≤ l) (h1 : l ≤ 1) :
    (a ≤ a + l * (b - a) ∧ a + l * (b - a) ≤ b) ∨ (b ≤ a + l * (b - a) ∧ a + l * (b - a) ≤ a) := by
  rcases le_total a b with h | h
  · left
    have e1 : 0 ≤ l * (b - a) := mul_nonneg h0 (by linarith)
    have e2 : 0 ≤ (1 - l) * (b - a) := mul_nonneg (by linarith) (by linarith)
    constructor <;> nlinarith
  · right
    have e1 : 0 ≤ l * (a - b) := mul_nonneg h0 (by linarith)
    have e2 : 0 ≤ (1 - l) * (a - b) := mul_nonneg (by linarith) (by linarith)
    constructor <;> nlinarith

/-- **crossing a grid line**: a point moves affinely, `(p1 + u·d1, p2 + u·d2)`.  At parameter `s` it
    is in slab `i1` of axis 1 and slab `j1` of axis 2, at parameter `t` in slabs `i2 > i1` and `j2`.
    Then at some parameter `u` between `s` and `t` it is on the grid line between slabs `i1` and
    `i1 + 1` of axis 1, and in a slab `j` of axis 2 that lies between `j1` and `j2`. -/
theorem cross_axis {o1 s1 o2 s2 : Rat} (hs1 : 0 < s1) (hs2 : 0 < s2) {p1 d1 p2 d2 s t : Rat}
    (s0 : 0 ≤ s) (s1' : s ≤ 1) (t0 : 0 ≤ t) (t1 : t ≤ 1) {i1 i2 j1 j2 : Int}
    (_a1 : lo1 o1 s1 i1 ≤ p1 + s * d1) (a2 : p1 + s * d1 ≤ hi1 o1 s1 i1)
    (a3 : lo1 o2 s2 j1 ≤ p2 + s * d2) (a4 : p2 + s * d2 ≤ hi1 o2 s2 j1)
    (b1 : lo1 o1 s1 i2 ≤ p1 + t * d1) (_b2 : p1 + t * d1 ≤ hi1 o1 s1 i2)
    (b3 : lo1 o2 s2 j2 ≤ p2 + t * d2) (b4 : p2 + t * d2 ≤ hi1 o2 s2 j2) (hi : i1 < i2) :
    ∃ (u : Rat) (j : Int), 0 ≤ u ∧ u ≤ 1 ∧ p1 + u * d1 = hi1 o1 s1 i1 ∧
      lo1 o2 s2 j ≤ p2 + u * d2 ∧ p2 + u * d2 ≤ hi1 o2 s2 j ∧
      (j1 - j).natAbs + (j - j2).natAbs = (j1 - j2).natAbs := by
  have hX : hi1 o1 s1 i1 ≤ p1 + t * d1 := le_trans (hi1_le_lo1 hs1 hi) b1
  obtain ⟨l, l0, l1, hl⟩ := exists_lambda a2 hX
  have hu0 : 0 ≤ s + l * (t - s) := by
    have e1 : 0 ≤ (1 - l) * s := mul_nonneg (by linarith) s0
    have e2 : 0 ≤ l * t := mul_nonneg l0 t0
    nlinarith
  have hu1 : s + l * (t - s) ≤ 1 := by
    have e1 : 0 ≤ (1 - l) * (1 - s) := mul_nonneg (by linarith) (by linarith)
    have e2 : 0 ≤ l * (1 - t) := mul_nonneg l0 (by linarith)
    nlinarith
  have ex : p1 + (s + l * (t - s)) * d1 = hi1 o1 s1 i1 := by rw [← hl]; ring
  have ey : p2 + (s + l * (t - s)) * d2 = (p2 + s * d2) + l * ((p2 + t * d2) - (p2 + s * d2)) := by ring
  have hb := lambda_between (a := p2 + s * d2) (b := p2 + t * d2) l0 l1
  rw [← ey] at hb
  obtain ⟨j, c1, c2, c3⟩ := exists_slab_mid hs2 a3 a4 b3 b4 hb
  exact ⟨s + l * (t - s), j, hu0, hu1, ex, c1, c2, c3⟩

/-! ## one clipping axis (Liang–Barsky) -/

/-- the axis lets some parameter through: it moves, or it stands inside `[lo, hi]` -/
def clipOk (p d lo hi : Rat) : Bool := decide (d ≠ 0 ∨ (lo ≤ p ∧ p ≤ hi))
/-- smallest / largest parameter `t` with `lo ≤ p + t·d ≤ hi` (`0` / `1` when `d = 0`) -/
def clipLo (p d lo hi : Rat) : Rat := if 0 < d then (lo - p) / d else if d < 0 then (hi - p) / d else 0
def clipHi (p d lo hi : Rat) : Rat := if 0 < d then (hi - p) / d else if d < 0 then (lo - p) / d else 1

theorem clip_iff (p d lo hi t : Rat) (t0 : 0 ≤ t) (t1 : t ≤ 1) :
    (lo ≤ p + t * d ∧ p + t * d ≤ hi) ↔
      (clipOk p d lo hi = true ∧ clipLo p d lo hi ≤ t ∧ t ≤ clipHi p d lo hi) := by
  unfold clipOk clipLo clipHi
  rcases lt_trichotomy 0 d with hd | hd | hd
  · have hne : d ≠ 0 := hd.ne'
    simp only [hd, if_true, decide_eq_true_eq, hne, ne_eq, not_false_eq_true, true_or, true_and]
    rw [div_le_iff₀ hd, le_div_iff₀ hd]
    constructor <;> rintro ⟨h1, h2⟩ <;> constructor <;> linarith
  · subst hd
    simp only [lt_irrefl, if_false, decide_eq_true_eq, ne_eq, not_true_eq_false, false_or, mul_zero,
      add_zero]
    constructor
    · rintro ⟨h1, h2⟩; exact ⟨⟨h1, h2⟩, t0, t1⟩
    · rintro ⟨h, _, _⟩; exact h
  · have hne : d ≠ 0 := hd.ne
    have hn : ¬ 0 < d := not_lt.mpr hd.le
    simp only [hn, hd, if_false, if_true, decide_eq_true_eq, hne, ne_eq, not_false_eq_true, true_or,
      true_and]
    rw [div_le_iff_of_neg hd, le_div_iff_of_neg hd]
    constructor <;> rintro ⟨h1, h2⟩ <;> constructor <;> linarith

end GV.FloodLat
