import GeoVerif.Model.Track
import GeoVerif.Lemmas.Collection
import Mathlib.Data.List.Nodup
import Mathlib.Data.List.Chain
import Mathlib.Data.List.Perm.Basic
/-!
# Helper lemmas for C17: the journey loop as a structural recursion, the grouping dict, duplicates
-/
namespace GV.Coll.Track

/-- the class invariant of `Track` -/
def TrackWF (c : Coll) : Prop := c.tag = .track ∧ Sorted c.shapes ∧ ∀ x ∈ c.shapes, x.dt ≠ none

theorem mkTrack_wf {l : List Shape} {t : Coll} (h : mkTrack l = .ok t) : TrackWF t := by
  obtain ⟨ht, rfl⟩ := mkTrack_inv h
  exact ⟨rfl, sortByStart_sorted l, fun x hx => ht x (mem_sortByStart.mp hx)⟩

theorem rewrap_track_wf {l : List Shape} {t : Coll} (h : rewrap .track l = .ok t) : TrackWF t :=
  mkTrack_wf h

/-- a sub-sequence of a well-formed track passes the constructor unchanged -/
theorem mkTrack_sublist {c : Coll} (hc : TrackWF c) {l : List Shape} (hl : l.Sublist c.shapes) :
    mkTrack l = .ok ⟨.track, l⟩ :=
  mkTrack_sorted_id (fun x hx => hc.2.2 x (hl.subset hx)) (hc.2.1.sublist hl)

/-! ### `filter_impossible_journeys` -/

/-- `y` can be reached from `x` within the speed limit: the time stamps differ and
    `(0 if dx == 0 else dx / dt) <= max_speed` -/
def reach (dist : Shape → Shape → Rat) (v : Rat) (x y : Shape) : Bool :=
  !(dtSeconds x y == 0) && decide ((if dist x y == 0 then 0 else dist x y / dtSeconds x y) ≤ v)

/-- the loop as a structural recursion: `last` is `self.geoshapes[i]` -/
def greedy (dist : Shape → Shape → Rat) (v : Rat) : Shape → List Shape → List Shape
  | _, [] => []
  | last, y :: ys => if reach dist v last y then y :: greedy dist v y ys else greedy dist v last ys

/-- the shape `self.geoshapes[i]` when the loop ends -/
def lastKept (dist : Shape → Shape → Rat) (v : Rat) : Shape → List Shape → Shape
  | last, [] => last
  | last, y :: ys => if reach dist v last y then lastKept dist v y ys else lastKept dist v last ys

/-- what `filter_impossible_journeys` keeps of a non-empty chronological list -/
def kept (dist : Shape → Shape → Rat) (v : Rat) : List Shape → List Shape
  | [] => []
  | f :: r => f :: greedy dist v f r

theorem journeyStep_eq (dist : Shape → Shape → Rat) (v : Rat) (l : List Shape) (i j : Nat)
    (acc : List Shape) (x y : Shape) (hx : l[i]? = some x) (hy : l[j]? = some y) :
    journeyStep dist v l (i, acc) j = if reach dist v x y then (j, acc ++ [y]) else (i, acc) := by
  have ex : l[i]! = x := by simp [hx]
  have ey : l[j]! = y := by simp [hy]
  unfold journeyStep reach
  simp only [ex, ey]
  by_cases h0 : (dtSeconds x y == 0) = true
  · simp [h0]
  · simp only [h0, Bool.false_eq_true, if_false, Bool.not_false, Bool.true_and, decide_eq_true_eq]

theorem journeys_fold (dist : Shape → Shape → Rat) (v : Rat) (rest pre : List Shape) (i : Nat)
    (acc : List Shape) (x : Shape) (hx : pre[i]? = some x) :
    ((List.range' pre.length rest.length).foldl (journeyStep dist v (pre ++ rest)) (i, acc)).2 =
      acc ++ greedy dist v x rest := by
  induction rest generalizing pre i acc x with
  | nil => simp [greedy]
  | cons y ys ih =>
    have hi : i < pre.length := by
      by_contra hc
      rw [List.getElem?_eq_none_iff.mpr (by omega)] at hx; cases hx
    have hxi : (pre ++ y :: ys)[i]? = some x := by rw [List.getElem?_append_left hi]; exact hx
    have hyj : (pre ++ y :: ys)[pre.length]? = some y := by
      rw [List.getElem?_append_right (le_refl _)]; simp
    simp only [List.length_cons, List.range'_succ, List.foldl_cons]
    rw [journeyStep_eq dist v _ i pre.length acc x y hxi hyj]
    have hsplit : pre ++ y :: ys = (pre ++ [y]) ++ ys := by simp
    have hlen : pre.length + 1 = (pre ++ [y]).length := by simp
    rw [hsplit, hlen]
    by_cases hr : reach dist v x y = true
    · simp only [hr, if_true, greedy]
      rw [ih (pre ++ [y]) pre.length (acc ++ [y]) y (by simp)]
      simp
    · simp only [hr, Bool.false_eq_true, if_false, greedy]
      rw [ih (pre ++ [y]) i acc x (by rw [List.getElem?_append_left hi]; exact hx)]

theorem greedy_sublist (dist : Shape → Shape → Rat) (v : Rat) (last : Shape) (l : List Shape) :
    (greedy dist v last l).Sublist l := by
  induction l generalizing last with
  | nil => simp [greedy]
  | cons y ys ih =>
    simp only [greedy]
    split
    · exact (ih y).cons_cons y
    · exact (ih last).cons y

theorem kept_sublist (dist : Shape → Shape → Rat) (v : Rat) (l : List Shape) : (kept dist v l).Sublist l := by
  cases l with
  | nil => simp [kept]
  | cons f r => exact (greedy_sublist dist v f r).cons_cons f

theorem greedy_snoc (dist : Shape → Shape → Rat) (v : Rat) (last : Shape) (ys : List Shape) (x : Shape) :
    greedy dist v last (ys ++ [x]) =
      greedy dist v last ys ++ (if reach dist v (lastKept dist v last ys) x then [x] else []) := by
  induction ys generalizing last with
  | nil =>
    have e : lastKept dist v last [] = last := rfl
    rw [e]
    by_cases hr : reach dist v last x = true <;> simp [greedy, hr]
  | cons y ys ih =>
    simp only [List.cons_append, greedy, lastKept]
    by_cases hr : reach dist v last y = true
    · simp only [hr, if_true, ih y, List.cons_append]
    · simp only [hr, Bool.false_eq_true, if_false, ih last]

theorem getLast_greedy (dist : Shape → Shape → Rat) (v : Rat) (last : Shape) (ys : List Shape) :
    (last :: greedy dist v last ys).getLast (by simp) = lastKept dist v last ys := by
  induction ys generalizing last with
  | nil => simp [greedy, lastKept]
  | cons y ys ih =>
    simp only [greedy, lastKept]
    by_cases hr : reach dist v last y = true
    · simp only [hr, if_true]
      rw [List.getLast_cons (by simp)]
      exact ih y
    · simp only [hr, Bool.false_eq_true, if_false]
      exact ih last

theorem greedy_chain (dist : Shape → Shape → Rat) (v : Rat) (last : Shape) (l : List Shape) :
    List.IsChain (fun a b => reach dist v a b = true) (last :: greedy dist v last l) := by
  induction l generalizing last with
  | nil => simp [greedy]
  | cons y ys ih =>
    simp only [greedy]
    by_cases hr : reach dist v last y = true
    · simp only [hr, if_true]
      exact List.isChain_cons_cons.mpr ⟨hr, ih y⟩
    · simp only [hr, Bool.false_eq_true, if_false]
      exact ih last

theorem kept_chain (dist : Shape → Shape → Rat) (v : Rat) (l : List Shape) :
    List.IsChain (fun a b => reach dist v a b = true) (kept dist v l) := by
  cases l with
  | nil => simp [kept]
  | cons f r => exact greedy_chain dist v f r

/-! ### duplicates and the grouping dict -/

theorem hasDupLoop_false_iff (l : List Shape) (seen : List (Option TI)) :
    hasDupLoop l seen = false ↔ (l.map (·.dt)).Nodup ∧ ∀ x ∈ l, x.dt ∉ seen := by
  induction l generalizing seen with
  | nil => simp [hasDupLoop]
  | cons p rest ih =>
    simp only [hasDupLoop, List.map_cons, List.nodup_cons, List.mem_cons, forall_eq_or_imp]
    by_cases hc : seen.contains p.dt = true
    · simp only [hc, if_true, Bool.true_eq_false, false_iff]
      have : p.dt ∈ seen := by simpa using hc
      intro h; exact h.2.1 this
    · simp only [hc, Bool.false_eq_true, if_false]
      have hn : p.dt ∉ seen := by simpa using hc
      rw [ih]
      simp only [List.mem_cons, not_or, List.mem_map, not_exists, not_and]
      constructor
      · rintro ⟨h1, h2⟩
        exact ⟨⟨fun x hx he => (h2 x hx).1 he, h1⟩, hn, fun x hx => (h2 x hx).2⟩
      · rintro ⟨⟨h1, h2⟩, _, h4⟩
        exact ⟨h2, fun x hx => ⟨fun he => h1 x hx he, h4 x hx⟩⟩

theorem groupInsert_keys (g : List (Option TI × List Shape)) (p : Shape) :
    (groupInsert g p).map (·.1) =
      if p.dt ∈ g.map (·.1) then g.map (·.1) else g.map (·.1) ++ [p.dt] := by
  induction g with
  | nil => simp [groupInsert]
  | cons kg rest ih =>
    obtain ⟨k, ps⟩ := kg
    simp only [groupInsert]
    by_cases hk : (k == p.dt) = true
    · have : k = p.dt := by simpa using hk
      simp [this]
    · have hne : ¬ k = p.dt := by simpa using hk
      simp only [hk, Bool.false_eq_true, if_false, List.map_cons, ih, List.mem_cons]
      have hne' : ¬ p.dt = k := fun h => hne h.symm
      simp only [hne', false_or]
      split <;> simp

theorem groupInsert_members (g : List (Option TI × List Shape)) (p : Shape)
    (h : ∀ kg ∈ g, kg.2 ≠ [] ∧ ∀ x ∈ kg.2, x.dt = kg.1) :
    ∀ kg ∈ groupInsert g p, kg.2 ≠ [] ∧ ∀ x ∈ kg.2, x.dt = kg.1 := by
  induction g with
  | nil =>
    intro kg hkg
    simp only [groupInsert, List.mem_singleton] at hkg
    subst hkg; simp
  | cons a rest ih =>
    obtain ⟨k, ps⟩ := a
    intro kg hkg
    simp only [groupInsert] at hkg
    have hrest : ∀ kg ∈ rest, kg.2 ≠ [] ∧ ∀ x ∈ kg.2, x.dt = kg.1 :=
      fun kg hk => h kg (List.mem_cons_of_mem _ hk)
    have hhead := h (k, ps) List.mem_cons_self
    by_cases hk : (k == p.dt) = true
    · have hkp : k = p.dt := by simpa using hk
      simp only [hk, if_true, List.mem_cons] at hkg
      rcases hkg with rfl | hkg
      · refine ⟨by simp, ?_⟩
        intro x hx
        rcases List.mem_append.mp hx with hx | hx
        · exact hhead.2 x hx
        · simp only [List.mem_singleton] at hx; subst hx; exact hkp.symm
      · exact hrest kg hkg
    · simp only [hk, Bool.false_eq_true, if_false, List.mem_cons] at hkg
      rcases hkg with rfl | hkg
      · exact hhead
      · exact ih hrest kg hkg

/-- each group is the sub-sequence of the inserted shapes with that time stamp -/
theorem groupInsert_groups (g : List (Option TI × List Shape)) (l : List Shape) (p : Shape)
    (hn : (g.map (·.1)).Nodup)
    (h : ∀ kg ∈ g, kg.2 = l.filter (fun x => x.dt == kg.1))
    (hnone : (∃ x ∈ l, x.dt = p.dt) → p.dt ∈ g.map (·.1)) :
    ∀ kg ∈ groupInsert g p, kg.2 = (l ++ [p]).filter (fun x => x.dt == kg.1) := by
  induction g with
  | nil =>
    intro kg hkg
    simp only [groupInsert, List.mem_singleton] at hkg
    subst hkg
    have hl : l.filter (fun x => x.dt == p.dt) = [] := by
      rw [List.filter_eq_nil_iff]
      intro x hx hc
      have : x.dt = p.dt := by simpa using hc
      have := hnone ⟨x, hx, this⟩
      simp at this
    simp [List.filter_append, hl]
  | cons a rest ih =>
    obtain ⟨k, ps⟩ := a
    intro kg hkg
    simp only [groupInsert] at hkg
    have hhead := h (k, ps) List.mem_cons_self
    simp only at hhead
    have hrest : ∀ kg ∈ rest, kg.2 = l.filter (fun x => x.dt == kg.1) :=
      fun kg hk => h kg (List.mem_cons_of_mem _ hk)
    simp only [List.map_cons, List.nodup_cons] at hn
    by_cases hk : (k == p.dt) = true
    · have hkp : k = p.dt := by simpa using hk
      simp only [hk, if_true, List.mem_cons] at hkg
      rcases hkg with rfl | hkg
      · simp [List.filter_append, hhead, hkp]
      · have hne : ¬ (p.dt = kg.1) := by
          intro he
          apply hn.1
          rw [hkp, he]
          exact List.mem_map_of_mem hkg
        have : (p.dt == kg.1) = false := by simpa using hne
        simp [List.filter_append, hrest kg hkg, this]
    · have hkp : ¬ k = p.dt := by simpa using hk
      simp only [hk, Bool.false_eq_true, if_false, List.mem_cons] at hkg
      rcases hkg with rfl | hkg
      · have : (p.dt == k) = false := by
          simp only [beq_eq_false_iff_ne, ne_eq]; exact fun he => hkp he.symm
        simp [List.filter_append, hhead, this]
      · apply ih hn.2 hrest _ kg hkg
        intro hx
        have := hnone hx
        simp only [List.map_cons, List.mem_cons] at this
        rcases this with h1 | h1
        · exact absurd h1.symm hkp
        · exact h1

/-- invariant of the grouping dict after the shapes `l` have been inserted -/
structure GInv (g : List (Option TI × List Shape)) (l : List Shape) : Prop where
  nodup : (g.map (·.1)).Nodup
  members : ∀ kg ∈ g, kg.2 ≠ [] ∧ ∀ x ∈ kg.2, x.dt = kg.1
  keys : ∀ d, d ∈ g.map (·.1) ↔ d ∈ l.map (·.dt)
  groups : ∀ kg ∈ g, kg.2 = l.filter (fun x => x.dt == kg.1)

theorem GInv.insert {g : List (Option TI × List Shape)} {l : List Shape} (h : GInv g l) (p : Shape) :
    GInv (groupInsert g p) (l ++ [p]) := by
  refine ⟨?_, groupInsert_members g p h.members, ?_, ?_⟩
  rotate_left 2
  · apply groupInsert_groups g l p h.nodup h.groups
    rintro ⟨x, hx, he⟩
    rw [h.keys]
    exact List.mem_map.mpr ⟨x, hx, he⟩
  · rw [groupInsert_keys]
    split
    · exact h.nodup
    · rename_i hn
      rw [List.nodup_append]
      refine ⟨h.nodup, by simp, ?_⟩
      intro a ha b hb
      simp only [List.mem_singleton] at hb
      subst hb
      intro he; subst he; exact hn ha
  · intro d
    rw [groupInsert_keys]
    simp only [List.map_append, List.map_cons, List.map_nil, List.mem_append, List.mem_singleton]
    split
    · rename_i hm
      rw [h.keys d]
      constructor
      · intro hd; left; exact hd
      · rintro (hd | hd)
        · exact hd
        · subst hd; exact (h.keys _).mp hm
    · simp only [List.mem_append, List.mem_singleton]
      rw [h.keys d]

theorem foldl_groupInsert_inv (l' : List Shape) (g : List (Option TI × List Shape)) (l : List Shape)
    (h : GInv g l) : GInv (l'.foldl groupInsert g) (l ++ l') := by
  induction l' generalizing g l with
  | nil => simpa using h
  | cons p rest ih =>
    simp only [List.foldl_cons]
    have := ih (groupInsert g p) (l ++ [p]) (h.insert p)
    simpa using this

theorem groupByDt_inv (l : List Shape) : GInv (groupByDt l) l := by
  have := foldl_groupInsert_inv l [] [] ⟨by simp, by simp, by simp, by simp⟩
  simpa [groupByDt] using this

theorem convolveGroup_dt (kg : Option TI × List Shape) (h1 : kg.2 ≠ []) (h2 : ∀ x ∈ kg.2, x.dt = kg.1) :
    (convolveGroup kg).dt = kg.1 := by
  obtain ⟨k, g⟩ := kg
  unfold convolveGroup
  match g, h1, h2 with
  | [x], _, h2 => exact h2 x (by simp)
  | x :: y :: r, _, _ => rfl

end GV.Coll.Track
