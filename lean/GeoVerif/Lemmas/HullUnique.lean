import GeoVerif.Lemmas.HullAssemble
import Mathlib.Tactic.LinearCombination
import Mathlib.Tactic.NormNum

/-!
# Uniqueness of the hull ring (gift-wrapping argument)

In any ring satisfying the C10 laws the vertex after `a` is *the* gift-wrapping successor of `a`
(every point on or left of `a → b`, and no point on that line beyond `b`), and that successor is
unique unless all points are collinear.  Two such rings with the same start vertex are therefore
equal.
-/
namespace GV.Hull

def dot (u v : Pt) : Rat := u.1 * v.1 + u.2 * v.2

/-- `b` is the gift-wrapping successor of `a` among `pts` -/
def Succ (pts : List Pt) (a b : Pt) : Prop :=
  b ∈ pts ∧ b ≠ a ∧ (∀ q ∈ pts, 0 ≤ cross a b q) ∧
    ∀ q ∈ pts, cross a b q = 0 → dot (vsub b a) (vsub q b) ≤ 0

theorem succ_of_triple {pts : List Pt} {a b n : Pt} (hb : b ∈ pts) (hturn : 0 < cross a b n)
    (h1 : ∀ q ∈ pts, 0 ≤ cross a b q) (h2 : ∀ q ∈ pts, 0 ≤ cross b n q) : Succ pts a b := by
  refine ⟨hb, ?_, h1, ?_⟩
  · rintro rfl
    have : cross b b n = 0 := by unfold cross; ring
    rw [this] at hturn; exact lt_irrefl _ hturn
  · intro q hq hflat
    by_contra hc
    rw [not_le] at hc
    have hq2 := h2 q hq
    have key : dot (vsub b a) (vsub b a) * cross b n q =
        dot (vsub b a) (vsub q b) * (-(cross a b n)) := by
      unfold dot vsub cross at *
      simp only at *
      linear_combination ((n.1 - b.1) * (b.1 - a.1) + (n.2 - b.2) * (b.2 - a.2)) * hflat
    have hnn : 0 ≤ dot (vsub b a) (vsub b a) := by
      unfold dot; exact add_nonneg (mul_self_nonneg _) (mul_self_nonneg _)
    have l : 0 ≤ dot (vsub b a) (vsub b a) * cross b n q := mul_nonneg hnn hq2
    have r : dot (vsub b a) (vsub q b) * (-(cross a b n)) < 0 :=
      mul_neg_of_pos_of_neg hc (by linarith)
    linarith

theorem dot_self_pos {a b : Pt} (h : b ≠ a) : 0 < dot (vsub b a) (vsub b a) := by
  unfold dot vsub
  simp only
  by_contra hc
  rw [not_lt] at hc
  have h1 := mul_self_nonneg (b.1 - a.1)
  have h2 := mul_self_nonneg (b.2 - a.2)
  have e1 : (b.1 - a.1) * (b.1 - a.1) = 0 := by linarith
  have e2 : (b.2 - a.2) * (b.2 - a.2) = 0 := by linarith
  have := mul_self_eq_zero.mp e1
  have := mul_self_eq_zero.mp e2
  exact h (Prod.ext (by linarith) (by linarith))

theorem succ_unique {pts : List Pt} (hnc : ¬ Collinear pts) {a b b' : Pt}
    (h : Succ pts a b) (h' : Succ pts a b') : b = b' := by
  obtain ⟨hb, hba, hl, hf⟩ := h
  obtain ⟨hb', hba', hl', hf'⟩ := h'
  have h0 : cross a b b' = 0 := by
    have e : cross a b' b = - cross a b b' := by unfold cross; ring
    have := hl b' hb'
    have := hl' b hb
    linarith
  have h0' : cross a b' b = 0 := by
    have e : cross a b' b = - cross a b b' := by unfold cross; ring
    rw [e, h0]; simp
  have hA := dot_self_pos hba
  have hB := dot_self_pos hba'
  by_cases hp : 0 < dot (vsub b a) (vsub b' a)
  · -- same direction: neither is beyond the other
    have n1 := hf b' hb' h0
    have n2 := hf' b hb h0'
    have hLag : dot (vsub b a) (vsub b' a) * dot (vsub b a) (vsub b' a) =
        dot (vsub b a) (vsub b a) * dot (vsub b' a) (vsub b' a) := by
      unfold dot vsub cross at *
      simp only at *
      linear_combination (-((b.1 - a.1) * (b'.2 - a.2) - (b.2 - a.2) * (b'.1 - a.1))) * h0
    have e1 : dot (vsub b a) (vsub b' b) = dot (vsub b a) (vsub b' a) - dot (vsub b a) (vsub b a) := by
      unfold dot vsub; ring
    have e2 : dot (vsub b' a) (vsub b b') = dot (vsub b a) (vsub b' a) - dot (vsub b' a) (vsub b' a) := by
      unfold dot vsub; ring
    rw [e1] at n1; rw [e2] at n2
    have hsq : (b.1 - b'.1) * (b.1 - b'.1) + (b.2 - b'.2) * (b.2 - b'.2) =
        dot (vsub b a) (vsub b a) - 2 * dot (vsub b a) (vsub b' a) + dot (vsub b' a) (vsub b' a) := by
      unfold dot vsub; ring
    generalize dot (vsub b a) (vsub b' a) = p at *
    generalize dot (vsub b a) (vsub b a) = A at *
    generalize dot (vsub b' a) (vsub b' a) = B at *
    have t1 : 0 ≤ (A - p) * B := mul_nonneg (by linarith) (by linarith)
    have t2 : 0 ≤ p * (B - p) := mul_nonneg hp.le (by linarith)
    have t3 : (A - p) * B + p * (B - p) = 0 := by linear_combination (-1 : Rat) * hLag
    have t4 : p * (B - p) = 0 := by linarith
    have t5 : (A - p) * B = 0 := by linarith
    have hBp : B = p := by
      rcases mul_eq_zero.mp t4 with h | h
      · linarith
      · linarith
    have hAp : A = p := by
      rcases mul_eq_zero.mp t5 with h | h
      · linarith
      · linarith
    -- |b - b'|² = A - 2p + B = 0
    have hd : (b.1 - b'.1) * (b.1 - b'.1) + (b.2 - b'.2) * (b.2 - b'.2) = 0 := by
      rw [hsq, hAp, hBp]; ring
    have s1 := mul_self_nonneg (b.1 - b'.1)
    have s2 := mul_self_nonneg (b.2 - b'.2)
    have z1 := mul_self_eq_zero.mp (show (b.1 - b'.1) * (b.1 - b'.1) = 0 by linarith)
    have z2 := mul_self_eq_zero.mp (show (b.2 - b'.2) * (b.2 - b'.2) = 0 by linarith)
    exact Prod.ext (by linarith) (by linarith)
  · -- opposite directions: everything is on the line
    exfalso
    rw [not_lt] at hp
    apply hnc
    apply collinear_of_line (p := a) (m := b') (Ne.symm hba')
    intro q hq
    have X := hl q hq
    have Y := hl' q hq
    have key : dot (vsub b a) (vsub b a) * cross a b' q =
        dot (vsub b a) (vsub b' a) * cross a b q := by
      unfold dot vsub cross at *
      simp only at *
      linear_combination (-((b.1 - a.1) * (q.1 - a.1) + (b.2 - a.2) * (q.2 - a.2))) * h0
    have l : 0 ≤ dot (vsub b a) (vsub b a) * cross a b' q := mul_nonneg hA.le Y
    have r : dot (vsub b a) (vsub b' a) * cross a b q ≤ 0 := mul_nonpos_of_nonpos_of_nonneg hp X
    have : dot (vsub b a) (vsub b a) * cross a b' q = 0 := by linarith
    rcases mul_eq_zero.mp this with h | h
    · linarith
    · exact h

/-! ## from the laws to a successor chain, and uniqueness of chains of a functional relation -/

theorem succ_chain {pts : List Pt} : ∀ (l : List Pt), (∀ x ∈ l, x ∈ pts) →
    (∀ q ∈ pts, List.IsChain (fun u v => LeftOf q u v) l) → Turns l →
    List.IsChain (Succ pts) l.dropLast
  | [], _, _, _ => List.IsChain.nil
  | [_], _, _, _ => List.IsChain.nil
  | [_, _], _, _, _ => List.IsChain.singleton _
  | a :: b :: n :: rest, hs, hc, ht => by
    have ih := succ_chain (b :: n :: rest) (fun x hx => hs x (List.mem_cons_of_mem _ hx))
      (fun q hq => (List.isChain_cons_cons.mp (hc q hq)).2) ht.2
    show List.IsChain (Succ pts) (a :: b :: (n :: rest).dropLast)
    rw [List.isChain_cons_cons]
    refine ⟨?_, ih⟩
    refine succ_of_triple (hs b (by simp)) ht.1
      (fun q hq => (List.isChain_cons_cons.mp (hc q hq)).1)
      (fun q hq => (List.isChain_cons_cons.mp (List.isChain_cons_cons.mp (hc q hq)).2).1)

theorem chain_prefix {R : Pt → Pt → Prop} (hR : ∀ a b b', R a b → R a b' → b = b') :
    ∀ (l l' : List Pt) (a : Pt), List.IsChain R (a :: l) → List.IsChain R (a :: l') →
      l <+: l' ∨ l' <+: l
  | [], _, _, _, _ => Or.inl (List.nil_prefix)
  | _ :: _, [], _, _, _ => Or.inr (List.nil_prefix)
  | b :: t, b' :: t', a, h, h' => by
    obtain ⟨r, hc⟩ := List.isChain_cons_cons.mp h
    obtain ⟨r', hc'⟩ := List.isChain_cons_cons.mp h'
    have e := hR a b b' r r'
    subst e
    rcases chain_prefix hR t t' b hc hc' with p | p
    · exact Or.inl ((List.prefix_cons_inj b).mpr p)
    · exact Or.inr ((List.prefix_cons_inj b).mpr p)

theorem closed_prefix_eq {X Y : List Pt} (hX : X.head? = X.getLast?) (hXl : 3 ≤ X.length)
    (hpre : X <+: Y) (hYn : Y.dropLast.Nodup) : X = Y := by
  obtain ⟨Z, rfl⟩ := hpre
  by_cases hZ : Z = []
  · simp [hZ]
  · exfalso
    rw [List.dropLast_append_of_ne_nil hZ] at hYn
    have hXn : X.Nodup := (List.nodup_append.mp hYn).1
    match X, hX, hXl, hXn with
    | a :: b :: t, hX, _, hXn =>
      rw [List.head?_cons, List.getLast?_cons_cons] at hX
      have : a ∈ b :: t := List.mem_of_getLast? hX.symm
      exact (List.nodup_cons.mp hXn).1 this

theorem isLexMin_unique {pts : List Pt} {m m' : Pt} (h : IsLexMin pts m) (h' : IsLexMin pts m') :
    m = m' := by
  rcases h.2 m' h'.1 with e | l
  · exact e.symm
  · rcases h'.2 m h.1 with e | l'
    · exact e
    · exact absurd (lexLt_trans l l') (lexLt_irrefl _)

theorem IsConvexRing.succ_chain {pts ring : List Pt} (h : IsConvexRing pts ring) :
    List.IsChain (Succ pts) ring := by
  match ring, h with
  | m :: r1 :: rest, h =>
    have hc : cyc (m :: r1 :: rest) = (m :: r1 :: rest) ++ [r1] := by simp [cyc]
    have := GV.Hull.succ_chain (pts := pts) ((m :: r1 :: rest) ++ [r1])
      (fun x hx => by
        rcases List.mem_append.mp hx with hx | hx
        · exact h.sub x hx
        · simp at hx; rw [hx]; exact h.sub r1 (by simp))
      (fun q hq => by
        have hq' := h.contains q hq
        unfold Contains at hq'
        rw [List.isChain_append]
        refine ⟨hq', List.IsChain.singleton _, ?_⟩
        intro x hx y hy
        simp at hy; subst hy
        have hx' : x = m := by
          have hcl := h.closed
          simp only [List.head?_cons] at hcl
          have : (m :: r1 :: rest).getLast? = some x := hx
          rw [← hcl] at this; simpa using this.symm
        rw [hx']
        exact (List.isChain_cons_cons.mp hq').1)
      (hc ▸ h.turns)
    rwa [List.dropLast_concat] at this

/-- **uniqueness**: two rings over the same non-collinear points that satisfy the C10 laws and
    start at the lexicographic minimum are equal -/
theorem ring_unique {pts R R' : List Pt} (hnc : ¬ Collinear pts)
    (h : IsHullRing pts R) (h' : IsHullRing pts R') : R = R' := by
  obtain ⟨m, hm, hh⟩ := h.start
  obtain ⟨m', hm', hh'⟩ := h'.start
  have e := isLexMin_unique hm hm'
  subst e
  have c := h.toIsConvexRing.succ_chain
  have c' := h'.toIsConvexRing.succ_chain
  match R, R', hh, hh', c, c', h, h' with
  | a :: t, a' :: t', hh, hh', c, c', h, h' =>
    simp only [List.head?_cons, Option.some.injEq] at hh hh'
    have e : a = a' := hh.trans hh'.symm
    rw [← e] at c' h' ⊢
    rcases chain_prefix (R := Succ pts) (fun _ _ _ r r' => succ_unique hnc r r') t t' a c c' with p | p
    · exact closed_prefix_eq h.closed h.long ((List.prefix_cons_inj a).mpr p) h'.nodup
    · exact (closed_prefix_eq h'.closed h'.long ((List.prefix_cons_inj a).mpr p) h.nodup).symm

/-! ## every vertex is a strict extreme point -/

theorem IsConvexRing.contains_cyc {pts ring : List Pt} (h : IsConvexRing pts ring) :
    ∀ q ∈ pts, Contains (cyc ring) q := by
  intro q hq
  match ring, h with
  | m :: r1 :: rest, h =>
    have hc : cyc (m :: r1 :: rest) = (m :: r1 :: rest) ++ [r1] := by simp [cyc]
    rw [hc]
    have hq' := h.contains q hq
    unfold Contains at hq' ⊢
    rw [List.isChain_append]
    refine ⟨hq', List.IsChain.singleton _, ?_⟩
    intro x hx y hy
    simp at hy; subst hy
    have hx' : x = m := by
      have hcl := h.closed
      simp only [List.head?_cons] at hcl
      have : (m :: r1 :: rest).getLast? = some x := hx
      rw [← hcl] at this; simpa using this.symm
    rw [hx']
    exact (List.isChain_cons_cons.mp hq').1

/-- two non-parallel lines through `v` meet only in `v` -/
theorem eq_of_two_lines {a v b q : Pt} (ht : cross a v b ≠ 0) (h1 : cross a v q = 0)
    (h2 : cross v b q = 0) : q = v := by
  unfold cross at *
  have e1 : (q.1 - v.1) * ((v.1 - a.1) * (b.2 - a.2) - (v.2 - a.2) * (b.1 - a.1)) = 0 := by
    linear_combination (-(v.1 - a.1)) * h2 + (b.1 - v.1) * h1
  have e2 : (q.2 - v.2) * ((v.1 - a.1) * (b.2 - a.2) - (v.2 - a.2) * (b.1 - a.1)) = 0 := by
    linear_combination (-(v.2 - a.2)) * h2 + (b.2 - v.2) * h1
  rcases mul_eq_zero.mp e1 with z1 | z1
  · rcases mul_eq_zero.mp e2 with z2 | z2
    · exact Prod.ext (by linarith) (by linarith)
    · exact absurd z2 ht
  · exact absurd z1 ht

/-- for three cyclically consecutive vertices `a, v, b` the linear functional
    `q ↦ cross a v q + cross v b q` is zero at `v` and strictly positive at every other input:
    `v` is a strict extreme point (it cannot be dropped, and no other input lies on both edges) -/
theorem IsConvexRing.vertex_extreme {pts ring : List Pt} (h : IsConvexRing pts ring)
    {X Y : List Pt} {a v b : Pt} (e : cyc ring = X ++ a :: v :: b :: Y) :
    ∀ q ∈ pts, q ≠ v → 0 < cross a v q + cross v b q := by
  intro q hq hne
  have hc := h.contains_cyc q hq
  have c1 : 0 ≤ cross a v q := contains_infix hc (X := X) (Y := b :: Y) e
  have c2 : 0 ≤ cross v b q := contains_infix hc (X := X ++ [a]) (Y := Y) (by rw [e]; simp)
  have t : 0 < cross a v b := turns_infix h.turns e
  rcases lt_or_eq_of_le (add_nonneg c1 c2) with l | l
  · exact l
  · exfalso
    exact hne (eq_of_two_lines (ne_of_gt t) (by linarith) (by linarith))

end GV.Hull
