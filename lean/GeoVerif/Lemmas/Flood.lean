import GeoVerif.Model.Flood
import Mathlib.Data.List.Basic
import Mathlib.Data.List.Nodup
import Mathlib.Tactic.Linarith
import Mathlib.Tactic.Push
/-!
# Helper lemmas for C12: the work-list loop

`VisitSpec` says what one pass of the inner `for` loop guarantees, `Reach` is the specification
(closure of `start` under "a touching neighbour of a member"), `FInv` the loop invariant.
(Moved from the proved probe `notes/lean_probes/FloodProof.lean`; the termination measure is new.)
-/
namespace GV.Flood
variable {C : Type} [DecidableEq C]

theorem mem_addSet {x y : C} {l : List C} : x ∈ addSet y l ↔ x = y ∨ x ∈ l := by
  unfold addSet; split <;> simp_all

theorem nodup_addSet {y : C} {l : List C} (h : l.Nodup) : (addSet y l).Nodup := by
  unfold addSet; split
  · exact h
  · exact List.nodup_cons.mpr ⟨by assumption, h⟩

/-- what the inner loop guarantees -/
structure VisitSpec (touches : C → Bool) (ns : List C) (s s' : FState C) : Prop where
  valid_mono : ∀ c ∈ s.valid, c ∈ s'.valid
  queue_mono : ∀ c ∈ s.queue, c ∈ s'.queue
  checked_mono : ∀ c ∈ s.checked, c ∈ s'.checked
  checked_all : ∀ n ∈ ns, n ∈ s'.checked
  valid_new : ∀ c ∈ s'.valid, c ∈ s.valid ∨ (c ∈ ns ∧ touches c = true)
  queue_new : ∀ c ∈ s'.queue, c ∈ s.queue ∨ (c ∈ ns ∧ touches c = true)
  queue_valid : (∀ c ∈ s.queue, c ∈ s.valid) → ∀ c ∈ s'.queue, c ∈ s'.valid
  checked_ok : (∀ n ∈ s.checked, touches n = true → n ∈ s.valid) →
      ∀ n ∈ s'.checked, touches n = true → n ∈ s'.valid
  nodup : s.queue.Nodup → s'.queue.Nodup
  valid_q : ∀ c ∈ s'.valid, c ∈ s.valid ∨ c ∈ s'.queue

theorem visit_spec (touches : C → Bool) : ∀ (ns : List C) (s : FState C),
    VisitSpec touches ns s (visit touches ns s)
  | [], s => by
    simp only [visit]
    exact ⟨fun _ h => h, fun _ h => h, fun _ h => h, by simp, fun c h => Or.inl h,
      fun c h => Or.inl h, fun h => h, fun h => h, fun h => h, fun c h => Or.inl h⟩
  | n :: ns, s => by
    unfold visit
    by_cases hc : n ∈ s.checked
    · simp only [hc, if_true]
      have ih := visit_spec touches ns s
      refine ⟨ih.valid_mono, ih.queue_mono, ih.checked_mono, ?_, ?_, ?_, ih.queue_valid, ih.checked_ok, ih.nodup, ih.valid_q⟩
      · intro m hm
        rcases List.mem_cons.mp hm with rfl | hm
        · exact ih.checked_mono _ hc
        · exact ih.checked_all m hm
      · intro c h
        rcases ih.valid_new c h with h | ⟨h1, h2⟩
        · exact Or.inl h
        · exact Or.inr ⟨List.mem_cons_of_mem _ h1, h2⟩
      · intro c h
        rcases ih.queue_new c h with h | ⟨h1, h2⟩
        · exact Or.inl h
        · exact Or.inr ⟨List.mem_cons_of_mem _ h1, h2⟩
    · simp only [hc, if_false]
      by_cases ht : touches n = true
      · simp only [ht, if_true]
        set s2 : FState C := { valid := addSet n s.valid, checked := n :: s.checked, queue := addSet n s.queue } with hs2
        have ih := visit_spec touches ns s2
        refine ⟨?_, ?_, ?_, ?_, ?_, ?_, ?_, ?_, ?_, ?_⟩
        · intro c h; exact ih.valid_mono c (mem_addSet.mpr (Or.inr h))
        · intro c h; exact ih.queue_mono c (mem_addSet.mpr (Or.inr h))
        · intro c h; exact ih.checked_mono c (List.mem_cons_of_mem _ h)
        · intro m hm
          rcases List.mem_cons.mp hm with rfl | hm
          · exact ih.checked_mono _ (by simp [hs2])
          · exact ih.checked_all m hm
        · intro c h
          rcases ih.valid_new c h with h | ⟨h1, h2⟩
          · rcases mem_addSet.mp h with rfl | h
            · exact Or.inr ⟨by simp, ht⟩
            · exact Or.inl h
          · exact Or.inr ⟨List.mem_cons_of_mem _ h1, h2⟩
        · intro c h
          rcases ih.queue_new c h with h | ⟨h1, h2⟩
          · rcases mem_addSet.mp h with rfl | h
            · exact Or.inr ⟨by simp, ht⟩
            · exact Or.inl h
          · exact Or.inr ⟨List.mem_cons_of_mem _ h1, h2⟩
        · intro hq
          apply ih.queue_valid
          intro c h
          rcases mem_addSet.mp h with rfl | h
          · exact mem_addSet.mpr (Or.inl rfl)
          · exact mem_addSet.mpr (Or.inr (hq c h))
        · intro hok
          apply ih.checked_ok
          intro m hm htm
          rcases List.mem_cons.mp hm with rfl | hm
          · exact mem_addSet.mpr (Or.inl rfl)
          · exact mem_addSet.mpr (Or.inr (hok m hm htm))
        · intro hnd; exact ih.nodup (nodup_addSet hnd)
        · intro c h
          rcases ih.valid_q c h with h | h
          · rcases mem_addSet.mp h with rfl | h
            · exact Or.inr (ih.queue_mono _ (mem_addSet.mpr (Or.inl rfl)))
            · exact Or.inl h
          · exact Or.inr h
      · simp only [ht, Bool.false_eq_true, if_false]
        set s2 : FState C := { s with checked := n :: s.checked } with hs2
        have ih := visit_spec touches ns s2
        have htf : touches n = false := by simpa using ht
        refine ⟨ih.valid_mono, ih.queue_mono, ?_, ?_, ?_, ?_, ih.queue_valid, ?_, ih.nodup, ih.valid_q⟩
        · intro c h; exact ih.checked_mono c (List.mem_cons_of_mem _ h)
        · intro m hm
          rcases List.mem_cons.mp hm with rfl | hm
          · exact ih.checked_mono _ (by simp [hs2])
          · exact ih.checked_all m hm
        · intro c h
          rcases ih.valid_new c h with h | ⟨h1, h2⟩
          · exact Or.inl h
          · exact Or.inr ⟨List.mem_cons_of_mem _ h1, h2⟩
        · intro c h
          rcases ih.queue_new c h with h | ⟨h1, h2⟩
          · exact Or.inl h
          · exact Or.inr ⟨List.mem_cons_of_mem _ h1, h2⟩
        · intro hok
          apply ih.checked_ok
          intro m hm htm
          rcases List.mem_cons.mp hm with rfl | hm
          · rw [htf] at htm; exact absurd htm (by simp)
          · exact hok m hm htm

/-! ### reachability spec and the loop invariant -/

inductive Reach (nbrs : C → List C) (touches : C → Bool) (start : C) : C → Prop
  | base : Reach nbrs touches start start
  | step {c n : C} : Reach nbrs touches start c → n ∈ nbrs c → touches n = true →
      Reach nbrs touches start n

structure FInv (nbrs : C → List C) (touches : C → Bool) (start : C) (s : FState C) : Prop where
  sound : ∀ c ∈ s.valid, Reach nbrs touches start c
  qv : ∀ c ∈ s.queue, c ∈ s.valid
  hasStart : start ∈ s.valid
  closed : ∀ c ∈ s.valid, c ∉ s.queue → ∀ n ∈ nbrs c, touches n = true → n ∈ s.valid
  chk : ∀ n ∈ s.checked, touches n = true → n ∈ s.valid
  nd : s.queue.Nodup

theorem finv_step {nbrs : C → List C} {touches : C → Bool} {start : C} {s : FState C}
    (hI : FInv nbrs touches start s) {gh : C} (hgh : gh ∈ s.queue) :
    FInv nbrs touches start (visit touches (nbrs gh) { s with queue := s.queue.erase gh }) := by
  set s0 : FState C := { s with queue := s.queue.erase gh } with hs0
  have sp := visit_spec touches (nbrs gh) s0
  have hghv : gh ∈ s.valid := hI.qv gh hgh
  refine ⟨?_, ?_, ?_, ?_, ?_, ?_⟩
  · intro c hc
    rcases sp.valid_new c hc with h | ⟨h1, h2⟩
    · exact hI.sound c h
    · exact Reach.step (hI.sound gh hghv) h1 h2
  · apply sp.queue_valid
    intro c hc; exact hI.qv c (List.mem_of_mem_erase hc)
  · exact sp.valid_mono _ hI.hasStart
  · intro c hc hcq n hn htn
    by_cases hcv : c ∈ s.valid
    · by_cases hcg : c = gh
      · subst hcg
        exact sp.checked_ok hI.chk n (sp.checked_all n hn) htn
      · have : c ∉ s.queue := by
          intro hq
          exact hcq (sp.queue_mono c ((List.mem_erase_of_ne hcg).mpr hq))
        exact sp.valid_mono n (hI.closed c hcv this n hn htn)
    · rcases sp.valid_q c hc with h | h
      · exact absurd h hcv
      · exact absurd h hcq
  · exact sp.checked_ok hI.chk
  · exact sp.nodup (hI.nd.erase gh)


/-- partial correctness: whatever the pop schedule, a completed run returns exactly the reachable set -/
theorem floodGo_correct {nbrs : C → List C} {touches : C → Bool} {start : C}
    (pick : List C → Option C) (hpick : ∀ q gh, pick q = some gh → gh ∈ q) :
    ∀ (fuel : Nat) (s : FState C), FInv nbrs touches start s → ∀ v, floodGo nbrs touches pick fuel s = some v →
      ∀ c, c ∈ v ↔ Reach nbrs touches start c := by
  have final : ∀ s : FState C, FInv nbrs touches start s → s.queue = [] →
      ∀ c, c ∈ s.valid ↔ Reach nbrs touches start c := by
    intro s hI hq c
    constructor
    · exact hI.sound c
    · intro hr
      induction hr with
      | base => exact hI.hasStart
      | step _ hn ht ih => exact hI.closed _ ih (by simp [hq]) _ hn ht
  intro fuel
  induction fuel with
  | zero =>
    intro s hI v hv
    unfold floodGo at hv
    split at hv
    · rename_i hq; simp at hv; subst hv; exact final s hI hq
    · simp at hv
  | succ fuel ih =>
    intro s hI v hv
    unfold floodGo at hv
    split at hv
    · rename_i hq; simp at hv; subst hv; exact final s hI hq
    · rename_i a as hq
      split at hv
      · simp at hv
      · rename_i gh hp
        have hgh : gh ∈ s.queue := hpick _ _ hp
        exact ih _ (finv_step hI hgh) v hv

theorem flood_correct {nbrs : C → List C} {touches : C → Bool} (start : C)
    (pick : List C → Option C) (hpick : ∀ q gh, pick q = some gh → gh ∈ q) (fuel : Nat) (v : List C)
    (h : flood nbrs touches pick fuel start = some v) :
    ∀ c, c ∈ v ↔ Reach nbrs touches start c := by
  unfold flood at h
  refine floodGo_correct pick hpick fuel _ ?_ v h
  refine ⟨?_, ?_, ?_, ?_, ?_, ?_⟩
  · intro c hc; simp at hc; subst hc; exact Reach.base
  · intro c hc; simpa using hc
  · simp
  · intro c hc hcq; simp at hc hcq; exact absurd hc hcq
  · intro n hn; simp at hn
  · simp


/-! ## termination: on a finite grid closed under `nbrs` the measure
    `|grid cells not yet checked| + |queue|` drops with every pop -/

/-- the cells of `U` not yet in `chk` -/
def unchecked (U chk : List C) : List C := U.filter fun c => decide (c ∉ chk)

theorem unchecked_mono (U chk : List C) (n : C) :
    (unchecked U (n :: chk)).length ≤ (unchecked U chk).length := by
  induction U with
  | nil => simp [unchecked]
  | cons u U ih =>
    unfold unchecked at ih ⊢
    by_cases h1 : u ∈ chk
    · have e1 : decide (u ∉ chk) = false := by simp [h1]
      have e2 : decide (u ∉ n :: chk) = false := by simp [h1]
      simp only [List.filter_cons, e1, e2, Bool.false_eq_true, if_false]
      exact ih
    · have e1 : decide (u ∉ chk) = true := by simp [h1]
      by_cases h2 : u = n
      · have e2 : decide (u ∉ n :: chk) = false := by simp [h2]
        simp only [List.filter_cons, e1, e2, Bool.false_eq_true, if_false, if_true, List.length_cons]
        omega
      · have e2 : decide (u ∉ n :: chk) = true := by simp [h1, h2]
        simp only [List.filter_cons, e1, e2, if_true, List.length_cons]
        omega

theorem unchecked_lt {U chk : List C} {n : C} (hU : n ∈ U) (hc : n ∉ chk) :
    (unchecked U (n :: chk)).length + 1 ≤ (unchecked U chk).length := by
  induction U with
  | nil => simp at hU
  | cons u U ih =>
    by_cases h2 : u = n
    · have := unchecked_mono U chk n
      unfold unchecked at this ⊢
      have e1 : decide (u ∉ chk) = true := by simp [h2, hc]
      have e2 : decide (u ∉ n :: chk) = false := by simp [h2]
      simp only [List.filter_cons, e1, e2, Bool.false_eq_true, if_false, if_true, List.length_cons]
      omega
    · have hU' : n ∈ U := by
        rcases List.mem_cons.mp hU with h | h
        · exact absurd h.symm h2
        · exact h
      have ih' := ih hU'
      unfold unchecked at ih' ⊢
      by_cases h1 : u ∈ chk
      · have e1 : decide (u ∉ chk) = false := by simp [h1]
        have e2 : decide (u ∉ n :: chk) = false := by simp [h1]
        simp only [List.filter_cons, e1, e2, Bool.false_eq_true, if_false]
        exact ih'
      · have e1 : decide (u ∉ chk) = true := by simp [h1]
        have e2 : decide (u ∉ n :: chk) = true := by simp [h1, h2]
        simp only [List.filter_cons, e1, e2, if_true, List.length_cons]
        omega

/-- the termination measure -/
def measure (U : List C) (s : FState C) : Nat := (unchecked U s.checked).length + s.queue.length

theorem length_addSet_le (x : C) (l : List C) : (addSet x l).length ≤ l.length + 1 := by
  unfold addSet; split <;> simp

/-- one pass of the inner loop over neighbours inside `U` does not increase the measure and keeps the
    queue inside `U` -/
theorem visit_measure (touches : C → Bool) (U : List C) : ∀ (ns : List C) (s : FState C),
    (∀ n ∈ ns, n ∈ U) → (∀ c ∈ s.queue, c ∈ U) →
    measure U (visit touches ns s) ≤ measure U s ∧ ∀ c ∈ (visit touches ns s).queue, c ∈ U
  | [], s, _, hq => ⟨le_refl _, hq⟩
  | n :: ns, s, hns, hq => by
    have hn : n ∈ U := hns n (by simp)
    have hns' : ∀ m ∈ ns, m ∈ U := fun m hm => hns m (by simp [hm])
    unfold visit
    by_cases hc : n ∈ s.checked
    · simp only [hc, if_true]
      exact visit_measure touches U ns s hns' hq
    · simp only [hc, if_false]
      have hlt := unchecked_lt hn hc
      by_cases ht : touches n = true
      · simp only [ht, if_true]
        have hq' : ∀ c ∈ addSet n s.queue, c ∈ U := by
          intro c hc'
          rcases mem_addSet.mp hc' with rfl | h
          · exact hn
          · exact hq c h
        obtain ⟨m1, m2⟩ := visit_measure touches U ns
          { valid := addSet n s.valid, checked := n :: s.checked, queue := addSet n s.queue } hns' hq'
        refine ⟨le_trans m1 ?_, m2⟩
        have := length_addSet_le n s.queue
        simp only [measure]
        omega
      · simp only [ht, Bool.false_eq_true, if_false]
        obtain ⟨m1, m2⟩ := visit_measure touches U ns { s with checked := n :: s.checked } hns' hq
        refine ⟨le_trans m1 ?_, m2⟩
        simp only [measure]
        omega

theorem floodGo_terminates {nbrs : C → List C} {touches : C → Bool} (U : List C)
    (hU : ∀ c ∈ U, ∀ n ∈ nbrs c, n ∈ U)
    (pick : List C → Option C) (hpick : ∀ q, q ≠ [] → ∃ gh, pick q = some gh ∧ gh ∈ q) :
    ∀ (fuel : Nat) (s : FState C), (∀ c ∈ s.queue, c ∈ U) → measure U s ≤ fuel →
      ∃ v, floodGo nbrs touches pick fuel s = some v := by
  intro fuel
  induction fuel with
  | zero =>
    intro s _ hm
    have : s.queue = [] := by
      have : s.queue.length = 0 := by simp only [measure] at hm; omega
      exact List.eq_nil_of_length_eq_zero this
    exact ⟨s.valid, by simp [floodGo, this]⟩
  | succ fuel ih =>
    intro s hq hm
    unfold floodGo
    cases hqq : s.queue with
    | nil => exact ⟨s.valid, rfl⟩
    | cons a as =>
      simp only
      obtain ⟨gh, hp, hmem⟩ := hpick (a :: as) (by simp)
      rw [hp]
      simp only
      rw [← hqq] at hmem ⊢
      have hghU : gh ∈ U := hq gh hmem
      have hq0 : ∀ c ∈ ({ s with queue := s.queue.erase gh } : FState C).queue, c ∈ U :=
        fun c hc => hq c (List.mem_of_mem_erase hc)
      obtain ⟨m1, m2⟩ := visit_measure touches U (nbrs gh) { s with queue := s.queue.erase gh }
        (hU gh hghU) hq0
      apply ih _ m2
      have hlen : (s.queue.erase gh).length = s.queue.length - 1 := List.length_erase_of_mem hmem
      have hpos : 0 < s.queue.length := List.length_pos_of_mem hmem
      simp only [measure] at m1 hm ⊢
      omega

/-! ## unions and the group-by dictionary -/

theorem mem_foldl_addSet (h : List C) : ∀ (acc : List C) (c : C),
    c ∈ h.foldl (fun acc c => addSet c acc) acc ↔ c ∈ acc ∨ c ∈ h := by
  induction h with
  | nil => intro acc c; simp
  | cons x xs ih =>
    intro acc c
    simp only [List.foldl_cons, ih, mem_addSet, List.mem_cons]
    tauto

theorem nodup_foldl_addSet (h : List C) : ∀ (acc : List C), acc.Nodup →
    (h.foldl (fun acc c => addSet c acc) acc).Nodup := by
  induction h with
  | nil => intro acc ha; exact ha
  | cons x xs ih => intro acc ha; exact ih _ (nodup_addSet ha)

theorem mem_unionAll_aux (hs : List (List C)) : ∀ (acc : List C) (c : C),
    c ∈ hs.foldl (fun acc h => h.foldl (fun acc c => addSet c acc) acc) acc ↔ c ∈ acc ∨ ∃ h ∈ hs, c ∈ h := by
  induction hs with
  | nil => intro acc c; simp
  | cons x xs ih =>
    intro acc c
    simp only [List.foldl_cons, ih, mem_foldl_addSet, List.mem_cons, exists_eq_or_imp]
    tauto

theorem nodup_unionAll_aux (hs : List (List C)) : ∀ (acc : List C), acc.Nodup →
    (hs.foldl (fun acc h => h.foldl (fun acc c => addSet c acc) acc) acc).Nodup := by
  induction hs with
  | nil => intro acc ha; exact ha
  | cons x xs ih => intro acc ha; exact ih _ (nodup_foldl_addSet x acc ha)

/-- the list stored under a key (`[]` when the key is absent; stored lists are never empty) -/
def dictGet {S : Type} : List (C × List S) → C → List S
  | [], _ => []
  | (k, l) :: rest, c => if k = c then l else dictGet rest c

def keys {S : Type} (d : List (C × List S)) : List C := d.map (·.1)

theorem dictGet_dictAppend {S : Type} (k : C) (s : S) : ∀ (d : List (C × List S)) (c : C),
    dictGet (dictAppend d k s) c = if k = c then dictGet d c ++ [s] else dictGet d c
  | [], c => by by_cases h : k = c <;> simp [dictAppend, dictGet, h]
  | (k', l) :: rest, c => by
    unfold dictAppend
    by_cases h1 : k' = k
    · subst h1
      by_cases h2 : k' = c <;> simp [dictGet, h2]
    · simp only [h1, if_false, dictGet]
      by_cases h2 : k' = c
      · have : k ≠ c := fun h => h1 (h2.trans h.symm)
        simp [h2, this]
      · simp only [h2, if_false]
        exact dictGet_dictAppend k s rest c

theorem keys_dictAppend {S : Type} (k : C) (s : S) : ∀ (d : List (C × List S)),
    keys (dictAppend d k s) = if k ∈ keys d then keys d else keys d ++ [k]
  | [] => by simp [dictAppend, keys]
  | (k', l) :: rest => by
    unfold dictAppend
    by_cases h1 : k' = k
    · subst h1; simp [keys]
    · have ih := keys_dictAppend k s rest
      have h1' : ¬ k = k' := fun h => h1 h.symm
      simp only [h1, if_false, keys, List.map_cons, List.mem_cons, h1', false_or] at ih ⊢
      rw [ih]
      by_cases hk : k ∈ List.map (fun x => x.1) rest <;> simp [hk]

theorem mem_keys_dictAppend {S : Type} (k : C) (s : S) (d : List (C × List S)) (c : C) :
    c ∈ keys (dictAppend d k s) ↔ c ∈ keys d ∨ c = k := by
  rw [keys_dictAppend]
  split
  · constructor
    · exact Or.inl
    · rintro (h | rfl)
      · exact h
      · assumption
  · simp

theorem nodup_keys_dictAppend {S : Type} (k : C) (s : S) (d : List (C × List S)) (h : (keys d).Nodup) :
    (keys (dictAppend d k s)).Nodup := by
  rw [keys_dictAppend]
  split
  · exact h
  · rename_i hk
    exact List.Nodup.append h (by simp) (by simpa using hk)

/-- inner loop of the group-by for one shape whose cell list has no duplicates (it is a `set`) -/
theorem inner_spec {S : Type} (s : S) : ∀ (cells : List C) (d : List (C × List S)), cells.Nodup →
    (keys d).Nodup →
    (∀ c, dictGet (cells.foldl (fun d c => dictAppend d c s) d) c =
        if c ∈ cells then dictGet d c ++ [s] else dictGet d c) ∧
    (∀ c, c ∈ keys (cells.foldl (fun d c => dictAppend d c s) d) ↔ c ∈ keys d ∨ c ∈ cells) ∧
    (keys (cells.foldl (fun d c => dictAppend d c s) d)).Nodup
  | [], d, _, hk => ⟨by simp, by simp, hk⟩
  | x :: xs, d, hnd, hk => by
    obtain ⟨hx, hxs⟩ := List.nodup_cons.mp hnd
    obtain ⟨i1, i2, i3⟩ := inner_spec s xs (dictAppend d x s) hxs (nodup_keys_dictAppend x s d hk)
    simp only [List.foldl_cons]
    refine ⟨?_, ?_, i3⟩
    · intro c
      rw [i1 c, dictGet_dictAppend]
      by_cases h1 : x = c
      · subst h1; simp [hx]
      · have h1' : ¬ c = x := fun h => h1 h.symm
        simp [h1, h1']
    · intro c
      rw [i2 c, mem_keys_dictAppend]
      simp only [List.mem_cons]
      tauto

theorem groupBy_spec_aux {S : Type} (hash : S → List C) (hnd : ∀ s, (hash s).Nodup) :
    ∀ (shapes : List S) (d : List (C × List S)), (keys d).Nodup →
    (∀ c, dictGet (shapes.foldl (fun d s => (hash s).foldl (fun d c => dictAppend d c s) d) d) c =
        dictGet d c ++ shapes.filter (fun s => decide (c ∈ hash s))) ∧
    (∀ c, c ∈ keys (shapes.foldl (fun d s => (hash s).foldl (fun d c => dictAppend d c s) d) d) ↔
        c ∈ keys d ∨ ∃ s ∈ shapes, c ∈ hash s) ∧
    (keys (shapes.foldl (fun d s => (hash s).foldl (fun d c => dictAppend d c s) d) d)).Nodup
  | [], d, hk => ⟨by simp, by simp, hk⟩
  | s :: ss, d, hk => by
    obtain ⟨i1, i2, i3⟩ := inner_spec s (hash s) d (hnd s) hk
    obtain ⟨j1, j2, j3⟩ := groupBy_spec_aux hash hnd ss _ i3
    simp only [List.foldl_cons]
    refine ⟨?_, ?_, j3⟩
    · intro c
      rw [j1 c, i1 c]
      by_cases h : c ∈ hash s <;> simp [h]
    · intro c
      rw [j2 c, i2 c]
      simp only [List.mem_cons, exists_eq_or_imp]
      tauto

theorem dictGet_of_mem {S : Type} : ∀ {d : List (C × List S)} {c : C} {l : List S},
    (keys d).Nodup → (c, l) ∈ d → dictGet d c = l
  | [], _, _, _, h => by simp at h
  | (k, l') :: rest, c, l, hk, h => by
    simp only [keys, List.map_cons, List.nodup_cons] at hk
    rcases List.mem_cons.mp h with h | h
    · injection h with h1 h2; subst h1; subst h2; simp [dictGet]
    · have hck : c ∈ rest.map (·.1) := List.mem_map.mpr ⟨(c, l), h, rfl⟩
      have : k ≠ c := fun e => hk.1 (e ▸ hck)
      simp only [dictGet, this, if_false]
      exact dictGet_of_mem hk.2 h

end GV.Flood
