import GeoVerif.Model.Dms
import GeoVerif.Lemmas.Coord
import Mathlib.Algebra.Order.Floor.Ring
import Mathlib.Data.Rat.Floor
import Mathlib.Algebra.Order.Field.Rat
import Mathlib.Tactic.Linarith
import Mathlib.Tactic.NormNum
import Mathlib.Tactic.Ring
import Mathlib.Tactic.Positivity
import Mathlib.Tactic.Push
import Mathlib.Tactic.FieldSimp
import Mathlib.Tactic.IntervalCases

/-!
# Helper lemmas for C19: half-up rounding, the divmod chain, decimal strings
-/
namespace GV.Dms
open GV GV.CoordObj

/-! ## rounding -/

theorem rfloor_eq (x : ℚ) : x.floor = ⌊x⌋ := rfl

theorem pow10_pos (p : ℕ) : 0 < pow10 p := by
  unfold pow10; exact_mod_cast Nat.pos_of_ne_zero (by positivity)

theorem pow10_val (p : ℕ) : pow10 p = (10 : ℚ) ^ p := by
  unfold pow10; push_cast; rfl

theorem roundHalfUp_eq (x : ℚ) (p : ℕ) : roundHalfUp x p = (⌊x * pow10 p + 1 / 2⌋ : ℚ) / pow10 p := rfl

/-- the integer numerator of the rounded value is within 1/2 of the scaled input -/
theorem round_num_bounds (y : ℚ) : (⌊y + 1 / 2⌋ : ℚ) - y ≤ 1 / 2 ∧ -(1 / 2) < (⌊y + 1 / 2⌋ : ℚ) - y := by
  have h1 := Int.floor_le (y + 1 / 2)
  have h2 := Int.lt_floor_add_one (y + 1 / 2)
  constructor <;> linarith

theorem roundHalfUp_err (x : ℚ) (p : ℕ) : |roundHalfUp x p - x| ≤ 1 / (2 * pow10 p) := by
  have hP := pow10_pos p
  obtain ⟨h1, h2⟩ := round_num_bounds (x * pow10 p)
  rw [roundHalfUp_eq, abs_le]
  have e : (⌊x * pow10 p + 1 / 2⌋ : ℚ) / pow10 p - x = ((⌊x * pow10 p + 1 / 2⌋ : ℚ) - x * pow10 p) / pow10 p := by
    field_simp
  rw [e]
  constructor
  · rw [le_div_iff₀ hP]
    have : -(1 / (2 * pow10 p)) * pow10 p = -(1 / 2) := by field_simp
    rw [this]; linarith
  · rw [div_le_iff₀ hP]
    have : 1 / (2 * pow10 p) * pow10 p = 1 / 2 := by field_simp
    rw [this]; exact h1

/-- a value already on the grid is not moved -/
theorem roundHalfUp_grid (x : ℚ) (p : ℕ) (k : ℤ) (h : x * pow10 p = k) : roundHalfUp x p = x := by
  have hP := pow10_pos p
  rw [roundHalfUp_eq, h]
  have : ⌊(k : ℚ) + 1 / 2⌋ = k := by
    rw [Int.floor_eq_iff]; constructor <;> norm_num
  rw [this, ← h]; field_simp

theorem roundHalfUp_nonneg (x : ℚ) (p : ℕ) (h : 0 ≤ x) : 0 ≤ roundHalfUp x p := by
  have hP := pow10_pos p
  rw [roundHalfUp_eq]
  apply div_nonneg _ (le_of_lt hP)
  have : 0 ≤ ⌊x * pow10 p + 1 / 2⌋ := by
    rw [Int.floor_nonneg]; positivity
  exact_mod_cast this

/-- rounding never passes a grid point: `x ≤ k / 10^p` implies `round x ≤ k / 10^p` -/
theorem roundHalfUp_le_grid (x : ℚ) (p : ℕ) (k : ℤ) (h : x * pow10 p ≤ k) : roundHalfUp x p * pow10 p ≤ k := by
  have hP := pow10_pos p
  rw [roundHalfUp_eq, div_mul_cancel₀ _ (ne_of_gt hP)]
  have : ⌊x * pow10 p + 1 / 2⌋ ≤ k := by
    have : ⌊x * pow10 p + 1 / 2⌋ < k + 1 := by
      rw [Int.floor_lt]; push_cast; linarith
    omega
  exact_mod_cast this

/-- the rounded value times the grid is an integer -/
theorem roundHalfUp_mul (x : ℚ) (p : ℕ) : roundHalfUp x p * pow10 p = (⌊x * pow10 p + 1 / 2⌋ : ℚ) := by
  rw [roundHalfUp_eq, div_mul_cancel₀ _ (ne_of_gt (pow10_pos p))]

/-! ## the divmod chain of `to_dms` -/

theorem convertRaw_spec (dd : ℚ) :
    ((convertRaw dd).1 : ℚ) + (convertRaw dd).2.1 / 60 + (convertRaw dd).2.2 / 3600 = |dd| ∧
    0 ≤ (convertRaw dd).1 ∧ 0 ≤ (convertRaw dd).2.1 ∧ (convertRaw dd).2.1 < 60 ∧
    0 ≤ (convertRaw dd).2.2 ∧ (convertRaw dd).2.2 < 60 := by
  simp only [convertRaw, absR_eq, rfloor_eq]
  set t := |dd| * 3600 with ht
  set q := ⌊t / 60⌋ with hq
  have ht0 : 0 ≤ t := by positivity
  have hq0 : 0 ≤ q := by rw [hq, Int.floor_nonneg]; positivity
  have hfl := Int.floor_le (t / 60)
  have hfl2 := Int.lt_floor_add_one (t / 60)
  rw [← hq] at hfl hfl2
  have hdm : (q : ℚ) = 60 * ((q / 60 : ℤ) : ℚ) + ((q % 60 : ℤ) : ℚ) := by
    have := Int.mul_ediv_add_emod q 60
    exact_mod_cast this.symm
  refine ⟨?_, Int.ediv_nonneg hq0 (by norm_num), Int.emod_nonneg q (by norm_num),
    Int.emod_lt_of_pos q (by norm_num), ?_, ?_⟩
  · have : |dd| = t / 3600 := by rw [ht]; field_simp
    rw [this]
    field_simp
    linarith
  · have : (q : ℚ) * 60 ≤ t := by
      have := (le_div_iff₀ (by norm_num : (0:ℚ) < 60)).mp hfl
      linarith
    linarith
  · have : t < ((q : ℚ) + 1) * 60 := (div_lt_iff₀ (by norm_num : (0:ℚ) < 60)).mp hfl2
    linarith

end GV.Dms

namespace GV.Dms

/-! ## decimal strings: `str(int)`, zero padding, and reading them back -/

theorem digit_facts : ∀ j : Fin 10,
    Char.ofNat (48 + j.val) ≠ '.' ∧
    decide ('0' ≤ Char.ofNat (48 + j.val) ∧ Char.ofNat (48 + j.val) ≤ '9') = true ∧
    (Char.ofNat (48 + j.val)).toNat - 48 = j.val := by decide

theorem digitChar_ne_dot (n : ℕ) : digitChar n ≠ '.' :=
  (digit_facts ⟨n % 10, Nat.mod_lt _ (by norm_num)⟩).1

theorem digitChar_isDigit (n : ℕ) : decide ('0' ≤ digitChar n ∧ digitChar n ≤ '9') = true :=
  (digit_facts ⟨n % 10, Nat.mod_lt _ (by norm_num)⟩).2.1

theorem digitVal_digitChar (n : ℕ) : digitVal (digitChar n) = n % 10 :=
  (digit_facts ⟨n % 10, Nat.mod_lt _ (by norm_num)⟩).2.2

theorem natStr_lt {n : ℕ} (h : n < 10) : natStr n = [digitChar n] := by
  rw [natStr]; simp [h]

theorem natStr_ge {n : ℕ} (h : ¬ n < 10) : natStr n = natStr (n / 10) ++ [digitChar (n % 10)] := by
  rw [natStr]; simp [h]

/-- a number below `10^k` prints with at most `k` characters -/
theorem natStr_length_le : ∀ (k n : ℕ), 1 ≤ k → n < 10 ^ k → (natStr n).length ≤ k := by
  intro k
  induction k with
  | zero => intro n h; omega
  | succ k ih =>
    intro n _ hn
    by_cases h10 : n < 10
    · rw [natStr_lt h10]; simp
    · rw [natStr_ge h10]
      have hk : 1 ≤ k := by
        rcases k with _ | k
        · simp at hn; omega
        · omega
      have : n / 10 < 10 ^ k := by
        apply Nat.div_lt_of_lt_mul; rw [pow_succ] at hn; omega
      have := ih (n / 10) hk this
      simp; omega

theorem natStr_length_pos (n : ℕ) : 1 ≤ (natStr n).length := by
  by_cases h10 : n < 10
  · rw [natStr_lt h10]; simp
  · rw [natStr_ge h10]; simp

theorem natStr_chars (n : ℕ) : ∀ c ∈ natStr n, ∃ j, c = digitChar j := by
  induction n using Nat.strong_induction_on with
  | _ n ih =>
    intro c hc
    by_cases h10 : n < 10
    · rw [natStr_lt h10] at hc; simp at hc; exact ⟨n, hc⟩
    · rw [natStr_ge h10] at hc
      simp only [List.mem_append, List.mem_singleton] at hc
      rcases hc with hc | hc
      · exact ih (n / 10) (by omega) c hc
      · exact ⟨n % 10, hc⟩

theorem natStr_no_dot (n : ℕ) : ∀ c ∈ natStr n, c ≠ '.' := by
  intro c hc; obtain ⟨j, rfl⟩ := natStr_chars n c hc; exact digitChar_ne_dot j

theorem allDigits_append (a b : List Char) : allDigits (a ++ b) = (allDigits a && allDigits b) := by
  simp [allDigits, List.all_append]

theorem allDigits_natStr (n : ℕ) : allDigits (natStr n) = true := by
  unfold allDigits
  rw [List.all_eq_true]
  intro c hc; obtain ⟨j, rfl⟩ := natStr_chars n c hc; exact digitChar_isDigit j

theorem allDigits_zeros (k : ℕ) : allDigits (List.replicate k '0') = true := by
  unfold allDigits
  rw [List.all_eq_true]
  intro c hc; rw [List.mem_replicate] at hc; rw [hc.2]; decide

theorem digitsVal_append_single (l : List Char) (c : Char) :
    digitsVal (l ++ [c]) = 10 * digitsVal l + digitVal c := by
  simp [digitsVal, List.foldl_append]

theorem digitsVal_natStr (n : ℕ) : digitsVal (natStr n) = n := by
  induction n using Nat.strong_induction_on with
  | _ n ih =>
    by_cases h10 : n < 10
    · rw [natStr_lt h10]
      simp only [digitsVal, List.foldl_cons, List.foldl_nil, digitVal_digitChar]; omega
    · rw [natStr_ge h10, digitsVal_append_single, ih (n / 10) (by omega), digitVal_digitChar]; omega

theorem digitsVal_zeros (k : ℕ) (l : List Char) : digitsVal (List.replicate k '0' ++ l) = digitsVal l := by
  induction k with
  | zero => simp
  | succ k ih =>
    rw [List.replicate_succ, List.cons_append]
    unfold digitsVal at *
    rw [List.foldl_cons]
    have : 10 * 0 + digitVal '0' = 0 := by decide
    rw [this]; exact ih

theorem zeroPad_clean (l : List Char) (len : ℕ) (hl : ∀ c ∈ l, c ≠ '.') :
    zeroPad l len = List.replicate (len - l.length) '0' ++ l := by
  have : l.filter (fun c => decide (c ≠ '.')) = l := by
    rw [List.filter_eq_self]; intro c hc; simpa using hl c hc
  simp only [zeroPad, this]

theorem zeroPad_length (l : List Char) (len : ℕ) (hl : ∀ c ∈ l, c ≠ '.') (h : l.length ≤ len) :
    (zeroPad l len).length = len := by
  rw [zeroPad_clean l len hl]; simp; omega

/-- `float(zero_pad(n, w)) = n` -/
theorem parse_zeroPad (n w : ℕ) : parseDigits (zeroPad (natStr n) w) = .ok (n : ℚ) := by
  rw [zeroPad_clean _ _ (natStr_no_dot n)]
  unfold parseDigits
  have h1 : List.replicate (w - (natStr n).length) '0' ++ natStr n ≠ [] := by
    intro h
    have h' := (List.append_eq_nil_iff.mp h).2
    have := natStr_length_pos n
    rw [h'] at this; simp at this
  have h2 : allDigits (List.replicate (w - (natStr n).length) '0' ++ natStr n) = true := by
    rw [allDigits_append, allDigits_zeros, allDigits_natStr]; rfl
  simp only [h1, h2, ne_eq, not_false_eq_true, and_self, if_true, digitsVal_zeros, digitsVal_natStr]

/-! ### the seconds field -/

theorem fmt2_clean (h : ℕ) :
    (fmt2 h).filter (fun c => decide (c ≠ '.')) = natStr (h / 100) ++ [digitChar (h / 10 % 10), digitChar (h % 10)] := by
  unfold fmt2
  rw [List.filter_append]
  have : (natStr (h / 100)).filter (fun c => decide (c ≠ '.')) = natStr (h / 100) := by
    rw [List.filter_eq_self]; intro c hc; simpa using natStr_no_dot _ c hc
  rw [this]
  simp [digitChar_ne_dot]

theorem zeroPad_fmt2 (h : ℕ) (hh : h < 10000) :
    zeroPad (fmt2 h) 4 = (List.replicate (2 - (natStr (h / 100)).length) '0' ++ natStr (h / 100))
      ++ [digitChar (h / 10 % 10), digitChar (h % 10)] := by
  have hl : (natStr (h / 100)).length ≤ 2 := natStr_length_le 2 (h / 100) (by norm_num) (by omega)
  simp only [zeroPad, fmt2_clean]
  simp only [List.length_append, List.length_cons, List.length_nil]
  rw [show 4 - ((natStr (h / 100)).length + (0 + 1 + 1)) = 2 - (natStr (h / 100)).length by omega]
  simp

theorem zeroPad_fmt2_length (h : ℕ) (hh : h < 10000) : (zeroPad (fmt2 h) 4).length = 4 := by
  have hl : (natStr (h / 100)).length ≤ 2 := natStr_length_le 2 (h / 100) (by norm_num) (by omega)
  rw [zeroPad_fmt2 h hh]; simp; omega

/-- `float(s[:2] + '.' + s[2:])` of the written seconds field is hundredths / 100 -/
theorem parseSeconds_fmt2 (h : ℕ) (hh : h < 10000) :
    parseSeconds (zeroPad (fmt2 h) 4) = .ok ((h : ℚ) / 100) := by
  have hl : (natStr (h / 100)).length ≤ 2 := natStr_length_le 2 (h / 100) (by norm_num) (by omega)
  have hlen : (List.replicate (2 - (natStr (h / 100)).length) '0' ++ natStr (h / 100)).length = 2 := by
    simp; omega
  rw [zeroPad_fmt2 h hh]
  unfold parseSeconds
  simp only [List.take_left' hlen, List.drop_left' hlen]
  have h1 : allDigits (List.replicate (2 - (natStr (h / 100)).length) '0' ++ natStr (h / 100)) = true := by
    rw [allDigits_append, allDigits_zeros, allDigits_natStr]; rfl
  have h2 : allDigits [digitChar (h / 10 % 10), digitChar (h % 10)] = true := by
    simp only [allDigits, List.all_cons, List.all_nil, Bool.and_true, Bool.and_eq_true]
    exact ⟨digitChar_isDigit _, digitChar_isDigit _⟩
  have h3 : digitsVal [digitChar (h / 10 % 10), digitChar (h % 10)] = h % 100 := by
    simp only [digitsVal, List.foldl_cons, List.foldl_nil, digitVal_digitChar]; omega
  simp only [h1, h2, h3, digitsVal_zeros, digitsVal_natStr, ne_eq, List.append_eq_nil_iff,
    reduceCtorEq, and_false, not_false_eq_true, and_self, if_true, List.length_cons, List.length_nil]
  congr 1
  have : (h : ℚ) = ((h / 100 : ℕ) : ℚ) * 100 + ((h % 100 : ℕ) : ℚ) := by
    have := Nat.div_add_mod h 100
    exact_mod_cast (by omega : h = h / 100 * 100 + h % 100)
  rw [this, pow10_val]; norm_num; ring

end GV.Dms
