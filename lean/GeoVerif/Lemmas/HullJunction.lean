import GeoVerif.Lemmas.HullRing
import GeoVerif.Lemmas.HullGeom
import GeoVerif.Lemmas.HullSort

/-!
# The assembled ring: shape of the two chains, closedness, strict turns at the two junctions,
no repeated vertex, the all-collinear case

`L` = `lower` and `U` = `upper` as Python lists (bottom of the stack first).
-/
namespace GV.Hull

/-! ## list plumbing for `Turns` -/

theorem turns_glue : ∀ (X : List Pt) (a b : Pt) (Y : List Pt),
    Turns (X ++ [a, b]) → Turns (a :: b :: Y) → Turns (X ++ a :: b :: Y)
  | [], _, _, _, _, h => h
  | [_], _, _, _, h1, h2 => ⟨h1.1, h2⟩
  | [_, y], a, b, Y, h1, h2 => ⟨h1.1, turns_glue [y] a b Y h1.2 h2⟩
  | _ :: y :: z :: X', a, b, Y, h1, h2 => ⟨h1.1, turns_glue (y :: z :: X') a b Y h1.2 h2⟩

theorem turns_tail : ∀ {a : Pt} {l : List Pt}, Turns (a :: l) → Turns l
  | _, [], _ => trivial
  | _, [_], _ => trivial
  | _, _ :: _ :: _, h => h.2

theorem turns_suffix : ∀ (X : List Pt) {Y : List Pt}, Turns (X ++ Y) → Turns Y
  | [], _, h => h
  | _ :: X, _, h => turns_suffix X (turns_tail h)

theorem turns_infix {l : List Pt} (h : Turns l) {X Y : List Pt} {a b c : Pt}
    (e : l = X ++ a :: b :: c :: Y) : 0 < cross a b c := by
  subst e; exact (turns_suffix X h).1

/-- strict left turns on the stack (top first) are strict left turns of the Python list -/
theorem turns_reverse : ∀ (st : List Pt), LeftTurns st → Turns st.reverse
  | [], _ => trivial
  | [_], _ => trivial
  | [_, _], _ => trivial
  | a :: b :: c :: rest, h => by
    have ih := turns_reverse (b :: c :: rest) h.2
    have e1 : (b :: c :: rest).reverse = rest.reverse ++ [c, b] := by simp
    have e2 : (a :: b :: c :: rest).reverse = rest.reverse ++ c :: b :: [a] := by simp
    rw [e1] at ih; rw [e2]
    exact turns_glue _ c b [a] ih ⟨h.1, trivial⟩

theorem desc_pairwise : ∀ (st : List Pt), Desc st → st.Pairwise (fun a b => lexLt b a)
  | [], _ => List.Pairwise.nil
  | [_], _ => List.pairwise_singleton _ _
  | a :: b :: rest, h => by
    rw [List.pairwise_cons]
    exact ⟨fun s hs => Desc.all_lt h s hs, desc_pairwise (b :: rest) h.2⟩

theorem desc_hneg : ∀ (st : List Pt), Desc (st.map hneg) → st.Pairwise lexLt
  | [], _ => List.Pairwise.nil
  | [_], _ => List.pairwise_singleton _ _
  | a :: b :: rest, h => by
    have hp := desc_pairwise _ h
    rw [List.pairwise_map] at hp
    exact hp.imp (fun h' => lexLt_neg.mp h')

/-! ## the shape of the two chains -/

/-- everything the junction arguments need about `lower` and `upper` -/
structure Chains (S L U : List Pt) (mn mx : Pt) : Prop where
  lt : lexLt mn mx
  Lhead : L.head? = some mn
  Llast : L.getLast? = some mx
  Uhead : U.head? = some mx
  Ulast : U.getLast? = some mn
  Lasc : L.Pairwise lexLt
  Udesc : U.Pairwise (fun a b => lexLt b a)
  Lturns : Turns L
  Uturns : Turns U
  Lcont : ∀ q ∈ S, Contains L q
  Ucont : ∀ q ∈ S, Contains U q
  Lsub : ∀ x ∈ L, x ∈ S
  Usub : ∀ x ∈ U, x ∈ S

theorem two_le_ends {S : List Pt} (hS : S.Pairwise lexLt) (h2 : 2 ≤ S.length) :
    ∃ mn mx, S.head? = some mn ∧ S.getLast? = some mx ∧ lexLt mn mx := by
  match S, h2 with
  | a :: b :: rest, _ =>
    have hne : (b :: rest) ≠ [] := by simp
    refine ⟨a, (b :: rest).getLast hne, rfl, ?_, ?_⟩
    · rw [List.getLast?_cons_cons, List.getLast?_eq_some_getLast hne]
    · exact (List.pairwise_cons.mp hS).1 _ (List.getLast_mem hne)

theorem chains_of_sorted {S : List Pt} (hS : S.Pairwise lexLt) (h2 : 2 ≤ S.length) :
    ∃ mn mx, S.head? = some mn ∧ S.getLast? = some mx ∧
      Chains S (chain S).reverse (chain S.reverse).reverse mn mx := by
  obtain ⟨mn, mx, hmn, hmx, hlt⟩ := two_le_ends hS h2
  refine ⟨mn, mx, hmn, hmx, ?_⟩
  obtain ⟨hI, htop, hsub⟩ := chain_inv S hS
  obtain ⟨hu1, hu2, hu3⟩ := upper_chain_correct S hS
  have hS' : (S.reverse.map hneg).Pairwise lexLt := by
    rw [List.pairwise_map, List.pairwise_reverse]
    exact hS.imp (fun h => lexLt_neg.mpr h)
  obtain ⟨hI', htop', _⟩ := chain_inv _ hS'
  rw [chain_hneg] at hI' htop'
  have hUtop : (chain S.reverse).head? = some mn := by
    have : ((chain S.reverse).head?).map hneg = (some mn).map hneg := by
      rw [← List.head?_map, htop']; simp [hmn]
    cases h : (chain S.reverse).head? with
    | none => rw [h] at this; simp at this
    | some y =>
      rw [h] at this; simp only [Option.map_some, Option.some.injEq] at this
      have := congrArg hneg this; rw [hneg_hneg, hneg_hneg] at this; rw [this]
  refine ⟨hlt, ?_, ?_, ?_, ?_, ?_, ?_, ?_, ?_, ?_, ?_, ?_, ?_⟩
  · rw [List.head?_reverse, chain_bottom S hS, hmn]
  · rw [List.getLast?_reverse, htop, hmx]
  · rw [List.head?_reverse, upper_bottom S hS, hmx]
  · rw [List.getLast?_reverse, hUtop]
  · rw [List.pairwise_reverse]; exact desc_pairwise _ hI.desc
  · rw [List.pairwise_reverse]; exact desc_hneg _ hI'.desc
  · exact turns_reverse _ hI.turns
  · exact turns_reverse _ hu2
  · intro q hq
    unfold Contains; rw [List.isChain_reverse]
    exact (edgesGe_iff_chain q _).mp (hI.edges q hq)
  · intro q hq
    unfold Contains; rw [List.isChain_reverse]
    exact (edgesGe_iff_chain q _).mp (hu1 q hq)
  · intro x hx; exact hsub x (List.mem_reverse.mp hx)
  · intro x hx; exact hu3 x (List.mem_reverse.mp hx)

/-! ## decomposition of a chain at its two ends -/

theorem ends_decomp {l : List Pt} {a z : Pt} (hh : l.head? = some a) (hl : l.getLast? = some z)
    (hne : a ≠ z) : ∃ a1 l2 l0 zp, l = a :: a1 :: l2 ∧ l = l0 ++ [zp, z] := by
  match l, hh, hl with
  | [x], hh, hl =>
    simp at hh hl; exact absurd (hh.symm.trans hl) hne
  | x :: y :: rest, hh, hl =>
    simp only [List.head?_cons, Option.some.injEq] at hh
    subst hh
    refine ⟨y, rest, ?_⟩
    have hr : ((x :: y :: rest).reverse).head? = some z := by rw [List.head?_reverse]; exact hl
    match hrev : (x :: y :: rest).reverse, hr with
    | [w], _ => have := congrArg List.length hrev; simp at this
    | w :: v :: r, hr =>
      simp only [List.head?_cons, Option.some.injEq] at hr
      subst hr
      refine ⟨r.reverse, v, rfl, ?_⟩
      have := congrArg List.reverse hrev
      rw [List.reverse_reverse] at this
      rw [this]; simp

theorem contains_infix {l : List Pt} {q : Pt} (h : Contains l q) {X Y : List Pt} {a b : Pt}
    (e : l = X ++ a :: b :: Y) : 0 ≤ cross a b q := by
  subst e
  unfold Contains at h
  have := h.infix (l₁ := [a, b]) ⟨X, Y, by simp⟩
  exact (List.isChain_cons_cons.mp this).1

/-! ## strict turns at the two junctions -/

theorem junction_max {S L U : List Pt} {mn mx : Pt} (hc : Chains S L U mn mx)
    (hnc : ¬ Collinear S) {L0 U2 : List Pt} {lp u1 : Pt}
    (eL : L = L0 ++ [lp, mx]) (eU : U = mx :: u1 :: U2) : 0 < cross lp mx u1 := by
  have hlp : lexLt lp mx := by
    have := hc.Lasc; rw [eL, List.pairwise_append] at this
    exact (List.pairwise_cons.mp this.2.1).1 mx (by simp)
  have hu1 : lexLt u1 mx := by
    have := hc.Udesc; rw [eU] at this
    exact (List.pairwise_cons.mp this).1 u1 (by simp)
  have h1 : ∀ q ∈ S, 0 ≤ cross lp mx q := fun q hq =>
    contains_infix (hc.Lcont q hq) (X := L0) (Y := []) eL
  have h2 : ∀ q ∈ S, 0 ≤ cross mx u1 q := fun q hq =>
    contains_infix (hc.Ucont q hq) (X := []) (Y := U2) eU
  have hu1S : u1 ∈ S := hc.Usub u1 (by rw [eU]; simp)
  rcases lt_or_eq_of_le (h1 u1 hu1S) with h | h
  · exact h
  · exfalso
    have hflat := junction_flat (Or.inl ⟨hlp, hu1⟩) h1 h2 h.symm
    exact hnc (collinear_of_line (fun e => lexLt_irrefl _ (e ▸ hlp)) hflat)

theorem junction_min {S L U : List Pt} {mn mx : Pt} (hc : Chains S L U mn mx)
    (hnc : ¬ Collinear S) {U0 L2 : List Pt} {up l1 : Pt}
    (eU : U = U0 ++ [up, mn]) (eL : L = mn :: l1 :: L2) : 0 < cross up mn l1 := by
  have hup : lexLt mn up := by
    have := hc.Udesc; rw [eU, List.pairwise_append] at this
    exact (List.pairwise_cons.mp this.2.1).1 mn (by simp)
  have hl1 : lexLt mn l1 := by
    have := hc.Lasc; rw [eL] at this
    exact (List.pairwise_cons.mp this).1 l1 (by simp)
  have h1 : ∀ q ∈ S, 0 ≤ cross up mn q := fun q hq =>
    contains_infix (hc.Ucont q hq) (X := U0) (Y := []) eU
  have h2 : ∀ q ∈ S, 0 ≤ cross mn l1 q := fun q hq =>
    contains_infix (hc.Lcont q hq) (X := []) (Y := L2) eL
  have hl1S : l1 ∈ S := hc.Lsub l1 (by rw [eL]; simp)
  rcases lt_or_eq_of_le (h1 l1 hl1S) with h | h
  · exact h
  · exfalso
    have hflat := junction_flat (Or.inr ⟨hup, hl1⟩) h1 h2 h.symm
    exact hnc (collinear_of_line (fun e => lexLt_irrefl _ (e ▸ hup)) hflat)

/-- pure list assembly of the cyclic strict-turn statement -/
theorem ring_turns {L0 U2 U0 : List Pt} {lp mx u1 up mn l1 : Pt}
    (eU : mx :: u1 :: U2 = U0 ++ [up, mn])
    (hL : Turns (L0 ++ [lp, mx])) (hU : Turns (mx :: u1 :: U2))
    (j1 : 0 < cross lp mx u1) (j2 : 0 < cross up mn l1) :
    Turns (L0 ++ [lp] ++ (mx :: u1 :: U2) ++ [l1]) := by
  have s1 : Turns (L0 ++ lp :: mx :: [u1]) := turns_glue L0 lp mx [u1] hL ⟨j1, trivial⟩
  have s2 : Turns ((L0 ++ [lp]) ++ mx :: u1 :: U2) :=
    turns_glue (L0 ++ [lp]) mx u1 U2 (by simpa using s1) hU
  rw [eU] at s2 ⊢
  have s3 := turns_glue (L0 ++ [lp] ++ U0) up mn [l1] (by simpa using s2) ⟨j2, trivial⟩
  simpa using s3

end GV.Hull
