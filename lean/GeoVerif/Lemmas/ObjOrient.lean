import GeoVerif.Model.Obj
import GeoVerif.Lemmas.Rot
import GeoVerif.Lemmas.PySet
import GeoVerif.Lemmas.ObjEq
import GeoVerif.Lemmas.ObjRing
import Mathlib.Data.List.Rotate
import Mathlib.Data.List.Zip
import Mathlib.Algebra.BigOperators.Group.List.Basic
import Mathlib.Algebra.Order.Field.Rat
import Mathlib.Tactic.Linarith
import Mathlib.Tactic.Ring

/-!
# Orientation normalisation of `GeoPolygon.__init__` is invariant under re-writing the ring
(helper lemmas for `hole_rewrite_eq`, C15)

For rings that do not wrap around the antimeridian (all longitudes within 180° of each other) the sum
in `is_counter_clockwise` is the shoelace sum over the cyclic successor pairs; rotating the ring
permutes the summands, reversing it negates them.
-/
set_option linter.unusedSectionVars false
namespace GV.Obj
open GV

/-- the summand of `is_counter_clockwise` for an edge that is not un-wrapped -/
def shoeTerm (e : Edge) : Rat := (e.2.1 - e.1.1) * (e.2.2 + e.1.2)

/-- cyclic successor pairs of an (open) ring -/
def cyc {α : Type} (l : List α) : List (α × α) := l.zip (l.rotate 1)

/-- shoelace sum of an open ring, no un-wrapping -/
def shoelaceOpen (ps : List Pt) : Rat := ((cyc ps).map shoeTerm).sum

theorem cyclicPairs_eq_cyc (l : List Pt) : cyclicPairs l = cyc l := by
  cases l with
  | nil => rfl
  | cons v vs => simp [cyclicPairs, cyc, List.rotate_cons_succ]

theorem cyc_rotate {α : Type} (l : List α) (k : Nat) : cyc (l.rotate k) = (cyc l).rotate k := by
  unfold cyc
  rw [List.zip_eq_zipWith, List.zip_eq_zipWith, List.zipWith_rotate_distrib _ _ _ _ (by simp),
    List.rotate_rotate, List.rotate_rotate, Nat.add_comm]

theorem rotate_succ_pred {α : Type} (l : List α) : (l.rotate 1).rotate (l.length - 1 % l.length) = l := by
  rw [List.rotate_rotate]
  rcases Nat.lt_or_ge l.length 2 with h | h
  · rcases Nat.lt_or_ge l.length 1 with h0 | h0
    · have : l = [] := List.length_eq_zero_iff.mp (by omega)
      subst this; rfl
    · have h1 : l.length = 1 := by omega
      rw [h1]
      obtain ⟨a, rfl⟩ := List.length_eq_one_iff.mp h1
      simp [List.rotate_singleton]
  · rw [Nat.mod_eq_of_lt (by omega)]
    have : 1 + (l.length - 1) = l.length := by omega
    rw [this, List.rotate_length]

theorem cyc_reverse_perm {α : Type} (l : List α) : (cyc l.reverse).Perm ((cyc l).map Prod.swap) := by
  unfold cyc
  rw [List.rotate_reverse, List.zip_eq_zipWith, ← List.reverse_zipWith (by simp), ← List.zip_eq_zipWith]
  refine (List.reverse_perm _).trans ?_
  rw [← List.zip_swap]
  refine List.Perm.map _ ?_
  -- (l.rotate m).zip l  is  (l.zip (l.rotate 1)) rotated by m
  have h := rotate_succ_pred l
  have : (l.rotate (l.length - 1 % l.length)).zip l =
      (l.zip (l.rotate 1)).rotate (l.length - 1 % l.length) := by
    rw [List.zip_eq_zipWith, List.zip_eq_zipWith, List.zipWith_rotate_distrib _ _ _ _ (by simp), h]
  rw [this]
  exact List.rotate_perm _ _

theorem shoeTerm_swap (e : Edge) : shoeTerm e.swap = - shoeTerm e := by
  simp only [shoeTerm, Prod.swap]; ring

theorem shoelaceOpen_rotate (ps : List Pt) (k : Nat) : shoelaceOpen (ps.rotate k) = shoelaceOpen ps := by
  unfold shoelaceOpen
  rw [cyc_rotate]
  exact ((List.rotate_perm _ _).map _).sum_eq

theorem shoelaceOpen_reverse (ps : List Pt) : shoelaceOpen ps.reverse = - shoelaceOpen ps := by
  unfold shoelaceOpen
  rw [((cyc_reverse_perm ps).map shoeTerm).sum_eq, List.map_map, List.sum_neg, List.map_map]
  congr 1
  apply List.map_congr_left
  intro e _
  simp [Function.comp, shoeTerm_swap]

/-! ### the sum the code forms, for rings that stay within 180° of longitude -/

/-- all longitudes of the ring lie within 180° of each other -/
def NoWrap (o : List Coord) : Prop := ∀ a ∈ o, ∀ b ∈ o, absR (a.lon - b.lon) ≤ 180

theorem ensureEdge_of_le {a b : Pt} (h : absR (a.1 - b.1) ≤ 180) : ensureEdge a b = (a, b) := by
  unfold ensureEdge
  have : ¬ absR (a.1 - b.1) > 180 := not_lt.mpr h
  simp [this]

theorem foldl_add_eq_sum (l : List Rat) : l.foldl (· + ·) 0 = l.sum := List.sum_eq_foldl.symm

/-- `shoelace` of a point list all of whose cyclic pairs stay within 180° -/
theorem shoelace_eq_of_noWrap (ps : List Pt) (h : ∀ e ∈ cyc ps, absR (e.1.1 - e.2.1) ≤ 180) :
    shoelace ps = shoelaceOpen ps := by
  unfold shoelace shoelaceOpen
  rw [foldl_add_eq_sum, cyclicPairs_eq_cyc]
  congr 1
  apply List.map_congr_left
  intro e he
  simp [ensureEdge_of_le (h e he), shoeTerm]

theorem mem_cyc {α : Type} {l : List α} {e : α × α} (h : e ∈ cyc l) : e.1 ∈ l ∧ e.2 ∈ l := by
  unfold cyc at h
  have := List.of_mem_zip h
  exact ⟨this.1, (List.mem_rotate).mp this.2⟩

/-- the explicitly closed ring adds the degenerate pair `(a, a)` only -/
theorem cyc_closeOpen_pts (a : Pt) (t : List Pt) :
    cyc ((a :: t) ++ [a]) = cyc (a :: t) ++ [(a, a)] := by
  unfold cyc
  simp only [List.cons_append, List.rotate_cons_succ, List.rotate_zero]
  rw [show (a :: (t ++ [a])) = (a :: t) ++ [a] by simp, show t ++ [a] ++ [a] = (t ++ [a]) ++ [a] by simp]
  rw [List.zip_append (by simp)]
  simp

theorem absR_self_sub (x : Rat) : absR (x - x) ≤ 180 := by
  simp [absR]

theorem shoelace_closeOpen (o : List Coord) (hnw : NoWrap o) :
    shoelace ((closeOpen o).map Coord.pt) = shoelaceOpen (o.map Coord.pt) := by
  cases o with
  | nil => simp [closeOpen, shoelace, shoelaceOpen, cyc, cyclicPairs]
  | cons a t =>
    have hmap : (closeOpen (a :: t)).map Coord.pt = (a.pt :: t.map Coord.pt) ++ [a.pt] := by
      simp [closeOpen]
    rw [hmap, shoelace_eq_of_noWrap]
    · unfold shoelaceOpen
      rw [cyc_closeOpen_pts]
      simp [shoeTerm]
    · intro e he
      rw [cyc_closeOpen_pts] at he
      rcases List.mem_append.mp he with he | he
      · obtain ⟨h1, h2⟩ := mem_cyc he
        have h1' : e.1 ∈ (a :: t).map Coord.pt := by simpa using h1
        have h2' : e.2 ∈ (a :: t).map Coord.pt := by simpa using h2
        obtain ⟨x, hx, hx'⟩ := List.mem_map.mp h1'
        obtain ⟨y, hy, hy'⟩ := List.mem_map.mp h2'
        rw [← hx', ← hy']
        exact hnw x hx y hy
      · simp only [List.mem_singleton] at he
        subst he
        exact absR_self_sub _

theorem isCCW_closeOpen (o : List Coord) (hnw : NoWrap o) :
    isCCW ((closeOpen o).map Coord.pt) = decide (shoelaceOpen (o.map Coord.pt) ≤ 0) := by
  unfold isCCW
  rw [shoelace_closeOpen o hnw]

/-- what `GeoPolygon(ring)` stores for an explicitly closed, non-wrapping ring -/
theorem mkOutlineC_closeOpen (o : List Coord) (hnw : NoWrap o) :
    mkOutlineC (closeOpen o) = if shoelaceOpen (o.map Coord.pt) ≤ 0 then closeOpen o else (closeOpen o).reverse := by
  unfold mkOutlineC
  simp only [closeRingC_closeOpen, isCCW_closeOpen o hnw, Bool.xor_false]
  by_cases h : shoelaceOpen (o.map Coord.pt) ≤ 0 <;> simp [h]

/-- the reversed closed ring is the closed form of the ring walked backwards from the same vertex -/
def revFrom : List Coord → List Coord
  | [] => []
  | a :: t => a :: t.reverse

theorem closeOpen_reverse (o : List Coord) : (closeOpen o).reverse = closeOpen (revFrom o) := by
  cases o with
  | nil => rfl
  | cons a t => simp [closeOpen, revFrom]

theorem revFrom_isRotated (o : List Coord) : revFrom o ~r o.reverse := by
  cases o with
  | nil => exact List.IsRotated.refl _
  | cons a t =>
    simp only [revFrom, List.reverse_cons]
    refine List.IsRotated.symm ⟨t.reverse.length, ?_⟩
    rw [List.rotate_append_length_eq]; rfl

theorem revFrom_ne_nil {o : List Coord} (h : o ≠ []) : revFrom o ≠ [] := by
  cases o <;> simp_all [revFrom]

theorem noWrap_of_perm {o o' : List Coord} (hp : o'.Perm o) (h : NoWrap o) : NoWrap o' :=
  fun a ha b hb => h a (hp.subset ha) b (hp.subset hb)

end GV.Obj
