import GeoVerif.Lemmas.Pip
import Mathlib.Data.List.Rotate
import Mathlib.Data.List.Perm.Basic

/-!
Ring-structure lemmas for C01: the edge list of a closed ring, its behaviour under rotation of the start
vertex and under reversal, and the membership characterisation of the bounding-box prefilter.
-/
namespace GV

/-- consecutive pairs of an open path: `zip(l, l[1:])` -/
def pathEdges (l : List Pt) : List Edge := l.zip l.tail

/-- close an open outline by repeating its first vertex -/
def closeUp : List Pt → List Pt
  | [] => []
  | v :: r => v :: r ++ [v]

theorem zip_append_trunc {α β : Type} : ∀ (l1 x : List α) (l2 : List β), l2.length ≤ l1.length →
    (l1 ++ x).zip l2 = l1.zip l2
  | [], x, l2, h => by
    have : l2 = [] := by cases l2 <;> simp_all
    subst this; simp
  | a :: l1, x, [], _ => by simp
  | a :: l1, x, b :: l2, h => by
    simp only [List.cons_append, List.zip_cons_cons, List.cons.injEq, true_and]
    exact zip_append_trunc l1 x l2 (by simpa using h)

theorem ringEdges_eq_pathEdges_closeUp (vs : List Pt) : ringEdges vs = pathEdges (closeUp vs) := by
  cases vs with
  | nil => rfl
  | cons v r =>
    simp only [ringEdges, pathEdges, closeUp, List.cons_append, List.tail_cons]
    -- zip truncates the longer list
    have : (v :: (r ++ [v])) = (v :: r) ++ [v] := by simp
    rw [this, zip_append_trunc _ _ _ (by simp)]

/-- a closed ring's edge list is the path around it plus the degenerate closing edge -/
theorem ringEdges_closeUp (v : Pt) (r : List Pt) :
    ringEdges (closeUp (v :: r)) = ringEdges (v :: r) ++ [(v, v)] := by
  simp only [closeUp, ringEdges, List.cons_append]
  have h1 : (v :: (r ++ [v])) = (v :: r) ++ [v] := by simp
  have h2 : (r ++ [v] ++ [v]) = (r ++ [v]) ++ [v] := rfl
  rw [h1, List.zip_append (by simp)]
  simp

theorem onEdge_endpoint_left (e : Edge) : onEdge e.1 e = true := by
  unfold onEdge pcross minR maxR
  simp only [sub_self, mul_zero, zero_mul, decide_true, Bool.true_and, Bool.and_eq_true,
    decide_eq_true_eq]
  refine ⟨⟨⟨?_, ?_⟩, ?_⟩, ?_⟩ <;> split <;> linarith

theorem onEdge_degenerate (p v : Pt) : onEdge p (v, v) = true ↔ p = v := by
  constructor
  · intro h
    unfold onEdge minR maxR at h
    simp only [le_refl, if_true, Bool.and_eq_true, decide_eq_true_eq] at h
    exact Prod.ext (le_antisymm h.1.1.2 h.1.1.1.2) (le_antisymm h.2 h.1.2)
  · rintro rfl; exact onEdge_endpoint_left (p, p)

theorem crossesRay_degenerate (p v : Pt) : crossesRay p (v, v) = false := by
  unfold crossesRay; simp

/-- the degenerate closing edge never changes the answer when its vertex starts a real edge -/
theorem insideEO_append_degenerate (p v : Pt) (es : List Edge) (h : ∃ e ∈ es, e.1 = v) :
    insideEO p (es ++ [(v, v)]) = insideEO p es := by
  unfold insideEO
  have hany : (es ++ [(v, v)]).any (onEdge p) = es.any (onEdge p) := by
    rw [List.any_append]
    by_cases hp : onEdge p (v, v) = true
    · obtain ⟨e, he, hev⟩ := h
      have : p = v := (onEdge_degenerate p v).mp hp
      have hon : onEdge p e = true := by rw [this, ← hev]; exact onEdge_endpoint_left e
      have : es.any (onEdge p) = true := List.any_eq_true.mpr ⟨e, he, hon⟩
      simp [this]
    · simp [hp]
  rw [hany, List.countP_append]
  simp [List.countP_cons, crossesRay_degenerate]

/-- **the ring test of a closed ring only looks at the path around it** -/
theorem pointInRing_closeUp (p v : Pt) (r : List Pt) :
    pointInRing p (closeUp (v :: r)) = insideEO p (ringEdges (v :: r)) := by
  rw [pointInRing_eq_spec, ringEdges_closeUp]
  apply insideEO_append_degenerate
  cases r with
  | nil => exact ⟨(v, v), by simp [ringEdges], rfl⟩
  | cons w t => exact ⟨(v, w), by simp [ringEdges], rfl⟩

/-! ### rotation of the start vertex -/

theorem ringEdges_rotate_one (a : Pt) (l : List Pt) :
    (ringEdges (l ++ [a])).Perm (ringEdges (a :: l)) := by
  cases l with
  | nil => simp [ringEdges]
  | cons b t =>
    have h1 : ringEdges (b :: t ++ [a]) = (b :: t).zip (t ++ [a]) ++ [(a, b)] := by
      simp only [ringEdges, List.cons_append]
      have e1 : b :: (t ++ [a]) = (b :: t) ++ [a] := by simp
      have e2 : t ++ [a] ++ [b] = (t ++ [a]) ++ [b] := rfl
      rw [e1, List.zip_append (by simp)]
      simp
    have h2 : ringEdges (a :: b :: t) = (a, b) :: (b :: t).zip (t ++ [a]) := by
      simp [ringEdges]
    rw [h1, h2]
    exact List.perm_append_singleton _ _

theorem ringEdges_rotate_perm : ∀ (k : Nat) (vs : List Pt),
    (ringEdges (vs.rotate k)).Perm (ringEdges vs)
  | 0, vs => by simp
  | k+1, [] => by simp
  | k+1, a :: l => by
    rw [List.rotate_cons_succ]
    exact (ringEdges_rotate_perm k (l ++ [a])).trans (ringEdges_rotate_one a l)

/-! ### reversal -/

theorem pathEdges_append_singleton (l : List Pt) (a : Pt) :
    pathEdges (l ++ [a]) = pathEdges l ++ (match l.getLast? with | some x => [(x, a)] | none => []) := by
  induction l with
  | nil => simp [pathEdges]
  | cons b t ih =>
    cases t with
    | nil => simp [pathEdges]
    | cons c u =>
      have : pathEdges (b :: c :: u ++ [a]) = (b, c) :: pathEdges (c :: u ++ [a]) := by
        simp [pathEdges]
      rw [this, ih]
      simp [pathEdges, List.getLast?_cons_cons]

theorem pathEdges_reverse (l : List Pt) : pathEdges l.reverse = ((pathEdges l).reverse).map flipE := by
  induction l with
  | nil => simp [pathEdges]
  | cons a t ih =>
    rw [List.reverse_cons, pathEdges_append_singleton, ih]
    cases t with
    | nil => simp [pathEdges]
    | cons b u =>
      have h1 : (b :: u).reverse.getLast? = some b := by simp
      have h2 : pathEdges (a :: b :: u) = (a, b) :: pathEdges (b :: u) := by simp [pathEdges]
      rw [h1, h2]
      simp [flipE]

theorem closeUp_reverse (v : Pt) (r : List Pt) :
    (closeUp (v :: r)).reverse = closeUp (v :: r.reverse) := by
  simp [closeUp]

/-! ### the bounding-box prefilter depends only on the set of vertices -/

theorem minR_le_iff (a b c : Rat) : minR a b ≤ c ↔ a ≤ c ∨ b ≤ c := by
  unfold minR; split
  · constructor
    · intro h; exact Or.inl h
    · rintro (h | h) <;> linarith
  · constructor
    · intro h; exact Or.inr h
    · rintro (h | h) <;> linarith

theorem le_maxR_iff (a b c : Rat) : c ≤ maxR a b ↔ c ≤ a ∨ c ≤ b := by
  unfold maxR; split
  · constructor
    · intro h; exact Or.inr h
    · rintro (h | h) <;> linarith
  · constructor
    · intro h; exact Or.inl h
    · rintro (h | h) <;> linarith

theorem foldl_min_le_iff (f : Pt → Rat) (c : Rat) : ∀ (ps : List Pt) (m : Rat),
    ps.foldl (fun m q => minR m (f q)) m ≤ c ↔ m ≤ c ∨ ∃ q ∈ ps, f q ≤ c
  | [], m => by simp
  | q :: ps, m => by
    rw [List.foldl_cons, foldl_min_le_iff f c ps, minR_le_iff]
    simp only [List.mem_cons, exists_eq_or_imp]; tauto

theorem le_foldl_max_iff (f : Pt → Rat) (c : Rat) : ∀ (ps : List Pt) (m : Rat),
    c ≤ ps.foldl (fun m q => maxR m (f q)) m ↔ c ≤ m ∨ ∃ q ∈ ps, c ≤ f q
  | [], m => by simp
  | q :: ps, m => by
    rw [List.foldl_cons, le_foldl_max_iff f c ps, le_maxR_iff]
    simp only [List.mem_cons, exists_eq_or_imp]; tauto

/-- the four sides of the box evolve independently -/
theorem bbox_fold_proj : ∀ (ps : List Pt) (b : Rat × Rat × Rat × Rat),
    ps.foldl (fun (b : Rat × Rat × Rat × Rat) q =>
      (minR b.1 q.1, minR b.2.1 q.2, maxR b.2.2.1 q.1, maxR b.2.2.2 q.2)) b =
    (ps.foldl (fun m q => minR m q.1) b.1, ps.foldl (fun m q => minR m q.2) b.2.1,
     ps.foldl (fun m q => maxR m q.1) b.2.2.1, ps.foldl (fun m q => maxR m q.2) b.2.2.2)
  | [], b => by simp
  | q :: ps, b => by
    rw [List.foldl_cons, bbox_fold_proj ps]
    simp only [List.foldl_cons]

/-- the prefilter passes exactly when some vertex lies weakly on each of the four sides of the query -/
theorem inBBox_iff (p : Pt) (ring : List Pt) :
    inBBox p ring = true ↔
      (∃ q ∈ ring, q.1 ≤ p.1) ∧ (∃ q ∈ ring, p.1 ≤ q.1) ∧ (∃ q ∈ ring, q.2 ≤ p.2) ∧ (∃ q ∈ ring, p.2 ≤ q.2) := by
  cases ring with
  | nil => simp [inBBox, bboxOf]
  | cons a ps =>
    simp only [inBBox, bboxOf, bbox_fold_proj, Bool.and_eq_true, decide_eq_true_eq]
    rw [foldl_min_le_iff (fun q => q.1), foldl_min_le_iff (fun q => q.2),
      le_foldl_max_iff (fun q => q.1), le_foldl_max_iff (fun q => q.2)]
    simp only [List.mem_cons, exists_eq_or_imp]
    tauto

theorem inBBox_congr (p : Pt) {r s : List Pt} (h : ∀ q, q ∈ r ↔ q ∈ s) : inBBox p r = inBBox p s := by
  rw [Bool.eq_iff_iff, inBBox_iff, inBBox_iff]
  simp only [h]

/-! ### the prefilter never changes the answer: outside the vertex box ⇒ not inside (even–odd) -/

/-- algebraic form of the edge/query cross product as a combination of the two end points -/
theorem pcross_comb (e : Edge) (p : Pt) :
    pcross e p = (e.2.1 - p.1) * (p.2 - e.1.2) + (e.1.1 - p.1) * (e.2.2 - p.2) := by
  unfold pcross; ring

/-- an edge whose two end points are on the same strict side of the ray's level is not counted -/
theorem crossesRay_same_side (p : Pt) (e : Edge)
    (h : (e.1.2 > p.2 ∧ e.2.2 > p.2) ∨ (¬ e.1.2 > p.2 ∧ ¬ e.2.2 > p.2)) : crossesRay p e = false := by
  unfold crossesRay
  rcases h with ⟨h1, h2⟩ | ⟨h1, h2⟩ <;> simp [h1, h2]

/-- all vertices strictly west of the query: no edge is counted -/
theorem crossesRay_west (p : Pt) (e : Edge) (h1 : e.1.1 < p.1) (h2 : e.2.1 < p.1) :
    crossesRay p e = false := by
  unfold crossesRay
  rw [pcross_comb]
  by_cases a : e.1.2 > p.2 <;> by_cases b : e.2.2 > p.2
  · simp [a, b]
  · -- downward edge: cross product positive, `y2 > y1` false
    have hb : e.2.2 ≤ p.2 := not_lt.mp b
    have hpos : (e.2.1 - p.1) * (p.2 - e.1.2) + (e.1.1 - p.1) * (e.2.2 - p.2) > 0 := by nlinarith
    have hn : ¬ e.2.2 > e.1.2 := by intro h; linarith
    simp [a, b, hpos, hn]
  · have ha : e.1.2 ≤ p.2 := not_lt.mp a
    have hneg : ¬ ((e.2.1 - p.1) * (p.2 - e.1.2) + (e.1.1 - p.1) * (e.2.2 - p.2) > 0) := by
      rw [not_lt]; nlinarith
    have hy : e.2.2 > e.1.2 := by linarith
    simp [a, b, hneg, hy]
  · simp [a, b]

/-- all vertices strictly east of the query: an edge is counted exactly when it straddles the level -/
theorem crossesRay_east (p : Pt) (e : Edge) (h1 : p.1 < e.1.1) (h2 : p.1 < e.2.1) :
    crossesRay p e = (decide (e.1.2 > p.2) != decide (e.2.2 > p.2)) := by
  unfold crossesRay
  rw [pcross_comb]
  by_cases a : e.1.2 > p.2 <;> by_cases b : e.2.2 > p.2
  · simp [a, b]
  · have hb : e.2.2 ≤ p.2 := not_lt.mp b
    have hneg : ¬ ((e.2.1 - p.1) * (p.2 - e.1.2) + (e.1.1 - p.1) * (e.2.2 - p.2) > 0) := by
      rw [not_lt]; nlinarith
    have hn : ¬ e.2.2 > e.1.2 := by intro h; linarith
    simp [a, b, hneg, hn]
  · have ha : e.1.2 ≤ p.2 := not_lt.mp a
    have hpos : (e.2.1 - p.1) * (p.2 - e.1.2) + (e.1.1 - p.1) * (e.2.2 - p.2) > 0 := by nlinarith
    have hy : e.2.2 > e.1.2 := by linarith
    simp [a, b, hpos, hy]
  · simp [a, b]

/-- a walk changes side an even number of times iff it ends on the side it started from -/
theorem parity_path (f : Pt → Bool) : ∀ (l : List Pt) (a : Pt),
    (pathEdges (a :: l)).countP (fun e => f e.1 != f e.2) % 2 =
      if f a != f ((a :: l).getLast (by simp)) then 1 else 0
  | [], a => by simp [pathEdges]
  | b :: t, a => by
    have hstep : pathEdges (a :: b :: t) = (a, b) :: pathEdges (b :: t) := by simp [pathEdges]
    have ih := parity_path f t b
    have hl : (a :: b :: t).getLast (by simp) = (b :: t).getLast (by simp) := by simp
    rw [hstep, List.countP_cons, hl]
    generalize (b :: t).getLast (by simp) = z at ih ⊢
    generalize List.countP (fun e => f e.1 != f e.2) (pathEdges (b :: t)) = n at ih ⊢
    cases hfa : f a <;> cases hfb : f b <;> cases hfz : f z <;> simp_all <;> omega

theorem mem_of_mem_pathEdges {l : List Pt} {e : Edge} (h : e ∈ pathEdges l) : e.1 ∈ l ∧ e.2 ∈ l := by
  unfold pathEdges at h
  have := List.of_mem_zip h
  exact ⟨this.1, List.mem_of_mem_tail this.2⟩

theorem insideEO_of_not_inBBox (p v : Pt) (r : List Pt) (h : inBBox p (closeUp (v :: r)) = false) :
    insideEO p (ringEdges (v :: r)) = false := by
  have hmem : ∀ e ∈ ringEdges (v :: r), e.1 ∈ closeUp (v :: r) ∧ e.2 ∈ closeUp (v :: r) := by
    intro e he; rw [ringEdges_eq_pathEdges_closeUp] at he; exact mem_of_mem_pathEdges he
  have hn : ¬ (inBBox p (closeUp (v :: r)) = true) := by simp [h]
  rw [inBBox_iff] at hn
  unfold insideEO
  -- it suffices that the crossing count is even
  suffices hc : (ringEdges (v :: r)).countP (crossesRay p) % 2 = 0 by simp [hc]
  by_cases c1 : ∃ q ∈ closeUp (v :: r), q.1 ≤ p.1
  · by_cases c2 : ∃ q ∈ closeUp (v :: r), p.1 ≤ q.1
    · -- all vertices strictly above or all strictly below
      have hside : (∀ q ∈ closeUp (v :: r), q.2 > p.2) ∨ (∀ q ∈ closeUp (v :: r), ¬ q.2 > p.2) := by
        by_cases c3 : ∃ q ∈ closeUp (v :: r), q.2 ≤ p.2
        · right
          have c4 : ¬ ∃ q ∈ closeUp (v :: r), p.2 ≤ q.2 := fun c4 => hn ⟨c1, c2, c3, c4⟩
          intro q hq hgt; exact c4 ⟨q, hq, le_of_lt hgt⟩
        · left; intro q hq; by_contra hle; exact c3 ⟨q, hq, not_lt.mp hle⟩
      have : (ringEdges (v :: r)).countP (crossesRay p) = 0 := by
        rw [List.countP_eq_zero]
        intro e he
        have := hmem e he
        rw [crossesRay_same_side]; · simp
        rcases hside with hs | hs
        · exact Or.inl ⟨hs _ this.1, hs _ this.2⟩
        · exact Or.inr ⟨hs _ this.1, hs _ this.2⟩
      simp [this]
    · -- every vertex strictly west of the query
      have hw : ∀ q ∈ closeUp (v :: r), q.1 < p.1 := by
        intro q hq; by_contra hle; exact c2 ⟨q, hq, not_lt.mp hle⟩
      have : (ringEdges (v :: r)).countP (crossesRay p) = 0 := by
        rw [List.countP_eq_zero]
        intro e he
        have := hmem e he
        rw [crossesRay_west p e (hw _ this.1) (hw _ this.2)]; simp
      simp [this]
  · -- every vertex strictly east: the count is the number of side changes of a closed walk
    have he : ∀ q ∈ closeUp (v :: r), p.1 < q.1 := by
      intro q hq; by_contra hle; exact c1 ⟨q, hq, not_lt.mp hle⟩
    have hcount : (ringEdges (v :: r)).countP (crossesRay p) =
        (ringEdges (v :: r)).countP (fun e => decide (e.1.2 > p.2) != decide (e.2.2 > p.2)) := by
      apply List.countP_congr
      intro e hee
      have := hmem e hee
      rw [crossesRay_east p e (he _ this.1) (he _ this.2)]
    rw [hcount, ringEdges_eq_pathEdges_closeUp]
    have hcl : closeUp (v :: r) = v :: (r ++ [v]) := by simp [closeUp]
    rw [hcl, parity_path (fun q => decide (q.2 > p.2)) (r ++ [v]) v]
    have : (v :: (r ++ [v])).getLast (by simp) = v := by simp
    rw [this]; simp

/-! ### the direction of the ray does not matter (off the boundary) -/

/-- the mirror image of `crossesRay`: the edge is crossed strictly *west* of the query -/
def crossesRayW (p : Pt) (e : Edge) : Bool :=
  (decide (e.1.2 > p.2) != decide (e.2.2 > p.2)) &&
  (decide (pcross e p < 0) == decide (e.2.2 > e.1.2))

/-- an edge that straddles the query's level and does not contain the query is crossed on exactly one side -/
theorem east_xor_west (p : Pt) (e : Edge) (hoff : onEdge p e = false) :
    (crossesRay p e != crossesRayW p e) = (decide (e.1.2 > p.2) != decide (e.2.2 > p.2)) := by
  unfold crossesRay crossesRayW
  by_cases h1 : e.1.2 > p.2 <;> by_cases h2 : e.2.2 > p.2
  · simp [h1, h2]
  · have hne : pcross e p ≠ 0 := by
      intro h0
      have := onEdge_of_line h0 (Or.inl ⟨not_lt.mp h2, h1⟩)
      rw [hoff] at this; exact absurd this (by simp)
    have hn : ¬ e.2.2 > e.1.2 := by intro h; linarith [not_lt.mp h2]
    rcases lt_or_gt_of_ne hne with hneg | hpos
    · have : ¬ (pcross e p > 0) := not_lt.mpr (le_of_lt hneg)
      simp [h1, h2, hn, hneg, this]
    · have : ¬ (pcross e p < 0) := not_lt.mpr (le_of_lt hpos)
      simp [h1, h2, hn, hpos, this]
  · have hne : pcross e p ≠ 0 := by
      intro h0
      have := onEdge_of_line h0 (Or.inr ⟨not_lt.mp h1, h2⟩)
      rw [hoff] at this; exact absurd this (by simp)
    have hy : e.2.2 > e.1.2 := by linarith [not_lt.mp h1]
    rcases lt_or_gt_of_ne hne with hneg | hpos
    · have : ¬ (pcross e p > 0) := not_lt.mpr (le_of_lt hneg)
      simp [h1, h2, hy, hneg, this]
    · have : ¬ (pcross e p < 0) := not_lt.mpr (le_of_lt hpos)
      simp [h1, h2, hy, hpos, this]
  · simp [h1, h2]

theorem countP_xor_parity {α : Type} (a b s : α → Bool) : ∀ (l : List α),
    (∀ e ∈ l, (a e != b e) = s e) → (l.countP a + l.countP b) % 2 = l.countP s % 2
  | [], _ => by simp
  | e :: l, h => by
    have ih := countP_xor_parity a b s l (fun x hx => h x (List.mem_cons_of_mem _ hx))
    have he := h e (by simp)
    simp only [List.countP_cons]
    cases ha : a e <;> cases hb : b e <;> simp [ha, hb] at he <;> simp [he] <;> omega

/-- **off the boundary, the east-going and the west-going ray see the same crossing parity** (a closed walk
    changes side of a horizontal line an even number of times) -/
theorem parity_ray_independent (p v : Pt) (r : List Pt)
    (hoff : (ringEdges (v :: r)).any (onEdge p) = false) :
    (ringEdges (v :: r)).countP (crossesRay p) % 2 = (ringEdges (v :: r)).countP (crossesRayW p) % 2 := by
  have hoff' : ∀ e ∈ ringEdges (v :: r), onEdge p e = false := by
    intro e he
    by_contra hc
    have : (ringEdges (v :: r)).any (onEdge p) = true := List.any_eq_true.mpr ⟨e, he, by simpa using hc⟩
    rw [hoff] at this; exact absurd this (by simp)
  have hsum := countP_xor_parity (crossesRay p) (crossesRayW p)
    (fun e => decide (e.1.2 > p.2) != decide (e.2.2 > p.2)) (ringEdges (v :: r))
    (fun e he => east_xor_west p e (hoff' e he))
  have heven : (ringEdges (v :: r)).countP
      (fun e => decide (e.1.2 > p.2) != decide (e.2.2 > p.2)) % 2 = 0 := by
    rw [ringEdges_eq_pathEdges_closeUp]
    have hcl : closeUp (v :: r) = v :: (r ++ [v]) := by simp [closeUp]
    rw [hcl, parity_path (fun q => decide (q.2 > p.2)) (r ++ [v]) v]
    have : (v :: (r ++ [v])).getLast (by simp) = v := by simp
    rw [this]; simp
  omega

end GV
