import GeoVerif.Model.Obj
import Mathlib.Data.List.Rotate
import Mathlib.Tactic.Common

/-!
# The rotation loop of `GeoPolygon.__eq__` decides "equal up to start vertex and direction"
(adapted from `notes/lean_probes/PolyEqProof.lean`; the loop now runs `max(len, 1)` times, F15e)
-/
set_option linter.unusedSectionVars false
namespace GV.Obj
variable {β : Type} [DecidableEq β]

theorem rotL_eq_rotate (l : List β) : rotL l = l.rotate 1 := by
  cases l with
  | nil => rfl
  | cons x xs => simp [rotL, List.rotate_cons_succ]

theorem eqLoop_iff (s : List β) : ∀ (n : Nat) (o : List β),
    eqLoop s o n = true ↔ ∃ k < n, s = o.rotate k ∨ s = (o.rotate k).reverse
  | 0, o => by simp [eqLoop]
  | n+1, o => by
    unfold eqLoop
    by_cases h : s = o ∨ s = o.reverse
    · simp only [h, if_true, true_iff]
      exact ⟨0, by omega, by simpa using h⟩
    · simp only [h, if_false]
      rw [eqLoop_iff s n (rotL o), rotL_eq_rotate]
      constructor
      · rintro ⟨k, hk, hs⟩
        refine ⟨k + 1, by omega, ?_⟩
        rw [List.rotate_rotate, Nat.add_comm] at hs; exact hs
      · rintro ⟨k, hk, hs⟩
        cases k with
        | zero => simp at hs; exact absurd hs h
        | succ k =>
          refine ⟨k, by omega, ?_⟩
          rw [List.rotate_rotate, Nat.add_comm]; exact hs

/-- spec: equal up to the start vertex and the direction -/
def RotRev (s o : List β) : Prop := s ~r o ∨ s ~r o.reverse

/-- the loop with `max(len o, 1)` iterations, for lists of equal length -/
theorem eqLoop_max_iff (s o : List β) (hl : s.length = o.length) :
    eqLoop s o (max o.length 1) = true ↔ RotRev s o := by
  unfold RotRev
  rw [eqLoop_iff]
  by_cases ho : o = []
  · subst ho
    have hs : s = [] := List.length_eq_zero_iff.mp (by simpa using hl)
    subst hs
    simp
  · have hpos : 0 < o.length := List.length_pos_iff.mpr ho
    have hmax : max o.length 1 = o.length := by omega
    rw [hmax]
    constructor
    · rintro ⟨k, _, h | h⟩
      · left; exact (List.IsRotated.symm ⟨k, h.symm⟩)
      · right
        have : (o.rotate k).reverse ~r o.reverse :=
          (List.IsRotated.symm ⟨k, rfl⟩ : o.rotate k ~r o).reverse
        rw [h]; exact this
    · rintro (h | h)
      · obtain ⟨k, hk⟩ := h.symm
        refine ⟨k % o.length, Nat.mod_lt _ hpos, Or.inl ?_⟩
        rw [List.rotate_mod]; exact hk.symm
      · have h' : o ~r s.reverse := by
          have := h.reverse; rw [List.reverse_reverse] at this; exact this.symm
        obtain ⟨k, hk⟩ := h'
        refine ⟨k % o.length, Nat.mod_lt _ hpos, Or.inr ?_⟩
        rw [List.rotate_mod, hk, List.reverse_reverse]

theorem RotRev.refl (s : List β) : RotRev s s := Or.inl (List.IsRotated.refl s)

theorem RotRev.symm {s o : List β} (h : RotRev s o) : RotRev o s := by
  rcases h with h | h
  · exact Or.inl h.symm
  · right
    have := h.reverse; rw [List.reverse_reverse] at this; exact this.symm

theorem RotRev.trans {a b c : List β} (h1 : RotRev a b) (h2 : RotRev b c) : RotRev a c := by
  rcases h1 with h1 | h1 <;> rcases h2 with h2 | h2
  · exact Or.inl (h1.trans h2)
  · exact Or.inr (h1.trans h2)
  · right
    have := h2.reverse; exact h1.trans this
  · left
    have := h2.reverse; rw [List.reverse_reverse] at this; exact h1.trans this

theorem RotRev.perm {s o : List β} (h : RotRev s o) : s.Perm o := by
  rcases h with h | h
  · exact h.perm
  · exact h.perm.trans (List.reverse_perm o)

theorem RotRev.length_eq {s o : List β} (h : RotRev s o) : s.length = o.length := h.perm.length_eq

theorem openOutline_length {s o : List Coord} (h : s.length = o.length) :
    (openOutline s).length = (openOutline o).length := by
  unfold openOutline
  have h1 : s.dropLast.isEmpty = o.dropLast.isEmpty := by
    have e1 : ∀ l : List Coord, l.isEmpty = decide (l.length = 0) := by intro l; cases l <;> simp
    rw [e1, e1]; simp [h]
  rw [h1]; split <;> simp [h]

/-- `outlineEq` on stored outlines: same length and the open outlines agree up to rotation/reversal -/
theorem outlineEq_iff (s o : List Coord) :
    outlineEq s o = true ↔ s.length = o.length ∧ RotRev (keys (openOutline s)) (keys (openOutline o)) := by
  unfold outlineEq
  by_cases hl : s.length = o.length
  · have hl' : (keys (openOutline s)).length = (keys (openOutline o)).length := by
      simp [keys, openOutline_length hl]
    have hk : (openOutline o).length = (keys (openOutline o)).length := by simp [keys]
    simp only [hl, ne_eq, not_true_eq_false, if_false, true_and]
    rw [hk]
    exact eqLoop_max_iff _ _ hl'
  · simp [hl]

end GV.Obj
