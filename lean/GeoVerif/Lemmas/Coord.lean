import GeoVerif.Model.CoordObj
import Mathlib.Algebra.Order.Floor.Ring
import Mathlib.Data.Rat.Floor
import Mathlib.Algebra.Order.Field.Rat
import Mathlib.Tactic.Linarith
import Mathlib.Tactic.NormNum
import Mathlib.Tactic.Ring
import Mathlib.Tactic.Positivity
import Mathlib.Tactic.Push

/-!
# Helper lemmas for C08: the two normalisation loops terminate within their computed fuel

Both loops fold a value into a band `[-h, h]` by steps that map `|x|` to `||x| - 2h|`; the measure
`⌊(|x| + h) / 2h⌋` strictly decreases on every round, so `fuelLat`/`fuelLon` (= measure + 1) never run out.
-/
namespace GV.CoordObj

theorem absR_eq (x : ℚ) : absR x = |x| := by
  unfold absR; split
  · rw [abs_of_neg ‹_›]
  · rw [abs_of_nonneg (not_lt.mp ‹_›)]

/-- the loop measure for a band of half-width `h` -/
def bandMeasure (h x : ℚ) : ℤ := ⌊(|x| + h) / (2 * h)⌋

theorem bandMeasure_nonneg {h : ℚ} (hh : 0 < h) (x : ℚ) : 0 ≤ bandMeasure h x := by
  unfold bandMeasure; rw [Int.floor_nonneg]; positivity

theorem bandMeasure_decr {h : ℚ} (hh : 0 < h) (x y : ℚ) (hx : h < |x|)
    (hy : |y| = |(|x| - 2 * h)|) : bandMeasure h y < bandMeasure h x := by
  unfold bandMeasure
  rw [hy]
  have h2 : (0 : ℚ) < 2 * h := by linarith
  by_cases hbig : 2 * h ≤ |x|
  · rw [abs_of_nonneg (by linarith)]
    have : (|x| - 2 * h + h) / (2 * h) = (|x| + h) / (2 * h) - 1 := by
      field_simp; ring
    rw [this, Int.floor_sub_one]; omega
  · rw [not_le] at hbig
    rw [abs_of_neg (by linarith)]
    have h0 : ⌊(-(|x| - 2 * h) + h) / (2 * h)⌋ = 0 := by
      rw [Int.floor_eq_iff]; constructor
      · simp only [Int.cast_zero]; apply div_nonneg <;> linarith
      · simp only [Int.cast_zero, zero_add]; rw [div_lt_one h2]; linarith
    have h1 : 1 ≤ ⌊(|x| + h) / (2 * h)⌋ := by
      rw [Int.le_floor]; simp only [Int.cast_one]; rw [le_div_iff₀ h2]; linarith
    omega

theorem out_of_band {h x : ℚ} (hb : ¬ (-h ≤ x ∧ x ≤ h)) : h < |x| := by
  by_contra hc; rw [not_lt, abs_le] at hc; exact hb hc

/-! ## pole loop -/

theorem abs_latStep (lon lat : ℚ) (h : ¬ (-90 ≤ lat ∧ lat ≤ 90)) :
    |(latStep lon lat).2| = |(|lat| - 2 * 90)| := by
  unfold latStep
  by_cases h1 : lat > 90
  · simp only [h1, if_true]
    rw [abs_of_pos (by linarith : (0:ℚ) < lat)]
    rw [show (90 : ℚ) - (lat - 90) = -(lat - 2 * 90) by ring, abs_neg]
  · have h2 : lat < -90 := by
      by_contra hc; exact h ⟨not_lt.mp hc, not_lt.mp h1⟩
    simp only [h1, if_false]
    rw [abs_of_neg (by linarith : lat < 0)]
    rw [show (-90 : ℚ) - (lat + 90) = -lat - 2 * 90 by ring]

theorem latLoop_range : ∀ (n : ℕ) (lon lat : ℚ), bandMeasure 90 lat < n →
    -90 ≤ (latLoop n lon lat).2 ∧ (latLoop n lon lat).2 ≤ 90
  | 0, lon, lat, h => by have := bandMeasure_nonneg (by norm_num : (0:ℚ) < 90) lat; omega
  | n+1, lon, lat, h => by
    unfold latLoop
    by_cases hr : -90 ≤ lat ∧ lat ≤ 90
    · simp only [hr, and_self, if_true]
    · simp only [hr, if_false]
      apply latLoop_range n
      have := bandMeasure_decr (by norm_num : (0:ℚ) < 90) lat (latStep lon lat).2
        (out_of_band hr) (abs_latStep lon lat hr)
      push_cast at h ⊢; omega

theorem fuelLat_sufficient (lat : ℚ) : bandMeasure 90 lat < (fuelLat lat : ℤ) := by
  unfold fuelLat bandMeasure
  rw [absR_eq]
  have h0 : 0 ≤ ⌊(|lat| + 90) / (2 * 90)⌋ := by rw [Int.floor_nonneg]; positivity
  have h1 : Rat.floor ((|lat| + 90) / 180) = ⌊(|lat| + 90) / (2 * 90)⌋ := by
    norm_num; rfl
  rw [h1]
  push_cast
  omega

/-! ## antimeridian loop -/

def lonStep (lon : ℚ) : ℚ := if lon > 180 then lon - 360 else lon + 360

theorem lonLoop_succ (n : ℕ) (lon : ℚ) :
    lonLoop (n+1) lon = if -180 ≤ lon ∧ lon ≤ 180 then lon else lonLoop n (lonStep lon) := rfl

theorem abs_lonStep (lon : ℚ) (h : ¬ (-180 ≤ lon ∧ lon ≤ 180)) :
    |lonStep lon| = |(|lon| - 2 * 180)| := by
  unfold lonStep
  by_cases h1 : lon > 180
  · simp only [h1, if_true]
    rw [abs_of_pos (by linarith : (0:ℚ) < lon)]
    rw [show (2 : ℚ) * 180 = 360 by norm_num]
  · have h2 : lon < -180 := by
      by_contra hc; exact h ⟨not_lt.mp hc, not_lt.mp h1⟩
    simp only [h1, if_false]
    rw [abs_of_neg (by linarith : lon < 0)]
    rw [show -lon - 2 * 180 = -(lon + 360) by ring, abs_neg]

theorem lonLoop_range : ∀ (n : ℕ) (lon : ℚ), bandMeasure 180 lon < n →
    -180 ≤ lonLoop n lon ∧ lonLoop n lon ≤ 180
  | 0, lon, h => by have := bandMeasure_nonneg (by norm_num : (0:ℚ) < 180) lon; omega
  | n+1, lon, h => by
    rw [lonLoop_succ]
    by_cases hr : -180 ≤ lon ∧ lon ≤ 180
    · simp only [hr, and_self, if_true]
    · simp only [hr, if_false]
      apply lonLoop_range n
      have := bandMeasure_decr (by norm_num : (0:ℚ) < 180) lon (lonStep lon)
        (out_of_band hr) (abs_lonStep lon hr)
      push_cast at h ⊢; omega

theorem fuelLon_sufficient (lon : ℚ) : bandMeasure 180 lon < (fuelLon lon : ℤ) := by
  unfold fuelLon bandMeasure
  rw [absR_eq]
  have h0 : 0 ≤ ⌊(|lon| + 180) / (2 * 180)⌋ := by rw [Int.floor_nonneg]; positivity
  have h1 : Rat.floor ((|lon| + 180) / 360) = ⌊(|lon| + 180) / (2 * 180)⌋ := by
    norm_num; rfl
  rw [h1]
  push_cast
  omega

/-! ## unfolding `normalize` -/

theorem normalize_true (lon lat : ℚ) :
    normalize true lon lat =
      (let r := latLoop (fuelLat lat) lon lat
       let l := lonLoop (fuelLon r.1) r.1
       (if l = 180 then -180 else l, r.2)) := by
  simp [normalize]

theorem normalize_false (lon lat : ℚ) : normalize false lon lat = (lon, lat) := by
  simp [normalize]

theorem latLoop_id (n : ℕ) (lon lat : ℚ) (h : -90 ≤ lat ∧ lat ≤ 90) :
    latLoop n lon lat = (lon, lat) := by
  cases n with
  | zero => rfl
  | succ n => unfold latLoop; simp only [h, and_self, if_true]

theorem lonLoop_id (n : ℕ) (lon : ℚ) (h : -180 ≤ lon ∧ lon ≤ 180) : lonLoop n lon = lon := by
  cases n with
  | zero => rfl
  | succ n => rw [lonLoop_succ]; simp only [h, and_self, if_true]

end GV.CoordObj
