import GeoVerif.Lemmas.GeoJson
/-!
# Document-level lemmas for C14: what `to_geojson` writes and what each `from_geojson` reads back
-/
namespace GV.GeoJson

/-! ### what the exporter writes -/

theorem toGeoInterface_ok {g : Geom} {k : Option Nat} {bbox : Bool} {geo : Obj}
    (h : toGeoInterface g k bbox = .ok geo) :
    oget geo "type" = some (.str g.typeName) ∧ oget geo "coordinates" = some (g.coordinates k) := by
  unfold toGeoInterface at h
  cases bbox with
  | false =>
    simp at h
    subst h
    simp [oget]
  | true =>
    simp at h
    obtain ⟨b, _, h⟩ := bind_eq_ok h
    simp at h
    subst h
    simp [oget]

/-- the `properties` member written by `to_geojson` -/
def exportedProps (rt : Rt) (s : Src) (o : Opts) : Obj :=
  oupdate (sanKvs rt (properties s)) (o.props.getD [])

theorem toGeoJson_ok {rt : Rt} {s : Src} {o : Opts} {doc : J} (h : toGeoJson rt s o = .ok doc) :
    ∃ geo, toGeoInterface s.geom o.k o.bbox = .ok geo ∧
      doc = .obj (oupdate [("type", .str "Feature"), ("geometry", .obj geo),
        ("properties", .obj (exportedProps rt s o))] o.extra) := by
  unfold toGeoJson at h
  obtain ⟨geo, hg, h⟩ := bind_eq_ok h
  simp at h
  exact ⟨geo, hg, by rw [← h]; rfl⟩

theorem toGeoJson_total (rt : Rt) (s : Src) (o : Opts) (hb : o.bbox = false) :
    ∃ doc, toGeoJson rt s o = .ok doc := by
  simp [toGeoJson, toGeoInterface, hb]

/-- members of the exported document that the extra keyword arguments do not clobber -/
theorem exported_members {geo props extra : Obj} (he : ExtraOK extra) :
    let d := oupdate [("type", .str "Feature"), ("geometry", .obj geo), ("properties", .obj props)] extra
    oget d "type" = some (.str "Feature") ∧ oget d "geometry" = some (.obj geo) ∧
      oget d "properties" = some (.obj props) ∧ oget d "coordinates" = none := by
  obtain ⟨h1, h2, h3, h4⟩ := he
  refine ⟨?_, ?_, ?_, ?_⟩
  · rw [oget_oupdate_absent _ _ _ h1]; simp [oget]
  · rw [oget_oupdate_absent _ _ _ h2]; simp [oget]
  · rw [oget_oupdate_absent _ _ _ h3]; simp [oget]
  · rw [oget_oupdate_absent _ _ _ h4]; simp [oget]

/-! ### time fields -/

theorem convertTs_iso {rt : Rt} (hrt : rt.Lawful) (a : Int) :
    convertTs rt (some (.str (rt.iso a))) = .ok (some a) := by
  simp [convertTs, J.truthy, hrt.iso_ne a, hrt.parse_iso a]

theorem properties_some (g : Geom) (t : TI) (P : Obj) (hP : PropsOK P) :
    properties ⟨g, some t, P⟩ = P ++ [("datetime_start", .dt t.start), ("datetime_end", .dt t.stop)] := by
  obtain ⟨_, hs, he⟩ := hP
  have h1 : oset P "datetime_start" (.dt t.start) = P ++ [("datetime_start", .dt t.start)] := oset_absent _ _ _ hs
  have h2 : oget (P ++ [("datetime_start", J.dt t.start)]) "datetime_end" = none := by
    rw [oget_append_absent _ _ _ he]; simp [oget]
  simp only [properties]
  rw [h1, oset_absent _ _ _ h2]
  simp

theorem getDt_absent (rt : Rt) (P : Obj) (hs : oget P "datetime_start" = none) (he : oget P "datetime_end" = none) :
    getDt rt P "datetime_start" "datetime_end" = .ok (none, P) := by
  simp [getDt, hs, he, oerase_absent, convertTs]

theorem getDt_exported {rt : Rt} (hrt : rt.Lawful) (P : Obj) (a b : Int) (hab : a ≤ b)
    (hs : oget P "datetime_start" = none) (he : oget P "datetime_end" = none) :
    getDt rt (P ++ [("datetime_start", .str (rt.iso a)), ("datetime_end", .str (rt.iso b))])
      "datetime_start" "datetime_end" = .ok (some ⟨a, b⟩, P) := by
  have h1 : oget (P ++ [("datetime_start", J.str (rt.iso a)), ("datetime_end", .str (rt.iso b))]) "datetime_start"
      = some (.str (rt.iso a)) := by
    rw [oget_append_absent _ _ _ hs]; simp [oget]
  have h2 : oerase (P ++ [("datetime_start", J.str (rt.iso a)), ("datetime_end", .str (rt.iso b))]) "datetime_start"
      = P ++ [("datetime_end", .str (rt.iso b))] := by
    rw [oerase_append_absent _ _ _ hs]; simp [oerase]
  have h3 : oget (P ++ [("datetime_end", J.str (rt.iso b))]) "datetime_end" = some (.str (rt.iso b)) := by
    rw [oget_append_absent _ _ _ he]; simp [oget]
  have h4 : oerase (P ++ [("datetime_end", J.str (rt.iso b))]) "datetime_end" = P := by
    rw [oerase_append_absent _ _ _ he]; simp [oerase]
  have h5 : TI.mk? a b = .ok ⟨a, b⟩ := by simp [TI.mk?, not_lt.mpr hab]
  simp [getDt, h1, h2, h3, h4, h5, convertTs_iso hrt]

/-- the time bounds and the user properties come back out of an exported `properties` member, and the
    caller's document is what it was -/
theorem propsAndDt_exported {rt : Rt} (hrt : rt.Lawful) (d : Obj) (g : Geom) (dt : Option TI) (P : Obj)
    (hP : PropsOK P) (hdt : DtOK dt)
    (hd : oget d "properties" = some (.obj (sanKvs rt (properties ⟨g, dt, P⟩)))) :
    propsAndDt rt d "datetime_start" "datetime_end" = .ok (dt, P, d) := by
  cases dt with
  | none =>
    have hp : properties ⟨g, none, P⟩ = P := rfl
    rw [hp, sanKvs_of_native rt P hP.1] at hd
    cases hPe : P with
    | nil =>
      subst hPe
      simp [propsAndDt, hd, getDt, convertTs, oerase]
    | cons kv t =>
      rw [hPe] at hd
      have := getDt_absent rt P hP.2.1 hP.2.2
      rw [hPe] at this
      simp [propsAndDt, hd, this]
  | some t =>
    rw [properties_some g t P hP, sanKvs_append, sanKvs_of_native rt P hP.1] at hd
    have hne : (P ++ sanKvs rt [("datetime_start", J.dt t.start), ("datetime_end", J.dt t.stop)]).isEmpty = false := by
      simp [sanKvs]
    have hg := getDt_exported hrt P t.start t.stop hdt hP.2.1 hP.2.2
    simp only [sanKvs, sanitize] at hd hne
    simp [propsAndDt, hd, hne, hg]

/-! ### `from_geojson` on a Feature whose members are known -/

theorem fromGeoJson_feature (rt : Rt) (k : Kind) (d geo : Obj) (g0 g : SGeom) (dt : Option TI) (p : Obj)
    (hc : oget d "coordinates" = none) (hg : oget d "geometry" = some (.obj geo))
    (ht : oget geo "type" = some (.str k.name))
    (he : geomEarly k geo = .ok g0)
    (hp : propsAndDt rt d "datetime_start" "datetime_end" = .ok (dt, p, d))
    (hl : geomLate g0 = .ok g) :
    fromGeoJson rt k (.obj d) = .ok (⟨g, dt, p⟩, .obj d) := by
  simp [fromGeoJson, selectGeom, ohas, hc, hg, checkType, ht, he, hp, hl]

/-! ### geometry members read back -/

theorem listOfJ_ringToJ (vs : List Pos) (h : ∀ q ∈ vs, PosOK q) :
    listOfJ posOfJ (some (ringToJ vs)) = .ok vs := by
  simp only [ringToJ, listOfJ]
  exact mapE_map_id _ _ _ (fun p hp => posOfJ_posToJ p (h p hp))

theorem listOfJ_rings (rs : List (List Pos)) (h : ∀ r ∈ rs, ∀ q ∈ r, PosOK q) :
    listOfJ ringOfJ (some (.arr (rs.map ringToJ))) = .ok rs := by
  simp only [listOfJ]
  exact ringsOfJ_ringsToJ rs h

theorem linearRings_nonring (p : PolySrc) (k : Option Nat) (h : p.isRing = false) :
    p.linearRings k = p.bounding k :: p.holes.map (fun h => (h.bounding none).reverse) := by
  cases p with
  | polygon o hs => rfl
  | box nw se hs => rfl
  | curved b bb hs => rfl
  | ring o i f b hs => simp [PolySrc.isRing] at h

theorem mkOutlineP_ok_of_ne (r : List Pos) (h : r ≠ []) : ∃ o, mkOutlineP r = .ok o := by
  have hr0 : r.isEmpty = false := by simpa using h
  simp [mkOutlineP, hr0]

/-- reading back the rings of a polygon-like source with `GeoPolygon.from_geojson`'s hole handling -/
theorem polygon_rings_import (p : PolySrc) (k : Option Nat) (hp : PolyOK p k true) :
    ∃ g : Poly, p.polyForm k = .ok g ∧
      mapE (fun r => mkOutlineP r) (p.linearRings k).tail = .ok g.holes ∧
      mkOutlineP ((p.linearRings k).headD []) = .ok g.outline := by
  cases hr : p.isRing with
  | true =>
    -- GeoRing: the polygon form is built from the same rings by the same constructor calls
    cases p with
    | polygon o hs => simp [PolySrc.isRing] at hr
    | box nw se hs => simp [PolySrc.isRing] at hr
    | curved b bb hs => simp [PolySrc.isRing] at hr
    | ring outer inner full b hs =>
      have hne := hp.rings hr
      -- every tail ring is non-empty, so its constructor call succeeds
      have htail : ∀ rs : List (List Pos), (∀ r ∈ rs, r ≠ []) → ∃ hs', mapE (fun r => mkOutlineP r) rs = .ok hs' := by
        intro rs
        induction rs with
        | nil => intro _; exact ⟨[], rfl⟩
        | cons r t ih =>
          intro h
          obtain ⟨hs', hh⟩ := ih (fun x hx => h x (by simp [hx]))
          obtain ⟨o, ho⟩ := mkOutlineP_ok_of_ne r (h r (by simp))
          exact ⟨o :: hs', by simp only [mapE]; rw [ho, hh]; rfl⟩
      obtain ⟨hs', hh⟩ := htail _ (fun r hr' => hne r (List.mem_of_mem_tail hr'))
      have hhead : ((PolySrc.ring outer inner full b hs).linearRings k).headD [] ≠ [] := by
        cases hl : (PolySrc.ring outer inner full b hs).linearRings k with
        | nil => cases full <;> simp [PolySrc.linearRings] at hl
        | cons r0 t => simpa using hne r0 (by rw [hl]; simp)
      obtain ⟨o0, ho0⟩ := mkOutlineP_ok_of_ne _ hhead
      refine ⟨⟨o0, hs'⟩, ?_, hh, ho0⟩
      simp only [PolySrc.polyForm]
      rw [hh, ho0]
      rfl
  | false =>
    have hlr := linearRings_nonring p k hr
    have hholes : mapE (fun r => mkOutlineP r) (p.holes.map (fun h => (h.bounding none).reverse))
        = .ok (p.holes.map (fun h => h.bounding none)) :=
      mapE_map_ok _ _ _ _ (fun h hh => by
        have := hp.holes hr h hh
        simp only [if_true] at this
        exact mkOutlineP_hole_reverse this)
    obtain ⟨o0, ho0⟩ := mkOutlineP_ok_of_ne _ (hp.shell hr)
    refine ⟨⟨o0, p.holes.map (fun h => h.bounding none)⟩, ?_, ?_, ?_⟩
    · cases p with
      | polygon o hs => simp only [PolySrc.polyForm]; rw [ho0]; rfl
      | box nw se hs => simp only [PolySrc.polyForm]; rw [ho0]; rfl
      | curved b bb hs => simp only [PolySrc.polyForm]; rw [ho0]; rfl
      | ring o i f b hs => simp [PolySrc.isRing] at hr
    · rw [hlr]; exact hholes
    · rw [hlr]; exact ho0

end GV.GeoJson
