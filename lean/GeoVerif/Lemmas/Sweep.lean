import GeoVerif.Model.Sweep
import Mathlib.Data.List.Basic
import Mathlib.Data.List.Nodup
import Mathlib.Data.List.Induction
import Mathlib.Data.Rat.Defs
import Mathlib.Algebra.Order.Ring.Rat
import Mathlib.Tactic.Ring
import Mathlib.Tactic.Linarith
import Mathlib.Tactic.NormNum
import Mathlib.Tactic.Push
import Mathlib.Tactic.ByContra
import Mathlib.Tactic.Tauto
import Mathlib.Tactic.Set

namespace GV.Sweep
open GV

variable (inter : Edge → Edge → Bool)

/-- shortcut branch is a no-op -/
theorem hit_false_of_all_same (act : List Act) (ev : Ev)
    (h : act.all (fun a => a.2 == ev.grp) = true) : hit inter act ev = false := by
  unfold hit
  rw [List.any_eq_false]
  intro a ha
  have := List.all_eq_true.mp h a ha
  simp at this
  simp [this]

theorem go_cons (ev : Ev) (rest : List Ev) (act : List Act) :
    go inter (ev :: rest) act =
      ((ev.isStart && hit inter act ev) || go inter rest (step act ev)) := by
  conv_lhs => rw [go]
  cases hs : ev.isStart
  · simp
  · by_cases hall : act.all (fun a => a.2 == ev.grp) = true
    · have := hit_false_of_all_same inter act ev hall
      simp [hall, this]
    · simp only [Bool.not_true, Bool.false_eq_true, if_false, hall, Bool.true_and]
      cases hit inter act ev <;> simp

/-- L1: `go` returns true iff some start event hits the active set as evolved by the prefix -/
theorem go_iff (rest : List Ev) (act : List Act) :
    go inter rest act = true ↔
      ∃ P s R, rest = P ++ s :: R ∧ s.isStart = true ∧ hit inter (P.foldl step act) s = true := by
  induction rest generalizing act with
  | nil => simp [go]
  | cons ev rest ih =>
    rw [go_cons, Bool.or_eq_true, Bool.and_eq_true, ih]
    constructor
    · rintro (⟨hs, hh⟩ | ⟨P, s, R, rfl, hs, hh⟩)
      · exact ⟨[], ev, rest, rfl, hs, hh⟩
      · exact ⟨ev :: P, s, R, rfl, hs, by simpa using hh⟩
    · rintro ⟨P, s, R, heq, hs, hh⟩
      cases P with
      | nil =>
        simp at heq; obtain ⟨rfl, rfl⟩ := heq
        exact Or.inl ⟨hs, hh⟩
      | cons p P =>
        simp at heq; obtain ⟨rfl, rfl⟩ := heq
        exact Or.inr ⟨P, s, R, rfl, hs, by simpa using hh⟩

/-! ### L2: what is active after a prefix -/

def startIn (P : List Ev) (x : Act) : Prop := ∃ ev ∈ P, ev.isStart = true ∧ ev.edge = x.1 ∧ ev.grp = x.2
def endIn (P : List Ev) (x : Act) : Prop := ∃ ev ∈ P, ev.isStart = false ∧ ev.edge = x.1 ∧ ev.grp = x.2

/-- in `P` no end event of `x` precedes a start event of `x` -/
def StartsFirst (P : List Ev) : Prop :=
  ∀ P1 s P2 x, P = P1 ++ s :: P2 → s.isStart = true → s.edge = x.1 → s.grp = x.2 → ¬ endIn P1 x

theorem StartsFirst.prefix {P Q : List Ev} (h : StartsFirst (P ++ Q)) : StartsFirst P := by
  intro P1 s P2 x hP hs he hg
  exact h P1 s (P2 ++ Q) x (by simp [hP]) hs he hg

theorem mem_ins {x y : Act} {l : List Act} : x ∈ ins y l ↔ x = y ∨ x ∈ l := by
  unfold ins; split <;> simp_all

theorem nodup_ins {y : Act} {l : List Act} (h : l.Nodup) : (ins y l).Nodup := by
  unfold ins; split
  · exact h
  · exact List.nodup_cons.mpr ⟨by assumption, h⟩

theorem active_char (P : List Ev) (hP : StartsFirst P) :
    (P.foldl step []).Nodup ∧ ∀ x, x ∈ P.foldl step [] ↔ startIn P x ∧ ¬ endIn P x := by
  induction P using List.reverseRecOn with
  | nil => simp [startIn]
  | append_singleton Q ev ih =>
    obtain ⟨hnd, hmem⟩ := ih hP.prefix
    rw [List.foldl_append]
    simp only [List.foldl_cons, List.foldl_nil]
    by_cases hs : ev.isStart = true
    · have hstep : step (List.foldl step [] Q) ev = ins (ev.edge, ev.grp) (List.foldl step [] Q) := by
        simp [step, hs]
      rw [hstep]
      refine ⟨nodup_ins hnd, fun x => ?_⟩
      rw [mem_ins, hmem]
      constructor
      · rintro (rfl | ⟨hst, hen⟩)
        · refine ⟨⟨ev, by simp, hs, rfl, rfl⟩, ?_⟩
          rintro ⟨t, ht, hts, hte, htg⟩
          rcases List.mem_append.mp ht with ht | ht
          · exact hP Q ev [] (ev.edge, ev.grp) rfl hs rfl rfl ⟨t, ht, hts, hte, htg⟩
          · simp at ht; subst ht; simp [hs] at hts
        · refine ⟨?_, ?_⟩
          · obtain ⟨s, hsQ, h1, h2, h3⟩ := hst
            exact ⟨s, by simp [hsQ], h1, h2, h3⟩
          · rintro ⟨t, ht, hts, hte, htg⟩
            rcases List.mem_append.mp ht with ht | ht
            · exact hen ⟨t, ht, hts, hte, htg⟩
            · simp at ht; subst ht; simp [hs] at hts
      · rintro ⟨⟨s, hsP, h1, h2, h3⟩, hen⟩
        rcases List.mem_append.mp hsP with hsQ | hsQ
        · right
          refine ⟨⟨s, hsQ, h1, h2, h3⟩, ?_⟩
          rintro ⟨t, ht, hts, hte, htg⟩
          exact hen ⟨t, by simp [ht], hts, hte, htg⟩
        · simp at hsQ; subst hsQ
          left; exact Prod.ext h2.symm h3.symm
    · have hs' : ev.isStart = false := by simpa using hs
      have hstep : step (List.foldl step [] Q) ev = (List.foldl step [] Q).erase (ev.edge, ev.grp) := by
        simp [step, hs']
      rw [hstep]
      refine ⟨hnd.erase _, fun x => ?_⟩
      rw [hnd.mem_erase_iff, hmem]
      constructor
      · rintro ⟨hne, ⟨s, hsQ, h1, h2, h3⟩, hen⟩
        refine ⟨⟨s, by simp [hsQ], h1, h2, h3⟩, ?_⟩
        rintro ⟨t, ht, hts, hte, htg⟩
        rcases List.mem_append.mp ht with ht | ht
        · exact hen ⟨t, ht, hts, hte, htg⟩
        · simp at ht; subst ht
          exact hne (Prod.ext hte.symm htg.symm)
      · rintro ⟨⟨s, hsP, h1, h2, h3⟩, hen⟩
        refine ⟨?_, ?_, ?_⟩
        · rintro rfl
          exact hen ⟨ev, by simp, hs', rfl, rfl⟩
        · rcases List.mem_append.mp hsP with hsQ | hsQ
          · exact ⟨s, hsQ, h1, h2, h3⟩
          · simp at hsQ; subst hsQ; simp [hs'] at h1
        · rintro ⟨t, ht, hts, hte, htg⟩
          exact hen ⟨t, by simp [ht], hts, hte, htg⟩

/-! ### L3: sortedness facts and the main theorem -/

def WF (ev : Ev) : Prop :=
  ev.edge.1.2 ≤ ev.edge.2.2 ∧ (ev.isStart = true → ev.key = ev.edge.1.2) ∧
    (ev.isStart = false → ev.key = ev.edge.2.2 ∧ ev.edge.1.2 < ev.edge.2.2)

theorem normEdge_le (e : Edge) : (normEdge e).1.2 ≤ (normEdge e).2.2 := by
  unfold normEdge; split
  · simp; exact le_of_lt ‹_›
  · exact not_lt.mp ‹¬ _›

theorem mem_mkEvents {g : Bool} {es : List Edge} {ev : Ev} (h : ev ∈ mkEvents g es) :
    ev.grp = g ∧ (∃ e ∈ es, ev.edge = normEdge e) ∧ WF ev := by
  unfold mkEvents at h
  simp only [List.mem_flatMap, List.mem_cons, List.not_mem_nil, or_false] at h
  obtain ⟨e, he, rfl | rfl⟩ := h
  · refine ⟨rfl, ⟨e, he, rfl⟩, normEdge_le e, fun _ => rfl, ?_⟩
    intro h; simp at h; exact absurd (normEdge_le e) (not_le.mpr h)
  · refine ⟨rfl, ⟨e, he, rfl⟩, normEdge_le e, ?_, ?_⟩
    · intro h; simp at h; exact le_antisymm h (normEdge_le e)
    · intro h; simp at h; exact ⟨rfl, h⟩

theorem start_mem_mkEvents {g : Bool} {es : List Edge} {e : Edge} (he : e ∈ es) :
    (⟨(normEdge e).1.2, true, normEdge e, g⟩ : Ev) ∈ mkEvents g es := by
  unfold mkEvents
  simp only [List.mem_flatMap, List.mem_cons]
  refine ⟨e, he, Or.inl ?_⟩
  simp [normEdge_le e]

theorem evLe_trans (a b c : Ev) : evLe a b = true → evLe b c = true → evLe a c = true := by
  unfold evLe
  simp only [Bool.or_eq_true, Bool.and_eq_true, decide_eq_true_eq, Bool.not_eq_true']
  rintro (h1 | ⟨h1, h1'⟩) (h2 | ⟨h2, h2'⟩)
  · exact Or.inl (lt_trans h1 h2)
  · exact Or.inl (h2 ▸ h1)
  · exact Or.inl (h1 ▸ h2)
  · right; refine ⟨h1.trans h2, ?_⟩
    cases ha : a.isStart <;> cases hb : b.isStart <;> cases hc : c.isStart <;> simp_all

theorem evLe_total (a b : Ev) : (evLe a b || evLe b a) = true := by
  unfold evLe
  rcases lt_trichotomy a.key b.key with h | h | h
  · simp [h]
  · cases ha : a.isStart <;> cases hb : b.isStart <;> simp [h]
  · simp [h]

/-- an end event of `x` never sorts at or before a start event `s` whose latitude is ≤ hi x -/
theorem not_evLe_end_start {t s : Ev} (ht : WF t) (hs : WF s) (hte : t.isStart = false)
    (hss : s.isStart = true) (hle : s.edge.1.2 ≤ t.edge.2.2) : evLe t s = false := by
  obtain ⟨_, _, ht3⟩ := ht
  obtain ⟨_, hs2, _⟩ := hs
  obtain ⟨hk, _⟩ := ht3 hte
  have hk' := hs2 hss
  unfold evLe
  simp only [hte, hss, Bool.or_eq_false_iff, decide_eq_false_iff_not, not_lt, hk, hk']
  refine ⟨hle, ?_⟩
  simp

theorem sweep_iff (hsym : ∀ a b, inter a b = inter b a)
    (hov : ∀ a b, inter a b = true → a.1.2 ≤ a.2.2 → b.1.2 ≤ b.2.2 → b.1.2 ≤ a.2.2 ∧ a.1.2 ≤ b.2.2)
    (A B : List Edge) :
    sweep inter A B = true ↔ ∃ a ∈ A, ∃ b ∈ B, inter (normEdge a) (normEdge b) = true := by
  unfold sweep
  set evs := mkEvents false A ++ mkEvents true B with hevs
  set L := evs.mergeSort evLe with hL
  have hperm : L.Perm evs := List.mergeSort_perm evs evLe
  have hsorted : L.Pairwise (fun a b => evLe a b = true) := List.pairwise_mergeSort evLe_trans evLe_total evs
  have hmemL : ∀ ev, ev ∈ L ↔ ev ∈ mkEvents false A ∨ ev ∈ mkEvents true B := by
    intro ev; rw [hperm.mem_iff, hevs, List.mem_append]
  have hWF : ∀ ev ∈ L, WF ev := by
    intro ev h
    rcases (hmemL ev).mp h with h | h <;> exact (mem_mkEvents h).2.2
  -- order facts from sortedness
  have hbefore : ∀ P s R, L = P ++ s :: R → ∀ t ∈ P, evLe t s = true := by
    intro P s R hLs t ht
    rw [hLs] at hsorted
    have := (List.pairwise_append.mp hsorted).2.2 t ht s (by simp)
    exact this
  have hSF : StartsFirst L := by
    rintro P1 s P2 x hLs hs he hg ⟨t, ht, hts, hte, htg⟩
    have hle := hbefore P1 s P2 hLs t ht
    have hWt := hWF t (by rw [hLs]; simp [ht])
    have hWs := hWF s (by rw [hLs]; simp)
    have := not_evLe_end_start hWt hWs hts hs (by rw [he, ← hte]; exact hWs.1 |> fun h => by simpa [he, hte] using h)
    rw [this] at hle; exact absurd hle (by simp)
  rw [go_iff]
  constructor
  · -- soundness
    rintro ⟨P, s, R, hLs, hs, hh⟩
    have hSFP : StartsFirst P := by rw [hLs] at hSF; exact hSF.prefix
    obtain ⟨_, hchar⟩ := active_char P hSFP
    unfold hit at hh
    rw [List.any_eq_true] at hh
    obtain ⟨x, hx, hx2⟩ := hh
    simp only [Bool.and_eq_true, bne_iff_ne, ne_eq] at hx2
    obtain ⟨hgrp, hint⟩ := hx2
    obtain ⟨⟨sx, hsxP, _, hsxe, hsxg⟩, _⟩ := (hchar x).mp hx
    have hsxL : sx ∈ L := by rw [hLs]; simp [hsxP]
    have hsL : s ∈ L := by rw [hLs]; simp
    rcases (hmemL sx).mp hsxL with h1 | h1 <;> rcases (hmemL s).mp hsL with h2 | h2
    · exact absurd (by rw [← hsxg, (mem_mkEvents h1).1, (mem_mkEvents h2).1]) hgrp
    · obtain ⟨_, ⟨a, ha, hae⟩, _⟩ := mem_mkEvents h1
      obtain ⟨_, ⟨b, hb, hbe⟩, _⟩ := mem_mkEvents h2
      exact ⟨a, ha, b, hb, by rw [← hae, ← hbe, hsxe]; exact hint⟩
    · obtain ⟨_, ⟨b, hb, hbe⟩, _⟩ := mem_mkEvents h1
      obtain ⟨_, ⟨a, ha, hae⟩, _⟩ := mem_mkEvents h2
      exact ⟨a, ha, b, hb, by rw [hsym, ← hae, ← hbe, hsxe]; exact hint⟩
    · exact absurd (by rw [← hsxg, (mem_mkEvents h1).1, (mem_mkEvents h2).1]) hgrp
  · -- completeness
    rintro ⟨a, ha, b, hb, hint⟩
    set sa : Ev := ⟨(normEdge a).1.2, true, normEdge a, false⟩ with hsa
    set sb : Ev := ⟨(normEdge b).1.2, true, normEdge b, true⟩ with hsb
    have hsaL : sa ∈ L := (hmemL sa).mpr (Or.inl (start_mem_mkEvents ha))
    have hsbL : sb ∈ L := (hmemL sb).mpr (Or.inr (start_mem_mkEvents hb))
    obtain ⟨hov1, hov2⟩ := hov _ _ hint (normEdge_le a) (normEdge_le b)
    -- generic argument: if start `s1` of x1 occurs before start `s2` of x2 and lo x2 ≤ hi x1, then hit
    have key : ∀ (s1 s2 : Ev), s1.isStart = true → s2.isStart = true → s1.grp ≠ s2.grp →
        inter s1.edge s2.edge = true → s2.edge.1.2 ≤ s1.edge.2.2 →
        ∀ P R, L = P ++ s2 :: R → s1 ∈ P →
        ∃ P s R, L = P ++ s :: R ∧ s.isStart = true ∧ hit inter (P.foldl step []) s = true := by
      intro s1 s2 h1 h2 hg hi hle P R hLs hs1P
      refine ⟨P, s2, R, hLs, h2, ?_⟩
      have hSFP : StartsFirst P := by rw [hLs] at hSF; exact hSF.prefix
      obtain ⟨_, hchar⟩ := active_char P hSFP
      unfold hit
      rw [List.any_eq_true]
      refine ⟨(s1.edge, s1.grp), (hchar _).mpr ⟨⟨s1, hs1P, h1, rfl, rfl⟩, ?_⟩, by simp [hg, hi]⟩
      rintro ⟨t, ht, hts, hte, htg⟩
      have hle' := hbefore P s2 R hLs t ht
      have hWt := hWF t (by rw [hLs]; simp [ht])
      have hWs := hWF s2 (by rw [hLs]; simp)
      have := not_evLe_end_start hWt hWs hts h2 (by rw [hte]; exact hle)
      rw [this] at hle'; exact absurd hle' (by simp)
    obtain ⟨P, R, hLs⟩ := List.append_of_mem hsbL
    have hne : sa ≠ sb := by simp [hsa, hsb]
    have : sa ∈ P ∨ sa ∈ R := by
      rw [hLs] at hsaL
      simp only [List.mem_append, List.mem_cons] at hsaL
      rcases hsaL with h | h | h
      · exact Or.inl h
      · exact absurd h hne
      · exact Or.inr h
    rcases this with hP | hR
    · exact key sa sb rfl rfl (by simp [hsa, hsb]) hint hov1 P R hLs hP
    · obtain ⟨R1, R2, hRs⟩ := List.append_of_mem hR
      refine key sb sa rfl rfl (by simp [hsa, hsb]) (by rw [hsym]; exact hint) hov2
        (P ++ sb :: R1) R2 (by rw [hLs, hRs]; simp) (by simp)

end GV.Sweep
