import GeoVerif.Spec.Hull
import Mathlib.Algebra.Order.Ring.Rat
import Mathlib.Algebra.Order.Field.Rat
import Mathlib.Tactic.Linarith
import Mathlib.Tactic.Ring
import Mathlib.Tactic.Push
import Mathlib.Data.List.Basic
import Mathlib.Data.List.Induction

/-!
# Monotone chain: the lower chain invariant (helper lemmas for C10)

The stack built by `chain` over a strictly lexicographically sorted list is the lower convex chain
of the processed prefix: strictly descending from the top, strict left turns, every processed point
on or to the left of every stack edge.  One vector lemma carries the geometry: the angle order
among lex-positive vectors is transitive (`vx_trans`).
-/
namespace GV.Hull


/-! ## vectors -/
def vx (u v : Pt) : Rat := u.1 * v.2 - u.2 * v.1          -- u × v
def LexPos (u : Pt) : Prop := 0 < u.1 ∨ (u.1 = 0 ∧ 0 < u.2)

theorem lexPos_sub {a b : Pt} (h : lexLt a b) : LexPos (b.1 - a.1, b.2 - a.2) := by
  rcases h with h | ⟨h1, h2⟩
  · left; simp; linarith
  · right; simp; exact ⟨by linarith, by linarith⟩

/-- angle order on the half-plane of lex-positive vectors is transitive -/
theorem vx_trans {u v w : Pt} (hu : LexPos u) (hv : LexPos v) (hw : LexPos w)
    (h1 : 0 ≤ vx u v) (h2 : 0 ≤ vx v w) : 0 ≤ vx u w := by
  unfold vx at *
  have hux : 0 ≤ u.1 := by rcases hu with h | ⟨h, _⟩ <;> linarith
  have hwx : 0 ≤ w.1 := by rcases hw with h | ⟨h, _⟩ <;> linarith
  rcases hv with hvx | ⟨hvx, hvy⟩
  · -- (u×w) v.x = (u×v) w.x + (v×w) u.x
    have key : (u.1 * w.2 - u.2 * w.1) * v.1 =
        (u.1 * v.2 - u.2 * v.1) * w.1 + (v.1 * w.2 - v.2 * w.1) * u.1 := by ring
    have : 0 ≤ (u.1 * w.2 - u.2 * w.1) * v.1 := by
      rw [key]; exact add_nonneg (mul_nonneg h1 hwx) (mul_nonneg h2 hux)
    exact nonneg_of_mul_nonneg_left this hvx
  · rw [hvx] at h1 h2
    have hw1 : w.1 = 0 := by
      have : v.2 * w.1 ≤ 0 := by linarith
      have : w.1 ≤ 0 := by
        by_contra hc; rw [not_le] at hc
        have := mul_pos hvy hc; linarith
      linarith
    have hw2 : 0 < w.2 := by
      rcases hw with h | ⟨_, h⟩
      · linarith
      · exact h
    rw [hw1]; simp
    exact mul_nonneg hux (le_of_lt hw2)

theorem cross_eq (o a b : Pt) :
    cross o a b = vx (a.1 - o.1, a.2 - o.2) (b.1 - o.1, b.2 - o.2) := by
  unfold cross vx; ring

/-! ## stack predicates (stack is top-first) -/

/-- every edge `b → a` (a above b) has `q` on its left or on it -/
def EdgesGe (q : Pt) : List Pt → Prop
  | a :: b :: rest => 0 ≤ cross b a q ∧ EdgesGe q (b :: rest)
  | _ => True

def LeftTurns : List Pt → Prop
  | a :: b :: c :: rest => 0 < cross c b a ∧ LeftTurns (b :: c :: rest)
  | _ => True

/-- strictly lex-descending from the top -/
def Desc : List Pt → Prop
  | a :: b :: rest => lexLt b a ∧ Desc (b :: rest)
  | _ => True

theorem lexLt_trans {a b c : Pt} (h1 : lexLt a b) (h2 : lexLt b c) : lexLt a c := by
  rcases h1 with h1 | ⟨h1, h1'⟩ <;> rcases h2 with h2 | ⟨h2, h2'⟩
  · left; linarith
  · left; linarith
  · left; linarith
  · right; exact ⟨by linarith, by linarith⟩

theorem lexLt_trichotomy (a b : Pt) : lexLt a b ∨ a = b ∨ lexLt b a := by
  rcases lt_trichotomy a.1 b.1 with h | h | h
  · left; left; exact h
  · rcases lt_trichotomy a.2 b.2 with h' | h' | h'
    · left; right; exact ⟨h, h'⟩
    · right; left; exact Prod.ext h h'
    · right; right; right; exact ⟨h.symm, h'⟩
  · right; right; left; exact h

theorem Desc.all_lt {a : Pt} {st : List Pt} (h : Desc (a :: st)) : ∀ s ∈ st, lexLt s a := by
  induction st generalizing a with
  | nil => simp
  | cons b rest ih =>
    obtain ⟨hba, hd⟩ := h
    intro s hs
    rcases List.mem_cons.mp hs with rfl | hs
    · exact hba
    · exact lexLt_trans (ih hd s hs) hba

/-- Lemma C iterated: a point lex-beyond the top that is left of the top edge is left of every edge -/
theorem edgesGe_of_top {p : Pt} : ∀ {st : List Pt}, Desc st → LeftTurns st →
    (∀ s ∈ st, lexLt s p) →
    (match st with | a :: b :: _ => 0 ≤ cross b a p | _ => True) → EdgesGe p st
  | [], _, _, _, _ => trivial
  | [_], _, _, _, _ => trivial
  | [a, b], _, _, _, h => ⟨h, trivial⟩
  | a :: b :: c :: rest, hd, hl, hlt, h => by
    refine ⟨h, ?_⟩
    apply edgesGe_of_top hd.2 hl.2 (fun s hs => hlt s (List.mem_cons_of_mem _ hs))
    -- cross c b p ≥ 0 from cross c b a > 0 and cross b a p ≥ 0
    show 0 ≤ cross c b p
    have hcb : lexLt c b := hd.2.1
    have hba : lexLt b a := hd.1
    have hbp : lexLt b p := hlt b (by simp)
    have e1 : cross c b a = vx (b.1 - c.1, b.2 - c.2) (a.1 - b.1, a.2 - b.2) := by
      unfold cross vx; ring
    have e2 : cross b a p = vx (a.1 - b.1, a.2 - b.2) (p.1 - b.1, p.2 - b.2) := by
      unfold cross vx; ring
    have e3 : cross c b p = vx (b.1 - c.1, b.2 - c.2) (p.1 - b.1, p.2 - b.2) := by
      unfold cross vx; ring
    rw [e3]
    exact vx_trans (lexPos_sub hcb) (lexPos_sub hba) (lexPos_sub hbp)
      (by rw [← e1]; exact le_of_lt hl.1) (by rw [← e2]; exact h)

/-! ## the push step preserves "lower convex chain of the processed points" -/

structure PInv (Q : Pt → Prop) (st : List Pt) : Prop where
  desc : Desc st
  turns : LeftTurns st
  edges : ∀ q, Q q → EdgesGe q st
  bottom : ∀ q, Q q → ∃ b, st.getLast? = some b ∧ (q = b ∨ lexLt b q)

theorem lexLt_irrefl (a : Pt) : ¬ lexLt a a := by
  rintro (h | ⟨_, h⟩) <;> exact lt_irrefl _ h

theorem lexLt_asymm {a b : Pt} (h1 : lexLt a b) (h2 : lexLt b a) : False :=
  lexLt_irrefl a (lexLt_trans h1 h2)

/-- new edge, points lex-behind its tail `a`: uses the edge `b → a` below it -/
theorem behind {b a p q : Pt} (hba : lexLt b a) (hap : lexLt a p) (hqa : lexLt q a)
    (h1 : 0 ≤ cross b a q) (h2 : 0 ≤ cross b a p) : 0 ≤ cross a p q := by
  have e1 : cross b a q = - vx (a.1 - b.1, a.2 - b.2) (a.1 - q.1, a.2 - q.2) := by
    unfold cross vx; ring
  have e2 : cross b a p = vx (a.1 - b.1, a.2 - b.2) (p.1 - a.1, p.2 - a.2) := by
    unfold cross vx; ring
  have e3 : cross a p q = vx (a.1 - q.1, a.2 - q.2) (p.1 - a.1, p.2 - a.2) := by
    unfold cross vx; ring
  have e4 : vx (a.1 - q.1, a.2 - q.2) (a.1 - b.1, a.2 - b.2) =
      - vx (a.1 - b.1, a.2 - b.2) (a.1 - q.1, a.2 - q.2) := by unfold vx; ring
  rw [e3]
  exact vx_trans (lexPos_sub hqa) (lexPos_sub hba) (lexPos_sub hap)
    (by rw [e4, ← e1]; exact h1) (by rw [← e2]; exact h2)

/-- after a pop: points lex-beyond the new top `b` are left of `b → p` -/
theorem beyond {b a p q : Pt} (hba : lexLt b a) (hbp : lexLt b p) (hbq : lexLt b q)
    (h1 : 0 ≤ cross b a q) (h2 : cross b a p ≤ 0) : 0 ≤ cross b p q := by
  have e1 : cross b a q = vx (a.1 - b.1, a.2 - b.2) (q.1 - b.1, q.2 - b.2) := by
    unfold cross vx; ring
  have e2 : cross b a p = - vx (p.1 - b.1, p.2 - b.2) (a.1 - b.1, a.2 - b.2) := by
    unfold cross vx; ring
  have e3 : cross b p q = vx (p.1 - b.1, p.2 - b.2) (q.1 - b.1, q.2 - b.2) := by
    unfold cross vx; ring
  rw [e3]
  exact vx_trans (lexPos_sub hbp) (lexPos_sub hba) (lexPos_sub hbq)
    (by linarith) (by rw [← e1]; exact h1)

theorem cross_self_right (a p : Pt) : cross a p p = 0 := by unfold cross; ring
theorem cross_self_left (a p : Pt) : cross a p a = 0 := by unfold cross; ring

theorem push_inv (Q : Pt → Prop) (p : Pt) : ∀ (st : List Pt), PInv Q st →
    (∀ s ∈ st, lexLt s p) → (∀ q, Q q → lexLt q p) →
    (∀ q, Q q → ∀ t, st.head? = some t → lexLt t q → 0 ≤ cross t p q) →
    PInv (fun q => Q q ∨ q = p) (push st p) ∧ (push st p).head? = some p
  | [], hI, _, hQp, _ => by
    have hQ : ∀ q, ¬ Q q := fun q hq => by
      obtain ⟨b, hb, _⟩ := hI.bottom q hq; simp at hb
    simp only [push]
    refine ⟨⟨trivial, trivial, ?_, ?_⟩, rfl⟩
    · intro q _; trivial
    · rintro q (hq | rfl)
      · exact absurd hq (hQ q)
      · exact ⟨q, rfl, Or.inl rfl⟩
  | [a], hI, hst, hQp, hd => by
    have hap : lexLt a p := hst a (by simp)
    simp only [push]
    refine ⟨⟨⟨hap, trivial⟩, trivial, ?_, ?_⟩, rfl⟩
    · rintro q (hq | rfl)
      · refine ⟨?_, trivial⟩
        obtain ⟨b, hb, hbq⟩ := hI.bottom q hq
        simp at hb; subst hb
        rcases hbq with rfl | hbq
        · rw [cross_self_left]
        · exact hd q hq a rfl hbq
      · exact ⟨by rw [cross_self_right], trivial⟩
    · rintro q (hq | rfl)
      · obtain ⟨b, hb, hbq⟩ := hI.bottom q hq
        exact ⟨b, by simpa using hb, hbq⟩
      · exact ⟨a, rfl, Or.inr hap⟩
  | a :: b :: rest, hI, hst, hQp, hd => by
    have hap : lexLt a p := hst a (by simp)
    have hbp : lexLt b p := hst b (by simp)
    have hba : lexLt b a := hI.desc.1
    by_cases hpop : cross b a p ≤ 0
    · -- pop `a`, recurse
      have hrec : push (a :: b :: rest) p = push (b :: rest) p := by
        rw [push]; simp [hpop]
      rw [hrec]
      apply push_inv Q p (b :: rest)
      · refine ⟨hI.desc.2, ?_, fun q hq => (hI.edges q hq).2, ?_⟩
        · cases rest with
          | nil => trivial
          | cons c rest => exact hI.turns.2
        · intro q hq
          obtain ⟨x, hx, hxq⟩ := hI.bottom q hq
          exact ⟨x, by simpa [List.getLast?_cons_cons] using hx, hxq⟩
      · intro s hs; exact hst s (List.mem_cons_of_mem _ hs)
      · exact hQp
      · intro q hq t ht hbq
        simp at ht; subst ht
        exact beyond hba hbp hbq (hI.edges q hq).1 hpop
    · -- push
      have hpos : 0 < cross b a p := not_le.mp hpop
      have hrec : push (a :: b :: rest) p = p :: a :: b :: rest := by
        rw [push]; simp [hpop]
      rw [hrec]
      refine ⟨⟨⟨hap, hI.desc⟩, ⟨hpos, hI.turns⟩, ?_, ?_⟩, rfl⟩
      · rintro q (hq | rfl)
        · refine ⟨?_, hI.edges q hq⟩
          rcases lexLt_trichotomy q a with hqa | rfl | haq
          · exact behind hba hap hqa (hI.edges q hq).1 (le_of_lt hpos)
          · rw [cross_self_left]
          · exact hd q hq a rfl haq
        · refine ⟨by rw [cross_self_right], ?_⟩
          exact edgesGe_of_top hI.desc hI.turns hst (le_of_lt hpos)
      · rintro q (hq | rfl)
        · obtain ⟨x, hx, hxq⟩ := hI.bottom q hq
          exact ⟨x, by simpa [List.getLast?_cons_cons] using hx, hxq⟩
        · have : ((a :: b :: rest).getLast?).isSome := by simp
          obtain ⟨x, hx⟩ := Option.isSome_iff_exists.mp this
          refine ⟨x, by simpa [List.getLast?_cons_cons] using hx, Or.inr ?_⟩
          exact hst x (List.mem_of_getLast? hx)
termination_by st => st.length

/-! ## the whole chain -/

theorem push_subset (p : Pt) : ∀ (st : List Pt), ∀ x ∈ push st p, x = p ∨ x ∈ st
  | [], x, hx => by simp [push] at hx; exact Or.inl hx
  | [a], x, hx => by simp [push] at hx; rcases hx with rfl | rfl <;> simp
  | a :: b :: rest, x, hx => by
    by_cases hpop : cross b a p ≤ 0
    · have hrec : push (a :: b :: rest) p = push (b :: rest) p := by rw [push]; simp [hpop]
      rw [hrec] at hx
      rcases push_subset p (b :: rest) x hx with h | h
      · exact Or.inl h
      · exact Or.inr (List.mem_cons_of_mem _ h)
    · have hrec : push (a :: b :: rest) p = p :: a :: b :: rest := by rw [push]; simp [hpop]
      rw [hrec] at hx
      rcases List.mem_cons.mp hx with h | h
      · exact Or.inl h
      · exact Or.inr h
termination_by st => st.length

theorem chain_snoc (P : List Pt) (p : Pt) : chain (P ++ [p]) = push (chain P) p := by
  unfold chain; rw [List.foldl_append]; rfl

theorem chain_inv (S : List Pt) (hS : S.Pairwise lexLt) :
    PInv (· ∈ S) (chain S) ∧ (chain S).head? = S.getLast? ∧ ∀ x ∈ chain S, x ∈ S := by
  induction S using List.reverseRecOn with
  | nil =>
    refine ⟨⟨trivial, trivial, fun q hq => by simp at hq, fun q hq => by simp at hq⟩, rfl, ?_⟩
    intro x hx; simp [chain] at hx
  | append_singleton P p ih =>
    rw [List.pairwise_append] at hS
    obtain ⟨hP, _, hPp⟩ := hS
    have hPp' : ∀ q ∈ P, lexLt q p := fun q hq => hPp q hq p (by simp)
    obtain ⟨hI, hhead, hsub⟩ := ih hP
    rw [chain_snoc]
    have hst : ∀ s ∈ chain P, lexLt s p := fun s hs => hPp' s (hsub s hs)
    have hd : ∀ q, q ∈ P → ∀ t, (chain P).head? = some t → lexLt t q → 0 ≤ cross t p q := by
      intro q hq t ht htq
      exfalso
      rw [hhead] at ht
      -- t is the last element of the sorted list P, q ∈ P: q = t or q before t
      obtain ⟨P', rfl⟩ : ∃ P', P = P' ++ [t] := by
        have := List.getLast?_eq_some_iff.mp ht
        obtain ⟨ys, hys⟩ := this; exact ⟨ys, hys⟩
      rw [List.pairwise_append] at hP
      rcases List.mem_append.mp hq with hq | hq
      · exact lexLt_asymm (hP.2.2 q hq t (by simp)) htq
      · simp at hq; subst hq; exact lexLt_irrefl _ htq
    obtain ⟨hI', hhead'⟩ := push_inv (· ∈ P) p (chain P) hI hst hPp' hd
    refine ⟨?_, ?_, ?_⟩
    · refine ⟨hI'.desc, hI'.turns, ?_, ?_⟩
      · intro q hq
        apply hI'.edges
        rcases List.mem_append.mp hq with h | h
        · exact Or.inl h
        · simp at h; exact Or.inr h
      · intro q hq
        apply hI'.bottom
        rcases List.mem_append.mp hq with h | h
        · exact Or.inl h
        · simp at h; exact Or.inr h
    · rw [hhead']; simp
    · intro x hx
      rcases push_subset p _ x hx with rfl | h
      · simp
      · exact List.mem_append_left _ (hsub x h)

/-- **lower chain**: every input point lies on or to the left of every chain edge;
    the chain turns strictly left at every vertex; its vertices are input points. -/
theorem lower_chain_correct (S : List Pt) (hS : S.Pairwise lexLt) :
    (∀ q ∈ S, EdgesGe q (chain S)) ∧ LeftTurns (chain S) ∧ (∀ x ∈ chain S, x ∈ S) :=
  let ⟨hI, _, hsub⟩ := chain_inv S hS
  ⟨hI.edges, hI.turns, hsub⟩


end GV.Hull
