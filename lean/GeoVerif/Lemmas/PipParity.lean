import GeoVerif.Props.C12Filled
/-!
# Helpers for `Props/C01Parity`: the horizontal shear

`shear m` is the affine map `(x, y) ↦ (x − m·y, y)`.  It keeps every y-level, it is a bijection (inverse
`shear (−m)`), it commutes with `lineAt`, and the edge/query cross product `pcross` is invariant when it
is applied to the edge and to the query alike.  The membership loop `pipGo` only compares y's, tests the
sign of `pcross` and asks `onEdge`; hence `pointInRing` is invariant under a shear of ring and query
(`pointInRing_shear`).  With `m = Δx/Δy` an oblique segment becomes vertical, which reduces "parity is
constant along every avoiding segment" to the axis-parallel case `axis_parityConst`.

Also: a computable sufficient test `segAvoidsC` for `SegAvoids` (each edge is separated from the segment by
the line of one of the two), used for the non-vacuity examples; and the bare "outside the bounding box ⇒
`pointInRing` is false".
-/
namespace GV.PipParity
open GV GV.PipConvex GV.FloodLat

/-! ## the shear -/

/-- the horizontal shear `(x, y) ↦ (x − m·y, y)` -/
def shear (m : Rat) (p : Pt) : Pt := (p.1 - m * p.2, p.2)

def shearE (m : Rat) (e : Edge) : Edge := (shear m e.1, shear m e.2)

theorem shear_snd (m : Rat) (p : Pt) : (shear m p).2 = p.2 := rfl

theorem shear_inv (m : Rat) (p : Pt) : shear (-m) (shear m p) = p := by
  unfold shear
  refine Prod.ext ?_ ?_
  · simp only; ring
  · rfl

theorem shearE_inv (m : Rat) (e : Edge) : shearE (-m) (shearE m e) = e := by
  unfold shearE
  refine Prod.ext ?_ ?_
  · simp only [shear_inv]
  · simp only [shear_inv]

/-- `pcross` is invariant under a shear applied to edge and query alike -/
theorem pcross_shear (m : Rat) (e : Edge) (p : Pt) : pcross (shearE m e) (shear m p) = pcross e p := by
  unfold pcross shearE shear
  simp only
  ring

theorem shear_lineAt (m : Rat) (p q : Pt) (s : Rat) :
    shear m (lineAt p q s) = lineAt (shear m p) (shear m q) s := by
  unfold shear lineAt
  refine Prod.ext ?_ ?_
  · simp only; ring
  · simp only

theorem onEdge_shear_of (m : Rat) {p : Pt} {e : Edge} (h : onEdge p e = true) :
    onEdge (shear m p) (shearE m e) = true := by
  obtain ⟨t, t0, t1, rfl⟩ := onEdge_param h
  rw [shear_lineAt]
  exact onEdge_of_param (shearE m e) t0 t1

/-- the exact on-edge test is invariant (the x-range test is implied by collinearity + y-range on a
    non-horizontal edge, and a horizontal edge is translated) -/
theorem onEdge_shear (m : Rat) (p : Pt) (e : Edge) : onEdge (shear m p) (shearE m e) = onEdge p e := by
  cases h : onEdge p e
  · by_contra hc
    have hc' : onEdge (shear m p) (shearE m e) = true := by simpa using hc
    have := onEdge_shear_of (-m) hc'
    rw [shear_inv, shearE_inv, h] at this
    exact absurd this (by simp)
  · exact onEdge_shear_of m h

/-- the crossing rule only compares y's and the sign of `pcross` -/
theorem crossesRay_shear (m : Rat) (p : Pt) (e : Edge) :
    crossesRay (shear m p) (shearE m e) = crossesRay p e := by
  unfold crossesRay
  rw [pcross_shear]
  rfl

theorem ringEdges_shear (m : Rat) (ring : List Pt) :
    ringEdges (ring.map (shear m)) = (ringEdges ring).map (shearE m) := by
  cases ring with
  | nil => rfl
  | cons v vs =>
    have h1 : (v :: vs).map (shear m) = shear m v :: vs.map (shear m) := rfl
    have h2 : vs.map (shear m) ++ [shear m v] = (vs ++ [v]).map (shear m) := by simp
    rw [h1]
    show (shear m v :: vs.map (shear m)).zip (vs.map (shear m) ++ [shear m v]) =
      ((v :: vs).zip (vs ++ [v])).map (shearE m)
    rw [h2, ← h1, List.zip_map]
    rfl

theorem pipGo_shear (m : Rat) (p : Pt) (inclB : Bool) : ∀ (es : List Edge) (ins : Bool),
    pipGo (shear m p) inclB (es.map (shearE m)) ins = pipGo p inclB es ins
  | [], _ => rfl
  | e :: es, ins => by
    simp only [List.map_cons, pipGo, onEdge_shear, crossesRay_shear, pipGo_shear m p inclB es]

/-- **the membership loop is invariant under a shear of ring and query** (either `include_boundary`) -/
theorem pointInRing_shear (m : Rat) (p : Pt) (ring : List Pt) (inclB : Bool) :
    pointInRing (shear m p) (ring.map (shear m)) inclB = pointInRing p ring inclB := by
  unfold pointInRing
  rw [ringEdges_shear, pipGo_shear]

theorem segAvoids_shear (m : Rat) {ring : List Pt} {p q : Pt} (h : SegAvoids ring p q) :
    SegAvoids (ring.map (shear m)) (shear m p) (shear m q) := by
  intro e he s s0 s1
  rw [ringEdges_shear] at he
  obtain ⟨e0, he0, rfl⟩ := List.mem_map.mp he
  rw [← shear_lineAt, onEdge_shear]
  exact h e0 he0 s s0 s1

/-- the shear of slope `Δx/Δy` makes a non-horizontal segment vertical -/
theorem shear_vertical {p q : Pt} (h : p.2 ≠ q.2) :
    (shear ((q.1 - p.1) / (q.2 - p.2)) p).1 = (shear ((q.1 - p.1) / (q.2 - p.2)) q).1 := by
  have hne : q.2 - p.2 ≠ 0 := fun h0 => h (by linarith)
  unfold shear
  simp only
  field_simp
  ring

/-! ## outside the bounding box -/

/-- the bare loop answers False outside the bounding box of the ring's vertices -/
theorem pip_false_of_not_inBBox (p : Pt) (ring : List Pt) (h : inBBox p ring = false) :
    pointInRing p ring = false := by
  cases ring with
  | nil => rfl
  | cons v r =>
    by_contra hc
    have hc' : pointInRing p (v :: r) = true := by simpa using hc
    have := inBBox_of_pip_inclB p v r (pip_inclB_of_pip hc')
    rw [h] at this
    exact absurd this (by simp)

/-- so the prefilter of `contains_coordinate` is redundant for every ring (closed or not) -/
theorem ringContains_eq_pip (ring : List Pt) (p : Pt) : ringContains ring p = pointInRing p ring := by
  unfold ringContains
  cases h : inBBox p ring
  · rw [pip_false_of_not_inBBox p ring h]; rfl
  · simp

/-! ## a computable sufficient test for `SegAvoids` -/

/-- `a` and `b` lie strictly on the same side of the line of `l` -/
def sepBy (l : Edge) (a b : Pt) : Bool :=
  (decide (0 < pcross l a) && decide (0 < pcross l b)) || (decide (pcross l a < 0) && decide (pcross l b < 0))

theorem sepBy_lineAt {l : Edge} {a b : Pt} (h : sepBy l a b = true) {s : Rat} (s0 : 0 ≤ s) (s1 : s ≤ 1) :
    pcross l (lineAt a b s) ≠ 0 := by
  rw [pcross_lineAt]
  unfold sepBy at h
  simp only [Bool.or_eq_true, Bool.and_eq_true, decide_eq_true_eq] at h
  have h1 : 0 ≤ 1 - s := by linarith
  rcases h with ⟨ha, hb⟩ | ⟨ha, hb⟩
  · rcases lt_or_eq_of_le s0 with hs | hs
    · have := mul_pos hs hb
      have := mul_nonneg h1 (le_of_lt ha)
      intro h0; linarith
    · subst hs
      intro h0; simp at h0; linarith
  · rcases lt_or_eq_of_le s0 with hs | hs
    · have := mul_neg_of_pos_of_neg hs hb
      have := mul_nonpos_of_nonneg_of_nonpos h1 (le_of_lt ha)
      intro h0; linarith
    · subst hs
      intro h0; simp at h0; linarith

/-- every edge is separated from the segment `p q` by its own line or by the line of `p q` -/
def segAvoidsC (ring : List Pt) (p q : Pt) : Bool :=
  (ringEdges ring).all fun e => sepBy e p q || sepBy (p, q) e.1 e.2

theorem segAvoidsC_sound {ring : List Pt} {p q : Pt} (h : segAvoidsC ring p q = true) :
    SegAvoids ring p q := by
  intro e he s s0 s1
  have hh := List.all_eq_true.mp h e he
  simp only [Bool.or_eq_true] at hh
  by_contra hc
  have hon : onEdge (lineAt p q s) e = true := by simpa using hc
  rcases hh with h1 | h2
  · have h0 : pcross e (lineAt p q s) = 0 := by
      unfold onEdge at hon
      simp only [Bool.and_eq_true, decide_eq_true_eq] at hon
      exact hon.1.1.1.1
    exact sepBy_lineAt h1 s0 s1 h0
  · obtain ⟨t, t0, t1, ht⟩ := onEdge_param hon
    have := sepBy_lineAt h2 t0 t1
    rw [← ht] at this
    exact this (pcross_self_lineAt p q s)

end GV.PipParity
