import GeoVerif.Model.Multi
import Mathlib.Algebra.Order.Field.Rat
/-!
# Helper lemmas for C04 (member loops, `min`/`max` folds, the dictionary heap)
-/
namespace GV.Multi

section loops
variable {μ ν σ κ : Type}

theorem pyAll_eq_all {α : Type} (f : α → Bool) (l : List α) : pyAll f l = l.all f := by
  induction l with
  | nil => rfl
  | cons y ys ih => simp only [pyAll, List.all_cons, ih]; cases f y <;> simp

end loops

/-! ### `min` / `max` -/

theorem pyMin_le_init (x : Rat) (ys : List Rat) : pyMin x ys ≤ x := by
  induction ys generalizing x with
  | nil => exact le_refl _
  | cons y ys ih =>
    simp only [pyMin]
    by_cases h : y < x
    · simp only [h, if_true]; exact le_trans (ih y) (le_of_lt h)
    · simp only [h, if_false]; exact ih x

theorem pyMin_le_mem (x : Rat) (ys : List Rat) (y : Rat) (hy : y ∈ ys) : pyMin x ys ≤ y := by
  induction ys generalizing x with
  | nil => cases hy
  | cons z zs ih =>
    simp only [pyMin]
    rcases List.mem_cons.mp hy with rfl | hy
    · by_cases h : y < x
      · simp only [h, if_true]; exact pyMin_le_init _ _
      · simp only [h, if_false]; exact le_trans (pyMin_le_init _ _) (not_lt.mp h)
    · exact ih _ hy

theorem pyMin_mem (x : Rat) (ys : List Rat) : pyMin x ys ∈ x :: ys := by
  induction ys generalizing x with
  | nil => simp [pyMin]
  | cons y ys ih =>
    simp only [pyMin]
    by_cases h : y < x
    · simp only [h, if_true]
      rcases List.mem_cons.mp (ih y) with e | e
      · rw [e]; simp
      · exact List.mem_cons_of_mem _ (List.mem_cons_of_mem _ e)
    · simp only [h, if_false]
      rcases List.mem_cons.mp (ih x) with e | e
      · rw [e]; simp
      · exact List.mem_cons_of_mem _ (List.mem_cons_of_mem _ e)

theorem le_pyMax_init (x : Rat) (ys : List Rat) : x ≤ pyMax x ys := by
  induction ys generalizing x with
  | nil => exact le_refl _
  | cons y ys ih =>
    simp only [pyMax]
    by_cases h : y > x
    · simp only [h, if_true]; exact le_trans (le_of_lt h) (ih y)
    · simp only [h, if_false]; exact ih x

theorem mem_le_pyMax (x : Rat) (ys : List Rat) (y : Rat) (hy : y ∈ ys) : y ≤ pyMax x ys := by
  induction ys generalizing x with
  | nil => cases hy
  | cons z zs ih =>
    simp only [pyMax]
    rcases List.mem_cons.mp hy with rfl | hy
    · by_cases h : y > x
      · simp only [h, if_true]; exact le_pyMax_init _ _
      · simp only [h, if_false]; exact le_trans (not_lt.mp h) (le_pyMax_init _ _)
    · exact ih _ hy

theorem pyMax_mem (x : Rat) (ys : List Rat) : pyMax x ys ∈ x :: ys := by
  induction ys generalizing x with
  | nil => simp [pyMax]
  | cons y ys ih =>
    simp only [pyMax]
    by_cases h : y > x
    · simp only [h, if_true]
      rcases List.mem_cons.mp (ih y) with e | e
      · rw [e]; simp
      · exact List.mem_cons_of_mem _ (List.mem_cons_of_mem _ e)
    · simp only [h, if_false]
      rcases List.mem_cons.mp (ih x) with e | e
      · rw [e]; simp
      · exact List.mem_cons_of_mem _ (List.mem_cons_of_mem _ e)

/-- the fold over one component of the member boxes is a lower bound that is attained -/
theorem pyMin_proj {α : Type} (f : α → Rat) (b : α) (bs : List α) :
    (∀ m ∈ b :: bs, pyMin (f b) (bs.map f) ≤ f m) ∧ ∃ m ∈ b :: bs, pyMin (f b) (bs.map f) = f m := by
  constructor
  · intro m hm
    rcases List.mem_cons.mp hm with rfl | hm
    · exact pyMin_le_init _ _
    · exact pyMin_le_mem _ _ _ (List.mem_map_of_mem hm)
  · rcases List.mem_cons.mp (pyMin_mem (f b) (bs.map f)) with e | e
    · exact ⟨b, by simp, e⟩
    · obtain ⟨m, hm, hfm⟩ := List.mem_map.mp e
      exact ⟨m, List.mem_cons_of_mem _ hm, hfm.symm⟩

theorem pyMax_proj {α : Type} (f : α → Rat) (b : α) (bs : List α) :
    (∀ m ∈ b :: bs, f m ≤ pyMax (f b) (bs.map f)) ∧ ∃ m ∈ b :: bs, pyMax (f b) (bs.map f) = f m := by
  constructor
  · intro m hm
    rcases List.mem_cons.mp hm with rfl | hm
    · exact le_pyMax_init _ _
    · exact mem_le_pyMax _ _ _ (List.mem_map_of_mem hm)
  · rcases List.mem_cons.mp (pyMax_mem (f b) (bs.map f)) with e | e
    · exact ⟨b, by simp, e⟩
    · obtain ⟨m, hm, hfm⟩ := List.mem_map.mp e
      exact ⟨m, List.mem_cons_of_mem _ hm, hfm.symm⟩

/-! ### the heap -/

theorem read_append_left (h t : Heap) (a : Nat) (ha : a < h.length) : Heap.read (h ++ t) a = Heap.read h a := by
  simp only [Heap.read, List.getD_eq_getElem?_getD, List.getElem?_append_left ha]

theorem read_append_right (h t : Heap) (i : Nat) : Heap.read (h ++ t) (h.length + i) = Heap.read t i := by
  simp [Heap.read, List.getD_eq_getElem?_getD, List.getElem?_append_right]

theorem read_replicate (n : Nat) (d : Dict) (i : Nat) (hi : i < n) : Heap.read (List.replicate n d) i = d := by
  simp [Heap.read, List.getD_eq_getElem?_getD, hi]

theorem read_write_ne (h : Heap) (a b : Nat) (d : Dict) (hab : a ≠ b) :
    Heap.read (Heap.write h a d) b = Heap.read h b := by
  simp only [Heap.read, Heap.write, List.getD_eq_getElem?_getD, List.getElem?_set_ne hab]

theorem read_write_eq (h : Heap) (a : Nat) (d : Dict) (ha : a < h.length) :
    Heap.read (Heap.write h a d) a = d := by
  simp [Heap.read, Heap.write, List.getD_eq_getElem?_getD, ha]

/-- the expected result of the second loop of `split`: consecutive fresh addresses from `base` on -/
def relabel {γ : Type} (pdt : Option TI) : Nat → List (Shp γ) → List (Shp γ)
  | _, [] => []
  | base, s :: ss => { geom := s.geom, dt := pdt, props := base } :: relabel pdt (base + 1) ss

theorem relabel_geom {γ : Type} (pdt : Option TI) (base : Nat) (ss : List (Shp γ)) :
    (relabel pdt base ss).map (·.geom) = ss.map (·.geom) := by
  induction ss generalizing base with
  | nil => rfl
  | cons s ss ih => simp [relabel, ih]

theorem relabel_dt {γ : Type} (pdt : Option TI) (base : Nat) (ss : List (Shp γ)) :
    ∀ s ∈ relabel pdt base ss, s.dt = pdt := by
  induction ss generalizing base with
  | nil => intro s hs; cases hs
  | cons s ss ih =>
    intro t ht
    rcases List.mem_cons.mp ht with rfl | ht
    · rfl
    · exact ih _ t ht

theorem relabel_props {γ : Type} (pdt : Option TI) (base : Nat) (ss : List (Shp γ)) :
    (relabel pdt base ss).map (·.props) = List.range' base ss.length := by
  induction ss generalizing base with
  | nil => rfl
  | cons s ss ih => simp [relabel, ih, List.range'_succ]

theorem copyAll_heap {γ : Type} (h : Heap) (ms : List (Shp γ)) :
    ∃ g : Heap, (copyAll h ms).1 = h ++ g ∧ g.length = ms.length := by
  induction ms generalizing h with
  | nil => exact ⟨[], by simp [copyAll]⟩
  | cons m ms ih =>
    obtain ⟨g, hg, hl⟩ := ih (copyMember h m).1
    refine ⟨[h.read m.props] ++ g, ?_, by simp [hl]⟩
    have e : (copyMember h m).1 = h ++ [h.read m.props] := rfl
    rw [e] at hg
    simp only [copyAll, e, hg, List.append_assoc]

theorem copyAll_geom {γ : Type} (h : Heap) (ms : List (Shp γ)) :
    (copyAll h ms).2.map (·.geom) = ms.map (·.geom) := by
  induction ms generalizing h with
  | nil => rfl
  | cons m ms ih => simp [copyAll, ih, copyMember]

theorem copyAll_length {γ : Type} (h : Heap) (ms : List (Shp γ)) :
    (copyAll h ms).2.length = ms.length := by
  have := congrArg List.length (copyAll_geom h ms)
  simpa using this

theorem assignAll_eq {γ : Type} (pdt : Option TI) (pa : Nat) (h : Heap) (ss : List (Shp γ))
    (hpa : pa < h.length) :
    assignAll pdt pa h ss = (h ++ List.replicate ss.length (h.read pa), relabel pdt h.length ss) := by
  induction ss generalizing h with
  | nil => simp [assignAll, relabel]
  | cons s ss ih =>
    have hlen : pa < (h ++ [h.read pa]).length := by simp; omega
    have hrd : Heap.read (h ++ [h.read pa]) pa = Heap.read h pa := read_append_left _ _ _ hpa
    simp only [assignAll, Heap.alloc, ih _ hlen, hrd, relabel, List.length_append, List.length_cons,
      List.length_nil, List.append_assoc, List.replicate_succ, List.cons_append, List.nil_append]

end GV.Multi
