import GeoVerif.Lemmas.IoShp

/-!
# Per-shape geometry round trips (shapefile channel, geo-interface channel) — helper proofs for C20
-/
namespace GV.Io

theorem mpolyParts_eq (ps : List (List Coord × List (List Coord))) :
    (ps.map fun p => polyParts p.1 p.2).flatten = (ps.map writtenRings).flatten.map (·.map Coord.toFloat) := by
  rw [List.map_flatten, List.map_map]
  congr 1
  apply List.map_congr_left
  intro p _
  exact polyParts_eq p.1 p.2

theorem convMap_gtype (k : Kind) : convMap k.gtype = some k := by cases k <;> decide

theorem zChan_head_z {sfx : Sfx} {c : Coord} (h : Consistent sfx c) :
    (match zChan (bzOf sfx) (zOf [c]) with
      | none => (Except.ok none : Except String (Option Rat))
      | some [] => .error "ERR:Index"
      | some (x :: _) => .ok x) = .ok c.z := by
  cases sfx
  · simp only [Consistent] at h; simp [zChan, bzOf, h.1]
  · simp [zChan, bzOf, zOf]
  · simp only [Consistent] at h; simp [zChan, bzOf, h.1]

theorem zChan_head_m {sfx : Sfx} {c : Coord} (h : Consistent sfx c) :
    (match zChan (bmOf sfx) (mOf [c]) with
      | none => (Except.ok none : Except String (Option Rat))
      | some [] => .error "ERR:Index"
      | some (x :: _) => .ok x) = .ok c.m := by
  cases sfx
  · simp only [Consistent] at h; simp [zChan, bmOf, h.2]
  · simp [zChan, bmOf, mOf]
  · simp [zChan, bmOf, mOf]

/-- **shapefile, geometry**: what `to_pyshp` writes, passed through the ideal channel and read by the
    class `conv_map` selects, is the stored geometry again -/
theorem shp_geom_roundtrip' (g : Geom) (hu : Uniform g) (hr : RingsOK g) (hm : MultiOK g) :
    ∃ call k, toPyshp g = some call ∧ kindOf g = some k ∧ convMap (chanGeo call).gtype = some k ∧
      fromPyshp k (chanGeo call) = .ok g := by
  have hcons := consistent_of_uniform hu
  cases g with
  | other => exact absurd hr (by simp [RingsOK])
  | point c =>
    refine ⟨_, .point, rfl, rfl, ?_, ?_⟩
    · have := chanGeo_parts .point (suffix (.point c)) [[c]] (by simpa [coordsOf] using hcons)
      simp only [List.map_cons, List.map_nil] at this
      rw [this]; dsimp only; decide
    · have := chanGeo_parts .point (suffix (.point c)) [[c]] (by simpa [coordsOf] using hcons)
      simp only [List.map_cons, List.map_nil] at this
      rw [this]
      have hc : Consistent (suffix (.point c)) c := hcons c (by simp [coordsOf])
      simp only [fromPyshp, List.flatten_cons, List.flatten_nil, List.append_nil]
      generalize suffix (.point c) = sfx at hc
      obtain ⟨lon, lat, z, m⟩ := c
      cases sfx <;> simp only [Consistent] at hc <;>
        simp_all [zChan, bzOf, bmOf, zOf, mOf, bind, Except.bind, pure, Except.pure, Coord.pt]
  | line vs =>
    have hc : ∀ c ∈ [vs].flatten, Consistent (suffix (.line vs)) c := by simpa [coordsOf] using hcons
    have hch := chanGeo_parts .line (suffix (.line vs)) [vs] hc
    simp only [List.map_cons, List.map_nil] at hch
    refine ⟨_, .line, rfl, rfl, ?_, ?_⟩
    · rw [hch]; dsimp only; simp only [List.length_singleton, ↓reduceIte]; decide
    · rw [hch]
      have := read_parts (suffix (.line vs)) [vs] hc
      simp only [List.map_cons, List.map_nil] at this
      simp only [fromPyshp, List.flatten_cons, List.flatten_nil, List.append_nil] at this ⊢
      rw [this]; simp
  | mpoint ps =>
    have hc : ∀ c ∈ [ps].flatten, Consistent (suffix (.mpoint ps)) c := by simpa [coordsOf] using hcons
    have hch := chanGeo_parts .multipoint (suffix (.mpoint ps)) [ps] hc
    simp only [List.map_cons, List.map_nil] at hch
    refine ⟨_, .mpoint, rfl, rfl, ?_, ?_⟩
    · rw [hch]; dsimp only; decide
    · rw [hch]
      have := read_parts (suffix (.mpoint ps)) [ps] hc
      simp only [List.map_cons, List.map_nil] at this
      simp only [fromPyshp, List.flatten_cons, List.flatten_nil, List.append_nil] at this ⊢
      rw [this]; simp
  | mline ls =>
    have hc : ∀ c ∈ ls.flatten, Consistent (suffix (.mline ls)) c := by simpa [coordsOf] using hcons
    have hch := chanGeo_parts .line (suffix (.mline ls)) ls hc
    have hlen : ¬ (ls.map (·.map Coord.pt)).length = 1 := by simpa [MultiOK] using hm
    refine ⟨_, .mline, rfl, rfl, ?_, ?_⟩
    · rw [hch]; dsimp only; rw [if_neg hlen]; decide
    · rw [hch]
      have := read_parts (suffix (.mline ls)) ls hc
      simp only [fromPyshp, List.flatten_cons, List.flatten_nil, List.append_nil] at this ⊢
      rw [this]
  | poly o hs =>
    obtain ⟨ho, hh⟩ := hr
    have hc : ∀ c ∈ (writtenRings (o, hs)).flatten, Consistent (suffix (.poly o hs)) c := by
      intro c hcm
      apply hcons
      simp only [writtenRings, List.flatten_cons, List.mem_append, List.mem_reverse] at hcm
      simpa [coordsOf] using hcm
    have hch := chanGeo_parts .poly (suffix (.poly o hs)) (writtenRings (o, hs)) hc
    have horg := organize_written_aux [(o, hs)] (by
      intro p hp
      simp only [List.mem_singleton] at hp
      subst hp
      exact ⟨ho, hh⟩)
    simp only [List.map_cons, List.map_nil, List.flatten_cons, List.flatten_nil, List.append_nil] at horg
    refine ⟨_, .poly, rfl, rfl, ?_, ?_⟩
    · show convMap (chanGeo ⟨.poly, suffix (.poly o hs), polyParts o hs⟩).gtype = some .poly
      rw [polyParts_eq, hch]
      dsimp only
      rw [horg]
      simp only [List.length_singleton, ↓reduceIte]
      decide
    · show fromPyshp .poly (chanGeo ⟨.poly, suffix (.poly o hs), polyParts o hs⟩) = .ok (.poly o hs)
      rw [polyParts_eq, hch]
      simp only [horg]
      have := read_parts (suffix (.poly o hs)) (writtenRings (o, hs)) hc
      simp only [fromPyshp]
      rw [this]
      rw [show writtenRings (o, hs) = o.reverse :: hs from rfl, mkPoly_written ho hh]
      rfl
  | mpoly ps =>
    have hc : ∀ c ∈ (ps.map writtenRings).flatten.flatten, Consistent (suffix (.mpoly ps)) c := by
      intro c hcm
      apply hcons
      simp only [List.mem_flatten, List.mem_map] at hcm
      obtain ⟨r, ⟨rs, ⟨p, hp, rfl⟩, hr1⟩, hcr⟩ := hcm
      simp only [coordsOf, List.mem_flatten, List.mem_map]
      refine ⟨p.1 ++ p.2.flatten, ⟨p, hp, rfl⟩, ?_⟩
      simp only [writtenRings, List.mem_cons] at hr1
      rcases hr1 with rfl | hr1
      · exact List.mem_append_left _ (List.mem_reverse.mp hcr)
      · exact List.mem_append_right _ (List.mem_flatten.mpr ⟨r, hr1, hcr⟩)
    have hch := chanGeo_parts .poly (suffix (.mpoly ps)) (ps.map writtenRings).flatten hc
    have horg := organize_written_aux ps hr
    have hlen : ¬ ((ps.map writtenRings).map (·.map (·.map Coord.pt))).length = 1 := by
      simpa [MultiOK] using hm
    refine ⟨_, .mpoly, rfl, rfl, ?_, ?_⟩
    · show convMap (chanGeo ⟨.poly, suffix (.mpoly ps), (ps.map fun p => polyParts p.1 p.2).flatten⟩).gtype = some .mpoly
      rw [mpolyParts_eq, hch]
      dsimp only
      rw [horg, if_neg hlen]
      decide
    · show fromPyshp .mpoly (chanGeo ⟨.poly, suffix (.mpoly ps), (ps.map fun p => polyParts p.1 p.2).flatten⟩) = .ok (.mpoly ps)
      rw [mpolyParts_eq, hch]
      simp only [horg]
      have := read_polys (suffix (.mpoly ps)) (ps.map writtenRings) hc
      simp only [fromPyshp]
      rw [this, mapExcept_mkPoly_written ps hr]
      rfl

/-! ## geo interface / WKT content -/

/-- no coordinate carries M (neither KML nor the WKT dialects of the round trip have it) -/
def NoM (g : Geom) : Prop := ∀ c ∈ coordsOf g, c.m = none

theorem flatten_ringsOfTuples (rs : List (List Coord)) (h : ∀ r ∈ rs, ∀ c ∈ r, c.m = none) :
    mapExcept ringOfTuples (rs.map (·.map Coord.toFloat)) = .ok rs := ringsOfTuples_toFloat h

/-- **geo interface, geometry**: the coordinates `__geo_interface__` / `to_wkt` carry, read by the
    class of the same type, give the stored geometry again (shared by GeoPandas and KML) -/
theorem gi_geom_roundtrip' (g : Geom) (hn : NoM g) (hr : RingsOK g) :
    ∃ gi k, toGI g = some gi ∧ kindOf g = some k ∧ gi.gtype = k.gtype ∧ fromGI k gi = .ok g := by
  cases g with
  | other => exact absurd hr (by simp [RingsOK])
  | point c =>
    refine ⟨_, .point, rfl, rfl, rfl, ?_⟩
    have : c.m = none := hn c (by simp [coordsOf])
    simp [fromGI, Kind.gtype, coordOfTuple_toFloat this, Except.map]
  | line vs =>
    refine ⟨_, .line, rfl, rfl, rfl, ?_⟩
    have := ringsOfTuples_toFloat (rs := [vs]) (by
      intro r hr c hc
      simp only [List.mem_singleton] at hr
      subst hr
      exact hn c (by simpa [coordsOf] using hc))
    simp only [List.map_cons, List.map_nil] at this
    simp [fromGI, Kind.gtype, this, Except.map]
  | mpoint ps =>
    refine ⟨_, .mpoint, rfl, rfl, rfl, ?_⟩
    have := ringsOfTuples_toFloat (rs := [ps]) (by
      intro r hr c hc
      simp only [List.mem_singleton] at hr
      subst hr
      exact hn c (by simpa [coordsOf] using hc))
    simp only [List.map_cons, List.map_nil] at this
    simp [fromGI, Kind.gtype, this, Except.map]
  | mline ls =>
    refine ⟨_, .mline, rfl, rfl, rfl, ?_⟩
    have := ringsOfTuples_toFloat (rs := ls) (by
      intro r hr c hc
      exact hn c (by simp only [coordsOf]; exact List.mem_flatten.mpr ⟨r, hr, hc⟩))
    simp [fromGI, Kind.gtype, this, Except.map]
  | poly o hs =>
    obtain ⟨ho, hh⟩ := hr
    refine ⟨_, .poly, rfl, rfl, rfl, ?_⟩
    have := ringsOfTuples_toFloat (rs := linearRings o hs) (by
      intro r hr c hc
      apply hn
      simp only [linearRings, List.mem_cons, List.mem_map] at hr
      simp only [coordsOf, List.mem_append, List.mem_flatten]
      rcases hr with rfl | ⟨h, hm, rfl⟩
      · exact Or.inl hc
      · exact Or.inr ⟨h, hm, List.mem_reverse.mp hc⟩)
    simp only [fromGI, Kind.gtype, bne_self_eq_false, Bool.false_eq_true, if_false]
    rw [this]
    simp only [bind, Except.bind]
    rw [mkPoly_linearRings ho hh]
    rfl
  | mpoly ps =>
    refine ⟨_, .mpoly, rfl, rfl, rfl, ?_⟩
    have hm : ∀ p ∈ ps, ∀ r ∈ linearRings p.1 p.2, ∀ c ∈ r, c.m = none := by
      intro p hp r hr c hc
      apply hn
      simp only [linearRings, List.mem_cons, List.mem_map] at hr
      simp only [coordsOf, List.mem_flatten, List.mem_map]
      refine ⟨p.1 ++ p.2.flatten, ⟨p, hp, rfl⟩, ?_⟩
      rcases hr with rfl | ⟨h, hm, rfl⟩
      · exact List.mem_append_left _ hc
      · exact List.mem_append_right _ (List.mem_flatten.mpr ⟨h, hm, List.mem_reverse.mp hc⟩)
    have key : mapExcept (fun rings => do let rs ← mapExcept ringOfTuples rings; mkPoly rs)
        (ps.map fun p => (linearRings p.1 p.2).map (·.map Coord.toFloat)) = .ok ps := by
      have := mapExcept_ok (fun rings => do let rs ← mapExcept ringOfTuples rings; mkPoly rs)
        (fun rings => ((do let rs ← mapExcept ringOfTuples rings; mkPoly rs : Except String _)).toOption.getD ([], []))
        (ps.map fun p => (linearRings p.1 p.2).map (·.map Coord.toFloat)) (by
          intro r hr0
          obtain ⟨p, hp, rfl⟩ := List.mem_map.mp hr0
          simp only [ringsOfTuples_toFloat (hm p hp), bind, Except.bind, mkPoly_linearRings (hr p hp).1 (hr p hp).2]
          rfl)
      rw [this, List.map_map]
      congr 1
      conv_rhs => rw [← List.map_id ps]
      apply List.map_congr_left
      intro p hp
      simp [ringsOfTuples_toFloat (hm p hp), bind, Except.bind, mkPoly_linearRings (hr p hp).1 (hr p hp).2,
        Except.toOption]
    simp only [fromGI, Kind.gtype, bne_self_eq_false, Bool.false_eq_true, if_false]
    rw [key]
    rfl

end GV.Io
