import GeoVerif.Model.Time
/-!
# Shapes as mutable objects: a small heap, `copy()`, pickle, the mutators and the caches (C15, C16)

A shape object is a record of *references* into a heap of mutable cells:

* `props`  – the `_properties` dict (`_base.py:498`); values are atoms or references to nested mutable
             lists (what `copy.deepcopy` has to duplicate);
* `holes`  – the `holes` list of the polygon-like kinds (`structures.py:67`);
* `seq`    – the vertex list of a polygon (`outline`) / linestring (`vertices`) or the member list of a
             multi-shape (`geoshapes`); items carry an identity (the `Coordinate` / member object);
* `dt`     – a reference to an (immutable) `TimeInterval` object: identity and value.

`geom : G` stands for the remaining, immutable defining fields (corners, centre, radii, angles).
`copy` mirrors the ten `copy()` methods (`structures.py:463, 759, 888, 1039, 1307, 1465, 1706`,
`multistructures.py:80, 279, 491`), `pickle` mirrors `__getstate__/__setstate__` (`_base.py:501-508`)
followed by a deep reconstruction, the mutators mirror `_base.py:192-216, 337-395`.

Cached observations (`cached_property bounds/centroid/area`, `lru_cache to_shapely`) are modelled by a
*stamp*: the values of the mutable inputs (hole list, vertex list) the cached value was computed from.
`volume` is a plain property (fix 249775d): it is recomputed from `area` and the current `dt`.
-/
namespace GV.OS


/-- stored property value -/
inductive PVal
  | atom (n : Int)
  | ref (l : Nat)
deriving DecidableEq, Repr

/-- property value as an observer sees it -/
inductive RVal
  | atom (n : Int)
  | list (xs : List Int)
deriving DecidableEq, Repr

inductive Kind
  | polygon | box | circle | ellipse | ring | linestring | point | mpoint | mline | mpoly
deriving DecidableEq, Repr

/-- what `copy()` does with the sequence cell -/
inductive SeqMode
  | none        -- the kind has no such list
  | copyList    -- `self.outline.copy()`: new list, same item objects
  | share       -- `GeoLineString(self.vertices, …)`: the *same* list object
  | copyItems   -- `[x.copy() for x in self.geoshapes]`: new list of new member objects
deriving DecidableEq, Repr

def Kind.seqMode : Kind → SeqMode
  | .polygon => .copyList
  | .linestring => .share
  | .mpoint | .mline | .mpoly => .copyItems
  | _ => .none

def Kind.hasHoles : Kind → Bool
  | .polygon | .box | .circle | .ellipse | .ring => true
  | _ => false

/-- multi-shape `copy()` passes `dt=self.dt` (the same `TimeInterval` object); single shapes `self.dt.copy()` -/
def Kind.dtShared : Kind → Bool
  | .mpoint | .mline | .mpoly => true
  | _ => false

section
variable {G H W : Type}

/-- `f[l := v]` -/
def upd {α : Type} (f : Nat → α) (l : Nat) (v : α) : Nat → α := fun x => if x = l then v else f x

structure Heap (H W : Type) where
  dicts : Nat → List (String × PVal)
  lists : Nat → List Int
  holes : Nat → List H
  seqs : Nat → List (Nat × W)
  next : Nat

def Heap.empty : Heap H W := ⟨fun _ => [], fun _ => [], fun _ => [], fun _ => [], 0⟩

inductive Slot | bounds | centroid | area | shapely
deriving DecidableEq, Repr

/-- the mutable inputs of a cached observation at the time it was computed -/
structure Stamp (H W : Type) where
  holes : List H
  seq : List W
deriving DecidableEq, Repr

structure Obj (G H W : Type) where
  kind : Kind
  geom : G
  dt : Option (Nat × TI)
  props : Nat
  holes : Option Nat
  seq : Option Nat
  cache : Slot → Option (Stamp H W)

def noCache : Slot → Option (Stamp H W) := fun _ => none

/-! ## allocation -/

def Heap.allocDict (h : Heap H W) (d : List (String × PVal)) : Heap H W × Nat :=
  ({ h with dicts := upd h.dicts h.next d, next := h.next + 1 }, h.next)
def Heap.allocList (h : Heap H W) (xs : List Int) : Heap H W × Nat :=
  ({ h with lists := upd h.lists h.next xs, next := h.next + 1 }, h.next)
def Heap.allocHoles (h : Heap H W) (xs : List H) : Heap H W × Nat :=
  ({ h with holes := upd h.holes h.next xs, next := h.next + 1 }, h.next)
def Heap.allocSeq (h : Heap H W) (xs : List (Nat × W)) : Heap H W × Nat :=
  ({ h with seqs := upd h.seqs h.next xs, next := h.next + 1 }, h.next)
/-- a new object identity (a `TimeInterval`, a `Coordinate`, a member shape) -/
def Heap.bump (h : Heap H W) (n : Nat := 1) : Heap H W := { h with next := h.next + n }

/-- `copy.deepcopy` of the entries of a dict: nested lists are duplicated -/
def deepcopyEntries (h : Heap H W) : List (String × PVal) → Heap H W × List (String × PVal)
  | [] => (h, [])
  | (k, .atom n) :: rest =>
      let r := deepcopyEntries h rest
      (r.1, (k, .atom n) :: r.2)
  | (k, .ref l) :: rest =>
      let a := h.allocList (h.lists l)
      let r := deepcopyEntries a.1 rest
      (r.1, (k, .ref a.2) :: r.2)

/-- give the items of a list new identities `base, base+1, …` -/
def reId : Nat → List (Nat × W) → List (Nat × W)
  | _, [] => []
  | b, (_, w) :: r => (b, w) :: reId (b + 1) r

/-! ## `copy()` and pickle -/

def copySeq (h : Heap H W) (mode : SeqMode) (s : Option Nat) : Heap H W × Option Nat :=
  match mode, s with
  | .share, s => (h, s)
  | .copyList, some l => let a := h.allocSeq (h.seqs l); (a.1, some a.2)
  | .copyItems, some l =>
      let items := h.seqs l
      let h1 := h.bump items.length
      let a := h1.allocSeq (reId h.next items)
      (a.1, some a.2)
  | _, _ => (h, none)

def copyHoles (h : Heap H W) (s : Option Nat) : Heap H W × Option Nat :=
  match s with
  | none => (h, none)
  | some l => let a := h.allocHoles (h.holes l); (a.1, some a.2)

def copyDt (h : Heap H W) (shared : Bool) (dt : Option (Nat × TI)) : Heap H W × Option (Nat × TI) :=
  match dt with
  | none => (h, none)
  | some (l, t) => if shared then (h, some (l, t)) else (h.bump, some (h.next, t.copy))

/-- common part of `copy()` and pickle: a new object whose `props`, `holes`, `seq` and `dt` are
    produced as told -/
def clone (h : Heap H W) (o : Obj G H W) (mode : SeqMode) (dtShared : Bool)
    (cache : Slot → Option (Stamp H W)) : Heap H W × Obj G H W :=
  let d := deepcopyEntries h (h.dicts o.props)
  let p := d.1.allocDict d.2
  let hl := copyHoles p.1 o.holes
  let sq := copySeq hl.1 mode o.seq
  let dt := copyDt sq.1 dtShared o.dt
  (dt.1, { o with props := p.2, holes := hl.2, seq := sq.2, dt := dt.2, cache := cache })

/-- `shape.copy()`: a newly constructed object (empty caches); which cells are new depends on the kind -/
def copy (h : Heap H W) (o : Obj G H W) : Heap H W × Obj G H W :=
  clone h o o.kind.seqMode o.kind.dtShared noCache

/-- `pickle.loads(pickle.dumps(shape))`: everything reachable is rebuilt; the instance `__dict__`
    (with the `cached_property` values in it) travels along, `to_shapely` is re-created empty -/
def pickle (h : Heap H W) (o : Obj G H W) : Heap H W × Obj G H W :=
  clone h o (match o.seq with | none => .none | some _ => .copyItems) false
    (fun s => if s = .shapely then none else o.cache s)

/-! ## mutators -/

inductive PArg
  | atom (n : Int)
  | list (xs : List Int)
deriving DecidableEq, Repr

inductive Mut (H : Type)
  | setDt (v : Option TI)                 -- `set_dt(None | TimeInterval | datetime ↦ instant)`
  | bufferDt (d : Int)                    -- `buffer_dt(timedelta)`
  | stripDt                               -- `strip_dt()`
  | setProp (k : String) (v : PArg)       -- `set_property(k, v)`
  -- direct manipulation of the mutable containers reachable from the object
  | holesPop                              -- `shape.holes.pop()`
  | holesPush (x : H)                     -- `shape.holes.append(x)`
  | dictDel (k : String)                  -- `del shape._properties[k]`
  | nestedPush (k : String) (n : Int)     -- `shape._properties[k].append(n)`

/-- `d[k] = v` on an insertion-ordered dict -/
def dictSet (d : List (String × PVal)) (k : String) (v : PVal) : List (String × PVal) :=
  if d.any (fun e => e.1 == k) then d.map (fun e => if e.1 == k then (k, v) else e) else d ++ [(k, v)]

def dictGet (d : List (String × PVal)) (k : String) : Option PVal :=
  (d.find? (fun e => e.1 == k)).map (·.2)

/-- the mutation applied to the object itself -/
def applyMut (h : Heap H W) (o : Obj G H W) : Mut H → Except String (Heap H W × Obj G H W)
  | .setDt none => .ok (h, { o with dt := none })
  | .setDt (some t) => .ok (h.bump, { o with dt := some (h.next, t) })
  | .bufferDt d =>
      match o.dt with
      | none => .error "ERR:Value"
      | some (_, t) =>
          match TI.mk? (t.start - d) (t.stop + d) with
          | .error e => .error e
          | .ok t' => .ok (h.bump, { o with dt := some (h.next, t') })
  | .stripDt => .ok (h, { o with dt := none })
  | .setProp k (.atom n) => .ok ({ h with dicts := upd h.dicts o.props (dictSet (h.dicts o.props) k (.atom n)) }, o)
  | .setProp k (.list xs) =>
      let a := h.allocList xs
      .ok ({ a.1 with dicts := upd a.1.dicts o.props (dictSet (a.1.dicts o.props) k (.ref a.2)) }, o)
  | .holesPop =>
      match o.holes with
      | none => .error "ERR:Attr"
      | some l => if (h.holes l).isEmpty then .error "ERR:Index"
                  else .ok ({ h with holes := upd h.holes l (h.holes l).dropLast }, o)
  | .holesPush x =>
      match o.holes with
      | none => .error "ERR:Attr"
      | some l => .ok ({ h with holes := upd h.holes l (h.holes l ++ [x]) }, o)
  | .dictDel k =>
      if (h.dicts o.props).any (fun e => e.1 == k)
      then .ok ({ h with dicts := upd h.dicts o.props ((h.dicts o.props).filter (fun e => !(e.1 == k))) }, o)
      else .error "ERR:Key"
  | .nestedPush k n =>
      match dictGet (h.dicts o.props) k with
      | none => .error "ERR:Key"
      | some (.atom _) => .error "ERR:Attr"
      | some (.ref l) => .ok ({ h with lists := upd h.lists l (h.lists l ++ [n]) }, o)

/-- the four API mutators accept `inplace=` -/
def Mut.isApi : Mut H → Bool
  | .setDt _ | .bufferDt _ | .stripDt | .setProp _ _ => true
  | _ => false

/-- result of one call: the heap, the receiver afterwards, and the returned object when it is a new one -/
structure StepResult (G H W : Type) where
  heap : Heap H W
  self : Obj G H W
  returned : Option (Obj G H W)
  err : Option String

/-- `shape.m(…, inplace=…)`.  `buffer_dt` tests `self.dt` before it copies; otherwise
    `shp = self if inplace else self.copy()` comes first.  A raising call leaves the receiver as it was. -/
def step (h : Heap H W) (o : Obj G H W) (m : Mut H) (inplace : Bool) : StepResult G H W :=
  if inplace || !m.isApi then
    match applyMut h o m with
    | .ok (h', o') => ⟨h', o', none, none⟩
    | .error e => ⟨h, o, none, some e⟩
  else
    let c := copy h o
    match applyMut c.1 c.2 m with
    | .ok (h', c') => ⟨h', o, some c', none⟩
    | .error e => ⟨h, o, none, some e⟩

/-- a sequence of in-place mutations on one object (failing calls are skipped) -/
def runMuts (h : Heap H W) (o : Obj G H W) : List (Mut H) → Heap H W × Obj G H W
  | [] => (h, o)
  | m :: ms => let r := step h o m true; runMuts r.heap r.self ms

/-! ## observation -/

def resolve (h : Heap H W) : PVal → RVal
  | .atom n => .atom n
  | .ref l => .list (h.lists l)

def resolveAll (h : Heap H W) (d : List (String × PVal)) : List (String × RVal) :=
  d.map (fun e => (e.1, resolve h e.2))

def holesOf (h : Heap H W) (o : Obj G H W) : Option (List H) := o.holes.map h.holes
def seqOf (h : Heap H W) (o : Obj G H W) : Option (List W) := o.seq.map (fun l => (h.seqs l).map (·.2))
def propsOf (h : Heap H W) (o : Obj G H W) : List (String × RVal) := resolveAll h (h.dicts o.props)
def dtOf (o : Obj G H W) : Option TI := o.dt.map (·.2)

/-- the stamp a computation started *now* would get -/
def curStamp (h : Heap H W) (o : Obj G H W) : Stamp H W :=
  ⟨(holesOf h o).getD [], (seqOf h o).getD []⟩

/-- the value a cached observation returns: the cached one if present, else computed now -/
def derived (h : Heap H W) (o : Obj G H W) (s : Slot) : Stamp H W := (o.cache s).getD (curStamp h o)

/-- the defining fields of a shape: what a constructor call would be given -/
structure Fields (G H W : Type) where
  kind : Kind
  geom : G
  dt : Option TI
  props : List (String × RVal)
  holes : Option (List H)
  seq : Option (List W)

def fields (h : Heap H W) (o : Obj G H W) : Fields G H W :=
  ⟨o.kind, o.geom, dtOf o, propsOf h o, holesOf h o, seqOf h o⟩

/-- everything an observer can read off a shape: the fields, what the four memoised observations
    return (as the inputs their value is a function of), and the inputs of `volume`
    (`area * dt.elapsed`) -/
structure Obs (G H W : Type) where
  fields : Fields G H W
  derived : Slot → Stamp H W
  volume : Stamp H W × Option TI

def observe (h : Heap H W) (o : Obj G H W) : Obs G H W :=
  ⟨fields h o, derived h o, (derived h o .area, dtOf o)⟩

/-! ## read-only calls (C16) -/

/-- the read-only API; `fills` says which memo slots a call leaves filled -/
inductive Read
  | bounds | centroid | area | volume | toPolygon | linearRings | toGeojson | toWkt | toShapely
  | contains | intersects | circCircle | circRect | eq | hash | repr | properties
deriving DecidableEq, Repr

/-- a read may fill memo slots with the value computed from the *current* inputs; nothing else changes -/
def fill (h : Heap H W) (o : Obj G H W) (slots : List Slot) : Obj G H W :=
  { o with cache := fun s => if s ∈ slots ∧ (o.cache s).isNone then some (curStamp h o) else o.cache s }

inductive Op (H : Type)
  | read (r : Read)                    -- a read-only call on the shape
  | read2 (r : Read)                   -- a read-only call on the shape with the second shape as argument
  | update (m : Mut H) (inplace : Bool)  -- one of the mutators, `inplace=` as given

/-- the live shape of a history and a second shape used as argument of predicates -/
structure St (G H W : Type) where
  heap : Heap H W
  obj : Obj G H W
  arg : Obj G H W

/-- Which memoised observations a read goes through may depend on the kind and on whether the shape has
    time bounds (`volume` returns `0.` without looking at `area` when `dt is None`).  Each entry is a
    memoised observation together with the memoised observations *its computation* goes through
    (`area` calls `to_shapely()`); an entry that is already memoised returns at once. -/
abbrev FillTable := Kind → Bool → Read → List (Slot × List Slot)

def effSlots (o : Obj G H W) (es : List (Slot × List Slot)) : List Slot :=
  es.flatMap fun e => if (o.cache e.1).isSome then [] else e.1 :: e.2

def Obj.fillsOf (fills : FillTable) (o : Obj G H W) (r : Read) : List Slot :=
  effSlots o (fills o.kind o.dt.isSome r)

/-- one step of a history on the live object; `fills` is the table of memo slots each read leaves filled -/
def opStep (fills : FillTable) (s : St G H W) : Op H → St G H W
  | .read r => { s with obj := fill s.heap s.obj (s.obj.fillsOf fills r) }
  | .read2 r => { s with obj := fill s.heap s.obj (s.obj.fillsOf fills r),
                         arg := fill s.heap s.arg (s.arg.fillsOf fills r) }
  | .update m ip => let r := step s.heap s.obj m ip; { s with heap := r.heap, obj := r.self }

def run (fills : FillTable) (s : St G H W) : List (Op H) → St G H W
  | [] => s
  | op :: ops => run fills (opStep fills s op) ops

/-! ## a freshly constructed object -/

def freshEntries (h : Heap H W) : List (String × RVal) → Heap H W × List (String × PVal)
  | [] => (h, [])
  | (k, .atom n) :: rest =>
      let r := freshEntries h rest
      (r.1, (k, .atom n) :: r.2)
  | (k, .list xs) :: rest =>
      let a := h.allocList xs
      let r := freshEntries a.1 rest
      (r.1, (k, .ref a.2) :: r.2)

def constructHoles (h : Heap H W) : Option (List H) → Heap H W × Option Nat
  | none => (h, none)
  | some xs => let a := h.allocHoles xs; (a.1, some a.2)

def constructSeq (h : Heap H W) : Option (List W) → Heap H W × Option Nat
  | none => (h, none)
  | some ws => let a := (h.bump ws.length).allocSeq (reId h.next (ws.map fun w => (0, w))); (a.1, some a.2)

def constructDt (h : Heap H W) : Option TI → Heap H W × Option (Nat × TI)
  | none => (h, none)
  | some t => (h.bump, some (h.next, t))

/-- `Kind(geom…, holes=…, dt=…, properties=…)`: a new object with empty memo slots -/
def construct (h : Heap H W) (f : Fields G H W) : Heap H W × Obj G H W :=
  let d := freshEntries h f.props
  let p := d.1.allocDict d.2
  let hl := constructHoles p.1 f.holes
  let sq := constructSeq hl.1 f.seq
  let dt := constructDt sq.1 f.dt
  (dt.1, ⟨f.kind, f.geom, dt.2, p.2, hl.2, sq.2, noCache⟩)

/-- a freshly constructed shape with the given fields, alone in a heap -/
def fresh (f : Fields G H W) : Heap H W × Obj G H W := construct Heap.empty f

/-- the start of a history: the shape and the argument shape, both newly constructed -/
def init (f g : Fields G H W) : St G H W :=
  let a := construct Heap.empty f
  let b := construct a.1 g
  ⟨b.1, a.2, b.2⟩

end
end GV.OS
