import GeoVerif.Model.Sphere
/-!
# Model of `_geometry.circumscribing_circle_for_polygon` (Welzl) and `…_for_triangle`

`welzl` is the recursion of `circumscribing_circle_for_polygon(all_points, known_points)` over an
arbitrary point type `P` and circle type `C`:

* `triv known` is `circumscribing_circle_for_triangle(known)` (`none` = `(None, None)`) — with
  `on_boundary=True` exactly when `len(known) == 3`, see `trivWelzl`,
* `covers d p` is `rad >= dist_xyz_meters(p, ctr)`,
* the results of `random.randrange(0, len(all_points))` are an **explicit choice sequence**; the unused
  choices are returned, so the number of random draws is observable.

`trivCircle` is the concrete `circumscribing_circle_for_triangle` on the sphere, generic over `Num α`
(numpy's `norm`, `cross`, `dot` as plain left-to-right sums; `np.longdouble` is modelled by `α`).
-/
namespace GV.Welzl

open GV GV.Num GV.Sphere

section recursion
variable {P C : Type}

def welzl (triv : List P → Option C) (covers : C → P → Bool) (pts known : List P) (cs : List Nat) :
    Except String (Option C × List Nat) :=
  if known.length = 3 then .ok (triv known, cs)
  else if hp : pts.length = 0 then .ok (triv known, cs)
  else
    match cs with
    | [] => .error "ERR:choices"
    | i :: cs' =>
      if h : i < pts.length then
        match welzl triv covers (pts.eraseIdx i) known cs' with
        | .error e => .error e
        | .ok (some d, cs'') =>
          if covers d pts[i] then .ok (some d, cs'')
          else welzl triv covers (pts.eraseIdx i) (known ++ [pts[i]]) cs''
        | .ok (none, cs'') => welzl triv covers (pts.eraseIdx i) (known ++ [pts[i]]) cs''
      else .error "ERR:choice-range"
termination_by pts.length
decreasing_by
  all_goals (simp only [List.length_eraseIdx, h, if_true]; omega)

end recursion

/-! ## the trivial circles on the sphere -/

section sphere
variable {α : Type} [Num α]

abbrev V3 (α : Type) := α × α × α

def add3 (a b : V3 α) : V3 α := (a.1 + b.1, a.2.1 + b.2.1, a.2.2 + b.2.2)
def sub3 (a b : V3 α) : V3 α := (a.1 - b.1, a.2.1 - b.2.1, a.2.2 - b.2.2)
def scale3 (a : V3 α) (s : α) : V3 α := (a.1 / s, a.2.1 / s, a.2.2 / s)
def cross3 (a b : V3 α) : V3 α :=
  (a.2.1 * b.2.2 - a.2.2 * b.2.1, a.2.2 * b.1 - a.1 * b.2.2, a.1 * b.2.1 - a.2.1 * b.1)
def plainDot (a b : V3 α) : α := a.1 * b.1 + a.2.1 * b.2.1 + a.2.2 * b.2.2
/-- `numpy.linalg.norm` -/
def norm3 (a : V3 α) : α := Num.sqrt (plainDot a a)

/-- `is_counter_clockwise(points)`: `sum((y.lon - x.lon) * (y.lat + x.lat) for ensure_edge_bounds(x, y) in cyclic pairs) <= 0`
    (Python's `sum` starts from the integer 0 and, for floats, compensates; the sign test is what matters) -/
def isCCW (ps : List (Coord α)) : Bool :=
  match ps with
  | [] => true
  | p :: rest =>
    let pairs := (p :: rest).zip (rest ++ [p])
    let s := pairs.foldl (fun acc e =>
      let q := ensureEdge e.1 e.2
      acc + (q.2.1 - q.1.1) * (q.2.2 + q.1.2)) (ofI 0)
    Num.le s (ofI 0)

/-- circle on the mid-point of two coordinates: `(midp_coord, dist_xyz_meters(midp_coord, a))` -/
def midCircle (R : α) (a b : Coord α) : Coord α × α :=
  let m : V3 α := ((xyz a).1 + (xyz b).1, (xyz a).2.1 + (xyz b).2.1, (xyz a).2.2 + (xyz b).2.2)
  let m2 : V3 α := (m.1 / ofI 2, m.2.1 / ofI 2, m.2.2 / ofI 2)
  let c := fromXyz (scale3 m2 (norm3 m2))
  (c, distXyz R c a)

/-- the circum-centre formula for three coordinates in counter-clockwise order; the radius is the largest
    `dist_xyz_meters` from the centre to the three points (F09b repair: the triple-product form
    `acos(a·(b×c)/|…|)` lost centimetres on a 1 km circle) -/
def circumCircle (R : α) (a b c : Coord α) : Coord α × α :=
  let (xa, xb, xc) := (xyz a, xyz b, xyz c)
  -- `np.cross(a, b) + np.cross(b, c) + np.cross(c, a)` is evaluated in `np.longdouble` by the code; over `α` it
  -- is written in the algebraically identical cancellation-free form `(b - a) × (c - a)`, so that the binary64
  -- instance reproduces the extended-precision value (the three cross products cancel to 1/angle² of their size)
  let num := cross3 (sub3 xb xa) (sub3 xc xa)
  let ctr := fromXyz (scale3 num (norm3 num))
  (ctr, (pyMax [distXyz R ctr a, distXyz R ctr b, distXyz R ctr c]).getD (ofI 0))

/-- `circumscribing_circle_for_triangle(points)` for `len(points) <= 3` -/
def trivCircle (R : α) (pts : List (Coord α)) : Option (Coord α × α) :=
  match pts with
  | [] => none
  | [p] => some (p, ofI 0)
  | [a, b] => some (midCircle R a b)
  | [a0, b0, c0] =>
    let (a, b, c) := if isCCW [a0, b0, c0] then (a0, b0, c0) else (c0, b0, a0)
    -- "test for trivial circle": one side is a diameter
    let t0 := midCircle R b c
    if Num.le (distXyz R t0.1 a) t0.2 then some t0 else
    let t1 := midCircle R a c
    if Num.le (distXyz R t1.1 b) t1.2 then some t1 else
    let t2 := midCircle R a b
    if Num.le (distXyz R t2.1 c) t2.2 then some t2 else
    some (circumCircle R a b c)
  | _ => none

/-- `circumscribing_circle_for_triangle(known_points, on_boundary=True)`: Welzl's base case for three known
    boundary points is the circle **through** them — no diameter shortcut (F09d repair) -/
def circumOfThree (R : α) (pts : List (Coord α)) : Option (Coord α × α) :=
  match pts with
  | [a0, b0, c0] =>
    let (a, b, c) := if isCCW [a0, b0, c0] then (a0, b0, c0) else (c0, b0, a0)
    some (circumCircle R a b c)
  | _ => none

/-- the function the recursion applies to its known points: `len(known_points) == 3` is the first base case
    (`on_boundary=True`), every other call has at most two known points -/
def trivWelzl (R : α) (known : List (Coord α)) : Option (Coord α × α) :=
  if known.length = 3 then circumOfThree R known else trivCircle R known

/-- `rad >= dist_xyz_meters(p, ctr)` -/
def coversCircle (R : α) (d : Coord α × α) (p : Coord α) : Bool := Num.le (distXyz R p d.1) d.2

/-- `GeoPolygon.circumscribing_circle`: Welzl on the open outline with the given random draws -/
def polygonCircle (R : α) (openOutline : List (Coord α)) (cs : List Nat) :
    Except String (Option (Coord α × α) × List Nat) :=
  welzl (trivWelzl R) (coversCircle R) openOutline [] cs

/-- `GeoBox.circumscribing_circle`: the rounded mid-point and its haversine distance to the **NW corner** (F09a) -/
def boxCircle (rnd : α → α) (R : α) (nw se : Coord α) : Coord α × α :=
  let c : Coord α := normCoord 4 (rnd ((nw.1 + se.1) / ofI 2), rnd ((nw.2 + se.2) / ofI 2))
  (c, haversine R nw c)

/-- `GeoLineString` / multi-shape / wedge circles: the given centroid and the farthest listed vertex -/
def maxCircle (R : α) (centroid : Coord α) (vs : List (Coord α)) : Option (Coord α × α) :=
  (maxDistRadius (haversine R) centroid vs).map fun r => (centroid, r)

/-- `GeoEllipse.circumscribing_circle` -/
def ellipseCircle (center : Coord α) (semiMajor _semiMinor : α) : Coord α × α := (center, semiMajor)

/-- `GeoRing.circumscribing_circle` when it is not `angle_min and angle_max` (both truthy) -/
def ringCircle (center : Coord α) (_inner outer : α) : Coord α × α := (center, outer)

end sphere

end GV.Welzl
