import GeoVerif.Model.ObjState
import GeoVerif.Model.Num
/-!
# The object state a method body runs in (prelude of the source unit `SrcMut`, C16)

`harness/py2lean.py` translates the updating methods of `_base.py` (`set_dt`, `buffer_dt`, `strip_dt`,
`set_property`) statement by statement.  In the translation a shape is a *reference* (a `Nat`) into an activation
`Act`: the heap of `Model/ObjState.lean` together with the shape records the body can name.  Reference `0` is the
receiver; `x.copy()` binds the model's `copy` to the next free reference; a store `x.dt = v` / `x._properties[k] = v`
rewrites the record (or the heap cell) behind `x` — whichever object `x` happens to denote, which is how
`shape = self if inplace else self.copy()` decides who is updated.

What a *store* does to the heap is the modelling decision of `ObjState.lean` and is repeated here verbatim, once per
kind of store (it is not what the unit is about): a `TimeInterval` stored into `dt` gets an identity no other cell has
(`Heap.bump`), an atom stored into the property dict is stored in place, a list value gets a new list cell.
-/
namespace GV.OS
section
variable {G H W : Type}

/-- heap + the shape objects in scope (reference ↦ record); references `< n` are in use -/
structure Act (G H W : Type) where
  heap : Heap H W
  objs : Nat → Obj G H W
  n : Nat

/-- entering a method on the receiver `o` in heap `h`: `self` is reference 0 -/
def Act.enter (h : Heap H W) (o : Obj G H W) : Act G H W := ⟨h, fun _ => o, 1⟩

/-- `x.copy()` (abstract in `BaseShapeProtocol`; the ten concrete methods are the model's `copy`): the new object is
    bound to the next free reference -/
def Act.copyOf (a : Act G H W) (r : Nat) : Act G H W × Nat :=
  let c := copy a.heap (a.objs r)
  (⟨c.1, upd a.objs a.n c.2, a.n + 1⟩, a.n)

/-- `x.dt` -/
def Act.dt (a : Act G H W) (r : Nat) : Option TI := dtOf (a.objs r)

/-- `x.dt = v` -/
def Act.setDt (a : Act G H W) (r : Nat) (v : Option TI) : Act G H W :=
  match v with
  | none => { a with objs := upd a.objs r { a.objs r with dt := none } }
  | some t => { a with heap := a.heap.bump, objs := upd a.objs r { a.objs r with dt := some (a.heap.next, t) } }

/-- `x._properties[k] = v` -/
def Act.setProp (a : Act G H W) (r : Nat) (k : String) (v : PArg) : Act G H W :=
  match v with
  | .atom n =>
      { a with heap := { a.heap with dicts := upd a.heap.dicts (a.objs r).props
                                        (dictSet (a.heap.dicts (a.objs r).props) k (.atom n)) } }
  | .list xs =>
      let al := a.heap.allocList xs
      { a with heap := { al.1 with dicts := upd al.1.dicts (a.objs r).props
                                      (dictSet (al.1.dicts (a.objs r).props) k (.ref al.2)) } }

/-- `x._properties.copy()`: the dict as an observer reads it (nested lists resolved) -/
def Act.propsCopy (a : Act G H W) (r : Nat) : List (String × RVal) := propsOf a.heap (a.objs r)

/-- the inputs the value of `x.area` (a `cached_property`) is a function of: the memoised ones if the slot is
    filled, else the current ones -/
def Act.areaStamp (a : Act G H W) (r : Nat) : Stamp H W := derived a.heap (a.objs r) .area

/-- `d[k] = v` on a local dict *value* (insertion ordered) -/
def rdictPut (d : List (String × RVal)) (k : String) (v : RVal) : List (String × RVal) :=
  if d.any (fun e => e.1 == k) then d.map (fun e => if e.1 == k then (k, v) else e) else d ++ [(k, v)]

/-- what a call of an updating method amounts to, in the vocabulary of `step`: the heap and the receiver
    afterwards, and the returned object when it is not the receiver.  An exception leaves everything as it was (the
    translator refuses a `raise` that could follow a store). -/
def Act.result (h : Heap H W) (o : Obj G H W) : Except String (Act G H W × Nat) → StepResult G H W
  | .ok (a, r) => ⟨a.heap, a.objs 0, if r = 0 then none else some (a.objs r), none⟩
  | .error e => ⟨h, o, none, some e⟩

/-! ## the observations of `_base.py` that the updates feed, as functions of what `observe` shows -/

/-- `shape.start` / `shape.end` -/
def startOf (dt : Option TI) : Except String Int :=
  match dt with
  | none => .error "ERR:Value"
  | some t => .ok t.start

def endOf (dt : Option TI) : Except String Int :=
  match dt with
  | none => .error "ERR:Value"
  | some t => .ok t.stop

/-- `shape.properties`: the stored properties plus, for a shape with time bounds, its two ends (a datetime is the
    atom of its instant) -/
def propertiesOf (props : List (String × RVal)) (dt : Option TI) : List (String × RVal) :=
  match dt with
  | none => props
  | some t => rdictPut (rdictPut props "datetime_start" (.atom t.start)) "datetime_end" (.atom t.stop)

/-- `shape.volume` from the pair `observe` calls `volume`: `0.` without time bounds, else
    `area * dt.elapsed.total_seconds()`; `areaOf` is the area as a function of the inputs it was computed from,
    `secs` is `timedelta.total_seconds` -/
def volumeOf {α : Type} [Num α] (areaOf : Stamp H W → α) (secs : Int → α) (v : Stamp H W × Option TI) : α :=
  match v.2 with
  | none => Num.ofI 0
  | some t => areaOf v.1 * secs t.elapsed

end
end GV.OS
