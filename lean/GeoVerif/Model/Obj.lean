import GeoVerif.Model.Time
import GeoVerif.Model.Plane
/-!
# Value model of `__eq__` / `__hash__` of every shape kind (C15)

Mirrors `structures.py` (`GeoPolygon/GeoBox/GeoCircle/GeoEllipse/GeoRing/GeoLineString/GeoPoint`
`.__eq__/.__hash__`), `_base.py:791-797` (`MultiShapeBase.__eq__/__hash__`), `multistructures.py`
(`MultiGeoPoint.__hash__`), `coordinates.py:46-57`, `time.py:52-76`.

* a Python `set`/`frozenset` is a list plus the membership relation CPython uses
  (`hash equal ∧ ==`); `pySetEq` is `set_richcompare(Py_EQ)`: equal sizes after de-duplication and
  every element of the left set found in the right one;
* the value handed to `hash()` is modelled as a *key* (`CKey`, `SKey`, `MKey`); the hash of a
  `frozenset` is a function of the multiset of the hashes of its (distinct) elements, so frozenset keys
  are compared as multisets (`msEqBy`);
* numbers that are floats in Python are exact rationals here (no NaN: `x == x` holds).
-/
namespace GV.Obj

/-! ## generic list-as-set machinery -/
section sets
variable {α : Type}

/-- `x in s` for a set held as a list, membership relation `r stored probe` -/
def memBy (r : α → α → Bool) (x : α) (l : List α) : Bool := l.any (fun y => r y x)

/-- building a `set` from an iterable: an element is added unless an equal one is already there
    (the first inserted representative stays) -/
def dedupBy (r : α → α → Bool) : List α → List α
  | [] => []
  | x :: xs => let d := dedupBy r xs
               -- insertion order: x first, later duplicates of x dropped
               x :: d.filter (fun y => !r x y)

/-- `set(a) <= set(b)` on de-duplicated lists -/
def subsetBy (r : α → α → Bool) (a b : List α) : Bool := a.all (fun x => memBy r x b)

/-- `set(a) == set(b)`: sizes first, then `issubset` -/
def pySetEq (r : α → α → Bool) (a b : List α) : Bool :=
  let a' := dedupBy r a
  let b' := dedupBy r b
  a'.length == b'.length && subsetBy r a' b'

/-- Python `list == list`: same length and element-wise `==` -/
def listEqBy (r : α → α → Bool) : List α → List α → Bool
  | [], [] => true
  | x :: xs, y :: ys => r x y && listEqBy r xs ys
  | _, _ => false

/-- number of elements of `l` related to `x` -/
def cntBy (r : α → α → Bool) (x : α) (l : List α) : Nat := (l.filter (r x)).length

/-- equality of two lists *as multisets modulo `r`* (how two frozenset keys are compared) -/
def msEqBy (r : α → α → Bool) (a b : List α) : Bool :=
  (a ++ b).all (fun x => cntBy r x a == cntBy r x b)

end sets

/-! ## coordinates and time bounds -/

/-- `Coordinate`: longitude, latitude, optional Z and M -/
structure Coord where
  lon : Rat
  lat : Rat
  z : Option Rat := none
  m : Option Rat := none
deriving DecidableEq, Repr

/-- the tuple `Coordinate.__hash__` hands to `hash()`: `(longitude, latitude, z)` -/
abbrev CKey := Rat × Rat × Option Rat

namespace Coord
/-- `Coordinate.__hash__` key -/
def key (a : Coord) : CKey := (a.lon, a.lat, a.z)
/-- `Coordinate.__eq__`: latitude, longitude, z (M is ignored) -/
def eq (a b : Coord) : Bool := a.lat == b.lat && a.lon == b.lon && a.z == b.z
/-- planar point -/
def pt (a : Coord) : Pt := (a.lon, a.lat)
end Coord

abbrev Dt := Option TI

/-- `self.dt == other.dt` for `Optional[TimeInterval]` (`None == None`; `TimeInterval.__eq__(None)` is False) -/
def dtEq : Dt → Dt → Bool
  | none, none => true
  | some a, some b => a.eq b
  | _, _ => false

/-- the `dt` component of a hash tuple -/
def dtKey : Dt → Option (Int × Int)
  | none => none
  | some t => some t.hashKey

/-! ## the outline comparison of `GeoPolygon.__eq__` (`structures.py:310-326`) -/
section outline
variable {β : Type} [DecidableEq β]

/-- `o_outline = o_outline[1:] + [o_outline[0]]` -/
def rotL : List β → List β
  | [] => []
  | x :: xs => xs ++ [x]

/-- `for _ in range(0, n):` with the early `break`; `s in (o, o[::-1])` -/
def eqLoop (s : List β) : List β → Nat → Bool
  | _, 0 => false
  | o, n+1 => if s = o ∨ s = o.reverse then true else eqLoop s (rotL o) n

end outline

/-- list equality of coordinate lists is element-wise `Coordinate.__eq__`, i.e. equality of the key lists -/
def keys (l : List Coord) : List CKey := l.map Coord.key

/-- `self.outline[0:-1] or self.outline`: the open outline; a one-vertex polygon is stored as a
    single coordinate, which then is its open outline -/
def openOutline (o : List Coord) : List Coord :=
  if o.dropLast.isEmpty then o else o.dropLast

/-- on *stored* (closed) outlines: length test, then the rotation loop over the open outlines,
    `max(len, 1)` iterations -/
def outlineEq (s o : List Coord) : Bool :=
  if s.length ≠ o.length then false
  else eqLoop (keys (openOutline s)) (keys (openOutline o)) (max (openOutline o).length 1)

/-! ## `GeoPolygon.__init__` outline normalisation on coordinates (`structures.py:287-301`) -/

/-- `if not outline[0] == outline[-1]: outline = [*outline, outline[0]]` -/
def closeRingC (o : List Coord) : List Coord :=
  match o.head?, o.getLast? with
  | some a, some b => if a.key = b.key then o else o ++ [a]
  | _, _ => o

/-- close, then reverse unless counter-clockwise (clockwise for `_is_hole`) -/
def mkOutlineC (o : List Coord) (isHole : Bool := false) : List Coord :=
  let c := closeRingC o
  if !(xor (isCCW (c.map Coord.pt)) isHole) then c.reverse else c

/-! ## shapes -/

/-- the defining geometry of a polygon-like shape, without holes and time -/
inductive Geom
  | poly (outline : List Coord)                      -- the stored outline
  | box (nw se : Coord)
  | circle (c : Coord) (r : Rat)
  | ellipse (c : Coord) (major minor rot : Rat)
  | ring (c : Coord) (ri ro amin amax : Rat)
deriving DecidableEq, Repr

/-- a hole: a polygon-like shape that itself has no holes (`PolygonBase.__init__` rejects others) -/
structure Hole where
  g : Geom
  dt : Dt := none
deriving DecidableEq, Repr

inductive Shape
  | pl (g : Geom) (holes : List Hole) (dt : Dt)
  | line (vs : List Coord) (dt : Dt)
  | point (c : Coord) (dt : Dt)
deriving DecidableEq, Repr

inductive MKind | mpoint | mline | mpoly
deriving DecidableEq, Repr

structure Multi where
  kind : MKind
  members : List Shape
  dt : Dt
deriving DecidableEq, Repr

inductive Any
  | single (s : Shape)
  | multi (m : Multi)
deriving DecidableEq, Repr

/-- What the model does not compute (generated vertices of curved shapes are C03's subject): the
    default `bounding_coords()` of a curved hole and the centroid of a wedge, as *functions of the
    defining fields* (of the coordinate only `(lon, lat, z)` enters: `inverse_haversine_*` copies `z`
    and drops `m`). -/
structure Env where
  curvedBc : Geom → List CKey
  wedgeCentroid : CKey → Rat → Rat → Rat → Rat → CKey

/-- `nw.z if nw.z is not None else se.z` (repo fix 68e2a82: a Z of 0.0 is kept) -/
def zOr (a b : Option Rat) : Option Rat :=
  match a with
  | some x => some x
  | none => b

/-- `hole.bounding_coords()` as keys -/
def Geom.bcKeys (env : Env) : Geom → List CKey
  | .poly o => keys o
  | .box nw se =>
      let z := zOr nw.z se.z
      [nw.key, (nw.lon, se.lat, z), se.key, (se.lon, nw.lat, z), nw.key]
  | g => env.curvedBc g

/-- `frozenset((x, y) for x, y in zip(bc, bc[1:]))` as the list it is built from -/
def Hole.edges (env : Env) (h : Hole) : List (CKey × CKey) :=
  let bc := h.g.bcKeys env
  bc.zip bc.tail

/-- `frozenset == frozenset` on edge sets (tuples of coordinates: hash and `==` agree with the key) -/
def edgeSetEq (a b : List (CKey × CKey)) : Bool := pySetEq (fun x y => x == y) a b

/-- geometry part of `__eq__` for two hole-free polygon-likes: `isinstance` test and defining fields -/
def Geom.eq : Geom → Geom → Bool
  | .poly s, .poly o => outlineEq s o
  | .box a b, .box c d => a.eq c && b.eq d
  | .circle c r, .circle c' r' => c.eq c' && r == r'
  | .ellipse c a b rot, .ellipse c' a' b' rot' => c.eq c' && a == a' && b == b' && rot == rot'
  | .ring c ri ro a1 a2, .ring c' ri' ro' a1' a2' =>
      c.eq c' && ri == ri' && ro == ro' && a1 == a1' && a2 == a2'
  | _, _ => false

/-- `hole == hole'` for hole-free shapes (see `Shape.eq`; the hole lists are both empty) -/
def Hole.eq (h h' : Hole) : Bool := h.g.eq h'.g && dtEq h.dt h'.dt

/-- `__eq__` of the single shapes, in the order the code tests -/
def Shape.eq (env : Env) : Shape → Shape → Bool
  | .pl (.poly s) hs dt, .pl (.poly o) hs' dt' =>
      if !dtEq dt dt' then false
      else if !outlineEq s o then false
      else if hs.length ≠ hs'.length then false
      else pySetEq edgeSetEq (hs.map (Hole.edges env)) (hs'.map (Hole.edges env))
  | .pl (.poly _) _ _, _ => false
  | .pl _ _ _, .pl (.poly _) _ _ => false
  | .pl g hs dt, .pl g' hs' dt' => g.eq g' && dtEq dt dt' && listEqBy Hole.eq hs hs'
  | .line vs dt, .line vs' dt' => (keys vs == keys vs') && dtEq dt dt'
  | .point c dt, .point c' dt' => c.eq c' && dtEq dt dt'
  | _, _ => false

/-- the key of `frozenset(coords)` -/
def fsKeys (l : List Coord) : List CKey := dedupBy (fun x y => x == y) (keys l)

/-- what each `__hash__` hands to `hash()` -/
inductive SKey
  | poly (vs : List CKey) (dt : Option (Int × Int))            -- (frozenset(outline), dt)
  | box (nw se : CKey) (dt : Option (Int × Int))
  | circle (c : CKey) (r : Rat) (dt : Option (Int × Int))       -- (centroid, radius, dt)
  | ellipse (c : CKey) (minor major rot : Rat) (dt : Option (Int × Int))
  | ring (c : CKey) (ri ro amin amax : Rat) (dt : Option (Int × Int))
  | line (vs : List CKey) (dt : Option (Int × Int))             -- (tuple(vertices), dt)
  | point (c : CKey) (dt : Option (Int × Int))
deriving DecidableEq, Repr

/-- `GeoRing.centroid`: `if self.angle_min and self.angle_max: to_polygon().centroid else center` -/
def ringCentroid (env : Env) (c : Coord) (ri ro amin amax : Rat) : CKey :=
  if amin ≠ 0 ∧ amax ≠ 0 then env.wedgeCentroid c.key ri ro amin amax else c.key

def Shape.hashKey (env : Env) : Shape → SKey
  | .pl (.poly o) _ dt => .poly (fsKeys o) (dtKey dt)
  | .pl (.box nw se) _ dt => .box nw.key se.key (dtKey dt)
  | .pl (.circle c r) _ dt => .circle c.key r (dtKey dt)
  | .pl (.ellipse c a b rot) _ dt => .ellipse c.key b a rot (dtKey dt)
  | .pl (.ring c ri ro a1 a2) _ dt => .ring (ringCentroid env c ri ro a1 a2) ri ro a1 a2 (dtKey dt)
  | .line vs dt => .line (keys vs) (dtKey dt)
  | .point c dt => .point c.key (dtKey dt)

/-- "these two keys are the same value for `hash()`" -/
def SKey.equiv : SKey → SKey → Bool
  | .poly v d, .poly v' d' => msEqBy (fun x y => x == y) v v' && d == d'
  | a, b => a == b

/-- membership relation of a `set` of shapes: hash first, then `==` -/
def Shape.memR (env : Env) (x y : Shape) : Bool :=
  (x.hashKey env).equiv (y.hashKey env) && x.eq env y

/-- `MultiShapeBase.__eq__`; `none` is `NotImplemented` -/
def Multi.eq? (env : Env) (a : Multi) : Any → Option Bool
  | .single _ => none
  | .multi b =>
      if a.kind ≠ b.kind then some false
      else some (pySetEq (Shape.memR env) a.members b.members && dtEq a.dt b.dt)

def Multi.eq (env : Env) (a b : Multi) : Bool := (a.eq? env (.multi b)).getD false

/-- `a == b` as the interpreter evaluates it: `a.__eq__(b)`, on `NotImplemented` the reflected
    `b.__eq__(a)`, then identity (two distinct objects: False) -/
def Any.eq (env : Env) : Any → Any → Bool
  | .single s, .single t => s.eq env t
  | .single _, .multi _ => false                      -- every single `__eq__` starts with isinstance → False
  | .multi a, x =>
      match a.eq? env x with
      | some r => r
      | none => (match x with
                 | .single _ => false                 -- reflected `single.__eq__(multi)` → False
                 | .multi b => (b.eq? env (.multi a)).getD false)

/-- key of a multi-shape: `(frozenset(geoshapes), dt)`; `MultiGeoPoint`: the bare `frozenset(geoshapes)` -/
structure MKey where
  ms : List SKey
  dt : Option (Option (Int × Int))
deriving DecidableEq, Repr

def Multi.hashKey (env : Env) (a : Multi) : MKey :=
  { ms := (dedupBy (Shape.memR env) a.members).map (Shape.hashKey env)
    dt := match a.kind with | .mpoint => none | _ => some (dtKey a.dt) }

def MKey.equiv (a b : MKey) : Bool := msEqBy SKey.equiv a.ms b.ms && a.dt == b.dt

inductive AKey | s (k : SKey) | m (k : MKey)
deriving DecidableEq, Repr

def Any.hashKey (env : Env) : Any → AKey
  | .single s => .s (s.hashKey env)
  | .multi m => .m (m.hashKey env)

def AKey.equiv : AKey → AKey → Bool
  | .s a, .s b => a.equiv b
  | .m a, .m b => a.equiv b
  | _, _ => false

/-- membership in a `set`/`dict` of arbitrary shapes -/
def Any.memR (env : Env) (x y : Any) : Bool := (x.hashKey env).equiv (y.hashKey env) && x.eq env y

/-- `len({a, b})` -/
def setLen2 (env : Env) (a b : Any) : Nat := (dedupBy (Any.memR env) [a, b]).length

/-- `b in {a: v}` -/
def dictHas (env : Env) (a b : Any) : Bool := memBy (Any.memR env) b [a]

end GV.Obj
