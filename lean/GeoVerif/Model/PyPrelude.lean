/-!
# Prelude of the source translator (`harness/py2lean.py`)

The few Python constructs whose Lean counterpart is not a core function.
-/
namespace GV.Py

/-- `[x for x in xs if f(x)]` where the test may raise: evaluated left to right, the first exception ends the
    comprehension -/
def filterE {α : Type} (f : α → Except String Bool) : List α → Except String (List α)
  | [] => .ok []
  | x :: xs =>
    match f x with
    | .error e => .error e
    | .ok b =>
      match filterE f xs with
      | .error e => .error e
      | .ok r => .ok (if b then x :: r else r)

/-- `xs[i]` for a literal `i ≥ 0`: `IndexError` past the end -/
def getIdx {α : Type} : List α → Nat → Except String α
  | [], _ => .error "ERR:Index"
  | x :: _, 0 => .ok x
  | _ :: xs, i + 1 => getIdx xs i

/-- `any(f(x) for x in xs)` where `f` may raise: left to right, stops at the first truthy value or exception -/
def anyE {α : Type} (f : α → Except String Bool) : List α → Except String Bool
  | [] => .ok false
  | x :: xs =>
    match f x with
    | .error e => .error e
    | .ok true => .ok true
    | .ok false => anyE f xs

/-- `all(f(x) for x in xs)` where `f` may raise -/
def allE {α : Type} (f : α → Except String Bool) : List α → Except String Bool
  | [] => .ok true
  | x :: xs =>
    match f x with
    | .error e => .error e
    | .ok false => .ok false
    | .ok true => allE f xs

theorem anyE_ok {α : Type} (f : α → Except String Bool) (g : α → Bool) (h : ∀ x, f x = .ok (g x)) :
    ∀ l : List α, anyE f l = .ok (l.any g) := by
  intro l
  induction l with
  | nil => rfl
  | cons x xs ih => simp only [anyE, h x, List.any_cons]; cases g x <;> simp [ih]

theorem anyE_ok_mem {α : Type} (f : α → Except String Bool) (g : α → Bool) :
    ∀ l : List α, (∀ x ∈ l, f x = .ok (g x)) → anyE f l = .ok (l.any g) := by
  intro l
  induction l with
  | nil => intro _; rfl
  | cons x xs ih =>
    intro h
    have hx := h x (by simp)
    have ih' := ih (fun y hy => h y (by simp [hy]))
    simp only [anyE, hx, List.any_cons]; cases g x <;> simp [ih']

/-- a comprehension whose test never raises is `List.filter` -/
theorem filterE_ok {α : Type} (f : α → Except String Bool) (g : α → Bool) (h : ∀ x, f x = .ok (g x)) :
    ∀ l : List α, filterE f l = .ok (l.filter g) := by
  intro l
  induction l with
  | nil => rfl
  | cons x xs ih =>
    simp only [filterE, h x, ih, List.filter_cons]

end GV.Py
