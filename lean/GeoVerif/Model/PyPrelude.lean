/-!
# Prelude of the source translator (`harness/py2lean.py`)

The few Python constructs whose Lean counterpart is not a core function.
-/
namespace GV.Py

/-- `[x for x in xs if f(x)]` where the test may raise: evaluated left to right, the first exception ends the
    comprehension -/
def filterE {α : Type} (f : α → Except String Bool) : List α → Except String (List α)
  | [] => .ok []
  | x :: xs =>
    match f x with
    | .error e => .error e
    | .ok b =>
      match filterE f xs with
      | .error e => .error e
      | .ok r => .ok (if b then x :: r else r)

/-- `xs[i]` for a literal `i ≥ 0`: `IndexError` past the end -/
def getIdx {α : Type} : List α → Nat → Except String α
  | [], _ => .error "ERR:Index"
  | x :: _, 0 => .ok x
  | _ :: xs, i + 1 => getIdx xs i

/-- `any(f(x) for x in xs)` where `f` may raise: left to right, stops at the first truthy value or exception -/
def anyE {α : Type} (f : α → Except String Bool) : List α → Except String Bool
  | [] => .ok false
  | x :: xs =>
    match f x with
    | .error e => .error e
    | .ok true => .ok true
    | .ok false => anyE f xs

/-- `all(f(x) for x in xs)` where `f` may raise -/
def allE {α : Type} (f : α → Except String Bool) : List α → Except String Bool
  | [] => .ok true
  | x :: xs =>
    match f x with
    | .error e => .error e
    | .ok false => .ok false
    | .ok true => allE f xs

theorem anyE_ok {α : Type} (f : α → Except String Bool) (g : α → Bool) (h : ∀ x, f x = .ok (g x)) :
    ∀ l : List α, anyE f l = .ok (l.any g) := by
  intro l
  induction l with
  | nil => rfl
  | cons x xs ih => simp only [anyE, h x, List.any_cons]; cases g x <;> simp [ih]

theorem anyE_ok_mem {α : Type} (f : α → Except String Bool) (g : α → Bool) :
    ∀ l : List α, (∀ x ∈ l, f x = .ok (g x)) → anyE f l = .ok (l.any g) := by
  intro l
  induction l with
  | nil => intro _; rfl
  | cons x xs ih =>
    intro h
    have hx := h x (by simp)
    have ih' := ih (fun y hy => h y (by simp [hy]))
    simp only [anyE, hx, List.any_cons]; cases g x <;> simp [ih']

/-- a comprehension whose test never raises is `List.filter` -/
theorem filterE_ok {α : Type} (f : α → Except String Bool) (g : α → Bool) (h : ∀ x, f x = .ok (g x)) :
    ∀ l : List α, filterE f l = .ok (l.filter g) := by
  intro l
  induction l with
  | nil => rfl
  | cons x xs ih =>
    simp only [filterE, h x, ih, List.filter_cons]

/-- `[f(x) for x in xs]` where `f` may raise: evaluated left to right, the first exception ends the comprehension -/
def mapE {α β : Type} (f : α → Except String β) : List α → Except String (List β)
  | [] => .ok []
  | x :: xs =>
    match f x with
    | .error e => .error e
    | .ok y =>
      match mapE f xs with
      | .error e => .error e
      | .ok ys => .ok (y :: ys)

/-- a comprehension whose element never raises is `List.map` -/
theorem mapE_ok {α β : Type} (f : α → Except String β) (g : α → β) (h : ∀ x, f x = .ok (g x)) :
    ∀ l : List α, mapE f l = .ok (l.map g) := by
  intro l
  induction l with
  | nil => rfl
  | cons x xs ih => simp only [mapE, h x, ih, List.map_cons]

/-- `xs[-1]`: `IndexError` on the empty list -/
def getLast {α : Type} : List α → Except String α
  | [] => .error "ERR:Index"
  | [x] => .ok x
  | _ :: y :: ys => getLast (y :: ys)

theorem getLast_eq {α : Type} (l : List α) :
    getLast l = match l.getLast? with | some x => .ok x | none => .error "ERR:Index" := by
  induction l with
  | nil => rfl
  | cons x xs ih =>
    cases xs with
    | nil => rfl
    | cons y ys => rw [getLast, ih]; simp [List.getLast?_cons_cons]

end GV.Py
