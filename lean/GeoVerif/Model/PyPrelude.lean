/-!
# Prelude of the source translator (`harness/py2lean.py`)

The few Python constructs whose Lean counterpart is not a core function.
-/
namespace GV.Py

/-- `[x for x in xs if f(x)]` where the test may raise: evaluated left to right, the first exception ends the
    comprehension -/
def filterE {α : Type} (f : α → Except String Bool) : List α → Except String (List α)
  | [] => .ok []
  | x :: xs =>
    match f x with
    | .error e => .error e
    | .ok b =>
      match filterE f xs with
      | .error e => .error e
      | .ok r => .ok (if b then x :: r else r)

/-- `xs[i]` for a literal `i ≥ 0`: `IndexError` past the end -/
def getIdx {α : Type} : List α → Nat → Except String α
  | [], _ => .error "ERR:Index"
  | x :: _, 0 => .ok x
  | _ :: xs, i + 1 => getIdx xs i

/-- a comprehension whose test never raises is `List.filter` -/
theorem filterE_ok {α : Type} (f : α → Except String Bool) (g : α → Bool) (h : ∀ x, f x = .ok (g x)) :
    ∀ l : List α, filterE f l = .ok (l.filter g) := by
  intro l
  induction l with
  | nil => rfl
  | cons x xs ih =>
    simp only [filterE, h x, ih, List.filter_cons]

end GV.Py
