import GeoVerif.Model.Time
/-!
# Model of the multi-shape member loops

`geostructures/_base.py` `MultiShapeBase` (`bounds`, `contains_coordinate`, `contains_shape`,
`intersects_shape`, `split`) and the loops single shapes run over a multi-shape argument
(`structures.py`: `PolygonBase.contains_shape/intersects_shape`, `GeoLineString.contains_shape/
intersects_shape`, `GeoPoint.contains_shape/intersects_shape`).

The loops are written as structural recursion with the early exits exactly as coded.  They are
parameterised by the *member-level* relations (what one single shape answers about one coordinate /
one single shape); nothing is assumed about these relations.

* `μ`  members of the receiving multi-shape
* `ν`  members of a multi-shape argument
* `σ`  a single shape (receiver or argument)
* `κ`  coordinates
-/
namespace GV.Multi

section loops
variable {μ ν σ κ : Type}

/-- the argument of `contains_shape` / `intersects_shape`: `isinstance(shape, MultiShapeBase)` or not -/
inductive Arg (σ : Type) where
  | single (x : σ)
  | multi (ys : List σ)

/-- the parts of a shape: itself, or the members of a multi-shape -/
def Arg.parts : Arg σ → List σ
  | .single x => [x]
  | .multi ys => ys

/-- `MultiShapeBase.contains_coordinate`
```
for shape in self.geoshapes:
    if shape.contains_coordinate(coord): return True
return False
``` -/
def containsCoord (rc : μ → κ → Bool) : List μ → κ → Bool
  | [], _ => false
  | m :: ms, c => if rc m c then true else containsCoord rc ms c

/-- `MultiShapeBase.intersects_shape`, the trailing loop (argument is a single shape)
```
for self_shape in self.geoshapes:
    if self_shape.intersects_shape(shape): return True
return False
``` -/
def intersectsSingle (ri : μ → σ → Bool) : List μ → σ → Bool
  | [], _ => false
  | m :: ms, x => if ri m x then true else intersectsSingle ri ms x

/-- `MultiShapeBase.intersects_shape`, the `isinstance(shape, MultiShapeBase)` branch
```
for subshape in shape.geoshapes:
    if self.intersects_shape(subshape, **kwargs): return True
return False
``` -/
def intersectsMulti (ri : μ → ν → Bool) (ms : List μ) : List ν → Bool
  | [] => false
  | y :: ys => if intersectsSingle ri ms y then true else intersectsMulti ri ms ys

/-- `MultiShapeBase.intersects_shape` -/
def intersectsShape (ri : μ → σ → Bool) (ms : List μ) : Arg σ → Bool
  | .multi ys => intersectsMulti ri ms ys
  | .single x => intersectsSingle ri ms x

/-- `PolygonBase.intersects_shape` / `GeoLineString.intersects_shape`, the `isinstance(shape, MultiShape)` branch
```
for subshape in shape.geoshapes:
    if self.intersects_shape(subshape, **kwargs): return True
return False
``` -/
def singleIntersectsMulti (ri : σ → ν → Bool) (s : σ) : List ν → Bool
  | [] => false
  | y :: ys => if ri s y then true else singleIntersectsMulti ri s ys

/-- `GeoPoint.intersects_shape(multi)`: no loop of its own, `return shape.intersects_shape(self)`;
    `ri'` is the member-level relation with the *member* as receiver -/
def pointIntersectsMulti (ri' : ν → σ → Bool) (p : σ) (ys : List ν) : Bool :=
  intersectsSingle ri' ys p

/-- Python's `all(f(y) for y in ys)` (stops at the first falsy element) -/
def pyAll {α : Type} (f : α → Bool) : List α → Bool
  | [] => true
  | y :: ys => if f y then pyAll f ys else false

/-- `MultiShapeBase.contains_shape`, the trailing loop (argument is a single shape)
```
for self_shape in self.geoshapes:
    if self_shape.contains_shape(shape): return True
return False
``` -/
def containsSingle (rs : μ → σ → Bool) : List μ → σ → Bool
  | [], _ => false
  | m :: ms, x => if rs m x then true else containsSingle rs ms x

/-- `MultiShapeBase.contains_shape`, the `isinstance(shape, MultiShapeBase)` branch
```
if all(self.contains_shape(subshape, **kwargs) for subshape in shape.geoshapes): return True
return False
``` -/
def containsMulti (rs : μ → ν → Bool) (ms : List μ) (ys : List ν) : Bool :=
  if pyAll (fun y => containsSingle rs ms y) ys then true else false

/-- `MultiShapeBase.contains_shape` -/
def containsShape (rs : μ → σ → Bool) (ms : List μ) : Arg σ → Bool
  | .multi ys => containsMulti rs ms ys
  | .single x => containsSingle rs ms x

/-- `PolygonBase/GeoLineString/GeoPoint.contains_shape`, the `isinstance(shape, MultiShape)` branch
```
for subshape in shape.geoshapes:
    if not self.contains_shape(subshape): return False
return True
``` -/
def singleContainsMulti (rs : σ → ν → Bool) (s : σ) : List ν → Bool
  | [] => true
  | y :: ys => if !rs s y then false else singleContainsMulti rs s ys

end loops

/-! ### bounds -/

/-- `(min_lon, min_lat, max_lon, max_lat)` -/
abbrev Box := Rat × Rat × Rat × Rat

/-- Python `min` over a non-empty sequence (keeps the first of equal elements) -/
def pyMin : Rat → List Rat → Rat
  | x, [] => x
  | x, y :: ys => pyMin (if y < x then y else x) ys

/-- Python `max` over a non-empty sequence -/
def pyMax : Rat → List Rat → Rat
  | x, [] => x
  | x, y :: ys => pyMax (if y > x then y else x) ys

/-- `MultiShapeBase.bounds`
```
min_lons, min_lats, max_lons, max_lats = list(zip(*[shape.bounds for shape in self.geoshapes]))
return min(min_lons), min(min_lats), max(max_lons), max(max_lats)
```
(no members: the unpacking of an empty list raises `ValueError`) -/
def bounds : List Box → Except String Box
  | [] => .error "ERR:Value"
  | b :: bs => .ok (pyMin b.1 (bs.map (·.1)), pyMin b.2.1 (bs.map (·.2.1)),
      pyMax b.2.2.1 (bs.map (·.2.2.1)), pyMax b.2.2.2 (bs.map (·.2.2.2)))

/-! ### split — with object identity of the property dictionaries

`_properties` is a mutable `dict`; whether `split` hands out *copies* is a statement about object
identity, so the model has a heap of dictionaries and shapes hold the address of theirs. -/

/-- a `dict` with string keys: association list in insertion order, keys unique -/
abbrev Dict := List (String × String)

/-- `d[k] = v` -/
def dictSet : Dict → String → String → Dict
  | [], k, v => [(k, v)]
  | (k', v') :: r, k, v => if k' = k then (k', v) :: r else (k', v') :: dictSet r k v

/-- the heap: address = position -/
abbrev Heap := List Dict

def Heap.read (h : Heap) (a : Nat) : Dict := h.getD a []

def Heap.write (h : Heap) (a : Nat) (d : Dict) : Heap := h.set a d

/-- a new `dict` object -/
def Heap.alloc (h : Heap) (d : Dict) : Heap × Nat := (h ++ [d], h.length)

/-- what `split` can see of a shape: its geometry, its `dt`, the address of its `_properties` -/
structure Shp (γ : Type) where
  geom : γ
  dt : Option TI
  props : Nat

/-- member `.copy()`: same geometry, `dt=self.dt.copy() if self.dt else None`,
    `properties=copy.deepcopy(self._properties)` (a new dictionary object) -/
def copyMember {γ : Type} (h : Heap) (m : Shp γ) : Heap × Shp γ :=
  let r := h.alloc (h.read m.props)
  (r.1, { geom := m.geom, dt := m.dt.map TI.copy, props := r.2 })

/-- `shapes = [shape.copy() for shape in self.geoshapes]` -/
def copyAll {γ : Type} : Heap → List (Shp γ) → Heap × List (Shp γ)
  | h, [] => (h, [])
  | h, m :: ms =>
    let r1 := copyMember h m
    let r2 := copyAll r1.1 ms
    (r2.1, r1.2 :: r2.2)

/-- ```
for shape in shapes:
    shape._properties = self._properties.copy()
    shape.dt = self.dt
``` -/
def assignAll {γ : Type} (pdt : Option TI) (pa : Nat) : Heap → List (Shp γ) → Heap × List (Shp γ)
  | h, [] => (h, [])
  | h, s :: ss =>
    let r1 := h.alloc (h.read pa)
    let r2 := assignAll pdt pa r1.1 ss
    (r2.1, { geom := s.geom, dt := pdt, props := r1.2 } :: r2.2)

/-- `MultiShapeBase.split` for a parent with time bounds `pdt`, property dictionary at address `pa`
    and members `ms` -/
def split {γ : Type} (h : Heap) (pdt : Option TI) (pa : Nat) (ms : List (Shp γ)) : Heap × List (Shp γ) :=
  let r := copyAll h ms
  assignAll pdt pa r.1 r.2

/-- `shape.set_property(key, value)` (in place): `shape._properties[key] = value` -/
def setProperty {γ : Type} (h : Heap) (s : Shp γ) (k v : String) : Heap :=
  h.write s.props (dictSet (h.read s.props) k v)

end GV.Multi
