import GeoVerif.Model.Coord
import GeoVerif.Gen.Geohash
/-!
# Model of the Niemeyer geohash codec (`geostructures/geohash.py:38-276, 553-577`), exact rationals

All tables (`bits`, `charset`, `inverse`, ranges) come from `GeoVerif/Gen/Geohash.lean`, which is
regenerated from the imported `_NIEMEYER_CONFIG` on every run.  A geohash is a `List Char`.

Every definition mirrors one function of the module, in source order.  Python's floats are `Rat`:
all interval end points are `k·180/2ⁿ` and exact in binary64 (`float_exact_bound` in `Props/C11`).
-/
namespace GV.Geohash
open GV.Geohash.Gen

/-- a closed interval `[lo, hi]` — the two-element lists `lon_interval`, `lat_interval` -/
abbrev Iv := Rat × Rat

/-- `(interval[0] + interval[1]) / 2.0` -/
def mid (iv : Iv) : Rat := (iv.1 + iv.2) / 2

/-- `_NIEMEYER_CONFIG[base]` / `base in _NIEMEYER_CONFIG` -/
def cfgOf (base : Nat) : Option NiemeyerCfg := niemeyerConfigs.lookup base

/-! ## `_decode_niemeyer` -/

/-- the local variables of `_decode_niemeyer` -/
structure DecSt where
  lonIv : Iv
  latIv : Iv
  lonErr : Rat
  latErr : Rat
  lonComp : Bool
deriving Repr

/-- lines 97-100 -/
def DecSt.init (cfg : NiemeyerCfg) : DecSt :=
  ⟨(cfg.minX, cfg.maxX), (cfg.minY, cfg.maxY), cfg.maxX, cfg.maxY, true⟩

/-- `character_decoded & mask != 0` -/
def testMask (v mask : Nat) : Bool := (v &&& mask) != 0

/-- body of `for mask in config['bits']` (lines 108-120) for one bit -/
def decBit (s : DecSt) (bit : Bool) : DecSt :=
  if s.lonComp then
    { s with lonErr := s.lonErr / 2
             lonIv := if bit then (mid s.lonIv, s.lonIv.2) else (s.lonIv.1, mid s.lonIv)
             lonComp := false }
  else
    { s with latErr := s.latErr / 2
             latIv := if bit then (mid s.latIv, s.latIv.2) else (s.latIv.1, mid s.latIv)
             lonComp := true }

/-- the inner loop for one decoded character value -/
def decVal (cfg : NiemeyerCfg) (s : DecSt) (v : Nat) : DecSt :=
  cfg.bits.foldl (fun s mask => decBit s (testMask v mask)) s

/-- body of `for character in geohash` (lines 103-120):
    `character not in charset → ValueError`; `inverse[ord(character)]` (a dict: `KeyError` if absent) -/
def decChar (cfg : NiemeyerCfg) (s : DecSt) (c : Char) : Except String DecSt :=
  if c ∈ cfg.charset then
    match cfg.inverse.lookup c.toNat with
    | some v => .ok (decVal cfg s v)
    | none => .error "ERR:Key"
  else .error "ERR:Value"

/-- the outer loop -/
def decGo (cfg : NiemeyerCfg) : List Char → DecSt → Except String DecSt
  | [], s => .ok s
  | c :: cs, s =>
    match decChar cfg s c with
    | .ok s' => decGo cfg cs s'
    | .error e => .error e

/-- `_decode_niemeyer` with the config already looked up: `(lon, lat, lon_error, lat_error)` -/
def decodeCfg (cfg : NiemeyerCfg) (gh : List Char) : Except String (Rat × Rat × Rat × Rat) :=
  match decGo cfg gh (DecSt.init cfg) with
  | .ok s => .ok (mid s.lonIv, mid s.latIv, s.lonErr, s.latErr)
  | .error e => .error e

/-- `_decode_niemeyer(geohash, base)`; an unknown base is a `KeyError` (plain dict indexing) -/
def decode (base : Nat) (gh : List Char) : Except String (Rat × Rat × Rat × Rat) :=
  match cfgOf base with
  | some cfg => decodeCfg cfg gh
  | none => .error "ERR:Key"

/-! ## `_coord_to_niemeyer` -/

/-- the interval variables and `lon_component` of `_coord_to_niemeyer` -/
structure EncSt where
  lonIv : Iv
  latIv : Iv
  lonComp : Bool
deriving Repr

def EncSt.init (cfg : NiemeyerCfg) : EncSt := ⟨(cfg.minX, cfg.maxX), (cfg.minY, cfg.maxY), true⟩

/-- lines 158-171 and 180: one bisection with the **strict** `>` at the mid point; returns the bit -/
def encBit (lon lat : Rat) (s : EncSt) : Bool × EncSt :=
  if s.lonComp then
    if lon > mid s.lonIv then (true, { s with lonIv := (mid s.lonIv, s.lonIv.2), lonComp := false })
    else (false, { s with lonIv := (s.lonIv.1, mid s.lonIv), lonComp := false })
  else
    if lat > mid s.latIv then (true, { s with latIv := (mid s.latIv, s.latIv.2), lonComp := true })
    else (false, { s with latIv := (s.latIv.1, mid s.latIv), lonComp := true })

/-- the loop iterations that build one character: `bit` walks through `bits`
    (`character |= bits[bit]`), and after the last mask the character is emitted (lines 173-178).
    The bit alternation is carried in the state, hence across characters. -/
def encChar (lon lat : Rat) : List Nat → Nat → EncSt → Nat × EncSt
  | [], ch, s => (ch, s)
  | mask :: rest, ch, s =>
    let r := encBit lon lat s
    encChar lon lat rest (if r.1 then ch ||| mask else ch) r.2

/-- `while geohash_position < length` — one character per step; `charset[character]` is a string
    index (`IndexError` when out of range) -/
def encGo (cfg : NiemeyerCfg) (lon lat : Rat) : Nat → EncSt → Except String (List Char)
  | 0, _ => .ok []
  | n+1, s =>
    let r := encChar lon lat cfg.bits 0 s
    match cfg.charset[r.1]? with
    | none => .error "ERR:Index"
    | some c =>
      match encGo cfg lon lat n r.2 with
      | .ok cs => .ok (c :: cs)
      | .error e => .error e

def encodeCfg (cfg : NiemeyerCfg) (lon lat : Rat) (length : Nat) : Except String (List Char) :=
  encGo cfg lon lat length (EncSt.init cfg)

/-- `_coord_to_niemeyer(coordinate, length, base)` on the *stored* longitude/latitude of the
    coordinate; `length ≤ 0` gives the empty string -/
def encode (base : Nat) (lon lat : Rat) (length : Nat) : Except String (List Char) :=
  match cfgOf base with
  | some cfg => encodeCfg cfg lon lat length
  | none => .error "ERR:Value"

/-- `_coord_to_niemeyer(Coordinate(lon, lat), length, base)`: through the normalising constructor -/
def encodeCoord (base : Nat) (lon lat : Rat) (length : Nat) : Except String (List Char) :=
  let p := normalize true lon lat
  encode base p.1 p.2 length

/-! ## `_get_niemeyer_subhashes` -/

/-- a Python `set` built by inserting the elements of a list -/
def toSet {α} [DecidableEq α] : List α → List α
  | [] => []
  | x :: xs => if x ∈ toSet xs then toSet xs else x :: toSet xs

/-- `{geohash + char for char in config['charset']}` -/
def subhashes (base : Nat) (gh : List Char) : Except String (List (List Char)) :=
  match cfgOf base with
  | some cfg => .ok (toSet (cfg.charset.map fun c => gh ++ [c]))
  | none => .error "ERR:Value"

/-! ## `niemeyer_to_geobox`, `GeoBox.contains_coordinate`, `GeoBox.to_polygon` -/

/-- a `GeoBox`: stored `nw_bound`, `se_bound` -/
structure Box where
  nw : Pt
  se : Pt
deriving DecidableEq, Repr

/-- `niemeyer_to_geobox`: both corners pass through the `Coordinate` constructor, so an east edge
    of exactly 180 is stored as −180 (finding F11a is reproduced, not repaired) -/
def cellBox (base : Nat) (gh : List Char) : Except String Box :=
  match decode base gh with
  | .ok (lon, lat, lonErr, latErr) =>
      .ok ⟨normalize true (lon - lonErr) (lat + latErr), normalize true (lon + lonErr) (lat - latErr)⟩
  | .error e => .error e

/-- `GeoBox.contains_coordinate` (no holes) -/
def Box.contains (b : Box) (p : Pt) : Bool :=
  decide (b.nw.1 ≤ p.1) && decide (p.1 ≤ b.se.1) && decide (b.se.2 ≤ p.2) && decide (p.2 ≤ b.nw.2)

/-- `GeoBox.bounding_coords` -/
def Box.coords (b : Box) : List Pt := [b.nw, (b.nw.1, b.se.2), b.se, (b.se.1, b.nw.2), b.nw]

/-- `GeoPolygon.from_niemeyer_geohash(..).outline` = `GeoPolygon(box.bounding_coords()).outline` -/
def cellPolygon (base : Nat) (gh : List Char) : Except String (List Pt) :=
  match cellBox base gh with
  | .ok b => .ok (mkOutline b.coords)
  | .error e => .error e

/-! ## `NiemeyerHasher._get_surrounding` -/

/-- the eight offsets, "from directly above, then clockwise", in units of (2·lon_err, 2·lat_err) -/
def offsets : List (Int × Int) := [(0, 1), (1, 1), (1, 0), (1, -1), (0, -1), (-1, -1), (-1, 0), (-1, 1)]

def mapExcept {α β ε} (f : α → Except ε β) : List α → Except ε (List β)
  | [] => .ok []
  | x :: xs =>
    match f x with
    | .error e => .error e
    | .ok y => match mapExcept f xs with
      | .ok ys => .ok (y :: ys)
      | .error e => .error e

/-- `_get_surrounding(geohash, base)`: re-encode the eight offset centres at the same length -/
def surrounding (base : Nat) (gh : List Char) : Except String (List (List Char)) :=
  match decode base gh with
  | .ok (lon, lat, lonErr, latErr) =>
      mapExcept (fun (o : Int × Int) =>
        encodeCoord base (lon + o.1 * (lonErr * 2)) (lat + o.2 * (latErr * 2)) gh.length) offsets
  | .error e => .error e

end GV.Geohash
