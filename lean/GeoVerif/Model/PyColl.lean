/-!
# Prelude of the source translator, part 2 (`harness/py2lean.py`): lists indexed by an `int`, `range`, `defaultdict(list)`,
dict comprehensions, `sum`, float division, `timedelta.total_seconds()`

Used by the `Track` unit (`Gen/SrcTrack.lean`).  Core Lean only.
-/
namespace GV.Py

/-- `xs[i]` for an `int` `i`: a negative index counts from the end, `IndexError` outside the list -/
def getIdxI {α : Type} (l : List α) (i : Int) : Except String α :=
  let j : Int := if i < 0 then i + (l.length : Int) else i
  if j < 0 then .error "ERR:Index"
  else match l[j.toNat]? with
    | some x => .ok x
    | none => .error "ERR:Index"

/-- `range(a, b)` -/
def rangeI (a b : Int) : List Int := (List.range (b - a).toNat).map (fun (k : Nat) => a + (k : Int))

/-- `len(xs)` -/
def len {α : Type} (l : List α) : Int := (l.length : Int)

/-- `td.total_seconds()` of a `timedelta` given in microseconds (exact) -/
def totalSeconds (td : Int) : Rat := (td : Rat) / 1000000

/-- `a / b` on floats read as exact rationals: `ZeroDivisionError` on a zero divisor -/
def divR (a b : Rat) : Except String Rat :=
  if b == 0 then .error "ERR:Other:ZeroDivisionError" else .ok (a / b)

/-- `sum(xs)` (exact) -/
def sumR (xs : List Rat) : Rat := xs.foldl (· + ·) 0

/-- `a, b = list(zip(*pairs))`: the two columns; unpacking an empty list raises `ValueError` -/
def unzip2 {α β : Type} (l : List (α × β)) : Except String (List α × List β) :=
  if l.isEmpty then .error "ERR:Value" else .ok l.unzip

/-- `a, b, c, d = list(zip(*quadruples))`: the four columns; unpacking an empty list raises `ValueError` -/
def unzip4 {α : Type} (l : List (α × α × α × α)) : Except String (List α × List α × List α × List α) :=
  if l.isEmpty then .error "ERR:Value"
  else .ok (l.map (·.1), l.map (·.2.1), l.map (·.2.2.1), l.map (·.2.2.2))

/-- `min(xs)`: the first minimal element; `ValueError` on an empty sequence -/
def minL : List Rat → Except String Rat
  | [] => .error "ERR:Value"
  | x :: xs => .ok (xs.foldl (fun m y => if y < m then y else m) x)

/-- `max(xs)`: the first maximal element -/
def maxL : List Rat → Except String Rat
  | [] => .error "ERR:Value"
  | x :: xs => .ok (xs.foldl (fun m y => if y > m then y else m) x)

/-- `[f(x) for x in xs]` / `for x in xs: x.a = …` where `f` creates or updates objects: the heap is threaded through the
    list from left to right -/
def mapH {η α β : Type} (f : η → α → η × β) : η → List α → η × List β
  | h, [] => (h, [])
  | h, x :: xs =>
    let r := f h x
    let r2 := mapH f r.1 xs
    (r2.1, r.2 :: r2.2)

/-- `d[k].append(v)` on a `defaultdict(list)` (a dict keeps insertion order) -/
def ddAppend {κ ν : Type} [BEq κ] (d : List (κ × List ν)) (k : κ) (v : ν) : List (κ × List ν) :=
  match d with
  | [] => [(k, [v])]
  | (k', vs) :: rest => if k' == k then (k', vs ++ [v]) :: rest else (k', vs) :: ddAppend rest k v

/-- `d[k] = v` on a dict: overwrite in place, else append -/
def dictSet {κ ν : Type} [BEq κ] (d : List (κ × ν)) (k : κ) (v : ν) : List (κ × ν) :=
  match d with
  | [] => [(k, v)]
  | (k', v') :: rest => if k' == k then (k, v) :: rest else (k', v') :: dictSet rest k v

/-- `{k: v for k, v in pairs}`: later pairs overwrite earlier ones in place -/
def dictOf {κ ν : Type} [BEq κ] (pairs : List (κ × ν)) : List (κ × ν) :=
  pairs.foldl (fun d kv => dictSet d kv.1 kv.2) []

/-- `xs == ys` on lists: same length and pairwise equal under the element comparison (`x is y or x == y`) -/
def listEq {α : Type} (eq : α → α → Bool) : List α → List α → Bool
  | [], [] => true
  | x :: xs, y :: ys => eq x y && listEq eq xs ys
  | _, _ => false

/-! ### what the index functions return inside the list -/

theorem getIdxI_ofNat {α : Type} (l : List α) (i : Nat) (x : α) (h : l[i]? = some x) :
    getIdxI l (i : Int) = .ok x := by
  unfold getIdxI
  have h0 : ¬ ((i : Int) < 0) := by omega
  simp only [h0, if_false, Int.toNat_natCast, h]

theorem getIdxI_neg_one {α : Type} (l : List α) :
    getIdxI l (-1) = match l.getLast? with | some x => .ok x | none => .error "ERR:Index" := by
  unfold getIdxI
  cases l with
  | nil => simp
  | cons y ys =>
    have h1 : ((-1 : Int) < 0) := by omega
    have h2 : ¬ ((-1 : Int) + ((y :: ys).length : Int) < 0) := by simp only [List.length_cons]; omega
    have h3 : ((-1 : Int) + ((y :: ys).length : Int)).toNat = (y :: ys).length - 1 := by
      simp only [List.length_cons]; omega
    simp only [h1, if_true, h2, if_false, h3, List.getLast?_eq_getElem?]

theorem getIdxI_len_pred {α : Type} (l : List α) :
    getIdxI l (len l - 1) = match l.getLast? with | some x => .ok x | none => .error "ERR:Index" := by
  cases l with
  | nil => simp [getIdxI, len]
  | cons y ys =>
    have h : len (y :: ys) - 1 = ((ys.length : Nat) : Int) := by
      unfold len; simp only [List.length_cons]; omega
    rw [h, getIdxI_ofNat (y :: ys) ys.length ((y :: ys).getLast (by simp))]
    · simp [List.getLast?_eq_some_getLast]
    · simp [List.getLast_eq_getElem]

theorem rangeI_eq (a : Nat) (n : Nat) (h : a ≤ n) :
    rangeI (a : Int) (n : Int) = (List.range' a (n - a)).map (fun k : Nat => (k : Int)) := by
  unfold rangeI
  have : ((n : Int) - (a : Int)).toNat = n - a := by omega
  rw [this, List.range_eq_range']
  apply List.ext_getElem
  · simp
  · intro i h1 h2
    simp only [List.getElem_map, List.getElem_range']
    omega

end GV.Py
