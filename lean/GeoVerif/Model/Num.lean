/-!
# Numeric signature of the geodesy models (core Lean only)

The geodesy formulas of `calc.py` / `_geometry.py` / the curved shapes of `structures.py` are written
**once**, generically over this signature (`Model/Sphere.lean`, `Model/Welzl.lean`).

* the `Float` instance below runs in the driver: Lean's `Float` is IEEE-754 binary64 and its
  `sin/cos/asin/acos/atan2/sqrt` call the same libm as CPython's `math` module, so the model is
  executed with the very operations (and operation order) of the Python code;
* the `ℝ` instance (`Lemmas/NumReal.lean`, Mathlib, noncomputable) is what the theorems are about:
  the real-number semantics of exactly the formula the `Float` instance executes against the code.

Comparisons are `Bool`-valued (`lt`, `le`) so that the same `if` runs in both instances.
-/
namespace GV

class Num (α : Type) extends Add α, Sub α, Mul α, Div α, Neg α where
  ofRat : Rat → α
  sqrt : α → α
  sin : α → α
  cos : α → α
  asin : α → α
  acos : α → α
  atan2 : α → α → α
  /-- `x ** 2` (CPython calls libm `pow(x, 2.0)`, which is not always the correctly rounded `x * x`) -/
  pow2 : α → α
  pi : α
  /-- `math.floor` as a number of the same kind (used by Python's float `%`) -/
  floor : α → α
  /-- `math.ceil` (returns an `int` in Python) -/
  ceilI : α → Int
  lt : α → α → Bool
  le : α → α → Bool

namespace Num
variable {α : Type} [Num α]

/-- integer literal -/
def ofI (i : Int) : α := Num.ofRat (i : Rat)
/-- natural number (loop counters `k`, `i` converted by Python's int→float promotion) -/
def ofN (n : Nat) : α := Num.ofRat (n : Rat)

end Num

namespace Num

/-- bit pattern of `math.pi` -/
def floatPi : Float := Float.ofBits 0x400921FB54442D18

instance instFloat : Num Float where
  ofRat r := Float.ofInt r.num / Float.ofNat r.den
  sqrt := Float.sqrt
  sin := Float.sin
  cos := Float.cos
  asin := Float.asin
  acos := Float.acos
  atan2 := Float.atan2
  pow2 x := Float.pow x 2.0
  pi := floatPi
  floor := Float.floor
  ceilI x := (Float.ceil x).toInt64.toInt
  lt a b := a < b
  le a b := a ≤ b

/-! ## Exact emulation of Python's `round(x, nd)` on binary64 (driver only)

`round(x, nd)` (CPython `float.__round__`, `double_round`) is: the decimal expansion of the *exact*
binary value of `x`, rounded half-even to `nd` places (`_Py_dg_dtoa` mode 3), converted back with a
correctly rounded `strtod`.  For `|x| < 2^53 / 10^nd` the integer `n = rne(x·10^nd)` is exactly
representable and IEEE division `n / 10^nd` is correctly rounded, i.e. equals that `strtod`. -/

/-- exact value of a finite binary64 as a rational -/
def floatToRat (f : Float) : Rat :=
  let b : Nat := f.toBits.toNat
  let neg : Bool := b / 2 ^ 63 == 1
  let e : Nat := (b / 2 ^ 52) % 2048
  let m : Nat := b % 2 ^ 52
  let mant : Nat := if e == 0 then m else m + 2 ^ 52
  let ex : Int := (if e == 0 then (1 : Int) else (e : Int)) - 1075
  let q : Rat := if ex ≥ 0 then ((mant * 2 ^ ex.toNat : Nat) : Rat)
                 else mkRat (mant : Int) (2 ^ (-ex).toNat)
  if neg then -q else q

/-- round half to even of a rational to an integer -/
def ratRne (q : Rat) : Int :=
  let fl := q.floor
  let r := q - (fl : Rat)
  if r < 1 / 2 then fl else if r > 1 / 2 then fl + 1 else (if fl % 2 = 0 then fl else fl + 1)

/-- Python `round(x, nd)` for finite `x` of moderate size -/
def pyRound (nd : Nat) (x : Float) : Float :=
  if x.isNaN || x.isInf then x else
  let n := ratRne (floatToRat x * ((10 : Rat) ^ nd))
  let r := Float.ofInt n / Float.ofNat (10 ^ nd)
  -- Python keeps the sign of a negative input that rounds to zero
  if n = 0 && x < 0 then -r else r

/-- `utils.functions.round_half_up(value, precision)`: `round(value + 10 ** -(precision + 12), precision)` -/
def roundHalfUpF (nd : Nat) (x : Float) : Float :=
  pyRound nd (x + Float.ofScientific 1 true (nd + 12))

end Num

end GV
