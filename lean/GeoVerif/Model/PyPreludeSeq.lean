/-!
# Prelude of the source translator (`harness/py2lean.py`): sequences

`xs[-1]` and a comprehension whose element may raise.  (Kept apart from `PyPrelude.lean`; same namespace.)
-/
namespace GV.Py

/-- `xs[-1]`: `IndexError` on an empty list -/
def getLast {α : Type} (l : List α) : Except String α :=
  match l.getLast? with
  | some x => .ok x
  | none => .error "ERR:Index"

/-- `[f(x) for x in xs]` where `f` may raise: evaluated left to right, the first exception ends the comprehension -/
def mapE {α β : Type} (f : α → Except String β) : List α → Except String (List β)
  | [] => .ok []
  | x :: xs =>
    match f x with
    | .error e => .error e
    | .ok y =>
      match mapE f xs with
      | .error e => .error e
      | .ok ys => .ok (y :: ys)

end GV.Py
