import GeoVerif.Model.Num
import GeoVerif.Gen.Const
/-!
# Geodesy model: `calc.py`, `_geometry.py` (distance part), `Coordinate.xyz/_from_xyz`,
# curved shapes of `structures.py` — generic over `Num α`

Mirrors the operation order of the Python code (so that the `Float` instance reproduces its
floating-point results), nothing is tidied.  A coordinate is `(lon, lat)` in degrees.

Rounding (`round_half_up`, Python `round`) is a *parameter* `rnd : α → α` of every function that
rounds: the driver passes the exact binary64 emulation (`roundHalfUpF`), the theorems hold for the
un-rounded functions (and, where stated, for every `rnd`).
-/
namespace GV.Sphere
open GV Num

variable {α : Type} [Num α]

abbrev Coord (α : Type) := α × α

/-- `_const.EARTH_RADIUS`, regenerated from the source on every run -/
def earthR : α := Num.ofRat Gen.EARTH_RADIUS

/-- `x ** 2` -/
def sqr (x : α) : α := Num.pow2 x

/-- `math.radians`: `x * (pi / 180)` -/
def radians (x : α) : α := x * (Num.pi / ofI 180)
/-- `math.degrees`: `x * (180 / pi)` -/
def degrees (x : α) : α := x * (ofI 180 / Num.pi)

/-- `abs` -/
def absN (x : α) : α := if Num.lt x (ofI 0) then -x else x

/-- Python float `%` for a positive modulus: `x - m * floor (x / m)` -/
def pymod (x m : α) : α := x - m * Num.floor (x / m)

/-! ## `Coordinate.__init__` normalisation (`coordinates.py:26-44`), generic copy of `Model/Coord.lean` -/

def latLoop : Nat → α → α → α × α
  | 0, lon, lat => (lon, lat)
  | n+1, lon, lat =>
    if Num.le (ofI (-90)) lat && Num.le lat (ofI 90) then (lon, lat)
    else latLoop n (if Num.lt lon (ofI 0) then lon + ofI 180 else lon - ofI 180)
                   (if Num.lt (ofI 90) lat then ofI 90 - (lat - ofI 90) else ofI (-90) - (lat + ofI 90))

def lonLoop : Nat → α → α
  | 0, lon => lon
  | n+1, lon =>
    if Num.le (ofI (-180)) lon && Num.le lon (ofI 180) then lon
    else lonLoop n (if Num.lt (ofI 180) lon then lon - ofI 360 else lon + ofI 360)

/-- `Coordinate(lon, lat)`; `fuel` bounds the two `while` loops (4 suffices for |lat| ≤ 810, |lon| ≤ 1620) -/
def normCoord (fuel : Nat) (c : Coord α) : Coord α :=
  let r := latLoop fuel c.1 c.2
  let lon := lonLoop fuel r.1
  (if Num.le (ofI 180) lon && Num.le lon (ofI 180) then ofI (-180) else lon, r.2)

/-! ## `_geometry.ensure_edge_bounds` -/

def ensureEdge (c1 c2 : Coord α) : Coord α × Coord α :=
  if Num.lt (ofI 180) (absN (c1.1 - c2.1)) then
    -- `Coordinate(adjusted_lon, lat, _bounded=False)` stores the longitude as it is (F07e repair)
    (c1, ((if Num.lt c1.1 (ofI 0) then c2.1 - ofI 360 else c2.1 + ofI 360), c2.2))
  else (c1, c2)

/-! ## `calc.haversine_distance_meters` -/

/-- `var1` (angles in radians) -/
def havA (lat1 lon1 lat2 lon2 : α) : α :=
  sqr (Num.sin ((lat2 - lat1) / ofI 2)) +
    Num.cos lat1 * Num.cos lat2 * sqr (Num.sin ((lon2 - lon1) / ofI 2))

/-- `min(1.0, var1)` (F07c repair: `var1` can round to 1 + ulp for antipodal points) -/
def capOne (v : α) : α := if Num.lt v (ofI 1) then v else ofI 1

/-- the formula after `ensure_edge_bounds` -/
def havCore (R : α) (c1 c2 : Coord α) : α :=
  let v := capOne (havA (radians c1.2) (radians c1.1) (radians c2.2) (radians c2.1))
  R * ofI 2 * Num.atan2 (Num.sqrt v) (Num.sqrt (ofI 1 - v))

def haversine (R : α) (c1 c2 : Coord α) : α :=
  let e := ensureEdge c1 c2
  havCore R e.1 e.2

/-! ## `calc.bearing_degrees` -/

def bearingX (c1 c2 : Coord α) : α :=
  Num.cos (radians c2.2) * Num.sin (radians (c2.1 - c1.1))

def bearingY (c1 c2 : Coord α) : α :=
  Num.cos (radians c1.2) * Num.sin (radians c2.2)
    - Num.sin (radians c1.2) * Num.cos (radians c2.2) * Num.cos (radians (c2.1 - c1.1))

/-- `math.degrees(math.atan2(x_val, y_val))` -/
def bearingRaw (c1 c2 : Coord α) : α := degrees (Num.atan2 (bearingX c1 c2) (bearingY c1 c2))

/-- `(… + 360) % 360` -/
def bearingUnrounded (c1 c2 : Coord α) : α := pymod (bearingRaw c1 c2 + ofI 360) (ofI 360)

/-- `round_half_up(bearing, precision) % 360` (the `% 360` after rounding is the F07a repair) -/
def bearing (rnd : α → α) (c1 c2 : Coord α) : α := pymod (rnd (bearingUnrounded c1 c2)) (ofI 360)

/-! ## `calc.inverse_haversine_radians / _degrees` -/

/-- `max(-1.0, min(1.0, dot))` (Python `min`/`max` return the first extremal argument) -/
def clampUnit (d : α) : α :=
  let m := if Num.lt d (ofI 1) then d else ofI 1
  if Num.lt (ofI (-1)) m then m else ofI (-1)

/-- `final_lat` in radians (the clamp is the F07d repair) -/
def destLatRad (R : α) (start : Coord α) (ang d : α) : α :=
  let rad := d / R
  let y0 := start.2 * Num.pi / ofI 180
  Num.asin (clampUnit (Num.sin y0 * Num.cos rad + Num.cos y0 * Num.sin rad * Num.cos ang))

/-- `final_lon` in radians -/
def destLonRad (R : α) (start : Coord α) (ang d : α) : α :=
  let rad := d / R
  let x0 := start.1 * Num.pi / ofI 180
  let y0 := start.2 * Num.pi / ofI 180
  x0 + Num.atan2 (Num.sin ang * Num.sin rad * Num.cos y0)
                 (Num.cos rad - Num.sin y0 * Num.sin (destLatRad R start ang d))

/-- the destination in degrees **before** rounding and before the normalising constructor -/
def destRaw (R : α) (start : Coord α) (ang d : α) : Coord α :=
  (destLonRad R start ang d * ofI 180 / Num.pi, destLatRad R start ang d * ofI 180 / Num.pi)

/-- `inverse_haversine_radians`: rounded to 7 decimals, then `Coordinate(lon, lat)` -/
def destination (rnd : α → α) (R : α) (start : Coord α) (ang d : α) : Coord α :=
  let p := destRaw R start ang d
  normCoord 4 (rnd p.1, rnd p.2)

/-- `inverse_haversine_degrees` -/
def destinationDeg (rnd : α → α) (R : α) (start : Coord α) (angDeg d : α) : Coord α :=
  destination rnd R start (radians angDeg) d

def destRawDeg (R : α) (start : Coord α) (angDeg d : α) : Coord α :=
  destRaw R start (radians angDeg) d

/-! ## `Coordinate.xyz`, `Coordinate._from_xyz`, `_geometry.dist_xyz_meters` -/

def xyz (c : Coord α) : α × α × α :=
  let rlat := radians c.2
  let rlon := radians c.1
  (Num.cos rlat * Num.cos rlon, Num.cos rlat * Num.sin rlon, Num.sin rlat)

def fromXyz (v : α × α × α) : Coord α :=
  normCoord 4 (degrees (Num.atan2 v.2.1 v.1), degrees (Num.asin v.2.2))

/-- one step of Python 3.12's `sum` over floats (Neumaier compensation, `bltinmodule.c`):
    `(running sum, compensation) ↦ …` -/
def neumaierStep (sc : α × α) (x : α) : α × α :=
  let t := sc.1 + x
  (t, if Num.le (absN x) (absN sc.1) then sc.2 + ((sc.1 - t) + x) else sc.2 + ((x - t) + sc.1))

/-- `sum([a, b, c])`: `0 + a` exactly, then compensated additions, the compensation added at the end -/
def pySum3 (a b c : α) : α :=
  let r := neumaierStep (neumaierStep (a, ofI 0) b) c
  r.1 + r.2

/-- `sum([an*bn for an, bn in zip(coord1.xyz, coord2.xyz)])` -/
def dot3 (a b : α × α × α) : α := pySum3 (a.1 * b.1) (a.2.1 * b.2.1) (a.2.2 * b.2.2)

def distXyz (R : α) (c1 c2 : Coord α) : α := Num.acos (clampUnit (dot3 (xyz c1) (xyz c2))) * R

/-! ## `calc.rotate_coordinates` -/

/-- `R @ (p.T - o.T) + o.T` for one point: the planar rotation matrix about the origin -/
def rotPlain (origin : Coord α) (deg : α) (q : Coord α) : Coord α :=
  let a := radians deg
  let dx := q.1 - origin.1
  let dy := q.2 - origin.2
  (Num.cos a * dx + (-(Num.sin a)) * dy + origin.1, Num.sin a * dx + Num.cos a * dy + origin.2)

/-- one point, before the normalising constructor: un-wrap across the antimeridian, then rotate -/
def rotateRaw (origin : Coord α) (deg : α) (p : Coord α) : Coord α :=
  rotPlain origin deg (ensureEdge origin p).2

def rotate (origin : Coord α) (deg : α) (ps : List (Coord α)) : List (Coord α) :=
  ps.map fun p => normCoord 4 (rotateRaw origin deg p)

/-! ## Curved shapes (`structures.py`) -/

/-- `GeoEllipse._radius_at_angle` -/
def radiusAtAngle (a b ang : α) : α :=
  a * b / Num.sqrt (sqr a * sqr (Num.sin ang) + sqr b * sqr (Num.cos ang))

/-- `range(k, -1, -1)` -/
def schedule (k : Nat) : List Nat := (List.range (k + 1)).reverse

/-- `kwargs.get('k') or default` (`None` and `0` are both falsy) -/
def kOr (k : Nat) (dflt : Nat) : Nat := if k = 0 then dflt else k

/-- `math.pi * 2 / k * i` -/
def circleAngle (k i : Nat) : α := Num.pi * ofI 2 / ofN k * ofN i

/-- `GeoCircle.bounding_coords`, un-rounded points -/
def circleRingRaw (R : α) (center : Coord α) (radius : α) (k : Nat) : List (Coord α) :=
  let k := kOr k 36
  (schedule k).map fun i => destRaw R center (circleAngle k i) radius

def circleRing (rnd : α → α) (R : α) (center : Coord α) (radius : α) (k : Nat) : List (Coord α) :=
  let k := kOr k 36
  (schedule k).map fun i => destination rnd R center (circleAngle k i) radius

/-- `math.ceil(36 * semi_major / semi_minor)` -/
def ellipseDefaultK (a b : α) : Nat := (Num.ceilI (ofI 36 * a / b)).toNat

def ellipseRingWith (dest : Coord α → α → α → Coord α) (center : Coord α) (a b rotDeg : α) (k : Nat) :
    List (Coord α) :=
  let k := kOr k (ellipseDefaultK a b)
  let rotation := radians rotDeg
  (schedule k).map fun i =>
    let angle := circleAngle k i
    dest center (angle + rotation) (radiusAtAngle a b angle)

/-- `GeoEllipse.bounding_coords` -/
def ellipseRingRaw (R : α) := ellipseRingWith (α := α) (destRaw R)
def ellipseRing (rnd : α → α) (R : α) := ellipseRingWith (α := α) (destination rnd R)

/-- `max(math.ceil((angle_max - angle_min) / 10), 10)` -/
def ringDefaultK (amin amax : α) : Nat :=
  let c := Num.ceilI ((amax - amin) / ofI 10)
  (if c < 10 then 10 else c).toNat

/-- `math.pi * (angle_min + (angle_max - angle_min) / k * i) / 180` -/
def ringAngle (amin amax : α) (k i : Nat) : α :=
  Num.pi * (amin + (amax - amin) / ofN k * ofN i) / ofI 180

/-- `GeoRing._draw_bounds` → `(outer, inner)` -/
def ringArcsWith (dest : Coord α → α → α → Coord α) (center : Coord α) (inner outer amin amax : α)
    (k : Nat) : List (Coord α) × List (Coord α) :=
  let k := kOr k (ringDefaultK amin amax)
  ((schedule k).map fun i => dest center (ringAngle amin amax k i) outer,
   (schedule k).map fun i => dest center (ringAngle amin amax k i) inner)

def ringArcsRaw (R : α) := ringArcsWith (α := α) (destRaw R)
def ringArcs (rnd : α → α) (R : α) := ringArcsWith (α := α) (destination rnd R)

def isFullRing (amin amax : α) : Bool :=
  (Num.le amin (ofI 0) && Num.le (ofI 0) amin) && (Num.le amax (ofI 360) && Num.le (ofI 360) amax)

/-- `GeoRing.bounding_coords`: the outer arc for a full ring, else
    `[*outer, *inner[::-1], outer[0]]` -/
def wedgeRingOf (amin amax : α) (arcs : List (Coord α) × List (Coord α)) : List (Coord α) :=
  if isFullRing amin amax then arcs.1
  else arcs.1 ++ arcs.2.reverse ++ arcs.1.take 1

def wedgeRingRaw (R : α) (center : Coord α) (inner outer amin amax : α) (k : Nat) : List (Coord α) :=
  wedgeRingOf amin amax (ringArcsRaw R center inner outer amin amax k)

def wedgeRing (rnd : α → α) (R : α) (center : Coord α) (inner outer amin amax : α) (k : Nat) :
    List (Coord α) :=
  wedgeRingOf amin amax (ringArcs rnd R center inner outer amin amax k)

/-- `GeoRing.linear_rings` without user holes: `[outer ring, reversed inner ring]` for a full ring,
    one self-closing ring for a wedge -/
def ringLinearRingsOf (amin amax : α) (arcs : List (Coord α) × List (Coord α)) : List (List (Coord α)) :=
  if isFullRing amin amax then
    [arcs.1 ++ arcs.1.take 1, (arcs.2 ++ arcs.2.take 1).reverse]
  else [arcs.1 ++ arcs.2.reverse ++ arcs.1.take 1]

/-! ### analytic membership tests; `holes` are the membership tests of the hole shapes -/

def notInHoles (holes : List (Coord α → Bool)) (c : Coord α) : Bool := !(holes.any fun h => h c)

/-- `GeoCircle.contains_coordinate` -/
def containsCircle (R : α) (center : Coord α) (radius : α) (holes : List (Coord α → Bool))
    (c : Coord α) : Bool :=
  if !(Num.le (haversine R c center) radius) then false else notInHoles holes c

/-- `GeoEllipse.contains_coordinate` -/
def containsEllipse (rnd5 : α → α) (R : α) (center : Coord α) (a b rotDeg : α)
    (holes : List (Coord α → Bool)) (c : Coord α) : Bool :=
  let brg := bearing rnd5 center c
  let radius := radiusAtAngle a b (radians (brg - rotDeg))
  if !(Num.le (haversine R center c) radius) then false else notInHoles holes c

/-- `GeoRing.contains_coordinate` -/
def containsRing (rnd5 : α → α) (R : α) (center : Coord α) (inner outer amin amax : α)
    (holes : List (Coord α → Bool)) (c : Coord α) : Bool :=
  if Num.lt (amax - amin) (ofI 360) &&
      !(Num.le amin (bearing rnd5 center c) && Num.le (bearing rnd5 center c) amax) then false
  else
    let radius := haversine R center c
    if !(Num.le inner radius && Num.le radius outer) then false else notInHoles holes c

/-! ### bounds of curved shapes (`GeoCircle.bounds`, `GeoEllipse.bounds`, `GeoRing.bounds`) -/

/-- `(min_lon, min_lat, max_lon, max_lat)` from the 315°/135° corner destinations at `r·√2` -/
def circleBounds (rnd : α → α) (R : α) (center : Coord α) (radius : α) : α × α × α × α :=
  let nw := destinationDeg rnd R center (ofI 315) (radius * Num.sqrt (ofI 2))
  let se := destinationDeg rnd R center (ofI 135) (radius * Num.sqrt (ofI 2))
  (nw.1, se.2, se.1, nw.2)

def ellipseBounds (rnd : α → α) (R : α) (center : Coord α) (a b rotDeg : α) : α × α × α × α :=
  let rot := radians rotDeg
  let c2 := sqr (Num.cos rot)
  let s2 := sqr (Num.sin rot)
  let dx := Num.sqrt (sqr a * s2 + sqr b * c2)
  let dy := Num.sqrt (sqr a * c2 + sqr b * s2)
  ((destinationDeg rnd R center (ofI 270) dx).1, (destinationDeg rnd R center (ofI 180) dy).2,
   (destinationDeg rnd R center (ofI 90) dx).1, (destinationDeg rnd R center (ofI 0) dy).2)

/-- Python `min`/`max` over a non-empty list (first extremal element wins) -/
def pyMin : List α → Option α
  | [] => none
  | x :: xs => some (xs.foldl (fun m y => if Num.lt y m then y else m) x)

def pyMax : List α → Option α
  | [] => none
  | x :: xs => some (xs.foldl (fun m y => if Num.lt m y then y else m) x)

def vertexBounds (vs : List (Coord α)) : Option (α × α × α × α) :=
  match pyMin (vs.map (·.1)), pyMin (vs.map (·.2)), pyMax (vs.map (·.1)), pyMax (vs.map (·.2)) with
  | some a, some b, some c, some d => some (a, b, c, d)
  | _, _, _, _ => none

/-- `GeoRing.bounds` -/
def ringBounds (rnd : α → α) (R : α) (center : Coord α) (inner outer amin amax : α) :
    Option (α × α × α × α) :=
  if Num.le (ofI 360) (amax - amin) then some (circleBounds rnd R center outer)
  else vertexBounds (wedgeRing rnd R center inner outer amin amax 0)

/-- "centroid + farthest vertex" circles (`GeoLineString`, multi-shapes, wedge):
    `max(haversine_distance_meters(x, centroid) for x in vertices)` -/
def maxDistRadius (dist : Coord α → Coord α → α) (centroid : Coord α) (vs : List (Coord α)) : Option α :=
  pyMax (vs.map fun v => dist v centroid)

end GV.Sphere
