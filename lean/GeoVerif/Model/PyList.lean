/-!
# Prelude of the source translator (`harness/py2lean.py`): a Python `list` used as a stack

`xs[-k]`, `xs.pop()` and their `IndexError`s.  A Python list is the Lean list in the same order (`append` adds at the
end), so the top of the stack is the *last* element.  Core Lean only.
-/
namespace GV.Py

/-- `xs[-k]` for a literal `k ≥ 1`: the `k`-th element from the end, `IndexError` when the list is shorter -/
def negIdx {α : Type} (xs : List α) (k : Nat) : Except String α :=
  match xs.reverse[k - 1]? with
  | some x => .ok x
  | none => .error "ERR:Index"

/-- `xs.pop()` as a statement (the popped value is discarded): the list without its last element,
    `IndexError` on the empty list -/
def popLast {α : Type} : List α → Except String (List α)
  | [] => .error "ERR:Index"
  | x :: xs => .ok (x :: xs).dropLast

theorem negIdx_append_one {α : Type} (xs : List α) (a : α) : negIdx (xs ++ [a]) 1 = .ok a := by
  simp [negIdx]

theorem negIdx_append_two {α : Type} (xs : List α) (a b : α) : negIdx (xs ++ [b, a]) 2 = .ok b := by
  simp [negIdx]

theorem popLast_append_one {α : Type} (xs : List α) (a : α) : popLast (xs ++ [a]) = .ok xs := by
  cases xs with
  | nil => rfl
  | cons x xs =>
    show Except.ok ((x :: xs ++ [a]).dropLast) = _
    rw [List.dropLast_concat]

end GV.Py
