import GeoVerif.Model.Plane
/-!
# Convex hull (`_geometry.py:16-79`) and its wrappers, over exact rationals

`convex_hull` is Andrew's monotone chain: `sorted(set(coordinates), key=(lon, lat))`, two passes
(`lower` over the sorted list, `upper` over the reversed list) that pop while the last two stack
entries and the new point do not make a strict left turn (`cross <= 0`), result `lower[:-1] + upper`.

The wrappers (`multistructures.py:75-78, 274-277, 484-489`, `collections.py:69-89`) collect member
vertices and pass the hull to `GeoPolygon(...)`, whose constructor closes / re-orients the ring
(`mkOutline`, `Model/Plane.lean`).  Core Lean only (the driver imports this file).
-/
namespace GV.Hull

/-- one `for coord in …:` iteration: `while len(st) >= 2 and cross(st[-2], st[-1], p) <= 0: st.pop()`,
    then `st.append(p)`.  The stack is kept top-first. -/
def push : List Pt → Pt → List Pt
  | a :: b :: rest, p => if cross b a p ≤ 0 then push (b :: rest) p else p :: a :: b :: rest
  | st, p => p :: st
termination_by st => st.length

/-- one whole pass; the result is the Python list reversed (top of the stack first) -/
def chain (pts : List Pt) : List Pt := pts.foldl push []

/-- tuple comparison `(a.lon, a.lat) <= (b.lon, b.lat)` -/
def lexLe (a b : Pt) : Bool := decide (a.1 < b.1) || (decide (a.1 = b.1) && decide (a.2 ≤ b.2))

/-- `sorted(set(coordinates), key=lambda x: (x.longitude, x.latitude))`: the set keeps one copy of
    every (planar) coordinate; `sorted` is a stable sort on the key.  Set iteration order is
    arbitrary in Python; the model uses first-occurrence order (`sortedSet_canonical` in
    `Props/C10.lean` shows the result does not depend on it). -/
def sortedSet (pts : List Pt) : List Pt := (pts.eraseDups).mergeSort lexLe

/-- `convex_hull(coordinates)` -/
def hull (pts : List Pt) : List Pt :=
  let s := sortedSet pts
  if s.length ≤ 1 then s
  else
    let lower := (chain s).reverse
    let upper := (chain s.reverse).reverse
    lower.dropLast ++ upper

/-- `GeoPolygon(convex_hull(vertices))`: the constructor reads `outline[0]` (IndexError on an empty
    list), closes the ring and reverses it when `is_counter_clockwise` says so. -/
def hullPoly (vertices : List Pt) : Except String (List Pt) :=
  match hull vertices with
  | [] => .error "ERR:Index"
  | h => .ok (mkOutline h)

/-! ## vertex collection of the wrappers -/

/-- the simple shapes the hull wrappers distinguish (curved shapes contribute their generated
    `bounding_coords()`, which are float trigonometry and are not modelled here) -/
inductive Simple where
  /-- `GeoPoint` → `[centroid]` -/
  | point (p : Pt)
  /-- `GeoLineString` → `vertices` -/
  | line (vs : List Pt)
  /-- `GeoPolygon` → `bounding_coords()` = the outline as normalised by the constructor -/
  | poly (outline : List Pt)
  /-- `GeoBox(nw, se)` → `[nw, (nw.lon, se.lat), se, (se.lon, nw.lat), nw]` -/
  | box (nw se : Pt)

def Simple.vertices : Simple → List Pt
  | .point p => [p]
  | .line vs => vs
  | .poly o => mkOutline o
  | .box nw se => [nw, (nw.1, se.2), se, (se.1, nw.2), nw]

/-- a collection member: a simple shape or a multi-shape of simple shapes -/
inductive Member where
  | simple (s : Simple)
  | multi (ms : List Simple)

/-- `_get_vertices([shape])` of `CollectionBase.convex_hull` -/
def Member.vertices : Member → List Pt
  | .simple s => s.vertices
  | .multi ms => ms.flatMap Simple.vertices

/-- `MultiGeoPoint / MultiGeoLineString / MultiGeoPolygon.convex_hull()` -/
def multiHull (ms : List Simple) : Except String (List Pt) :=
  hullPoly (ms.flatMap Simple.vertices)

/-- `FeatureCollection(shapes).convex_hull` -/
def collectionHull (shapes : List Member) : Except String (List Pt) :=
  hullPoly (shapes.flatMap Member.vertices)

/-- `Track(shapes).convex_hull`: the constructor sorts the shapes by start time (stable) first -/
def trackHull (shapes : List (Int × Member)) : Except String (List Pt) :=
  collectionHull ((shapes.mergeSort fun a b => decide (a.1 ≤ b.1)).map (·.2))

end GV.Hull
