import GeoVerif.Model.Plane
import GeoVerif.Model.SegInt
/-!
# Model of `_geometry.do_edges_intersect` (sweep over latitude-sorted start/end events)

As coded: lower-latitude end point first, two events per edge with the `is_start` expressions as written
(so a horizontal edge gets two *start* events and is never removed), stable sort on `(lat, not is_start)`,
active *set* keyed by `(segment, group)` with add/discard, the "all one group" shortcut, early `return True`.
-/
namespace GV.Sweep

abbrev Act := Edge × Bool       -- (segment, group)   group: false = 'a', true = 'b'

structure Ev where
  key : Rat
  isStart : Bool
  edge : Edge
  grp : Bool
deriving DecidableEq

def normEdge (e : Edge) : Edge := if e.1.2 > e.2.2 then (e.2, e.1) else e

def mkEvents (g : Bool) (es : List Edge) : List Ev :=
  es.flatMap fun e =>
    let e' := normEdge e
    [⟨e'.1.2, decide (e'.1.2 ≤ e'.2.2), e', g⟩, ⟨e'.2.2, decide (e'.2.2 ≤ e'.1.2), e', g⟩]

/-- `_Event.__lt__` as a total preorder: `(x, not is_start)` lexicographic -/
def evLe (x y : Ev) : Bool :=
  decide (x.key < y.key) || (decide (x.key = y.key) && (x.isStart || !y.isStart))

def ins (x : Act) (l : List Act) : List Act := if x ∈ l then l else x :: l

def step (act : List Act) (ev : Ev) : List Act :=
  if ev.isStart then ins (ev.edge, ev.grp) act else act.erase (ev.edge, ev.grp)

def hit (inter : Edge → Edge → Bool) (act : List Act) (ev : Ev) : Bool :=
  act.any fun a => a.2 != ev.grp && inter a.1 ev.edge

def go (inter : Edge → Edge → Bool) : List Ev → List Act → Bool
  | [], _ => false
  | ev :: rest, act =>
    if !ev.isStart then go inter rest (step act ev)
    else if act.all (fun a => a.2 == ev.grp) then go inter rest (step act ev)
    else if hit inter act ev then true
    else go inter rest (step act ev)

def sweep (inter : Edge → Edge → Bool) (A B : List Edge) : Bool :=
  go inter ((mkEvents false A ++ mkEvents true B).mergeSort evLe) []

end GV.Sweep

namespace GV
/-- the segment test the sweep calls -/
def segInter (a b : Edge) : Bool := (findIntersection a b).isSome

/-- `do_edges_intersect(edges_a, edges_b)` -/
def doEdgesIntersect (A B : List Edge) : Bool := Sweep.sweep segInter A B
end GV
