import GeoVerif.Model.Sphere
/-!
# Python 3.12 `sum` over a list of floats, for any length (core Lean only)

`Model/Sphere.lean` has the three-term form `pySum3` (what `dist_xyz_meters` needs); the source translator meets
`sum([...])` over a list, so this is the same fold for a list of any length: the first float is added to the integer
start value `0` exactly, every further term is one Neumaier-compensated addition (`neumaierStep`), and the compensation
is added at the end.  `pySumList [a, b, c] = pySum3 a b c` by unfolding (`Props/C07SrcXyz.lean`).
-/
namespace GV.Sphere
open GV Num

variable {α : Type} [Num α]

/-- `sum(xs)` for a list of floats (`0` for the empty list) -/
def pySumList : List α → α
  | [] => ofI 0
  | x :: xs =>
    let r := xs.foldl neumaierStep (x, ofI 0)
    r.1 + r.2

end GV.Sphere
