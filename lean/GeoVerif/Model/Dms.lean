import GeoVerif.Model.CoordObj
/-!
# Model of the coordinate text formats (`coordinates.py`: `to_dms`, `from_dms`, `to_qdms`, `from_qdms`;
`utils/functions.py: round_half_up`), exact rationals / integers / character lists

* `round_half_up(value, p) = round(value + 10**-(p+12), p)` is modelled in exact arithmetic as "nearest
  multiple of 10^-p, ties towards +∞" (`roundHalfUp`).  The float program differs only when `value` lies
  within float noise of a rounding boundary; the correspondence streams that demand string equality avoid
  those inputs, the others compare numerically (DESIGN §6 C19 Tie).
* Python `divmod` on non-negative floats is exact (`fmod` is exact, the quotient is the floor), so the only
  rounding inside `to_dms` besides `round_half_up` is the product `abs(dd) * 3600`.
* strings are `List Char`; `str(int)` is `natStr`, `f'{x:.2f}'` of a multiple of 1/100 is `fmt2`.
-/
namespace GV.Dms
open GV GV.CoordObj

def pow10 (p : Nat) : Rat := ((10 ^ p : Nat) : Rat)

/-- exact reading of `round_half_up(x, p)` -/
def roundHalfUp (x : Rat) (p : Nat) : Rat := ((x * pow10 p + 1 / 2).floor : Rat) / pow10 p

/-! ## `to_dms` / `from_dms` -/

/-- the unrounded divmod chain of `convert(dd)` in `to_dms`:
    `minutes, seconds = divmod(abs(dd) * 3600, 60); degrees, minutes = divmod(minutes, 60)` -/
def convertRaw (dd : Rat) : Int × Int × Rat :=
  let t := absR dd * 3600
  let minutes : Int := (t / 60).floor
  let seconds : Rat := t - 60 * minutes
  let degrees : Int := minutes / 60
  let minutes' : Int := minutes % 60
  (degrees, minutes', seconds)

/-- `convert(dd)`: `(int(degrees), int(minutes), round_half_up(seconds, 5))` -/
def convert (dd : Rat) : Int × Int × Rat :=
  let r := convertRaw dd
  (r.1, r.2.1, roundHalfUp r.2.2 5)

structure DMS where
  deg : Rat
  min : Rat
  sec : Rat
  hemi : Char
deriving Repr, DecidableEq

def mkDMS (dd : Rat) (pos neg : Char) : DMS :=
  let r := convert dd
  { deg := r.1, min := r.2.1, sec := r.2.2, hemi := if dd ≥ 0 then pos else neg }

/-- `Coordinate.to_dms()` → `(lon_dms, lat_dms)` -/
def toDms (c : Coord) : DMS × DMS := (mkDMS c.lon 'E' 'W', mkDMS c.lat 'N' 'S')

/-- `convert(dms)` inside `from_dms` -/
def dmsValue (x : DMS) : Rat :=
  let mult : Rat := if x.hemi = 'S' ∨ x.hemi = 'W' then -1 else 1
  mult * (x.deg + x.min / 60 + x.sec / 3600)

/-- `Coordinate.from_dms(lon, lat)` -/
def fromDms (lon lat : DMS) : Coord := Coord.new (dmsValue lon) (dmsValue lat)

/-! ## `to_qdms` -/

def digitChar (n : Nat) : Char := Char.ofNat (48 + n % 10)

/-- `str(n)` for a non-negative int -/
def natStr (n : Nat) : List Char :=
  if n < 10 then [digitChar n] else natStr (n / 10) ++ [digitChar (n % 10)]
decreasing_by omega

/-- `f'{x:.2f}'` for `x = h / 100` -/
def fmt2 (h : Nat) : List Char := natStr (h / 100) ++ ['.', digitChar (h / 10 % 10), digitChar (h % 10)]

/-- `zero_pad(num, length)`: `str(num).replace('.', '')`, then `'0' * (length - len(_)) + _` -/
def zeroPad (s : List Char) (len : Nat) : List Char :=
  let t := s.filter (· ≠ '.')
  List.replicate (len - t.length) '0' ++ t

/-- hundredths of a second after the second rounding `round_half_up(seconds, 2)` -/
def hundredths (sec : Rat) : Nat := ((roundHalfUp sec 2) * 100).floor.toNat

/-- one axis of `to_qdms`: hemisphere letter, degrees padded to `w`, minutes to 2, seconds·100 to 4 -/
def qdmsAxis (x : DMS) (w : Nat) : List Char :=
  x.hemi :: (zeroPad (natStr x.deg.floor.natAbs) w ++ zeroPad (natStr x.min.floor.natAbs) 2
    ++ zeroPad (fmt2 (hundredths x.sec)) 4)

/-- `Coordinate.to_qdms(reverse)` -/
def toQdms (c : Coord) (reverse : Bool := false) : List Char × List Char :=
  let d := toDms c
  let lon := qdmsAxis d.1 3
  let lat := qdmsAxis d.2 2
  if reverse then (lat, lon) else (lon, lat)

/-! ## `from_qdms` -/

def digitVal (c : Char) : Nat := c.toNat - 48

def digitsVal (l : List Char) : Nat := l.foldl (fun a c => 10 * a + digitVal c) 0

def allDigits (l : List Char) : Bool := l.all fun c => decide ('0' ≤ c ∧ c ≤ '9')

/-- `float(text)` for an unsigned digit string (the only form `to_qdms` writes); anything else is treated as
    `ValueError` (Python's `float` additionally accepts signs, blanks, exponents … – the model is only
    compared on digit strings and on strings Python rejects too) -/
def parseDigits (l : List Char) : Except String Rat :=
  if l ≠ [] ∧ allDigits l then .ok (digitsVal l : Nat) else .error "ERR:Value"

/-- `float(s[:2] + '.' + s[2:])` -/
def parseSeconds (s : List Char) : Except String Rat :=
  let i := s.take 2
  let f := s.drop 2
  if (i ++ f) ≠ [] ∧ allDigits i ∧ allDigits f then
    .ok ((digitsVal i : Nat) + (digitsVal f : Nat) / pow10 f.length)
  else .error "ERR:Value"

/-- `convert(q, d, m, s)` inside `from_qdms` -/
def qconvert (q : Char) (d m s : List Char) : Except String Rat := do
  let dv ← parseDigits d
  let mv ← parseDigits m
  let sv ← parseSeconds s
  pure ((dv + mv / 60 + sv / 3600) * (if q = 'W' ∨ q = 'S' then -1 else 1))

/-- the unrounded values `from_qdms` computes for the two axes -/
def qdmsValues (lon lat : List Char) : Except String (Rat × Rat) := do
  let q ← match lon.head? with
    | some q => pure q
    | none => throw "ERR:Index"
  let x ← qconvert q ((lon.drop 1).take 3) ((lon.drop 4).take 2) (lon.drop 6)
  let q2 ← match lat.head? with
    | some q => pure q
    | none => throw "ERR:Index"
  let y ← qconvert q2 ((lat.drop 1).take 2) ((lat.drop 3).take 2) (lat.drop 5)
  pure (x, y)

/-- `Coordinate.from_qdms(lon, lat)` -/
def fromQdms (lon lat : List Char) : Except String Coord := do
  let v ← qdmsValues lon lat
  pure (Coord.new (roundHalfUp v.1 6) (roundHalfUp v.2 6))

end GV.Dms
