import GeoVerif.Model.Plane
/-!
# Prelude of the source translator (`harness/py2lean.py`): `min` / `max` of an iterable, `zip(*rows)`

Floats are exact rationals.  `min(xs)` keeps the first minimal element (`item < best` replaces), which over a
total order is the fold of `GV.minR`; an empty iterable raises `ValueError`.  `zip(*rows)` for rows that are
tuples of one known width is the list of columns — and the empty list for no rows at all, so that
`a, b = zip(*[])` raises `ValueError` (unpacking).
-/
namespace GV.Py

/-- `min(xs)` -/
def minList : List Rat → Except String Rat
  | [] => .error "ERR:Value"
  | x :: xs => .ok (xs.foldl GV.minR x)

/-- `max(xs)` -/
def maxList : List Rat → Except String Rat
  | [] => .error "ERR:Value"
  | x :: xs => .ok (xs.foldl GV.maxR x)

/-- `zip(*rows)`, rows of width 2 -/
def zipStar2 {α : Type} : List (α × α) → List (List α)
  | [] => []
  | r :: rs => [(r :: rs).map (·.1), (r :: rs).map (·.2)]

/-- `zip(*rows)`, rows of width 4 -/
def zipStar4 {α : Type} : List (α × α × α × α) → List (List α)
  | [] => []
  | r :: rs => [(r :: rs).map (·.1), (r :: rs).map (·.2.1), (r :: rs).map (·.2.2.1), (r :: rs).map (·.2.2.2)]

attribute [simp] minList maxList zipStar2 zipStar4

end GV.Py
