import GeoVerif.Model.Pip
import GeoVerif.Model.Sweep
/-!
# Model of the pairwise spatial predicates `intersects_shape` / `contains_shape`
for polygons (with polygon holes), boxes, linestrings and points
(`structures.py`: `PolygonBase`, `GeoLineString`, `GeoPoint`; `utils/functions.py: is_sub_list`).

Dispatch order and fall-backs as coded.  `o_edges[0][0][0]` on a shape without a first edge raises
`IndexError`, hence `Except`.
-/
namespace GV

inductive Shape where
  | poly (outline : List Pt) (holes : List (List Pt))
  | box (nw se : Pt) (holes : List (List Pt))
  | line (vs : List Pt)
  | point (p : Pt)
deriving Repr

/-- `GeoBox.bounding_coords` -/
def boxRing (nw se : Pt) : List Pt := [nw, (nw.1, se.2), se, (se.1, nw.2), nw]

namespace Shape

def isPolygonLike : Shape → Bool
  | .poly .. => true | .box .. => true | _ => false

def holes : Shape → List (List Pt)
  | .poly _ hs => hs | .box _ _ hs => hs | _ => []

/-- `linear_rings()`: shell, then every hole reversed -/
def rings : Shape → List (List Pt)
  | .poly o hs => o :: hs.map List.reverse
  | .box nw se hs => boxRing nw se :: hs.map List.reverse
  | _ => []

/-- `zip(ring, ring[1:])` -/
def ringSegs (r : List Pt) : List Edge := r.zip r.tail

/-- `edges()` of a polygon-like shape, `[segments]` of a linestring -/
def edgeRings : Shape → List (List Edge)
  | .line vs => [ringSegs vs]
  | .point _ => []
  | s => s.rings.map ringSegs

/-- `[x for edge_ring in edges for x in edge_ring]` -/
def flatEdges (s : Shape) : List Edge := s.edgeRings.flatten

/-- `edges[0][0][0]` -/
def firstVertex (s : Shape) : Except String Pt :=
  match s.edgeRings with
  | (e :: _) :: _ => .ok e.1
  | _ => .error "ERR:Index"

/-- `contains_coordinate` -/
def containsCoord : Shape → Pt → Bool
  | .poly o hs, p => polyContains o hs p
  | .box nw se hs, p => boxContains nw se hs p
  | .line vs, p => vs.contains p
  | .point q, p => p == q

end Shape

/-- `is_sub_list(list_a, list_b)` -/
def isSubList (a b : List Pt) : Bool :=
  if a.length > b.length then false
  else (List.range (b.length - a.length + 1)).any fun i => ((b.drop i).take a.length) == a

/-- `x in self or y in shape`, evaluated left to right with Python's short circuit -/
def orFirst (s t : Shape) : Except String Bool := do
  let vt ← t.firstVertex
  if s.containsCoord vt then return true
  let vs ← s.firstVertex
  return t.containsCoord vs

/-- `intersects_shape` for a polygon-like or line receiver `s` -/
def relInter (s t : Shape) : Except String Bool :=
  match t with
  | .point q =>
    -- `self.contains_shape(shape) or <exact on-segment test over self's edges>`
    .ok (s.containsCoord q || s.flatEdges.any (onEdge q))
  | _ =>
    if doEdgesIntersect s.flatEdges t.flatEdges then .ok true else orFirst s t

/-- `shape.intersects_shape(other)` -/
def intersectsShape (s t : Shape) : Except String Bool :=
  match s, t with
  | .point p, .point q => .ok (p == q)
  | .point p, t => relInter t (.point p)
  | s, t => relInter s t

/-- `shape.contains_shape(other)` -/
def containsShape (s t : Shape) : Except String Bool :=
  match s, t with
  | .point p, .point q => .ok (q == p)
  | .point _, _ => .ok false
  | .line vs, .point q => .ok (vs.contains q)
  | .line vs, .line ws => .ok (isSubList ws vs)
  | .line _, _ => .ok false
  | s, .point q => .ok (s.containsCoord q)
  | s, t =>
    if doEdgesIntersect s.flatEdges t.flatEdges then .ok false
    -- `any(hole.bounding_coords()[0] in shape for hole in self.holes)`: the argument surrounds a hole
    -- (a hole is a constructed GeoPolygon, so its outline is never empty)
    else if t.isPolygonLike && s.holes.any (fun h => match h.head? with
        | some v => t.containsCoord v | none => false) then .ok false
    else do
      let vt ← t.firstVertex
      return s.containsCoord vt

end GV
