import GeoVerif.Model.Time
/-!
# Model of the space-time gates of `BaseShapeProtocol` / `BaseShape`

`geostructures/_base.py`: `contains` (218-227), `contains_time` (260-274), `intersects` (280-301),
`intersects_time` (321-335), `set_dt` (337-368), `BaseShape.__init__` (485-499), `__contains__` (77-78);
`utils/functions.py` `default_to_zulu`.

The spatial methods (`contains_coordinate`, `contains_shape`, `intersects_shape`) are abstract here:
a `World` supplies them together with the `dt` attribute of every shape.  Nothing is assumed about them.
-/
namespace GV.ST

/-! ### datetimes and the `dt` argument of the constructor / `set_dt` -/

/-- a Python `datetime`: `wall` = its calendar/clock digits as microseconds since 1970-01-01T00:00:00,
    `off` = `utcoffset()` in microseconds when the datetime is aware, `none` when it is naive -/
structure PyDt where
  wall : Int
  off : Option Int
deriving DecidableEq, Repr

/-- `default_to_zulu`: `if not dt.tzinfo: return dt.replace(tzinfo=timezone.utc)`; `return dt` -/
def defaultToZulu (d : PyDt) : PyDt :=
  match d.off with
  | none => { wall := d.wall, off := some 0 }
  | some _ => d

/-- the point on the UTC time line an aware datetime denotes (CPython compares, subtracts and hashes
    aware datetimes through `wall - utcoffset`); the harness abstraction maps datetimes to this number -/
def instant (d : PyDt) : Int := d.wall - d.off.getD 0

/-- what may be passed as `dt`: `None`, a `datetime`, a `TimeInterval` -/
inductive DtArg where
  | none
  | dt (d : PyDt)
  | ti (t : TI)

/-- `BaseShape.__init__`:
```
if isinstance(dt, datetime):
    dt = default_to_zulu(dt)
    self.dt = TimeInterval(dt, dt)
else:
    self.dt = dt
``` -/
def ctorDt : DtArg → Except String (Option TI)
  | .dt d =>
    let z := defaultToZulu d
    match TI.mk? (instant z) (instant z) with
    | .ok t => .ok (some t)
    | .error e => .error e
  | .none => .ok none
  | .ti t => .ok (some t)

/-- `set_dt`:
```
if dt is None or isinstance(dt, TimeInterval): shape.dt = dt; return shape
if isinstance(dt, datetime):
    dt = default_to_zulu(dt); shape.dt = TimeInterval(dt, dt); return shape
raise ValueError
```
(the final `raise` needs a value that is neither of the three; `DtArg` has none) -/
def setDt : DtArg → Except String (Option TI)
  | .none => .ok none
  | .ti t => .ok (some t)
  | .dt d =>
    let z := defaultToZulu d
    match TI.mk? (instant z) (instant z) with
    | .ok t => .ok (some t)
    | .error e => .error e

/-! ### the gates -/

/-- the argument of `contains_time` / `intersects_time`: a `datetime` (as its instant) or a `TimeInterval` -/
inductive TimeArg where
  | at (x : Int)
  | ti (t : TI)

/-- Python truthiness of `shape.dt`: `None` is falsy; `TimeInterval` defines neither `__bool__` nor
    `__len__`, so every interval (also a zero-length one) is truthy -/
def truthy : Option TI → Bool
  | none => false
  | some _ => true

/-- `contains_time`: `if self.dt is None: return False`; `return dt in self.dt` -/
def containsTime (selfDt : Option TI) (a : TimeArg) : Bool :=
  match selfDt with
  | none => false
  | some s =>
    match a with
    | .at x => s.containsDt x
    | .ti t => s.containsTI t

/-- `intersects_time`: `if self.dt is None: return False`; `return self.dt.intersects(dt)` -/
def intersectsTime (selfDt : Option TI) (a : TimeArg) : Bool :=
  match selfDt with
  | none => false
  | some s =>
    match a with
    | .at x => s.intersectsDt x
    | .ti t => s.intersects t

/-- what the gates see of the shapes: the `dt` attribute and the three spatial methods -/
structure World (σ κ : Type) where
  dt : σ → Option TI
  containsCoord : σ → κ → Bool
  containsShape : σ → σ → Bool
  intersectsShape : σ → σ → Bool

variable {σ κ : Type}

/-- `contains`:
```
if isinstance(shape, Coordinate): return self.contains_coordinate(shape)
if self.dt and shape.dt:
    if not self.contains_time(shape.dt): return False
return self.contains_shape(shape)
``` -/
def World.contains (W : World σ κ) (self : σ) : κ ⊕ σ → Bool
  | .inl c => W.containsCoord self c
  | .inr shape =>
    if truthy (W.dt self) && truthy (W.dt shape) then
      match W.dt shape with
      | some d => if !containsTime (W.dt self) (.ti d) then false else W.containsShape self shape
      | none => W.containsShape self shape   -- not reachable: `None` is falsy
    else W.containsShape self shape

/-- `__contains__`: `return self.contains(other)` -/
def World.dunderContains (W : World σ κ) (self : σ) (other : κ ⊕ σ) : Bool := W.contains self other

/-- `intersects`:
```
if self.dt and shape.dt:
    if not self.intersects_time(shape.dt): return False
return self.intersects_shape(shape, **kwargs)
``` -/
def World.intersects (W : World σ κ) (self shape : σ) : Bool :=
  if truthy (W.dt self) && truthy (W.dt shape) then
    match W.dt shape with
    | some d => if !intersectsTime (W.dt self) (.ti d) then false else W.intersectsShape self shape
    | none => W.intersectsShape self shape   -- not reachable: `None` is falsy
  else W.intersectsShape self shape

/-! ### the in-place time mutators (`buffer_dt`, `strip_dt`, `set_dt`) and what a shape remembers

The only time state of a shape is its `dt` attribute, and a `TimeInterval` is never modified after its
construction (every mutator installs a *new* interval).  Hence an operation history is a fold over
`Option TI`, and every later answer is a function of the current value alone. -/

/-- `buffer_dt`:
```
if not self.dt: raise ValueError(...)
dt = self.dt;  shp = self if inplace else self.copy()
shp.dt = TimeInterval(dt.start-buffer, dt.end+buffer)     # the constructor raises when end < start
``` -/
def bufferDt (dt : Option TI) (b : Int) : Except String (Option TI) :=
  if !truthy dt then .error "ERR:Value" else
  match dt with
  | some t =>
    match TI.mk? (t.start - b) (t.stop + b) with
    | .ok r => .ok (some r)
    | .error e => .error e
  | none => .error "ERR:Value"

/-- `strip_dt`: `shape.dt = None` -/
def stripDt (_ : Option TI) : Option TI := none

/-- one time mutator call -/
inductive Mut where
  | setDt (a : DtArg)
  | bufferDt (b : Int)
  | stripDt

/-- the `dt` of the mutated object (the receiver for `inplace=True`, the returned copy otherwise); an
    exception leaves everything as it was -/
def applyMut (dt : Option TI) : Mut → Except String (Option TI)
  | .setDt a => setDt a
  | .bufferDt b => bufferDt dt b
  | .stripDt => .ok (stripDt dt)

/-- a whole history; calls that raise are skipped (the object keeps its bounds) -/
def applyMuts (dt : Option TI) : List Mut → Option TI
  | [] => dt
  | m :: ms =>
    match applyMut dt m with
    | .ok d => applyMuts d ms
    | .error _ => applyMuts dt ms

end GV.ST
