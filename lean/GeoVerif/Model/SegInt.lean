import GeoVerif.Model.Plane
/-!
# Model of `_geometry.find_line_intersection` over exact rationals

The `round_half_up(·, 10)` calls are dropped (exact arithmetic; the correspondence runs on dyadic grids
where rounding is the identity) and `ensure_edge_bounds` is inert for |Δlon| ≤ 180.
-/
namespace GV

abbrev P2 := Rat × Rat
abbrev Seg := P2 × P2

def det2 (a b : Rat × Rat) : Rat := a.1 * b.2 - a.2 * b.1
/-- "Flip order such that lower x value is first" -/
def orderX (l : Seg) : Seg := if l.2.1 < l.1.1 then (l.2, l.1) else l
def lo (a b : Rat) : Rat := if a ≤ b then a else b
def hi (a b : Rat) : Rat := if a ≤ b then b else a
/-- `do_bounds_overlap` -/
def overlap (a1 a2 b1 b2 : Rat) : Bool := decide (hi a1 b1 ≤ lo a2 b2)

def segDiv (l1 l2 : Seg) : Rat :=
  det2 (l1.1.1 - l1.2.1, l2.1.1 - l2.2.1) (l1.1.2 - l1.2.2, l2.1.2 - l2.2.2)

def segX (l1 l2 : Seg) : Rat :=
  det2 (det2 l1.1 l1.2, det2 l2.1 l2.2) (l1.1.1 - l1.2.1, l2.1.1 - l2.2.1) / segDiv l1 l2
def segY (l1 l2 : Seg) : Rat :=
  det2 (det2 l1.1 l1.2, det2 l2.1 l2.2) (l1.1.2 - l1.2.2, l2.1.2 - l2.2.2) / segDiv l1 l2

def inBox (p : P2) (l : Seg) : Bool :=
  decide (lo l.1.1 l.2.1 ≤ p.1) && decide (p.1 ≤ hi l.1.1 l.2.1) &&
  decide (lo l.1.2 l.2.2 ≤ p.2) && decide (p.2 ≤ hi l.1.2 l.2.2)

/-- after the x-ordering step -/
def findCore (l1 l2 : Seg) : Option (P2 × Bool) :=
  if !(overlap (lo l1.1.1 l1.2.1) (hi l1.1.1 l1.2.1) (lo l2.1.1 l2.2.1) (hi l2.1.1 l2.2.1) &&
       overlap (lo l1.1.2 l1.2.2) (hi l1.1.2 l1.2.2) (lo l2.1.2 l2.2.2) (hi l2.1.2 l2.2.2)) then none
  else if segDiv l1 l2 = 0 then none
  else
    let p : P2 := (segX l1 l2, segY l1 l2)
    if inBox p l1 && inBox p l2 then
      some (p, decide (p = l1.1 ∨ p = l1.2 ∨ p = l2.1 ∨ p = l2.2))
    else none

/-- `find_line_intersection(line1, line2)`: the intersection point and the `is_boundary` flag -/
def findIntersection (l1 l2 : Seg) : Option (P2 × Bool) := findCore (orderX l1) (orderX l2)

end GV
