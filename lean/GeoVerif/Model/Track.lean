import GeoVerif.Model.Collection
/-!
# Model of `geostructures/collections.py` — `Track` (`collections.py:654-878`)

The constructor (`Coll.mkTrack`: reject time-less shapes, stable sort by start) and `__add__` live in
`Model/Collection.lean`.  Here: datetime slicing, `has_duplicate_timestamps`,
`convolve_duplicate_timestamps`, `filter_by_time`, `filter_impossible_journeys`, and the operation
histories the ordering invariant is stated over.

The haversine distance of two centroids is a *parameter* `dist`; speeds are compared in exact arithmetic
(the NaN branch of `filter_impossible_journeys` does not exist over ℚ).
-/
namespace GV.Coll.Track

/-- `__getitem__(slice(a, b))`, bounds already passed through `default_to_zulu`; `none` = omitted:
    `(_start is None or _start <= x.start) and (_stop is None or x.end < _stop)` -/
def sliceKeep (a b : Option Int) (x : Shape) : Bool :=
  (match a with | none => true | some s => decide (s ≤ x.startD)) &&
  (match b with | none => true | some e => decide (x.endD < e))

def getitem (c : Coll) (a b : Option Int) : Except String Coll :=
  mkTrack (c.shapes.filter (sliceKeep a b))

/-- the loop of `has_duplicate_timestamps` (`_ts` is a set of `TimeInterval | None`) -/
def hasDupLoop : List Shape → List (Option TI) → Bool
  | [], _ => false
  | p :: rest, seen => if seen.contains p.dt then true else hasDupLoop rest (p.dt :: seen)

/-- `has_duplicate_timestamps` -/
def hasDup (c : Coll) : Bool := hasDupLoop c.shapes []

/-- `_timestamp_grouping[point.dt].append(point)` on a `defaultdict(list)` (insertion-ordered) -/
def groupInsert (g : List (Option TI × List Shape)) (p : Shape) : List (Option TI × List Shape) :=
  match g with
  | [] => [(p.dt, [p])]
  | (k, ps) :: rest => if k == p.dt then (k, ps ++ [p]) :: rest else (k, ps) :: groupInsert rest p

def groupByDt (l : List Shape) : List (Option TI × List Shape) := l.foldl groupInsert []

/-- `{k: v for shape in ping_group for k, v in shape._properties.items()}` -/
def mergeProps (g : List Shape) : List (String × PVal) :=
  (g.flatMap (·.props)).foldl (fun d kv => assocSet d kv.1 kv.2) []

/-- `sum(xs) / len(xs)` (exact) -/
def avg (xs : List Rat) : Rat := xs.foldl (· + ·) 0 / (xs.length : Rat)

/-- the body of the `for _ts, ping_group in …items()` loop -/
def convolveGroup (kg : Option TI × List Shape) : Shape :=
  match kg.2 with
  | [x] => x
  | g => { id := -1, eqc := -1, dt := kg.1, props := mergeProps g,
           lon := avg (g.map (·.lon)), lat := avg (g.map (·.lat)) }

/-- `convolve_duplicate_timestamps` -/
def convolve (c : Coll) : Except String Coll :=
  if !hasDup c then mkTrack c.shapes                -- `self.copy()`
  else mkTrack ((groupByDt c.shapes).map convolveGroup)

/-- microseconds since midnight: `datetime.time()` of a UTC datetime -/
def tod (x : Int) : Int := x % 86400000000

/-- the condition of `filter_by_time` -/
def timeKeep (st et : Int) (x : Shape) : Bool :=
  (decide (st ≤ tod x.endD) && decide (tod x.endD ≤ et)) ||
  (decide (st ≤ tod x.startD) && decide (tod x.startD ≤ et)) ||
  (decide (tod x.startD ≤ st) && decide (st ≤ et) && decide (et ≤ tod x.endD))

/-- `filter_by_time` -/
def filterByTime (c : Coll) (st et : Int) : Except String Coll :=
  mkTrack (c.shapes.filter (timeKeep st et))

/-- `(times[j] - times[i]).total_seconds()` -/
def dtSeconds (a b : Shape) : Rat := ((b.startD - a.startD : Int) : Rat) / 1000000

/-- one iteration of the `for j in range(1, n)` loop of `filter_impossible_journeys`;
    state `(i, valid_geoshapes)` -/
def journeyStep (dist : Shape → Shape → Rat) (v : Rat) (shapes : List Shape)
    (st : Nat × List Shape) (j : Nat) : Nat × List Shape :=
  let si := shapes[st.1]!
  let sj := shapes[j]!
  let dx := dist si sj
  let dt := dtSeconds si sj
  if dt == 0 then st                                   -- `continue`
  else
    let speed : Rat := if dx == 0 then 0 else dx / dt
    if speed ≤ v then (j, st.2 ++ [sj])                -- append, `i = j`
    else st

/-- `filter_impossible_journeys(max_speed)`; `self.geoshapes[0]` raises IndexError on an empty track -/
def journeys (dist : Shape → Shape → Rat) (v : Rat) (c : Coll) : Except String Coll :=
  match c.shapes with
  | [] => .error "ERR:Index"
  | first :: _ =>
    let fin := (List.range' 1 (c.shapes.length - 1)).foldl (journeyStep dist v c.shapes) (0, [first])
    mkTrack fin.2

/-! ### views of the member list, pairwise differences, `copy` (`collections.py:720-798`)

Tied to the code by the source tie (`Props/C17Src.lean`) and by the `!VIEWS` flag of the harness. -/

/-- `first`: `ValueError` on an empty track, else `self.geoshapes[0]` -/
def first (c : Coll) : Except String Shape :=
  match c.shapes with
  | [] => .error "ERR:Value"
  | x :: _ => .ok x

/-- `last`: `self.geoshapes[-1]` -/
def last (c : Coll) : Except String Shape :=
  match c.shapes.getLast? with
  | none => .error "ERR:Value"
  | some x => .ok x

/-- `start`: the start of the first shape -/
def startT (c : Coll) : Except String Int :=
  match first c with
  | .error e => .error e
  | .ok x => .ok x.startD

/-- `end`: the end of the *last* shape (not the latest end) -/
def endT (c : Coll) : Except String Int :=
  match last c with
  | .error e => .error e
  | .ok x => .ok x.endD

/-- consecutive members: `zip(self.geoshapes, self.geoshapes[1:])` -/
def consecutive (c : Coll) : List (Shape × Shape) := c.shapes.zip c.shapes.tail

/-- `time_start_diffs` (microseconds): `ValueError` below two shapes -/
def timeStartDiffs (c : Coll) : Except String (List Int) :=
  if c.shapes.length < 2 then .error "ERR:Value"
  else .ok ((consecutive c).map fun p => p.2.startD - p.1.startD)

/-- `centroid_distances` -/
def centroidDistances (dist : Shape → Shape → Rat) (c : Coll) : Except String (List Rat) :=
  if c.shapes.length < 2 then .error "ERR:Value"
  else .ok ((consecutive c).map fun p => dist p.1 p.2)

/-- `self.geoshapes == other.geoshapes`: same length and pairwise `x is y or x == y` -/
def sameShapes : List Shape → List Shape → Bool
  | [], [] => true
  | x :: xs, y :: ys => sameOrEq x y && sameShapes xs ys
  | _, _ => false

/-- `__eq__`: the other operand is a Track with an equal member list -/
def eq (c o : Coll) : Bool := o.tag == .track && sameShapes c.shapes o.shapes

/-- `copy`: `Track(self.geoshapes.copy())` -/
def copy (c : Coll) : Except String Coll := mkTrack c.shapes

/-! ### operation histories -/

/-- one public operation on a track -/
inductive Op where
  /-- `track + Track(other)` -/
  | add (other : List Shape)
  | filterDt (arg : DtArg)
  | filterIsect (xq qx : Shape → Bool)
  | filterContains (xq qx : Shape → Bool)
  | filterContainedBy (xq qx : Shape → Bool)
  | filterProp (key : String) (f : PVal → Bool)
  | slice (a b : Option Int)
  | convolve
  | journeys (dist : Shape → Shape → Rat) (v : Rat)
  | filterTime (st et : Int)

/-- result of one operation -/
def step (c : Coll) : Op → Except String Coll
  | .add other => match mkTrack other with
      | .error e => .error e
      | .ok o => Coll.add c o
  | .filterDt arg => c.filterByDt arg
  | .filterIsect xq qx => c.filterByIntersection xq qx
  | .filterContains xq qx => c.filterContains xq qx
  | .filterContainedBy xq qx => c.filterContainedBy xq qx
  | .filterProp key f => c.filterByProperty key f
  | .slice a b => getitem c a b
  | .convolve => Track.convolve c
  | .journeys dist v => Track.journeys dist v c
  | .filterTime st et => filterByTime c st et

/-- a history: an operation that raises leaves the current track in place -/
def run (c : Coll) : List Op → Coll
  | [] => c
  | op :: ops => match step c op with
    | .ok c' => run c' ops
    | .error _ => run c ops

end GV.Coll.Track
