import GeoVerif.Model.Plane
/-!
# Model of point membership: `GeoPolygon._point_in_polygon`, `GeoPolygon.contains_coordinate`,
`GeoBox.contains_coordinate` (`structures.py`), exact rationals.

`pointInRing` follows the loop of `_point_in_polygon` edge by edge: exact on-edge test first (early
return), then the half-open crossing rule toggling `inside`.
-/
namespace GV

/-- `cross = (x2 - x1) * (y - y1) - (y2 - y1) * (x - x1)` for the edge `e` and the query `p` -/
def pcross (e : Edge) (p : Pt) : Rat :=
  (e.2.1 - e.1.1) * (p.2 - e.1.2) - (e.2.2 - e.1.2) * (p.1 - e.1.1)

/-- `cross == 0 and min(x1,x2) <= x <= max(x1,x2) and min(y1,y2) <= y <= max(y1,y2)` -/
def onEdge (p : Pt) (e : Edge) : Bool :=
  decide (pcross e p = 0) &&
  decide (minR e.1.1 e.2.1 ≤ p.1) && decide (p.1 ≤ maxR e.1.1 e.2.1) &&
  decide (minR e.1.2 e.2.2 ≤ p.2) && decide (p.2 ≤ maxR e.1.2 e.2.2)

/-- `(y1 > y) != (y2 > y) and ((cross > 0) == (y2 > y1))` -/
def crossesRay (p : Pt) (e : Edge) : Bool :=
  (decide (e.1.2 > p.2) != decide (e.2.2 > p.2)) &&
  (decide (pcross e p > 0) == decide (e.2.2 > e.1.2))

/-- the `for start, end in zip(...)` loop with its early `return include_boundary` -/
def pipGo (p : Pt) (inclB : Bool) : List Edge → Bool → Bool
  | [], ins => ins
  | e :: es, ins =>
    if onEdge p e then inclB
    else pipGo p inclB es (if crossesRay p e then !ins else ins)

/-- `zip(polygon, [*polygon[1:], polygon[0]])` -/
def ringEdges : List Pt → List Edge
  | [] => []
  | v :: vs => (v :: vs).zip (vs ++ [v])

/-- `GeoPolygon._point_in_polygon(coord, polygon, include_boundary)` -/
def pointInRing (p : Pt) (ring : List Pt) (inclB : Bool := false) : Bool :=
  pipGo p inclB (ringEdges ring) false

/-- the bounding-box prefilter of `contains_coordinate` (`self.bounds` of the outline) -/
def inBBox (p : Pt) (ring : List Pt) : Bool :=
  match bboxOf ring with
  | none => false
  | some (x0, y0, x1, y1) => decide (x0 ≤ p.1) && decide (p.1 ≤ x1) && decide (y0 ≤ p.2) && decide (p.2 ≤ y1)

/-- `GeoPolygon.contains_coordinate` of a hole-free polygon (what `coord in hole` evaluates for a polygon hole) -/
def ringContains (ring : List Pt) (p : Pt) : Bool := inBBox p ring && pointInRing p ring

/-- `GeoPolygon.contains_coordinate`: prefilter, outline test, then `for hole in holes: if coord in hole: return False` -/
def polyContains (outline : List Pt) (holes : List (List Pt)) (p : Pt) : Bool :=
  ringContains outline p && !(holes.any fun h => ringContains h p)

/-- `GeoBox.contains_coordinate`: inclusive corner comparison, then holes -/
def boxContains (nw se : Pt) (holes : List (List Pt)) (p : Pt) : Bool :=
  (decide (nw.1 ≤ p.1) && decide (p.1 ≤ se.1) && decide (se.2 ≤ p.2) && decide (p.2 ≤ nw.2)) &&
    !(holes.any fun h => ringContains h p)

end GV
