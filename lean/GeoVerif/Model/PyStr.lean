import GeoVerif.Model.Dms
/-!
# Prelude of the source translator for text and float built-ins (`harness/py2lean.py`, unit `SrcDms`)

A Python `str` is the list of its characters (`List Char`); a `float` is an exact rational (DESIGN §3).  These are the
built-ins the translated text of `coordinates.py` (`to_dms`, `from_dms`, `to_qdms`, `from_qdms`) calls and that are
not core Lean functions.  What is *runtime* (`float(text)`, `f'{x:.2f}'`) is read the way `Model/Dms.lean` reads it.
-/
namespace GV.PyStr
open GV GV.Dms

/-- `divmod(a, b)` of floats, `b > 0`: the quotient is the floor (as a float), the remainder what is left -/
def divmodR (a b : Rat) : Rat × Rat :=
  let q : Int := (a / b).floor
  ((q : Rat), a - b * q)

/-- `int(x)` of a float: truncation towards zero -/
def truncR (x : Rat) : Int := if x ≥ 0 then x.floor else -((-x).floor)

/-- `abs(n)` of an int -/
def absI (n : Int) : Int := (n.natAbs : Int)

/-- `str(n)` of an int -/
def strInt (n : Int) : List Char := if n < 0 then '-' :: natStr n.natAbs else natStr n.natAbs

/-- `s * n`: `n` copies of `s` (none for `n ≤ 0`) -/
def rep (s : List Char) (n : Int) : List Char := (List.replicate n.toNat s).flatten

/-- `s.replace(c, new)` for a one-character `c` -/
def replace1 (s : List Char) (c : Char) (new : List Char) : List Char :=
  s.flatMap fun x => if x = c then new else [x]

/-- `sep.join(parts)` -/
def join (sep : List Char) (parts : List (List Char)) : List Char := sep.intercalate parts

/-- `s[i]`: the one-character string at position `i`, `IndexError` past the end -/
def charAt (s : List Char) (i : Nat) : Except String (List Char) :=
  match s.drop i with
  | [] => .error "ERR:Index"
  | c :: _ => .ok [c]

/-- `float(text)` (runtime; read as `Model/Dms.lean` reads it): unsigned digits with at most one `.` and at least one
    digit; everything else is `ValueError` (Python additionally accepts signs, blanks, exponents, `_`, `inf`/`nan`).
    Without a `.` this is the model's `parseDigits`, on `i ++ '.' ++ f` the model's `parseSeconds` formula. -/
def parseFloat (l : List Char) : Except String Rat :=
  let i := l.takeWhile (· ≠ '.')
  match l.dropWhile (· ≠ '.') with
  | [] => parseDigits l
  | _ :: f =>
    if (i ++ f) ≠ [] ∧ allDigits i ∧ allDigits f then
      .ok ((digitsVal i : Nat) + (digitsVal f : Nat) / pow10 f.length)
    else .error "ERR:Value"

/-- `f'{x:.2f}'` (runtime; read as `Model/Dms.lean` reads it: exact for a non-negative multiple of 1/100) -/
def fmtF2 (x : Rat) : List Char := fmt2 (x * 100).floor.toNat

end GV.PyStr
