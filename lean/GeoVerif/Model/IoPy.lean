import GeoVerif.Model.Io
/-!
# Reading of the Python values the I/O adapters handle (C20's source tie, unit `SrcIo`)

The adapter code of `collections.py` is dynamically typed: a shapefile record field / a data-frame cell may be a string, a
number, a datetime, `None`, `NaT` …  The generated file `Gen/SrcIo.lean` therefore evaluates the translated source over
the dynamic values `V` below, with Python's own rules for truthiness, `==`, `isinstance`, `or` / `and`.  What is *assumed*
here (this file is the trusted reading of the builtins and of two pinned constructors, it is not translated):

* `datetime.isoformat` / `datetime.fromisoformat` are the pair `PVal.dt t ↔ PVal.iso t` of `Model/Io.lean`; `fromisoformat` of
  any other string is a `ValueError`, of a non-string a `TypeError`;
* `TimeInterval(a, b)` (pinned `TimeInterval.__init__`): two datetimes, `ValueError` when `b < a`; anything else fails in
  the comparison (`TypeError`);
* `BaseShape.__init__` (pinned): a datetime given as `dt` becomes the instant interval (`dtOfArg`);
* `PVal.null` is the one null of `Model/Io.lean`: in a shapefile record it is `None` (falsy), in a data-frame cell it is
  `NaN` / `NaT` (truthy objects; a Python `None` cell is an absent value `V.none`): the truthiness of `null` is the
  parameter `nt` of `V.truthy`, fixed per channel by the unit (`false` for pyshp, `true` for pandas);
* a float token is truthy (the model has no float zero).
-/
namespace GV.Io.Py
open GV.Io

/-- a Python value as the adapters see it -/
inductive V
  | none                       -- `None`
  | p (v : PVal)               -- a property / field / cell value
  | ti (a b : Int)             -- a `TimeInterval`
deriving DecidableEq, Repr

/-- `bool(x)`; `nt` = truthiness of the channel's null -/
def V.truthy (nt : Bool) : V → Bool
  | .none => false
  | .p (.str s) => !s.isEmpty
  | .p (.int i) => i != 0
  | .p (.bool b) => b
  | .p .null => nt
  | .p (.float _) => true
  | .p (.iso _) => true
  | .p (.dt _) => true
  | .ti _ _ => true

/-- `d.get(k)` -/
def V.get (d : Dict PVal) (k : String) : V :=
  match dictGet d k with
  | Option.some v => .p v
  | Option.none => .none

/-- classes as `isinstance` sees them: the tag of the value (`datetime` and `date`: `PTag.dt`) -/
def V.isInst (tags : List PTag) : V → Bool
  | .p v => tags.contains v.tag
  | _ => false

/-- `pd.isnull(x)` -/
def V.isNull : V → Bool
  | .none => true
  | .p .null => true
  | _ => false

/-- `x.isoformat()` -/
def V.isoformat : V → Except String V
  | .p (.dt t) => .ok (.p (.iso t))
  | _ => .error "ERR:Attr"

/-- `datetime.fromisoformat(x)` -/
def V.fromiso : V → Except String V
  | .p (.iso t) => .ok (.p (.dt t))
  | .p (.str _) => .error "ERR:Value"
  | _ => .error "ERR:Type"

/-- `TimeInterval(a, b)` (pinned) -/
def V.mkTI : V → V → Except String V
  | .p (.dt a), .p (.dt b) => if b < a then .error "ERR:Value" else .ok (.ti a b)
  | _, _ => .error "ERR:Type"

/-- what a shape constructor stores for its `dt` argument (pinned `BaseShape.__init__`) -/
def dtOfArg : V → Except String Dt
  | .none => .ok none
  | .p (.dt t) => .ok (some (t, t))
  | .ti a b => .ok (some (a, b))
  | _ => .error "ERR:Type"

/-! ## the writer side of `to_shapefile` (channel reading of the pyshp `Writer`) -/

/-- the classes `to_shapefile` sorts the shapes by -/
inductive Cls | GeoPoint | MultiGeoPoint | LineLikeMixin | PolygonLikeMixin
deriving DecidableEq, Repr

/-- `isinstance(shape, C)`: by the stored geometry -/
def shapeIsA (c : Cls) (s : Shape) : Bool :=
  match c, s.geom with
  | .GeoPoint, .point _ => true
  | .MultiGeoPoint, .mpoint _ => true
  | .LineLikeMixin, .line _ => true
  | .LineLikeMixin, .mline _ => true
  | .PolygonLikeMixin, .poly _ _ => true
  | .PolygonLikeMixin, .mpoly _ => true
  | _, _ => false

/-- `issubclass(t, c)` on the types of property values: reflexive, and `bool` is an `int` -/
def PTag.isSub (t c : PTag) : Bool := t == c || (t == .bool && c == .int)

/-- truthiness of `include_properties: Optional[List[str]]` -/
def inclTruthy : Option (List String) → Bool
  | some (_ :: _) => true
  | _ => false

/-- `k in include_properties` (only evaluated when it is a non-empty list) -/
def inclContains : Option (List String) → String → Bool
  | some l, k => l.contains k
  | Option.none, _ => false

/-- a Python value as a dbf field value -/
def V.toP : V → PVal
  | .p v => v
  | _ => .null

/-- a pyshp `Writer` as far as the channel contract sees it: what has been declared / written, and the record
    waiting for its shape -/
structure WriterS where
  file : ShpFileW
  pending : List PVal

/-- `shapefile.Writer(os.path.join(tempdir, name))` -/
def WriterS.new (name : String) : WriterS := ⟨⟨name, [], []⟩, []⟩

/-- `writer.field(k, 'L' | 'N'[, decimal=n] | 'C')` -/
def WriterS.field (w : WriterS) (k : String) (t : FType) : WriterS :=
  { w with file := { w.file with fields := w.file.fields ++ [(k, t)] } }

/-- `writer.record(*vals)` -/
def WriterS.record (w : WriterS) (vals : List PVal) : WriterS := { w with pending := vals }

/-- the writer method a shape's `to_pyshp(writer)` calls -/
def WriterS.shape (w : WriterS) (c : ShpCall) : WriterS :=
  { w with file := { w.file with rows := w.file.rows ++ [(w.pending, c)] } }

/-! ## the reader side of `from_shapefile` (channel reading of the zip archive and the pyshp `Reader`) -/

/-- a member of the zip archive: whether its name ends in `.shp`, and what `shapefile.Reader(path / name)` hands back
    (`zip(reader.shapes(), reader.records())` = `reader.rows`; only read for `.shp` members) -/
structure Member where
  isShp : Bool
  reader : ShpFileR

/-- `conv_map[t]` on a dict display of classes (`KeyError`) -/
def classGet (m : List (String × Kind)) (k : String) : Except String Kind :=
  match dictGet m k with
  | some c => .ok c
  | Option.none => .error "ERR:Key"

/-- `cls.from_pyshp(shape, dt=dt, properties=props)`: the per-class adapter (`fromPyshp`, not translated), then the
    shape constructor (pinned `BaseShape.__init__`) -/
def fromPyshpV (k : Kind) (s : ShpShapeR) (dt : V) (props : Dict PVal) : Except String Shape := do
  let g ← fromPyshp k s
  let d ← dtOfArg dt
  pure { geom := g, dt := d, props := props }

/-! ## GeoPandas -/

/-- a `set` of strings: its iteration order is modelled as first-insertion order (as `keyUnion` of `Model/Io.lean`) -/
def strSet (xs : List String) : List String := (dictOf (xs.map fun k => (k, ()))).map (·.1)

/-- `cls.from_wkt(text, dt=dt, properties=props)`: the per-class adapter (`fromGI`, not translated), then the shape
    constructor (pinned `BaseShape.__init__`) -/
def fromWktV (k : Kind) (g : GI) (dt : V) (props : Dict PVal) : Except String Shape := do
  let geom ← fromGI k g
  let d ← dtOfArg dt
  pure { geom := geom, dt := d, props := props }

/-! ## fastkml time objects as `KTime` -/

/-- `isinstance(x, TimeStamp)` / `isinstance(x, TimeSpan)` -/
def ktIsStamp : KTime → Bool | .stamp _ => true | _ => false
def ktIsSpan : KTime → Bool | .span _ _ => true | _ => false

/-- `x.timestamp.dt`, `x.begin.dt`, `x.end.dt` (`AttributeError` on an object of another class) -/
def ktTimestampDt : KTime → Except String Int | .stamp t => .ok t | _ => .error "ERR:Attr"
def ktBeginDt : KTime → Except String Int | .span b _ => .ok b | _ => .error "ERR:Attr"
def ktEndDt : KTime → Except String Int | .span _ e => .ok e | _ => .error "ERR:Attr"

/-- `TimeInterval(a, b)` on two instants (pinned `TimeInterval.__init__`) -/
def tiOfInts (a b : Int) : Except String (Int × Int) := if b < a then .error "ERR:Value" else .ok (a, b)

/-- `include_properties or <keys>` -/
def inclOr (incl : Option (List String)) (other : List String) : List String :=
  if inclTruthy incl then incl.getD [] else other

end GV.Io.Py
