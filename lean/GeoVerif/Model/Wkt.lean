import GeoVerif.Model.Plane
import GeoVerif.Model.Coord
/-!
# Model of the WKT writers and readers

* `_base.py`           `_linear_ring_to_wkt`, `_parse_wkt_linear_ring`
* `coordinates.py`     `Coordinate.to_str`, `Coordinate.from_wkt`, `Coordinate.__init__` (via `GV.normalize`)
* `structures.py`      `PolygonBase.linear_rings/to_wkt`, `GeoPolygon.__init__/from_wkt`, `GeoRing.linear_rings/
                       to_polygon/to_wkt`, `GeoLineString.to_wkt/from_wkt`, `GeoPoint.to_wkt/from_wkt`
* `multistructures.py` `to_wkt/from_wkt` of the three multi-shapes
* `parsers.py`         `parse_wkt`

Numbers.  A coordinate number is a Python float; the model keeps it abstract as a type `F` with
`val : F → Rat` (its exact value: the orientation test and the range wrapping compute with it),
`shw : F → String` (`str(float)`), `rd : String → Option F` (`float(str)`, `none` = `ValueError`) and
`ofRat` (the float a range wrap computes).  `F` is not `Rat` itself because `-0.0` and `0.0` are two floats
of value 0 that print differently (`GeoCircle` at longitude 0 emits both).  The driver instantiates `F`
with (token, value) pairs taken from what the implementation printed.

State of the code modelled: `/repo` with the C13 repairs F13a–F13j applied (unambiguous patterns, one
dimension per text that agrees with the Z/M tag, closed polygon rings, two-point linestrings: the last three
are *assembly* checks of `_parse_wkt_linear_ring` and are part of `parseRing` below).

The WKT regular expressions are **not** modelled.  What a text denotes is decided by `lenientParse`, a
hand-written reader of a deliberately lenient grammar; `readAs`/`parseWkt` then apply the *assembly* logic
of the `from_wkt` methods to the parsed value.  The correspondence that is checked on corrupted text is
"implementation result ∈ {ValueError, `readAs kind text`}".
-/
namespace GV.Wkt

structure NumIO (F : Type) where
  val : F → Rat
  ofRat : Rat → F
  shw : F → String
  rd : String → Option F

/-- `Coordinate` -/
structure Coord (F : Type) where
  lon : F
  lat : F
  z : Option F
  m : Option F

/-- a polygon-like shape as the WKT code sees it: `bounding_coords()` and the holes' `bounding_coords()` -/
structure Poly (F : Type) where
  outline : List (Coord F)
  holes : List (List (Coord F))

/-- the six shape types that have a WKT type of their own -/
inductive Geo (F : Type) where
  | point (c : Coord F)
  | linestring (vs : List (Coord F))
  | polygon (p : Poly F)
  | multipoint (cs : List (Coord F))
  | multilinestring (ls : List (List (Coord F)))
  | multipolygon (ps : List (Poly F))

inductive Kind where
  | point | linestring | polygon | multipoint | multilinestring | multipolygon
deriving DecidableEq, Repr

/-- a coordinate in text: 2–4 numeric tokens -/
abbrev CoordT := List String

inductive Body where
  | point (c : CoordT)
  | linestring (cs : List CoordT)
  | polygon (rings : List (List CoordT))
  | multipoint (cs : List CoordT)
  | multilinestring (ls : List (List CoordT))
  | multipolygon (ps : List (List (List CoordT)))
deriving DecidableEq, Repr

/-- a WKT value: the Z/M tag (empty, `Z`, `M`, `ZM`, `MZ`; upper case) and the geometry -/
structure Wkt where
  tag : List Char
  body : Body
deriving DecidableEq, Repr

def Body.kind : Body → Kind
  | .point _ => .point
  | .linestring _ => .linestring
  | .polygon _ => .polygon
  | .multipoint _ => .multipoint
  | .multilinestring _ => .multilinestring
  | .multipolygon _ => .multipolygon

def Geo.kind {F : Type} : Geo F → Kind
  | .point _ => .point
  | .linestring _ => .linestring
  | .polygon _ => .polygon
  | .multipoint _ => .multipoint
  | .multilinestring _ => .multilinestring
  | .multipolygon _ => .multipolygon

section Generic
variable {F : Type} (io : NumIO F)

/-! ## `Coordinate` -/

def optEqv : Option F → Option F → Bool
  | none, none => true
  | some a, some b => io.val a == io.val b
  | _, _ => false

/-- `Coordinate.__eq__`: latitude, longitude and z (m is ignored) -/
def Coord.eqv (a b : Coord F) : Bool :=
  io.val a.lat == io.val b.lat && io.val a.lon == io.val b.lon && optEqv io a.z b.z

def Coord.pt (c : Coord F) : Pt := (io.val c.lon, io.val c.lat)

/-- `Coordinate(lon, lat, z, m)`: the range wrapping of `Coordinate.__init__`; a number that is already in
    range is stored as it is (the float itself, `-0.0` included) -/
def mkCoord (lon lat : F) (z m : Option F) : Coord F :=
  let r := GV.normalize true (io.val lon) (io.val lat)
  if -90 ≤ io.val lat ∧ io.val lat ≤ 90 then
    { lon := if r.1 = io.val lon then lon else io.ofRat r.1, lat := lat, z := z, m := m }
  else
    -- a latitude beyond a pole is reflected and the longitude moved by 180 (float arithmetic: `ofRat`)
    { lon := io.ofRat r.1, lat := io.ofRat r.2, z := z, m := m }

/-- `Coordinate.to_str()`: `[str(lon), str(lat)] + [str(z)] if z is not None + [str(m)] if m is not None` -/
def Coord.toks (c : Coord F) : CoordT :=
  [io.shw c.lon, io.shw c.lat] ++ (c.z.map io.shw).toList ++ (c.m.map io.shw).toList

/-- `dict(zip(list(zm_order.lower()), map(float, parts[2:])))` then `.get('z')`, `.get('m')` -/
def zmAssign (order : List Char) (extras : List F) : Option F × Option F :=
  (order.zip extras).foldl
    (fun (acc : Option F × Option F) kv =>
      if kv.1 = 'z' then (some kv.2, acc.2) else if kv.1 = 'm' then (acc.1, some kv.2) else acc)
    (none, none)

def rdAll : List String → Option (List F)
  | [] => some []
  | t :: ts => match io.rd t, rdAll ts with
    | some x, some xs => some (x :: xs)
    | _, _ => none

/-- `Coordinate.from_wkt(text, zm_order)` on the already split text: fewer than two parts → `ValueError`;
    only the extras that `zip` pairs with a letter of the order are converted -/
def coordFromToks (order : List Char) : CoordT → Except String (Coord F)
  | lonT :: latT :: extras =>
    match rdAll io (extras.take order.length), io.rd lonT, io.rd latT with
    | some ex, some lon, some lat =>
      let zm := zmAssign order ex
      .ok (mkCoord io lon lat zm.1 zm.2)
    | _, _, _ => .error "ERR:Value"
  | _ => .error "ERR:Value"

/-- a list comprehension whose body may raise: the first exception wins -/
def mapE {α β : Type} (f : α → Except String β) : List α → Except String (List β)
  | [] => .ok []
  | x :: xs =>
    match f x with
    | .error e => .error e
    | .ok y =>
      match mapE f xs with
      | .error e => .error e
      | .ok ys => .ok (y :: ys)

/-! ## `GeoPolygon.__init__` -/

/-- `if not outline[0] == outline[-1]: outline = [*outline, outline[0]]` (`Coordinate.__eq__`) -/
def closeRing (o : List (Coord F)) : List (Coord F) :=
  match o.head?, o.getLast? with
  | some a, some b => if Coord.eqv io a b then o else o ++ [a]
  | _, _ => o

/-- close, then reverse unless counter-clockwise (clockwise for `_is_hole`) -/
def mkOutline (o : List (Coord F)) (isHole : Bool := false) : List (Coord F) :=
  let c := closeRing io o
  if !(xor (GV.isCCW (c.map (Coord.pt io))) isHole) then c.reverse else c

/-- `GeoPolygon(outline, holes=…)`: `outline[0]` of an empty list is an `IndexError` -/
def mkPoly (outline : List (Coord F)) (holes : List (List (Coord F))) : Except String (Poly F) :=
  if outline.isEmpty then .error "ERR:Index" else .ok ⟨mkOutline io outline, holes⟩

/-! ## writers -/

/-- `PolygonBase.linear_rings()`: the shell, then every hole **reversed** -/
def Poly.linearRings (p : Poly F) : List (List (Coord F)) :=
  p.outline :: p.holes.map List.reverse

def ringToks (r : List (Coord F)) : List CoordT := r.map (Coord.toks io)

/-- `to_wkt` of the six simple types (no Z/M tag is ever written) -/
def toWkt : Geo F → Wkt
  | .point c => ⟨[], .point (c.toks io)⟩
  | .linestring vs => ⟨[], .linestring (ringToks io vs)⟩
  | .polygon p => ⟨[], .polygon (p.linearRings.map (ringToks io))⟩
  | .multipoint cs => ⟨[], .multipoint (ringToks io cs)⟩
  | .multilinestring ls => ⟨[], .multilinestring (ls.map (ringToks io))⟩
  | .multipolygon ps => ⟨[], .multipolygon (ps.map fun p => p.linearRings.map (ringToks io))⟩

/-- `PolygonBase.to_wkt` of a box / circle / ellipse / wedge: `bounding_coords()` and the reversed holes,
    *without* passing through the `GeoPolygon` constructor -/
def toWktBounding (bc : List (Coord F)) (holes : List (List (Coord F))) : Wkt :=
  ⟨[], .polygon ((Poly.mk bc holes).linearRings.map (ringToks io))⟩

/-- `to_polygon()` of a box / circle / ellipse: `GeoPolygon(self.bounding_coords(), holes=self.holes)` -/
def toPolygonBounding (bc : List (Coord F)) (holes : List (List (Coord F))) : Poly F :=
  ⟨mkOutline io bc, holes⟩

/-- `GeoRing.to_wkt` override for a full ring: outer circle, inner circle (as drawn, not reversed), then the
    reversed holes -/
def toWktRingFull (outer inner : List (Coord F)) (holes : List (List (Coord F))) : Wkt :=
  ⟨[], .polygon ((outer :: inner :: holes.map List.reverse).map (ringToks io))⟩

/-- `GeoRing.linear_rings` for a full ring: both circles get their first vertex appended, the inner one is
    reversed -/
def ringFullLinearRings (outer inner : List (Coord F)) (holes : List (List (Coord F))) :
    List (List (Coord F)) :=
  (outer ++ outer.head?.toList) :: (inner ++ inner.head?.toList).reverse :: holes.map List.reverse

/-- `GeoRing.to_polygon`: `GeoPolygon(rings[0], holes=[GeoPolygon(x) for x in rings[1:]])` -/
def ringToPolygon (rings : List (List (Coord F))) : Poly F :=
  ⟨mkOutline io (rings.headD []), rings.tail.map (mkOutline io ·)⟩

/-! ## readers: the assembly logic of `from_wkt` -/

/-- the first coordinate of the text (`_RE_COORD.search(wkt_str)`) -/
def Body.firstCoord : Body → Option CoordT
  | .point c => some c
  | .linestring cs => cs.head?
  | .polygon rs => rs.head?.bind List.head?
  | .multipoint cs => cs.head?
  | .multilinestring ls => ls.head?.bind List.head?
  | .multipolygon ps => (ps.head?.bind List.head?).bind List.head?

/-- how many numbers the first coordinate of the text has -/
def Body.dims (b : Body) : Nat :=
  match b.firstCoord with
  | some c => c.length
  | none => 2

/-- the letters Z/M values are given to: the tag in lower case, `'zm'` when the text has no tag -/
def zmOrder (tag : List Char) : List Char :=
  if tag.isEmpty then ['z', 'm'] else tag.map Char.toLower

/-- `_parse_wkt_linear_ring(wkt_str, ring, min_points, closed)` -/
def parseRing (w : Wkt) (ring : List CoordT) (minPts : Nat := 1) (closed : Bool := false) :
    Except String (List (Coord F)) :=
  let dims := w.body.dims
  if (!w.tag.isEmpty && dims != 2 + w.tag.length) || ring.any (fun c => c.length != dims) then
    .error "ERR:Value"
  else
    match mapE (coordFromToks io (zmOrder w.tag)) ring with
    | .error e => .error e
    | .ok cs =>
      if cs.length < minPts then .error "ERR:Value"
      else if closed then
        match cs.head?, cs.getLast? with
        | some a, some b => if Coord.eqv io a b then .ok cs else .error "ERR:Value"
        | _, _ => .error "ERR:Index"
      else .ok cs

/-- one polygon of `GeoPolygon.from_wkt` / `MultiGeoPolygon.from_wkt`: the **first** ring is the shell,
    every further ring is wrapped into a `GeoPolygon` of its own (so it comes out counter-clockwise) -/
def polyFromRings (w : Wkt) : List (List CoordT) → Except String (Poly F)
  | [] => .error "ERR:Index"
  | shell :: holes =>
    match parseRing io w shell 1 true, mapE (fun h => parseRing io w h 1 true) holes with
    | .ok s, .ok hs =>
      if hs.any List.isEmpty then .error "ERR:Index"
      else mkPoly io s (hs.map (mkOutline io ·))
    | .error e, _ => .error e
    | _, .error e => .error e

/-- `<Type>.from_wkt` after the text was recognised as that type's WKT -/
def fromWkt (w : Wkt) : Except String (Geo F) :=
  match w.body with
  | .point c =>
    match parseRing io w [c] with
    | .ok (p :: _) => .ok (.point p)
    | .ok [] => .error "ERR:Index"
    | .error e => .error e
  | .linestring cs => (parseRing io w cs 2).map .linestring
  | .polygon rs => (polyFromRings io w rs).map .polygon
  | .multipoint cs => (parseRing io w cs).map .multipoint
  | .multilinestring ls => (mapE (fun l => parseRing io w l 2) ls).map .multilinestring
  | .multipolygon ps => (mapE (polyFromRings io w) ps).map .multipolygon

end Generic

/-! ## text: renderer -/

def intercalateL (sep : List Char) : List (List Char) → List Char
  | [] => []
  | [x] => x
  | x :: y :: rest => x ++ sep ++ intercalateL sep (y :: rest)

/-- `" ".join(coord.to_str())` -/
def renderCoord (c : CoordT) : List Char := intercalateL [' '] (c.map String.toList)

/-- `_linear_ring_to_wkt`: `'(' + ",".join(…) + ')'` -/
def renderRing (r : List CoordT) : List Char :=
  '(' :: intercalateL [','] (r.map renderCoord) ++ [')']

/-- `'(' + ', '.join(rings) + ')'` -/
def renderRings (rs : List (List CoordT)) : List Char :=
  '(' :: intercalateL [',', ' '] (rs.map renderRing) ++ [')']

def renderL : Body → List Char
  | .point c => "POINT(".toList ++ renderCoord c ++ [')']
  | .linestring cs => "LINESTRING".toList ++ renderRing cs
  | .polygon rs => "POLYGON".toList ++ renderRings rs
  | .multipoint cs => "MULTIPOINT(".toList ++ intercalateL [',', ' '] (cs.map renderCoord) ++ [')']
  | .multilinestring ls => "MULTILINESTRING".toList ++ renderRings ls
  | .multipolygon ps =>
      "MULTIPOLYGON(".toList ++ intercalateL [',', ' '] (ps.map renderRings) ++ [')']

/-- the exact text the f-strings produce (the tag is never written) -/
def render (w : Wkt) : String := String.ofList (renderL w.body)

/-! ## text: the lenient reader -/

/-- `[+-]? (digits [. digits?] | . digits) ([eE] [+-]? digits)?` -/
def dropSign : List Char → List Char
  | '+' :: r => r
  | '-' :: r => r
  | r => r

def isNumberL (cs : List Char) : Bool :=
  let s := dropSign cs
  let ip := s.takeWhile Char.isDigit
  let r1 := s.dropWhile Char.isDigit
  let fr : List Char × List Char := match r1 with
    | '.' :: r => (r.takeWhile Char.isDigit, r.dropWhile Char.isDigit)
    | r => ([], r)
  if ip.isEmpty && fr.1.isEmpty then false
  else match fr.2 with
    | [] => true
    | e :: r =>
      if e == 'e' || e == 'E' then
        let d := dropSign r
        !d.isEmpty && d.all Char.isDigit
      else false

inductive Tok where
  | lp | rp | comma
  | word (s : List Char)
  | num (s : List Char)
deriving DecidableEq, Repr

def isBlank (c : Char) : Bool := c == ' ' || c == '\t' || c == '\n' || c == '\r'
def isNumStart (c : Char) : Bool := c.isDigit || c == '+' || c == '-' || c == '.'
def isNumChar (c : Char) : Bool := isNumStart c || c == 'e' || c == 'E'

/-- the partial token being read: `none`, a word, or a number-like run -/
inductive Cur where
  | none
  | word (acc : List Char)
  | num (acc : List Char)

def Cur.flush : Cur → List Tok
  | .none => []
  | .word a => [.word a]
  | .num a => [.num a]

/-- lexer: blanks separate, `( ) ,` stand alone, letters form words, `[0-9+-.][0-9+-.eE]*` number-like runs;
    any other character is foreign (`none`) -/
def lexGo : Cur → List Char → Option (List Tok)
  | cur, [] => some cur.flush
  | cur, c :: cs =>
    if isBlank c then (lexGo .none cs).map (cur.flush ++ ·)
    else if c == '(' then (lexGo .none cs).map (cur.flush ++ .lp :: ·)
    else if c == ')' then (lexGo .none cs).map (cur.flush ++ .rp :: ·)
    else if c == ',' then (lexGo .none cs).map (cur.flush ++ .comma :: ·)
    else match cur with
      | .word a =>
        if c.isAlpha then lexGo (.word (a ++ [c])) cs
        else if isNumStart c then (lexGo (.num [c]) cs).map (.word a :: ·)
        else none
      | .num a =>
        if isNumChar c then lexGo (.num (a ++ [c])) cs
        else if c.isAlpha then (lexGo (.word [c]) cs).map (.num a :: ·)
        else none
      | .none =>
        if isNumStart c then lexGo (.num [c]) cs
        else if c.isAlpha then lexGo (.word [c]) cs
        else none

def lex (s : List Char) : Option (List Tok) := lexGo .none s

/-- after `(`: numbers (2–4 per coordinate) separated by `,` up to the closing `)` -/
def seqGo : List CoordT → CoordT → List Tok → Option (List CoordT × List Tok)
  | done, cur, .num s :: ts => if isNumberL s then seqGo done (cur ++ [String.ofList s]) ts else none
  | done, cur, .comma :: ts =>
    if 2 ≤ cur.length && cur.length ≤ 4 then seqGo (done ++ [cur]) [] ts else none
  | done, cur, .rp :: ts =>
    if 2 ≤ cur.length && cur.length ≤ 4 then some (done ++ [cur], ts) else none
  | _, _, _ => none

/-- `( coord , coord … )` -/
def seqP : List Tok → Option (List CoordT × List Tok)
  | .lp :: ts => seqGo [] [] ts
  | _ => none

/-- `( item , item … )` for an item parser, fuelled by the number of tokens -/
def listGo {α : Type} (item : List Tok → Option (α × List Tok)) :
    Nat → List α → List Tok → Option (List α × List Tok)
  | 0, _, _ => none
  | n + 1, done, ts =>
    match item ts with
    | none => none
    | some (x, .comma :: ts') => listGo item n (done ++ [x]) ts'
    | some (x, .rp :: ts') => some (done ++ [x], ts')
    | some _ => none

def listP {α : Type} (item : List Tok → Option (α × List Tok)) : List Tok → Option (List α × List Tok)
  | .lp :: ts => listGo item (ts.length + 1) [] ts
  | _ => none

def upper (s : List Char) : List Char := s.map Char.toUpper

def keywords : List (List Char × Kind) :=
  [("POINT".toList, .point), ("LINESTRING".toList, .linestring), ("POLYGON".toList, .polygon),
   ("MULTIPOINT".toList, .multipoint), ("MULTILINESTRING".toList, .multilinestring),
   ("MULTIPOLYGON".toList, .multipolygon)]

def tags : List (List Char) := ["Z".toList, "M".toList, "ZM".toList, "MZ".toList]

/-- the leading word is a keyword, or a keyword with a tag glued to it (`POINTZ`) -/
def splitKeyword (w : List Char) : Option (Kind × List Char) :=
  let u := upper w
  match keywords.find? (fun kw => kw.1 == u) with
  | some kw => some (kw.2, [])
  | none =>
    match keywords.find? (fun kw => kw.1.isPrefixOf u && tags.contains (u.drop kw.1.length)) with
    | some kw => some (kw.2, u.drop kw.1.length)
    | none => none

def single {α : Type} : List α → Option α
  | [x] => some x
  | _ => none

def allSingle {α : Type} : List (List α) → Option (List α)
  | [] => some []
  | l :: ls => match single l, allSingle ls with
    | some x, some xs => some (x :: xs)
    | _, _ => none

/-- the geometry text of each kind; every token must be used up -/
def bodyP (k : Kind) (ts : List Tok) : Option Body :=
  let fin {α : Type} (r : Option (α × List Tok)) : Option α :=
    match r with | some (x, []) => some x | _ => none
  match k with
  | .point => ((fin (seqP ts)).bind single).map .point
  | .linestring => (fin (seqP ts)).map .linestring
  | .polygon => (fin (listP seqP ts)).map .polygon
  | .multilinestring => (fin (listP seqP ts)).map .multilinestring
  | .multipoint =>
    match ts with
    | .lp :: .lp :: _ => ((fin (listP seqP ts)).bind allSingle).map .multipoint
    | _ => (fin (seqP ts)).map .multipoint
  | .multipolygon => (fin (listP (listP seqP) ts)).map .multipolygon

/-- what a lenient WKT grammar says the text denotes (`none`: not WKT) -/
def lenientParseL (s : List Char) : Option Wkt :=
  match lex s with
  | some (.word w :: rest) =>
    match splitKeyword w with
    | none => none
    | some (k, []) =>
      match rest with
      | .word t :: rest' =>
        if tags.contains (upper t) then (bodyP k rest').map (⟨upper t, ·⟩) else none
      | _ => (bodyP k rest).map (⟨[], ·⟩)
    | some (k, tag) => (bodyP k rest).map (⟨tag, ·⟩)
  | _ => none

def lenientParse (s : String) : Option Wkt := lenientParseL s.toList

/-! ## the emitted grammar: what the writers produce (hypothesis of the text-level theorems) -/

/-- a token the writer can emit: starts like a number, consists of number characters -/
def cleanTok : List Char → Bool
  | [] => false
  | c :: cs => isNumStart c && cs.all isNumChar

/-- the emitted-number grammar on a token -/
def tokOk (t : String) : Bool := cleanTok t.toList && isNumberL t.toList

def coordOkB (c : CoordT) : Bool := decide (2 ≤ c.length) && decide (c.length ≤ 4) && c.all tokOk
def seqOkB (r : List CoordT) : Bool := !r.isEmpty && r.all coordOkB
def ringsOkB (rs : List (List CoordT)) : Bool := !rs.isEmpty && rs.all seqOkB

/-- a body as the writers produce it: numbers of the emitted grammar, 2–4 per coordinate, no empty list -/
def Body.emitted : Body → Bool
  | .point c => coordOkB c
  | .linestring cs => seqOkB cs
  | .polygon rs => ringsOkB rs
  | .multipoint cs => seqOkB cs
  | .multilinestring ls => ringsOkB ls
  | .multipolygon ps => !ps.isEmpty && ps.all ringsOkB

/-! ## `<Type>.from_wkt(text)` and `parse_wkt(text)` -/

section Generic
variable {F : Type} (io : NumIO F)

/-- `<Type>.from_wkt(text)`: text that is not WKT of that type is a `ValueError` -/
def readAs (k : Kind) (text : String) : Except String (Geo F) :=
  match lenientParse text with
  | some w => if w.body.kind = k then fromWkt io w else .error "ERR:Value"
  | none => .error "ERR:Value"

/-- `re.match(r'^[a-zA-Z]+', wkt)` -/
def leadWord (text : String) : String := String.ofList (text.toList.takeWhile Char.isAlpha)

/-- `parse_wkt`: the leading word is looked up **as written** (case-sensitive) in `_PARSER_MAP` -/
def parseWkt (map : List (String × Kind)) (text : String) : Except String (Geo F) :=
  match map.lookup (leadWord text) with
  | some k => readAs io k text
  | none => .error "ERR:Value"

end Generic

end GV.Wkt

/-! ## the library's `__eq__` (time-less shapes) and the well-formedness the round-trip theorems assume -/
namespace GV.Wkt
section Generic
variable {F : Type} (io : NumIO F)

/-- `list == list` with `Coordinate.__eq__` -/
def listEqv : List (Coord F) → List (Coord F) → Bool
  | [], [] => true
  | a :: as, b :: bs => Coord.eqv io a b && listEqv as bs
  | _, _ => false

/-- `o_outline[1:] + [o_outline[0]]` -/
def rotate1 (l : List (Coord F)) : List (Coord F) := l.tail ++ l.head?.toList

/-- the rotation loop of `GeoPolygon.__eq__` -/
def outlineLoop : Nat → List (Coord F) → List (Coord F) → Bool
  | 0, _, _ => false
  | n + 1, s, o =>
    if listEqv io s o || listEqv io s o.reverse then true else outlineLoop n s (rotate1 o)

/-- `zip(hole.bounding_coords(), hole.bounding_coords()[1:])` -/
def edgesOf (h : List (Coord F)) : List (Coord F × Coord F) := h.zip h.tail

def edgeEqv (a b : Coord F × Coord F) : Bool := Coord.eqv io a.1 b.1 && Coord.eqv io a.2 b.2

/-- `frozenset == frozenset` -/
def edgeSetEq (a b : List (Coord F × Coord F)) : Bool :=
  a.all (fun x => b.any (edgeEqv io x)) && b.all (fun x => a.any (edgeEqv io x))

/-- `set(frozenset…) == set(frozenset…)` -/
def holeSetsEq (a b : List (List (Coord F))) : Bool :=
  a.all (fun x => b.any (fun y => edgeSetEq io (edgesOf x) (edgesOf y))) &&
  b.all (fun x => a.any (fun y => edgeSetEq io (edgesOf x) (edgesOf y)))

/-- `outline[0:-1] or outline`: a one-vertex polygon's open outline is that vertex -/
def openOutline (o : List (Coord F)) : List (Coord F) :=
  if o.dropLast.isEmpty then o else o.dropLast

/-- `GeoPolygon.__eq__` -/
def polyEq (a b : Poly F) : Bool :=
  a.outline.length == b.outline.length &&
  outlineLoop io (max (openOutline b.outline).length 1) (openOutline a.outline) (openOutline b.outline) &&
  a.holes.length == b.holes.length && holeSetsEq io a.holes b.holes

/-- `set(a) == set(b)` for a member equality -/
def setEq {α : Type} (eq : α → α → Bool) (a b : List α) : Bool :=
  a.all (fun x => b.any (eq x)) && b.all (fun x => a.any (eq x))

/-- `__eq__` of the six simple types -/
def libEq : Geo F → Geo F → Bool
  | .point a, .point b => Coord.eqv io a b
  | .linestring a, .linestring b => listEqv io a b
  | .polygon a, .polygon b => polyEq io a b
  | .multipoint a, .multipoint b => setEq (Coord.eqv io) a b
  | .multilinestring a, .multilinestring b => setEq (listEqv io) a b
  | .multipolygon a, .multipolygon b => setEq (polyEq io) a b
  | _, _ => false

/-- a stored coordinate went through `Coordinate.__init__` (it is in range) and has no M without a Z
    (an M-only coordinate is written as three numbers and read back as a Z: outside the property) -/
def Coord.wf (c : Coord F) : Bool :=
  decide (-90 ≤ io.val c.lat) && decide (io.val c.lat ≤ 90) &&
  decide (-180 ≤ io.val c.lon) && decide (io.val c.lon < 180) &&
  (c.m.isNone || c.z.isSome)

/-- how many numbers `to_str()` gives -/
def Coord.dim (c : Coord F) : Nat := 2 + (if c.z.isSome then 1 else 0) + (if c.m.isSome then 1 else 0)

/-- the ring is closed (`Coordinate.__eq__` of first and last vertex) -/
def closedRing (r : List (Coord F)) : Bool :=
  match r.head?, r.getLast? with
  | some a, some b => Coord.eqv io a b
  | _, _ => false

/-- a ring as the `GeoPolygon` constructor leaves it -/
def shellWf (r : List (Coord F)) : Bool :=
  r.all (Coord.wf io) && closedRing io r && GV.isCCW (r.map (Coord.pt io))

/-- a hole: a constructor-made ring of non-zero shoelace sum (a zero-area ring is "counter-clockwise" in
    both directions, so the reader can not restore its direction) -/
def holeWf (r : List (Coord F)) : Bool :=
  shellWf io r && GV.shoelace (r.map (Coord.pt io)) != 0

def Poly.wf (p : Poly F) : Bool := shellWf io p.outline && p.holes.all (holeWf io)

def Poly.coords (p : Poly F) : List (Coord F) := p.outline ++ p.holes.flatten

/-- every coordinate of the shape, the first one of the text first -/
def Geo.coords : Geo F → List (Coord F)
  | .point c => [c]
  | .linestring vs => vs
  | .polygon p => p.coords
  | .multipoint cs => cs
  | .multilinestring ls => ls.flatten
  | .multipolygon ps => (ps.map Poly.coords).flatten

/-- the shape-specific part of well-formedness -/
def Geo.wfParts : Geo F → Bool
  | .point c => c.wf io
  | .linestring vs => vs.all (Coord.wf io) && decide (2 ≤ vs.length)
  | .polygon p => p.wf io
  | .multipoint cs => cs.all (Coord.wf io) && !cs.isEmpty
  | .multilinestring ls => ls.all (fun l => l.all (Coord.wf io) && decide (2 ≤ l.length)) && !ls.isEmpty
  | .multipolygon ps => ps.all (Poly.wf io) && !ps.isEmpty

/-- all coordinates have the same dimension (a shape mixing 2-D and 3-D vertices is not a shape the
    independent reader, or after F13g our own, accepts) -/
def Geo.uniform (g : Geo F) : Bool :=
  match g.coords with
  | [] => false
  | c :: cs => cs.all (fun d => d.dim == c.dim)

def Geo.wf (g : Geo F) : Bool := g.wfParts io && g.uniform

end Generic
end GV.Wkt
