/-!
# Prelude of the source translator for the work-list unit (`SrcFlood`, `harness/srcunits.py`)

The one Python construct of `NiemeyerHasher` whose Lean counterpart is neither a core function nor a function of
`Model/Flood.lean`: evaluating a member function that may raise over a list, left to right.
-/
namespace GV.FloodPy

/-- `[f(m) for m in ms]` where `f` may raise: evaluated left to right, the first exception ends the evaluation -/
def mapE {α β : Type} (f : α → Except String β) : List α → Except String (List β)
  | [] => .ok []
  | x :: xs =>
    match f x with
    | .error e => .error e
    | .ok y =>
      match mapE f xs with
      | .error e => .error e
      | .ok ys => .ok (y :: ys)

end GV.FloodPy
