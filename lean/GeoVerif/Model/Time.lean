/-!
# Model of `geostructures/time.py` — `TimeInterval`

Instants are `Int` (microseconds since the epoch, UTC).  The harness maps aware datetimes to their UTC
instant and naive ones to the same wall-clock digits read as UTC (`_default_to_zulu`).

Every definition mirrors one method of the class, in the order of the source file.
-/
namespace GV

structure TI where
  start : Int
  stop : Int
deriving DecidableEq, Repr

namespace TI

/-- `TimeInterval.__init__` (after the `timedelta`/UTC normalisation done by the harness):
    `if end < start: raise ValueError`. -/
def mk? (s e : Int) : Except String TI :=
  if e < s then .error "ERR:Value" else .ok ⟨s, e⟩

/-- `is_instant` -/
def isInstant (t : TI) : Bool := t.start == t.stop

/-- `__eq__` -/
def eq (a b : TI) : Bool := a.start == b.start && a.stop == b.stop

/-- the tuple handed to `hash()` in `__hash__` -/
def hashKey (t : TI) : Int × Int := (t.start, t.stop)

/-- `elapsed` -/
def elapsed (t : TI) : Int := t.stop - t.start

/-- `__contains__(datetime)` -/
def containsDt (t : TI) (x : Int) : Bool :=
  if t.isInstant then t.start == x else decide (t.start ≤ x) && decide (x < t.stop)

/-- `issubset` -/
def issubset (a b : TI) : Bool :=
  if a.isInstant then b.containsDt a.start
  else decide (b.start ≤ a.start) && decide (a.stop ≤ b.stop)

/-- `issuperset` -/
def issuperset (a b : TI) : Bool := b.issubset a

/-- `__contains__(TimeInterval)` -/
def containsTI (a b : TI) : Bool := a.issuperset b

/-- `isdisjoint` -/
def isdisjoint (a b : TI) : Bool :=
  if a.isInstant then !b.containsDt a.start
  else if b.isInstant then !a.containsDt b.start
  else decide (a.stop ≤ b.start) || decide (a.start ≥ b.stop)

/-- `intersects(datetime)` -/
def intersectsDt (t : TI) (x : Int) : Bool := t.containsDt x

/-- `intersects(TimeInterval)`: `not other.isdisjoint(self)` -/
def intersects (a b : TI) : Bool := !b.isdisjoint a

/-- `intersection` -/
def intersection (a b : TI) : Option TI :=
  if a.isdisjoint b then none else some ⟨max a.start b.start, min a.stop b.stop⟩

/-- `union` (the constructor can not fail here for well-formed operands) -/
def union (a b : TI) : TI := ⟨min a.start b.start, max a.stop b.stop⟩

/-- `copy` -/
def copy (t : TI) : TI := ⟨t.start, t.stop⟩

end TI
end GV
