import GeoVerif.Model.Coord
/-!
# Model of the `Coordinate` object (`coordinates.py`): constructor, `__eq__`, `__hash__`,
`to_float` / `to_str`, `xyz` / `_from_xyz`

* lon/lat/z/m are exact rationals (`-0.0` and `0.0` are the same number, as they are for Python's `==`
  and `hash`); `None` is `Option.none`.
* `to_str` returns `str(float)` tokens; the model returns the numbers the tokens denote (Python's
  `repr`/`float` round trip is runtime, DESIGN §3) – what is modelled is *which* fields are emitted, in
  which order.
* `xyz` / `_from_xyz` are written once over the numeric signature `Trig`; the `Float` instance runs in the
  driver, the `ℝ` instance (Props/C08) is what the theorems are about.
-/
namespace GV.CoordObj

structure Coord where
  lon : Rat
  lat : Rat
  z : Option Rat := none
  m : Option Rat := none
deriving Repr, DecidableEq

namespace Coord

/-- `Coordinate(longitude, latitude, z, m, _bounded)` (`coordinates.py:18-44`) -/
def new (lon lat : Rat) (z m : Option Rat := none) (bounded : Bool := true) : Coord :=
  let p := normalize bounded lon lat
  { lon := p.1, lat := p.2, z := z, m := m }

/-- `__eq__` between two coordinates (`coordinates.py:46-54`): latitude, longitude, z – not m -/
def eq (a b : Coord) : Bool := a.lat == b.lat && a.lon == b.lon && a.z == b.z

/-- the tuple handed to `hash()` (`coordinates.py:56-57`) -/
def hashKey (a : Coord) : Rat × Rat × Option Rat := (a.lon, a.lat, a.z)

/-- `to_float(reverse)` (`coordinates.py:214-235`): `[lon, lat]`, reversed on request, then z and m when
    they are not `None` -/
def toFloat (c : Coord) (reverse : Bool := false) : List Rat :=
  let out := [c.lon, c.lat]
  let out := if reverse then out.reverse else out
  let out := match c.z with
    | some z => out ++ [z]
    | none => out
  match c.m with
  | some m => out ++ [m]
  | none => out

/-- `to_str(reverse)` (`coordinates.py:297-318`): same field selection, each field through `str` -/
def toStr (c : Coord) (reverse : Bool := false) : List Rat :=
  let out := [c.lon, c.lat]
  let out := if reverse then out.reverse else out
  let out := match c.z with
    | some z => out ++ [z]
    | none => out
  match c.m with
  | some m => out ++ [m]
  | none => out

end Coord

/-- numeric signature of `xyz` / `_from_xyz` -/
class Trig (α : Type) extends Mul α where
  sin : α → α
  cos : α → α
  asin : α → α
  atan2 : α → α → α
  /-- `math.radians(x) = x * (π / 180)` -/
  degToRad : α
  /-- `math.degrees(x) = x * (180 / π)` -/
  radToDeg : α

section
variable {α : Type} [Trig α]

/-- `Coordinate.xyz` (`coordinates.py:63-72`) -/
def xyz (lon lat : α) : α × α × α :=
  let rlat := lat * Trig.degToRad
  let rlon := lon * Trig.degToRad
  (Trig.cos rlat * Trig.cos rlon, Trig.cos rlat * Trig.sin rlon, Trig.sin rlat)

/-- `Coordinate._from_xyz` before the normalising constructor (`coordinates.py:74-79`): `(lon, lat)` -/
def fromXyzRaw (v : α × α × α) : α × α :=
  let latitude := Trig.asin v.2.2
  let longitude := Trig.atan2 v.2.1 v.1
  (longitude * Trig.radToDeg, latitude * Trig.radToDeg)

end

def piF : Float := Float.ofBits 0x400921FB54442D18

instance : Trig Float where
  sin := Float.sin
  cos := Float.cos
  asin := Float.asin
  atan2 := Float.atan2
  degToRad := piF / 180.0
  radToDeg := 180.0 / piF

end GV.CoordObj
