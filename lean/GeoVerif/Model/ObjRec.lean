import GeoVerif.Model.Obj
/-!
# Record views of the shape kinds, and the Python prelude of the `SrcEq` source unit (C15)

The source translator (`harness/py2lean.py`, unit `SrcEq`) reads `self.nw_bound`, `other.holes`, … as field
projections.  `Obj.Shape` is an inductive with one constructor per *family*; the records below are the same values,
one structure per Python class, with the fields under the names the classes use; `toShape` / `toMulti` is the (bijective)
way back.

The second half is the prelude of the unit: the few Python constructs of `__eq__` / `__hash__` whose Lean counterpart is
not a core function (`==` on `Optional`, on tuples, on already built sets; `range`; `xs[0:-1] or xs`).
-/
namespace GV.Obj

/-- `GeoPoint` -/
structure PointR where
  coordinate : Coord
  dt : Dt
deriving DecidableEq, Repr

/-- `GeoLineString` -/
structure LineR where
  vertices : List Coord
  dt : Dt
deriving DecidableEq, Repr

/-- `GeoBox` -/
structure BoxR where
  nw : Coord
  se : Coord
  holes : List Hole
  dt : Dt
deriving DecidableEq, Repr

/-- `GeoCircle` -/
structure CircleR where
  center : Coord
  radius : Rat
  holes : List Hole
  dt : Dt
deriving DecidableEq, Repr

/-- `GeoEllipse` -/
structure EllipseR where
  center : Coord
  major : Rat
  minor : Rat
  rotation : Rat
  holes : List Hole
  dt : Dt
deriving DecidableEq, Repr

/-- `GeoRing` -/
structure RingR where
  center : Coord
  inner : Rat
  outer : Rat
  amin : Rat
  amax : Rat
  holes : List Hole
  dt : Dt
deriving DecidableEq, Repr

/-- `GeoPolygon` (the *stored* outline) -/
structure PolyR where
  outline : List Coord
  holes : List Hole
  dt : Dt
deriving DecidableEq, Repr

def PointR.toShape (p : PointR) : Shape := .point p.coordinate p.dt
def LineR.toShape (p : LineR) : Shape := .line p.vertices p.dt
def BoxR.toShape (p : BoxR) : Shape := .pl (.box p.nw p.se) p.holes p.dt
def CircleR.toShape (p : CircleR) : Shape := .pl (.circle p.center p.radius) p.holes p.dt
def EllipseR.toShape (p : EllipseR) : Shape := .pl (.ellipse p.center p.major p.minor p.rotation) p.holes p.dt
def RingR.toShape (p : RingR) : Shape := .pl (.ring p.center p.inner p.outer p.amin p.amax) p.holes p.dt
def PolyR.toShape (p : PolyR) : Shape := .pl (.poly p.outline) p.holes p.dt

end GV.Obj

namespace GV.Py

/-- `a == b` for two `Optional[T]`: `None == None`; a value never equals `None` (`T.__eq__(None)` answers `False`, as
    does the reflected call for `None == value`); two values compare by `T.__eq__` -/
def optEq {α : Type} (r : α → α → Bool) : Option α → Option α → Bool
  | none, none => true
  | some a, some b => r a b
  | _, _ => false

/-- `(a, b) == (c, d)` -/
def pairEq {α β : Type} (r : α → α → Bool) (s : β → β → Bool) (p q : α × β) : Bool := r p.1 q.1 && s p.2 q.2

/-- `A == B` for two *built* sets (lists without duplicates modulo the membership relation `r`): `set_richcompare`
    compares the sizes, then tests `A <= B` -/
def setEq {α : Type} (r : α → α → Bool) (a b : List α) : Bool := a.length == b.length && GV.Obj.subsetBy r a b

/-- `range(a, b)` -/
def range (a b : Int) : List Int := (List.range (b - a).toNat).map (fun (i : Nat) => a + (i : Int))

end GV.Py
