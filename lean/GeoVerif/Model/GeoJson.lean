import GeoVerif.Model.Plane
import GeoVerif.Model.Coord
import GeoVerif.Model.Time
/-!
# Model of the GeoJSON export / import code (C14)

Mirrors, in source order,

* `_base.py:131-143` (`properties`, `_properties_json`), `_base.py:425-459` (`to_geojson`),
* `utils/functions.py` `sanitize_json`, `get_dt_from_geojson_props`,
* `to_geo_interface` / `linear_rings` / `bounding_coords` / `bounds` of every shape type
  (`structures.py`, `multistructures.py`),
* `from_geojson` of the six importable types, `GeoPolygon.__init__` (`structures.py:261-275`),
* `parsers.parse_geojson` and `CollectionBase.to_geojson` / `from_geojson`, `Track.__init__`.

Values are exact: JSON numbers are rationals (ints and floats are not distinguished: Python compares
them by value), instants are `Int` microseconds.  What stays outside the model is collected in the
record `Rt` (Python runtime functions `datetime.isoformat`, `datetime.fromisoformat`, `str.upper`);
the theorems hold for every runtime that satisfies `Rt.Lawful`.

The geodesy of curved shapes (circle, ellipse, ring, wedge) is C03's business: their vertex lists enter
the model as functions `k ↦ bounding_coords(k=k)` (the driver fills them with what the implementation
returns).
-/
namespace GV.GeoJson

/-! ## JSON values -/

/-- a Python value of the JSON-native types, plus `dt` for a `datetime` object (not JSON: it only exists
    between `properties` and `sanitize_json`) -/
inductive J where
  | null
  | bool (b : Bool)
  | num (q : Rat)
  | str (s : String)
  | dt (us : Int)
  | arr (xs : List J)
  | obj (kvs : List (String × J))
deriving Repr, Inhabited

/-- a Python `dict` with string keys, in insertion order -/
abbrev Obj := List (String × J)

/-- `d.get(k)` -/
def oget : Obj → String → Option J
  | [], _ => none
  | (k', v) :: r, k => if k' = k then some v else oget r k

/-- `k in d` -/
def ohas (o : Obj) (k : String) : Bool := (oget o k).isSome

/-- `d[k] = v` (the key keeps its position if present, else it is appended) -/
def oset : Obj → String → J → Obj
  | [], k, v => [(k, v)]
  | (k', v') :: r, k, v => if k' = k then (k', v) :: r else (k', v') :: oset r k v

/-- the dict after `d.pop(k, None)` -/
def oerase : Obj → String → Obj
  | [], _ => []
  | (k', v') :: r, k => if k' = k then r else (k', v') :: oerase r k

/-- `{**a, **b}` -/
def oupdate (a b : Obj) : Obj := b.foldl (fun acc kv => oset acc kv.1 kv.2) a

def okeys (o : Obj) : List String := o.map (·.1)

/-- Python truthiness -/
def J.truthy : J → Bool
  | .null => false
  | .bool b => b
  | .num q => decide (q ≠ 0)
  | .str s => decide (s ≠ "")
  | .dt _ => true
  | .arr xs => !xs.isEmpty
  | .obj kvs => !kvs.isEmpty

mutual
/-- no `datetime` object anywhere: the value is JSON-native (`json.dumps` accepts it) -/
def J.native : J → Bool
  | .dt _ => false
  | .arr xs => nativeList xs
  | .obj kvs => nativeKvs kvs
  | _ => true
def nativeList : List J → Bool
  | [] => true
  | x :: xs => x.native && nativeList xs
def nativeKvs : List (String × J) → Bool
  | [] => true
  | (_, v) :: r => v.native && nativeKvs r
end

mutual
/-- nesting depth (fuel for nested FeatureCollections) -/
def J.depth : J → Nat
  | .arr xs => depthList xs + 1
  | .obj kvs => depthKvs kvs + 1
  | _ => 0
def depthList : List J → Nat
  | [] => 0
  | x :: xs => max x.depth (depthList xs)
def depthKvs : List (String × J) → Nat
  | [] => 0
  | (_, v) :: r => max v.depth (depthKvs r)
end

/-! ## Python runtime functions that are not modelled -/

structure Rt where
  /-- `datetime.isoformat()` of the instant (µs) -/
  iso : Int → String
  /-- `datetime.fromisoformat(text)` ↦ instant, `ERR:Value` on malformed text -/
  parse : String → Except String Int
  /-- `str.upper()` -/
  upper : String → String

mutual
/-- `sanitize_json` -/
def sanitize (rt : Rt) : J → J
  | .obj kvs => .obj (sanKvs rt kvs)
  | .arr xs => .arr (sanList rt xs)
  | .dt us => .str (rt.iso us)
  | j => j
def sanList (rt : Rt) : List J → List J
  | [] => []
  | x :: xs => sanitize rt x :: sanList rt xs
def sanKvs (rt : Rt) : List (String × J) → List (String × J)
  | [] => []
  | (k, v) :: r => (k, sanitize rt v) :: sanKvs rt r
end

/-- `Except`-valued map with Python's left-to-right evaluation: the first error wins -/
def mapE {α β : Type} (f : α → Except String β) : List α → Except String (List β)
  | [] => .ok []
  | x :: xs => do
    let y ← f x
    let ys ← mapE f xs
    pure (y :: ys)

/-! ## Positions, shapes -/

/-- a `Coordinate` as far as GeoJSON sees it (M is outside the property's quantifier) -/
structure Pos where
  lon : Rat
  lat : Rat
  z : Option Rat := none
deriving DecidableEq, Repr

def Pos.pt (p : Pos) : Pt := (p.lon, p.lat)

/-- a `GeoPolygon` as built by an importer: normalised outline, hole outlines (each a `GeoPolygon.outline`) -/
structure Poly where
  outline : List Pos
  holes : List (List Pos)
deriving DecidableEq, Repr

/-- geometry of the six importable types -/
inductive SGeom where
  | polygon (p : Poly)
  | line (vs : List Pos)
  | point (p : Pos)
  | mpoly (ps : List Poly)
  | mline (ls : List (List Pos))
  | mpoint (ps : List Pos)
deriving DecidableEq, Repr

/-- an imported shape: geometry, time bounds, the shape's own `_properties` dict -/
structure Shape where
  geom : SGeom
  dt : Option TI
  props : Obj

inductive Kind where
  | point | line | polygon | mpoint | mline | mpoly
deriving DecidableEq, Repr

/-- the GeoJSON geometry type each importer insists on -/
def Kind.name : Kind → String
  | .point => "Point"
  | .line => "LineString"
  | .polygon => "Polygon"
  | .mpoint => "MultiPoint"
  | .mline => "MultiLineString"
  | .mpoly => "MultiPolygon"

/-- a hole of an exported shape: only `bounding_coords(k=…)` of it is ever used -/
structure HoleSrc where
  bounding : Option Nat → List Pos

/-- polygon-like export sources -/
inductive PolySrc where
  /-- `GeoPolygon`: `outline` is the attribute left by the constructor (see `mkPolygon`) -/
  | polygon (outline : List Pos) (holes : List HoleSrc)
  /-- `GeoBox` -/
  | box (nw se : Pos) (holes : List HoleSrc)
  /-- `GeoCircle` / `GeoEllipse`: `bounding k = bounding_coords(k=k)`, `bounds` as the implementation computes them -/
  | curved (bounding : Option Nat → List Pos) (bounds : Rat × Rat × Rat × Rat) (holes : List HoleSrc)
  /-- `GeoRing`: `(outer k, inner k) = _draw_bounds(k=k)`; `full` iff `angle_min == 0 and angle_max == 360`;
      `bounds` is only used for the full ring -/
  | ring (outer inner : Option Nat → List Pos) (full : Bool) (bounds : Rat × Rat × Rat × Rat)
      (holes : List HoleSrc)

inductive Geom where
  | poly (p : PolySrc)
  | line (vs : List Pos)
  | point (p : Pos)
  | mpoly (ps : List PolySrc)
  | mline (ls : List (List Pos))
  | mpoint (ps : List Pos)

/-- a shape to be exported (members of multi-shapes are geometry only: their own dt/properties are never exported) -/
structure Src where
  geom : Geom
  dt : Option TI
  props : Obj

/-! ## `GeoPolygon.__init__` -/

/-- `if not outline[0] == outline[-1]: outline = [*outline, outline[0]]` (`Coordinate.__eq__` compares lon, lat, z) -/
def closeRingP (outline : List Pos) : List Pos :=
  match outline.head?, outline.getLast? with
  | some a, some b => if a = b then outline else outline ++ [a]
  | _, _ => outline

/-- `GeoPolygon(outline, _is_hole=…).outline`; `outline[0]` raises IndexError on an empty list -/
def mkOutlineP (outline : List Pos) (isHole : Bool := false) : Except String (List Pos) :=
  if outline.isEmpty then .error "ERR:Index"
  else
    let o := closeRingP outline
    .ok (if !(xor (isCCW (o.map Pos.pt)) isHole) then o.reverse else o)

/-- `GeoPolygon(outline, holes=[GeoPolygon(h) for h in holes])` as an export source -/
def mkPolygon (outline : List Pos) (holes : List (List Pos)) : Except String PolySrc := do
  let hs ← mapE (fun h => mkOutlineP h) holes
  let o ← mkOutlineP outline
  pure (.polygon o (hs.map fun h => ⟨fun _ => h⟩))

/-! ## export -/

/-- `list(coord.to_float())` -/
def posToJ (p : Pos) : J :=
  .arr ([.num p.lon, .num p.lat] ++ (match p.z with | some z => [.num z] | none => []))

def ringToJ (r : List Pos) : J := .arr (r.map posToJ)

/-- `nw.z if nw.z is not None else se.z` (repo fix 68e2a82: a Z of 0.0 is kept) -/
def zOr (a b : Option Rat) : Option Rat :=
  match a with
  | some x => some x
  | none => b

/-- `bounding_coords(k=k)` -/
def PolySrc.bounding : PolySrc → Option Nat → List Pos
  | .polygon o _, _ => o
  | .box nw se _, _ =>
      let z := zOr nw.z se.z
      [nw, ⟨nw.lon, se.lat, z⟩, se, ⟨se.lon, nw.lat, z⟩, nw]
  | .curved b _ _, k => b k
  | .ring outer inner full _ _, k =>
      if full then outer k else outer k ++ (inner k).reverse ++ (outer k).head?.toList

def PolySrc.holes : PolySrc → List HoleSrc
  | .polygon _ h => h
  | .box _ _ h => h
  | .curved _ _ h => h
  | .ring _ _ _ _ h => h

/-- `linear_rings(k=k)`: `PolygonBase.linear_rings` draws the holes with their default `k`,
    `GeoRing.linear_rings` passes `k` on -/
def PolySrc.linearRings : PolySrc → Option Nat → List (List Pos)
  | .ring outer inner true _ holes, k =>
      [outer k ++ (outer k).head?.toList, (inner k ++ (inner k).head?.toList).reverse]
        ++ holes.map (fun h => (h.bounding k).reverse)
  | .ring outer inner false b holes, k =>
      [(PolySrc.ring outer inner false b holes).bounding k] ++ holes.map (fun h => (h.bounding k).reverse)
  | p, k => p.bounding k :: p.holes.map (fun h => (h.bounding none).reverse)

/-- `min(lons), min(lats), max(lons), max(lats)`; unpacking the empty `zip` raises ValueError -/
def bboxPos (ps : List Pos) : Except String (Rat × Rat × Rat × Rat) :=
  match bboxOf (ps.map Pos.pt) with
  | some b => .ok b
  | none => .error "ERR:Value"

/-- `bounds` -/
def PolySrc.bounds : PolySrc → Except String (Rat × Rat × Rat × Rat)
  | .polygon o _ => bboxPos o
  | .box nw se _ => .ok (nw.lon, se.lat, se.lon, nw.lat)
  | .curved _ b _ => .ok b
  | .ring outer inner full b holes =>
      if full then .ok b else bboxPos ((PolySrc.ring outer inner full b holes).bounding none)

/-- `MultiShapeBase.bounds`: min of the mins, max of the maxes; no member → ValueError -/
def bboxMerge : List (Rat × Rat × Rat × Rat) → Except String (Rat × Rat × Rat × Rat)
  | [] => .error "ERR:Value"
  | b :: bs => .ok (bs.foldl (fun (a : Rat × Rat × Rat × Rat) c =>
      (minR a.1 c.1, minR a.2.1 c.2.1, maxR a.2.2.1 c.2.2.1, maxR a.2.2.2 c.2.2.2)) b)

def Geom.bounds : Geom → Except String (Rat × Rat × Rat × Rat)
  | .poly p => p.bounds
  | .line vs => bboxPos vs
  | .point p => .ok (p.lon, p.lat, p.lon, p.lat)
  | .mpoly ps => do bboxMerge (← mapE PolySrc.bounds ps)
  | .mline ls => do bboxMerge (← mapE bboxPos ls)
  | .mpoint ps => bboxMerge (ps.map fun p => (p.lon, p.lat, p.lon, p.lat))

def bboxToJ (b : Rat × Rat × Rat × Rat) : J := .arr [.num b.1, .num b.2.1, .num b.2.2.1, .num b.2.2.2]

def Geom.typeName : Geom → String
  | .poly _ => "Polygon"
  | .line _ => "LineString"
  | .point _ => "Point"
  | .mpoly _ => "MultiPolygon"
  | .mline _ => "MultiLineString"
  | .mpoint _ => "MultiPoint"

/-- the `coordinates` member -/
def Geom.coordinates : Geom → Option Nat → J
  | .poly p, k => .arr ((p.linearRings k).map ringToJ)
  | .line vs, _ => ringToJ vs
  | .point p, _ => posToJ p
  | .mpoly ps, k => .arr (ps.map fun p => .arr ((p.linearRings k).map ringToJ))
  | .mline ls, _ => .arr (ls.map ringToJ)
  | .mpoint ps, _ => ringToJ ps

/-- `to_geo_interface(k=k, include_bbox=bbox)` -/
def toGeoInterface (g : Geom) (k : Option Nat) (bbox : Bool) : Except String Obj := do
  let base : Obj := [("type", .str g.typeName), ("coordinates", g.coordinates k)]
  if bbox then
    let b ← g.bounds
    pure (base ++ [("bbox", bboxToJ b)])
  else pure base

/-- `properties`: a copy of `_properties` plus the two time fields (as `datetime` objects) -/
def properties (s : Src) : Obj :=
  match s.dt with
  | some t => oset (oset s.props "datetime_start" (.dt t.start)) "datetime_end" (.dt t.stop)
  | none => s.props

/-- the keyword arguments of `to_geojson` -/
structure Opts where
  /-- `kwargs.pop('k', None)` -/
  k : Option Nat := none
  /-- truthiness of `kwargs.pop('include_bbox', None)` -/
  bbox : Bool := false
  /-- the `properties` argument (`None` or a dict) -/
  props : Option Obj := none
  /-- every other keyword argument, in call order (e.g. `id`) -/
  extra : Obj := []

/-- `BaseShapeProtocol.to_geojson` -/
def toGeoJson (rt : Rt) (s : Src) (o : Opts) : Except String J := do
  let g ← toGeoInterface s.geom o.k o.bbox
  let props := oupdate (sanKvs rt (properties s)) (o.props.getD [])
  pure (.obj (oupdate [("type", .str "Feature"), ("geometry", .obj g), ("properties", .obj props)] o.extra))

/-- `[f(idx, x) for idx, x in enumerate(xs)]` -/
def mapIdxE {α β : Type} (f : Nat → α → Except String β) : Nat → List α → Except String (List β)
  | _, [] => .ok []
  | i, x :: xs => do
    let y ← f i x
    let ys ← mapIdxE f (i + 1) xs
    pure (y :: ys)

/-- `CollectionBase.to_geojson`: `x.to_geojson(properties=properties, id=idx, **kwargs)`; a second `id`
    among the keyword arguments is a TypeError ("multiple values for keyword argument") at the first member -/
def collToGeoJson (rt : Rt) (shapes : List Src) (o : Opts) : Except String J := do
  let feats ← mapIdxE (fun idx s =>
      if ohas o.extra "id" then .error "ERR:Type"
      else toGeoJson rt s { o with extra := ("id", .num idx) :: o.extra }) 0 shapes
  pure (.obj [("type", .str "FeatureCollection"), ("features", .arr feats)])

/-- stable insertion by `start` (`sorted(geoshapes, key=lambda x: x.start)`) -/
def insertByStart {α : Type} (key : α → Int) (x : α) : List α → List α
  | [] => [x]
  | y :: ys => if key x ≤ key y then x :: y :: ys else y :: insertByStart key x ys

def sortByStart {α : Type} (key : α → Int) (xs : List α) : List α :=
  xs.foldr (fun x acc => insertByStart key x acc) []

/-- `Track.__init__` on export sources: every member needs a dt; sorted by start -/
def mkTrack (shapes : List Src) : Except String (List Src) :=
  if shapes.all (fun s => s.dt.isSome) then
    .ok (sortByStart (fun s => match s.dt with | some t => t.start | none => 0) shapes)
  else .error "ERR:Value"

/-! ## import -/

/-- `float(x)` -/
def toFloat : J → Except String Rat
  | .num q => .ok q
  | .bool b => .ok (if b then 1 else 0)
  | .str _ => .error "ERR:Value"
  | _ => .error "ERR:Type"

/-- `Coordinate(**dict(zip(('longitude', 'latitude', 'z'), x)))` -/
def posOfJ : J → Except String Pos
  | .arr (a :: b :: rest) => do
      let lon ← toFloat a
      let lat ← toFloat b
      let ll := normalize true lon lat
      match rest with
      | [] => pure ⟨ll.1, ll.2, none⟩
      | .num z :: _ => pure ⟨ll.1, ll.2, some z⟩
      | .null :: _ => pure ⟨ll.1, ll.2, none⟩
      | _ :: _ => .error "ERR:Unmodelled"
  | .arr _ => .error "ERR:Type"
  | .str _ => .error "ERR:Value"
  | .obj _ => .error "ERR:Value"
  | _ => .error "ERR:Type"

/-- `[Coordinate(…) for x in ring]` -/
def ringOfJ : J → Except String (List Pos)
  | .arr xs => mapE posOfJ xs
  | .str _ => .error "ERR:Value"
  | .obj _ => .error "ERR:Value"
  | _ => .error "ERR:Type"

/-- iterate `geom.get('coordinates', [])` -/
def listOfJ {α : Type} (f : J → Except String α) : Option J → Except String (List α)
  | none => .ok []
  | some (.arr xs) => mapE f xs
  | some (.str _) => .error "ERR:Value"
  | some (.obj _) => .error "ERR:Value"
  | some _ => .error "ERR:Type"

/-- `_convert` inside `get_dt_from_geojson_props` -/
def convertTs (rt : Rt) (v : Option J) : Except String (Option Int) :=
  match v with
  | none => .ok none
  | some j =>
    if !j.truthy then .ok none
    else match j with
      | .str s => (rt.parse s).map some
      | _ => .error "ERR:Type"

/-- `get_dt_from_geojson_props(rec, ks, ke)`: returns the time bounds and `rec` after the two pops -/
def getDt (rt : Rt) (rec : Obj) (ks ke : String) : Except String (Option TI × Obj) := do
  let s ← convertTs rt (oget rec ks)
  let rec1 := oerase rec ks
  let e ← convertTs rt (oget rec1 ke)
  let rec2 := oerase rec1 ke
  match s, e with
  | none, none => pure (none, rec2)
  | some a, none => pure (some ⟨a, a⟩, rec2)
  | none, some b => pure (some ⟨b, b⟩, rec2)
  | some a, some b => do
      let t ← TI.mk? a b
      pure (some t, rec2)

/-- `if 'coordinates' in gjson: geom = gjson else: geom = gjson.get('geometry', {})` -/
def selectGeom (d : Obj) : Except String Obj :=
  if ohas d "coordinates" then .ok d
  else match oget d "geometry" with
    | none => .ok []
    | some (.obj g) => .ok g
    | some _ => .error "ERR:Attr"

/-- `if not geom.get('type') == '<Name>': raise ValueError` -/
def checkType (geom : Obj) (want : String) : Except String Unit :=
  match oget geom "type" with
  | some (.str t) => if t = want then .ok () else .error "ERR:Value"
  | _ => .error "ERR:Value"

/-- `properties = dict(gjson.get('properties') or {})` followed by `get_dt_from_geojson_props`.
    Returns dt, the shape's property dict, and the caller's document after the call.
    `copy = true` is the code as it is now (`dict(…)`: the pops hit a copy, the document is untouched);
    `copy = false` is the earlier behaviour (the pops hit the caller's dict and the shape keeps that dict). -/
def propsAndDt (rt : Rt) (d : Obj) (ks ke : String) (copy : Bool := true) :
    Except String (Option TI × Obj × Obj) := do
  let src : Option Obj ← (match oget d "properties" with
    | none => pure none
    | some (.obj p) => pure (if p.isEmpty then none else some p)
    | some j => if !j.truthy then pure none else .error "ERR:Type")
  match src with
  | none => do
      let r ← getDt rt [] ks ke
      pure (r.1, r.2, d)
  | some p => do
      let r ← getDt rt p ks ke
      pure (r.1, r.2, if copy then d else oset d "properties" (.obj r.2))

/-- `[[Coordinate(…) for x in ring] for ring in shape]` -/
def ringsOfJ : J → Except String (List (List Pos))
  | .arr xs => mapE ringOfJ xs
  | .str _ => .error "ERR:Value"
  | .obj _ => .error "ERR:Value"
  | _ => .error "ERR:Type"

/-- one member of `MultiGeoPolygon.from_geojson`: `shell, holes = rings[0], None`, the holes are
    reversed before they are wrapped, `GeoPolygon(shell, holes=holes)` -/
def mpolyMember (shape : J) : Except String Poly := do
  let rings ← ringsOfJ shape
  match rings with
  | [] => .error "ERR:Index"
  | shell :: rest => do
      let holes ← mapE (fun r => mkOutlineP r.reverse) rest
      let o ← mkOutlineP shell
      pure ⟨o, holes⟩

/-- the geometry part of each `from_geojson`, in the order the source evaluates it
    (`geomEarly`: everything before the property handling, `geomLate`: the final constructor call) -/
def geomEarly (k : Kind) (geom : Obj) : Except String SGeom :=
  match k with
  | .polygon => do
      let rings ← listOfJ ringOfJ (oget geom "coordinates")
      let holes ← mapE (fun r => mkOutlineP r) rings.tail
      -- the shell is normalised last (`geomLate`); keep it raw here
      pure (.polygon ⟨rings.headD [], holes⟩)
  | .line => do
      let vs ← listOfJ posOfJ (oget geom "coordinates")
      pure (.line vs)
  | .point =>
      match oget geom "coordinates" with
      | none => .error "ERR:Key"
      | some c => do pure (.point (← posOfJ c))
  | .mpoint => do
      let ps ← listOfJ posOfJ (oget geom "coordinates")
      pure (.mpoint ps)
  | .mline => do
      let ls ← listOfJ ringOfJ (oget geom "coordinates")
      pure (.mline ls)
  | .mpoly => do
      let ps ← listOfJ mpolyMember (oget geom "coordinates")
      pure (.mpoly ps)

/-- `GeoPolygon(rings[0], holes=holes, …)` happens after the time fields were read -/
def geomLate : SGeom → Except String SGeom
  | .polygon ⟨raw, holes⟩ => do
      let o ← mkOutlineP raw
      pure (.polygon ⟨o, holes⟩)
  | g => .ok g

/-- `<Type>.from_geojson(gjson, ks, ke)`: the shape and the caller's document after the call -/
def fromGeoJson (rt : Rt) (k : Kind) (d : J) (ks : String := "datetime_start") (ke : String := "datetime_end")
    (copy : Bool := true) : Except String (Shape × J) :=
  match d with
  | .obj o => do
      let geom ← selectGeom o
      checkType geom k.name
      let g0 ← geomEarly k geom
      let (dt, props, o') ← propsAndDt rt o ks ke copy
      let g ← geomLate g0
      pure (⟨g, dt, props⟩, .obj o')
  | _ => .error "ERR:Attr"

/-- `set_property(key, value)` on an imported shape.  `shares` says whether the shape's `_properties`
    *is* the caller's `properties` dict (never, with the code as it is now) -/
def setPropertyAfter (r : Shape × J) (shares : Bool) (key : String) (v : J) : Shape × J :=
  let s' : Shape := { r.1 with props := oset r.1.props key v }
  (s', if shares then
        (match r.2 with
         | .obj o => .obj (oset o "properties" (.obj s'.props))
         | j => j)
       else r.2)

/-- does the imported shape keep the caller's dict?  (`dict(…)` makes a fresh one) -/
def sharesProps (d : J) (copy : Bool := true) : Bool :=
  !copy && (match d with
    | .obj o => (match oget o "properties" with | some (.obj p) => !p.isEmpty | _ => false)
    | _ => false)

/-! ## `parse_geojson` and collections -/

inductive Parser where
  | kind (k : Kind)
  | fc
deriving DecidableEq, Repr

/-- `PARSER_MAP` of `parse_geojson` -/
def parserMap (key : String) : Option Parser :=
  if key = "POINT" then some (.kind .point)
  else if key = "LINESTRING" then some (.kind .line)
  else if key = "POLYGON" then some (.kind .polygon)
  else if key = "MULTIPOINT" then some (.kind .mpoint)
  else if key = "MULTILINESTRING" then some (.kind .mline)
  else if key = "MULTIPOLYGON" then some (.kind .mpoly)
  else if key = "FEATURECOLLECTION" then some .fc
  else none

/-- the parser selection of `parse_geojson` -/
def dispatch (rt : Rt) (d : J) : Except String Parser :=
  match d with
  | .obj o => do
      -- `'type' in gjson and gjson['type'].upper() in PARSER_MAP`
      let first : Option Parser ← (match oget o "type" with
        | none => pure none
        | some (.str t) => pure (parserMap (rt.upper t))
        | some _ => .error "ERR:Attr")
      match first with
      | some p => pure p
      | none =>
        -- `gjson.get('geometry', {}).get('type', '').upper() in PARSER_MAP`
        match oget o "geometry" with
        | none => .error "ERR:Value"
        | some (.obj g) =>
            (match oget g "type" with
             | none => .error "ERR:Value"
             | some (.str t) =>
                 (match parserMap (rt.upper t) with
                  | some p => pure p
                  | none => .error "ERR:Value")
             | some _ => .error "ERR:Attr")
        | some _ => .error "ERR:Attr"
  | _ => .error "ERR:Attr"

/-- what `parse_geojson` returns: a shape, or a `FeatureCollection` of parsed features -/
inductive Parsed where
  | shape (s : Shape)
  | coll (xs : List Parsed)

/-- `CollectionBase.from_geojson` with the feature parser as a parameter; returns the members and the
    caller's document after the call -/
def collFromGeoJson (parse : J → Except String (Parsed × J)) (d : J) : Except String (List Parsed × J) :=
  match d with
  | .obj o =>
    match oget o "type" with
    | some (.str t) =>
      if t = "FeatureCollection" then
        match oget o "features" with
        | none => .ok ([], d)
        | some (.arr fs) => do
            let rs ← mapE parse fs
            pure (rs.map (·.1), .obj (oset o "features" (.arr (rs.map (·.2)))))
        | some (.str _) => .error "ERR:Unmodelled"
        | some (.obj _) => .error "ERR:Unmodelled"
        | some _ => .error "ERR:Type"
      else .error "ERR:Value"
    | _ => .error "ERR:Value"
  | _ => .error "ERR:Attr"

/-- `parse_geojson`; the fuel only counts nested FeatureCollections -/
def parseFuel (rt : Rt) (ks ke : String) : Nat → J → Except String (Parsed × J)
  | n, d => do
    match ← dispatch rt d with
    | .kind k => do
        let r ← fromGeoJson rt k d ks ke
        pure (.shape r.1, r.2)
    | .fc =>
      match n with
      | 0 => .error "ERR:Recursion"
      | n + 1 => do
        let r ← collFromGeoJson (fun f => parseFuel rt ks ke n f) d
        pure (.coll r.1, r.2)

def parseGeoJson (rt : Rt) (d : J) (ks : String := "datetime_start") (ke : String := "datetime_end") :
    Except String (Parsed × J) :=
  parseFuel rt ks ke (d.depth + 1) d

/-- `FeatureCollection.from_geojson` -/
def fcFromGeoJson (rt : Rt) (d : J) (ks : String := "datetime_start") (ke : String := "datetime_end") :
    Except String (List Parsed × J) :=
  collFromGeoJson (fun f => parseFuel rt ks ke d.depth f) d

/-- `all(x.dt for x in geoshapes)` with its short circuit: the first member without a dt stops the scan
    (ValueError); a nested collection reached before that has no `dt` attribute (AttributeError) -/
def trackKeys : List Parsed → Except String (List (Int × Parsed))
  | [] => .ok []
  | .coll _ :: _ => .error "ERR:Attr"
  | .shape s :: rest =>
    match s.dt with
    | none => .error "ERR:Value"
    | some t => do
        let r ← trackKeys rest
        pure ((t.start, .shape s) :: r)

/-- `Track(shapes)` on parsed members: every member needs a dt, then the stable sort by start -/
def trackOfParsed (xs : List Parsed) : Except String (List Parsed) := do
  let keyed ← trackKeys xs
  pure ((sortByStart (fun (kp : Int × Parsed) => kp.1) keyed).map (·.2))

/-- `Track.from_geojson` -/
def trackFromGeoJson (rt : Rt) (d : J) (ks : String := "datetime_start") (ke : String := "datetime_end") :
    Except String (List Parsed × J) := do
  let r ← fcFromGeoJson rt d ks ke
  let xs ← trackOfParsed r.1
  pure (xs, r.2)

/-! ## polygon form (`to_polygon(k=k)`) of an export source, as an importable shape -/

/-- `GeoPolygon(bounding_coords(k), holes=self.holes)`: the holes stay the objects they were
    (compared through their default `bounding_coords()`); `GeoRing.to_polygon` rebuilds them from
    `linear_rings(k)[1:]` -/
def PolySrc.polyForm (p : PolySrc) (k : Option Nat) : Except String Poly :=
  match p with
  | .ring .. => do
      let rings := p.linearRings k
      let holes ← mapE (fun r => mkOutlineP r) rings.tail
      let o ← mkOutlineP (rings.headD [])
      pure ⟨o, holes⟩
  | _ => do
      let o ← mkOutlineP (p.bounding k)
      pure ⟨o, p.holes.map (fun h => h.bounding none)⟩

/-- the shape that export → import is expected to return -/
def Geom.polyForm (g : Geom) (k : Option Nat) : Except String SGeom :=
  match g with
  | .poly p => do pure (.polygon (← p.polyForm k))
  | .line vs => .ok (.line vs)
  | .point p => .ok (.point p)
  | .mpoly ps => do pure (.mpoly (← mapE (fun p => p.polyForm k) ps))
  | .mline ls => .ok (.mline ls)
  | .mpoint ps => .ok (.mpoint ps)

def Geom.kind : Geom → Kind
  | .poly _ => .polygon
  | .line _ => .line
  | .point _ => .point
  | .mpoly _ => .mpoly
  | .mline _ => .mline
  | .mpoint _ => .mpoint

/-! ## in-place updates and re-export (`set_dt`, `strip_dt`, `buffer_dt`, `set_property`)

`to_geojson` reads the shape's *current* fields on every call (`properties` is a plain property): a history
"export, update in place, export again" is the export of the updated record. -/

/-- `set_dt(dt)` (a `datetime` argument arrives here as the instant interval) -/
def Src.setDt (s : Src) (dt : Option TI) : Src := { s with dt := dt }

/-- `strip_dt()` -/
def Src.stripDt (s : Src) : Src := { s with dt := none }

/-- `buffer_dt(b)`: ValueError without time bounds, and when a negative buffer makes `end < start` -/
def Src.bufferDt (s : Src) (b : Int) : Except String Src :=
  match s.dt with
  | none => .error "ERR:Value"
  | some t => do
      let t' ← TI.mk? (t.start - b) (t.stop + b)
      pure { s with dt := some t' }

/-- `set_property(key, value)` -/
def Src.setProperty (s : Src) (key : String) (v : J) : Src := { s with props := oset s.props key v }

/-- an imported `GeoPolygon` as an export source -/
def Poly.toSrc (p : Poly) : PolySrc := .polygon p.outline (p.holes.map fun h => ⟨fun _ => h⟩)

/-- an imported shape as an export source (import → update → export histories) -/
def Shape.toSrc (s : Shape) : Src :=
  ⟨(match s.geom with
    | .polygon p => .poly p.toSrc
    | .line vs => .line vs
    | .point p => .point p
    | .mpoly ps => .mpoly (ps.map Poly.toSrc)
    | .mline ls => .mline ls
    | .mpoint ps => .mpoint ps), s.dt, s.props⟩

end GV.GeoJson
