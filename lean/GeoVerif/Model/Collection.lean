import GeoVerif.Model.Time
import GeoVerif.Model.Plane
/-!
# Model of `geostructures/collections.py` — `CollectionBase` / `FeatureCollection`
(`collections.py:32-174`, `415-445`, `606-651`) and the `Track` constructor (`654-672`)

Shapes are *abstract records*: an identity (`is`), an equality class (`==`, measured on the implementation),
the time bounds, the user properties and the centroid.  Everything a per-shape method would compute
(`x.intersects(q)`, `x.contains(q)`, `q.contains(x)`, `x.bounds`) enters as a *parameter* (a function on
shapes), so the model contains only the collection-level logic.

Every definition mirrors one method, in source order.
-/
namespace GV
namespace Coll

/-- a property value: an opaque user value, or an instant (`datetime_start` / `datetime_end`) -/
inductive PVal where
  | user (id : Int)
  | inst (us : Int)
deriving DecidableEq, Repr

structure Shape where
  /-- object identity (`is`); shapes created by `convolve_duplicate_timestamps` get `-1` -/
  id : Int
  /-- class of `==` -/
  eqc : Int
  /-- `shape.dt` -/
  dt : Option TI
  /-- `shape._properties` (a dict: insertion order, unique keys) -/
  props : List (String × PVal)
  /-- `shape.centroid.to_float()` -/
  lon : Rat := 0
  lat : Rat := 0
deriving DecidableEq, Repr

instance : Inhabited Shape := ⟨⟨0, 0, none, [], 0, 0⟩⟩

/-- dict lookup -/
def assocGet {β} (d : List (String × β)) (k : String) : Option β :=
  match d with
  | [] => none
  | (k', v) :: rest => if k' == k then some v else assocGet rest k

/-- `d[k] = v` on a dict: overwrite in place, else append -/
def assocSet {β} (d : List (String × β)) (k : String) (v : β) : List (String × β) :=
  match d with
  | [] => [(k, v)]
  | (k', v') :: rest => if k' == k then (k, v) :: rest else (k', v') :: assocSet rest k v

namespace Shape

/-- `shape.start` (raises without `dt`; every caller in this file checks `dt` first, so the default is
    never observed) -/
def startD (x : Shape) : Int := match x.dt with | some d => d.start | none => 0

/-- `shape.end` -/
def endD (x : Shape) : Int := match x.dt with | some d => d.stop | none => 0

/-- `bool(x.dt)`: `TimeInterval` defines neither `__bool__` nor `__len__` -/
def timed (x : Shape) : Bool := x.dt.isSome

/-- `shape.properties`: a copy of `_properties` plus `datetime_start` / `datetime_end` when time-bounded -/
def properties (x : Shape) : List (String × PVal) :=
  match x.dt with
  | none => x.props
  | some d => assocSet (assocSet x.props "datetime_start" (.inst d.start)) "datetime_end" (.inst d.stop)

end Shape

/-- the class of the collection object -/
inductive Tag where
  | fc
  | track
deriving DecidableEq, Repr

end Coll

/-- the collection object.  `GV.Coll` is this record *and* the namespace that holds every other
    definition of C17/C18 (nothing else of these models sits directly in `GV`) -/
structure Coll where
  tag : Coll.Tag
  /-- `self.geoshapes` -/
  shapes : List Coll.Shape
deriving DecidableEq, Repr

namespace Coll

def leStart (a b : Shape) : Bool := decide (a.startD ≤ b.startD)

/-- `sorted(geoshapes, key=lambda x: x.start)` — a stable sort -/
def sortByStart (l : List Shape) : List Shape := l.mergeSort leStart

/-- `FeatureCollection(l)` -/
def mkFC (l : List Shape) : Coll := ⟨.fc, l⟩

/-- `Track(l)`: `if not all(x.dt for x in geoshapes): raise ValueError`, then sort by start -/
def mkTrack (l : List Shape) : Except String Coll :=
  if l.all Shape.timed then .ok ⟨.track, sortByStart l⟩ else .error "ERR:Value"

/-- `type(self)(l)` -/
def rewrap (tag : Tag) (l : List Shape) : Except String Coll :=
  match tag with
  | .fc => .ok (mkFC l)
  | .track => mkTrack l

/-- constructor by tag (used by the driver: the receiver is built from the input list) -/
def build (tag : Tag) (l : List Shape) : Except String Coll := rewrap tag l

/-! ### `collections.py:38-50` -/

/-- `__bool__` -/
def bool (c : Coll) : Bool := !c.shapes.isEmpty

/-- `x is item or x == item` -/
def sameOrEq (item x : Shape) : Bool := x.id == item.id || x.eqc == item.eqc

/-- `__contains__`: `item in self.geoshapes` -/
def contains (c : Coll) (item : Shape) : Bool := c.shapes.any (sameOrEq item)

/-- `__iter__` -/
def iter (c : Coll) : List Shape := c.shapes

/-- `__len__` -/
def len (c : Coll) : Nat := c.shapes.length

/-! ### `bounds` (`collections.py:52-60`) -/

abbrev Box := Rat × Rat × Rat × Rat

/-- `min(iterable)`; `ValueError` on an empty iterable -/
def pyMin : List Rat → Except String Rat
  | [] => .error "ERR:Value"
  | x :: xs => .ok (xs.foldl (fun m y => if y < m then y else m) x)

/-- `max(iterable)` -/
def pyMax : List Rat → Except String Rat
  | [] => .error "ERR:Value"
  | x :: xs => .ok (xs.foldl (fun m y => if y > m then y else m) x)

/-- `bounds`, with the per-shape `x.bounds` as a parameter -/
def bounds (bnd : Shape → Box) (c : Coll) : Except String Box := do
  let all := c.shapes.map bnd
  let a ← pyMin (all.map (·.1))
  let b ← pyMin (all.map (·.2.1))
  let c' ← pyMax (all.map (·.2.2.1))
  let d ← pyMax (all.map (·.2.2.2))
  return (a, b, c', d)

/-- `geospan` -/
def geospan (bnd : Shape → Box) (c : Coll) : Except String Rat := do
  let b ← bounds bnd c
  return b.2.2.1 - b.1 + b.2.2.2 - b.2.1

/-! ### `convex_hull` → `_get_vertices` (`collections.py:69-89`) -/

/-- what `_get_vertices` looks at: the `isinstance` chain and the vertex source of each kind -/
inductive Geo where
  /-- `MultiShapeBase` (tested first): recurse over `shape.geoshapes` -/
  | multi (members : List Geo)
  /-- `PointLikeMixin`: `shape.centroid` -/
  | point (c : Pt)
  /-- `LineLikeMixin`: `shape.vertices` -/
  | line (vs : List Pt)
  /-- `PolygonLikeMixin`: `shape.bounding_coords()` -/
  | poly (bc : List Pt)
  /-- none of the above: contributes nothing -/
  | other
deriving Repr

mutual
/-- `_get_vertices([shape])` -/
def Geo.verts : Geo → List Pt
  | .multi ms => vertsList ms
  | .point c => [c]
  | .line vs => vs
  | .poly bc => bc
  | .other => []
/-- `_get_vertices(shapes)` -/
def vertsList : List Geo → List Pt
  | [] => []
  | g :: gs => g.verts ++ vertsList gs
end

/-! ### the filters (`collections.py:91-174`) -/

/-- the argument of `filter_by_dt` -/
inductive DtArg where
  /-- a `datetime` (after `default_to_zulu`) -/
  | inst (t : Int)
  /-- a `TimeInterval` -/
  | ival (i : TI)
  /-- anything else (`date`, `str`, `None` …) -/
  | other
deriving DecidableEq, Repr

/-- `x.dt is not None and x.dt == TimeInterval(dt, dt)` -/
def dtEquals (t : Int) (x : Shape) : Bool :=
  match x.dt with | none => false | some d => d.eq ⟨t, t⟩

/-- `x.dt is not None and dt.intersects(x.dt)` -/
def dtIntersects (i : TI) (x : Shape) : Bool :=
  match x.dt with | none => false | some d => i.intersects d

/-- `filter_by_dt` -/
def filterByDt (c : Coll) (arg : DtArg) : Except String Coll :=
  match arg with
  | .inst t => rewrap c.tag (c.shapes.filter (dtEquals t))
  | .ival i => rewrap c.tag (c.shapes.filter (dtIntersects i))
  | .other => .error "ERR:Value"

/-- `filter_by_intersection(shape)`; `xq x` is `x.intersects(shape)` -/
def filterByIntersection (c : Coll) (xq _qx : Shape → Bool) : Except String Coll :=
  rewrap c.tag (c.shapes.filter xq)

/-- `filter_contained_by(shape)`; `qx x` is `shape.contains(x)` (the *query* is the receiver) -/
def filterContainedBy (c : Coll) (_xq qx : Shape → Bool) : Except String Coll :=
  rewrap c.tag (c.shapes.filter qx)

/-- `filter_contains(shape)`; `xq x` is `x.contains(shape)` (the *member* is the receiver) -/
def filterContains (c : Coll) (xq _qx : Shape → Bool) : Except String Coll :=
  rewrap c.tag (c.shapes.filter xq)

/-- the loop of `filter_by_property`: `KeyError` at the first shape without the key -/
def filterPropLoop (key : String) (f : PVal → Bool) : List Shape → List Shape → Except String (List Shape)
  | [], acc => .ok acc
  | x :: xs, acc =>
    match assocGet x.properties key with
    | none => .error "ERR:Key"
    | some v => filterPropLoop key f xs (if f v then acc ++ [x] else acc)

/-- `filter_by_property` -/
def filterByProperty (c : Coll) (key : String) (f : PVal → Bool) : Except String Coll :=
  match filterPropLoop key f c.shapes [] with
  | .error e => .error e
  | .ok l => rewrap c.tag l

/-- `intersects(shape)` (`collections.py:425-445`); `qdt` is `shape.dt` -/
def intersects (c : Coll) (qdt : Option TI) (xq : Shape → Bool) : Except String Bool :=
  match qdt with
  | none => .ok (c.shapes.any xq)
  | some i => match filterByDt c (.ival i) with
    | .error e => .error e
    | .ok c' => .ok (c'.shapes.any xq)

/-! ### `FeatureCollection` / `Track` `__add__` and `FeatureCollection.__getitem__` (`606-672`) -/

/-- `__add__`: both classes insist on their own class -/
def add (a b : Coll) : Except String Coll :=
  match a.tag, b.tag with
  | .fc, .fc => .ok (mkFC (a.shapes ++ b.shapes))
  | .track, .track => mkTrack (a.shapes ++ b.shapes)
  | _, _ => .error "ERR:Value"

/-- `list.__getitem__(int)` -/
def getIdx (c : Coll) (i : Int) : Except String Shape :=
  let n : Int := c.shapes.length
  let j := if i < 0 then i + n else i
  if j < 0 ∨ j ≥ n then .error "ERR:Index"
  else match c.shapes[j.toNat]? with
    | some x => .ok x
    | none => .error "ERR:Index"

/-- `slice.indices(n)` → (start, step, length); `ValueError` for step 0 -/
def sliceIndices (n : Int) (a b s : Option Int) : Except String (Int × Int × Nat) :=
  let step := s.getD 1
  if step == 0 then .error "ERR:Value"
  else
    let neg := decide (step < 0)
    let clamp (v : Int) : Int :=
      if v < 0 then
        let v' := v + n
        if v' < 0 then (if neg then -1 else 0) else v'
      else if v ≥ n then (if neg then n - 1 else n) else v
    let start := match a with | none => (if neg then n - 1 else 0) | some v => clamp v
    let stop := match b with | none => (if neg then -1 else n) | some v => clamp v
    let len : Int :=
      if neg then (if stop < start then (start - stop - step - 1) / (-step) else 0)
      else (if start < stop then (stop - start + step - 1) / step else 0)
    .ok (start, step, len.toNat)

/-- `list.__getitem__(slice)`: a plain list -/
def getSlice (c : Coll) (a b s : Option Int) : Except String (List Shape) :=
  match sliceIndices c.shapes.length a b s with
  | .error e => .error e
  | .ok (start, step, len) =>
    .ok ((List.range len).filterMap fun (k : Nat) => c.shapes[(start + (k : Int) * step).toNat]?)

/-! ### `FeatureCollection.__eq__` (`collections.py:622-630`) -/

/-- `list == list` on lists of shapes: same length and pairwise `x is y or x == y` -/
def listEq : List Shape → List Shape → Bool
  | [], [] => true
  | x :: xs, y :: ys => sameOrEq x y && listEq xs ys
  | _, _ => false

/-- `FeatureCollection.__eq__(other)` for a collection `other`: its class is tested first -/
def eqFC (a b : Coll) : Bool := b.tag == .fc && listEq a.shapes b.shapes

/-- `Track.__eq__(other)` (`collections.py:674-682`) for a collection `other`: the same two tests with `Track` -/
def eqTrack (a b : Coll) : Bool := b.tag == .track && listEq a.shapes b.shapes

/-- `a == b` for two collections as the interpreter evaluates it: the `__eq__` of the left operand's class (neither
    returns `NotImplemented`, so the reflected method is never tried) -/
def eqColl (a b : Coll) : Bool :=
  match a.tag with
  | .fc => a.eqFC b
  | .track => a.eqTrack b

end Coll
end GV
