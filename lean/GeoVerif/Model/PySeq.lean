/-!
# Prelude of the source translator, part 2: statically sized sequences and sets keyed by a class's `__eq__`

Used by the units whose source sorts a two-element list, maps over a pair, or keeps a local `set` of objects of a
local class (`harness/py2lean.py`: `sorted([a, b])`, `[f(p) for p in pair]`, `s.add(x)`, `s.discard(x)`, `set(gen)`).
A set is modelled as the list of its elements, newest first, without two elements that are `__eq__`-equal.
-/
namespace GV.Py

/-- `sorted([a, b])` (stable: swapped only if `b < a`), as the pair `(xs[0], xs[1])` -/
def sort2 (a b : Rat) : Rat × Rat := if b < a then (b, a) else (a, b)

/-- `[f(p) for p in pair]` over a two-element tuple -/
def map2 {α β : Type} (f : α → β) (p : α × α) : β × β := (f p.1, f p.2)

/-- `s.add(x)`: nothing happens when an equal element is already present -/
def setAdd {α : Type} (eq : α → α → Bool) (x : α) (l : List α) : List α :=
  if l.any (fun y => eq y x) then l else x :: l

/-- `s.discard(x)`: the element equal to `x` (there is at most one) is removed, if any -/
def setDiscard {α : Type} (eq : α → α → Bool) (x : α) (l : List α) : List α :=
  l.eraseP (fun y => eq y x)

/-- `set(xs)`: the elements are added one by one -/
def mkSet {α : Type} (eq : α → α → Bool) (xs : List α) : List α :=
  xs.foldl (fun acc x => setAdd eq x acc) []

end GV.Py
