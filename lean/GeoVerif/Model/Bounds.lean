import GeoVerif.Model.Plane
import GeoVerif.Model.Coord
/-!
# Bounds of vertex-defined shapes, multi-shapes and collections; rectangle from bounds (exact rationals)

* `GV.bboxOf` (`Model/Plane.lean`): `min(lons), min(lats), max(lons), max(lats)` of `GeoPolygon.bounds`,
  `GeoLineString.bounds` (and `GeoPoint.bounds` for a single vertex);
* `boxBounds`: `GeoBox.bounds`;
* `unionBounds`: `MultiShapeBase.bounds` / `CollectionBase.bounds` — component-wise min / max of the members' bounds;
* `rectFromBounds`: `circumscribing_rectangle()` = `GeoBox(Coordinate(min_lon, max_lat), Coordinate(max_lon, min_lat))`,
  both corners passing through the normalising constructor (`Model/Coord.lean`).
-/
namespace GV.Bounds
open GV

abbrev BBox := Rat × Rat × Rat × Rat   -- (min_lon, min_lat, max_lon, max_lat)

/-- `GeoBox.bounds`: `(nw.lon, se.lat, se.lon, nw.lat)` -/
def boxBounds (nw se : Pt) : BBox := (nw.1, se.2, se.1, nw.2)

/-- `GeoPoint.bounds` -/
def pointBounds (p : Pt) : BBox := (p.1, p.2, p.1, p.2)

/-- `min(min_lons), min(min_lats), max(max_lons), max(max_lats)` (`None` for no members, where Python raises) -/
def unionBounds : List BBox → Option BBox
  | [] => none
  | b :: bs => some (bs.foldl (fun (u : BBox) c =>
      (minR u.1 c.1, minR u.2.1 c.2.1, maxR u.2.2.1 c.2.2.1, maxR u.2.2.2 c.2.2.2)) b)

/-- the two corners handed to `GeoBox` by `circumscribing_rectangle`, after `Coordinate.__init__` -/
def rectFromBounds (b : BBox) : Pt × Pt :=
  (normalize true b.1 b.2.2.2, normalize true b.2.2.1 b.2.1)

/-- `shape.circumscribing_rectangle().bounds` -/
def rectBounds (b : BBox) : BBox := boxBounds (rectFromBounds b).1 (rectFromBounds b).2

end GV.Bounds
