/-!
# Model of the shape hashing loops of `NiemeyerHasher` (`geostructures/geohash.py:579-751`)

The work-list loop of `_hash_polygon` / `_hash_linestring` (lines 600-616, 661-677) over an
**abstract cell type** `C`, with
* `nbrs : C → List C`      — `self._get_surrounding(gh, self.base)`
* `touches : C → Bool`     — `niemeyer_to_geobox(near_gh, base).intersects_shape(shape)`
* `pick : List C → Option C` — which element `queue.pop()` removes.  Python pops an *arbitrary*
  element of a `set`; the model takes the choice as a parameter (a *schedule*) and the theorems of
  `Props/C12` hold for every schedule.

Sets are lists without duplicates (`addSet`); the `while queue:` loop is fuelled recursion and
`Props/C12.flood_terminates` proves that `|grid| + 1` fuel always suffices on a finite grid.
`hash_collection` / `hash_coordinates` are the group-by `dict` of lists in insertion order followed
by `agg_fn`; the stock aggregators of `utils/agg_functions.py` are modelled on a shape record.
-/
namespace GV.Flood
variable {C : Type} [DecidableEq C]

/-- the three local sets of the loop -/
structure FState (C : Type) where
  valid : List C
  checked : List C
  queue : List C

/-- `set.add` -/
def addSet (x : C) (l : List C) : List C := if x ∈ l then l else x :: l

/-- the inner `for near_gh in self._get_surrounding(gh, self.base):` loop (lines 607-614 / 668-675) -/
def visit (touches : C → Bool) : List C → FState C → FState C
  | [], s => s
  | n :: ns, s =>
    if n ∈ s.checked then visit touches ns s
    else
      let s1 := { s with checked := n :: s.checked }
      if touches n then
        visit touches ns { s1 with valid := addSet n s1.valid, queue := addSet n s1.queue }
      else visit touches ns s1

/-- the outer `while queue:` loop with fuel; `pick q` is the element `queue.pop()` returns.
    `none` = the fuel ran out (or the schedule refused to pick): no result. -/
def floodGo (nbrs : C → List C) (touches : C → Bool) (pick : List C → Option C) :
    Nat → FState C → Option (List C)
  | 0, s => if s.queue = [] then some s.valid else none
  | fuel+1, s =>
    match s.queue with
    | [] => some s.valid
    | _ :: _ =>
      match pick s.queue with
      | none => none
      | some gh =>
        floodGo nbrs touches pick fuel (visit touches (nbrs gh) { s with queue := s.queue.erase gh })

/-- lines 600-603 / 661-664: `valid = {start}; queue = {start}; checked = {}` and the loop.
    `start` is *not* tested (`valid.add(start)` is unconditional) and not marked checked. -/
def flood (nbrs : C → List C) (touches : C → Bool) (pick : List C → Option C) (fuel : Nat) (start : C) :
    Option (List C) :=
  floodGo nbrs touches pick fuel ⟨[start], [], [start]⟩

/-- the multi-shape branches (lines 593-598, 632-637, 654-659):
    `{geohash for member in shape.geoshapes for geohash in self._hash_x(member)}` -/
def unionAll (hs : List (List C)) : List C :=
  hs.foldl (fun acc h => h.foldl (fun acc c => addSet c acc) acc) []

/-- what `hash_shape` needs to know about a shape: a point-like shape is the cell(s) of its
    coordinate(s) (`_coord_to_niemeyer`, C11); a line/polygon is the cell of its first vertex and its
    `touches` table; multi-shapes list their members -/
inductive ShapeDesc (C : Type) where
  | point (cell : C)
  | multiPoint (cells : List C)
  | single (start : C) (touches : C → Bool)
  | multi (members : List (C × (C → Bool)))

def allSome {α} : List (Option α) → Option (List α)
  | [] => some []
  | none :: _ => none
  | some a :: rest => (allSome rest).map (a :: ·)

/-- `NiemeyerHasher.hash_shape` (lines 733-751 with `_hash_point`, `_hash_linestring`, `_hash_polygon`) -/
def hashShape (nbrs : C → List C) (pick : List C → Option C) (fuel : Nat) : ShapeDesc C → Option (List C)
  | .point c => some [c]
  | .multiPoint cs => some (unionAll (cs.map fun c => [c]))
  | .single start touches => flood nbrs touches pick fuel start
  | .multi ms => (allSome (ms.map fun m => flood nbrs m.2 pick fuel m.1)).map unionAll

/-! ## `hash_collection`, `hash_coordinates`: group-by and aggregation -/

/-- `hash_dict[k].append(s)` on a `defaultdict(list)` (insertion-ordered) -/
def dictAppend {S : Type} : List (C × List S) → C → S → List (C × List S)
  | [], k, s => [(k, [s])]
  | (k', l) :: rest, k, s =>
    if k' = k then (k', l ++ [s]) :: rest else (k', l) :: dictAppend rest k s

/-- lines 703-706 / 728-730: `for shape in shapes: for gh in hash(shape): hash_dict[gh].append(shape)` -/
def groupBy {S : Type} (hash : S → List C) (shapes : List S) : List (C × List S) :=
  shapes.foldl (fun d s => (hash s).foldl (fun d c => dictAppend d c s) d) []

/-- line 707 / 731: `{h: agg_fn(shape_list) for h, shape_list in hash_dict.items()}` -/
def hashCollection {S A : Type} (hash : S → List C) (agg : List S → A) (shapes : List S) : List (C × A) :=
  (groupBy hash shapes).map fun kl => (kl.1, agg kl.2)

/-! ## the stock aggregators (`utils/agg_functions.py`) on a shape record -/

/-- what the aggregators can see of a shape: an identity, `dt.elapsed` in µs (`none`: no `dt`),
    and `properties['entity']` (`none`: key absent) -/
structure ShapeAttr where
  id : Nat
  elapsed : Option Int
  entity : Option String
deriving DecidableEq, Repr

/-- `len` (the default `agg_fn`) -/
def aggLen (l : List ShapeAttr) : Nat := l.length

/-- `total_time`: `sum(shape.dt.elapsed.total_seconds() if shape.dt else 0 …)`, in seconds -/
def totalTime (l : List ShapeAttr) : Rat :=
  (l.map fun s => match s.elapsed with | some us => (us : Rat) / 1000000 | none => 0).foldl (· + ·) 0

/-- a Python `set` built from a list -/
def toSet {α} [DecidableEq α] : List α → List α
  | [] => []
  | x :: xs => if x ∈ toSet xs then toSet xs else x :: toSet xs

/-- `unique_entities`: `float(len(set(entity of the shapes that have one)))` -/
def uniqueEntities (l : List ShapeAttr) : Nat := (toSet (l.filterMap (·.entity))).length

/-- a custom aggregator used by the correspondence: the identities, in list order -/
def aggIds (l : List ShapeAttr) : List Nat := l.map (·.id)

end GV.Flood
