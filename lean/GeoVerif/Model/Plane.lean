/-!
# Planar lon/lat primitives shared by the geometry models (exact rationals)

`Pt = (lon, lat)`.  Mirrors `_geometry.py`: `coordinate_vector_cross_product`, `ensure_edge_bounds`,
`is_counter_clockwise`, and the outline normalisation of `GeoPolygon.__init__`
(`structures.py:261-275`).
-/
namespace GV

abbrev Pt := Rat × Rat
abbrev Edge := Pt × Pt

def minR (a b : Rat) : Rat := if a ≤ b then a else b
def maxR (a b : Rat) : Rat := if a ≤ b then b else a
def absR (x : Rat) : Rat := if x < 0 then -x else x

/-- `coordinate_vector_cross_product(o, a, b)` -/
def cross (o a b : Pt) : Rat := (a.1 - o.1) * (b.2 - o.2) - (a.2 - o.2) * (b.1 - o.1)

/-- `ensure_edge_bounds`: un-wrap the second end point of an edge that crosses the antimeridian -/
def ensureEdge (a b : Pt) : Edge :=
  if absR (a.1 - b.1) > 180 then (a, (if a.1 < 0 then b.1 - 360 else b.1 + 360, b.2)) else (a, b)

/-- `zip(bounds, [*bounds[1:], bounds[0]])` -/
def cyclicPairs : List Pt → List Edge
  | [] => []
  | v :: vs => (v :: vs).zip (vs ++ [v])

/-- the sum inside `is_counter_clockwise` -/
def shoelace (ring : List Pt) : Rat :=
  ((cyclicPairs ring).map fun e =>
    let e' := ensureEdge e.1 e.2
    (e'.2.1 - e'.1.1) * (e'.2.2 + e'.1.2)).foldl (· + ·) 0

/-- `is_counter_clockwise` (`ans <= 0`) -/
def isCCW (ring : List Pt) : Bool := decide (shoelace ring ≤ 0)

/-- `if not outline[0] == outline[-1]: outline = [*outline, outline[0]]` -/
def closeRing (outline : List Pt) : List Pt :=
  match outline.head?, outline.getLast? with
  | some a, some b => if a = b then outline else outline ++ [a]
  | _, _ => outline

/-- `GeoPolygon.__init__`: close, then reverse unless counter-clockwise (clockwise for `_is_hole`) -/
def mkOutline (outline : List Pt) (isHole : Bool := false) : List Pt :=
  let o := closeRing outline
  if !(xor (isCCW o) isHole) then o.reverse else o

/-- `min lon, min lat, max lon, max lat` over a vertex list (`None` for the empty list, where Python raises) -/
def bboxOf : List Pt → Option (Rat × Rat × Rat × Rat)
  | [] => none
  | p :: ps => some (ps.foldl (fun (b : Rat × Rat × Rat × Rat) q =>
      (minR b.1 q.1, minR b.2.1 q.2, maxR b.2.2.1 q.1, maxR b.2.2.2 q.2)) (p.1, p.2, p.1, p.2))

end GV
