import GeoVerif.Model.Plane
/-!
# Model of this repository's side of the shapefile / GeoPandas / KML round trips (C20)

Everything on *our* side of the three library boundaries:

* `groupLoop` / `groupByFamily`     — `collections.py:519-537`
* `toPyshp`                         — per-type `to_pyshp` (`structures.py:212-222, 1614-1620, 1819-1824`,
                                      `multistructures.py:192-201, 391-397, 671-682`)
* `fromPyshp`                       — per-type `from_pyshp`
* `typemapOf`, `fieldType`, `recordOf`, `convertDt`, `writeShp` — `collections.py:539-590`
* `getDtShp`, `readShp`             — `collections.py:306-379`
* `toGeopandas`, `getDtGpd`, `fromGeopandas` — `collections.py:231-304, 467-487`
* `toPlacemark`, `toFolder`, `fromPlacemark`, `parseNode` — `_base.py:397-419, 531-556`,
                                      `time.py:88-123`, `parsers.py:27-89`, `collections.py:176-184, 447-453`

The three third-party serialisers are **not** modelled.  What they are *assumed* to do is written down
as the executable ideal channels `idealShp`, `idealGpd`, `idealKml` (the channel contracts): they are
hypotheses of the composed theorems in `Props/C20.lean` and are only ever *tested* against the real
libraries (streams `np-contract-*`).

Abstractions (validated by the correspondence, not proved): instants are `Int` µs; `isoformat` /
`fromisoformat` are an injective pair (`PVal.dt t ↦ PVal.iso t ↦ t`); float property values are opaque
tokens; coordinates are exact rationals that already lie in range (re-normalisation by the `Coordinate`
constructor is the identity there — C08); WKT text and the geo-interface are represented by the nested
coordinate tuples they carry (`GI`; the text level is C13's / C14's business).  `set` iteration order
(`_types`, `keys`) is modelled as first-insertion order; every output that inherits that order is
printed sorted by the driver.
-/
namespace GV.Io

/-! ## values -/

structure Coord where
  lon : Rat
  lat : Rat
  z : Option Rat
  m : Option Rat
deriving DecidableEq, Repr

def Coord.pt (c : Coord) : Pt := (c.lon, c.lat)

/-- `Coordinate.__eq__`: longitude, latitude and Z (M is not part of equality) -/
def Coord.eqv (a b : Coord) : Bool := decide (a.lon = b.lon ∧ a.lat = b.lat ∧ a.z = b.z)

/-- `Coordinate.to_float()`: `(lon, lat[, z][, m])` -/
abbrev Tuple := List Rat

def Coord.toFloat (c : Coord) : Tuple := [c.lon, c.lat] ++ c.z.toList ++ c.m.toList

/-- a ring / vertex list as the libraries see it -/
abbrev TRing := List Tuple

/-- `if not outline[0] == outline[-1]: outline = [*outline, outline[0]]` -/
def closeRingC (o : List Coord) : List Coord :=
  match o.head?, o.getLast? with
  | some a, some b => if a.eqv b then o else o ++ [a]
  | _, _ => o

/-- `GeoPolygon.__init__` (never called with `_is_hole` by the readers): close, then reverse unless
    `is_counter_clockwise` -/
def mkOutlineC (o : List Coord) : List Coord :=
  let c := closeRingC o
  if isCCW (c.map Coord.pt) then c else c.reverse

/-- stored state of a shape: `outline` / `holes[i].outline` / `vertices` / `coordinate` / members -/
inductive Geom
  | point (c : Coord)
  | line (vs : List Coord)
  | poly (outline : List Coord) (holes : List (List Coord))
  | mpoint (ps : List Coord)
  | mline (ls : List (List Coord))
  | mpoly (ps : List (List Coord × List (List Coord)))
  | other
deriving DecidableEq, Repr

/-- property values by Python type; `iso t` is the string `datetime.isoformat()` of instant `t`;
    `null` is `None` / `NaN` / `NaT` -/
inductive PVal
  | str (s : String)
  | int (i : Int)
  | float (tok : String)
  | bool (b : Bool)
  | dt (t : Int)
  | iso (t : Int)
  | null
deriving DecidableEq, Repr

abbrev Dict (α : Type) := List (String × α)

def dictGet {α} (d : Dict α) (k : String) : Option α := (d.find? (·.1 == k)).map (·.2)

/-- `d[k] = v`: replace in place, else append (insertion order kept) -/
def dictSet {α} : Dict α → String → α → Dict α
  | [], k, v => [(k, v)]
  | (k', v') :: rest, k, v => if k' == k then (k', v) :: rest else (k', v') :: dictSet rest k v

def dictDel {α} (d : Dict α) (k : String) : Dict α := d.filter (·.1 != k)

/-- `dict(pairs)` / a dict comprehension over `pairs` -/
def dictOf {α} (pairs : List (String × α)) : Dict α := pairs.foldl (fun d kv => dictSet d kv.1 kv.2) []

/-- `TimeInterval` as `(start, end)` in µs; `none` = no time bounds -/
abbrev Dt := Option (Int × Int)

structure Shape where
  geom : Geom
  dt : Dt
  props : Dict PVal          -- `_properties`
deriving DecidableEq, Repr

/-- the `properties` property: `_properties.copy()` plus the two time keys when `dt` is set -/
def Shape.properties (s : Shape) : Dict PVal :=
  match s.dt with
  | none => s.props
  | some (a, b) => dictSet (dictSet s.props "datetime_start" (.dt a)) "datetime_end" (.dt b)

/-! ## constructors as the readers call them -/

/-- `GeoPolygon(rings[0], holes=[GeoPolygon(r) for r in rings[1:]])`; an empty ring list / empty ring
    raises IndexError -/
def mkPoly (rings : List (List Coord)) : Except String (List Coord × List (List Coord)) :=
  match rings with
  | [] => .error "ERR:Index"
  | shell :: holes =>
    if shell.isEmpty || holes.any (·.isEmpty) then .error "ERR:Index"
    else .ok (mkOutlineC shell, holes.map mkOutlineC)

/-! ## families (`to_shapefile`) -/

inductive Family | points | multipoints | lines | shapes
deriving DecidableEq, Repr

def family : Geom → Option Family
  | .point _ => some .points
  | .mpoint _ => some .multipoints
  | .line _ => some .lines
  | .mline _ => some .lines
  | .poly _ _ => some .shapes
  | .mpoly _ => some .shapes
  | .other => none

structure Groups where
  points : List Shape := []
  multipoints : List Shape := []
  lines : List Shape := []
  shapes : List Shape := []
deriving Repr

/-- the classification loop of `to_shapefile` with its `raise ValueError` -/
def groupLoop : List Shape → Groups → Except String Groups
  | [], g => .ok g
  | s :: rest, g =>
    match family s.geom with
    | some .points => groupLoop rest { g with points := g.points ++ [s] }
    | some .multipoints => groupLoop rest { g with multipoints := g.multipoints ++ [s] }
    | some .lines => groupLoop rest { g with lines := g.lines ++ [s] }
    | some .shapes => groupLoop rest { g with shapes := g.shapes ++ [s] }
    | none => .error "ERR:Value"

def groupByFamily (coll : List Shape) : Except String Groups := groupLoop coll {}

/-- `(('points', points), ('multipoints', multipoints), ('lines', lines), ('shapes', shapes))` -/
def Groups.toList (g : Groups) : List (String × List Shape) :=
  [("points", g.points), ("multipoints", g.multipoints), ("lines", g.lines), ("shapes", g.shapes)]

/-! ## per-type `to_pyshp` -/

def hasZ : Geom → Bool
  | .point c => c.z.isSome
  | .line vs => vs.any (·.z.isSome)
  | .poly o _ => o.any (·.z.isSome)
  | .mpoint ps => ps.any (·.z.isSome)
  | .mline ls => ls.any (·.any (·.z.isSome))
  | .mpoly ps => ps.any (·.1.any (·.z.isSome))
  | .other => false

def hasM : Geom → Bool
  | .point c => c.m.isSome
  | .line vs => vs.any (·.m.isSome)
  | .poly o _ => o.any (·.m.isSome)
  | .mpoint ps => ps.any (·.m.isSome)
  | .mline ls => ls.any (·.any (·.m.isSome))
  | .mpoly ps => ps.any (·.1.any (·.m.isSome))
  | .other => false

/-- the three variants of every pyshp writer method: `point` / `pointz` / `pointm`, … -/
inductive Sfx | plain | z | m
deriving DecidableEq, Repr

inductive ShpBase | point | multipoint | line | poly
deriving DecidableEq, Repr

/-- which writer method: `if has_m and not has_z: …m; if has_z: …z; plain` -/
def suffix (g : Geom) : Sfx :=
  if hasM g && !hasZ g then .m else if hasZ g then .z else .plain

/-- `PolygonBase.linear_rings()`: the outline, then every hole's outline reversed -/
def linearRings (o : List Coord) (holes : List (List Coord)) : List (List Coord) :=
  o :: holes.map List.reverse

/-- one call on the pyshp writer: method name and its (part-structured) argument -/
structure ShpCall where
  base : ShpBase
  sfx : Sfx
  parts : List TRing
deriving DecidableEq, Repr

def ShpCall.method (c : ShpCall) : String :=
  (match c.base with | .point => "point" | .multipoint => "multipoint" | .line => "line" | .poly => "poly") ++
  (match c.sfx with | .plain => "" | .z => "z" | .m => "m")

/-- rings of one polygon as `to_pyshp` writes them: **every ring of `linear_rings()` reversed** -/
def polyParts (o : List Coord) (holes : List (List Coord)) : List TRing :=
  (linearRings o holes).map fun ring => ring.reverse.map Coord.toFloat

def toPyshp (g : Geom) : Option ShpCall :=
  match g with
  | .point c => some ⟨.point, suffix g, [[c.toFloat]]⟩
  | .mpoint ps => some ⟨.multipoint, suffix g, [ps.map Coord.toFloat]⟩
  | .line vs => some ⟨.line, suffix g, [vs.map Coord.toFloat]⟩
  | .mline ls => some ⟨.line, suffix g, ls.map (·.map Coord.toFloat)⟩
  | .poly o hs => some ⟨.poly, suffix g, polyParts o hs⟩
  | .mpoly ps => some ⟨.poly, suffix g, (ps.map fun p => polyParts p.1 p.2).flatten⟩
  | .other => none

/-! ## field typing, records, the writer -/

/-- `type(val)` -/
inductive PTag | str | int | float | bool | dt | none
deriving DecidableEq, Repr

def PVal.tag : PVal → PTag
  | .str _ => .str | .iso _ => .str | .int _ => .int | .float _ => .float
  | .bool _ => .bool | .dt _ => .dt | .null => .none

/-- dbf field kinds: `L`, `N` with a number of decimals, `C` -/
inductive FType | L | N (dec : Nat) | C
deriving DecidableEq, Repr

/-- the `issubclass` chain: bool first (it is an int), float, int, everything else text -/
def fieldType : PTag → FType
  | .bool => .L
  | .float => .N 15
  | .int => .N 0
  | _ => .C

/-- `_convert_dt` -/
def convertDt : PVal → PVal
  | .dt t => .iso t
  | v => v

def included (incl : Option (List String)) (k : String) : Bool :=
  match incl with
  | none => true
  | some [] => true            -- `not include_properties`
  | some l => l.contains k

/-- `typemap = dict(_types)`; insertion order stands in for the set's iteration order -/
def typemapOf (incl : Option (List String)) (group : List Shape) : Dict PTag :=
  dictOf ((group.map fun s => (s.properties.filter fun kv => included incl kv.1).map
    fun kv => (kv.1, kv.2.tag)).flatten)

/-- `writer.record(*[_convert_dt(props.get(k)) for k in typemap], idx)` -/
def recordOf (tm : Dict PTag) (s : Shape) (idx : Nat) : List PVal :=
  (tm.map fun kt => convertDt ((dictGet s.properties kt.1).getD .null)) ++ [.int idx]

structure ShpFileW where
  name : String
  fields : List (String × FType)
  rows : List (List PVal × ShpCall)
deriving Repr

def enumFrom {α} : Nat → List α → List (Nat × α)
  | _, [] => []
  | n, a :: as => (n, a) :: enumFrom (n + 1) as

def writeRows (tm : Dict PTag) : List (Nat × Shape) → Except String (List (List PVal × ShpCall))
  | [] => .ok []
  | (i, s) :: rest =>
    match toPyshp s.geom with
    | none => .error "ERR:Attr"
    | some call => (writeRows tm rest).map ((recordOf tm s i, call) :: ·)

def writeGroup (incl : Option (List String)) (name : String) (group : List Shape) : Except String ShpFileW :=
  let tm := typemapOf incl group
  (writeRows tm (enumFrom 0 group)).map fun rows =>
    { name := name, fields := (tm.map fun kt => (kt.1, fieldType kt.2)) ++ [("ID", .N 0)], rows := rows }

def writeGroups (incl : Option (List String)) : List (String × List Shape) → Except String (List ShpFileW)
  | [] => .ok []
  | (name, group) :: rest =>
    if group.isEmpty then writeGroups incl rest
    else do
      let f ← writeGroup incl name group
      let fs ← writeGroups incl rest
      pure (f :: fs)

/-- `CollectionBase.to_shapefile`: what reaches the pyshp writers, file after file -/
def writeShp (incl : Option (List String)) (coll : List Shape) : Except String (List ShpFileW) := do
  let g ← groupByFamily coll
  writeGroups incl g.toList

/-! ## what a pyshp reader hands back (`shape.__geo_interface__`, `shape.z`, `shape.m`, `record.as_dict()`) -/

abbrev ZList := Option (List (Option Rat))     -- `none`: the shape object has no such attribute

structure ShpShapeR where
  gtype : String
  coords : List (List (List Pt))               -- polygons → rings → 2-D points (uniform nesting)
  z : ZList
  m : ZList
deriving DecidableEq, Repr

structure ShpFileR where
  name : String
  rows : List (ShpShapeR × Dict PVal)
deriving Repr

/-- `z.pop(0) if z else None` -/
def popOpt : ZList → Option Rat × ZList
  | none => (none, none)
  | some [] => (none, some [])
  | some (x :: xs) => (x, some xs)

def readRing : List Pt → ZList → ZList → List Coord × ZList × ZList
  | [], z, m => ([], z, m)
  | p :: ps, z, m =>
    let zp := popOpt z
    let mp := popOpt m
    let r := readRing ps zp.2 mp.2
    (⟨p.1, p.2, zp.1, mp.1⟩ :: r.1, r.2.1, r.2.2)

def readRings : List (List Pt) → ZList → ZList → List (List Coord) × ZList × ZList
  | [], z, m => ([], z, m)
  | r :: rs, z, m =>
    let a := readRing r z m
    let b := readRings rs a.2.1 a.2.2
    (a.1 :: b.1, b.2.1, b.2.2)

def readPolys : List (List (List Pt)) → ZList → ZList → List (List (List Coord)) × ZList × ZList
  | [], z, m => ([], z, m)
  | p :: ps, z, m =>
    let a := readRings p z m
    let b := readPolys ps a.2.1 a.2.2
    (a.1 :: b.1, b.2.1, b.2.2)

def mapExcept {α β} (f : α → Except String β) : List α → Except String (List β)
  | [] => .ok []
  | a :: as => do
    let b ← f a
    let bs ← mapExcept f as
    pure (b :: bs)

/-- the six classes of `conv_map` / `_PARSER_MAP` -/
inductive Kind | point | line | poly | mpoint | mline | mpoly
deriving DecidableEq, Repr

/-- `conv_map` (identical in `from_shapefile`, `from_geopandas`) -/
def convMap (t : String) : Option Kind :=
  if t == "Point" then some .point
  else if t == "LineString" then some .line
  else if t == "Polygon" then some .poly
  else if t == "MultiPoint" then some .mpoint
  else if t == "MultiLineString" then some .mline
  else if t == "MultiPolygon" then some .mpoly
  else none

def Kind.gtype : Kind → String
  | .point => "Point" | .line => "LineString" | .poly => "Polygon"
  | .mpoint => "MultiPoint" | .mline => "MultiLineString" | .mpoly => "MultiPolygon"

/-- per-class `from_pyshp`.  `GeoPoint` reads `shape.z[0]` / `shape.m[0]`; all others pop front to
    back in vertex order. -/
def fromPyshp (k : Kind) (s : ShpShapeR) : Except String Geom :=
  match k with
  | .point =>
    match s.coords with
    | [[[p]]] =>
      let z := match s.z with | none => .ok none | some [] => .error "ERR:Index" | some (x :: _) => .ok x
      let m := match s.m with | none => .ok none | some [] => .error "ERR:Index" | some (x :: _) => .ok x
      do let zv ← z; let mv ← m; pure (.point ⟨p.1, p.2, zv, mv⟩)
    | _ => .error "ERR:Type"
  | .line => .ok (.line (readRings s.coords.flatten s.z s.m).1.flatten)
  | .mpoint => .ok (.mpoint (readRings s.coords.flatten s.z s.m).1.flatten)
  | .mline => .ok (.mline (readRings s.coords.flatten s.z s.m).1)
  | .poly =>
    match s.coords with
    | [rings] => (mkPoly (readRings rings s.z s.m).1).map fun p => .poly p.1 p.2
    | _ => .error "ERR:Type"
  | .mpoly => (mapExcept mkPoly (readPolys s.coords s.z s.m).1).map .mpoly

/-- truthiness + `datetime.fromisoformat` of one shapefile time field -/
def isoField : Option PVal → Except String (Option Int)
  | none => .ok none
  | some .null => .ok none
  | some (.str s) => if s.isEmpty then .ok none else .error "ERR:Value"
  | some (.iso t) => .ok (some t)
  | some (.int i) => if i = 0 then .ok none else .error "ERR:Type"
  | some (.bool b) => if b then .error "ERR:Type" else .ok none
  | some (.float _) => .error "ERR:Type"
  | some (.dt _) => .error "ERR:Type"

/-- what the shape constructors make of the `dt` argument: a datetime becomes the instant interval,
    `TimeInterval(a, b)` raises when `b < a` -/
def mkDt (s e : Option Int) : Except String Dt :=
  match s, e with
  | none, none => .ok none
  | some a, none => .ok (some (a, a))
  | none, some b => .ok (some (b, b))
  | some a, some b => if a = b then .ok (some (a, a)) else if b < a then .error "ERR:Value" else .ok (some (a, b))

/-- `_get_dt` of `from_shapefile` -/
def getDtShp (rec : Dict PVal) (fs fe : String) : Except String Dt := do
  let s ← isoField (dictGet rec fs)
  let e ← isoField (dictGet rec fe)
  mkDt s e

def readRow (fs fe : String) (row : ShpShapeR × Dict PVal) : Except String Shape :=
  match convMap row.1.gtype with
  | none => .error "ERR:Value"
  | some k => do
    let dt ← getDtShp row.2 fs fe
    let g ← fromPyshp k row.1
    pure { geom := g, dt := dt, props := (dictDel (dictDel row.2 fs) fe) }

/-- `CollectionBase.from_shapefile` over the layers of the archive, in archive order -/
def readShp (files : List ShpFileR) (fs : String := "datetime_s") (fe : String := "datetime_e") :
    Except String (List Shape) :=
  (mapExcept (fun f => mapExcept (readRow fs fe) f.rows) files).map List.flatten

/-! ## the shapefile channel contract (assumed of pyshp, tested by `np-contract-shp`) -/

/-- split one written tuple according to the writer method's suffix -/
def splitTuple (sfx : Sfx) (t : Tuple) : Pt × Option Rat × Option Rat :=
  let x := t.getD 0 0
  let y := t.getD 1 0
  match sfx with
  | .z => ((x, y), t[2]?, t[3]?)
  | .m => ((x, y), none, t[2]?)
  | .plain => ((x, y), none, none)

/-- sequential ring organisation: a clockwise ring opens a polygon, a counter-clockwise ring is a hole
    of the polygon opened before it -/
def organize : List (List Pt) → List (List (List Pt)) → List (List (List Pt))
  | [], acc => acc
  | r :: rs, acc =>
    if !isCCW r then organize rs (acc ++ [[r]])
    else match acc.getLast? with
      | none => organize rs [[r]]
      | some last => organize rs (acc.dropLast ++ [last ++ [r]])

/-- geometry side of the contract -/
def chanGeo (c : ShpCall) : ShpShapeR :=
  let sp := c.parts.map (·.map (splitTuple c.sfx))
  let pts := sp.map (·.map (·.1))
  let zl : ZList := match c.sfx with | .z => some (sp.flatten.map (·.2.1)) | _ => none
  let ml : ZList := match c.sfx with | .plain => none | _ => some (sp.flatten.map (·.2.2))
  match c.base with
  | .point => ⟨"Point", [pts], zl, ml⟩
  | .multipoint => ⟨"MultiPoint", [pts], zl, ml⟩
  | .line => ⟨if pts.length = 1 then "LineString" else "MultiLineString", [pts], zl, ml⟩
  | .poly =>
    let polys := organize pts []
    ⟨if polys.length = 1 then "Polygon" else "MultiPolygon", polys, zl, ml⟩

/-- record side of the contract: `C` returns text ('' for a null), `N`/`L` return the value or None.
    Only type-matching values are covered (the writer's field typing guarantees them when every key has
    one type, see `field_typing_compatible`). -/
def chanVal (t : FType) (v : PVal) : PVal :=
  match t, v with
  | .C, .null => .str ""
  | .C, .str s => .str s
  | .C, .iso x => .iso x
  | .N 0, .int i => .int i
  | .N (_ + 1), .float f => .float f
  | .L, .bool b => .bool b
  | _, _ => .null        -- a null in a numeric / logical field; anything else is outside the contract

/-- dbf field names are cut to ten characters -/
def chanName (k : String) : String := (k.take 10).toString

def chanRec (fields : List (String × FType)) (vals : List PVal) : Dict PVal :=
  (fields.zip vals).map fun fv => (chanName fv.1.1, chanVal fv.1.2 fv.2)

def idealShp (f : ShpFileW) : ShpFileR :=
  { name := f.name, rows := f.rows.map fun r => (chanGeo r.2, chanRec f.fields r.1) }

/-! ## geo-interface / WKT content (shared by GeoPandas and KML) -/

structure GI where
  gtype : String
  coords : List (List TRing)
deriving DecidableEq, Repr

/-- `__geo_interface__` / `to_wkt()`: the coordinates each of them carries -/
def toGI : Geom → Option GI
  | .point c => some ⟨"Point", [[[c.toFloat]]]⟩
  | .line vs => some ⟨"LineString", [[vs.map Coord.toFloat]]⟩
  | .poly o hs => some ⟨"Polygon", [(linearRings o hs).map (·.map Coord.toFloat)]⟩
  | .mpoint ps => some ⟨"MultiPoint", [[ps.map Coord.toFloat]]⟩
  | .mline ls => some ⟨"MultiLineString", [ls.map (·.map Coord.toFloat)]⟩
  | .mpoly ps => some ⟨"MultiPolygon", ps.map fun p => (linearRings p.1 p.2).map (·.map Coord.toFloat)⟩
  | .other => none

/-- `Coordinate(**dict(zip(('longitude','latitude','z'), x)))`: a fourth number is ignored, fewer than
    two raise TypeError.  The WKT readers (`zm_order` default) agree on up to three numbers. -/
def coordOfTuple (t : Tuple) : Except String Coord :=
  match t with
  | x :: y :: rest => .ok ⟨x, y, rest.head?, none⟩
  | _ => .error "ERR:Type"

def ringOfTuples (r : TRing) : Except String (List Coord) := mapExcept coordOfTuple r

/-- `cls.from_geojson(geo_interface)` / `cls.from_wkt(text)` for the class chosen by the caller; a
    geometry of another type is rejected with ValueError -/
def fromGI (k : Kind) (g : GI) : Except String Geom :=
  if g.gtype != k.gtype then .error "ERR:Value" else
  match k with
  | .point =>
    match g.coords with
    | [[[t]]] => (coordOfTuple t).map .point
    | _ => .error "ERR:Value"
  | .line => (mapExcept ringOfTuples g.coords.flatten).map fun rs => .line rs.flatten
  | .mpoint => (mapExcept ringOfTuples g.coords.flatten).map fun rs => .mpoint rs.flatten
  | .mline => (mapExcept ringOfTuples g.coords.flatten).map .mline
  | .poly =>
    match g.coords with
    | [rings] => do
      let rs ← mapExcept ringOfTuples rings
      let p ← mkPoly rs
      pure (.poly p.1 p.2)
    | _ => .error "ERR:Value"
  | .mpoly => do
    let ps ← mapExcept (fun rings => do let rs ← mapExcept ringOfTuples rings; mkPoly rs) g.coords
    pure (.mpoly ps)

/-! ## GeoPandas -/

/-- union of the property keys, first-insertion order standing in for the set's order -/
def keyUnion (coll : List Shape) : List String :=
  (dictOf (coll.map fun s => s.properties.map fun kv => (kv.1, ())).flatten).map (·.1)

structure GpdFrameW where
  rows : List (Dict PVal)        -- one dict per shape, every key of `keys`, `None` where absent
  geoms : List GI                -- `[x.to_wkt() for x in self.geoshapes]`
deriving Repr

/-- `x.to_wkt()` (AttributeError on an object that is no geoshape) -/
def giOrErr (s : Shape) : Except String GI :=
  match toGI s.geom with
  | some g => .ok g
  | none => .error "ERR:Attr"

def toGeopandas (incl : Option (List String)) (coll : List Shape) : Except String GpdFrameW :=
  let keys := match incl with
    | some (k :: ks) => k :: ks
    | _ => keyUnion coll
  (mapExcept giOrErr coll).map
    fun gs => { rows := coll.map fun s => keys.map fun k => (k, (dictGet s.properties k).getD .null),
                geoms := gs }

structure GpdRowR where
  cells : Dict PVal              -- every column but `geometry`
  geomType : String              -- `record['geometry'].geom_type`
  wkt : GI                       -- `record['geometry'].wkt`
deriving Repr

structure GpdFrameR where
  columns : List String          -- without `geometry`
  rows : List GpdRowR
deriving Repr

/-- `not pd.isnull(v) and isinstance(v, datetime)` -/
def isDtVal : Option PVal → Option Int
  | some (.dt t) => some t
  | _ => none

/-- truthiness of a frame cell (`NaT`/`NaN` are truthy objects, `None` is not; only reached when one
    of the two cells is a datetime) -/
def cellTruthy : Option PVal → Bool
  | none => false
  | some (.str s) => !s.isEmpty
  | some (.int i) => i != 0
  | some (.bool b) => b
  | _ => true

/-- `_get_dt` of `from_geopandas`.  Modelled domain: both cells datetimes, neither a datetime, or one
    datetime next to an absent / `None` cell.  A datetime next to `NaT` (a *truthy* datetime instance
    that ends up inside the `TimeInterval`) or next to another truthy object is outside the model (the
    `ERR:Type` answer below is a placeholder); the generators never produce such frames. -/
def getDtGpd (rec : Dict PVal) (fs fe : String) : Except String Dt :=
  let s := dictGet rec fs
  let e := dictGet rec fe
  match isDtVal s, isDtVal e with
  | none, none => .ok none
  | some a, some b => mkDt (some a) (some b)
  | some a, none => if cellTruthy e then .error "ERR:Type" else mkDt (some a) none
  | none, some b => if cellTruthy s then .error "ERR:Type" else mkDt none (some b)

def fromGpdRow (cols : List String) (fs fe : String) (r : GpdRowR) : Except String Shape :=
  match convMap r.geomType with
  | none => .error "ERR:Value"
  | some k => do
    let dt ← getDtGpd r.cells fs fe
    let g ← fromGI k r.wkt
    pure { geom := g, dt := dt,
           props := r.cells.filter fun kv => cols.contains kv.1 && kv.1 != fs && kv.1 != fe }

/-- `CollectionBase.from_geopandas` -/
def fromGeopandas (f : GpdFrameR) (fs : String := "datetime_start") (fe : String := "datetime_end") :
    Except String (List Shape) :=
  mapExcept (fromGpdRow f.columns fs fe) f.rows

/-- 16 lower-case hex digits of the IEEE-754 bit pattern of `float(i)` (the float token format) -/
def floatTok (i : Int) : String :=
  let n := (Float.ofInt i).toBits.toNat
  let hexChar (d : Nat) : Char := if d < 10 then Char.ofNat ('0'.toNat + d) else Char.ofNat ('a'.toNat + (d - 10))
  String.ofList ((List.range 16).reverse.map fun k => hexChar ((n / 16 ^ k) % 16))

/-- pandas: an integer column that holds a null is a float column -/
def promoted (rows : List (Dict PVal)) (k : String) : Bool :=
  let vals := rows.map fun r => (dictGet r k).getD .null
  vals.any (· == .null) && vals.any (· != .null) &&
    vals.all fun v => match v with | .null => true | .int _ => true | _ => false

def promoteCell (p : Bool) (v : PVal) : PVal :=
  match p, v with
  | true, .int i => .float (floatTok i)
  | _, v => v

/-- GeoPandas channel contract: rows come back in order with every key (nulls stay nulls, an integer
    column with a null comes back as floats), the geometry column reports the type it was given and
    the same coordinates -/
def idealGpd (w : GpdFrameW) : GpdFrameR :=
  { columns := (w.rows.head?.getD []).map (·.1),
    rows := (w.rows.zip w.geoms).map fun rg =>
      { cells := rg.1.map fun kv => (kv.1, promoteCell (promoted w.rows kv.1) kv.2),
        geomType := rg.2.gtype, wkt := rg.2 } }

/-! ## KML -/

inductive KTime
  | none
  | stamp (t : Int)
  | span (b e : Int)
deriving DecidableEq, Repr

structure Placemark where
  geom : Option GI
  data : Option (Dict PVal)      -- `extended_data.elements` as (name, value); `none`: no extended data
  times : KTime
  name : Option String := none
  description : Option String := none
  address : Option String := none
  phone : Option String := none
deriving Repr

/-- `TimeInterval._to_fastkml` -/
def toKTime : Dt → KTime
  | none => .none
  | some (a, b) => if a = b then .stamp a else .span a b

/-- `BaseShape.to_fastkml_placemark`: geometry through the geo interface, extended data from
    `_properties` (not `properties`), time stamp vs span by `start == end` -/
def toPlacemark (s : Shape) : Except String Placemark :=
  match toGI s.geom with
  | none => .error "ERR:Attr"
  | some g => .ok { geom := some g, data := some s.props, times := toKTime s.dt }

inductive KNode
  | folder (name : Option String) (kids : List KNode)
  | document (kids : List KNode)
  | kml (kids : List KNode)
  | pm (p : Placemark)
  | other

/-- `CollectionBase.to_fastkml_folder` -/
def toFolder (name : String) (coll : List Shape) : Except String KNode :=
  (mapExcept toPlacemark coll).map fun ps => .folder (some name) (ps.map .pm)

/-- `TimeInterval._from_fastkml` + constructor -/
def fromKTime : KTime → Except String Dt
  | .none => .ok none
  | .stamp t => .ok (some (t, t))
  | .span b e => if e < b then .error "ERR:Value" else .ok (some (b, e))

/-- `_PARSER_MAP[geometry.__geo_interface__['type'].upper()]` (KeyError for anything else) -/
def parserMap (t : String) : Option Kind :=
  let u := t.toUpper
  if u == "POINT" then some .point
  else if u == "LINESTRING" then some .line
  else if u == "POLYGON" then some .poly
  else if u == "MULTIPOINT" then some .mpoint
  else if u == "MULTILINESTRING" then some .mline
  else if u == "MULTIPOLYGON" then some .mpoly
  else none

def setOpt (d : Dict PVal) (k : String) (v : Option String) : Dict PVal :=
  match v with
  | none => d
  | some s => dictSet d k (.str s)

/-- one placemark inside `parse_fastkml`: `from_fastkml_placemark`, then the container names
    (`props = shape._properties or {}; props.update(_props)` — an *empty* property dict is falsy, so the
    update goes to a fresh dict and is lost), then name / description / address / phone_number -/
def fromPlacemark (ctx : Dict PVal) (p : Placemark) : Except String (Option Shape) :=
  match p.geom with
  | none => .ok none
  | some g =>
    match parserMap g.gtype with
    | none => .error "ERR:Key"
    | some k => do
      let dt ← fromKTime p.times
      let props := match p.data with | none => [] | some d => dictOf d
      let geom ← fromGI k g
      let props1 := if props.isEmpty then props else ctx.foldl (fun d kv => dictSet d kv.1 kv.2) props
      let props2 := setOpt (setOpt (setOpt (setOpt props1 "name" p.name) "description" p.description)
        "address" p.address) "phone_number" p.phone
      pure (some { geom := geom, dt := dt, props := props2 })

/-- `kml.name or 'Unnamed Folder'`: a missing **or empty** name -/
def folderLabel (name : Option String) : String :=
  match name with
  | some n => if n.isEmpty then "Unnamed Folder" else n
  | none => "Unnamed Folder"

mutual
/-- `parse_fastkml`: the context dict `_props` and the result list are threaded through the recursion
    exactly as the two mutable arguments are (a sub-folder's name stays in `_props` after the folder
    has been left) -/
def parseNode (depth : Nat) (n : KNode) (st : Dict PVal × List Shape) :
    Except String (Dict PVal × List Shape) :=
  match n with
  | .folder name kids =>
    parseKids (depth + 1) kids (dictSet st.1 s!"sub_folder_{depth}" (.str (folderLabel name)), st.2)
  | .document kids => parseKids (depth + 1) kids st
  | .kml kids => parseKids (depth + 1) kids st
  | .pm p => do
    let r ← fromPlacemark st.1 p
    match r with
    | none => pure st
    | some s => pure (st.1, st.2 ++ [s])
  | .other => .ok st
def parseKids (depth : Nat) (kids : List KNode) (st : Dict PVal × List Shape) :
    Except String (Dict PVal × List Shape) :=
  match kids with
  | [] => .ok st
  | k :: ks => do
    let st' ← parseNode depth k st
    parseKids depth ks st'
end

/-- `CollectionBase.from_fastkml_folder` -/
def fromFolder (n : KNode) : Except String (List Shape) := (parseNode 0 n ([], [])).map (·.2)

/-- KML channel contract: the object tree comes back as given (placemark order, geometry
    coordinates, extended-data strings, time stamps / spans) -/
def idealKml (n : KNode) : KNode := n

/-! ## in-place updates between two exports (`_base.py` set_dt / strip_dt / buffer_dt / set_property, and
list operations on `collection.geoshapes`).  The writers above are functions of the *current* state only:
whatever was read, exported or cached before an update must not show in a later export. -/

inductive HOp
  | setDt (i : Nat) (dt : Dt)                 -- `set_dt(datetime | TimeInterval | None)`, `strip_dt()`, `shape.dt = …`
  | buffer (i : Nat) (b : Int)                -- `buffer_dt(timedelta)`
  | setProp (i : Nat) (k : String) (v : PVal) -- `set_property(k, v)`
  | append (s : Shape)                        -- `geoshapes.append(s)`
  | replace (i : Nat) (s : Shape)             -- `geoshapes[i] = s`
  | remove (i : Nat)                          -- `del geoshapes[i]`
  | observe                                   -- any read: `.properties`, `to_geojson()`, `hash`, `bounds`, an export …

def updateAt (coll : List Shape) (i : Nat) (f : Shape → Except String Shape) : Except String (List Shape) :=
  match coll[i]? with
  | none => .error "ERR:Index"
  | some s => (f s).map fun s' => coll.set i s'

/-- `buffer_dt`: ValueError without time bounds, and from `TimeInterval(…)` when the interval would turn over -/
def bufferDt (s : Shape) (b : Int) : Except String Shape :=
  match s.dt with
  | none => .error "ERR:Value"
  | some (a, e) => if e + b < a - b then .error "ERR:Value" else .ok { s with dt := some (a - b, e + b) }

def applyOp (coll : List Shape) : HOp → Except String (List Shape)
  | .setDt i dt => updateAt coll i fun s => .ok { s with dt := dt }
  | .buffer i b => updateAt coll i fun s => bufferDt s b
  | .setProp i k v => updateAt coll i fun s => .ok { s with props := dictSet s.props k v }
  | .append s => .ok (coll ++ [s])
  | .replace i s => updateAt coll i fun _ => .ok s
  | .remove i => if i < coll.length then .ok (coll.eraseIdx i) else .error "ERR:Index"
  | .observe => .ok coll

def applyOps : List Shape → List HOp → Except String (List Shape)
  | coll, [] => .ok coll
  | coll, op :: ops => do
    let c ← applyOp coll op
    applyOps c ops

end GV.Io
