import GeoVerif.Model.Plane
/-!
# Model of `Coordinate.__init__` normalisation (`coordinates.py:26-44`), exact rationals

The two `while` loops become fuelled recursion; `fuelLat`/`fuelLon` are the computed iteration bounds and
Props/C08 proves they never run out.
-/
namespace GV

def latStep (lon lat : Rat) : Rat × Rat :=
  (if lon < 0 then lon + 180 else lon - 180, if lat > 90 then 90 - (lat - 90) else -90 - (lat + 90))

/-- `while not -90 <= lat <= 90:` -/
def latLoop : Nat → Rat → Rat → Rat × Rat
  | 0, lon, lat => (lon, lat)
  | n+1, lon, lat =>
    if -90 ≤ lat ∧ lat ≤ 90 then (lon, lat)
    else latLoop n (latStep lon lat).1 (latStep lon lat).2

/-- `while not -180 <= lon <= 180:` -/
def lonLoop : Nat → Rat → Rat
  | 0, lon => lon
  | n+1, lon => if -180 ≤ lon ∧ lon ≤ 180 then lon else lonLoop n (if lon > 180 then lon - 360 else lon + 360)

def fuelLat (lat : Rat) : Nat := ((absR lat + 90) / 180).floor.toNat + 1
def fuelLon (lon : Rat) : Nat := ((absR lon + 180) / 360).floor.toNat + 1

/-- `Coordinate(lon, lat, _bounded=bounded)` ↦ stored `(longitude, latitude)`.
    The `lon == 180 → -180` fold sits inside `if _bounded:` (an un-bounded coordinate — the far end of an
    edge un-wrapped by `ensure_edge_bounds` — keeps a longitude of 180). -/
def normalize (bounded : Bool) (lon lat : Rat) : Rat × Rat :=
  if bounded then
    let r := latLoop (fuelLat lat) lon lat
    let lon1 := lonLoop (fuelLon r.1) r.1
    (if lon1 = 180 then -180 else lon1, r.2)
  else (lon, lat)

end GV
