import GeoVerif.Model.Geohash
import GeoVerif.Model.Flood
import GeoVerif.Drv.Util
/-!
# Driver handler for stream `gh` (C11, Niemeyer codec)

Geohash tokens: `s<chars>` when every character is an ASCII letter/digit/`=`/`_`, else
`u<codepoint>.<codepoint>…` (so that blanks and arbitrary characters can cross the pipe).
-/
namespace GV.Drv.C11
open GV GV.Geohash GV.Drv

def safeChar (c : Char) : Bool :=
  ('0' ≤ c && c ≤ '9') || ('a' ≤ c && c ≤ 'z') || ('A' ≤ c && c ≤ 'Z') || c == '=' || c == '_'

def parseHash (t : String) : Option (List Char) :=
  match t.toList with
  | 's' :: rest => some rest
  | 'u' :: rest =>
    if rest.isEmpty then some []
    else optAll (((String.ofList rest).splitOn ".").map fun x => x.toNat?.map Char.ofNat)
  | _ => none

def showHash (h : List Char) : String :=
  if h.all safeChar then "s" ++ String.ofList h
  else "u" ++ ".".intercalate (h.map fun c => toString c.toNat)

def showHashes (hs : List (List Char)) : String := " ".intercalate (hs.map showHash)

def sortStrs (l : List String) : List String := l.mergeSort (fun a b => decide (a ≤ b))

def ptLe (a b : Pt) : Bool := decide (a.1 < b.1) || (decide (a.1 = b.1) && decide (a.2 ≤ b.2))

def showExcept {α} (f : α → String) : Except String α → String
  | .ok a => f a
  | .error e => e

/-- closed cell `[lon−e, lon+e] × [lat−e', lat+e']` as `(x0, y0, x1, y1)` -/
def cellOf (d : Rat × Rat × Rat × Rat) : Rat × Rat × Rat × Rat :=
  (d.1 - d.2.2.1, d.2.1 - d.2.2.2, d.1 + d.2.2.1, d.2.1 + d.2.2.2)

def cellInside (a b : Rat × Rat × Rat × Rat) : Bool :=
  decide (b.1 ≤ a.1) && decide (b.2.1 ≤ a.2.1) && decide (a.2.2.1 ≤ b.2.2.1) && decide (a.2.2.2 ≤ b.2.2.2)

def cellsOverlap (a b : Rat × Rat × Rat × Rat) : Bool :=
  decide (maxR a.1 b.1 < minR a.2.2.1 b.2.2.1) && decide (maxR a.2.1 b.2.1 < minR a.2.2.2 b.2.2.2)

def cellArea (a : Rat × Rat × Rat × Rat) : Rat := (a.2.2.1 - a.1) * (a.2.2.2 - a.2.1)

def pairwiseNoOverlap : List (Rat × Rat × Rat × Rat) → Bool
  | [] => true
  | a :: rest => rest.all (fun b => !cellsOverlap a b) && pairwiseNoOverlap rest

/-- round trip of one coordinate: `<len> <alphabet> <cell contains> <shorter encodings are prefixes>` -/
def roundTrip (base len : Nat) (lon lat : Rat) : String :=
  let p := normalize true lon lat
  match encode base p.1 p.2 len with
  | .error e => e
  | .ok h =>
    match decode base h, cfgOf base with
    | .ok d, some cfg =>
      let c := cellOf d
      let inside := decide (c.1 ≤ p.1) && decide (p.1 ≤ c.2.2.1) && decide (c.2.1 ≤ p.2) && decide (p.2 ≤ c.2.2.2)
      let pre := (List.range len).all fun l =>
        match encode base p.1 p.2 l with | .ok h' => h' == h.take l | .error _ => false
      s!"{h.length} {showBool (h.all (· ∈ cfg.charset))} {showBool inside} {showBool pre}"
    | .error e, _ => "dec:" ++ e
    | _, none => "ERR:Key"

/-- children of a cell: `<count> <all inside parent> <pairwise interior-disjoint> <areas add up>` -/
def tileCheck (base : Nat) (h : List Char) : String :=
  match subhashes base h, decode base h with
  | .ok kids, .ok d =>
    match mapExcept (decode base) kids with
    | .ok ds =>
      let p := cellOf d
      let cs := ds.map cellOf
      let area := (cs.map cellArea).foldl (· + ·) 0
      s!"{kids.length} {showBool (cs.all (cellInside · p))} {showBool (pairwiseNoOverlap cs)} {showBool (area == cellArea p)}"
    | .error e => "kid:" ++ e
  | .error e, _ => e
  | _, .error e => e

def showBox (b : Box) : String :=
  s!"{showRat b.nw.1} {showRat b.nw.2} {showRat b.se.1} {showRat b.se.2}"

def showPoly (o : List Pt) : String :=
  let closed := match o.head?, o.getLast? with | some a, some b => decide (a = b) | _, _ => false
  let vs := (GV.Geohash.toSet o).mergeSort ptLe
  s!"{showBool closed} {showPts vs}"

def showAssoc (l : List (String × String)) : String :=
  " ".intercalate ((l.mergeSort fun a b => decide (a.1 ≤ b.1)).map fun kv => kv.1 ++ "=" ++ kv.2)

/-- `hash_coordinates`: group the coordinates (identified by their list index) by cell -/
def hashCoords (base len : Nat) (agg : String) (pts : List Pt) : String :=
  match mapExcept (fun (p : Pt) => encodeCoord base p.1 p.2 len) pts with
  | .error e => e
  | .ok hs =>
    let items := (List.range pts.length).zip hs
    let groups := Flood.groupBy (fun (it : Nat × List Char) => [showHash it.2]) items
    showAssoc (groups.map fun kl =>
      (kl.1, if agg == "len" then toString kl.2.length
             else ".".intercalate (kl.2.map fun it => toString it.1)))

end GV.Drv.C11

namespace GV.Drv
open GV GV.Geohash GV.Drv.C11

def handleGH (op : String) (args : List String) : String :=
  match op, args with
  | "dec", [b, h] =>
    match parseNat b, parseHash h with
    | some b, some h => showExcept (fun d => s!"{showRat d.1} {showRat d.2.1} {showRat d.2.2.1} {showRat d.2.2.2}") (decode b h)
    | _, _ => "bad-op"
  | "enc", [b, l, x, y] =>
    match parseNat b, parseNat l, parseRat x, parseRat y with
    | some b, some l, some x, some y => showExcept showHash (encodeCoord b x y l)
    | _, _, _, _ => "bad-op"
  | "encp", [b, l, x, y] =>
    match parseNat b, parseNat l, parseRat x, parseRat y with
    | some b, some l, some x, some y => showExcept showHash (encodeCoord b x y l)
    | _, _, _, _ => "bad-op"
  | "enczm", [b, l, x, y, _z, _m] =>
    -- a coordinate that carries Z and/or M (`-` = absent): the geohash is that of its longitude / latitude
    match parseNat b, parseNat l, parseRat x, parseRat y with
    | some b, some l, some x, some y => showExcept showHash (encodeCoord b x y l)
    | _, _, _, _ => "bad-op"
  | "rt", [b, l, x, y] =>
    match parseNat b, parseNat l, parseRat x, parseRat y with
    | some b, some l, some x, some y => roundTrip b l x y
    | _, _, _, _ => "bad-op"
  | "cen", [b, h] =>
    match parseNat b, parseHash h with
    | some b, some h =>
      match decode b h with
      | .ok d => showExcept showHash (encodeCoord b d.1 d.2.1 h.length)
      | .error e => e
    | _, _ => "bad-op"
  | "sub", [b, h] =>
    match parseNat b, parseHash h with
    | some b, some h => showExcept (fun ks => " ".intercalate (sortStrs (ks.map showHash))) (subhashes b h)
    | _, _ => "bad-op"
  | "tile", [b, h] =>
    match parseNat b, parseHash h with
    | some b, some h => tileCheck b h
    | _, _ => "bad-op"
  | "box", [b, h] =>
    match parseNat b, parseHash h with
    | some b, some h => showExcept showBox (cellBox b h)
    | _, _ => "bad-op"
  | "gbox", [b, h] =>
    match parseNat b, parseHash h with
    | some b, some h => showExcept showBox (cellBox b h)
    | _, _ => "bad-op"
  | "boxhas", [b, l, x, y] =>
    match parseNat b, parseNat l, parseRat x, parseRat y with
    | some b, some l, some x, some y =>
      let p := normalize true x y
      match encode b p.1 p.2 l with
      | .ok h => showExcept (fun bx => showBool (bx.contains p)) (cellBox b h)
      | .error e => e
    | _, _, _, _ => "bad-op"
  | "poly", [b, h] =>
    match parseNat b, parseHash h with
    | some b, some h => showExcept showPoly (cellPolygon b h)
    | _, _ => "bad-op"
  | "sur", [b, h] =>
    match parseNat b, parseHash h with
    | some b, some h => showExcept showHashes (surrounding b h)
    | _, _ => "bad-op"
  | "hc", b :: l :: agg :: coords =>
    match parseNat b, parseNat l, parsePts coords with
    | some b, some l, some pts => hashCoords b l agg pts
    | _, _, _ => "bad-op"
  | _, _ => "bad-op"

end GV.Drv
