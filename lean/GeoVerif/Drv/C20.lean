import GeoVerif.Model.Io
import GeoVerif.Drv.Util
/-!
# Driver handler for C20 (stream prefix `io`)

Token grammar (single spaces; strings percent-quoted, so a token never contains a space):

```
coll   := shape*
shape  := "S" kind dt props geom3(coord)
kind   := pt | ln | pg | mpt | mln | mpg | xx          (xx: not a geoshape; geometry "0")
dt     := "-" | <start>,<end>                          (µs)
props  := <n> ("k"<key> val){n}
val    := "s"<text> | "i"<int> | "f"<16 hex> | "bT" | "bF" | "d"<µs> | "t"<µs> | "n"
geom3(x) := <npolys> (<nrings> (<npts> x{npts}){nrings}){npolys}
coord  := lon,lat,z,m   (rationals p/q, "-" for None)      tuple := r,r[,r[,r]]     pt := x,y
```
Outputs use the same grammar; dict-valued outputs are sorted by key.
-/
namespace GV.Drv.C20

abbrev P := StateT (List String) Option

def tok : P String := fun ts => match ts with | [] => none | t :: r => some (t, r)
def lift {α} (o : Option α) : P α := fun ts => o.map (·, ts)
def pNat : P Nat := do lift (← tok).toNat?
def rep {α} (p : P α) : Nat → P (List α)
  | 0 => pure []
  | n + 1 => do let a ← p; let r ← rep p n; pure (a :: r)
def counted {α} (p : P α) : P (List α) := do rep p (← pNat)

/-! percent quoting -/

def safeChar (c : Char) : Bool :=
  c.isAlphanum || c == '_' || c == '.' || c == '-' || c == '~'

def hexUp (n : Nat) : Char :=
  if n < 10 then Char.ofNat ('0'.toNat + n) else Char.ofNat ('A'.toNat + (n - 10))

def quote (s : String) : String :=
  String.join (s.toList.map fun c =>
    if safeChar c then c.toString
    else String.join ((String.singleton c).toUTF8.toList.map fun b =>
      "%" ++ (hexUp (b.toNat / 16)).toString ++ (hexUp (b.toNat % 16)).toString))

def hexVal (c : Char) : Option Nat :=
  if '0' ≤ c ∧ c ≤ '9' then some (c.toNat - '0'.toNat)
  else if 'a' ≤ c ∧ c ≤ 'f' then some (c.toNat - 'a'.toNat + 10)
  else if 'A' ≤ c ∧ c ≤ 'F' then some (c.toNat - 'A'.toNat + 10)
  else none

def unquoteBytes : List Char → Option (List UInt8)
  | [] => some []
  | '%' :: a :: b :: rest => do
    let x ← hexVal a; let y ← hexVal b; let r ← unquoteBytes rest
    pure (UInt8.ofNat (x * 16 + y) :: r)
  | c :: rest => do
    let r ← unquoteBytes rest
    pure ((String.singleton c).toUTF8.toList ++ r)

def unquote (s : String) : Option String := do
  let bs ← unquoteBytes s.toList
  String.fromUTF8? (ByteArray.mk bs.toArray)

/-! parsing -/

def optRat (s : String) : Option (Option Rat) :=
  if s == "-" then some none else (parseRat s).map some

def parseCoord (s : String) : Option Io.Coord :=
  match s.splitOn "," with
  | [a, b, c, d] => do
    let lon ← parseRat a; let lat ← parseRat b; let z ← optRat c; let m ← optRat d
    pure ⟨lon, lat, z, m⟩
  | _ => none

def parseTuple (s : String) : Option Io.Tuple := optAll ((s.splitOn ",").map parseRat)

def parsePt (s : String) : Option Pt :=
  match s.splitOn "," with
  | [a, b] => do let x ← parseRat a; let y ← parseRat b; pure (x, y)
  | _ => none

def geom3 {α} (f : String → Option α) : P (List (List (List α))) :=
  counted (counted (counted (do lift (f (← tok)))))

def parseVal (s : String) : Option Io.PVal :=
  match s.toList with
  | 's' :: r => (unquote (String.ofList r)).map .str
  | 'i' :: r => (String.ofList r).toInt?.map .int
  | 'f' :: r => some (.float (String.ofList r))
  | ['b', 'T'] => some (.bool true)
  | ['b', 'F'] => some (.bool false)
  | 'd' :: r => (String.ofList r).toInt?.map .dt
  | 't' :: r => (String.ofList r).toInt?.map .iso
  | ['n'] => some .null
  | _ => none

def parseKey (s : String) : Option String :=
  match s.toList with
  | 'k' :: r => unquote (String.ofList r)
  | _ => none

def pDict : P (Io.Dict Io.PVal) :=
  counted (do let k ← lift (parseKey (← tok)); let v ← lift (parseVal (← tok)); pure (k, v))

def parseDt (s : String) : Option Io.Dt :=
  if s == "-" then some none else
  -- an `@n` / `@o<minutes>` suffix only says how the harness represents the instants (naive / offset)
  match ((s.splitOn "@").headD "").splitOn "," with
  | [a, b] => do let x ← a.toInt?; let y ← b.toInt?; pure (some (x, y))
  | _ => none

/-- build the stored geometry from constructor input (polygons go through `GeoPolygon.__init__`) -/
def buildGeom (kind : String) (g : List (List (List Io.Coord))) : Option (Except String Io.Geom) :=
  match kind, g with
  | "pt", [[[c]]] => some (.ok (.point c))
  | "ln", [[vs]] => some (.ok (.line vs))
  | "mpt", [[ps]] => some (.ok (.mpoint ps))
  | "mln", [ls] => some (.ok (.mline ls))
  | "pg", [rings] => some ((Io.mkPoly rings).map fun p => .poly p.1 p.2)
  | "mpg", polys => some ((Io.mapExcept Io.mkPoly polys).map .mpoly)
  | "xx", [] => some (.ok .other)
  | _, _ => none

def pShape : P (Except String Io.Shape) := do
  let s ← tok
  if s != "S" then lift none
  let kind ← tok
  let dt ← lift (parseDt (← tok))
  let props ← pDict
  let g ← geom3 parseCoord
  let geom ← lift (buildGeom kind g)
  pure (geom.map fun gm => { geom := gm, dt := dt, props := props })

partial def pMany {α} (p : P α) : P (List α) := fun ts =>
  match ts with
  | [] => some ([], [])
  | _ => match p ts with
    | none => none
    | some (a, rest) => (pMany p rest).map fun r => (a :: r.1, r.2)

/-- one history step (see harness: `D<i> dt`, `N<i> dt`, `X<i>`, `B<i> µs`, `P<i> key val`, `A shape`, `R<i> shape`,
    `M<i>`, `O…`) -/
def pHOp : P (Except String Io.HOp) := do
  let t ← tok
  match t.toList with
  | 'D' :: r => do
    let i ← lift (String.ofList r).toNat?
    let dt ← lift (parseDt (← tok))
    pure (.ok (.setDt i dt))
  | 'N' :: r => do            -- direct assignment `shape.dt = …`
    let i ← lift (String.ofList r).toNat?
    let dt ← lift (parseDt (← tok))
    pure (.ok (.setDt i dt))
  | 'X' :: r => do            -- `strip_dt()`
    let i ← lift (String.ofList r).toNat?
    pure (.ok (.setDt i none))
  | 'B' :: r => do
    let i ← lift (String.ofList r).toNat?
    let b ← lift (← tok).toInt?
    pure (.ok (.buffer i b))
  | 'P' :: r => do
    let i ← lift (String.ofList r).toNat?
    let k ← lift (parseKey (← tok))
    let v ← lift (parseVal (← tok))
    pure (.ok (.setProp i k v))
  | ['A'] => do
    let s ← pShape
    pure (s.map .append)
  | 'R' :: r => do
    let i ← lift (String.ofList r).toNat?
    let s ← pShape
    pure (s.map (.replace i))
  | 'M' :: r => do
    let i ← lift (String.ofList r).toNat?
    pure (.ok (.remove i))
  | 'O' :: _ => pure (.ok .observe)
  | _ => lift none

def pColl : P (Except String (List Io.Shape)) := do
  let ss ← pMany pShape
  pure (Io.mapExcept id ss)

def pIncl : P (Option (List String)) := do
  let t ← tok
  if t == "-" then pure none
  else do
    let n ← lift t.toNat?
    let ks ← rep (do lift (parseKey (← tok))) n
    pure (some ks)

def pZList (pre : Char) : P Io.ZList := do
  let t ← tok
  match t.toList with
  | c :: r =>
    if c != pre then lift none
    else if r == ['-'] then pure none
    else do
      let n ← lift (String.ofList r).toNat?
      let vs ← rep (do lift (optRat (← tok))) n
      pure (some vs)
  | [] => lift none

def pFileR : P Io.ShpFileR := do
  let t ← tok
  if t != "F" then lift none
  let name ← tok
  let rows ← counted (do
    let gtype ← tok
    let coords ← geom3 parsePt
    let z ← pZList 'Z'
    let m ← pZList 'M'
    let rec ← pDict
    pure ((⟨gtype, coords, z, m⟩ : Io.ShpShapeR), rec))
  pure { name := name, rows := rows }

def pGI : P Io.GI := do
  let gtype ← tok
  let coords ← geom3 parseTuple
  pure ⟨gtype, coords⟩

def pFrameR : P Io.GpdFrameR := do
  let t ← tok
  match t.toList with
  | 'C' :: r => do
    let n ← lift (String.ofList r).toNat?
    let cols ← rep (do lift (parseKey (← tok))) n
    let rows ← counted (do
      let cells ← pDict
      let gt ← tok
      let gi ← pGI
      pure ({ cells := cells, geomType := gt, wkt := gi } : Io.GpdRowR))
    pure { columns := cols, rows := rows }
  | _ => lift none

def pOptStr : P (Option String) := do
  let t ← tok
  if t == "-" then pure none
  else match t.toList with
    | 's' :: r => lift ((unquote (String.ofList r)).map some)
    | _ => lift none

def pPlacemark : P Io.Placemark := do
  let g ← tok
  let geom ← if g == "G-" then pure none else if g == "G" then (do let gi ← pGI; pure (some gi)) else lift none
  let d ← tok
  let data ← match d.toList with
    | ['D', '-'] => pure none
    | 'D' :: r => do
      let n ← lift (String.ofList r).toNat?
      let kv ← rep (do let k ← lift (parseKey (← tok)); let v ← lift (parseVal (← tok)); pure (k, v)) n
      pure (some kv)
    | _ => lift none
  let t ← tok
  let times ← match t.toList with
    | ['T', '-'] => pure Io.KTime.none
    | 'T' :: 's' :: r => do let x ← lift (String.ofList r).toInt?; pure (Io.KTime.stamp x)
    | 'T' :: 'p' :: r =>
      match (String.ofList r).splitOn "," with
      | [a, b] => do let x ← lift a.toInt?; let y ← lift b.toInt?; pure (Io.KTime.span x y)
      | _ => lift none
    | _ => lift none
  let name ← pOptStr
  let descr ← pOptStr
  let addr ← pOptStr
  let phone ← pOptStr
  pure { geom := geom, data := data, times := times, name := name, description := descr,
         address := addr, phone := phone }

partial def pNode : P Io.KNode := do
  let t ← tok
  if t == "[F" then do
    let name ← pOptStr
    let kids ← counted pNode
    pure (.folder name kids)
  else if t == "[D" then do pure (.document (← counted pNode))
  else if t == "[K" then do pure (.kml (← counted pNode))
  else if t == "[X" then pure .other
  else if t == "[M" then do pure (.pm (← pPlacemark))
  else lift none

/-! printing -/

def showORat : Option Rat → String
  | none => "-"
  | some r => showRat r

def showCoord (c : Io.Coord) : String :=
  s!"{showRat c.lon},{showRat c.lat},{showORat c.z},{showORat c.m}"

def showTuple (t : Io.Tuple) : String := ",".intercalate (t.map showRat)
def showPt (p : Pt) : String := s!"{showRat p.1},{showRat p.2}"

def sp (l : List String) : String := " ".intercalate (l.filter (· ≠ ""))

def showGeom3 {α} (f : α → String) (g : List (List (List α))) : String :=
  sp (toString g.length :: g.map fun poly =>
    sp (toString poly.length :: poly.map fun ring => sp (toString ring.length :: ring.map f)))

def showVal : Io.PVal → String
  | .str s => "s" ++ quote s
  | .int i => "i" ++ toString i
  | .float t => "f" ++ t
  | .bool b => if b then "bT" else "bF"
  | .dt t => "d" ++ toString t
  | .iso t => "t" ++ toString t
  | .null => "n"

def sortDict {α} (d : Io.Dict α) : Io.Dict α := d.mergeSort fun a b => a.1 ≤ b.1

def showDict (d : Io.Dict Io.PVal) (sorted : Bool := true) : String :=
  let d' := if sorted then sortDict d else d
  sp (toString d'.length :: d'.map fun kv => s!"k{quote kv.1} {showVal kv.2}")

def showDt : Io.Dt → String
  | none => "-"
  | some (a, b) => s!"{a},{b}"

def geomNest : Io.Geom → String × List (List (List Io.Coord))
  | .point c => ("pt", [[[c]]])
  | .line vs => ("ln", [[vs]])
  | .poly o hs => ("pg", [o :: hs])
  | .mpoint ps => ("mpt", [[ps]])
  | .mline ls => ("mln", [ls])
  | .mpoly ps => ("mpg", ps.map fun p => p.1 :: p.2)
  | .other => ("xx", [])

def showShape (s : Io.Shape) : String :=
  let kn := geomNest s.geom
  sp ["S", kn.1, showDt s.dt, showDict s.props, showGeom3 showCoord kn.2]

def showColl (c : List Io.Shape) : String := if c.isEmpty then "empty" else sp (c.map showShape)

def showExcept {α} (f : α → String) : Except String α → String
  | .ok a => f a
  | .error e => e

def showFType : Io.FType → String
  | .L => "L" | .N d => s!"N{d}" | .C => "C"

def showFileW (f : Io.ShpFileW) : String :=
  let fields := f.fields.mergeSort fun a b => a.1 ≤ b.1
  let showRow (r : List Io.PVal × Io.ShpCall) : String :=
    let kv := sortDict ((f.fields.map (·.1)).zip r.1)
    sp [toString kv.length, sp (kv.map fun p => s!"{quote p.1}={showVal p.2}"), r.2.method,
        sp (toString r.2.parts.length :: r.2.parts.map fun ring => sp (toString ring.length :: ring.map showTuple))]
  sp ["F", f.name, toString fields.length, sp (fields.map fun p => s!"{quote p.1}:{showFType p.2}"),
      toString f.rows.length, sp (f.rows.map showRow)]

def showZList (pre : String) : Io.ZList → String
  | none => pre ++ "-"
  | some l => sp ((pre ++ toString l.length) :: l.map showORat)

def showFileR (f : Io.ShpFileR) : String :=
  sp ["F", f.name, toString f.rows.length, sp (f.rows.map fun r =>
    sp [r.1.gtype, showGeom3 showPt r.1.coords, showZList "Z" r.1.z, showZList "M" r.1.m, showDict r.2])]

def showFiles {α} (f : α → String) (l : List α) : String := if l.isEmpty then "empty" else sp (l.map f)

def showGI (g : Io.GI) : String := sp [g.gtype, showGeom3 showTuple g.coords]

def showFrameW (w : Io.GpdFrameW) : String :=
  sp ["W", toString w.rows.length, sp ((w.rows.zip w.geoms).map fun rg => sp [showDict rg.1, showGI rg.2])]

def showFrameR (f : Io.GpdFrameR) : String :=
  let cols := f.columns.mergeSort fun a b => a ≤ b
  sp [s!"C{cols.length}", sp (cols.map fun c => "k" ++ quote c), toString f.rows.length,
      sp (f.rows.map fun r => sp [showDict r.cells, r.geomType, showGI r.wkt])]

def showOptStr : Option String → String
  | none => "-"
  | some s => "s" ++ quote s

def showPlacemark (p : Io.Placemark) : String :=
  sp [match p.geom with | none => "G-" | some g => "G " ++ showGI g,
      match p.data with
      | none => "D-"
      | some d => sp (s!"D{d.length}" :: d.map fun kv => s!"k{quote kv.1} {showVal kv.2}"),
      match p.times with
      | .none => "T-" | .stamp t => s!"Ts{t}" | .span b e => s!"Tp{b},{e}",
      showOptStr p.name, showOptStr p.description, showOptStr p.address, showOptStr p.phone]

partial def showNode : Io.KNode → String
  | .folder name kids => sp (["[F", showOptStr name, toString kids.length] ++ kids.map showNode)
  | .document kids => sp (["[D", toString kids.length] ++ kids.map showNode)
  | .kml kids => sp (["[K", toString kids.length] ++ kids.map showNode)
  | .pm p => "[M " ++ showPlacemark p
  | .other => "[X"

/-! ops -/

def run {α} (p : P α) (args : List String) (k : α → String) : String :=
  match p args with
  | some (a, []) => k a
  | _ => "bad-op"

def withColl (c : Except String (List Io.Shape)) (k : List Io.Shape → String) : String :=
  match c with
  | .ok coll => k coll
  | .error e => e

def optName (s : String) (dflt : String) : String := if s == "-" then dflt else s

end GV.Drv.C20

namespace GV.Drv
open GV.Drv.C20 in
def handleIO (op : String) (args : List String) : String :=
  match op with
  | "mk" => run pColl args fun c => withColl c showColl
  | "hist" => run (do let _cls ← tok; let fmt ← tok; let ops ← counted pHOp; let c ← pColl; pure (fmt, ops, c)) args fun x =>
      withColl x.2.2 fun coll =>
        match Io.mapExcept id x.2.1 with
        | .error e => e
        | .ok ops =>
          match Io.applyOps coll ops with
          | .error e => e
          | .ok c =>
            if x.1 == "shp" then showExcept (showFiles showFileW) (Io.writeShp none c)
            else if x.1 == "gpd" then showExcept showFrameW (Io.toGeopandas none c)
            else if x.1 == "kml" then showExcept showNode (Io.toFolder "fold" c)
            else "bad-op"
  | "shpw" => run (do let i ← pIncl; let c ← pColl; pure (i, c)) args fun ic =>
      withColl ic.2 fun coll => showExcept (showFiles showFileW) (Io.writeShp ic.1 coll)
  | "shpchan" => run (do let i ← pIncl; let c ← pColl; pure (i, c)) args fun ic =>
      withColl ic.2 fun coll => showExcept (showFiles showFileR) ((Io.writeShp ic.1 coll).map (·.map Io.idealShp))
  | "shpr" => run (do let fs ← tok; let fe ← tok; let files ← pMany pFileR; pure (fs, fe, files)) args fun x =>
      showExcept showColl (Io.readShp x.2.2 (optName x.1 "datetime_s") (optName x.2.1 "datetime_e"))
  | "shprt" => run pColl args fun c => withColl c fun coll =>
      showExcept showColl (do let w ← Io.writeShp none coll; Io.readShp (w.map Io.idealShp))
  | "gpdw" => run (do let i ← pIncl; let c ← pColl; pure (i, c)) args fun ic =>
      withColl ic.2 fun coll => showExcept showFrameW (Io.toGeopandas ic.1 coll)
  | "gpdchan" => run pColl args fun c => withColl c fun coll =>
      showExcept showFrameR ((Io.toGeopandas none coll).map Io.idealGpd)
  | "gpdr" => run pFrameR args fun f => showExcept showColl (Io.fromGeopandas f)
  | "gpdrt" => run pColl args fun c => withColl c fun coll =>
      showExcept showColl (do let w ← Io.toGeopandas none coll; Io.fromGeopandas (Io.idealGpd w))
  | "kmlw" => run (do let n ← pOptStr; let c ← pColl; pure (n, c)) args fun nc =>
      withColl nc.2 fun coll => showExcept showNode (Io.toFolder (nc.1.getD "") coll)
  | "kmlr" => run pNode args fun n => showExcept showColl (Io.fromFolder n)
  | "kmlrt" => run (do let n ← pOptStr; let c ← pColl; pure (n, c)) args fun nc =>
      withColl nc.2 fun coll => showExcept showColl (do let f ← Io.toFolder (nc.1.getD "") coll; Io.fromFolder (Io.idealKml f))
  | _ => "bad-op"

end GV.Drv
