import GeoVerif.Model.SpaceTime
import GeoVerif.Drv.Util
/-!
# Driver handler for C05 (stream prefix `st`)

Tokens
* datetime   `<wall µs>@n` (naive) | `<wall µs>@o<utcoffset minutes>` (aware)
* dt route   `none` | `d:<datetime>` (constructor, datetime) | `i:<datetime>,<datetime>` (constructor,
             `TimeInterval(start, end)`) | `sd:<datetime>` / `si:<datetime>,<datetime>` (`set_dt` on a
             time-less shape; `sdc:` / `sic:` the same with `inplace=False`, observing the returned
             copy) | `sn` (`set_dt(None)` on a time-bounded shape)
* time arg   `a:<datetime>` | `t:<datetime>,<datetime>`
Shape tokens are for the harness; the spatial sub-answer measured on the implementation follows `|`.
-/
namespace GV.Drv.C05
open GV GV.ST GV.Drv

def parsePyDt (s : String) : Option PyDt :=
  match s.splitOn "@" with
  | [w, r] => do
      let wall ← parseInt w
      if r == "n" then some ⟨wall, none⟩
      else match r.toList with
        | 'o' :: m => do let mins ← parseInt (String.ofList m); some ⟨wall, some (mins * 60000000)⟩
        | _ => none
  | _ => none

/-- `TimeInterval(start, end)` as the harness builds it: both ends through `_default_to_zulu`, then the
    order check (C06 `TI.mk?`) -/
def mkInterval (a b : PyDt) : Except String TI :=
  TI.mk? (instant (defaultToZulu a)) (instant (defaultToZulu b))

def parsePair (s : String) : Option (PyDt × PyDt) :=
  match s.splitOn "," with
  | [a, b] => do let x ← parsePyDt a; let y ← parsePyDt b; some (x, y)
  | _ => none

/-- the `dt` attribute a shape has after being built along the given route -/
def routeDt (tok : String) : Option (Except String (Option TI)) :=
  if tok == "none" then some (ctorDt .none)
  else if tok == "sn" then some (setDt .none)
  else match tok.splitOn ":" with
    | ["d", x] => (parsePyDt x).map fun d => ctorDt (.dt d)
    | ["sd", x] => (parsePyDt x).map fun d => setDt (.dt d)
    | ["sdc", x] => (parsePyDt x).map fun d => setDt (.dt d)
    | ["i", x] => (parsePair x).map fun p =>
        match mkInterval p.1 p.2 with | .ok t => ctorDt (.ti t) | .error e => .error e
    | ["si", x] => (parsePair x).map fun p =>
        match mkInterval p.1 p.2 with | .ok t => setDt (.ti t) | .error e => .error e
    | ["sic", x] => (parsePair x).map fun p =>
        match mkInterval p.1 p.2 with | .ok t => setDt (.ti t) | .error e => .error e
    | _ => none

def parseTimeArg (tok : String) : Option (Except String TimeArg) :=
  match tok.splitOn ":" with
  | ["a", x] => (parsePyDt x).map fun d => .ok (.at (instant (defaultToZulu d)))
  | ["t", x] => (parsePair x).map fun p =>
      match mkInterval p.1 p.2 with | .ok t => .ok (.ti t) | .error e => .error e
  | _ => none

def showDt : Option TI → String
  | none => "none"
  | some t => s!"{t.start} {t.stop}"

/-- two shapes: `false` = receiver, `true` = argument; all spatial methods answer the measured bit -/
def world2 (da db : Option TI) (spatial : Bool) : World Bool Unit :=
  { dt := fun s => if s then db else da, containsCoord := fun _ _ => spatial,
    containsShape := fun _ _ => spatial, intersectsShape := fun _ _ => spatial }

end GV.Drv.C05

namespace GV.Drv
open GV GV.ST GV.Drv.C05

def handleST (op : String) (args : List String) : String :=
  match op, args with
  | "dt", [_shape, route] =>
    match routeDt route with
    | some (.ok d) => showDt d
    | some (.error e) => e
    | none => "bad-op"
  | "indist", [_shape, x] =>
    match parsePyDt x with
    | some d =>
      let t := instant (defaultToZulu d)
      let routes := [ctorDt (.dt d), ctorDt (.ti ⟨t, t⟩), setDt (.dt d), setDt (.ti ⟨t, t⟩)]
      match routes with
      | (.ok r) :: rest =>
        let same := rest.all fun q => match q with | .ok r' => r' == r | .error _ => false
        s!"{showBool same} {showBool same} {showBool same} {showDt r}"
      | _ => "ERR:Value"
    | none => "bad-op"
  | "containsTime", [_shape, route, targ] =>
    match routeDt route, parseTimeArg targ with
    | some (.ok d), some (.ok a) => showBool (containsTime d a)
    | some (.error e), _ => e
    | _, some (.error e) => e
    | _, _ => "bad-op"
  | "intersectsTime", [_shape, route, targ] =>
    match routeDt route, parseTimeArg targ with
    | some (.ok d), some (.ok a) => showBool (intersectsTime d a)
    | some (.error e), _ => e
    | _, some (.error e) => e
    | _, _ => "bad-op"
  | _, [_sa, ra, _sb, rb, "|", sp] =>
    match routeDt ra, routeDt rb, parseBool sp with
    | some (.ok da), some (.ok db), some spatial =>
      let W := world2 da db spatial
      if op == "intersects" then showBool (W.intersects false true)
      else if op == "contains" then showBool (W.contains false (.inr true))
      else if op == "in" then showBool (W.dunderContains false (.inr true))
      else "bad-op"
    | some (.error e), _, _ => e
    | _, some (.error e), _ => e
    | _, _, _ => "bad-op"
  | _, [_sa, ra, _c, "|", sp] =>
    match routeDt ra, parseBool sp with
    | some (.ok da), some spatial =>
      let W := world2 da none spatial
      if op == "containsCoord" then showBool (W.contains false (.inl ()))
      else if op == "inCoord" then showBool (W.dunderContains false (.inl ()))
      else "bad-op"
    | some (.error e), _ => e
    | _, _ => "bad-op"
  | _, _ => "bad-op"

end GV.Drv
