import GeoVerif.Model.SpaceTime
import GeoVerif.Drv.Util
/-!
# Driver handler for C05 (stream prefix `st`)

Tokens
* datetime   `<wall µs>@n` (naive) | `<wall µs>@o<utcoffset minutes>` (aware)
* dt route   `none` | `d:<datetime>` (constructor, datetime) | `i:<datetime>,<datetime>` (constructor,
             `TimeInterval(start, end)`) | `sd:<datetime>` / `si:<datetime>,<datetime>` (`set_dt` on a
             time-less shape; `sdc:` / `sic:` the same with `inplace=False`, observing the returned
             copy) | `sn` (`set_dt(None)` on a time-bounded shape)
* time arg   `a:<datetime>` | `t:<datetime>,<datetime>`
Shape tokens are for the harness; the spatial sub-answer measured on the implementation follows `|`.
-/
namespace GV.Drv.C05
open GV GV.ST GV.Drv

def parsePyDt (s : String) : Option PyDt :=
  match s.splitOn "@" with
  | [w, r] => do
      let wall ← parseInt w
      if r == "n" then some ⟨wall, none⟩
      else match r.toList with
        | 'o' :: m => do let mins ← parseInt (String.ofList m); some ⟨wall, some (mins * 60000000)⟩
        | _ => none
  | _ => none

/-- `TimeInterval(start, end)` as the harness builds it: both ends through `_default_to_zulu`, then the
    order check (C06 `TI.mk?`) -/
def mkInterval (a b : PyDt) : Except String TI :=
  TI.mk? (instant (defaultToZulu a)) (instant (defaultToZulu b))

def parsePair (s : String) : Option (PyDt × PyDt) :=
  match s.splitOn "," with
  | [a, b] => do let x ← parsePyDt a; let y ← parsePyDt b; some (x, y)
  | _ => none

/-- the `dt` attribute a shape has after being built along the given route -/
def routeDt (tok : String) : Option (Except String (Option TI)) :=
  if tok == "none" then some (ctorDt .none)
  else if tok == "sn" then some (setDt .none)
  else match tok.splitOn ":" with
    | ["d", x] => (parsePyDt x).map fun d => ctorDt (.dt d)
    | ["sd", x] => (parsePyDt x).map fun d => setDt (.dt d)
    | ["sdc", x] => (parsePyDt x).map fun d => setDt (.dt d)
    | ["i", x] => (parsePair x).map fun p =>
        match mkInterval p.1 p.2 with | .ok t => ctorDt (.ti t) | .error e => .error e
    | ["si", x] => (parsePair x).map fun p =>
        match mkInterval p.1 p.2 with | .ok t => setDt (.ti t) | .error e => .error e
    | ["sic", x] => (parsePair x).map fun p =>
        match mkInterval p.1 p.2 with | .ok t => setDt (.ti t) | .error e => .error e
    | _ => none

def parseTimeArg (tok : String) : Option (Except String TimeArg) :=
  match tok.splitOn ":" with
  | ["a", x] => (parsePyDt x).map fun d => .ok (.at (instant (defaultToZulu d)))
  | ["t", x] => (parsePair x).map fun p =>
      match mkInterval p.1 p.2 with | .ok t => .ok (.ti t) | .error e => .error e
  | _ => none

def showDt : Option TI → String
  | none => "none"
  | some t => s!"{t.start} {t.stop}"

/-- two shapes: `false` = receiver, `true` = argument; all spatial methods answer the measured bit -/
def world2 (da db : Option TI) (spatial : Bool) : World Bool Unit :=
  { dt := fun s => if s then db else da, containsCoord := fun _ _ => spatial,
    containsShape := fun _ _ => spatial, intersectsShape := fun _ _ => spatial }

/-! ### histories (`st.hist`)

`st.hist <A> <routeA> <B> <routeB|al> | <iAB><cAB><iBA><cBA> | <step> …` — objects `A` (receiver), `B` (probe), `O` (the
object a copying mutator was called on).  Steps: `X?i` `X?c` `X?n` (`intersects` / `contains` / `in` against the
counterpart: `B` for `A`,`O`; `A` for `B`), `X?d` (its `dt`), `X?t:<timearg>` `X?x:<timearg>`
(`contains_time` / `intersects_time`); `X!<mut>` (in place), `X~<mut>` (`inplace=False`: `O := X` for `A`, `X := ` the
returned copy), `X.<k>!<mut>` (in place on member `k` of a multi-shape: no effect on the multi-shape's own bounds);
`<mut>` = `sd:<datetime>` | `si:<datetime>,<datetime>` | `sn` | `st` | `bf:<µs>`.  One answer token per step. -/

structure HState where
  a : Option TI
  b : Option TI
  o : Option TI
  /-- `O` is a second object only after a copying call on `A` succeeded; until then the name denotes `A` itself -/
  split : Bool := false

def HState.get (s : HState) (x : Char) : Option TI :=
  if x == 'A' then s.a else if x == 'B' then s.b else if s.split then s.o else s.a

def HState.set (s : HState) (x : Char) (d : Option TI) : HState :=
  if x == 'A' then { s with a := d } else if x == 'B' then { s with b := d }
  else if s.split then { s with o := d } else { s with a := d }

def parseMut (m : String) : Option (Except String Mut) :=
  if m == "sn" then some (.ok (.setDt .none))
  else if m == "st" then some (.ok .stripDt)
  else match m.splitOn ":" with
    | ["sd", x] => (parsePyDt x).map fun d => .ok (.setDt (.dt d))
    | ["si", x] => (parsePair x).map fun p =>
        match mkInterval p.1 p.2 with | .ok t => .ok (.setDt (.ti t)) | .error e => .error e
    | ["bf", x] => (parseInt x).map fun b => .ok (.bufferDt b)
    | _ => none

def showDtTok : Option TI → String
  | none => "none"
  | some t => s!"{t.start}_{t.stop}"

/-- one step: the new state and the answer token (`none` = malformed step) -/
def histStep (sp : Bool × Bool × Bool × Bool) (s : HState) (step : String) : Option (HState × String) :=
  match step.toList with
  | x :: '?' :: rest =>
    let q := String.ofList rest
    let me := s.get x
    let other := if x == 'B' then s.a else s.b
    let (spi, spc) := if x == 'B' then (sp.2.2.1, sp.2.2.2) else (sp.1, sp.2.1)
    if q == "d" then some (s, showDtTok me)
    else if q == "i" then some (s, showBool ((world2 me other spi).intersects false true))
    else if q == "c" then some (s, showBool ((world2 me other spc).contains false (.inr true)))
    else if q == "n" then some (s, showBool ((world2 me other spc).dunderContains false (.inr true)))
    else match rest with
      | 't' :: ':' :: ta =>
        match parseTimeArg (String.ofList ta) with
        | some (.ok a) => some (s, showBool (containsTime me a))
        | some (.error e) => some (s, e)
        | none => none
      | 'x' :: ':' :: ta =>
        match parseTimeArg (String.ofList ta) with
        | some (.ok a) => some (s, showBool (intersectsTime me a))
        | some (.error e) => some (s, e)
        | none => none
      | _ => none
  | x :: '!' :: rest =>
    match parseMut (String.ofList rest) with
    | some (.ok m) =>
      match applyMut (s.get x) m with
      | .ok d => some (s.set x d, "ok")
      | .error e => some (s, e)
    | some (.error e) => some (s, e)
    | none => none
  | x :: '~' :: rest =>
    match parseMut (String.ofList rest) with
    | some (.ok m) =>
      match applyMut (s.get x) m with
      | .ok d =>
        if x == 'A' then some ({ s with o := s.a, split := true, a := d }, "ok")
        else if x == 'O' && !s.split then some ({ s with o := s.a, split := true, a := d }, "ok")
        else some (s.set x d, "ok")
      | .error e => some (s, e)
    | some (.error e) => some (s, e)
    | none => none
  | _ :: '.' :: _ => some (s, "ok")        -- a member's own bounds are not the multi-shape's
  | _ => none

def runHist (sp : Bool × Bool × Bool × Bool) : HState → List String → Option (List String)
  | _, [] => some []
  | s, st :: rest =>
    match histStep sp s st with
    | some (s', tok) => (runHist sp s' rest).map (tok :: ·)
    | none => none


end GV.Drv.C05

namespace GV.Drv
open GV GV.ST GV.Drv.C05

def handleST (op : String) (args : List String) : String :=
  match op, args with
  | "dt", [_shape, route] =>
    match routeDt route with
    | some (.ok d) => showDt d
    | some (.error e) => e
    | none => "bad-op"
  | "indist", [_shape, x] =>
    match parsePyDt x with
    | some d =>
      let t := instant (defaultToZulu d)
      let routes := [ctorDt (.dt d), ctorDt (.ti ⟨t, t⟩), setDt (.dt d), setDt (.ti ⟨t, t⟩)]
      match routes with
      | (.ok r) :: rest =>
        let same := rest.all fun q => match q with | .ok r' => r' == r | .error _ => false
        s!"{showBool same} {showBool same} {showBool same} {showDt r}"
      | _ => "ERR:Value"
    | none => "bad-op"
  | "containsTime", [_shape, route, targ] =>
    match routeDt route, parseTimeArg targ with
    | some (.ok d), some (.ok a) => showBool (containsTime d a)
    | some (.error e), _ => e
    | _, some (.error e) => e
    | _, _ => "bad-op"
  | "intersectsTime", [_shape, route, targ] =>
    match routeDt route, parseTimeArg targ with
    | some (.ok d), some (.ok a) => showBool (intersectsTime d a)
    | some (.error e), _ => e
    | _, some (.error e) => e
    | _, _ => "bad-op"
  | "hist", sa :: ra :: sb :: rb :: "|" :: bits :: "|" :: steps =>
    let _ := (sa, sb)
    match routeDt ra, (if rb == "al" then routeDt ra else routeDt rb), optAll (bits.toList.map fun c => parseBool (String.singleton c)) with
    | some (.ok da), some (.ok db), some [b1, b2, b3, b4] =>
      match runHist (b1, b2, b3, b4) { a := da, b := db, o := da } steps with
      | some toks => " ".intercalate toks
      | none => "bad-op"
    | some (.error e), _, _ => e
    | _, some (.error e), _ => e
    | _, _, _ => "bad-op"
  | _, [_sa, ra, _sb, rb, "|", sp] =>
    match routeDt ra, routeDt rb, parseBool sp with
    | some (.ok da), some (.ok db), some spatial =>
      let W := world2 da db spatial
      if op == "intersects" then showBool (W.intersects false true)
      else if op == "contains" then showBool (W.contains false (.inr true))
      else if op == "in" then showBool (W.dunderContains false (.inr true))
      else "bad-op"
    | some (.error e), _, _ => e
    | _, some (.error e), _ => e
    | _, _, _ => "bad-op"
  | _, [_sa, ra, _c, "|", sp] =>
    match routeDt ra, parseBool sp with
    | some (.ok da), some spatial =>
      let W := world2 da none spatial
      if op == "containsCoord" then showBool (W.contains false (.inl ()))
      else if op == "inCoord" then showBool (W.dunderContains false (.inl ()))
      else "bad-op"
    | some (.error e), _ => e
    | _, _ => "bad-op"
  | _, _ => "bad-op"

end GV.Drv
