import GeoVerif.Model.Bounds
import GeoVerif.Model.Welzl
import GeoVerif.Drv.Util
import GeoVerif.Drv.C07
/-!
# Driver handler for C09 (stream prefix `bd`)

* exact ops (rational tokens `p/q`): `bbox*`, `box`, `union*`, `rect*` — members of a multi-shape /
  collection are separated by `|`, each member may start with a kind letter that the model ignores;
* float ops (bit patterns): `maxcircle`, `boxcircle`, `welzl`, `cbounds`, `ebounds`, `rbounds`.
-/
namespace GV.Drv.C09
open GV GV.Bounds GV.Sphere GV.Welzl GV.Drv GV.Drv.C07

def showBBox (b : BBox) : String :=
  s!"{showRat b.1} {showRat b.2.1} {showRat b.2.2.1} {showRat b.2.2.2}"

def showOptBBox : Option BBox → String
  | some b => showBBox b
  | none => "ERR:Value"

def isKind (t : String) : Bool := t.length == 1 && t.front.isAlpha

/-- members separated by `|`, kind letters dropped -/
def parseMembers (args : List String) : Option (List (List Pt)) :=
  optAll ((splitAt "|" args).map fun m => parsePts (m.filter (fun t => !isKind t)))

/-- bounds of one member as the code computes them: a box member `B nw se` through `GeoBox.bounds`, everything
    else (polygon outline, linestring, point) through min / max of its vertices -/
def memberBounds (m : List String) : Option BBox :=
  match m with
  | "B" :: rest => match parsePts rest with
      | some [nw, se] => some (boxBounds nw se)
      | _ => none
  | "P" :: rest => (parsePts rest).bind fun ps => bboxOf (mkOutline ps)
  | _ => (parsePts (m.filter (fun t => !isKind t))).bind bboxOf

def membersBounds (args : List String) : Option (List BBox) :=
  optAll ((splitAt "|" args).map memberBounds)

def showCircle (c : Coord Float × Float) : String := showFs [c.1.1, c.1.2, c.2]

def parseNats (xs : List Float) : List Nat := xs.map fun x => x.toUInt64.toNat

end GV.Drv.C09

namespace GV.Drv
open GV GV.Bounds GV.Sphere GV.Welzl GV.Drv.C07 GV.Drv.C09

def handleBD (op : String) (args : List String) : String :=
  if op == "bboxP" then
    match parsePts args with
    | some ps => showOptBBox (bboxOf (mkOutline ps))
    | none => "bad-op"
  else if op == "bboxL" || op == "bboxT" then
    match parsePts args with
    | some ps => showOptBBox (bboxOf ps)
    | none => "bad-op"
  else if op == "box" then
    match parsePts args with
    | some [nw, se] => showBBox (boxBounds nw se)
    | _ => "bad-op"
  else if op.startsWith "union" then       -- unionMP / unionML / unionMT / unionFC / unionTR
    match membersBounds args with
    | some bs => showOptBBox (unionBounds bs)
    | none => "bad-op"
  else if op.startsWith "rect" then        -- rectS (single shape) / rectMP / rectML
    match membersBounds args with
    | some bs => match unionBounds bs with
        | some b => showBBox (rectBounds b)
        | none => "ERR:Value"
    | none => "bad-op"
  else
    match optAll ((args.filter (· ≠ "|")).map parseFloat) with
    | none => "bad-op"
    | some xs =>
      if op.startsWith "maxcircle" then    -- maxcircleL / maxcircleML / maxcircleMP / maxcircleMT
        match xs with
        | cl :: ca :: rest =>
          match maxCircle fR (cl, ca) (pairUp rest) with
          | some c => showCircle c
          | none => "ERR:Value"
        | _ => "bad-op"
      else
      match op, xs with
      | "wedgecircle", [cl, ca, lon, lat, i, o, amin, amax] =>
          match maxCircle fR (cl, ca) (wedgeRing rnd7 fR (lon, lat) i o amin amax 0) with
          | some c => showCircle c
          | none => "ERR:Value"
      | "boxcircle", [a, b, c, d] => showCircle (boxCircle rnd7 fR (a, b) (c, d))
      | "curvecircleC", [lon, lat, r] => showCircle ((lon, lat), r)
      | "curvecircleE", [lon, lat, a, b, _rot] => showCircle (ellipseCircle (lon, lat) a b)
      | "curvecircleR", [lon, lat, i, o, _amin, _amax] => showCircle (ringCircle (lon, lat) i o)
      | "welzl", _seed :: nc :: rest =>
          let n := nc.toUInt64.toNat
          let cs := parseNats (rest.take n)
          match polygonCircle fR (pairUp (rest.drop n)) cs with
          | .ok (some c, unused) => showCircle c ++ " " ++ toString (n - unused.length)
          | .ok (none, unused) => "none " ++ toString (n - unused.length)
          | .error e => e
      | "cbounds", [lon, lat, r] =>
          let b := circleBounds rnd7 fR (lon, lat) r
          showFs [b.1, b.2.1, b.2.2.1, b.2.2.2]
      | "ebounds", [lon, lat, a, b, rot] =>
          let b := ellipseBounds rnd7 fR (lon, lat) a b rot
          showFs [b.1, b.2.1, b.2.2.1, b.2.2.2]
      | "rbounds", [lon, lat, i, o, amin, amax] =>
          match ringBounds rnd7 fR (lon, lat) i o amin amax with
          | some b => showFs [b.1, b.2.1, b.2.2.1, b.2.2.2]
          | none => "ERR:Value"
      | _, _ => "bad-op"

end GV.Drv
