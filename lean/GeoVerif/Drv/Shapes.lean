import GeoVerif.Model.Relate
import GeoVerif.Drv.Util
/-!
# Shape syntax of the protocol (planar shapes, exact rationals)

```
poly x y x y … [h x y …]*      raw outline as given to `GeoPolygon(...)` (+ raw hole outlines)
box  nwx nwy sex sey [h x y …]*
line x y x y …
pt   x y
```
Tokens starting with `@` (time bounds attached on the implementation side) are skipped: the spatial
predicates do not depend on them.  The parser applies the constructor normalisation (`mkOutline`).
-/
namespace GV.Drv
open GV

def dropAt (ts : List String) : List String := ts.filter fun t => !t.startsWith "@"

def parseShape (ts : List String) : Option Shape :=
  match dropAt ts with
  | "pt" :: rest => match parsePts rest with | some [p] => some (.point p) | _ => none
  | "line" :: rest => (parsePts rest).map .line
  | "poly" :: rest =>
    match optAll ((splitAt "h" rest).map parsePts) with
    | some (o :: hs) => some (.poly (mkOutline o) (hs.map (mkOutline ·)))
    | _ => none
  | "box" :: rest =>
    match optAll ((splitAt "h" rest).map parsePts) with
    | some ([nw, se] :: hs) => some (.box nw se (hs.map (mkOutline ·)))
    | _ => none
  | _ => none

def showExB : Except String Bool → String
  | .ok b => showBool b
  | .error e => e

def parseEdges (ts : List String) : Option (List Edge) :=
  let rec go : List (Rat × Rat) → Option (List Edge)
    | [] => some []
    | a :: b :: rest => (go rest).map ((a, b) :: ·)
    | _ => none
  (parsePts ts) >>= go

end GV.Drv
