import GeoVerif.Drv.Util
import GeoVerif.Drv.C06
import GeoVerif.Drv.C13
import GeoVerif.Drv.C19
import GeoVerif.Drv.C08
import GeoVerif.Drv.C09
import GeoVerif.Drv.C20
import GeoVerif.Drv.C12
import GeoVerif.Drv.C11
import GeoVerif.Drv.C16
import GeoVerif.Drv.C15
import GeoVerif.Drv.C14
import GeoVerif.Drv.C10
import GeoVerif.Drv.C18
import GeoVerif.Drv.C17
import GeoVerif.Drv.C05
import GeoVerif.Drv.C04
import GeoVerif.Drv.C03
import GeoVerif.Drv.C07
import GeoVerif.Drv.C01
import GeoVerif.Drv.C02
/-!
# Line-protocol driver

One request per line `<stream>.<op> <args…>`, one canonical answer per line.
Run as `lake env lean --run Driver.lean < ops.txt`.
-/
namespace GV.Drv

def handle (line : String) : String :=
  match (line.trimAscii.toString.splitOn " ").filter (· ≠ "") with
  | [] => "bad-op"
  | cmd :: args =>
    match cmd.splitOn "." with
    | ["ti", op] => handleTI op args
    | ["pip", op] => handlePip op args
    | ["rel", op] => handleRel op args
    | ["gd", op] => handleGD op args
    | ["cv", op] => handleCV op args
    | ["mu", op] => handleMulti op args
    | ["st", op] => handleST op args
    | ["tr", op] => handleTR op args
    | ["fc", op] => handleFC op args
    | ["hull", op] => handleHull op args
    | ["gj", op] => handleGJ op args
    | ["ob", op] => handleOb op args
    | ["sm", op] => handleSM op args
    | ["gh", op] => handleGH op args
    | ["fl", op] => handleFL op args
    | ["io", op] => handleIO op args
    | ["bd", op] => handleBD op args
    | ["co", op] => handleCo op args
    | ["dms", op] => handleDms op args
    | ["wk", op] => handleWK op args
    | _ => "bad-op"

partial def loop (i o : IO.FS.Stream) : IO Unit := do
  let line ← i.getLine
  if line.isEmpty then return ()
  o.putStrLn (handle line)
  loop i o

def main : IO Unit := do
  loop (← IO.getStdin) (← IO.getStdout)

end GV.Drv
