import GeoVerif.Model.CoordObj
import GeoVerif.Drv.Util
/-!
# Driver handler for C08 (stream prefix `co`)

Number tokens (what the harness hands to `Coordinate(...)`, and the exact value the model consumes):
* `f:x<16 hex>`          a Python `float` with that bit pattern
* `i:<decimal>`          a Python `int`
* `s:<text>@x<16 hex>`   a Python `str`; the hex part is `float(text)` (CPython's parser is runtime)
* `s:<text>@bad`         a non-numeric `str` (`float()` raises `ValueError`)
* `-`                    `None` (only for z / m)
-/
namespace GV.Drv.C08
open GV GV.CoordObj GV.Drv

/-- exact value of an IEEE-754 binary64 bit pattern (`none` for inf / nan) -/
def bitsToRat (n : Nat) : Option Rat :=
  let sign : Int := if n / 2 ^ 63 % 2 = 1 then -1 else 1
  let e : Nat := n / 2 ^ 52 % 2048
  let f : Nat := n % 2 ^ 52
  if e = 2047 then none
  else
    let (mant, ex) : Nat × Int := if e = 0 then (f, -1074) else (2 ^ 52 + f, (e : Int) - 1075)
    if ex ≥ 0 then some ((sign * (mant : Int) * (2 ^ ex.toNat : Nat) : Int) : Rat)
    else some (mkRat (sign * (mant : Int)) (2 ^ (-ex).toNat))

def hexToRat (s : String) : Option Rat :=
  match s.toList with
  | 'x' :: rest => if rest.length = 16 then (parseHex (String.ofList rest)).bind bitsToRat else none
  | _ => none

/-- dyadic rational → nearest `Float` (exact whenever representable) -/
def ratToFloat (r : Rat) : Float :=
  Float.scaleB (Float.ofInt r.num) (-(Nat.log2 r.den : Int))

def floatToRat (f : Float) : Option Rat := bitsToRat f.toBits.toNat

/-- `some (.ok r)` number, `some (.error e)` constructor error, `none` malformed token -/
def parseNumTok (s : String) : Option (Except String Rat) :=
  match s.splitOn ":" with
  | "f" :: [h] => (hexToRat h).map .ok
  | "i" :: [d] => d.toInt?.map (fun i => .ok (i : Rat))
  | "s" :: rest =>
    let body := ":".intercalate rest
    match (body.splitOn "@").getLast? with
    | some "bad" => some (.error "ERR:Value")
    | some h => (hexToRat h).map .ok
    | none => none
  | _ => none

/-- optional number (`-` = `None`); a numeric *string* as z/m stays a string in Python – not generated -/
def parseOptTok (s : String) : Option (Option Rat) :=
  if s == "-" then some none
  else match parseNumTok s with
    | some (.ok r) => some (some r)
    | _ => none

def showOptRat : Option Rat → String
  | none => "-"
  | some r => showRat r

def showRats (rs : List Rat) : String := " ".intercalate (rs.map showRat)

def withLonLat (a b : String) (k : Rat → Rat → String) : String :=
  match parseNumTok a, parseNumTok b with
  | some (.error e), some _ => e
  | some (.ok _), some (.error e) => e
  | some (.ok lon), some (.ok lat) => k lon lat
  | _, _ => "bad-op"

def mkCoord (lon lat z m : String) (bounded : Bool := true) : Option (Except String Coord) :=
  match parseNumTok lon, parseNumTok lat, parseOptTok z, parseOptTok m with
  | some (.error e), some _, some _, some _ => some (.error e)
  | some (.ok _), some (.error e), some _, some _ => some (.error e)
  | some (.ok lo), some (.ok la), some zz, some mm => some (.ok (Coord.new lo la zz mm bounded))
  | _, _, _, _ => none

end GV.Drv.C08

namespace GV.Drv
open GV GV.CoordObj GV.Drv.C08

def handleCo (op : String) (args : List String) : String :=
  match op, args with
  | "norm", [b, lon, lat] =>
    match parseBool (if b == "b" then "T" else if b == "u" then "F" else b) with
    | none => "bad-op"
    | some bd => withLonLat lon lat fun x y =>
        let p := normalize bd x y
        s!"{showRat p.1} {showRat p.2}"
  | "norm2", [b, lon, lat] =>
    match parseBool (if b == "b" then "T" else if b == "u" then "F" else b) with
    | none => "bad-op"
    | some bd => withLonLat lon lat fun x y =>
        let p := normalize bd x y
        let q := normalize bd p.1 p.2
        s!"{showRat q.1} {showRat q.2}"
  | "eqhash", [lon, lat, z, m, lon2, lat2, z2, m2] =>
    match mkCoord lon lat z m, mkCoord lon2 lat2 z2 m2 with
    | some (.ok a), some (.ok b) =>
      if a.eq b then s!"T {showBool (a.hashKey == b.hashKey)}" else "F -"
    | some (.error e), some _ => e
    | some _, some (.error e) => e
    | _, _ => "bad-op"
  | "zsurv", [rev, lon, lat, z, m] =>
    match parseBool rev, mkCoord lon lat z m with
    | some r, some (.ok c) =>
      s!"z={showOptRat c.z} m={showOptRat c.m} F {showRats (c.toFloat r)} S {showRats (c.toStr r)}"
    | some _, some (.error e) => e
    | _, _ => "bad-op"
  | "xyz", [lon, lat] =>
    withLonLat lon lat fun x y =>
      let p := normalize true x y
      let v := xyz (ratToFloat p.1) (ratToFloat p.2)
      s!"{showFloat v.1} {showFloat v.2.1} {showFloat v.2.2}"
  | "xyzrt", [lon, lat] =>
    withLonLat lon lat fun x y =>
      let p := normalize true x y
      let r := fromXyzRaw (xyz (ratToFloat p.1) (ratToFloat p.2))
      match floatToRat r.1, floatToRat r.2 with
      | some a, some b =>
        let q := normalize true a b
        s!"{showRat q.1} {showRat q.2}"
      | _, _ => "ERR:Value"
  | "fromxyz", [_kind, x, y, z] =>
    -- `Coordinate._from_xyz([x, y, z])` on an arbitrary vector (bit-exact components, signed zeros kept):
    -- asin / atan2 at the Float instance, then the normalising constructor
    match parseFloat x, parseFloat y, parseFloat z with
    | some a, some b, some c =>
      let r := fromXyzRaw (a, b, c)
      match floatToRat r.1, floatToRat r.2 with
      | some lo, some la =>
        let q := normalize true lo la
        s!"{showRat q.1} {showRat q.2}"
      | _, _ => "ERR:Value"
    | _, _, _ => "bad-op"
  | _, _ => "bad-op"

end GV.Drv
