import GeoVerif.Model.GeoJson
import GeoVerif.Spec.GeoJson
import GeoVerif.Drv.Util
/-!
# Driver handler for C14 (stream prefix `gj`)

Every op takes ONE JSON value, written as a token stream (tokens separated by blanks):

  `n` null · `T`/`F` · `#p/q` number (exact) · `s<text>` string (`~XXXXXX` = code point, hex) ·
  `t<µs>[@rep]` the ISO text of that instant · `d<µs>` a `datetime` object ·
  `[` v … `]` · `{` s<key> v … `}`

Answers use the same encoding with object keys sorted.
-/
namespace GV.Drv.C14
open GV GV.GeoJson GV.Drv

/-! ### runtime instance: timestamps are the opaque tokens `\x01<µs>` -/

def tsMark : Char := Char.ofNat 1

def rt : Rt where
  iso us := String.ofList [tsMark] ++ toString us
  parse s := match s.toList with
    | c :: rest => if c = tsMark then
        (match (String.ofList rest).toInt? with | some i => .ok i | none => .error "ERR:Value")
      else .error "ERR:Value"
    | [] => .error "ERR:Value"
  upper s := s.toUpper

/-! ### token stream → J -/

def unescape : List Char → List Char
  | '~' :: a :: b :: c :: d :: e :: f :: rest =>
      (match parseHex (String.ofList [a, b, c, d, e, f]) with
       | some n => Char.ofNat n
       | none => '?') :: unescape rest
  | ch :: rest => ch :: unescape rest
  | [] => []

def stampOf (cs : List Char) : Option Int :=
  parseInt (((String.ofList cs).splitOn "@").headD "")

def atomOf (tok : String) : Option J :=
  match tok.toList with
  | ['n'] => some .null
  | ['T'] => some (.bool true)
  | ['F'] => some (.bool false)
  | '#' :: cs => (parseRat (String.ofList cs)).map .num
  | 's' :: cs => some (.str (String.ofList (unescape cs)))
  | 't' :: cs => (stampOf cs).map fun us => .str (rt.iso us)
  | 'd' :: cs => (stampOf cs).map .dt
  | _ => none

mutual
def pVal : Nat → List String → Option (J × List String)
  | 0, _ => none
  | _, [] => none
  | n + 1, tok :: rest =>
    if tok = "[" then (pArr n rest []).map fun r => (.arr r.1, r.2)
    else if tok = "{" then (pObj n rest []).map fun r => (.obj r.1, r.2)
    else (atomOf tok).map fun j => (j, rest)
def pArr : Nat → List String → List J → Option (List J × List String)
  | 0, _, _ => none
  | _, [], _ => none
  | n + 1, tok :: rest, acc =>
    if tok = "]" then some (acc.reverse, rest)
    else match pVal n (tok :: rest) with
      | some (v, rest') => pArr n rest' (v :: acc)
      | none => none
def pObj : Nat → List String → Obj → Option (Obj × List String)
  | 0, _, _ => none
  | _, [], _ => none
  | n + 1, tok :: rest, acc =>
    if tok = "}" then some (acc, rest)
    else match tok.toList with
      | 's' :: cs =>
        (match pVal n rest with
         | some (v, rest') => pObj n rest' (oset acc (String.ofList (unescape cs)) v)
         | none => none)
      | _ => none
end

def parseJ (toks : List String) : Option J :=
  match pVal (toks.length + 1) toks with
  | some (j, []) => some j
  | _ => none

/-! ### J → canonical token stream -/

def hex6 (n : Nat) : String :=
  String.ofList ((List.range 6).reverse.map fun i => hexChar ((n / 16 ^ i) % 16))

def safeChar (c : Char) : Bool :=
  c.isAlphanum || c = '_' || c = '.' || c = ':' || c = '+' || c = '-'

def escape (s : String) : String :=
  String.join (s.toList.map fun c => if safeChar c then String.singleton c else "~" ++ hex6 c.toNat)

def showStr (s : String) : String :=
  match s.toList with
  | c :: rest => if c = tsMark then "t" ++ String.ofList rest else "s" ++ escape s
  | [] => "s"

mutual
def showJ : J → String
  | .null => "n"
  | .bool b => if b then "T" else "F"
  | .num q => "#" ++ showRat q
  | .str s => showStr s
  | .dt us => "d" ++ toString us
  | .arr xs => " ".intercalate ("[" :: showList xs ++ ["]"])
  | .obj kvs =>
      let items := (showKvs kvs).mergeSort (fun a b => decide (a.1 ≤ b.1))
      " ".intercalate ("{" :: items.map (fun kv => "s" ++ escape kv.1 ++ " " ++ kv.2) ++ ["}"])
def showList : List J → List String
  | [] => []
  | x :: xs => showJ x :: showList xs
def showKvs : List (String × J) → List (String × String)
  | [] => []
  | (k, v) :: r => (k, showJ v) :: showKvs r
end

/-! ### decoding the operation arguments -/

def bad {α} : Except String α := .error "bad-op"

def need {α} : Option α → Except String α
  | some a => .ok a
  | none => bad

def posD : J → Except String Pos
  | .arr [.num a, .num b] => .ok ⟨a, b, none⟩
  | .arr [.num a, .num b, .num z] => .ok ⟨a, b, some z⟩
  | _ => bad

def ptsD : J → Except String (List Pos)
  | .arr xs => mapE posD xs
  | _ => bad

def arrD : J → Except String (List J)
  | .arr xs => .ok xs
  | _ => bad

def objD : J → Except String Obj
  | .obj o => .ok o
  | _ => bad

def strD : J → Except String String
  | .str s => .ok s
  | _ => bad

def boolD : J → Except String Bool
  | .bool b => .ok b
  | _ => bad

def fld (o : Obj) (k : String) : Except String J := need (oget o k)

def fldOr (o : Obj) (k : String) (dflt : J) : J := (oget o k).getD dflt

def byK (d kl : List Pos) : Option Nat → List Pos
  | none => d
  | some _ => kl

def bboxD : J → Except String (Rat × Rat × Rat × Rat)
  | .arr [.num a, .num b, .num c, .num d] => .ok (a, b, c, d)
  | _ => bad

/-- a hole: a `GeoPolygon` given by its raw vertices, or a curved shape given by its vertex lists -/
def holeD (j : J) : Except String HoleSrc := do
  let o ← objD j
  let t ← strD (← fld o "t")
  if t = "polygon" then do
    let raw ← ptsD (← fld o "raw")
    let h ← mkOutlineP raw
    pure ⟨fun _ => h⟩
  else if t = "box" then do
    let nw ← posD (← fld o "nw")
    let se ← posD (← fld o "se")
    pure ⟨fun k => (PolySrc.box nw se []).bounding k⟩
  else do
    let d ← ptsD (← fld o "d")
    let kl ← ptsD (← fld o "k")
    pure ⟨byK d kl⟩

def polySrcD (j : J) : Except String PolySrc := do
  let o ← objD j
  let t ← strD (← fld o "t")
  let holes ← mapE holeD (← arrD (fldOr o "holes" (.arr [])))
  if t = "polygon" then do
    let raw ← ptsD (← fld o "raw")
    let outline ← mkOutlineP raw
    pure (.polygon outline holes)
  else if t = "box" then do
    pure (.box (← posD (← fld o "nw")) (← posD (← fld o "se")) holes)
  else if t = "curved" then do
    let d ← ptsD (← fld o "d")
    let kl ← ptsD (← fld o "k")
    pure (.curved (byK d kl) (← bboxD (← fld o "b")) holes)
  else if t = "ring" then do
    let od ← ptsD (← fld o "od")
    let ok ← ptsD (← fld o "ok")
    let id ← ptsD (← fld o "id")
    let ik ← ptsD (← fld o "ik")
    pure (.ring (byK od ok) (byK id ik) (← boolD (← fld o "full")) (← bboxD (← fld o "b")) holes)
  else bad

def geomD (j : J) : Except String Geom := do
  let o ← objD j
  let t ← strD (← fld o "t")
  if t = "line" then do pure (.line (← ptsD (← fld o "vs")))
  else if t = "point" then do pure (.point (← posD (← fld o "p")))
  else if t = "mpoint" then do pure (.mpoint (← ptsD (← fld o "ps")))
  else if t = "mline" then do pure (.mline (← mapE ptsD (← arrD (← fld o "ls"))))
  else if t = "mpoly" then do pure (.mpoly (← mapE polySrcD (← arrD (← fld o "ps"))))
  else do pure (.poly (← polySrcD j))

def intOfRat (q : Rat) : Int := q.num

def dtD : J → Except String (Option TI)
  | .null => .ok none
  | .arr [.num a, .num b] => .ok (some ⟨intOfRat a, intOfRat b⟩)
  | _ => bad

def srcD (j : J) : Except String Src := do
  let o ← objD j
  let g ← geomD (← fld o "g")
  let dt ← dtD (fldOr o "dt" .null)
  let props ← objD (fldOr o "props" (.obj []))
  pure ⟨g, dt, props⟩

def optsD (o : Obj) : Except String Opts := do
  let k ← (match fldOr o "k" .null with
    | .null => pure none
    | .num q => pure (some q.num.toNat)
    | _ => bad)
  let bbox ← boolD (fldOr o "bbox" (.bool false))
  let props ← (match fldOr o "ov" .null with
    | .null => pure none
    | .obj p => pure (some p)
    | _ => bad)
  let extra ← objD (fldOr o "extra" (.obj []))
  pure { k := k, bbox := bbox, props := props, extra := extra }

/-! ### encoding results -/

def dtJ : Option TI → J
  | none => .null
  | some t => .arr [.num t.start, .num t.stop]

def polyJ (p : Poly) : J := .obj [("o", ringToJ p.outline), ("holes", .arr (p.holes.map ringToJ))]

def sgeomJ : SGeom → Obj
  | .polygon p => [("t", .str "polygon"), ("p", polyJ p)]
  | .line vs => [("t", .str "line"), ("vs", ringToJ vs)]
  | .point p => [("t", .str "point"), ("p", posToJ p)]
  | .mpoly ps => [("t", .str "mpoly"), ("ps", .arr (ps.map polyJ))]
  | .mline ls => [("t", .str "mline"), ("ls", .arr (ls.map ringToJ))]
  | .mpoint ps => [("t", .str "mpoint"), ("ps", ringToJ ps)]

def shapeJ (s : Shape) : J := .obj (sgeomJ s.geom ++ [("dt", dtJ s.dt), ("props", .obj s.props)])

mutual
def parsedJ : Parsed → J
  | .shape s => shapeJ s
  | .coll xs => .obj [("t", .str "coll"), ("xs", .arr (parsedListJ xs))]
def parsedListJ : List Parsed → List J
  | [] => []
  | x :: xs => parsedJ x :: parsedListJ xs
end

/-- the document after the call: `doc=same` if it is what the caller passed in -/
def showDocAfter (before after : J) : String :=
  let a := showJ after
  if a = showJ before then "doc=same" else "doc=changed " ++ a

def kindD (s : String) : Option Kind :=
  if s = "Point" then some .point
  else if s = "LineString" then some .line
  else if s = "Polygon" then some .polygon
  else if s = "MultiPoint" then some .mpoint
  else if s = "MultiLineString" then some .mline
  else if s = "MultiPolygon" then some .mpoly
  else none

/-! ### RFC 7946 shape of an exported document, decided on the model's output -/

def ptOfJ : J → Option Pt
  | .arr [.num a, .num b] => some (a, b)
  | .arr [.num a, .num b, .num _] => some (a, b)
  | _ => none

def ringPts : J → Option (List Pt)
  | .arr xs => optAll (xs.map ptOfJ)
  | _ => none

/-- closed; exterior counter-clockwise, holes clockwise on the un-wrapped longitudes (`winding` of the Spec
    file; a ring that runs around a pole has no winding and is not judged) -/
def polyRingsOk (rings : List J) : String :=
  match optAll (rings.map ringPts) with
  | none => "bad:position"
  | some rs =>
    if rs.any (fun r => r.head? ≠ r.getLast?) then "bad:ring-not-closed"
    else match rs with
      | [] => "ok"
      | shell :: holes =>
        if (match winding shell with | some w => decide (w < 0) | none => false) then "bad:exterior-clockwise"
        else if holes.any (fun h => match winding h with | some w => decide (w > 0) | none => false)
          then "bad:hole-counter-clockwise"
        else "ok"

def rfcCheck (doc : J) : String :=
  match doc with
  | .obj o =>
    match oget o "geometry", oget o "properties" with
    | some (.obj g), some (.obj _) =>
      (match oget g "type", oget g "coordinates" with
       | some (.str "Polygon"), some (.arr rings) => polyRingsOk rings
       | some (.str "MultiPolygon"), some (.arr polys) =>
           (polys.map fun p => match p with | .arr rings => polyRingsOk rings | _ => "bad:polygon").foldl
             (fun acc r => if acc = "ok" then r else acc) "ok"
       | some (.str "Point"), some c => if (ptOfJ c).isSome then "ok" else "bad:position"
       | some (.str _), some c =>
           (match c with
            | .arr xs => if xs.all (fun x => (ptOfJ x).isSome || (ringPts x).isSome) then "ok" else "bad:position"
            | _ => "bad:coordinates")
       | _, _ => "bad:geometry")
    | _, _ => "bad:feature"
  | _ => "bad:document"

/-! ### export histories: observe – update in place – observe again, on several live objects -/

structure HState where
  /-- the live shape objects -/
  objs : List Src := []
  /-- collection objects: member indices in the order fixed at construction (`none`: construction failed) -/
  colls : List (Option (List Nat)) := []
  /-- documents returned so far (`none` for a failed call) -/
  docs : List (Option J) := []
  /-- printed observations -/
  obs : List String := []

def natD : J → Except String Nat
  | .num q => .ok q.num.toNat
  | _ => bad

def observe (st : HState) (r : Except String J) : HState :=
  match r with
  | .ok d => { st with docs := st.docs ++ [some d], obs := st.obs ++ [showJ d] }
  | .error e => { st with docs := st.docs ++ [none], obs := st.obs ++ [e] }

def startKey (objs : List Src) (i : Nat) : Int :=
  match objs[i]? with
  | some s => (match s.dt with | some t => t.start | none => 0)
  | none => 0

/-- a mutator applied to object `i`: in place, or (`inplace=False`) to a copy that becomes a new object -/
def applyUpd (st : HState) (i : Nat) (inplace : Bool) (f : Src → Except String Src) : Except String HState := do
  let s ← need st.objs[i]?
  match f s with
  | .ok s' =>
      if inplace then pure { st with objs := st.objs.set i s' }
      else pure { st with objs := st.objs ++ [s'] }
  | .error e => pure { st with obs := st.obs ++ [e] }

def stepRun (st : HState) (o : Obj) : Except String HState := do
  let op ← strD (← fld o "op")
  let inplace ← boolD (fldOr o "inplace" (.bool true))
  if op = "export" then do
    let s ← need st.objs[(← natD (← fld o "i"))]?
    pure (observe st (toGeoJson rt s (← optsD o)))
  else if op = "set_dt" then do
    let dt ← dtD (fldOr o "dt" .null)
    applyUpd st (← natD (← fld o "i")) inplace (fun s => .ok (s.setDt dt))
  else if op = "strip_dt" then
    applyUpd st (← natD (← fld o "i")) inplace (fun s => .ok s.stripDt)
  else if op = "buffer_dt" then do
    let b ← (match ← fld o "us" with | .num q => pure q.num | _ => bad)
    applyUpd st (← natD (← fld o "i")) inplace (fun s => s.bufferDt b)
  else if op = "set_property" then do
    let key ← strD (← fld o "key")
    let v ← fld o "val"
    applyUpd st (← natD (← fld o "i")) inplace (fun s => .ok (s.setProperty key v))
  else if op = "fork" then do
    let s ← need st.objs[(← natD (← fld o "i"))]?
    pure { st with objs := st.objs ++ [s] }
  else if op = "mutdoc" then
    -- the caller scribbles on a document it was given earlier: no shape may notice
    pure st
  else if op = "import" then do
    let d ← need (← need st.docs[(← natD (← fld o "j"))]?)
    let kind ← strD (← fld o "kind")
    let r : Except String Shape := (do
      if kind = "parse" then
        match (← parseGeoJson rt d).1 with
        | .shape s => pure s
        | .coll _ => .error "ERR:Unmodelled"
      else
        match kindD kind with
        | some k => do pure (← fromGeoJson rt k d).1
        | none => .error "bad-op")
    match r with
    | .ok s => pure { st with objs := st.objs ++ [s.toSrc], obs := st.obs ++ ["imported"] }
    | .error e => if e = "bad-op" then bad else pure { st with obs := st.obs ++ [e] }
  else if op = "mkcoll" then do
    let idxs ← mapE natD (← arrD (← fld o "is"))
    let track ← boolD (fldOr o "track" (.bool false))
    if track then
      if idxs.all (fun i => match st.objs[i]? with | some s => s.dt.isSome | none => false) then
        pure { st with colls := st.colls ++ [some (sortByStart (startKey st.objs) idxs)] }
      else pure { st with colls := st.colls ++ [none], obs := st.obs ++ ["ERR:Value"] }
    else pure { st with colls := st.colls ++ [some idxs] }
  else if op = "cexport" then do
    match ← need st.colls[(← natD (← fld o "c"))]? with
    | none => pure (observe st (.error "ERR:NoColl"))
    | some idxs => do
        let shapes ← mapE (fun i => need st.objs[i]?) idxs
        pure (observe st (collToGeoJson rt shapes (← optsD o)))
  else bad

def runHist (o : Obj) : Except String String := do
  let objs ← mapE srcD (← arrD (fldOr o "objs" (.arr [])))
  let steps ← mapE objD (← arrD (← fld o "steps"))
  let st ← steps.foldlM stepRun ({ objs := objs } : HState)
  -- RFC shape of every document handed out (features of a collection one by one)
  let verdicts := st.docs.filterMap fun d => d.map fun doc =>
    match (match doc with | .obj o => oget o "features" | _ => none) with
    | some (.arr fs) => (fs.map rfcCheck).foldl (fun acc r => if acc = "ok" then r else acc) "ok"
    | _ => rfcCheck doc
  let rfc := verdicts.foldl (fun acc r => if acc = "ok" then r else acc) "ok"
  -- documents are values here: an import cannot change them (`import_pure`)
  pure ("ok " ++ " ; ".intercalate st.obs ++ " rfc=" ++ rfc ++ " docs=same")

/-! ### the handler -/


def importWith (o : Obj) : Except String (String × J) := do
  let doc ← fld o "doc"
  let kind ← strD (← fld o "kind")
  let ks := match oget o "ks" with | some (.str s) => s | _ => "datetime_start"
  let ke := match oget o "ke" with | some (.str s) => s | _ => "datetime_end"
  if kind = "parse" then do
    let r ← parseGeoJson rt doc ks ke
    pure (showJ (parsedJ r.1), r.2)
  else if kind = "fc" then do
    let r ← fcFromGeoJson rt doc ks ke
    pure (showJ (parsedJ (.coll r.1)), r.2)
  else if kind = "track" then do
    let r ← trackFromGeoJson rt doc ks ke
    pure (showJ (.obj [("t", .str "track"), ("xs", .arr (parsedListJ r.1))]), r.2)
  else do
    let k ← need (kindD kind)
    let r ← fromGeoJson rt k doc ks ke
    pure (showJ (shapeJ r.1), r.2)

def collSrcD (o : Obj) : Except String (List Src) := do
  let shapes ← mapE srcD (← arrD (← fld o "shapes"))
  if (← boolD (fldOr o "track" (.bool false))) then mkTrack shapes else pure shapes

def run (op : String) (o : Obj) : Except String String := do
  if op = "export" then do
    let s ← srcD (← fld o "src")
    let doc ← toGeoJson rt s (← optsD o)
    pure ("ok " ++ showJ doc)
  else if op = "rfc" then do
    let s ← srcD (← fld o "src")
    let doc ← toGeoJson rt s (← optsD o)
    pure (rfcCheck doc)
  else if op = "import" then do
    let doc ← fld o "doc"
    let r ← importWith o
    pure ("ok " ++ r.1 ++ " " ++ showDocAfter doc r.2)
  else if op = "twice" then do
    let doc ← fld o "doc"
    let r1 ← importWith o
    let r2 ← importWith (oset o "doc" r1.2)
    pure ("ok " ++ r1.1 ++ " " ++ r2.1 ++ " same=" ++ showBool (r1.1 = r2.1) ++ " " ++ showDocAfter doc r2.2)
  else if op = "setprop" then do
    let doc ← fld o "doc"
    let k ← need (kindD (← strD (← fld o "kind")))
    let r ← fromGeoJson rt k doc
    let key ← strD (← fld o "key")
    let r' := setPropertyAfter r (sharesProps doc) key (← fld o "val")
    pure ("ok " ++ showJ (shapeJ r'.1) ++ " " ++ showDocAfter doc r'.2)
  else if op = "rt" then do
    let s ← srcD (← fld o "src")
    let opts ← optsD o
    let doc ← toGeoJson rt s opts
    let r ← fromGeoJson rt s.geom.kind doc
    let want ← s.geom.polyForm opts.k
    pure ("ok " ++ showJ (shapeJ r.1) ++ " eq=" ++ showBool (decide (r.1.geom = want ∧ r.1.dt = s.dt))
      ++ " dt=" ++ showBool (decide (r.1.dt = s.dt)) ++ " props=" ++ showBool (showJ (.obj r.1.props) = showJ (.obj s.props)))
  else if op = "hist" then runHist o
  else if op = "imphist" then do
    -- import, (the caller scrambles the result and rewrites the input object), import again
    let doc ← fld o "doc"
    let doc2 := fldOr o "doc2" doc
    let show1 := fun (d : J) => match importWith (oset o "doc" d) with
      | .ok r => if showJ r.2 = showJ d then r.1 else r.1 ++ " doc=changed"
      | .error e => e
    let r1 := show1 doc
    let r2 := show1 doc2
    if r1 = "bad-op" || r2 = "bad-op" then bad
    else pure ("ok " ++ r1 ++ " ; " ++ r2 ++ " same=" ++ showBool (r1 = r2))
  else if op = "cexport" then do
    let shapes ← collSrcD o
    let doc ← collToGeoJson rt shapes (← optsD o)
    pure ("ok " ++ showJ doc)
  else if op = "crt" then do
    let shapes ← collSrcD o
    let opts ← optsD o
    let doc ← collToGeoJson rt shapes opts
    let isTrack ← boolD (fldOr o "track" (.bool false))
    let r ← if isTrack then trackFromGeoJson rt doc else fcFromGeoJson rt doc
    let want ← mapE (fun (s : Src) => do pure (← s.geom.polyForm opts.k, s.dt)) shapes
    let got := r.1.map fun p => match p with
      | .shape s => some (s.geom, s.dt)
      | .coll _ => none
    let rings := (match doc with
      | .obj d => (match oget d "features" with
          | some (.arr fs) => (fs.map rfcCheck).foldl (fun acc v => if acc = "ok" then v else acc) "ok"
          | _ => "bad:features")
      | _ => "bad:document")
    pure ("ok " ++ showJ (.arr (parsedListJ r.1)) ++ " eq=" ++ showBool (decide (got = want.map some))
      ++ " rings=" ++ rings)
  else bad

def handle (op : String) (args : List String) : String :=
  match parseJ args with
  | some (.obj o) =>
    (match run op o with
     | .ok s => s
     | .error e => e)
  | _ => "bad-op"

end GV.Drv.C14

namespace GV.Drv

/-- stream prefix `gj` -/
def handleGJ (op : String) (args : List String) : String := C14.handle op args

end GV.Drv
