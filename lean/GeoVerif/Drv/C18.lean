import GeoVerif.Model.Collection
import GeoVerif.Drv.Util
/-!
# Driver for C18 (stream prefix `fc`) and the shape-token parser shared with C17

Shape token `id;eqc;geom;dt;props;lon,lat` (no blanks):
* `geom`  concrete geometry, read only by the Python side;
* `dt`    `n` or `<start>:<end>` (µs);
* `props` `-` or `k=v,k=v` with `v` = `u<int>` (user value) or `t<µs>` (instant);
* `lon,lat` exact rationals of `centroid.to_float()`.

In `fc.eq` lines a token whose `id` occurs more than once (within one operand or in both) denotes the *same object*.

Sections of a line are separated by a `|` token.  Per-shape facts measured on the implementation are
tables indexed by shape id `0..n-1`: truth tables `b:TFT…`, boxes `x0,y0,x1,y1`.
-/
namespace GV.Drv.C18
open GV.Coll

/-- instant token `<µs>[@n|@o<minutes>]` (same abstraction function as C06) -/
def parseInst (s : String) : Option Int := parseInt ((s.splitOn "@").headD "")

def parsePVal (s : String) : Option PVal :=
  match s.toList with
  | 'u' :: r => (parseInt (String.ofList r)).map PVal.user
  | 't' :: r => (parseInt (String.ofList r)).map PVal.inst
  | _ => none

def showPVal : PVal → String
  | .user i => s!"u{i}"
  | .inst t => s!"t{t}"

def parseProps (s : String) : Option (List (String × PVal)) :=
  if s == "-" then some []
  else optAll ((s.splitOn ",").map fun kv =>
    match kv.splitOn "=" with
    | [k, v] => (parsePVal v).map fun pv => (k, pv)
    | _ => none)

def parseDt (s : String) : Option (Option TI) :=
  if s == "n" then some none
  else match s.splitOn ":" with
    | [a, b] => do let x ← parseInt a; let y ← parseInt b; some (some ⟨x, y⟩)
    | _ => none

def parseShape (tok : String) : Option Shape :=
  match tok.splitOn ";" with
  | [i, e, _geom, dt, props, cen] => do
      let id ← parseInt i
      let eqc ← parseInt e
      let d ← parseDt dt
      let p ← parseProps props
      match cen.splitOn "," with
      | [x, y] => do
          let lon ← parseRat x
          let lat ← parseRat y
          some { id := id, eqc := eqc, dt := d, props := p, lon := lon, lat := lat }
      | _ => none
  | _ => none

def parseShapes (ts : List String) : Option (List Shape) := optAll (ts.map parseShape)

def parseTag (s : String) : Option Tag :=
  if s == "F" then some .fc else if s == "T" then some .track else none

def showTag : Tag → String
  | .fc => "F"
  | .track => "T"

/-- insertion sort of dict items by key (canonical output of a dict) -/
def sortProps (d : List (String × PVal)) : List (String × PVal) :=
  d.foldl (fun acc kv =>
    let (lo, hi) := acc.partition (fun x => x.1 < kv.1)
    lo ++ [kv] ++ hi) []

def showProps (d : List (String × PVal)) : String :=
  if d.isEmpty then "-" else ",".intercalate ((sortProps d).map fun kv => s!"{kv.1}={showPVal kv.2}")

def showDt : Option TI → String
  | none => "n"
  | some d => s!"{d.start}:{d.stop}"

/-- an original shape prints as its id, a shape made by `convolve` in full -/
def showShape (x : Shape) : String :=
  if x.id ≥ 0 then toString x.id
  else s!"n[{showDt x.dt};{showRat x.lon};{showRat x.lat};{showProps x.props}]"

def showShapes (l : List Shape) : String := " ".intercalate (l.map showShape)

def showColl (c : Coll) : String :=
  if c.shapes.isEmpty then showTag c.tag else showTag c.tag ++ " " ++ showShapes c.shapes

def showRes : Except String Coll → String
  | .ok c => showColl c
  | .error e => e

/-- `b:TFT` → predicate on shapes, by id -/
def parseBits (s : String) : Option (Shape → Bool) :=
  match s.toList with
  | 'b' :: ':' :: r =>
    if r.all (fun ch => ch == 'T' || ch == 'F') then
      let arr := (r.map (· == 'T')).toArray
      some fun x => if x.id < 0 then false else arr.getD x.id.toNat false
    else none
  | _ => none

def parseBox (s : String) : Option Box :=
  match (s.splitOn ",").map parseRat with
  | [some a, some b, some c, some d] => some (a, b, c, d)
  | _ => none

def showBox (b : Box) : String :=
  s!"{showRat b.1} {showRat b.2.1} {showRat b.2.2.1} {showRat b.2.2.2}"

def parseOptInt (s : String) : Option (Option Int) :=
  if s == "-" then some none else (parseInst s).map some

def parseAccept (s : String) : Option (PVal → Bool) :=
  if s == "-" then some fun _ => false
  else (optAll ((s.splitOn ",").map parsePVal)).map fun l => fun v => l.contains v

/-- geometry trees in prefix form: `P x y` | `L n x y …` | `G n x y …` | `M k <k trees>` | `O` -/
partial def parseGeo : List String → Option (Geo × List String)
  | "P" :: x :: y :: rest => do
      let a ← parseRat x; let b ← parseRat y; some (.point (a, b), rest)
  | "L" :: n :: rest => do
      let k ← parseNat n
      let ps ← parsePts (rest.take (2 * k))
      if ps.length = k then some (.line ps, rest.drop (2 * k)) else none
  | "G" :: n :: rest => do
      let k ← parseNat n
      let ps ← parsePts (rest.take (2 * k))
      if ps.length = k then some (.poly ps, rest.drop (2 * k)) else none
  | "O" :: rest => some (.other, rest)
  | "M" :: n :: rest => do
      let k ← parseNat n
      let rec go : Nat → List String → Option (List Geo × List String)
        | 0, ts => some ([], ts)
        | m+1, ts => do
            let (g, ts') ← parseGeo ts
            let (gs, ts'') ← go m ts'
            some (g :: gs, ts'')
      let (ms, rest') ← go k rest
      some (.multi ms, rest')
  | _ => none

partial def parseGeos (ts : List String) : Option (List Geo) :=
  match ts with
  | [] => some []
  | _ => do
      let (g, rest) ← parseGeo ts
      let gs ← parseGeos rest
      some (g :: gs)

/-- `<answer> # <receiver's shapes after the call>` -/
def withSrc (c : Coll) (ans : String) : String := ans ++ " # " ++ showShapes c.shapes

def handleFCOn (op : String) (c : Coll) (rest : List (List String)) : String :=
  match op, rest with
  | "len", [] => withSrc c (toString c.len)
  | "bool", [] => withSrc c (showBool c.bool)
  | "iter", [] => withSrc c (showShapes c.iter)
  | "in", [[it]] =>
    match parseShape it with
    | some x => withSrc c (showBool (c.contains x))
    | none => "bad-op"
  | "fdt_inst", [[t]] =>
    match parseInst t with
    | some v => withSrc c (showRes (c.filterByDt (.inst v)))
    | none => "bad-op"
  | "fdt_ival", [[s, e]] =>
    match parseInst s, parseInst e with
    | some a, some b => withSrc c (showRes (c.filterByDt (.ival ⟨a, b⟩)))
    | _, _ => "bad-op"
  | "fdt_bad", [[_]] => withSrc c (showRes (c.filterByDt .other))
  | "fisect", [[_q], [xq, qx]] =>
    match parseBits xq, parseBits qx with
    | some f, some g => withSrc c (showRes (c.filterByIntersection f g))
    | _, _ => "bad-op"
  | "fcontains", [[_q], [xq, qx]] =>
    match parseBits xq, parseBits qx with
    | some f, some g => withSrc c (showRes (c.filterContains f g))
    | _, _ => "bad-op"
  | "fcontained", [[_q], [xq, qx]] =>
    match parseBits xq, parseBits qx with
    | some f, some g => withSrc c (showRes (c.filterContainedBy f g))
    | _, _ => "bad-op"
  | "intersects", [[_q, qdt], [xq]] =>
    match parseDt qdt, parseBits xq with
    | some d, some f =>
      withSrc c (match c.intersects d f with | .ok b => showBool b | .error e => e)
    | _, _ => "bad-op"
  | "fprop", [[key], [acc]] =>
    match parseAccept acc with
    | some f => withSrc c (showRes (c.filterByProperty key f))
    | none => "bad-op"
  | "bounds", [boxes] =>
    match optAll (boxes.map parseBox) with
    | some bs =>
      let arr := bs.toArray
      let bnd : Shape → Box := fun x => arr.getD x.id.toNat (0, 0, 0, 0)
      withSrc c (match c.bounds bnd with | .ok b => showBox b | .error e => e)
    | none => "bad-op"
  | "geospan", [boxes] =>
    match optAll (boxes.map parseBox) with
    | some bs =>
      let arr := bs.toArray
      let bnd : Shape → Box := fun x => arr.getD x.id.toNat (0, 0, 0, 0)
      withSrc c (match c.geospan bnd with | .ok b => showRat b | .error e => e)
    | none => "bad-op"
  | "add", [[k2], shapes2] =>
    match parseTag k2, parseShapes shapes2 with
    | some t2, some l2 =>
      match Coll.build t2 l2 with
      | .error e => e
      | .ok c2 => withSrc c (showRes (Coll.add c c2)) ++ " # " ++ showShapes c2.shapes
    | _, _ => "bad-op"
  | "eq", [[k2], shapes2, [ord], _label] =>
    -- `fc.eq K | shapes | K2 | shapes2 | ab|ba | label`: `left == right` and `left != right`; K2 = `L` (a plain list of the
    -- members) / `N` (not a collection at all): every `__eq__` in sight answers False, in both orders
    let ans (b : Bool) : String := showBool b ++ " " ++ showBool (!b)
    match parseShapes shapes2 with
    | none => "bad-op"
    | some l2 =>
      if k2 == "L" || k2 == "N" then withSrc c (ans false) ++ " # " ++ showShapes l2
      else match parseTag k2 with
        | none => "bad-op"
        | some t2 =>
          match Coll.build t2 l2 with
          | .error e => e
          | .ok c2 =>
            withSrc c (ans (if ord == "ab" then Coll.eqColl c c2 else Coll.eqColl c2 c)) ++ " # " ++ showShapes c2.shapes
  | "getidx", [[i]] =>
    match parseInt i with
    | some v => withSrc c (match c.getIdx v with | .ok x => showShape x | .error e => e)
    | none => "bad-op"
  | "getslice", [[a, b, s]] =>
    match parseOptInt a, parseOptInt b, parseOptInt s with
    | some x, some y, some z =>
      withSrc c (match c.getSlice x y z with | .ok l => "list " ++ showShapes l | .error e => e)
    | _, _, _ => "bad-op"
  | _, _ => "bad-op"

/-! ### observe – mutate – observe histories (`fc.hist`)

`fc.hist K A | shapes || step || step …`.  `A` = 1 when the implementation's FeatureCollection keeps the caller's list
object (measured; the unchanged library does, by design); a Track never does (its constructor stores a sorted copy).
Steps are either *mutations done by the user, not by the library* — plain Python list operations on the collection's
`geoshapes` (`g`), on the list handed to the constructor (`a`) or on a sibling collection built from that list (`s`), and
in-place member updates `setdt` / `setprop` — or *observations* `o.<op> …` answered by the ordinary handlers on the
current list, i.e. exactly what a freshly built collection over the same members would answer. -/

structure HState where
  c : Coll
  arg : List Shape
  al1 : Bool
  c2 : Option Coll := none
  al2 : Bool := false

/-- Python list mutations; `none` = the call raises (IndexError) -/
def listMut (l : List Shape) : List String → Option (Option (List Shape))
  | ["set", i, tok] => do
      let k ← parseNat i; let x ← parseShape tok
      some (if k < l.length then some (l.set k x) else none)
  | ["pop", i] => do
      let k ← parseNat i
      some (if k < l.length then some (l.eraseIdx k) else none)
  | "append" :: ts => (parseShapes ts).map fun xs => some (l ++ xs)
  | ["insert", i, tok] => do
      let k ← parseNat i; let x ← parseShape tok
      some (some (l.take k ++ [x] ++ l.drop k))
  | "slice" :: a :: b :: ts => do
      let i ← parseNat a; let j ← parseNat b; let xs ← parseShapes ts
      some (some (l.take i ++ xs ++ l.drop (max i j)))
  | ["reverse"] => some (some l.reverse)
  | ["sortdesc"] => some (some (l.mergeSort fun x y => decide (x.startD ≥ y.startD)))
  | ["clear"] => some (some [])
  | _ => none

def HState.get (st : HState) (t : String) : Option (List Shape) :=
  if t == "g" then some st.c.shapes else if t == "a" then some st.arg
  else if t == "s" then st.c2.map (·.shapes) else none

/-- write `l` to target `t` and to every list object aliased with it -/
def HState.put (st : HState) (t : String) (l : List Shape) : HState :=
  let inGroup (u : String) : Bool :=
    u == "a" || (u == "g" && st.al1) || (u == "s" && st.al2 && st.c2.isSome)
  let hit (u : String) : Bool := u == t || (inGroup t && inGroup u)
  { st with
    c := if hit "g" then { st.c with shapes := l } else st.c
    arg := if hit "a" then l else st.arg
    c2 := if hit "s" then st.c2.map (fun c => { c with shapes := l }) else st.c2 }

/-- an in-place update of the member object `id`, seen through every list that holds it -/
def HState.update (st : HState) (id : Int) (f : Shape → Shape) : HState :=
  let m (l : List Shape) := l.map fun x => if x.id == id then f x else x
  { st with c := { st.c with shapes := m st.c.shapes }, arg := m st.arg,
            c2 := st.c2.map fun c => { c with shapes := m c.shapes } }

def obsRest (op : String) (ts : List String) : List (List String) :=
  if ts.isEmpty then (if op == "bounds" || op == "geospan" then [[]] else []) else splitAt "|" ts

def histStep (st : HState) : List String → Option (HState × String)
  | ["setdt", i, dt] => do
      let id ← parseInt i; let d ← parseDt dt
      some (st.update id (fun x => { x with dt := d }), "-")
  | ["setprop", i, k, v] => do
      let id ← parseInt i; let pv ← parsePVal v
      some (st.update id (fun x => { x with props := assocSet x.props k pv }), "-")
  | ["sib", k2, a2] => do
      let t2 ← parseTag k2
      match Coll.build t2 st.arg with
      | .error e => some ({ st with c2 := none, al2 := false }, e)
      | .ok c2 => some ({ st with c2 := some c2, al2 := t2 == .fc && a2 == "1" }, showColl c2)
  | ["copy"] =>
      match Coll.build st.c.tag st.c.shapes with
      | .error e => some ({ st with c2 := none, al2 := false }, e)
      | .ok c2 => some ({ st with c2 := some c2, al2 := false }, showColl c2)
  | ["arg"] => some (st, "A " ++ showShapes st.arg)
  | ["sibiter"] => some (st, match st.c2 with | some c2 => showColl c2 | none => "none")
  | ["in2", _item, tbl] => (parseBits tbl).map fun f => (st, withSrc st.c (showBool (st.c.shapes.any f)))
  | ["eqfresh"] => some (st, withSrc st.c "T")
  | cmd :: ts =>
    match cmd.splitOn "." with
    | ["m", t, _] =>
      match st.get t with
      | none => none
      | some l =>
        match listMut l ((cmd.splitOn ".").getLastD "" :: ts) with
        | none => none
        | some none => some (st, "ERR:Index")
        | some (some l') => some (st.put t l', "-")
    | ["o", op] =>
      let r := handleFCOn op st.c (obsRest op ts)
      if r == "bad-op" then none else some (st, r)
    | _ => none
  | [] => none

def runHist (st : HState) : List (List String) → Option (List String)
  | [] => some []
  | s :: rest =>
    match histStep st s with
    | none => none
    | some (st', out) => (runHist st' rest).map (out :: ·)

def handleHist (args : List String) : String :=
  match splitAt "||" args with
  | [] => "bad-op"
  | head :: steps =>
    match splitAt "|" head with
    | [[k, a], shapes] =>
      match parseTag k, parseShapes shapes with
      | some tag, some l =>
        match Coll.build tag l with
        | .error e => e
        | .ok c =>
          match runHist { c := c, arg := l, al1 := tag == .fc && a == "1" } steps with
          | some outs => " ; ".intercalate (showColl c :: outs)
          | none => "bad-op"
      | _, _ => "bad-op"
    | _ => "bad-op"

def handle (op : String) (args : List String) : String :=
  if op == "hist" then handleHist args
  else if op == "vertices" then
    -- `fc.vertices <geoms for the Python side> | <geometry trees>`
    match splitAt "|" args with
    | [_, toks] =>
      match parseGeos toks with
      | some gs => showPts (vertsList gs)
      | none => "bad-op"
    | _ => "bad-op"
  else
    match splitAt "|" args with
    | [k] :: shapes :: rest =>
      match parseTag k, parseShapes shapes with
      | some tag, some l =>
        match Coll.build tag l with
        | .error e => e
        | .ok c => handleFCOn op c rest
      | _, _ => "bad-op"
    | _ => "bad-op"

end GV.Drv.C18

/-- stream prefix `fc` -/
def GV.Drv.handleFC (op : String) (args : List String) : String := GV.Drv.C18.handle op args
