import GeoVerif.Model.Collection
import GeoVerif.Drv.Util
/-!
# Driver for C18 (stream prefix `fc`) and the shape-token parser shared with C17

Shape token `id;eqc;geom;dt;props;lon,lat` (no blanks):
* `geom`  concrete geometry, read only by the Python side;
* `dt`    `n` or `<start>:<end>` (µs);
* `props` `-` or `k=v,k=v` with `v` = `u<int>` (user value) or `t<µs>` (instant);
* `lon,lat` exact rationals of `centroid.to_float()`.

Sections of a line are separated by a `|` token.  Per-shape facts measured on the implementation are
tables indexed by shape id `0..n-1`: truth tables `b:TFT…`, boxes `x0,y0,x1,y1`.
-/
namespace GV.Drv.C18
open GV.Coll

/-- instant token `<µs>[@n|@o<minutes>]` (same abstraction function as C06) -/
def parseInst (s : String) : Option Int := parseInt ((s.splitOn "@").headD "")

def parsePVal (s : String) : Option PVal :=
  match s.toList with
  | 'u' :: r => (parseInt (String.ofList r)).map PVal.user
  | 't' :: r => (parseInt (String.ofList r)).map PVal.inst
  | _ => none

def showPVal : PVal → String
  | .user i => s!"u{i}"
  | .inst t => s!"t{t}"

def parseProps (s : String) : Option (List (String × PVal)) :=
  if s == "-" then some []
  else optAll ((s.splitOn ",").map fun kv =>
    match kv.splitOn "=" with
    | [k, v] => (parsePVal v).map fun pv => (k, pv)
    | _ => none)

def parseDt (s : String) : Option (Option TI) :=
  if s == "n" then some none
  else match s.splitOn ":" with
    | [a, b] => do let x ← parseInt a; let y ← parseInt b; some (some ⟨x, y⟩)
    | _ => none

def parseShape (tok : String) : Option Shape :=
  match tok.splitOn ";" with
  | [i, e, _geom, dt, props, cen] => do
      let id ← parseInt i
      let eqc ← parseInt e
      let d ← parseDt dt
      let p ← parseProps props
      match cen.splitOn "," with
      | [x, y] => do
          let lon ← parseRat x
          let lat ← parseRat y
          some { id := id, eqc := eqc, dt := d, props := p, lon := lon, lat := lat }
      | _ => none
  | _ => none

def parseShapes (ts : List String) : Option (List Shape) := optAll (ts.map parseShape)

def parseTag (s : String) : Option Tag :=
  if s == "F" then some .fc else if s == "T" then some .track else none

def showTag : Tag → String
  | .fc => "F"
  | .track => "T"

/-- insertion sort of dict items by key (canonical output of a dict) -/
def sortProps (d : List (String × PVal)) : List (String × PVal) :=
  d.foldl (fun acc kv =>
    let (lo, hi) := acc.partition (fun x => x.1 < kv.1)
    lo ++ [kv] ++ hi) []

def showProps (d : List (String × PVal)) : String :=
  if d.isEmpty then "-" else ",".intercalate ((sortProps d).map fun kv => s!"{kv.1}={showPVal kv.2}")

def showDt : Option TI → String
  | none => "n"
  | some d => s!"{d.start}:{d.stop}"

/-- an original shape prints as its id, a shape made by `convolve` in full -/
def showShape (x : Shape) : String :=
  if x.id ≥ 0 then toString x.id
  else s!"n[{showDt x.dt};{showRat x.lon};{showRat x.lat};{showProps x.props}]"

def showShapes (l : List Shape) : String := " ".intercalate (l.map showShape)

def showColl (c : Coll) : String :=
  if c.shapes.isEmpty then showTag c.tag else showTag c.tag ++ " " ++ showShapes c.shapes

def showRes : Except String Coll → String
  | .ok c => showColl c
  | .error e => e

/-- `b:TFT` → predicate on shapes, by id -/
def parseBits (s : String) : Option (Shape → Bool) :=
  match s.toList with
  | 'b' :: ':' :: r =>
    if r.all (fun ch => ch == 'T' || ch == 'F') then
      let arr := (r.map (· == 'T')).toArray
      some fun x => if x.id < 0 then false else arr.getD x.id.toNat false
    else none
  | _ => none

def parseBox (s : String) : Option Box :=
  match (s.splitOn ",").map parseRat with
  | [some a, some b, some c, some d] => some (a, b, c, d)
  | _ => none

def showBox (b : Box) : String :=
  s!"{showRat b.1} {showRat b.2.1} {showRat b.2.2.1} {showRat b.2.2.2}"

def parseOptInt (s : String) : Option (Option Int) :=
  if s == "-" then some none else (parseInst s).map some

def parseAccept (s : String) : Option (PVal → Bool) :=
  if s == "-" then some fun _ => false
  else (optAll ((s.splitOn ",").map parsePVal)).map fun l => fun v => l.contains v

/-- geometry trees in prefix form: `P x y` | `L n x y …` | `G n x y …` | `M k <k trees>` | `O` -/
partial def parseGeo : List String → Option (Geo × List String)
  | "P" :: x :: y :: rest => do
      let a ← parseRat x; let b ← parseRat y; some (.point (a, b), rest)
  | "L" :: n :: rest => do
      let k ← parseNat n
      let ps ← parsePts (rest.take (2 * k))
      if ps.length = k then some (.line ps, rest.drop (2 * k)) else none
  | "G" :: n :: rest => do
      let k ← parseNat n
      let ps ← parsePts (rest.take (2 * k))
      if ps.length = k then some (.poly ps, rest.drop (2 * k)) else none
  | "O" :: rest => some (.other, rest)
  | "M" :: n :: rest => do
      let k ← parseNat n
      let rec go : Nat → List String → Option (List Geo × List String)
        | 0, ts => some ([], ts)
        | m+1, ts => do
            let (g, ts') ← parseGeo ts
            let (gs, ts'') ← go m ts'
            some (g :: gs, ts'')
      let (ms, rest') ← go k rest
      some (.multi ms, rest')
  | _ => none

partial def parseGeos (ts : List String) : Option (List Geo) :=
  match ts with
  | [] => some []
  | _ => do
      let (g, rest) ← parseGeo ts
      let gs ← parseGeos rest
      some (g :: gs)

/-- `<answer> # <receiver's shapes after the call>` -/
def withSrc (c : Coll) (ans : String) : String := ans ++ " # " ++ showShapes c.shapes

def handleFCOn (op : String) (c : Coll) (rest : List (List String)) : String :=
  match op, rest with
  | "len", [] => withSrc c (toString c.len)
  | "bool", [] => withSrc c (showBool c.bool)
  | "iter", [] => withSrc c (showShapes c.iter)
  | "in", [[it]] =>
    match parseShape it with
    | some x => withSrc c (showBool (c.contains x))
    | none => "bad-op"
  | "fdt_inst", [[t]] =>
    match parseInst t with
    | some v => withSrc c (showRes (c.filterByDt (.inst v)))
    | none => "bad-op"
  | "fdt_ival", [[s, e]] =>
    match parseInst s, parseInst e with
    | some a, some b => withSrc c (showRes (c.filterByDt (.ival ⟨a, b⟩)))
    | _, _ => "bad-op"
  | "fdt_bad", [[_]] => withSrc c (showRes (c.filterByDt .other))
  | "fisect", [[_q], [xq, qx]] =>
    match parseBits xq, parseBits qx with
    | some f, some g => withSrc c (showRes (c.filterByIntersection f g))
    | _, _ => "bad-op"
  | "fcontains", [[_q], [xq, qx]] =>
    match parseBits xq, parseBits qx with
    | some f, some g => withSrc c (showRes (c.filterContains f g))
    | _, _ => "bad-op"
  | "fcontained", [[_q], [xq, qx]] =>
    match parseBits xq, parseBits qx with
    | some f, some g => withSrc c (showRes (c.filterContainedBy f g))
    | _, _ => "bad-op"
  | "intersects", [[_q, qdt], [xq]] =>
    match parseDt qdt, parseBits xq with
    | some d, some f =>
      withSrc c (match c.intersects d f with | .ok b => showBool b | .error e => e)
    | _, _ => "bad-op"
  | "fprop", [[key], [acc]] =>
    match parseAccept acc with
    | some f => withSrc c (showRes (c.filterByProperty key f))
    | none => "bad-op"
  | "bounds", [boxes] =>
    match optAll (boxes.map parseBox) with
    | some bs =>
      let arr := bs.toArray
      let bnd : Shape → Box := fun x => arr.getD x.id.toNat (0, 0, 0, 0)
      withSrc c (match c.bounds bnd with | .ok b => showBox b | .error e => e)
    | none => "bad-op"
  | "geospan", [boxes] =>
    match optAll (boxes.map parseBox) with
    | some bs =>
      let arr := bs.toArray
      let bnd : Shape → Box := fun x => arr.getD x.id.toNat (0, 0, 0, 0)
      withSrc c (match c.geospan bnd with | .ok b => showRat b | .error e => e)
    | none => "bad-op"
  | "add", [[k2], shapes2] =>
    match parseTag k2, parseShapes shapes2 with
    | some t2, some l2 =>
      match Coll.build t2 l2 with
      | .error e => e
      | .ok c2 => withSrc c (showRes (Coll.add c c2)) ++ " # " ++ showShapes c2.shapes
    | _, _ => "bad-op"
  | "getidx", [[i]] =>
    match parseInt i with
    | some v => withSrc c (match c.getIdx v with | .ok x => showShape x | .error e => e)
    | none => "bad-op"
  | "getslice", [[a, b, s]] =>
    match parseOptInt a, parseOptInt b, parseOptInt s with
    | some x, some y, some z =>
      withSrc c (match c.getSlice x y z with | .ok l => "list " ++ showShapes l | .error e => e)
    | _, _, _ => "bad-op"
  | _, _ => "bad-op"

def handle (op : String) (args : List String) : String :=
  if op == "vertices" then
    -- `fc.vertices <geoms for the Python side> | <geometry trees>`
    match splitAt "|" args with
    | [_, toks] =>
      match parseGeos toks with
      | some gs => showPts (vertsList gs)
      | none => "bad-op"
    | _ => "bad-op"
  else
    match splitAt "|" args with
    | [k] :: shapes :: rest =>
      match parseTag k, parseShapes shapes with
      | some tag, some l =>
        match Coll.build tag l with
        | .error e => e
        | .ok c => handleFCOn op c rest
      | _, _ => "bad-op"
    | _ => "bad-op"

end GV.Drv.C18

/-- stream prefix `fc` -/
def GV.Drv.handleFC (op : String) (args : List String) : String := GV.Drv.C18.handle op args
