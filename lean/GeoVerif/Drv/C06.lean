import GeoVerif.Model.Time
import GeoVerif.Drv.Util
namespace GV.Drv
open GV

def showTI (t : TI) : String := s!"{t.start} {t.stop}"

/-- instant token `<µs>[@n|@o<minutes>]`: the representation suffix (naive / UTC offset) does not
    change the instant; this is the abstraction function datetime ↦ µs -/
def parseInstant (s : String) : Option Int := parseInt ((s.splitOn "@").headD "")

def handleTI (op : String) (args : List String) : String :=
  match optAll (args.map parseInstant) with
  | none => "bad-op"
  | some xs =>
    match op, xs with
    | "mk", [s, e] => match TI.mk? s e with | .ok t => "ok " ++ showTI t | .error m => m
    | "mkdelta", [s, d] => match TI.mk? s (s + d) with | .ok t => "ok " ++ showTI t | .error m => m
    | "contains", [s, e, x] => showBool ((TI.mk s e).containsDt x)
    | "intersectsDt", [s, e, x] => showBool ((TI.mk s e).intersectsDt x)
    | "issubset", [a, b, c, d] => showBool ((TI.mk a b).issubset ⟨c, d⟩)
    | "issuperset", [a, b, c, d] => showBool ((TI.mk a b).issuperset ⟨c, d⟩)
    | "containsTI", [a, b, c, d] => showBool ((TI.mk a b).containsTI ⟨c, d⟩)
    | "isdisjoint", [a, b, c, d] => showBool ((TI.mk a b).isdisjoint ⟨c, d⟩)
    | "intersects", [a, b, c, d] => showBool ((TI.mk a b).intersects ⟨c, d⟩)
    | "intersection", [a, b, c, d] =>
        match (TI.mk a b).intersection ⟨c, d⟩ with | none => "none" | some t => showTI t
    | "union", [a, b, c, d] => showTI ((TI.mk a b).union ⟨c, d⟩)
    | "eq", [a, b, c, d] => showBool ((TI.mk a b).eq ⟨c, d⟩)
    | "hasheq", [a, b, c, d] => showBool ((TI.mk a b).hashKey == (TI.mk c d).hashKey)
    | "elapsed", [a, b] => toString (TI.mk a b).elapsed
    | _, _ => "bad-op"

end GV.Drv
