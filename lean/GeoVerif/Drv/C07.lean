import GeoVerif.Model.Sphere
import GeoVerif.Drv.Util
/-!
# Driver handler for C07 (stream prefix `gd`): the geodesy model at the `Float` instance

All numbers are binary64 bit patterns (`x` + 16 hex digits).  Outputs that the code rounds are given
**un-rounded** (the harness checks that the implementation's value is a correct rounding of them)
followed by the model's own rounded value.
-/
namespace GV.Drv.C07
open GV GV.Sphere GV.Num

def fR : Float := earthR (α := Float)
def rnd7 : Float → Float := roundHalfUpF 7
def rnd5 : Float → Float := roundHalfUpF 5

def showFs (xs : List Float) : String := " ".intercalate (xs.map showFloat)

def showCoords (cs : List (Coord Float)) : String :=
  " ".intercalate (cs.map fun c => showFloat c.1 ++ " " ++ showFloat c.2)

def pairUp : List Float → List (Coord Float)
  | a :: b :: rest => (a, b) :: pairUp rest
  | _ => []

end GV.Drv.C07

namespace GV.Drv
open GV GV.Sphere GV.Drv.C07

def handleGD (op : String) (args : List String) : String :=
  match optAll (args.map parseFloat) with
  | none => "bad-op"
  | some xs =>
    match op, xs with
    | "hav", [a, b, c, d] => showFloat (haversine fR (a, b) (c, d))
    | "hav2", [a, b, c, d] => showFs [haversine fR (a, b) (c, d), haversine fR (c, d) (a, b)]
    | "shift", [a, b, c, d, a', c'] =>
        showFs [haversine fR (a, b) (c, d), haversine fR (a', b) (c', d)]
    | "bearing", [a, b, c, d] =>
        showFs [bearingUnrounded (a, b) (c, d), bearing rnd5 (a, b) (c, d)]
    | "dest", [a, b, t, d] =>
        let u := destRaw fR (a, b) t d
        let r := destination rnd7 fR (a, b) t d
        showFs [u.1, u.2, r.1, r.2]
    | "destdeg", [a, b, t, d] =>
        let u := destRawDeg fR (a, b) t d
        let r := destinationDeg rnd7 fR (a, b) t d
        showFs [u.1, u.2, r.1, r.2]
    | "xyz", [a, b, c, d] => showFloat (distXyz fR (a, b) (c, d))
    | "rot", ox :: oy :: deg :: rest => showCoords (rotate (ox, oy) deg (pairUp rest))
    | "rot2", [ox, oy, al, be, x, y] =>
        showCoords (rotate (ox, oy) (al + be) [(x, y)] ++
                    rotate (ox, oy) al (rotate (ox, oy) be [(x, y)]))
    | _, _ => "bad-op"

end GV.Drv
