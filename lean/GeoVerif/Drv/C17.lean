import GeoVerif.Model.Track
import GeoVerif.Drv.C18
/-!
# Driver for C17 (stream prefix `tr`)

`tr.<op> <shape tokens> | <section> | …`; shape tokens as in `Drv/C18.lean`.  The distance table (last
section of `journeys` / `hist`, starting with the token `D`) has entries `lon1,lat1,lon2,lat2,d`:
the haversine distance measured on the implementation between two centroids, as exact rationals.
-/
namespace GV.Drv.C17
open GV.Coll GV.Coll.Track GV.Drv.C18

abbrev DistTab := List ((Rat × Rat × Rat × Rat) × Rat)

def parseDistEntry (s : String) : Option ((Rat × Rat × Rat × Rat) × Rat) :=
  match (s.splitOn ",").map parseRat with
  | [some a, some b, some c, some d, some e] => some ((a, b, c, d), e)
  | _ => none

def parseDist : List String → Option DistTab
  | "D" :: es => optAll (es.map parseDistEntry)
  | _ => none

def lookupDist (tab : DistTab) (a b : Shape) : Option Rat :=
  (tab.find? fun e => e.1 == (a.lon, a.lat, b.lon, b.lat)).map (·.2)

def distOf (tab : DistTab) (a b : Shape) : Rat := (lookupDist tab a b).getD (-1)

/-- every ordered pair the loop may consult is in the table -/
def distCovers (tab : DistTab) : List Shape → Bool
  | [] => true
  | x :: xs => xs.all (fun y => (lookupDist tab x y).isSome) && distCovers tab xs

/-- parse one history section into an operation; `none` = malformed, `some none` = table missing -/
def parseOp (tab : DistTab) (cur : Coll) : List String → Option (Option Op)
  | "add" :: ts => (parseShapes ts).map fun l => some (.add l)
  | ["fdt_inst", t] => (parseInst t).map fun v => some (.filterDt (.inst v))
  | ["fdt_ival", s, e] => do
      let a ← parseInst s; let b ← parseInst e; some (some (.filterDt (.ival ⟨a, b⟩)))
  | ["fdt_bad", _] => some (some (.filterDt .other))
  | ["fprop", key, acc] => (parseAccept acc).map fun f => some (.filterProp key f)
  | ["slice", a, b] => do
      let x ← parseOptInt a; let y ← parseOptInt b; some (some (.slice x y))
  | ["convolve"] => some (some .convolve)
  | ["journeys", v] => do
      let r ← parseRat v
      if distCovers tab cur.shapes then some (some (.journeys (distOf tab) r)) else some none
  | ["ftime", s, e] => do
      let a ← parseInt s; let b ← parseInt e; some (some (.filterTime a b))
  | _ => none

/-- `list.sort(key=start, reverse=True)`: stable, newest first -/
def sortDesc (l : List Shape) : List Shape := l.mergeSort fun a b => decide (a.startD ≥ b.startD)

/-- what the *caller* does with the list object it handed to the constructor (`arg.*`) or with a sibling Track built
    from that same list (`sib.*`).  The Track constructor stores a sorted **copy** (`sorted(...)`), so none of these is
    an operation on the track: `none` = not such a section, `some arg'` = the caller's list afterwards. -/
def callerStep (arg : List Shape) : List String → Option (Option (List Shape))
  | "arg.append" :: ts => (parseShapes ts).map fun l => some (arg ++ l)
  | ["arg.reverse"] => some (some arg.reverse)
  | ["arg.sortdesc"] => some (some (sortDesc arg))
  | ["arg.pop"] => some (some arg.dropLast)
  | ["arg.clear"] => some (some [])
  | "sib.append" :: ts => (parseShapes ts).map fun _ => some arg
  | ["arg"] => some (some arg)
  | _ => some none

/-- run the sections one by one (mirrors `Track.run`: an operation that raises leaves the track); `arg` is the list
    object the first track was constructed from, as the caller sees it -/
def runHist (tab : DistTab) (cur : Coll) (arg : List Shape) : List (List String) → Option (List String)
  | [] => some []
  | sec :: rest =>
    match callerStep arg sec with
    | none => none
    | some (some arg') =>
      let out := if sec == ["arg"] then "A " ++ showShapes arg' else showColl cur
      (runHist tab cur arg' rest).map (out :: ·)
    | some none =>
      match parseOp tab cur sec with
      | none => none
      | some none => (runHist tab cur arg rest).map ("no-dist" :: ·)
      | some (some op) =>
        match Track.step cur op with
        | .ok c' => (runHist tab c' arg rest).map (showColl c' :: ·)
        | .error e => (runHist tab cur arg rest).map (e :: ·)

def handle (op : String) (args : List String) : String :=
  match splitAt "|" args with
  | [] => "bad-op"
  | shapes :: rest =>
    match parseShapes shapes with
    | none => "bad-op"
    | some l =>
      match mkTrack l with
      | .error e => e
      | .ok c =>
        match op, rest with
        | "mk", [] => showColl c
        | "hasdup", [] => withSrc c (showBool (hasDup c))
        | "convolve", [] => withSrc c (showRes (convolve c))
        | "add", [shapes2] =>
          match parseShapes shapes2 with
          | some l2 => withSrc c (showRes (Track.step c (.add l2)))
          | none => "bad-op"
        | "slice", [[a, b]] =>
          match parseOptInt a, parseOptInt b with
          | some x, some y => withSrc c (showRes (getitem c x y))
          | _, _ => "bad-op"
        | "ftime", [[s, e]] =>
          match parseInt s, parseInt e with
          | some x, some y => withSrc c (showRes (filterByTime c x y))
          | _, _ => "bad-op"
        | "journeys", [[v], d] =>
          match parseRat v, parseDist d with
          | some r, some tab =>
            if distCovers tab c.shapes then withSrc c (showRes (journeys (distOf tab) r c))
            else "no-dist"
          | _, _ => "bad-op"
        | "hist", secs =>
          match secs.getLast? with
          | none => "bad-op"
          | some d =>
            match parseDist d with
            | none => "bad-op"
            | some tab =>
              match runHist tab c l secs.dropLast with
              | some outs => " ; ".intercalate (showColl c :: outs)
              | none => "bad-op"
        | _, _ => "bad-op"

end GV.Drv.C17

/-- stream prefix `tr` -/
def GV.Drv.handleTR (op : String) (args : List String) : String := GV.Drv.C17.handle op args
