import GeoVerif.Model.ObjState
import GeoVerif.Drv.Util
/-!
# Shared parsing / printing for the object-state model (`ob.iso`, `sm.run`)

Instantiation: geometry token `G := Nat` (index of a template geometry on the Python side), hole values
`H := Nat` and sequence item values `W := Nat` (indices into fixed pools on the Python side).
-/
namespace GV.Drv.C16
open GV.Drv
open GV GV.OS

abbrev Ob := OS.Obj Nat Nat Nat
abbrev Hp := OS.Heap Nat Nat
abbrev Fl := OS.Fields Nat Nat Nat

def parseKind : String → Option Kind
  | "polygon" => some .polygon | "box" => some .box | "circle" => some .circle
  | "ellipse" => some .ellipse | "ring" => some .ring | "linestring" => some .linestring
  | "point" => some .point | "mpoint" => some .mpoint | "mline" => some .mline | "mpoly" => some .mpoly
  | _ => none

/-- instant token `<µs>[@n|@o<minutes>]`: the suffix is the spelling of the datetime (naive / another UTC offset);
    the value is the instant — this is the abstraction function datetime ↦ µs (naive is read as UTC) -/
def parseInst (s : String) : Option Int := parseInt ((s.splitOn "@").headD "")

def parseTI (s : String) : Option (Option TI) :=
  if s == "_" then some none else
  match s.splitOn ":" with
  | [a, b] => do let x ← parseInst a; let y ← parseInst b; some (some ⟨x, y⟩)
  | _ => none

/-- `5` or `[1;2;3]` -/
def parseRVal (s : String) : Option RVal :=
  if s.startsWith "[" && s.endsWith "]" then
    let inner := ((s.drop 1).dropEnd 1).toString
    if inner.isEmpty then some (.list []) else (optAll ((inner.splitOn ";").map parseInt)).map .list
  else (parseInt s).map .atom

def parsePArg (s : String) : Option PArg :=
  (parseRVal s).map fun | .atom n => .atom n | .list xs => .list xs

def parseKV (s : String) : Option (String × String) :=
  match s.splitOn "=" with
  | [k, v] => some (k, v)
  | _ => none

/-- `-` or `k=1,l=[1;2]` -/
def parseProps (s : String) : Option (List (String × RVal)) :=
  if s == "-" then some [] else
  optAll ((s.splitOn ",").map fun e => do
    let (k, v) ← parseKV e
    let r ← parseRVal v
    some (k, r))

def parseMut (s : String) : Option (Mut Nat) :=
  match s.splitOn ":" with
  | ["setdt", "_"] => some (.setDt none)
  | ["setdt", a, b] => do let x ← parseInst a; let y ← parseInst b; some (.setDt (some ⟨x, y⟩))
  | ["setdtd", a] => do let x ← parseInst a; some (.setDt (some ⟨x, x⟩))     -- a datetime argument: an instant
  | ["buffer", d] => (parseInt d).map .bufferDt
  | ["strip"] => some .stripDt
  | ["setprop", kv] => do let (k, v) ← parseKV kv; let a ← parsePArg v; some (.setProp k a)
  | ["hpop"] => some .holesPop
  | ["hpush", x] => (parseNat x).map .holesPush
  | ["ddel", k] => some (.dictDel k)
  | ["npush", kv] => do let (k, v) ← parseKV kv; let n ← parseInt v; some (.nestedPush k n)
  | _ => none

def showRVal : RVal → String
  | .atom n => toString n
  | .list xs => "[" ++ ";".intercalate (xs.map toString) ++ "]"

def showProps (d : List (String × RVal)) : String :=
  if d.isEmpty then "-" else ",".intercalate (d.map fun e => e.1 ++ "=" ++ showRVal e.2)

def showTI : Option TI → String
  | none => "_"
  | some t => s!"{t.start}:{t.stop}"

def showIds : Option (List Nat) → String
  | none => "_"
  | some xs => "[" ++ ";".intercalate (xs.map toString) ++ "]"

def mkFields (kind : Kind) (variant : Nat) (dt : Option TI) (props : List (String × RVal)) (nh nseq : Nat) : Fl :=
  { kind := kind, geom := variant, dt := dt, props := props
    holes := if kind.hasHoles then some (List.range nh) else none
    seq := if kind.seqMode == .none then none else some (List.range nseq) }

def showFields (f : Fl) : String :=
  s!"dt={showTI f.dt};props={showProps f.props};holes={showIds f.holes};seq={showIds f.seq}"

/-- `o` = the memoised observation is what a computation from the current inputs returns, `s` = stale;
    the fifth flag stands for all unmemoised observations (WKT, GeoJSON, polygon form, …): they are
    functions of the fields, there is nothing that could be stale -/
def showDerived (h : Hp) (o : Ob) : String :=
  String.ofList (([Slot.bounds, .centroid, .area, .shapely].map fun s =>
    if derived h o s == curStamp h o then 'o' else 's') ++ ['o'])

def Kind.hasVolume : Kind → Bool
  | .polygon | .box | .circle | .ellipse | .ring | .mpoly => true
  | _ => false

/-- `volume`: `0.` without time, else `area * dt.elapsed.total_seconds()` -/
def showVolume (h : Hp) (o : Ob) (area : Float) : String :=
  if !Kind.hasVolume o.kind then "_"
  else if derived h o .area != curStamp h o then "stale"
  else match dtOf o with
    | none => showFloat 0.0
    | some t => showFloat (area * (Float.ofInt (t.stop - t.start) / 1000000.0))

def showObs (h : Hp) (o : Ob) (area : Float) : String :=
  s!"{showFields (fields h o)};drv={showDerived h o};vol={showVolume h o area}"

end GV.Drv.C16
