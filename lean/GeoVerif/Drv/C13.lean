import GeoVerif.Model.Wkt
import GeoVerif.Gen.WktMap
import GeoVerif.Drv.Util
/-!
# Driver for C13 (stream prefix `wk`)

Numbers of a shape record are `token@value` (the token the implementation printed for that float and the
float's exact value `p/q`); a coordinate is `lon,lat,z,m` with `-` for an absent Z/M; rings of a polygon
are separated by `;`, parts of a multi-shape by `|`.  The first argument of `render`/`rt` is the
constructor recipe for the Python side and is ignored here.

    wk.render <recipe> <KIND> <record>             → the WKT text
    wk.rt <via> <recipe> <KIND> <record>           → record read back from the written text, eq=, wf=
    wk.parse <mode> <%-encoded text> tok=val …      → record the text denotes | ERR:Value

Output numbers are plain `p/q`; a number the range wrapping of `Coordinate` changed is prefixed `~`.
-/
namespace GV.Drv.C13
open GV GV.Wkt GV.Drv

/-- the driver's floats: (token, exact value) -/
abbrev Fl := String × Rat

def mkIO (table : List (String × Rat)) : NumIO Fl where
  val := fun x => x.2
  ofRat := fun r => ("~", r)
  shw := fun x => x.1
  rd := fun t => (table.lookup t).map (fun v => (t, v))

def parseNum (s : String) : Option Fl :=
  match s.splitOn "@" with
  | [t, v] => (parseRat v).map (fun r => (t, r))
  | _ => none

def parseOptNum (s : String) : Option (Option Fl) :=
  if s == "-" then some none else (parseNum s).map some

def parseCoord (s : String) : Option (Coord Fl) :=
  match s.splitOn "," with
  | [a, b, z, m] => do
    let lon ← parseNum a
    let lat ← parseNum b
    let z' ← parseOptNum z
    let m' ← parseOptNum m
    some ⟨lon, lat, z', m'⟩
  | _ => none

def parseCoords (ts : List String) : Option (List (Coord Fl)) := optAll (ts.map parseCoord)

def parsePoly (ts : List String) : Option (Poly Fl) :=
  match optAll ((splitAt ";" ts).map parseCoords) with
  | some (o :: hs) => some ⟨o, hs⟩
  | _ => none

def coordNums (c : Coord Fl) : List Fl := [c.lon, c.lat] ++ c.z.toList ++ c.m.toList
def polyNums (p : Poly Fl) : List Fl := (p.outline :: p.holes).flatten.flatMap coordNums

def showNum (x : Fl) : String := (if x.1 == "~" then "~" else "") ++ showRat x.2
def showOpt : Option Fl → String
  | none => "-"
  | some x => showNum x
def showCoord (c : Coord Fl) : String :=
  s!"{showNum c.lon},{showNum c.lat},{showOpt c.z},{showOpt c.m}"
def showCoords (cs : List (Coord Fl)) : String := " ".intercalate (cs.map showCoord)
def showPoly (p : Poly Fl) : String := " ; ".intercalate ((p.outline :: p.holes).map showCoords)

def showGeo : Geo Fl → String
  | .point c => "PT " ++ showCoord c
  | .linestring vs => "LS " ++ showCoords vs
  | .polygon p => "PG " ++ showPoly p
  | .multipoint cs => "MPT " ++ showCoords cs
  | .multilinestring ls => "MLS " ++ " | ".intercalate (ls.map showCoords)
  | .multipolygon ps => "MPG " ++ " | ".intercalate (ps.map showPoly)

def showRes : Except String (Geo Fl) → String
  | .ok g => showGeo g
  | .error e => e

/-- a record as a simple shape plus all its numbers -/
def parseGeo (kind : String) (ts : List String) : Option (Geo Fl × List Fl) :=
  match kind with
  | "PT" => match ts with
    | [c] => (parseCoord c).map fun c => (.point c, coordNums c)
    | _ => none
  | "LS" => (parseCoords ts).map fun cs => (.linestring cs, cs.flatMap coordNums)
  | "MPT" => (parseCoords ts).map fun cs => (.multipoint cs, cs.flatMap coordNums)
  | "PG" => (parsePoly ts).map fun p => (.polygon p, polyNums p)
  | "MLS" => (optAll ((splitAt "|" ts).map parseCoords)).map fun ls =>
      (.multilinestring ls, ls.flatten.flatMap coordNums)
  | "MPG" => (optAll ((splitAt "|" ts).map parsePoly)).map fun ps =>
      (.multipolygon ps, ps.flatMap polyNums)
  | _ => none

def kindOf (s : String) : Option Kind :=
  match s with
  | "PT" => some .point | "LS" => some .linestring | "PG" => some .polygon
  | "MPT" => some .multipoint | "MLS" => some .multilinestring | "MPG" => some .multipolygon
  | _ => none

/-- `_PARSER_MAP` as regenerated from `parsers.py` on every run, classes mapped to kinds -/
def classKind (c : String) : Option Kind :=
  match c with
  | "GeoPoint" => some .point | "GeoLineString" => some .linestring | "GeoPolygon" => some .polygon
  | "MultiGeoPoint" => some .multipoint | "MultiGeoLineString" => some .multilinestring
  | "MultiGeoPolygon" => some .multipolygon
  | _ => none

def parserMap : List (String × Kind) :=
  GV.Wkt.Gen.parserMap.filterMap fun kv => (classKind kv.2).map fun k => (kv.1, k)

def hexVal (c : Char) : Option Nat :=
  if c.isDigit then some (c.toNat - '0'.toNat)
  else if 'a' ≤ c ∧ c ≤ 'f' then some (c.toNat - 'a'.toNat + 10)
  else if 'A' ≤ c ∧ c ≤ 'F' then some (c.toNat - 'A'.toNat + 10)
  else none

/-- `%XX` escapes (space, `%`, control characters) -/
def pctDecode : List Char → List Char
  | '%' :: a :: b :: rest =>
    match hexVal a, hexVal b with
    | some x, some y => Char.ofNat (x * 16 + y) :: pctDecode rest
    | _, _ => '%' :: pctDecode (a :: b :: rest)
  | c :: rest => c :: pctDecode rest
  | [] => []

def parseTable (ts : List String) : Option (List (String × Rat)) :=
  optAll (ts.map fun t => match t.splitOn "=" with
    | [k, v] => (parseRat v).map fun r => (k, r)
    | _ => none)

/-- read `text` as the kind named by `mode`, or through the dispatcher for `ANY` -/
def readText (io : NumIO Fl) (mode text : String) : Option (Except String (Geo Fl)) :=
  if mode == "ANY" then some (parseWkt io parserMap text)
  else (kindOf mode).map fun k => readAs io k text

def removeDupRun (io : NumIO Fl) : List (Coord Fl) → List (Coord Fl)
  | a :: b :: rest => if Coord.eqv io a b then removeDupRun io (b :: rest) else a :: removeDupRun io (b :: rest)
  | l => l

def polyDedup (io : NumIO Fl) (p : Poly Fl) : Poly Fl :=
  ⟨removeDupRun io p.outline, p.holes.map (removeDupRun io)⟩

def handle (op : String) (args : List String) : String :=
  match op, args with
  | "render", _ :: "RF" :: ts =>
    match optAll ((splitAt ";" ts).map parseCoords) with
    | some (o :: i :: hs) => render (toWktRingFull (mkIO []) o i hs)
    | _ => "bad-op"
  | "render", _ :: "NS" :: ts =>
    match parsePoly ts with
    | some p => render (toWktBounding (mkIO []) p.outline p.holes)
    | none => "bad-op"
  | "render", _ :: kind :: ts =>
    match parseGeo kind ts with
    | some (g, _) => render (toWkt (mkIO []) g)
    | none => "bad-op"
  | "rt", via :: _ :: "RF" :: ts =>
    match optAll ((splitAt ";" ts).map parseCoords) with
    | some (o :: i :: hs) =>
      let io := mkIO (((o :: i :: hs).flatten.flatMap coordNums))
      let text := render (toWktRingFull io o i hs)
      match readText io (if via == "any" then "ANY" else "PG") text with
      | some (.ok (.polygon p)) =>
        let q := ringToPolygon io (ringFullLinearRings o i hs)
        showGeo (.polygon p) ++ " eq=" ++
          showBool (polyEq io (polyDedup io p) (polyDedup io q))
      | some r => showRes r
      | none => "bad-op"
    | _ => "bad-op"
  | "rt", via :: _ :: "NS" :: ts =>
    match parsePoly ts with
    | some p =>
      let io := mkIO (polyNums p)
      let text := render (toWktBounding io p.outline p.holes)
      match readText io (if via == "any" then "ANY" else "PG") text with
      | some (.ok g) =>
        showGeo g ++ " eq=" ++ showBool (libEq io g (.polygon (toPolygonBounding io p.outline p.holes)))
          ++ " wf=" ++ showBool (Poly.wf io p)
      | some r => showRes r
      | none => "bad-op"
    | none => "bad-op"
  | "rt", via :: _ :: kind :: ts =>
    match parseGeo kind ts with
    | some (g, nums) =>
      let io := mkIO nums
      let text := render (toWkt io g)
      match readText io (if via == "any" then "ANY" else kind) text with
      | some (.ok g') => showGeo g' ++ " eq=" ++ showBool (libEq io g' g) ++ " wf=" ++
          showBool (g.wf io && (toWkt io g).body.emitted)
      | some r => showRes r
      | none => "bad-op"
    | none => "bad-op"
  | "parse", mode :: enc :: table =>
    match parseTable table with
    | some tb =>
      let text := pctDecode enc.toList
      -- every well-formed number of the text must have a value in the table (harness error otherwise)
      let missing := match lex text with
        | some toks => toks.filterMap fun t => match t with
            | .num s => if isNumberL s && (tb.lookup (String.ofList s)).isNone then some (String.ofList s) else none
            | _ => none
        | none => []
      match missing with
      | t :: _ => "no-token:" ++ t
      | [] =>
        match readText (mkIO tb) mode (String.ofList text) with
        | some r => showRes r
        | none => "bad-op"
    | none => "bad-op"
  | "isnum", [t] => showBool (tokOk t)
  | _, _ => "bad-op"

end GV.Drv.C13

namespace GV.Drv
def handleWK (op : String) (args : List String) : String := GV.Drv.C13.handle op args
end GV.Drv
