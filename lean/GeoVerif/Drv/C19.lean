import GeoVerif.Model.Dms
import GeoVerif.Drv.Util
/-!
# Driver handler for C19 (stream prefix `dms`)

Numbers are exact rationals `p/q` (the decimal the harness typed, or the exact value of a float);
strings are written with a leading `'` (so that the empty string is a token).
-/
namespace GV.Drv.C19
open GV GV.CoordObj GV.Dms GV.Drv

def showDMS (x : DMS) : String :=
  s!"{showRat x.deg} {showRat x.min} {showRat x.sec} {x.hemi}"

/-- `i<int>` (a Python int) or `p/q` (the exact value of a Python float) -/
def parseNumI (s : String) : Option Rat :=
  match s.toList with
  | 'i' :: rest => (String.ofList rest).toInt?.map (fun i => (i : Rat))
  | _ => parseRat s

def parseDMS (d m s h : String) : Option DMS := do
  let dv ← parseNumI d
  let mv ← parseNumI m
  let sv ← parseNumI s
  match h.toList with
  | [c] => some { deg := dv, min := mv, sec := sv, hemi := c }
  | _ => none

def parseStrTok (s : String) : Option (List Char) :=
  match s.toList with
  | '\'' :: rest => some rest
  | _ => none

def showCoord (c : Coord) : String := s!"{showRat c.lon} {showRat c.lat}"

end GV.Drv.C19

namespace GV.Drv
open GV GV.CoordObj GV.Dms GV.Drv.C19

def handleDms (op : String) (args : List String) : String :=
  match op, args with
  | "todms", [lon, lat] =>
    match parseRat lon, parseRat lat with
    | some x, some y =>
      let d := toDms (Coord.new x y)
      s!"{showDMS d.1} {showDMS d.2}"
    | _, _ => "bad-op"
  | "fromdms", [d1, m1, s1, h1, d2, m2, s2, h2] =>
    match parseDMS d1 m1 s1 h1, parseDMS d2 m2 s2 h2 with
    | some a, some b => showCoord (fromDms a b)
    | _, _ => "bad-op"
  | "dmsrt", [lon, lat] =>
    match parseRat lon, parseRat lat with
    | some x, some y =>
      let d := toDms (Coord.new x y)
      showCoord (fromDms d.1 d.2)
    | _, _ => "bad-op"
  | "toqdms", [rev, lon, lat] =>
    match parseBool rev, parseRat lon, parseRat lat with
    | some r, some x, some y =>
      let q := toQdms (Coord.new x y) r
      s!"{String.ofList q.1} {String.ofList q.2}"
    | _, _, _ => "bad-op"
  | "fromqdms", [lon, lat] =>
    match parseStrTok lon, parseStrTok lat with
    | some a, some b =>
      match fromQdms a b with
      | .ok c => showCoord c
      | .error e => e
    | _, _ => "bad-op"
  | "fromqdmsw", [lon, lat] =>
    match parseStrTok lon, parseStrTok lat with
    | some a, some b =>
      match fromQdms a b with
      | .ok c => showCoord c
      | .error e => e
    | _, _ => "bad-op"
  | "qdmsrt", [lon, lat] =>
    match parseRat lon, parseRat lat with
    | some x, some y =>
      let q := toQdms (Coord.new x y)
      match fromQdms q.1 q.2 with
      | .ok c => showCoord c
      | .error e => e
    | _, _ => "bad-op"
  | _, _ => "bad-op"

end GV.Drv
