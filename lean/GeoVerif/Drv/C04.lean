import GeoVerif.Model.Multi
import GeoVerif.Drv.Util
/-!
# Driver handler for C04 (stream prefix `mu`)

A line is `mu.<op> <shape tokens …> | <data tokens …>`.  The shape tokens tell the harness which real
shapes to build; the model only reads the data section after the last `|`: the member-level truth table
measured on the implementation's single-shape methods (rows as strings of `T`/`F`, `-` = empty row),
member boxes, or the description of a `split` scenario.  Members are represented by their position.
-/
namespace GV.Drv.C04
open GV GV.Multi GV.Drv

def parseRow (s : String) : Option (List Bool) :=
  if s == "-" then some [] else optAll (s.toList.map fun c => parseBool (String.singleton c))

def rowAt (r : List Bool) (i : Nat) : Bool := r.getD i false

def matAt (m : List (List Bool)) (i j : Nat) : Bool := (m.getD i []).getD j false

def parseBox (s : String) : Option Box :=
  match optAll ((s.splitOn ",").map parseRat) with
  | some [a, b, c, d] => some (a, b, c, d)
  | _ => none

def parseOptTI (s : String) : Option (Option TI) :=
  if s == "none" then some none else
  match optAll ((s.splitOn ",").map parseInt) with
  | some [a, b] => some (some ⟨a, b⟩)
  | _ => none

def parseDict (s : String) : Option Dict :=
  if s == "-" then some [] else
  optAll ((s.splitOn ";").map fun kv =>
    match kv.splitOn "=" with
    | [k, v] => some (k, v)
    | _ => none)

def showOptTI : Option TI → String
  | none => "none"
  | some t => s!"{t.start},{t.stop}"

/-- canonical dictionary text: `k=v` sorted by key -/
def showDict (d : Dict) : String :=
  if d.isEmpty then "-" else
  ";".intercalate ((d.mergeSort (fun a b => !decide (b.1 < a.1))).map fun kv => kv.1 ++ "=" ++ kv.2)

/-- member descriptions `dt props dt props …` -/
def parseMembers : List String → Option (List (Option TI × Dict))
  | [] => some []
  | d :: p :: rest => do
      let dt ← parseOptTI d; let pr ← parseDict p; let r ← parseMembers rest; some ((dt, pr) :: r)
  | _ => none

/-- the `split` scenario: parent dictionary at address 0, member `i`'s own dictionary at `i+1`;
    split; `set_property` on returned shape `mi`; then `set_property` on the parent -/
def runSplit (pdt : Option TI) (pp : Dict) (mem : List (Option TI × Dict)) (mi : Nat) (k v : String) : String :=
  let h0 : Heap := pp :: mem.map (·.2)
  let ms : List (Shp Nat) := (List.range mem.length).map fun i =>
    { geom := i, dt := (mem.getD i (none, [])).1, props := i + 1 }
  let r := split h0 pdt 0 ms
  let out := r.2
  let addrs := out.map (·.props)
  let old := List.range h0.length
  let fresh := addrs.all (fun a => !old.contains a) && addrs.eraseDups.length == addrs.length
  let obs (h : Heap) : String :=
    "parent=" ++ showDict (h.read 0) ++
    " split=" ++ "/".intercalate (out.map fun s => showDict (h.read s.props)) ++
    " orig=" ++ "/".intercalate (ms.map fun s => showDict (h.read s.props))
  let h2 := match out[mi]? with
    | some s => setProperty r.1 s k v
    | none => r.1
  let h3 := setProperty h2 ({ geom := 0, dt := pdt, props := 0 } : Shp Nat) "pk" "pv"
  "geom=" ++ ",".intercalate (out.map fun s => toString s.geom) ++
  " dt=" ++ "/".intercalate (out.map fun s => showOptTI s.dt) ++
  " origdt=" ++ "/".intercalate (ms.map fun s => showOptTI s.dt) ++
  " fresh=" ++ showBool fresh ++
  " | " ++ obs r.1 ++ " | " ++ obs h2 ++ " | " ++ obs h3

end GV.Drv.C04

namespace GV.Drv
open GV GV.Multi GV.Drv.C04

def handleMulti (op : String) (args : List String) : String :=
  let data := (splitAt "|" args).getLastD []
  match op, data with
  | "cc", [row] =>
    match parseRow row with
    | some r => showBool (containsCoord (fun (i : Nat) (_ : Unit) => rowAt r i) (List.range r.length) ())
    | none => "bad-op"
  | "mis", [row] =>
    match parseRow row with
    | some r => showBool (intersectsShape (fun (i : Nat) (_ : Unit) => rowAt r i) (List.range r.length) (.single ()))
    | none => "bad-op"
  | "mcs", [row] =>
    match parseRow row with
    | some r => showBool (containsShape (fun (i : Nat) (_ : Unit) => rowAt r i) (List.range r.length) (.single ()))
    | none => "bad-op"
  | "scm", [row] =>
    match parseRow row with
    | some r => showBool (singleContainsMulti (fun (_ : Unit) (j : Nat) => rowAt r j) () (List.range r.length))
    | none => "bad-op"
  | "sim", [kind, fwd, mir] =>
    match parseRow fwd, parseRow mir with
    | some f, some m =>
      if kind == "P" then
        showBool (pointIntersectsMulti (fun (j : Nat) (_ : Unit) => rowAt m j) () (List.range m.length))
      else if kind == "S" then
        showBool (singleIntersectsMulti (fun (_ : Unit) (j : Nat) => rowAt f j) () (List.range f.length))
      else "bad-op"
    | _, _ => "bad-op"
  | "mim", n :: k :: rows =>
    match parseNat n, parseNat k, optAll (rows.map parseRow) with
    | some n, some k, some m =>
      if m.length == n && m.all (·.length == k) then
        showBool (intersectsShape (fun (i j : Nat) => matAt m i j) (List.range n) (.multi (List.range k)))
      else "bad-op"
    | _, _, _ => "bad-op"
  | "mcm", n :: k :: rows =>
    match parseNat n, parseNat k, optAll (rows.map parseRow) with
    | some n, some k, some m =>
      if m.length == n && m.all (·.length == k) then
        showBool (containsShape (fun (i j : Nat) => matAt m i j) (List.range n) (.multi (List.range k)))
      else "bad-op"
    | _, _, _ => "bad-op"
  | "bounds", boxes =>
    match optAll (boxes.map parseBox) with
    | some bs =>
      match bounds bs with
      | .ok b => s!"{showRat b.1} {showRat b.2.1} {showRat b.2.2.1} {showRat b.2.2.2}"
      | .error e => e
    | none => "bad-op"
  | "split", pdt :: pp :: mi :: k :: v :: members =>
    match parseOptTI pdt, parseDict pp, parseNat mi, parseMembers members with
    | some pdt, some pp, some mi, some mem => runSplit pdt pp mem mi k v
    | _, _, _, _ => "bad-op"
  | _, _ => "bad-op"

end GV.Drv
