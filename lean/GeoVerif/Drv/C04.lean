import GeoVerif.Model.Multi
import GeoVerif.Drv.Util
/-!
# Driver handler for C04 (stream prefix `mu`)

A line is `mu.<op> <shape tokens …> | <data tokens …>`.  The shape tokens tell the harness which real
shapes to build; the model only reads the data section after the last `|`: the member-level truth table
measured on the implementation's single-shape methods (rows as strings of `T`/`F`, `-` = empty row),
member boxes, or the description of a `split` scenario.  Members are represented by their position.
-/
namespace GV.Drv.C04
open GV GV.Multi GV.Drv

def parseRow (s : String) : Option (List Bool) :=
  if s == "-" then some [] else optAll (s.toList.map fun c => parseBool (String.singleton c))

def rowAt (r : List Bool) (i : Nat) : Bool := r.getD i false

def matAt (m : List (List Bool)) (i j : Nat) : Bool := (m.getD i []).getD j false

def parseBox (s : String) : Option Box :=
  match optAll ((s.splitOn ",").map parseRat) with
  | some [a, b, c, d] => some (a, b, c, d)
  | _ => none

def parseOptTI (s : String) : Option (Option TI) :=
  if s == "none" then some none else
  match optAll ((s.splitOn ",").map parseInt) with
  | some [a, b] => some (some ⟨a, b⟩)
  | _ => none

def parseDict (s : String) : Option Dict :=
  if s == "-" then some [] else
  optAll ((s.splitOn ";").map fun kv =>
    match kv.splitOn "=" with
    | [k, v] => some (k, v)
    | _ => none)

def showOptTI : Option TI → String
  | none => "none"
  | some t => s!"{t.start},{t.stop}"

/-- canonical dictionary text: `k=v` sorted by key -/
def showDict (d : Dict) : String :=
  if d.isEmpty then "-" else
  ";".intercalate ((d.mergeSort (fun a b => !decide (b.1 < a.1))).map fun kv => kv.1 ++ "=" ++ kv.2)

/-- member descriptions `dt props dt props …` -/
def parseMembers : List String → Option (List (Option TI × Dict))
  | [] => some []
  | d :: p :: rest => do
      let dt ← parseOptTI d; let pr ← parseDict p; let r ← parseMembers rest; some ((dt, pr) :: r)
  | _ => none

/-- the `split` scenario: parent dictionary at address 0, member `i`'s own dictionary at `i+1`;
    split; `set_property` on returned shape `mi`; then `set_property` on the parent -/
def runSplit (pdt : Option TI) (pp : Dict) (mem : List (Option TI × Dict)) (mi : Nat) (k v : String) : String :=
  let h0 : Heap := pp :: mem.map (·.2)
  let ms : List (Shp Nat) := (List.range mem.length).map fun i =>
    { geom := i, dt := (mem.getD i (none, [])).1, props := i + 1 }
  let r := split h0 pdt 0 ms
  let out := r.2
  let addrs := out.map (·.props)
  let old := List.range h0.length
  let fresh := addrs.all (fun a => !old.contains a) && addrs.eraseDups.length == addrs.length
  let obs (h : Heap) : String :=
    "parent=" ++ showDict (h.read 0) ++
    " split=" ++ "/".intercalate (out.map fun s => showDict (h.read s.props)) ++
    " orig=" ++ "/".intercalate (ms.map fun s => showDict (h.read s.props))
  let h2 := match out[mi]? with
    | some s => setProperty r.1 s k v
    | none => r.1
  let h3 := setProperty h2 ({ geom := 0, dt := pdt, props := 0 } : Shp Nat) "pk" "pv"
  "geom=" ++ ",".intercalate (out.map fun s => toString s.geom) ++
  " dt=" ++ "/".intercalate (out.map fun s => showOptTI s.dt) ++
  " origdt=" ++ "/".intercalate (ms.map fun s => showOptTI s.dt) ++
  " fresh=" ++ showBool fresh ++
  " | " ++ obs r.1 ++ " | " ++ obs h2 ++ " | " ++ obs h3

/-! ### histories on one live multi-shape (`mu.hist`)

`mu.hist <K> <init> | <pool tokens> | <argument tokens> | <coordinate tokens> | <tables> | <steps>`

The multi-shape's only state is its member list (and, for `split`, its `dt` and property dictionary): the loops read
`self.geoshapes` afresh on every call.  The model therefore keeps the current members as a list of pool indices, edits
it as the harness edits `M.geoshapes`, and answers every observation with the member loops over the *current* list.

tables (measured on the implementation's single-shape methods, `i` over the pool, `k` over the parts of argument `j`):
`A<j>=P|S|M` (argument is a point / another single shape / a multi-shape), `I<j>` rows `pool_i.intersects_shape(part_k)`,
`J<j>` rows `part_k.intersects_shape(pool_i)`, `C<j>` rows `pool_i.contains_shape(part_k)`, `D<j>` row
`arg.contains_shape(pool_i)` (`-` for a multi argument), `K<r>` row `pool_i.contains_coordinate(c_r)`, `X` boxes.
steps: `-k` delete position k, `+k:i` insert pool member i at k, `*k:i` replace, `o<perm>` reorder, `z<list>` / `Z<list>`
clear and refill (in place / new list object), `!k` time/property edit of the member at k (no geometric effect),
`P<key>=<val>` / `D<dt>` the multi-shape's own properties / time bounds;
`i<j>` `I<j>` (mirrored) `c<j>` `C<j>` (mirrored, single arguments) `k<r>` `b` (bounds) `s` (split). -/

structure MState where
  members : List Nat
  pdt : Option TI
  pp : Dict

def lookup (tabs : List (String × String)) (k : String) : String :=
  match tabs.find? (·.1 == k) with
  | some kv => kv.2
  | none => "-"

def parseMat (s : String) : List (List Bool) :=
  if s == "-" then [] else (s.splitOn "/").map fun r => (parseRow r).getD []

def parseIdxList (s : String) : Option (List Nat) :=
  if s == "-" || s == "" then some [] else optAll ((s.splitOn ",").map parseNat)

def parsePair2 (s : String) : Option (Nat × Nat) :=
  match s.splitOn ":" with
  | [a, b] => do let x ← parseNat a; let y ← parseNat b; some (x, y)
  | _ => none

def splitObs (st : MState) : String :=
  let h0 : Heap := st.pp :: st.members.map (fun _ => [])
  let ms : List (Shp Nat) := (List.range st.members.length).map fun i =>
    { geom := st.members.getD i 0, dt := none, props := i + 1 }
  let r := split h0 st.pdt 0 ms
  let addrs := r.2.map (·.props)
  let old := List.range h0.length
  let fresh := addrs.all (fun a => !old.contains a) && addrs.eraseDups.length == addrs.length
  "{geom=" ++ ",".intercalate (r.2.map fun s => toString s.geom) ++
  " dt=" ++ "/".intercalate (r.2.map fun s => showOptTI s.dt) ++
  " props=" ++ "/".intercalate (r.2.map fun s => showDict (r.1.read s.props)) ++
  " fresh=" ++ showBool fresh ++ "}"

def histObs (tabs : List (String × String)) (st : MState) (kind : Char) (j : String) : Option String :=
  let ms := st.members
  let a := lookup tabs ("A" ++ j)
  let parts (m : List (List Bool)) : Nat := (m.headD []).length
  match kind with
  | 'i' =>
    let m := parseMat (lookup tabs ("I" ++ j))
    some (showBool (intersectsShape (fun (i k : Nat) => matAt m i k) ms
      (if a == "M" then .multi (List.range (parts m)) else .single 0)))
  | 'I' =>
    let mi := parseMat (lookup tabs ("I" ++ j))
    let mj := parseMat (lookup tabs ("J" ++ j))
    if a == "P" then some (showBool (pointIntersectsMulti (fun (i : Nat) (_ : Unit) => matAt mi i 0) () ms))
    else if a == "S" then some (showBool (singleIntersectsMulti (fun (_ : Unit) (i : Nat) => matAt mj i 0) () ms))
    else some (showBool (intersectsShape (fun (k i : Nat) => matAt mj i k) (List.range (parts mj)) (.multi ms)))
  | 'c' =>
    let m := parseMat (lookup tabs ("C" ++ j))
    some (showBool (containsShape (fun (i k : Nat) => matAt m i k) ms
      (if a == "M" then .multi (List.range (parts m)) else .single 0)))
  | 'C' =>
    match parseRow (lookup tabs ("D" ++ j)) with
    | some d => some (showBool (singleContainsMulti (fun (_ : Unit) (i : Nat) => rowAt d i) () ms))
    | none => none
  | 'k' =>
    match parseRow (lookup tabs ("K" ++ j)) with
    | some r => some (showBool (containsCoord (fun (i : Nat) (_ : Unit) => rowAt r i) ms ()))
    | none => none
  | _ => none

def histStep (tabs : List (String × String)) (boxes : List Box) (st : MState) (step : String) :
    Option (MState × String) :=
  match step.toList with
  | ['b'] =>
    match bounds (st.members.map fun i => boxes.getD i (0, 0, 0, 0)) with
    | .ok b => some (st, s!"{showRat b.1},{showRat b.2.1},{showRat b.2.2.1},{showRat b.2.2.2}")
    | .error e => some (st, e)
  | ['s'] => some (st, splitObs st)
  | '-' :: r => (parseNat (String.ofList r)).map fun k => ({ st with members := st.members.eraseIdx k }, "ok")
  | '+' :: r => (parsePair2 (String.ofList r)).map fun (k, i) =>
      ({ st with members := st.members.take k ++ [i] ++ st.members.drop k }, "ok")
  | '*' :: r => (parsePair2 (String.ofList r)).map fun (k, i) => ({ st with members := st.members.set k i }, "ok")
  | 'o' :: r => (parseIdxList (String.ofList r)).map fun perm =>
      ({ st with members := perm.map fun p => st.members.getD p 0 }, "ok")
  | 'z' :: r => (parseIdxList (String.ofList r)).map fun l => ({ st with members := l }, "ok")
  | 'Z' :: r => (parseIdxList (String.ofList r)).map fun l => ({ st with members := l }, "ok")
  | '!' :: _ => some (st, "ok")
  | 'P' :: r =>
    match (String.ofList r).splitOn "=" with
    | [k, v] => some ({ st with pp := dictSet st.pp k v }, "ok")
    | _ => none
  | 'D' :: r => (parseOptTI (String.ofList r)).map fun d => ({ st with pdt := d }, "ok")
  | c :: r => (histObs tabs st c (String.ofList r)).map fun a => (st, a)
  | [] => none

def runHist (tabs : List (String × String)) (boxes : List Box) : MState → List String → Option (List String)
  | _, [] => some []
  | st, s :: rest =>
    match histStep tabs boxes st s with
    | some (st', tok) => (runHist tabs boxes st' rest).map (tok :: ·)
    | none => none

def handleHist (secs : List (List String)) : String :=
  match secs with
  | [[_k, init], _pool, _args, _coords, tables, steps] =>
    let tabs : List (String × String) := tables.filterMap fun t =>
      match t.splitOn "=" with
      | k :: v :: rest => some (k, "=".intercalate (v :: rest))
      | _ => none
    let boxes := (if lookup tabs "X" == "-" then [] else (lookup tabs "X").splitOn "~").filterMap parseBox
    match parseIdxList init with
    | some ms =>
      match runHist tabs boxes { members := ms, pdt := none, pp := [] } steps with
      | some toks => " ".intercalate toks
      | none => "bad-op"
    | none => "bad-op"
  | _ => "bad-op"


end GV.Drv.C04

namespace GV.Drv
open GV GV.Multi GV.Drv.C04

def handleMulti (op : String) (args : List String) : String :=
  if op == "hist" then handleHist (splitAt "|" args) else
  let data := (splitAt "|" args).getLastD []
  match op, data with
  | "cc", [row] =>
    match parseRow row with
    | some r => showBool (containsCoord (fun (i : Nat) (_ : Unit) => rowAt r i) (List.range r.length) ())
    | none => "bad-op"
  | "mis", [row] =>
    match parseRow row with
    | some r => showBool (intersectsShape (fun (i : Nat) (_ : Unit) => rowAt r i) (List.range r.length) (.single ()))
    | none => "bad-op"
  | "mcs", [row] =>
    match parseRow row with
    | some r => showBool (containsShape (fun (i : Nat) (_ : Unit) => rowAt r i) (List.range r.length) (.single ()))
    | none => "bad-op"
  | "scm", [row] =>
    match parseRow row with
    | some r => showBool (singleContainsMulti (fun (_ : Unit) (j : Nat) => rowAt r j) () (List.range r.length))
    | none => "bad-op"
  | "sim", [kind, fwd, mir] =>
    match parseRow fwd, parseRow mir with
    | some f, some m =>
      if kind == "P" then
        showBool (pointIntersectsMulti (fun (j : Nat) (_ : Unit) => rowAt m j) () (List.range m.length))
      else if kind == "S" then
        showBool (singleIntersectsMulti (fun (_ : Unit) (j : Nat) => rowAt f j) () (List.range f.length))
      else "bad-op"
    | _, _ => "bad-op"
  | "mim", n :: k :: rows =>
    match parseNat n, parseNat k, optAll (rows.map parseRow) with
    | some n, some k, some m =>
      if m.length == n && m.all (·.length == k) then
        showBool (intersectsShape (fun (i j : Nat) => matAt m i j) (List.range n) (.multi (List.range k)))
      else "bad-op"
    | _, _, _ => "bad-op"
  | "mcm", n :: k :: rows =>
    match parseNat n, parseNat k, optAll (rows.map parseRow) with
    | some n, some k, some m =>
      if m.length == n && m.all (·.length == k) then
        showBool (containsShape (fun (i j : Nat) => matAt m i j) (List.range n) (.multi (List.range k)))
      else "bad-op"
    | _, _, _ => "bad-op"
  | "bounds", boxes =>
    match optAll (boxes.map parseBox) with
    | some bs =>
      match bounds bs with
      | .ok b => s!"{showRat b.1} {showRat b.2.1} {showRat b.2.2.1} {showRat b.2.2.2}"
      | .error e => e
    | none => "bad-op"
  | "split", pdt :: pp :: mi :: k :: v :: members =>
    match parseOptTI pdt, parseDict pp, parseNat mi, parseMembers members with
    | some pdt, some pp, some mi, some mem => runSplit pdt pp mem mi k v
    | _, _, _, _ => "bad-op"
  | _, _ => "bad-op"

end GV.Drv
