import GeoVerif.Model.ObjState
import GeoVerif.Drv.Util
import GeoVerif.Drv.ObjSt
/-!
# Driver for C16 (stream prefix `sm`)

`sm.run kind variant area dt props nh nseq argkind argvariant ; op ; op …`
`op := r:<read> | q:<read> (with the argument shape) | u:<mut>:<inplace 0|1>`
answer: one block per step, `res#obs(shape)#obs(argument)`, blocks joined by ` | `.
-/
namespace GV.Drv.C16
open GV.Drv
open GV GV.OS

def parseRead : String → Option Read
  | "bounds" => some .bounds | "centroid" => some .centroid | "area" => some .area | "volume" => some .volume
  | "to_polygon" => some .toPolygon | "linear_rings" => some .linearRings | "to_geojson" => some .toGeojson
  | "to_wkt" => some .toWkt | "to_shapely" => some .toShapely | "contains" => some .contains
  | "intersects" => some .intersects | "circ_circle" => some .circCircle | "circ_rect" => some .circRect
  | "eq" => some .eq | "hash" => some .hash | "repr" => some .repr | "properties" => some .properties
  | s =>
      -- `x_<name>[@…]`: any other public read-only attribute / method of the class, enumerated by the harness from the
      -- live library.  For the model it is a read like every other (no field changes; which memo slots it leaves filled is
      -- not tied, and no theorem depends on that table).
      if s.startsWith "x_" then some .repr else none

/-- which observations a kind memoises at all: `cached_property` `bounds` (polygon `structures.py:351`, circle
    `:850`, ellipse `:967`, ring `:1216`, linestring `:1402`), `centroid` (polygon `:359`, linestring `:1410`, the
    multi-shapes `multistructures.py:53, 259, 457`), `area` (`PolygonBase`, `structures.py:81`);
    `to_shapely` is an `lru_cache` on every instance (`_base.py:499`) -/
def memoSlots : Kind → List Slot
  | .polygon => [.bounds, .centroid, .area, .shapely]
  | .box => [.area, .shapely]
  | .circle | .ellipse | .ring => [.bounds, .area, .shapely]
  | .linestring => [.bounds, .centroid, .shapely]
  | .point => [.shapely]
  | .mpoint | .mline | .mpoly => [.centroid, .shapely]

def Kind.polyLike (k : Kind) : Bool := k.hasHoles

/-- memoised observations a read-only call (without argument) goes through, read off the code.
    Predicates with an argument are data dependent (an early `return` may skip `self.bounds`) and are
    not tied; every theorem of Props/C16 holds for *every* table. -/
def triggers (k : Kind) (hasDt : Bool) : Read → List (Slot × List Slot)
  | .bounds => [(.bounds, [])]
  | .centroid => [(.centroid, [])]
  | .area => if Kind.polyLike k then [(.area, [.shapely])] else []          -- `MultiGeoPolygon.area` sums the members
  | .volume => if Kind.polyLike k && hasDt then [(.area, [.shapely])] else [] -- `if self.dt is None: return 0.`
  | .toShapely => [(.shapely, [])]
  | .circRect => if k == .polygon || k == .circle || k == .ellipse || k == .ring then [(.bounds, [])] else []
  | .circCircle => if k == .linestring || k == .mpoint || k == .mline || k == .mpoly then [(.centroid, [])] else []
  | _ => []

def fillsTable : FillTable := fun k hasDt r =>
  ((triggers k hasDt r).filter (fun e => (memoSlots k).contains e.1)).map
    fun e => (e.1, e.2.filter (fun s => (memoSlots k).contains s))

def parseOp (s : String) : Option (Op Nat) :=
  match s.splitOn ":" with
  | ["r", x] => (parseRead x).map .read
  | ["q", x] => (parseRead x).map .read2
  | "u" :: rest =>
      match rest.reverse with
      | ip :: mrev => do
          let m ← parseMut (":".intercalate mrev.reverse)
          let b ← if ip == "1" then some true else if ip == "0" then some false else none
          some (.update m b)
      | [] => none
  | _ => none

def stepOut (area : Float) (s : St Nat Nat Nat) (op : Op Nat) : St Nat Nat Nat × String :=
  let s' := opStep fillsTable s op
  let res : String :=
    match op with
    | .update m ip =>
        let r := step s.heap s.obj m ip
        match r.err, r.returned with
        | some e, _ => e
        | none, some c => "ret:" ++ showFields (fields r.heap c) ++ ";drv=" ++ showDerived r.heap c
        | none, none => "ok"
    | _ => "ok"
  (s', s!"{res}#{showObs s'.heap s'.obj area}#{showObs s'.heap s'.arg 0.0}")

end GV.Drv.C16

namespace GV.Drv
open GV GV.OS GV.Drv.C16

/-- `sm.memo kind variant dt nh nseq ; op ; …` with `op := r:<read> | u:<mut>:<ip> | copy | pickle`:
    after every step which of `bounds centroid area to_shapely` are memoised on the live object -/
def memoFlags (o : Ob) : String :=
  String.ofList ([Slot.bounds, .centroid, .area, .shapely].map fun s => if (o.cache s).isSome then 'T' else 'F')

def handleMemo (hd : List String) (ops : List (List String)) : String :=
  match hd with
  | [kind, variant, dt, nh, nseq] =>
      match parseKind kind, parseNat variant, parseTI dt, parseNat nh, parseNat nseq with
      | some k, some v, some d, some h, some n =>
          let s0 := init (mkFields k v d [] h n) (mkFields .point 0 none [] 0 0)
          let step1 (s : St Nat Nat Nat) (o : String) : Option (St Nat Nat Nat) :=
            if o == "copy" then let c := OS.copy s.heap s.obj; some { s with heap := c.1, obj := c.2 }
            else if o == "pickle" then let c := OS.pickle s.heap s.obj; some { s with heap := c.1, obj := c.2 }
            else (parseOp o).map (opStep fillsTable s)
          let r := ops.foldl (fun (acc : Option (St Nat Nat Nat × List String)) o =>
            match acc with
            | none => none
            | some (s, outs) =>
                match step1 s (" ".intercalate o) with
                | none => none
                | some s' => some (s', memoFlags s'.obj :: outs)) (some (s0, [memoFlags s0.obj]))
          match r with
          | some (_, outs) => " ".intercalate outs.reverse
          | none => "bad-op"
      | _, _, _, _, _ => "bad-op"
  | _ => "bad-op"

def handleSM (op : String) (args : List String) : String :=
  match op, splitAt ";" args with
  | "memo", hd :: ops => handleMemo hd ops
  | "run", hd :: ops =>
      match hd with
      | [kind, variant, area, dt, props, nh, nseq, akind, avariant] =>
          match parseKind kind, parseNat variant, parseFloat area, parseTI dt, parseProps props, parseNat nh,
                parseNat nseq, parseKind akind, parseNat avariant, optAll (ops.map fun o => parseOp (" ".intercalate o)) with
          | some k, some v, some a, some d, some p, some h, some n, some ak, some av, some os =>
              let s0 := init (mkFields k v d p h n) (mkFields ak av none [] 0 4)
              let first := s!"ok#{showObs s0.heap s0.obj a}#{showObs s0.heap s0.arg 0.0}"
              let (_, outs) := os.foldl (fun (acc : St Nat Nat Nat × List String) o =>
                let (s', out) := stepOut a acc.1 o; (s', out :: acc.2)) (s0, [first])
              " | ".intercalate outs.reverse
          | _, _, _, _, _, _, _, _, _, _ => "bad-op"
      | _ => "bad-op"
  | _, _ => "bad-op"

end GV.Drv
