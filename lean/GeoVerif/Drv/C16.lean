import GeoVerif.Model.ObjState
import GeoVerif.Drv.Util
import GeoVerif.Drv.ObjSt
/-!
# Driver for C16 (stream prefix `sm`)

`sm.run kind variant area dt props nh nseq argkind argvariant ; op ; op …`
`op := r:<read> | q:<read> (with the argument shape) | u:<mut>:<inplace 0|1>`
answer: one block per step, `res#obs(shape)#obs(argument)`, blocks joined by ` | `.
-/
namespace GV.Drv.C16
open GV.Drv
open GV GV.OS

def parseRead : String → Option Read
  | "bounds" => some .bounds | "centroid" => some .centroid | "area" => some .area | "volume" => some .volume
  | "to_polygon" => some .toPolygon | "linear_rings" => some .linearRings | "to_geojson" => some .toGeojson
  | "to_wkt" => some .toWkt | "to_shapely" => some .toShapely | "contains" => some .contains
  | "intersects" => some .intersects | "circ_circle" => some .circCircle | "circ_rect" => some .circRect
  | "eq" => some .eq | "hash" => some .hash | "repr" => some .repr | "properties" => some .properties
  | _ => none

/-- memo slots a read leaves filled (from the code: `cached_property` / `lru_cache` reached by the call);
    the observable answers do not depend on this table (Props/C16 holds for every table) -/
def fillsTable (k : Kind) (r : Read) : List Slot :=
  let curved := k == .circle || k == .ellipse || k == .ring
  match r with
  | .bounds => [.bounds]
  | .centroid => [.centroid]
  | .area => [.area, .shapely]
  | .volume => [.area, .shapely]
  | .toShapely => [.shapely]
  | .circRect => [.bounds]
  | .circCircle => if curved then [] else [.centroid]
  | .contains | .intersects => [.bounds]
  | _ => []

def parseOp (s : String) : Option (Op Nat) :=
  match s.splitOn ":" with
  | ["r", x] => (parseRead x).map .read
  | ["q", x] => (parseRead x).map .read2
  | "u" :: rest =>
      match rest.reverse with
      | ip :: mrev => do
          let m ← parseMut (":".intercalate mrev.reverse)
          let b ← if ip == "1" then some true else if ip == "0" then some false else none
          some (.update m b)
      | [] => none
  | _ => none

def stepOut (area : Float) (s : St Nat Nat Nat) (op : Op Nat) : St Nat Nat Nat × String :=
  let s' := opStep fillsTable s op
  let res : String :=
    match op with
    | .update m ip =>
        let r := step s.heap s.obj m ip
        match r.err, r.returned with
        | some e, _ => e
        | none, some c => "ret:" ++ showFields (fields r.heap c)
        | none, none => "ok"
    | _ => "ok"
  (s', s!"{res}#{showObs s'.heap s'.obj area}#{showObs s'.heap s'.arg 0.0}")

end GV.Drv.C16

namespace GV.Drv
open GV GV.OS GV.Drv.C16

def handleSM (op : String) (args : List String) : String :=
  match op, splitAt ";" args with
  | "run", hd :: ops =>
      match hd with
      | [kind, variant, area, dt, props, nh, nseq, akind, avariant] =>
          match parseKind kind, parseNat variant, parseFloat area, parseTI dt, parseProps props, parseNat nh,
                parseNat nseq, parseKind akind, parseNat avariant, optAll (ops.map fun o => parseOp (" ".intercalate o)) with
          | some k, some v, some a, some d, some p, some h, some n, some ak, some av, some os =>
              let s0 := init (mkFields k v d p h n) (mkFields ak av none [] 0 4)
              let first := s!"ok#{showObs s0.heap s0.obj a}#{showObs s0.heap s0.arg 0.0}"
              let (_, outs) := os.foldl (fun (acc : St Nat Nat Nat × List String) o =>
                let (s', out) := stepOut a acc.1 o; (s', out :: acc.2)) (s0, [first])
              " | ".intercalate outs.reverse
          | _, _, _, _, _, _, _, _, _, _ => "bad-op"
      | _ => "bad-op"
  | _, _ => "bad-op"

end GV.Drv
