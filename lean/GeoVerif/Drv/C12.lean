import GeoVerif.Model.Geohash
import GeoVerif.Model.Flood
import GeoVerif.Drv.Util
import GeoVerif.Drv.C11
/-!
# Driver handler for stream `fl` (C12, shape hashing)

`fl.hash <base> <len> <sched> <shape tokens…> | <cell>:<n1>,…,<n8> … | <start> <touching cells…> | …`
  the shape tokens are for the implementation and the geometric oracle; the model reads
  * the neighbour table measured with `_get_surrounding` (cells absent from it have no neighbours),
  * one section per (member) shape: the cell of its first vertex and the cells whose box touches it
    (`niemeyer_to_geobox(c).intersects_shape(shape)` measured over a window), and floods them
  with the pop order `sched` ∈ `fifo | lifo | r<seed> | all` (`all`: four schedules, must agree);
  point shapes (`pt`, `mpt`) are encoded by the C11 model from their coordinates.
`fl.coll <base> <len> <agg> <kind> || <shape tokens> @ <id> <start µs|-> <elapsed µs|-> <entity|-> @ <cells…> || …`
  `hash_collection`: group the shapes (in the given order) by the cells of their measured hash sets.
-/
namespace GV.Drv.C12
open GV GV.Flood GV.Drv GV.Drv.C11

def cellLe (a b : String) : Bool := decide (a ≤ b)

def sortCells (l : List String) : List String := l.mergeSort cellLe

def lookupNbrs (tbl : List (String × List String)) (c : String) : List String :=
  match tbl.lookup c with
  | some ns => ns
  | none => []

def parseNbrEntry (t : String) : Option (String × List String) :=
  match t.splitOn ":" with
  | [c, ns] => some (c, if ns.isEmpty then [] else ns.splitOn ",")
  | _ => none

/-- schedules: which element of the queue (a list, newest first) is popped -/
def schedule (name : String) : List String → Option String :=
  if name == "fifo" then fun q => q.getLast?
  else if name == "lifo" then fun q => q.head?
  else
    let seed := ((name.drop 1).toString.toNat?).getD 0
    fun q => if q.isEmpty then none else q[(seed * 31 + q.length * 17 + seed / (q.length + 1)) % q.length]?

def descOfSection (kindMulti : Bool) (secs : List (List String)) : Option (ShapeDesc String) :=
  let mk (sec : List String) : Option (String × (String → Bool)) :=
    match sec with
    | [] => none
    | start :: touching => some (start, fun c => touching.contains c)
  if kindMulti then (optAll (secs.map mk)).map ShapeDesc.multi
  else match secs with
    | [sec] => (mk sec).map fun m => ShapeDesc.single m.1 m.2
    | _ => none

def runFlood (tbl : List (String × List String)) (sched : String) (fuel : Nat) (d : ShapeDesc String) :
    String :=
  let run (s : String) := (hashShape (lookupNbrs tbl) (schedule s) fuel d).map sortCells
  if sched == "all" then
    match run "fifo", run "lifo", run "r1", run "r7" with
    | some a, some b, some c, some e =>
      if a == b && b == c && c == e then " ".intercalate a else "SCHEDULE-DEPENDENT"
    | _, _, _, _ => "FUEL"
  else match run sched with
    | some a => " ".intercalate a
    | none => "FUEL"

def handleHash (args : List String) : String :=
  match args with
  | b :: l :: sched :: rest =>
    match parseNat b, parseNat l, splitAt "|" rest with
    | some b, some l, shape :: secs =>
      match shape with
      | "pt" :: coords | "mpt" :: coords =>
        match parsePts coords with
        | some pts =>
          match Geohash.mapExcept (fun (p : Pt) => Geohash.encodeCoord b p.1 p.2 l) pts with
          | .error e => e
          | .ok hs =>
            let cells := hs.map String.ofList
            let d : ShapeDesc String := match shape.head?, cells with
              | some "pt", [c] => .point c
              | _, _ => .multiPoint cells
            runFlood [] sched 1 d
        | none => "bad-op"
      | kind :: _ =>
        match secs with
        | tblToks :: members =>
          match optAll (tblToks.map parseNbrEntry) with
          | some tbl =>
            let isMulti := kind == "mls" || kind == "mpoly"
            match descOfSection isMulti members with
            | some d => runFlood tbl sched (tbl.length * 9 + members.length * 4 + 16) d
            | none => "bad-op"
          | none => "bad-op"
        | [] => "bad-op"
      | [] => "bad-op"
    | _, _, _ => "bad-op"
  | _ => "bad-op"

def parseAttr (ts : List String) : Option ShapeAttr :=
  match ts with
  | [i, _start, e, ent] => do
    let i ← parseNat i
    let e ← if e == "-" then some none else (parseInt e).map some
    some ⟨i, e, if ent == "-" then none else some ent⟩
  | _ => none

def handleColl (args : List String) : String :=
  match args with
  | _b :: _l :: agg :: _kind :: rest =>
    let secs := (splitAt "||" rest).filter (· ≠ [])
    let parsed := optAll (secs.map fun sec =>
      match splitAt "@" sec with
      | [_shape, attr, cells] => (parseAttr attr).map fun a => (a, cells)
      | _ => none)
    match parsed with
    | none => "bad-op"
    | some items =>
      let hash := fun (it : ShapeAttr × List String) => it.2
      let shapes := items
      let out (f : List (ShapeAttr × List String) → String) :=
        let r := showAssoc (hashCollection hash f shapes)
        if r.isEmpty then "-" else r
      if agg == "len" then out fun l => toString (aggLen (l.map (·.1)))
      else if agg == "total_time" then out fun l => showRat (totalTime (l.map (·.1)))
      else if agg == "unique_entities" then out fun l => toString (uniqueEntities (l.map (·.1)))
      else if agg == "ids" then out fun l => ".".intercalate ((aggIds (l.map (·.1))).map toString)
      else "bad-op"
  | _ => "bad-op"

end GV.Drv.C12

namespace GV.Drv
open GV.Drv.C12

def handleFL (op : String) (args : List String) : String :=
  match op with
  | "hash" => handleHash args
  | "coll" => handleColl args
  | _ => "bad-op"

end GV.Drv
