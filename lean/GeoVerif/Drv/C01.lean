import GeoVerif.Drv.Shapes
namespace GV.Drv
open GV

/-- streams of C01: raw ring test, constructor normalisation, polygon / box membership -/
def handlePip (op : String) (args : List String) : String :=
  match op, args with
  | "mk", rest => match parsePts rest with
      | some o => showPts (mkOutline o) | none => "bad-op"
  | "mkhole", rest => match parsePts rest with
      | some o => showPts (mkOutline o true) | none => "bad-op"
  | "ccw", rest => match parsePts rest with
      | some o => showBool (isCCW o) | none => "bad-op"
  | "ring", px :: py :: rest => match parseRat px, parseRat py, parsePts rest with
      | some x, some y, some r => showBool (pointInRing (x, y) r) | _, _, _ => "bad-op"
  | "ringb", px :: py :: rest => match parseRat px, parseRat py, parsePts rest with
      | some x, some y, some r => showBool (pointInRing (x, y) r true) | _, _, _ => "bad-op"
  | "in", px :: py :: rest => match parseRat px, parseRat py, parseShape rest with
      | some x, some y, some s => showBool (s.containsCoord (x, y)) | _, _, _ => "bad-op"
  | _, _ => "bad-op"

end GV.Drv
