import GeoVerif.Model.Sphere
import GeoVerif.Drv.Util
import GeoVerif.Drv.C07
/-!
# Driver handler for C03 (stream prefix `cv`): curved shapes at the `Float` instance

Every token is a binary64 bit pattern; counts (`k`, number of holes) are sent as floats too
(`k = 0` means "not given").  Ring points are returned **un-rounded** (the harness checks that the
implementation's vertices are correct 1e-7° roundings of them).
Holes are circles `(lon, lat, radius)`; their membership test is the model's own `containsCircle`.
-/
namespace GV.Drv.C03
open GV GV.Sphere GV.Drv.C07

def fNat (x : Float) : Nat := x.toUInt64.toNat

def showBools (bs : List Bool) : String := String.ofList (bs.map fun b => if b then 'T' else 'F')

/-- `nh` circular holes `(lon, lat, r)` followed by the query points -/
def splitHoles : Nat → List Float → Option (List (Coord Float → Bool) × List (Coord Float))
  | 0, rest => some ([], pairUp rest)
  | n+1, hl :: ha :: hr :: rest =>
      (splitHoles n rest).map fun (hs, qs) => (containsCircle fR (hl, ha) hr [] :: hs, qs)
  | _, _ => none

end GV.Drv.C03

namespace GV.Drv
open GV GV.Sphere GV.Drv.C07 GV.Drv.C03

def handleCV (op : String) (args : List String) : String :=
  match optAll (args.map parseFloat) with
  | none => "bad-op"
  | some xs =>
    match op, xs with
    | "circle", [lon, lat, r, k] => showCoords (circleRingRaw fR (lon, lat) r (fNat k))
    | "ellipse", [lon, lat, a, b, rot, k] => showCoords (ellipseRingRaw fR (lon, lat) a b rot (fNat k))
    | "ring", [lon, lat, i, o, amin, amax, k] =>
        showCoords (wedgeRingRaw fR (lon, lat) i o amin amax (fNat k))
    | "lrings", [lon, lat, i, o, amin, amax, k] =>
        " | ".intercalate ((ringLinearRingsOf amin amax
          (ringArcsRaw fR (lon, lat) i o amin amax (fNat k))).map showCoords)
    | "inC", lon :: lat :: r :: nh :: rest =>
        match splitHoles (fNat nh) rest with
        | some (hs, qs) => showBools (qs.map (containsCircle fR (lon, lat) r hs))
        | none => "bad-op"
    | "inE", lon :: lat :: a :: b :: rot :: nh :: rest =>
        match splitHoles (fNat nh) rest with
        | some (hs, qs) => showBools (qs.map (containsEllipse rnd5 fR (lon, lat) a b rot hs))
        | none => "bad-op"
    | "inR", lon :: lat :: i :: o :: amin :: amax :: nh :: rest =>
        match splitHoles (fNat nh) rest with
        | some (hs, qs) => showBools (qs.map (containsRing rnd5 fR (lon, lat) i o amin amax hs))
        | none => "bad-op"
    | "rat", [a, b, t] => showFloat (radiusAtAngle a b t)
    | _, _ => "bad-op"

end GV.Drv
