/-!
# Driver utilities: exact number exchange and canonical output

Numbers cross the pipe exactly: integers in decimal, rationals as `p/q` (Python
`float.as_integer_ratio()`), floats as `x` + 16 hex digits of the IEEE-754 bit pattern.
-/
namespace GV.Drv

def showBool (b : Bool) : String := if b then "T" else "F"

def parseInt (s : String) : Option Int := s.toInt?

def parseNat (s : String) : Option Nat := s.toNat?

def parseBool (s : String) : Option Bool :=
  if s == "T" then some true else if s == "F" then some false else none

def parseRat (s : String) : Option Rat :=
  match s.splitOn "/" with
  | [n] => n.toInt?.map (fun i => (i : Rat))
  | [n, d] => do
      let ni ← n.toInt?
      let di ← d.toNat?
      if di = 0 then none else some (mkRat ni di)
  | _ => none

def showRat (r : Rat) : String :=
  if r.den = 1 then toString r.num else s!"{r.num}/{r.den}"

def hexDigit (c : Char) : Option Nat :=
  if '0' ≤ c ∧ c ≤ '9' then some (c.toNat - '0'.toNat)
  else if 'a' ≤ c ∧ c ≤ 'f' then some (c.toNat - 'a'.toNat + 10)
  else none

def parseHex (s : String) : Option Nat :=
  s.toList.foldl (fun acc c => do let a ← acc; let d ← hexDigit c; some (a * 16 + d)) (some 0)

/-- `x3ff0000000000000` → 1.0 -/
def parseFloat (s : String) : Option Float :=
  match s.toList with
  | 'x' :: rest =>
    if rest.length = 16 then (parseHex (String.ofList rest)).map (fun n => Float.ofBits n.toUInt64)
    else none
  | _ => none

def hexChar (n : Nat) : Char :=
  if n < 10 then Char.ofNat ('0'.toNat + n) else Char.ofNat ('a'.toNat + (n - 10))

def showHex64 (n : Nat) : String :=
  String.ofList ((List.range 16).reverse.map fun i => hexChar ((n / 16 ^ i) % 16))

def showFloat (f : Float) : String := "x" ++ showHex64 f.toBits.toNat

/-- parse a flat list `x1 y1 x2 y2 …` into points -/
def parsePts : List String → Option (List (Rat × Rat))
  | [] => some []
  | x :: y :: rest => do
      let a ← parseRat x; let b ← parseRat y; let r ← parsePts rest; some ((a, b) :: r)
  | _ => none

def showPts (ps : List (Rat × Rat)) : String :=
  " ".intercalate (ps.map fun p => s!"{showRat p.1},{showRat p.2}")

/-- split a token list at every occurrence of `sep` -/
def splitAt (sep : String) (ts : List String) : List (List String) :=
  let rec go (cur : List String) (acc : List (List String)) : List String → List (List String)
    | [] => (cur.reverse :: acc).reverse
    | t :: rest => if t == sep then go [] (cur.reverse :: acc) rest else go (t :: cur) acc rest
  go [] [] ts

def optAll {α} : List (Option α) → Option (List α)
  | [] => some []
  | none :: _ => none
  | some a :: rest => (optAll rest).map (a :: ·)

end GV.Drv
