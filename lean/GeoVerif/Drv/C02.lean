import GeoVerif.Drv.Shapes
namespace GV.Drv
open GV

def showSeg : Option (P2 × Bool) → String
  | none => "none"
  | some (p, b) => s!"{showRat p.1},{showRat p.2} {showBool b}"

/-- streams of C02: segment intersection, raw sweep, pairwise relations -/
def handleRel (op : String) (args : List String) : String :=
  match splitAt "|" args with
  | [a, b] =>
    match op with
    | "seg" => match parsePts a, parsePts b with
        | some [p, q], some [r, s] => showSeg (findIntersection (p, q) (r, s)) | _, _ => "bad-op"
    | "sweep" => match parseEdges a, parseEdges b with
        | some ea, some eb => showBool (doEdgesIntersect ea eb) | _, _ => "bad-op"
    | "inter" => match parseShape a, parseShape b with
        | some s, some t => showExB (intersectsShape s t) | _, _ => "bad-op"
    | "contains" => match parseShape a, parseShape b with
        | some s, some t => showExB (containsShape s t) | _, _ => "bad-op"
    | _ => "bad-op"
  | _ => "bad-op"

end GV.Drv
