import GeoVerif.Model.Hull
import GeoVerif.Drv.Util
/-!
# Driver for C10 (stream prefix `hull`)

* `hull.of x1 y1 x2 y2 …`      → `_geometry.convex_hull` ring `x,y x,y …` (`-` for the empty list)
* `hull.poly x1 y1 …`          → outline of `GeoPolygon(convex_hull(..))`
* `hull.multi <shapes>`        → `Multi*.convex_hull()` outline
* `hull.coll <members>`        → `FeatureCollection(..).convex_hull` outline
* `hull.track <members>`       → `Track(..).convex_hull` outline (each member prefixed by `@<start>`)

Registration in `Drv/Main.lean`: `import GeoVerif.Drv.C10` and `| ["hull", op] => handleHull op args`.

shape tokens: `P x y` | `L n x1 y1 … xn yn` | `G n x1 y1 …` (polygon outline) | `B x1 y1 x2 y2`
(box nw, se); a member is a shape or `M k` followed by `k` shapes.
-/
namespace GV.Drv.C10   -- helper names are private to this driver (other drivers define `parseMembers` …)
open GV GV.Hull GV.Drv

def showRing (ps : List Pt) : String := if ps.isEmpty then "-" else showPts ps

def showExceptRing : Except String (List Pt) → String
  | .ok r => showRing r
  | .error e => e

def takePts : Nat → List String → Option (List Pt × List String)
  | 0, ts => some ([], ts)
  | n + 1, x :: y :: ts => do
      let a ← parseRat x; let b ← parseRat y
      let (ps, rest) ← takePts n ts
      some ((a, b) :: ps, rest)
  | _, _ => none

def parseSimple : List String → Option (Simple × List String)
  | "P" :: ts => do let (ps, rest) ← takePts 1 ts; match ps with | [p] => some (.point p, rest) | _ => none
  | "L" :: n :: ts => do let k ← parseNat n; let (ps, rest) ← takePts k ts; some (.line ps, rest)
  | "G" :: n :: ts => do let k ← parseNat n; let (ps, rest) ← takePts k ts; some (.poly ps, rest)
  | "B" :: ts => do
      let (ps, rest) ← takePts 2 ts
      match ps with | [a, b] => some (.box a b, rest) | _ => none
  | _ => none

def parseSimples : Nat → List String → Option (List Simple × List String)
  | 0, ts => some ([], ts)
  | n + 1, ts => do
      let (s, rest) ← parseSimple ts
      let (ss, rest') ← parseSimples n rest
      some (s :: ss, rest')

def parseMember : List String → Option (Member × List String)
  | "M" :: k :: ts => do let n ← parseNat k; let (ss, rest) ← parseSimples n ts; some (.multi ss, rest)
  | ts => do let (s, rest) ← parseSimple ts; some (.simple s, rest)

/-- all members until the tokens run out (`fuel` = number of tokens) -/
def parseMembers : Nat → List String → Option (List Member)
  | _, [] => some []
  | 0, _ => none
  | f + 1, ts => do
      let (m, rest) ← parseMember ts
      let ms ← parseMembers f rest
      some (m :: ms)

def parseTimed : Nat → List String → Option (List (Int × Member))
  | _, [] => some []
  | 0, _ => none
  | f + 1, t :: ts => do
      let r ← (if t.startsWith "@" then parseInt (t.drop 1).toString else none)
      let (m, rest) ← parseMember ts
      let ms ← parseTimed f rest
      some ((r, m) :: ms)

def allSimple : List Member → Option (List Simple)
  | [] => some []
  | .simple s :: ms => (allSimple ms).map (s :: ·)
  | .multi _ :: _ => none

end GV.Drv.C10

namespace GV.Drv
open GV GV.Hull GV.Drv.C10

def handleHull (op : String) (args : List String) : String :=
  match op with
  | "of" => match parsePts args with | some ps => showRing (hull ps) | none => "bad-op"
  | "poly" => match parsePts args with | some ps => showExceptRing (hullPoly ps) | none => "bad-op"
  | "multi" =>
    match (parseMembers args.length args).bind allSimple with
    | some ss => showExceptRing (multiHull ss)
    | none => "bad-op"
  | "coll" =>
    match parseMembers args.length args with
    | some ms => showExceptRing (collectionHull ms)
    | none => "bad-op"
  | "track" =>
    match parseTimed args.length args with
    | some ms => showExceptRing (trackHull ms)
    | none => "bad-op"
  | _ => "bad-op"

end GV.Drv
