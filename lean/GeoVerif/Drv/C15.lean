import GeoVerif.Model.Obj
import GeoVerif.Model.ObjState
import GeoVerif.Drv.Util
import GeoVerif.Drv.ObjSt
/-!
# Driver for C15 (stream prefix `ob`)

Shape tokens (blank separated):
```
coord := lon,lat,z,m          (z, m: a rational or `_`)
key   := lon,lat,z
dt    := _ | start:stop        (µs)
pl    := P flag dt n coord*n            -- GeoPolygon(outline, _is_hole=flag): the *constructor input*
       | B dt coord coord
       | C dt coord r nbc key*nbc       -- nbc > 0: default bounding_coords() (used when the shape is a hole)
       | E dt coord major minor rot nbc key*nbc
       | R dt coord ri ro amin amax cen nbc key*nbc     -- cen: key of `.centroid` (wedge) or `_`
shape := pl nh pl*nh | L dt n coord*n | T dt coord
any   := shape | MP dt n shape*n | ML dt n shape*n | MG dt n shape*n
```
-/
namespace GV.Drv.C15
open GV.Drv GV.Drv.C16
open GV GV.Obj

abbrev P := Except String

def failBad {α} : P α := .error "bad-op"
def ofOpt {α} : Option α → P α
  | some a => .ok a
  | none => failBad

def parseOptRat (s : String) : Option (Option Rat) :=
  if s == "_" then some none else (parseRat s).map some

def parseCoord (s : String) : Option Coord :=
  match s.splitOn "," with
  | [a, b, c, d] => do
      let lon ← parseRat a; let lat ← parseRat b; let z ← parseOptRat c; let m ← parseOptRat d
      some ⟨lon, lat, z, m⟩
  | _ => none

def parseCKey (s : String) : Option CKey :=
  match s.splitOn "," with
  | [a, b, c] => do
      let lon ← parseRat a; let lat ← parseRat b; let z ← parseOptRat c
      some (lon, lat, z)
  | _ => none

def parseDt (s : String) : Option Dt :=
  if s == "_" then some none else
  match s.splitOn ":" with
  | [a, b] => do let x ← parseInst a; let y ← parseInst b; some (some ⟨x, y⟩)
  | _ => none

/-- side tables collected while parsing: generated vertices of curved holes, centroids of wedges -/
structure Tabs where
  bc : List (Geom × List CKey) := []
  wc : List ((CKey × Rat × Rat × Rat × Rat) × CKey) := []

def Tabs.merge (a b : Tabs) : Tabs := ⟨a.bc ++ b.bc, a.wc ++ b.wc⟩

def Tabs.env (t : Tabs) : Env :=
  { curvedBc := fun g => ((t.bc.find? (fun e => e.1 == g)).map (·.2)).getD []
    wedgeCentroid := fun c ri ro a1 a2 =>
      ((t.wc.find? (fun e => e.1 == (c, ri, ro, a1, a2))).map (·.2)).getD c }

def takeMap {α} (f : String → Option α) : Nat → List String → P (List α × List String)
  | 0, ts => .ok ([], ts)
  | n+1, t :: ts => do
      let a ← ofOpt (f t)
      let (r, rest) ← takeMap f n ts
      .ok (a :: r, rest)
  | _, [] => failBad

def parseBc (g : Geom) (ts : List String) : P (Tabs × List String) :=
  match ts with
  | nbc :: rest => do
      let n ← ofOpt (parseNat nbc)
      let (ks, rest') ← takeMap parseCKey n rest
      .ok (if n = 0 then {} else { bc := [(g, ks)] }, rest')
  | [] => failBad

/-- geometry and time of one polygon-like (no holes yet) -/
def parsePlHead (ts : List String) : P (Geom × Dt × Tabs × List String) :=
  match ts with
  | "P" :: flag :: dt :: n :: rest => do
      let d ← ofOpt (parseDt dt)
      let k ← ofOpt (parseNat n)
      let (cs, rest') ← takeMap parseCoord k rest
      if cs.isEmpty then .error "ERR:Index"      -- `outline[0]` of an empty list
      else .ok (.poly (mkOutlineC cs (flag == "1")), d, {}, rest')
  | "B" :: dt :: a :: b :: rest => do
      let d ← ofOpt (parseDt dt); let nw ← ofOpt (parseCoord a); let se ← ofOpt (parseCoord b)
      .ok (.box nw se, d, {}, rest)
  | "C" :: dt :: c :: r :: rest => do
      let d ← ofOpt (parseDt dt); let cc ← ofOpt (parseCoord c); let rr ← ofOpt (parseRat r)
      let g := Geom.circle cc rr
      let (t, rest') ← parseBc g rest
      .ok (g, d, t, rest')
  | "E" :: dt :: c :: a :: b :: rot :: rest => do
      let d ← ofOpt (parseDt dt); let cc ← ofOpt (parseCoord c)
      let aa ← ofOpt (parseRat a); let bb ← ofOpt (parseRat b); let rr ← ofOpt (parseRat rot)
      let g := Geom.ellipse cc aa bb rr
      let (t, rest') ← parseBc g rest
      .ok (g, d, t, rest')
  | "R" :: dt :: c :: ri :: ro :: a1 :: a2 :: cen :: rest => do
      let d ← ofOpt (parseDt dt); let cc ← ofOpt (parseCoord c)
      let i ← ofOpt (parseRat ri); let o ← ofOpt (parseRat ro)
      let x ← ofOpt (parseRat a1); let y ← ofOpt (parseRat a2)
      let g := Geom.ring cc i o x y
      let tw : Tabs ← if cen == "_" then pure {} else do
        let k ← ofOpt (parseCKey cen)
        pure { wc := [((cc.key, i, o, x, y), k)] }
      let (t, rest') ← parseBc g rest
      .ok (g, d, tw.merge t, rest')
  | _ => failBad

def parseHoles : Nat → List String → P (List Hole × Tabs × List String)
  | 0, ts => .ok ([], {}, ts)
  | n+1, ts => do
      let (g, d, t, rest) ← parsePlHead ts
      let (hs, t', rest') ← parseHoles n rest
      .ok (⟨g, d⟩ :: hs, t.merge t', rest')

def parseShape (ts : List String) : P (Shape × Tabs × List String) :=
  match ts with
  | "L" :: dt :: n :: rest => do
      let d ← ofOpt (parseDt dt); let k ← ofOpt (parseNat n)
      let (cs, rest') ← takeMap parseCoord k rest
      .ok (.line cs d, {}, rest')
  | "T" :: dt :: c :: rest => do
      let d ← ofOpt (parseDt dt); let cc ← ofOpt (parseCoord c)
      .ok (.point cc d, {}, rest)
  | _ => do
      let (g, d, t, rest) ← parsePlHead ts
      match rest with
      | nh :: rest' => do
          let n ← ofOpt (parseNat nh)
          let (hs, t', rest'') ← parseHoles n rest'
          .ok (.pl g hs d, t.merge t', rest'')
      | [] => failBad

def parseShapes : Nat → List String → P (List Shape × Tabs × List String)
  | 0, ts => .ok ([], {}, ts)
  | n+1, ts => do
      let (s, t, rest) ← parseShape ts
      let (ss, t', rest') ← parseShapes n rest
      .ok (s :: ss, t.merge t', rest')

def parseAny (ts : List String) : P (Any × Tabs) :=
  let multi (k : MKind) (dt n : String) (rest : List String) : P (Any × Tabs) := do
    let d ← ofOpt (parseDt dt); let c ← ofOpt (parseNat n)
    let (ss, t, rest') ← parseShapes c rest
    if rest'.isEmpty then .ok (.multi ⟨k, ss, d⟩, t) else failBad
  match ts with
  | "MP" :: dt :: n :: rest => multi .mpoint dt n rest
  | "ML" :: dt :: n :: rest => multi .mline dt n rest
  | "MG" :: dt :: n :: rest => multi .mpoly dt n rest
  | _ => do
      let (s, t, rest) ← parseShape ts
      if rest.isEmpty then .ok (.single s, t) else failBad

def twoAny (args : List String) : P (Any × Any × Env) :=
  match splitAt ";" args with
  | [a, b] => do
      let (x, t1) ← parseAny a
      let (y, t2) ← parseAny b
      .ok (x, y, (t1.merge t2).env)
  | _ => failBad

def run1 (r : P String) : String := match r with | .ok s => s | .error e => e

def handleObVal (op : String) (args : List String) : String :=
  match op with
  | "ceq" | "chasheq" =>
      match args with
      | [a, b] => run1 do
          let x ← ofOpt (parseCoord a); let y ← ofOpt (parseCoord b)
          .ok (showBool (if op == "ceq" then x.eq y else x.key == y.key))
      | _ => "bad-op"
  | "eq" => run1 do let (x, y, env) ← twoAny args; .ok (showBool (Any.eq env x y))
  | "ne" => run1 do let (x, y, env) ← twoAny args; .ok (showBool (!Any.eq env x y))
  | "eq3" =>
      -- `a == b`, `b == c`, `a == c`, and the three hash comparisons: transitivity triples
      match splitAt ";" args with
      | [ta, tb, tc] => run1 do
          let (a, t1) ← parseAny ta
          let (b, t2) ← parseAny tb
          let (c, t3) ← parseAny tc
          let env := ((t1.merge t2).merge t3).env
          let h (x y : Any) := showBool ((x.hashKey env).equiv (y.hashKey env))
          .ok (showBool (Any.eq env a b) ++ showBool (Any.eq env b c) ++ showBool (Any.eq env a c) ++ ":" ++
               h a b ++ h b c ++ h a c)
      | _ => "bad-op"
  | "hasheq" => run1 do
      let (x, y, env) ← twoAny args; .ok (showBool ((x.hashKey env).equiv (y.hashKey env)))
  | "setlen" => run1 do let (x, y, env) ← twoAny args; .ok (toString (setLen2 env x y))
  | "dictget" => run1 do let (x, y, env) ← twoAny args; .ok (showBool (dictHas env x y))
  | _ => "bad-op"

/-! ## `ob.iso how side kind variant dt props nh nseq ; mut ; mut …`

`how = copy | pickle`; `side = c` (mutate the copy, watch the original) or `o` (the other way round).
answer: `eq=<copy has the same fields> share=<props holes seq dt items> errs=<per mutator> # obs(mutated side) # obs(other side)` -/

open GV.OS in
def fieldsBEq (a b : Fl) : Bool :=
  a.kind == b.kind && a.geom == b.geom && a.dt == b.dt && a.props == b.props && a.holes == b.holes && a.seq == b.seq

open GV.OS in
def shareFlags (h : Hp) (o c : Ob) : String :=
  let f (x y : Option Nat) : Char := match x, y with
    | some a, some b => if a == b then 'T' else 'F'
    | _, _ => '_'
  let dtf : Char := match o.dt, c.dt with
    | some a, some b => if a.1 == b.1 then 'T' else 'F'
    | _, _ => '_'
  let items : Char := match o.seq, c.seq with
    | some a, some b =>
        match (h.seqs a).head?, (h.seqs b).head? with
        | some x, some y => if x.1 == y.1 then 'T' else 'F'
        | _, _ => '_'
    | _, _ => '_'
  String.ofList [if o.props == c.props then 'T' else 'F', f o.holes c.holes, f o.seq c.seq, dtf, items]

open GV.OS in
def handleIso (args : List String) : String :=
  match splitAt ";" args with
  | hd :: muts =>
      match hd with
      | [how, side, kind, variant, dt, props, nh, nseq] =>
          match parseKind kind, parseNat variant, parseTI dt, parseProps props, parseNat nh, parseNat nseq,
                optAll (muts.map fun m => parseMut (" ".intercalate m)) with
          | some k, some v, some d, some p, some h, some n, some ms =>
              if how != "copy" && how != "pickle" then "bad-op" else
              if side != "c" && side != "o" then "bad-op" else
              let f := mkFields k v d p h n
              let (h0, o) := OS.fresh f
              let (h1, c) := if how == "copy" then OS.copy h0 o else OS.pickle h0 o
              let eq0 := fieldsBEq (fields h1 c) (fields h0 o)
              let share := shareFlags h1 o c
              let tgt := if side == "c" then c else o
              let other := if side == "c" then o else c
              let (h2, tgt', errs) := ms.foldl (fun (acc : Hp × Ob × List String) m =>
                let r := step acc.1 acc.2.1 m true
                (r.heap, r.self, (r.err.getD "ok") :: acc.2.2)) (h1, tgt, [])
              let errS := if errs.isEmpty then "-" else ",".intercalate errs.reverse
              s!"eq={showBool eq0} share={share} errs={errS} # {showFields (fields h2 tgt')} # {showFields (fields h2 other)}"
          | _, _, _, _, _, _, _ => "bad-op"
      | _ => "bad-op"
  | [] => "bad-op"

/-! ## `ob.after op step step … ; A ; B` — observe, mutate in place, observe again

The steps run on the ONE object built from `A`: `hash` / `set` (take its hash, put it in a set), `copy` / `pickle`
(continue with the clone), the in-place mutators `setdt:… setdtd:… strip buffer:d setprop:k=v`, and `m<i>/<mutator>`
(the mutator on member `i` of a multi-shape).  Then `op` is evaluated on (the object, a freshly built `B`).  On values
only the time bounds move; a failing call leaves the object as it was. -/

open GV.OS in
def dtApply (d : Dt) : Mut Nat → Dt
  | .setDt v => v
  | .stripDt => none
  | .bufferDt k =>
      match d with
      | none => none
      | some t => if t.stop + k < t.start - k then some t else some ⟨t.start - k, t.stop + k⟩
  | _ => d

def shapeMapDt (f : Dt → Dt) : Shape → Shape
  | .pl g hs dt => .pl g hs (f dt)
  | .line vs dt => .line vs (f dt)
  | .point c dt => .point c (f dt)

def anyMapDt (f : Dt → Dt) : Any → Any
  | .single s => .single (shapeMapDt f s)
  | .multi m => .multi { m with dt := f m.dt }

def anyMapMember (i : Nat) (f : Dt → Dt) : Any → Any
  | .multi m => .multi { m with members := m.members.mapIdx fun j x => if j == i then shapeMapDt f x else x }
  | a => a

def applyStep (a : Any) (st : String) : Option Any :=
  if st == "hash" || st == "set" || st == "copy" || st == "pickle" || st == "deepcopy" then some a
  else if st.startsWith "m" && (st.splitOn "/").length == 2 then
    match st.splitOn "/" with
    | [mi, m] => do
        let i ← parseNat (mi.drop 1).toString
        let mu ← parseMut m
        some (anyMapMember i (fun d => dtApply d mu) a)
    | _ => none
  else (parseMut st).map fun mu => anyMapDt (fun d => dtApply d mu) a

def handleAfter (args : List String) : String :=
  match splitAt ";" args with
  | [op :: steps, ta, tb] => run1 do
      let (x, t1) ← parseAny ta
      let (y, t2) ← parseAny tb
      let env := (t1.merge t2).env
      let x' ← ofOpt (steps.foldl (fun (acc : Option Any) st => acc.bind fun a => applyStep a st) (some x))
      match op with
      | "eq" => .ok (showBool (Any.eq env x' y))
      | "req" => .ok (showBool (Any.eq env y x'))
      | "hasheq" => .ok (showBool ((x'.hashKey env).equiv (y.hashKey env)))
      | "setlen" => .ok (toString (setLen2 env x' y))
      | "dictget" => .ok (showBool (dictHas env x' y))
      | "rdictget" => .ok (showBool (dictHas env y x'))
      | _ => failBad
  | _ => "bad-op"

end GV.Drv.C15

namespace GV.Drv

def handleOb (op : String) (args : List String) : String :=
  if op == "iso" then C15.handleIso args else if op == "after" then C15.handleAfter args else C15.handleObVal op args

end GV.Drv
