import GeoVerif.Model.Hull
import Batteries.Data.List.Basic
/-!
# C10 — vocabulary of the specification (no algorithm is mentioned here)

A *ring* is a vertex list whose last entry repeats the first (`GeoPolygon` outline convention).
-/
namespace GV.Hull

/-- strict tuple order on `(lon, lat)` -/
def lexLt (a b : Pt) : Prop := a.1 < b.1 ∨ (a.1 = b.1 ∧ a.2 < b.2)

/-- `q` lies on or to the left of the directed line `u → v` -/
def LeftOf (q u v : Pt) : Prop := 0 ≤ cross u v q

/-- `q` is on or to the left of every directed edge of the vertex list (for a counter-clockwise
    convex ring: `q` is in the closed polygon) -/
def Contains (ring : List Pt) (q : Pt) : Prop := List.IsChain (fun u v => LeftOf q u v) ring

/-- every three consecutive entries make a strict left (counter-clockwise) turn -/
def Turns : List Pt → Prop
  | a :: b :: c :: rest => 0 < cross a b c ∧ Turns (b :: c :: rest)
  | _ => True

/-- the closed ring followed by its second vertex: the consecutive triples of `cyc ring` are exactly
    the cyclically consecutive vertex triples of the ring (including the one around the start) -/
def cyc (ring : List Pt) : List Pt := ring ++ (ring.drop 1).take 1

/-- all points on one line (true for 0, 1 and 2 distinct points) -/
def Collinear (pts : List Pt) : Prop := ∀ a ∈ pts, ∀ b ∈ pts, ∀ c ∈ pts, cross a b c = 0

/-- `m` is the lexicographically smallest / largest member -/
def IsLexMin (pts : List Pt) (m : Pt) : Prop := m ∈ pts ∧ ∀ q ∈ pts, q = m ∨ lexLt m q
def IsLexMax (pts : List Pt) (m : Pt) : Prop := m ∈ pts ∧ ∀ q ∈ pts, q = m ∨ lexLt q m

/-- **the laws of the statement for a ring** (no algorithm mentioned): a closed ring over input
    points that has every input point on or left of every edge, turns strictly left at every vertex
    (cyclically) and repeats no vertex. -/
structure IsConvexRing (pts ring : List Pt) : Prop where
  closed : ring.head? = ring.getLast?
  long : 3 ≤ ring.length
  sub : ∀ x ∈ ring, x ∈ pts
  contains : ∀ q ∈ pts, Contains ring q
  turns : Turns (cyc ring)
  nodup : ring.dropLast.Nodup

/-- … that moreover starts at the lexicographic minimum of the inputs (the laws leave the start
    vertex free; `convex_hull` starts there) -/
structure IsHullRing (pts ring : List Pt) : Prop extends IsConvexRing pts ring where
  start : ∃ m, IsLexMin pts m ∧ ring.head? = some m

end GV.Hull
