import GeoVerif.Model.GeoJson
/-!
# Specification vocabulary for C14 (no algorithms)

* what a lawful Python runtime is (`Rt.Lawful`),
* well-formedness of what the constructors leave behind (`PosOK`, `Closed`, `ShellOK`, `HoleOK`, …),
* the RFC 7946 notion of ring orientation: the sign of the plain shoelace area (`area2`),
* accessors for the members of an exported document.
-/
namespace GV.GeoJson

/-- the upper-case spelling `parse_geojson` looks up -/
def Kind.upperName : Kind → String
  | .point => "POINT"
  | .line => "LINESTRING"
  | .polygon => "POLYGON"
  | .mpoint => "MULTIPOINT"
  | .mline => "MULTILINESTRING"
  | .mpoly => "MULTIPOLYGON"

/-- what is assumed of `datetime.isoformat`, `datetime.fromisoformat` and `str.upper` -/
structure Rt.Lawful (rt : Rt) : Prop where
  parse_iso : ∀ x, rt.parse (rt.iso x) = .ok x
  iso_ne : ∀ x, rt.iso x ≠ ""
  upper_kind : ∀ k : Kind, rt.upper k.name = k.upperName
  upper_feature : rt.upper "Feature" = "FEATURE"
  upper_fc : rt.upper "FeatureCollection" = "FEATURECOLLECTION"

/-- the range `Coordinate.__init__` leaves (C08): the constructor is the identity on such values -/
def PosOK (p : Pos) : Prop := -180 ≤ p.lon ∧ p.lon < 180 ∧ -90 ≤ p.lat ∧ p.lat ≤ 90

/-- first position = last position -/
def Closed {α : Type} (r : List α) : Prop := r.head? = r.getLast?

/-- an outline as `GeoPolygon.__init__` leaves it: non-empty, closed, counter-clockwise for the
    library's own test -/
def ShellOK (r : List Pos) : Prop :=
  r ≠ [] ∧ Closed r ∧ isCCW (r.map Pos.pt) = true

/-- a hole outline that is not degenerate: reversing it changes the answer of the orientation test
    (a zero-area ring is "counter-clockwise" in both directions) -/
def HoleOK (h : List Pos) : Prop :=
  ShellOK h ∧ isCCW (h.reverse.map Pos.pt) = false

/-- JSON-native user properties that do not use the two reserved names (I4) -/
def PropsOK (o : Obj) : Prop :=
  nativeKvs o = true ∧ oget o "datetime_start" = none ∧ oget o "datetime_end" = none

/-- what `TimeInterval.__init__` guarantees -/
def DtOK : Option TI → Prop
  | none => True
  | some t => t.start ≤ t.stop

/-- extra keyword arguments that do not clobber the members the importers read -/
def ExtraOK (extra : Obj) : Prop :=
  oget extra "type" = none ∧ oget extra "geometry" = none ∧ oget extra "properties" = none ∧
    oget extra "coordinates" = none

/-! ### ring orientation as the RFC means it -/

/-- Σ f(vᵢ, vᵢ₊₁) over consecutive vertices -/
def chain (f : Pt → Pt → Rat) : List Pt → Rat
  | a :: b :: r => f a b + chain f (b :: r)
  | _ => 0

/-- twice the signed area of a closed ring (plain shoelace): positive = counter-clockwise -/
def area2 (r : List Pt) : Rat := chain (fun a b => a.1 * b.2 - b.1 * a.2) r

/-- no edge of the (closed) ring spans more than 180° of longitude, i.e. `ensure_edge_bounds` is the
    identity on every edge: the ring does not cross the antimeridian -/
def NoWrap : List Pt → Prop
  | a :: b :: r => absR (a.1 - b.1) ≤ 180 ∧ NoWrap (b :: r)
  | _ => True

/-! ### members of an exported document -/

def J.member (d : J) (k : String) : Option J :=
  match d with
  | .obj o => oget o k
  | _ => none

/-- the `properties` member as a dict -/
def J.propsOf (d : J) : Option Obj :=
  match d.member "properties" with
  | some (.obj p) => some p
  | _ => none

/-- all keys distinct (true of every Python dict) -/
def KeysNodup (o : Obj) : Prop := (okeys o).Nodup

end GV.GeoJson

namespace GV.GeoJson

def PolySrc.isRing : PolySrc → Bool
  | .ring .. => true
  | _ => false

/-- hypotheses of the round trip for one polygon-like export source drawn with `k`:
    every emitted position is in the constructor's range, the shell has a vertex, and
    * `GeoRing`: every ring has a vertex (its polygon form rebuilds the holes from the emitted rings);
    * the others: every hole's default outline is as `GeoPolygon.__init__` leaves it and — when the reader
      does not re-reverse holes (`strict`, i.e. `GeoPolygon.from_geojson`) — is not degenerate. -/
structure PolyOK (p : PolySrc) (k : Option Nat) (strict : Bool) : Prop where
  pos : ∀ r ∈ p.linearRings k, ∀ q ∈ r, PosOK q
  rings : p.isRing = true → ∀ r ∈ p.linearRings k, r ≠ []
  shell : p.isRing = false → p.bounding k ≠ []
  holes : p.isRing = false → ∀ h ∈ p.holes, if strict then HoleOK (h.bounding none) else ShellOK (h.bounding none)

/-- hypotheses of the round trip for a geometry -/
def GeomOK : Geom → Option Nat → Prop
  | .poly p, k => PolyOK p k true
  | .line vs, _ => ∀ q ∈ vs, PosOK q
  | .point p, _ => PosOK p
  | .mpoly ps, k => ∀ p ∈ ps, PolyOK p k false ∧ p.isRing = false
  | .mline ls, _ => ∀ l ∈ ls, ∀ q ∈ l, PosOK q
  | .mpoint ps, _ => ∀ q ∈ ps, PosOK q

end GV.GeoJson

namespace GV.GeoJson

/-! ### ring orientation across the antimeridian

Longitudes are made continuous along the ring: every step is taken the short way round (a step of more than
180° is a crossing of ±180).  The RFC's "counter-clockwise" is the sign of the plain shoelace area of that
un-wrapped ring.  A ring that runs once around a pole does not close after un-wrapping (`turn ≠ 0`); for such a
ring "counter-clockwise" has no planar meaning and nothing is claimed. -/

/-- the longitude step from `a` to `b`, taken the short way round -/
def dlon (a b : Rat) : Rat :=
  if b - a > 180 then b - a - 360 else if b - a < -180 then b - a + 360 else b - a

/-- the ring with continuous longitudes, the first vertex at longitude `u` -/
def unwrapFrom (u : Rat) : List Pt → List Pt
  | a :: b :: r => (u, a.2) :: unwrapFrom (u + dlon a.1 b.1) (b :: r)
  | [a] => [(u, a.2)]
  | [] => []

def unwrap : List Pt → List Pt
  | [] => []
  | a :: r => unwrapFrom a.1 (a :: r)

/-- total signed longitude travelled along the ring (0 for a ring that does not run around a pole) -/
def turn (r : List Pt) : Rat := chain (fun a b => dlon a.1 b.1) r

/-- stored longitudes are in `[-180, 180]` -/
def LonOK (r : List Pt) : Prop := ∀ p ∈ r, -180 ≤ p.1 ∧ p.1 ≤ 180

/-- twice the signed area of the un-wrapped ring, `none` when it does not close -/
def winding (r : List Pt) : Option Rat :=
  if turn r = 0 then some (area2 (unwrap r)) else none

end GV.GeoJson
